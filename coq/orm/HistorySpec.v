(* C36 - the spec side: what "the net change since load" means, stated without reference to
   committed_state, plus the well-formedness invariant that ties captured values to the database. *)
From Coq Require Import List NArith Bool.
Import ListNotations.
From SAV.orm Require Import History.
Open Scope N_scope.

(* the value the attribute had when it was loaded / last flushed, if the ORM could know it *)
Inductive base (A : Type) : Type := Unknown | Known (v : A).
Arguments Unknown {A}. Arguments Known {A} v.

(* documented conventions for a plain scalar:
   - same value: unchanged; different: added new / deleted old (None included)
   - missing previous value: nothing is reported deleted; a deletion is reported as added [None] *)
Definition net_diff_scalar (b : base val) (cur : option val) : hist :=
  match b, cur with
  | Known p, Some c => if c =? p then ([], [c], []) else ([c], [], [p])
  | Known p, None => ([], [], [p])
  | Unknown, Some c => ([c], [], [])
  | Unknown, None => ([0], [], [])
  end.

(* related object: None is never reported as deleted *)
Definition net_diff_object (b : base val) (cur : option val) : hist :=
  match b, cur with
  | Known p, Some c => if c =? p then ([], [c], []) else ([c], [], if p =? 0 then [] else [p])
  | Known p, None => if p =? 0 then ([0], [], []) else ([], [], [p])
  | Unknown, Some c => ([c], [], [])
  | Unknown, None => ([0], [], [])
  end.

(* collection: identity-based membership difference; without a current collection nothing is known *)
Definition net_diff_coll (b : base (list val)) (cur : option (list val)) : hist :=
  match cur with
  | None => blank
  | Some c =>
    match b with
    | Unknown => (c, [], [])
    | Known o => (filter (fun x => negb (memb x o)) c, filter (fun x => memb x o) c,
                  filter (fun x => negb (memb x c)) o)
    end
  end.

Definition base_of {A} (c : comm A) : base A := match c with CVal v => Known v | _ => Unknown end.

Definition same_set (l l' : list val) : Prop := forall o, In o l <-> In o l'.

(* ---- invariant: what is captured in committed_state is the database value ---- *)
Record wf (s : st) : Prop := mkwf {
  wf_x_comm : forall p, x_c s = CVal p -> p = db_x s;
  wf_x_clean : forall v, x_c s = NoHist -> x_d s = Some v -> v = db_x s;
  wf_b_comm : forall p, b_c s = CVal p -> p = db_b s;
  wf_b_clean : forall v, b_c s = NoHist -> b_d s = Some v -> v = db_b s;
  wf_c_comm : forall l, c_c s = CVal l -> same_set l (db_c s);
  wf_c_clean : forall l, c_c s = NoHist -> c_d s = Some l -> same_set l (db_c s);
  wf_c_kind : c_c s <> CNoResult /\ (c_c s = CNoValue -> db_c s = []);
  wf_bid : bid_d s = false -> bid_e s = false -> db_b s = 0;
  wf_b_nv : b_c s = CNoValue -> db_b s = 0;
  wf_new : persistent s = false -> db_x s = 0 /\ db_b s = 0 /\ db_c s = [] /\ bid_d s = false /\ bid_e s = false;
  wf_unmod : modified s = false -> x_c s = NoHist /\ b_c s = NoHist /\ c_c s = NoHist
}.

(* operations that are synchronisation points *)
Definition is_sync (o : op) : bool := match o with Flush | Expire => true | _ => false end.
Definition nosync (ops : list op) : bool := forallb (fun o => negb (is_sync o)) ops.

(* "the attribute was loaded with value v0 and has not been synchronised since" *)
Definition tracks_x (v0 : val) (s : st) : Prop :=
  (x_c s = NoHist /\ x_d s = Some v0) \/ x_c s = CVal v0.
Definition tracks_b (v0 : val) (s : st) : Prop :=
  (b_c s = NoHist /\ b_d s = Some v0) \/ b_c s = CVal v0.
Definition tracks_c (l0 : list val) (s : st) : Prop :=
  (c_c s = NoHist /\ c_d s = Some l0) \/ c_c s = CVal l0.

(* added and deleted parts of a history *)
Definition changes (h : hist) : list val * list val := let '(a, _, d) := h in (a, d).

(* what a successful flush must leave in the database *)
Definition exp_x (s : st) : val := if is_nohist (x_c s) then db_x s else opt_or (x_d s) 0.
Definition exp_b (s : st) : val := if is_nohist (b_c s) then db_b s else opt_or (b_d s) 0.
Definition exp_c (s : st) : list val := if is_nohist (c_c s) then db_c s else opt_or (c_d s) [].

(* the two defective regions of flush on the unchanged code *)
(* a deleted collection attribute whose captured value is not empty: its history is blank *)
Definition coll_deleted (s : st) : bool :=
  match c_c s, c_d s with CVal (_ :: _), None => true | _, _ => false end.
Definition flush_guard (s : st) : bool := negb (coll_deleted s).
