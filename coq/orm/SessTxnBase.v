(* C33 - generic lemmas about the session model: the state/exception monad, function updates, index sets. *)
From Coq Require Import List ZArith Bool Arith Lia.
Import ListNotations.
From SAV.orm Require Import SessTxn.

Lemma bind_inv : forall (a b : M) st r st',
  (a ;; b) st = (r, st') ->
  (exists st1, a st = (Ok, st1) /\ b st1 = (r, st')) \/ (a st = (r, st') /\ r <> Ok).
Proof.
  intros a b st r st' H. unfold bind in H. destruct (a st) as [ra st1] eqn:E.
  destruct ra.
  - left. exists st1. split; auto.
  - right. inversion H; subst. split; auto. discriminate.
  - right. inversion H; subst. split; auto. discriminate.
Qed.

Lemma bind_ok : forall (a b : M) st st1, a st = (Ok, st1) -> (a ;; b) st = b st1.
Proof. intros. unfold bind. rewrite H. reflexivity. Qed.

Lemma bind_fail : forall (a b : M) st r st1, a st = (r, st1) -> r <> Ok -> (a ;; b) st = (r, st1).
Proof. intros. unfold bind. rewrite H. destruct r; try reflexivity. congruence. Qed.

Lemma lift_eq : forall g st, lift g st = (Ok, g st).
Proof. reflexivity. Qed.
Lemma ret_eq : forall st, ret st = (Ok, st).
Proof. reflexivity. Qed.
Lemma withst_eq : forall k st, withst k st = k st st.
Proof. reflexivity. Qed.

(* a property of states preserved by every step of a fold is preserved by the fold *)
Lemma foldM_pres : forall {A} (P : sess -> Prop) (f : A -> M) (l : list A),
  (forall x st r st', f x st = (r, st') -> P st -> P st') ->
  forall st r st', foldM f l st = (r, st') -> P st -> P st'.
Proof.
  intros A P f l Hf. induction l as [|x l IH]; intros st r st' H HP.
  - inversion H; subst; auto.
  - cbn [foldM] in H. apply bind_inv in H. destruct H as [[st1 [H1 H2]]|[H1 _]].
    + eapply IH; eauto.
    + eapply Hf; eauto.
Qed.

Lemma fold_left_pres : forall {A} (P : sess -> Prop) (g : sess -> A -> sess) (l : list A),
  (forall x st, P st -> P (g st x)) -> forall st, P st -> P (fold_left g l st).
Proof. intros A P g l Hg. induction l; intros st HP; cbn; auto. Qed.

Lemma updN_same : forall {A} (f : nat -> A) k v, updN f k v k = v.
Proof. intros. unfold updN. rewrite Nat.eqb_refl. reflexivity. Qed.
Lemma updN_other : forall {A} (f : nat -> A) k v x, x <> k -> updN f k v x = f x.
Proof. intros. unfold updN. destruct (Nat.eqb_spec x k); congruence. Qed.
Lemma updZ_same : forall {A} (f : Z -> A) k v, updZ f k v k = v.
Proof. intros. unfold updZ. rewrite Z.eqb_refl. reflexivity. Qed.
Lemma updZ_other : forall {A} (f : Z -> A) k v x, x <> k -> updZ f k v x = f x.
Proof. intros. unfold updZ. destruct (Z.eqb_spec x k); congruence. Qed.

Lemma mem_In : forall x l, mem x l = true <-> In x l.
Proof.
  intros. unfold mem. rewrite existsb_exists. split.
  - intros [y [Hy He]]. apply Nat.eqb_eq in He. subst. auto.
  - intros H. exists x. split; auto. apply Nat.eqb_refl.
Qed.
Lemma mem_remm : forall x y l, mem x (remm y l) = negb (Nat.eqb y x) && mem x l.
Proof.
  intros. unfold remm. induction l as [|a l IH]; cbn.
  - rewrite andb_false_r. reflexivity.
  - destruct (Nat.eqb_spec y a); cbn.
    + subst. unfold mem in IH. rewrite IH. destruct (Nat.eqb_spec x a); cbn.
      * subst. rewrite Nat.eqb_refl. reflexivity.
      * reflexivity.
    + unfold mem in IH. rewrite IH. destruct (Nat.eqb_spec x a); cbn.
      * subst. destruct (Nat.eqb_spec y a); [congruence|]. reflexivity.
      * reflexivity.
Qed.
Lemma mem_app : forall x l1 l2, mem x (l1 ++ l2) = mem x l1 || mem x l2.
Proof. intros. unfold mem. apply existsb_app. Qed.
Lemma mem_addm : forall x y l, mem x (addm y l) = Nat.eqb x y || mem x l.
Proof.
  intros. unfold addm. destruct (mem y l) eqn:E.
  - destruct (Nat.eqb_spec x y); subst; cbn; auto.
  - rewrite mem_app. cbn. rewrite orb_false_r. apply orb_comm.
Qed.

(* upd_head touches the stack only *)
Lemma upd_head_fields : forall s g,
  objs (upd_head s g) = objs s /\ nobj (upd_head s g) = nobj s /\ snew (upd_head s g) = snew s /\
  sdel (upd_head s g) = sdel s /\ eoc (upd_head s g) = eoc s /\ handles (upd_head s g) = handles s /\
  committed (upd_head s g) = committed s /\ work (upd_head s g) = work s /\ saves (upd_head s g) = saves s /\
  nfid (upd_head s g) = nfid s /\
  stack (upd_head s g) = match stack s with [] => [] | f :: r => g f :: r end.
Proof.
  intros s g. unfold upd_head. destruct (stack s) eqn:E; cbn; rewrite ?E; repeat split; reflexivity.
Qed.

(* the statements with the crash oracle: a successful run is the plain run; a failing one is a plain run of
   a prefix (the failure is reported where a statement was executed, never in between) *)
Lemma fail_at_inv : forall c r st x st', fail_at c r st = (x, st') -> x <> Unmodelled -> x = Err c /\ st' = st.
Proof.
  intros c r st x st' H Hx. unfold fail_at in H.
  destruct (head_nested st && existsb (needs_load st) r); inversion H; subst; auto. congruence.
Qed.
Lemma exec_f_char : forall c l k st r st', exec_f k c l st = (r, st') -> r <> Unmodelled ->
  (r = Ok -> foldM do_stmt l st = (Ok, st')) /\
  (r <> Ok -> exists pre suf r0, l = pre ++ suf /\ foldM do_stmt pre st = (r0, st') /\ r0 <> Unmodelled).
Proof.
  intros c l. induction l as [|s l IH]; intros k st r st' H Hr.
  - inversion H; subst. split; [reflexivity|congruence].
  - cbn [exec_f] in H. destruct (do_stmt s st) as [[|c'|] s1] eqn:E1.
    + assert (Rec : forall k', exec_f k' c l s1 = (r, st') ->
                (r = Ok -> foldM do_stmt (s :: l) st = (Ok, st')) /\
                (r <> Ok -> exists pre suf r0, s :: l = pre ++ suf /\ foldM do_stmt pre st = (r0, st') /\ r0 <> Unmodelled)).
      { intros k' H'. destruct (IH k' s1 r st' H' Hr) as [A B]. split.
        - intros E. cbn [foldM]. rewrite (bind_ok _ _ _ _ E1). auto.
        - intros E. destruct (B E) as [pre [suf [r0 [P1 [P2 P3]]]]].
          exists (s :: pre), suf, r0. split; [cbn; congruence|]. split; [|exact P3].
          cbn [foldM]. rewrite (bind_ok _ _ _ _ E1). exact P2. }
      assert (Fa : fail_at c l s1 = (r, st') ->
                (r = Ok -> foldM do_stmt (s :: l) st = (Ok, st')) /\
                (r <> Ok -> exists pre suf r0, s :: l = pre ++ suf /\ foldM do_stmt pre st = (r0, st') /\ r0 <> Unmodelled)).
      { intros H'. destruct (fail_at_inv _ _ _ _ _ H' Hr) as [X1 X2]. subst. split; [discriminate|]. intros _.
        exists [s], l, Ok. split; [reflexivity|]. split; [|discriminate].
        cbn [foldM]. rewrite (bind_ok _ _ _ _ E1). reflexivity. }
      destruct (emits s st); [|apply (Rec k H)].
      destruct k as [[|k']|]; [apply (Fa H)|apply (Rec _ H)|apply (Rec _ H)].
    + assert (Fa : forall c0, fail_at c0 l s1 = (r, st') ->
                (r = Ok -> foldM do_stmt (s :: l) st = (Ok, st')) /\
                (r <> Ok -> exists pre suf r0, s :: l = pre ++ suf /\ foldM do_stmt pre st = (r0, st') /\ r0 <> Unmodelled)).
      { intros c0 H'. destruct (fail_at_inv _ _ _ _ _ H' Hr) as [X1 X2]. subst. split; [discriminate|]. intros _.
        exists [s], l, (Err c'). split; [reflexivity|]. split; [|discriminate].
        cbn [foldM]. rewrite (bind_fail _ _ _ _ _ E1); [reflexivity|discriminate]. }
      destruct (emits s st && Z.eqb c' E_STALE && match k with Some O => true | _ => false end); eapply Fa; eauto.
    + inversion H; subst. congruence.
Qed.

Lemma bind_assoc : forall (a b c : M) st, ((a ;; b) ;; c) st = (a ;; (b ;; c)) st.
Proof. intros a b c st. unfold bind. destruct (a st) as [[| |] s1]; reflexivity. Qed.
Lemma bind_assoc4 : forall (a b c d : M) st, ((a ;; (b ;; c)) ;; d) st = (a ;; (b ;; (c ;; d))) st.
Proof.
  intros a b c d st. unfold bind. destruct (a st) as [[| |] s1]; try reflexivity.
  destruct (b s1) as [[| |] s2]; reflexivity.
Qed.

