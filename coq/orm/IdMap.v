(* C34 - executable model of the Session identity map (orm/identity.py, orm/session.py, orm/loading.py).

   Same representation as SAV.orm.Lifecycle (C35): one Session, a growing list of mapped objects, the
   sets keyed by InstanceState kept as flags on the object record; here the identity key is explicit
   (primary key value, identity token), primary keys can be changed and flushed (key switch, restored on
   rollback), and there are load operations (queries by several routes, get, refresh, merge).
     iimap o  <->  session.identity_map._dict[state.key] is state
   Attribute-level state (expired, pk attribute expired / loaded, modified) and the rows visible on the
   session's connection are inputs of every operation ([env]); the theorems quantify over them. *)
From Coq Require Import List ZArith Bool Arith.
Import ListNotations.
Open Scope Z_scope.

Definition key := (Z * Z)%type.     (* (primary key, identity token; 0 = None) *)
Definition key_eqb (a b : key) : bool := Z.eqb (fst a) (fst b) && Z.eqb (snd a) (snd b).
Definition okey_eqb (a b : option key) : bool :=
  match a, b with Some x, Some y => key_eqb x y | None, None => true | _, _ => false end.

Record obj := mkObj {
  pk : Z;                  (* current value of the primary key attribute *)
  okey : option key;       (* state.key *)
  otok : Z;                (* state.identity_token *)
  osess : bool;            (* state.session_id is this session *)
  odel : bool;             (* state._deleted *)
  inew : bool; iimap : bool; isdel : bool; itnew : bool; itdel : bool;
  oksw : option key }.     (* transaction._key_switches[state][0]: the key before the first switch *)

Record state := mkSt {
  eoc : bool;
  objs : list obj;
  tx : option bool;        (* session._transaction: None | Some deactive? *)
  flushed : bool;          (* a flush already ran in the current operation (modified flags of env are stale) *)
  bad : bool }.            (* ghost flag, never read by the model: set when identity_map.replace() evicts another
                              object, when _restore_snapshot re-maps a state that is not attached, and when
                              Session.delete() is given a state carrying the _deleted flag *)

Record env := mkEnv {
  rows : list Z;
  eexp : nat -> bool; eidexp : nat -> bool; ehasid : nat -> bool; emodified : nat -> bool }.

Definition set_pk v o := mkObj v (okey o) (otok o) (osess o) (odel o) (inew o) (iimap o) (isdel o) (itnew o) (itdel o) (oksw o).
Definition set_key v o := mkObj (pk o) v (otok o) (osess o) (odel o) (inew o) (iimap o) (isdel o) (itnew o) (itdel o) (oksw o).
Definition set_sess v o := mkObj (pk o) (okey o) (otok o) v (odel o) (inew o) (iimap o) (isdel o) (itnew o) (itdel o) (oksw o).
Definition set_del v o := mkObj (pk o) (okey o) (otok o) (osess o) v (inew o) (iimap o) (isdel o) (itnew o) (itdel o) (oksw o).
Definition set_inew v o := mkObj (pk o) (okey o) (otok o) (osess o) (odel o) v (iimap o) (isdel o) (itnew o) (itdel o) (oksw o).
Definition set_iimap v o := mkObj (pk o) (okey o) (otok o) (osess o) (odel o) (inew o) v (isdel o) (itnew o) (itdel o) (oksw o).
Definition set_isdel v o := mkObj (pk o) (okey o) (otok o) (osess o) (odel o) (inew o) (iimap o) v (itnew o) (itdel o) (oksw o).
Definition set_itnew v o := mkObj (pk o) (okey o) (otok o) (osess o) (odel o) (inew o) (iimap o) (isdel o) v (itdel o) (oksw o).
Definition set_itdel v o := mkObj (pk o) (okey o) (otok o) (osess o) (odel o) (inew o) (iimap o) (isdel o) (itnew o) v (oksw o).
Definition set_ksw v o := mkObj (pk o) (okey o) (otok o) (osess o) (odel o) (inew o) (iimap o) (isdel o) (itnew o) (itdel o) v.

Definition new_obj (k : Z) : obj := mkObj k None 0 false false false false false false false None.
Definition dflt : obj := new_obj 0.
Definition get (st : state) (i : nat) : obj := nth i (objs st) dflt.

Fixpoint mapi (f : nat -> obj -> obj) (i : nat) (l : list obj) : list obj :=
  match l with [] => [] | o :: r => f i o :: mapi f (S i) r end.
Definition app_all (f : nat -> obj -> obj) (st : state) : state :=
  mkSt (eoc st) (mapi f 0%nat (objs st)) (tx st) (flushed st) (bad st).
Definition only (i : nat) (g : obj -> obj) : nat -> obj -> obj := fun j o => if Nat.eqb j i then g o else o.
Definition set_tx (t : option bool) (st : state) : state := mkSt (eoc st) (objs st) t (flushed st) (bad st).
Definition set_flushed (b : bool) (st : state) : state := mkSt (eoc st) (objs st) (tx st) b (bad st).
Definition flag_bad (b : bool) (st : state) : state := mkSt (eoc st) (objs st) (tx st) (flushed st) (bad st || b).
Definition has_tx (st : state) : bool := match tx st with Some _ => true | None => false end.
Definition is_deact (st : state) : bool := match tx st with Some d => d | None => false end.
Definition autobegin (st : state) : state := match tx st with None => set_tx (Some false) st | Some _ => st end.
Definition all_idx (st : state) : list nat := seq 0 (length (objs st)).
Definition any_obj (p : obj -> bool) (st : state) : bool := existsb p (objs st).

(* ---- identity map ---------------------------------------------------------------------------- *)
Fixpoint holder_from (k : key) (i : nat) (l : list obj) : option nat :=
  match l with
  | [] => None
  | o :: r => if iimap o && okey_eqb (okey o) (Some k) then Some i else holder_from k (S i) r
  end.
Definition holder (k : key) (st : state) : option nat := holder_from k 0%nat (objs st).
Definition conflict (i : nat) (st : state) : bool :=
  match okey (get st i) with
  | Some k => match holder k st with Some h => negb (Nat.eqb h i) | None => false end
  | None => false
  end.
(* WeakInstanceDict.replace: [g] is what happens to state [i] (which ends up mapped under [k]); any other
   state mapped under [k] is evicted *)
Definition claiming (i : nat) (k : key) (g : obj -> obj) : nat -> obj -> obj :=
  fun j o => if Nat.eqb j i then g o
             else if iimap o && okey_eqb (okey o) (Some k) then set_iimap false o else o.

(* does another state hold key [k]? *)
Definition evicts (i : nat) (k : key) (st : state) : bool :=
  existsb (fun j => negb (Nat.eqb j i) && iimap (get st j) && okey_eqb (okey (get st j)) (Some k)) (all_idx st).
Definition app_claim (i : nat) (k : key) (g : obj -> obj) (st : state) : state :=
  flag_bad (evicts i k st) (app_all (claiming i k g) st).

(* ---- detach / expunge ------------------------------------------------------------------------- *)
Definition detach_obj (to_transient : bool) (o : obj) : obj :=
  let o1 := set_sess false o in if to_transient then set_del false (set_key None o1) else o1.
Definition expunge_pre (has_tx : bool) (o : obj) : obj :=
  if inew o then set_inew false o
  else if iimap o then set_isdel false (set_iimap false o)
  else if has_tx then set_itdel false o
  else o.
Definition expunge_obj (has_tx to_transient : bool) (o : obj) : obj := detach_obj to_transient (expunge_pre has_tx o).
(* attribute values are discarded; the pk attribute will reload as the pk of the identity *)
Definition expire_obj (o : obj) : obj := match okey o with Some k => set_pk (fst k) o | None => o end.

(* ---- _save_impl / _update_impl / _delete_impl ------------------------------------------------- *)
Definition save_impl (i : nat) (st : state) : state * Z :=
  match okey (get st i) with
  | Some _ => (st, 1)
  | None => (app_all (only i (fun o => set_sess true (set_inew true o))) (autobegin st), 0)
  end.
Definition update_impl (i : nat) (st : state) : state * Z :=
  let o := get st i in
  match okey o with
  | None => (st, 1)
  | Some _ =>
      if odel o then (st, 1)
      else
        let st := autobegin st in
        if conflict i st then (st, 1)
        else (app_all (only i (fun o => set_sess true (set_iimap true (set_isdel false o)))) st, 0)
  end.
Definition revert_obj (o : obj) : obj := set_sess true (set_iimap true (set_isdel false (set_del false o))).
Definition revert_impl (i : nat) (st : state) : state * Z :=
  let o := get st i in
  match okey o with
  | None => (st, 1)
  | Some k => if odel o && negb (osess o) then (st, 0) else (app_claim i k revert_obj st, 0)
  end.
Definition delete_impl (i : nat) (st : state) : state * Z :=
  let o := get st i in
  match okey o with
  | None => (st, 1)
  | Some _ =>
      let st := autobegin st in
      if isdel o then (st, 0)
      else if conflict i st then (st, 1)
      else (flag_bad (odel o) (app_all (only i (fun o => set_isdel true (set_sess true (set_iimap true o)))) st), 0)
  end.
Definition newly_deleted_obj (has_tx : bool) (o : obj) : obj :=
  set_del true (set_isdel false (set_iimap false (if has_tx then set_itdel true o else o))).

(* ---- _restore_snapshot ------------------------------------------------------------------------- *)
Fixpoint fold_err (f : nat -> state -> state * Z) (l : list nat) (st : state) : state * Z :=
  match l with
  | [] => (st, 0)
  | i :: r => let (st', e) := f i st in if Z.eqb e 0 then fold_err f r st' else (st', e)
  end.
Definition restore_expunge_obj (has_tx : bool) (o : obj) : obj :=
  if itnew o || inew o then expunge_obj has_tx true o else o.
(* "for s, (oldkey, newkey) in self._key_switches.items()": skip what was expunged as new; else safe_discard,
   restore the key, replace *)
Definition unswitch_one (i : nat) (st : state) : state :=
  match oksw (get st i) with
  | None => st
  | Some old =>
      if itnew (get st i) then st   (* added in this transaction: transient again, no key to restore *)
      else flag_bad (negb (osess (get st i))) (app_claim i old (fun o => set_iimap true (set_key (Some old) o)) st)
  end.
Definition restore_snapshot (st : state) : state * Z :=
  let st := app_all (fun _ => restore_expunge_obj (has_tx st)) st in
  let st := fold_left (fun st i => unswitch_one i st) (all_idx st) st in
  let (st, c) := fold_err (fun i st => if itdel (get st i) || isdel (get st i) then revert_impl i st else (st, 0))
                          (all_idx st) st in
  if negb (Z.eqb c 0) then (st, c)
  else (app_all (fun _ o => if iimap o then expire_obj o else o) st, 0).
Definition end_tx_obj (o : obj) : obj := set_ksw None (set_itnew false (set_itdel false o)).
Definition end_tx (st : state) : state := set_tx None (app_all (fun _ => end_tx_obj) st).

(* ---- flush ---------------------------------------------------------------------------------------- *)
Definition memz (k : Z) (l : list Z) : bool := existsb (Z.eqb k) l.
Fixpoint remz (k : Z) (l : list Z) : list Z :=
  match l with [] => [] | x :: r => if Z.eqb x k then remz k r else x :: remz k r end.
Definition memn (i : nat) (l : list nat) : bool := existsb (Nat.eqb i) l.
Definition mod_in_map (e : env) (st : state) : bool :=
  existsb (fun i => iimap (get st i) && emodified e i) (all_idx st).
Definition is_clean (e : env) (st : state) : bool :=
  negb (negb (flushed st) && mod_in_map e st) && negb (any_obj isdel st) && negb (any_obj inew st).
Definition key_pk (o : obj) : Z := match okey o with Some k => fst k | None => 0 end.
Definition is_dirty (e : env) (st : state) (i : nat) : bool :=
  iimap (get st i) && negb (isdel (get st i)) && emodified e i.

Inductive fres := FOk (st : state) (rws : list Z) | FFail (st : state) (code : Z).

(* _organize_states_for_save for the pending state [p] *)
Definition organize_one (e : env) (dels : nat -> bool) (rws : list Z) (st : state) (p : nat)
  : fres * option nat :=
  let op := get st p in
  match holder (pk op, otok op) st with
  | None => (FOk st rws, None)
  | Some ex =>
      if eexp e ex && eidexp e ex && negb (osess (get st ex)) then (FFail st 7, None)
      else if eexp e ex && negb (memz (pk op) rws)
      then (FOk (flag_bad true (app_all (only ex (newly_deleted_obj (has_tx st))) st)) rws, None)
      else (FOk st rws, if dels ex then Some ex else None)
  end.
Fixpoint organize (e : env) (dels : nat -> bool) (rws : list Z) (st : state) (ps : list nat)
  : fres * list (nat * nat) :=
  match ps with
  | [] => (FOk st rws, [])
  | p :: r =>
      if inew (get st p) then
        match organize_one e dels rws st p with
        | (FOk st1 _, rs) =>
            let (res, rsw) := organize e dels rws st1 r in
            (res, match rs with Some ex => (p, ex) :: rsw | None => rsw end)
        | (FFail st1 c, _) => (FFail st1 c, [])
        end
      else organize e dels rws st r
  end.

(* UPDATE statements for changed primary keys, in identity order (the harness cuts histories in which two
   dirty states share the old primary key, so the order between equal keys does not matter) *)
Fixpoint insert_by_key (st : state) (i : nat) (l : list nat) : list nat :=
  match l with
  | [] => [i]
  | j :: r => if Z.leb (key_pk (get st i)) (key_pk (get st j)) then i :: l else j :: insert_by_key st i r
  end.
Definition sort_by_key (st : state) (l : list nat) : list nat := fold_right (insert_by_key st) [] l.
Fixpoint do_updates (st : state) (ds : list nat) (rws : list Z) : Z + list Z :=
  match ds with
  | [] => inr rws
  | d :: r =>
      let o := get st d in
      if Z.eqb (key_pk o) (pk o) then do_updates st r rws
      else if negb (memz (key_pk o) rws) then inl 4
      else if memz (pk o) rws then inl 2
      else do_updates st r (pk o :: remz (key_pk o) rws)
  end.
Fixpoint do_inserts (st : state) (rsw : list nat) (ps : list nat) (rws : list Z) : Z + list Z :=
  match ps with
  | [] => inr rws
  | p :: r =>
      if inew (get st p) && negb (memn p rsw) then
        if memz (pk (get st p)) rws then inl 2 else do_inserts st rsw r (pk (get st p) :: rws)
      else do_inserts st rsw r rws
  end.
Definition delete_loads_ok (e : env) (st0 : state) (lo : list nat) (rws : list Z) : bool :=
  forallb (fun d => negb (isdel (get st0 d) && negb (memn d lo) && eidexp e d && negb (memz (key_pk (get st0 d)) rws)))
          (all_idx st0).
Fixpoint do_deletes (st0 : state) (lo : list nat) (ds : list nat) (rws : list Z) : list Z :=
  match ds with
  | [] => rws
  | d :: r => if isdel (get st0 d) && negb (memn d lo) then do_deletes st0 lo r (remz (key_pk (get st0 d)) rws)
              else do_deletes st0 lo r rws
  end.
Definition flush_db (e : env) (st0 : state) (dirty : list nat) (rsw : list (nat * nat)) (rws : list Z) : Z + list Z :=
  match do_updates st0 (sort_by_key st0 dirty) rws with
  | inl c => inl c
  | inr r1 =>
      match do_inserts st0 (map fst rsw) (all_idx st0) r1 with
      | inl c => inl c
      | inr r2 => if delete_loads_ok e st0 (map snd rsw) r2 then inr (do_deletes st0 (map snd rsw) (all_idx st0) r2)
                  else inl 5
      end
  end.

(* _register_persistent for one state *)
Definition register_obj (has_tx : bool) (newk : key) (o : obj) : obj :=
  let o1 :=
    match okey o with
    | None => set_key (Some newk) o
    | Some k => if key_eqb k newk then o
                else set_key (Some newk) (match oksw o with None => set_ksw (Some k) o | Some _ => o end)
    end in
  let o2 := set_iimap true o1 in
  if inew o then set_inew false (if has_tx then set_itnew true o2 else o2) else o2.
Definition register_one (st : state) (i : nat) : state :=
  let o := get st i in
  let newk := (pk o, otok o) in
  app_claim i newk (register_obj (has_tx st) newk) st.

Definition finalize (st0 : state) (reg : nat -> bool) (st : state) : state :=
  let st := app_all (fun i o => if isdel (get st0 i) then newly_deleted_obj (has_tx st) o else o) st in
  fold_left (fun st i => if reg i then register_one st i else st) (all_idx st0) st.

(* result: state, error code, rows visible afterwards *)
Definition flush (e : env) (st : state) : state * Z * list Z :=
  if is_clean e st then (st, 0, rows e)
  else
    let st0 := autobegin st in
    if is_deact st0 then (st0, 3, rows e)
    else
      let st0 := set_flushed true st0 in
      (* a modified state whose pk attribute is not loaded keeps its identity's pk *)
      let st0 := app_all (fun i o => if is_dirty e st0 i && negb (ehasid e i) then expire_obj o else o) st0 in
      let dirty := filter (is_dirty e st0) (all_idx st0) in
      let fail := fun (st1 : state) (c : Z) =>
                    (* an exception raised by _restore_snapshot itself replaces the original one *)
                    let (st2, c2) := restore_snapshot (set_tx (Some true) st1) in
                    (st2, if Z.eqb c2 0 then c else c2, rows e) in
      match organize e (fun d => isdel (get st0 d)) (rows e) st0 (all_idx st0) with
      | (FFail st1 c, _) => fail st1 c
      | (FOk st1 _, rsw) =>
          match flush_db e st0 dirty rsw (rows e) with
          | inl c => fail st1 c
          | inr rws => (finalize st0 (fun i => inew (get st0 i) || memn i dirty) st1, 0, rws)
          end
      end.

(* ---- operations ------------------------------------------------------------------------------------ *)
Inductive op :=
  | Query (route : Z) (tok : Z) | Get (k : Z) (tok : Z) | Refresh (i : nat) | Merge (i : nat) | Expunge (i : nat)
  | Add (i : nat) | PkSet (i : nat) (k : Z) | Flush | Commit | Rollback | Delete (i : nat) | ExtDelete (k : Z).

Definition add_obj (o : obj) (st : state) : state := mkSt (eoc st) (objs st ++ [o]) (tx st) (flushed st) (bad st).
Definition with_rows (e : env) (rws : list Z) : env := mkEnv rws (eexp e) (eidexp e) (ehasid e) (emodified e).

(* a SELECT through Session.execute: autoflush, then a connection.  result: state, error, rows *)
Definition sql (e : env) (st : state) : state * Z * list Z :=
  let '(st, c, rws) := flush e st in
  if negb (Z.eqb c 0) then (st, c, rws)
  else let st := autobegin st in if is_deact st then (st, 3, rws) else (st, 0, rws).

(* loading._instance_processor for one row: the mapped object of the identity, or a new one *)
Definition load_row (k : key) (st : state) : state * nat :=
  match holder k st with
  | Some h => (st, h)
  | None => (add_obj (mkObj (fst k) (Some k) (snd k) true false false true false false false None) st,
             length (objs st))
  end.
Fixpoint load_rows (tok : Z) (pks : list Z) (st : state) : state * list nat :=
  match pks with
  | [] => (st, [])
  | k :: r => let (st1, h) := load_row (k, tok) st in let (st2, hs) := load_rows tok r st1 in (st2, h :: hs)
  end.
Fixpoint insert_z (x : Z) (l : list Z) : list Z :=
  match l with [] => [x] | y :: r => if Z.leb x y then x :: l else y :: insert_z x r end.
Definition sort_z (l : list Z) : list Z := fold_right insert_z [] l.

Record result := mkRes { rst : state; rerr : Z; robjs : list nat; rnosql : bool }.
Definition ret (st : state) (c : Z) : result := mkRes st c [] false.

Definition do_query (e : env) (tok : Z) (st : state) : result :=
  let '(st, c, rws) := sql e st in
  if negb (Z.eqb c 0) then ret st c
  else let (st, hs) := load_rows tok (sort_z rws) st in mkRes st 0 hs false.

(* Session.get -> _identity_lookup -> loading.get_from_identity, else a SELECT by primary key *)
Definition get_miss (e : env) (k : key) (st : state) : result :=
  let '(st, c, rws) := sql e st in
  if negb (Z.eqb c 0) then ret st c
  else if memz (fst k) rws then let (st, h) := load_row k st in mkRes st 0 [h] false
  else ret st 0.
Definition do_get (e : env) (k : key) (st : state) : result :=
  match holder k st with
  | None => get_miss e k st
  | Some h =>
      if negb (eexp e h) then mkRes st 0 [h] true                  (* present and not expired: no SQL *)
      else if negb (eidexp e h) then mkRes st 0 [h] false
      else if negb (osess (get st h)) then ret st 7               (* DetachedInstanceError *)
      else
        let '(st1, c, rws) := sql e st in
        let gone := fun st2 => get_miss (with_rows e rws) k
                                  (flag_bad true (app_all (only h (newly_deleted_obj (has_tx st2))) st2)) in
        if Z.eqb c 5 then gone st1                                 (* ObjectDeletedError out of the autoflush *)
        else if negb (Z.eqb c 0) then ret st1 c
        else if negb (memz (key_pk (get st1 h)) rws) then gone st1 (* the row is gone *)
        else if odel (get st1 h) then
          (* the autoflush deleted this instance: whatever the map holds now, else a SELECT by primary key *)
          match holder k st1 with
          | Some h' => mkRes st1 0 [h'] false
          | None => get_miss (with_rows e rws) k st1
          end
        else mkRes st1 0 [h] false
  end.

Definition refresh_env (e : env) (i : nat) : env :=
  let upd := fun (f : nat -> bool) (v : bool) j => if Nat.eqb j i then v else f j in
  mkEnv (rows e) (upd (eexp e) true) (upd (eidexp e) true) (upd (ehasid e) false) (upd (emodified e) false).
Definition do_refresh (e : env) (i : nat) (st : state) : result :=
  if negb (iimap (get st i)) then ret st 1
  else
    let st := app_all (only i expire_obj) st in
    let '(st, c, rws) := flush (refresh_env e i) st in
    if negb (Z.eqb c 0) then ret st c
    else
      let st := autobegin st in
      if is_deact st then ret st 3
      else match okey (get st i) with
           | Some k => if memz (fst k) rws then ret st 0 else ret st 1
           | None => ret st 1
           end.

Definition do_merge (e : env) (i : nat) (st : state) : result :=
  let pend := fun j => inew (get st j) in
  let '(st, c, rws) := flush e st in
  if negb (Z.eqb c 0) then ret st c
  else
    let o := get st i in
    let k := match okey o with Some k => k | None => (pk o, otok o) end in
    match holder k st with
    | Some m =>
        if Nat.eqb m i || negb (ehasid e i) then mkRes st 0 [m] false
        else if eidexp e m && negb (pend m && match okey (get st m) with Some _ => true | None => false end) then
          if negb (osess (get st m)) then ret st 7
          else
            let st := autobegin st in
            if is_deact st then ret st 3
            else if negb (memz (key_pk (get st m)) rws) then ret st 5
            else mkRes (app_all (only m (set_pk (pk o))) st) 0 [m] false
        else mkRes (app_all (only m (set_pk (pk o))) st) 0 [m] false
    | None =>
        let st := autobegin st in
        if is_deact st then ret st 3
        else if memz (fst k) rws then
          let (st, m) := load_row k st in
          mkRes (if ehasid e i then app_all (only m (set_pk (pk o))) st else st) 0 [m] false
        else
          let n := length (objs st) in
          let (st, c) := save_impl n (add_obj (new_obj (pk o)) st) in
          mkRes st c [n] false
    end.

Definition do_commit (e : env) (st : state) : result :=
  let st := autobegin st in
  if is_deact st then ret st 3
  else
    let '(st, c, _) := flush e st in
    if negb (Z.eqb c 0) then ret st c
    else
      let st := if eoc st
                then app_all (fun _ o => let o1 := if iimap o then expire_obj o else o in
                                         if itdel o1 then detach_obj false o1 else o1) st
                else st in
      ret (end_tx st) 0.

Definition do_rollback (e : env) (st : state) : result :=
  match tx st with
  | None => ret st 0
  | Some false =>
      let (st, c) := restore_snapshot (set_tx (Some true) st) in
      if negb (Z.eqb c 0) then ret st c else ret (end_tx st) 0
  | Some true =>
      if is_clean e st then ret (end_tx st) 0
      else let (st, c) := restore_snapshot st in
           if negb (Z.eqb c 0) then ret st c else ret (end_tx st) 0
  end.

Definition step (e : env) (o : op) (st0 : state) : result :=
  let st := set_flushed false st0 in
  let lift := fun (r : state * Z) => ret (fst r) (snd r) in
  match o with
  | Query _ tok => do_query e tok st
  | Get k tok => do_get e (k, tok) st
  | Refresh i => do_refresh e i st
  | Merge i => do_merge e i st
  | Expunge i => if negb (osess (get st i)) then ret st 1
                 else ret (app_all (only i (expunge_obj (has_tx st) false)) st) 0
  | Add i => lift (match okey (get st i) with Some _ => update_impl i st | None => save_impl i st end)
  | PkSet i k => let o := get st i in
                 if (inew o || iimap o) && negb (isdel o) && ehasid e i
                 then ret (app_all (only i (set_pk k)) st) 0 else ret st 0
  | Flush => let '(s, c, _) := flush e st in ret s c
  | Commit => do_commit e st
  | Rollback => do_rollback e st
  | Delete i => lift (delete_impl i st)
  | ExtDelete _ => ret st 0
  end.

(* histories are cut before an operation when an identity-less object has lost its pk value, when two
   states about to be flushed would get the same identity, or when two dirty states share their old
   primary key (the outcome depends on the iteration order of Python sets) *)
Definition flush_key (e : env) (st : state) (i : nat) : key :=
  let o := get st i in (if ehasid e i then pk o else key_pk o, otok o).
Definition to_flush (e : env) (st : state) (i : nat) : bool := inew (get st i) || is_dirty e st i.
Fixpoint has_dup {A} (eqb : A -> A -> bool) (l : list A) : bool :=
  match l with [] => false | x :: r => existsb (eqb x) r || has_dup eqb r end.
Definition stop (e : env) (st : state) : bool :=
  existsb (fun i => match okey (get st i) with None => negb (ehasid e i) | Some _ => false end) (all_idx st)
  || has_dup key_eqb (map (flush_key e st) (filter (to_flush e st) (all_idx st)))
  || has_dup Z.eqb (map (fun i => key_pk (get st i)) (filter (is_dirty e st) (all_idx st))).

Definition init (eoc_ : bool) (pks : list Z) : state := mkSt eoc_ (map new_obj pks) None false false.

Fixpoint run (h : list (env * op)) (st : state) : state :=
  match h with
  | [] => st
  | (e, o) :: r => if stop e st then st
                   else let res := step e o st in
                        match o with
                        | Rollback => if negb (Z.eqb (rerr res) 0) then rst res else run r (rst res)
                        | _ => run r (rst res)
                        end
  end.
