(* C50 - proofs about the OrderingList model (attached collections). *)
From Coq Require Import List ZArith Bool Lia Permutation.
Import ListNotations.
From SAV.base Require Import PySlice PySliceProofs.
From SAV.orm Require Import CollBase CollList OrderingList.
Open Scope Z_scope.

Lemma memz_In : forall x l, memz x l = true <-> In x l.
Proof.
  intros; unfold memz; rewrite existsb_exists; split.
  - intros [y [Hy E]]; apply Z.eqb_eq in E; subst; auto.
  - intros H; exists x; split; auto; apply Z.eqb_refl.
Qed.
Lemma memz_false : forall x l, memz x l = false <-> ~ In x l.
Proof. intros; rewrite <- memz_In; destruct (memz x l); split; congruence. Qed.
Lemma nodupb_NoDup : forall l, nodupb l = true -> NoDup l.
Proof.
  induction l; simpl; intros H; constructor.
  - apply andb_prop in H; destruct H as [H _]. apply negb_true_iff in H. apply memz_false; auto.
  - apply andb_prop in H; destruct H; auto.
Qed.

Section P.
Variable base : Z.
Variable roa : bool.

Notation ordered := (ordered base).
Notation order_entity := (order_entity base).
Notation reorder_from := (reorder_from base).
Notation reordered := (reordered base).

Lemma order_entity_true : forall i e p, order_entity i e true p = set_pos p e (Some (base + i)).
Proof. intros; unfold order_entity. destruct (p e); reflexivity. Qed.

Lemma set_pos_same : forall p e v, set_pos p e v e = v.
Proof. intros; unfold set_pos; rewrite Z.eqb_refl; reflexivity. Qed.
Lemma set_pos_other : forall p e v x, x <> e -> set_pos p e v x = p x.
Proof. intros; unfold set_pos. destruct (Z.eqb_spec x e); congruence. Qed.

Lemma reorder_from_notin : forall l i p x, ~ In x l -> reorder_from i l p x = p x.
Proof.
  induction l as [|e r IH]; intros i p x H; simpl; auto.
  rewrite IH by (intro; apply H; right; auto).
  rewrite order_entity_true. apply set_pos_other. intro; subst; apply H; left; auto.
Qed.

Lemma reorder_from_spec : forall l i p k e, NoDup l -> nth_error l k = Some e ->
  reorder_from i l p e = Some (base + i + Z.of_nat k).
Proof.
  induction l as [|a r IH]; intros i p k e ND H; [destruct k; discriminate|].
  inversion ND as [|? ? Ha NDr]; subst. simpl.
  destruct k as [|k]; simpl in H.
  - inversion H; subst. rewrite reorder_from_notin by assumption.
    rewrite order_entity_true, set_pos_same. f_equal; lia.
  - rewrite (IH (i + 1) _ k e NDr H). f_equal; lia.
Qed.

Definition Good (s : ol) : Prop := ordered s /\ NoDup (items s).

Lemma good_reordered : forall l p, NoDup l -> Good (reordered l p).
Proof.
  intros l p ND; split; auto. intros k e H; simpl in *.
  rewrite (reorder_from_spec l 0 p k e ND H). f_equal; lia.
Qed.

Lemma good_empty : Good ol_empty.
Proof. split; [intros k e H; destruct k; discriminate|constructor]. Qed.

(* ---- NoDup of the builtin's results ---- *)
Lemma NoDup_insert : forall (l : list Z) i x, NoDup l -> ~ In x l -> NoDup (py_insert l i x).
Proof.
  intros l i x ND Hx. unfold py_insert.
  eapply Permutation_NoDup; [apply insert_perm|]. constructor; auto.
Qed.
Lemma In_insert : forall (l : list Z) i x y, In y (py_insert l i x) <-> y = x \/ In y l.
Proof.
  intros. unfold py_insert. split; intro H.
  - eapply Permutation_in in H; [|apply Permutation_sym, insert_perm]. destruct H; auto.
  - eapply Permutation_in; [apply insert_perm|]. destruct H; [left|right]; auto.
Qed.
Lemma del_nth_incl : forall n (l : list Z) x, In x (del_nth n l) -> In x l.
Proof.
  induction n; destruct l; simpl; intros; auto. destruct H; eauto.
Qed.
Lemma NoDup_del_nth : forall n (l : list Z), NoDup l -> NoDup (del_nth n l).
Proof.
  induction n; destruct l; simpl; intros H; auto; inversion H; subst; auto.
  constructor; auto. intro Hin; apply del_nth_incl in Hin; auto.
Qed.
Lemma remove_first_sub : forall x (l l' : list Z), remove_first x l = Some l' ->
  (forall y, In y l' -> In y l) /\ (NoDup l -> NoDup l').
Proof.
  induction l as [|a r IH]; simpl; intros l' H; [discriminate|].
  destruct (Z.eqb x a).
  - inversion H; subst. split; [auto|]. intros ND; inversion ND; auto.
  - destruct (remove_first x r) as [r'|] eqn:E; [|discriminate]. inversion H; subst.
    destruct (IH r' eq_refl) as [I1 I2]. split.
    + intros y [->|Hy]; auto.
    + intros ND; inversion ND; subst. constructor; auto.
Qed.
Lemma NoDup_app_r : forall (g d : list Z), NoDup (g ++ d) -> NoDup d.
Proof. induction g; simpl; intros d H; auto. inversion H; auto. Qed.
Lemma NoDup_snoc : forall (l : list Z) x, NoDup l -> ~ In x l -> NoDup (l ++ [x]).
Proof.
  induction l; simpl; intros x ND Hx; [constructor; auto; constructor|].
  inversion ND; subst. constructor.
  - intro H. apply in_app_or in H. destruct H as [H|[->|[]]]; auto.
  - apply IHl; auto.
Qed.
Lemma NoDup_delslice : forall (l : list Z) sl d, NoDup l -> py_delslice l sl = Ok d -> NoDup d.
Proof.
  intros l sl d ND H.
  destruct (py_getslice l sl) as [g|e] eqn:G.
  - pose proof (getslice_delslice_perm Z l sl g d G H) as P.
    eapply Permutation_NoDup in ND; [|exact P]. apply NoDup_app_r in ND; auto.
  - apply getslice_delslice_same_error in G. congruence.
Qed.
Lemma In_set_nth : forall n (l : list Z) y z, In z (set_nth n y l) -> z = y \/ In z l.
Proof.
  induction n; destruct l as [|a l]; simpl; intros y w H; auto.
  - destruct H; auto.
  - destruct H; auto. destruct (IHn _ _ _ H); auto.
Qed.
Lemma NoDup_set_nth : forall n (l : list Z) x, NoDup l -> ~ In x l -> NoDup (set_nth n x l).
Proof.
  induction n; destruct l; simpl; intros y ND Hy; auto; inversion ND; subst.
  - constructor; auto; intro; apply Hy; right; auto.
  - constructor.
    + intro Hin. destruct (In_set_nth _ _ _ _ Hin) as [->|H]; auto.
    + apply IHn; auto.
Qed.
Lemma nth_set_nth : forall n (l : list Z) x k, (n < length l)%nat ->
  nth_error (set_nth n x l) k = if Nat.eqb k n then Some x else nth_error l k.
Proof.
  induction n; destruct l; simpl; intros x k H; try lia.
  - destruct k; reflexivity.
  - destruct k; simpl; auto. apply IHn; lia.
Qed.

(* ---- every operation of an attached list, inside the guard ---- *)
Lemma good_append : forall s e, Good s -> ~ In e (items s) ->
  (roa = true \/ pos s e = None) -> Good (ol_append base roa s e).
Proof.
  intros s e [O ND] He HR. split.
  - intros k x H. simpl in *.
    destruct (Nat.lt_ge_cases k (length (items s))) as [Hk|Hk].
    + rewrite nth_error_app1 in H by assumption.
      assert (x <> e) by (intro; subst; apply He; eapply nth_error_In; eauto).
      unfold OrderingList.order_entity. destruct (pos s e); [destruct roa|]; try rewrite set_pos_other by assumption; auto.
    + rewrite nth_error_app2 in H by assumption.
      destruct (k - length (items s))%nat as [|j] eqn:E; simpl in H; [|destruct j; discriminate].
      inversion H; subst x. assert (k = length (items s)) by lia. subst k.
      unfold OrderingList.order_entity, zlen. destruct HR as [->|HN].
      * destruct (pos s e); rewrite set_pos_same; reflexivity.
      * rewrite HN, set_pos_same; reflexivity.
  - simpl. apply NoDup_snoc; auto.
Qed.

Lemma good_insert : forall s i e, NoDup (items s) -> ~ In e (items s) -> Good (ol_insert base s i e).
Proof. intros; apply good_reordered. apply NoDup_insert; auto. Qed.

Lemma good_remove : forall s e, Good s -> Good (snd (ol_remove base s e)).
Proof.
  intros s e G. unfold ol_remove, py_remove.
  destruct (remove_first e (items s)) as [l'|] eqn:E; simpl; auto.
  apply good_reordered. apply (remove_first_sub _ _ _ E). apply G.
Qed.
Lemma good_pop : forall s i, Good s -> Good (snd (ol_pop base s i)).
Proof.
  intros s i G. unfold ol_pop, py_pop.
  destruct (norm_index i (zlen (items s))); simpl; auto.
  destruct (nth_error (items s) n); simpl; auto.
  apply good_reordered. apply NoDup_del_nth. apply G.
Qed.
Lemma good_delitem : forall s i, Good s -> Good (snd (at_delitem base s i)).
Proof.
  intros s i G. unfold at_delitem. destruct (py_getitem (items s) i); simpl; auto.
  unfold ol_delitem, py_delitem. destruct (norm_index i (zlen (items s))); simpl; auto.
  apply good_reordered. apply NoDup_del_nth. apply G.
Qed.
Lemma good_delslice : forall s sl, Good s -> Good (snd (ol_delslice base s sl)).
Proof.
  intros s sl G. unfold ol_delslice. destruct (py_delslice (items s) sl) eqn:E; simpl; auto.
  apply good_reordered. eapply NoDup_delslice; eauto. apply G.
Qed.

Lemma good_setitem : forall s i e, Good s -> ~ In e (items s) ->
  Good (snd (at_setitem base s i e)).
Proof.
  intros s i e [O ND] He. unfold at_setitem, py_getitem.
  destruct (norm_index i (zlen (items s))) as [n|] eqn:N; simpl; [|split; auto].
  destruct (nth_error (items s) n) eqn:Hn; simpl; [|split; auto].
  unfold ol_setitem, py_setitem. rewrite N. simpl.
  pose proof (norm_index_lt _ _ _ _ N) as Hlt.
  assert (Zn : Z.of_nat n = (if i <? 0 then i + zlen (items s) else i)).
  { destruct (norm_index_Some i (zlen (items s)) n N) as [_ E]; [unfold zlen; lia|]. exact E. }
  split.
  - intros k x H. simpl in *. rewrite nth_set_nth in H by assumption.
    rewrite order_entity_true.
    destruct (Nat.eqb_spec k n).
    + inversion H; subst. rewrite set_pos_same. rewrite <- Zn. reflexivity.
    + assert (x <> e) by (intro; subst; apply He; eapply nth_error_In; eauto).
      rewrite set_pos_other by assumption. auto.
  - simpl. apply NoDup_set_nth; auto.
Qed.

Lemma small_sort : forall l, (length l <= 1)%nat -> zsort l = l.
Proof. intros [|a [|b r]] H; simpl in *; auto; lia. Qed.
Lemma small_rev : forall (l : list Z), (length l <= 1)%nat -> rev l = l.
Proof. intros [|a [|b r]] H; simpl in *; auto; lia. Qed.
Lemma imul_small : forall (l : list Z) n, n <= 1 \/ l = [] -> py_imul l n = l \/ py_imul l n = [].
Proof.
  intros l n [H| ->]; unfold py_imul.
  - destruct (n <=? 0) eqn:E; auto. assert (n = 1) by lia. subst. simpl. left. apply app_nil_r.
  - destruct (n <=? 0); auto. left. induction (Z.to_nat n); simpl; auto.
Qed.

Lemma good_extend : forall v s, Good s -> fresh_all v (items s) = true ->
  (roa = true \/ forall x, In x v -> pos s x = None) ->
  Good (fold_left (ol_append base roa) v s).
Proof.
  induction v as [|x v IH]; intros s G F HR; simpl; auto.
  unfold fresh_all in F. simpl in F.
  apply andb_prop in F; destruct F as [F1 F2]. apply andb_prop in F1; destruct F1 as [Fx Fv].
  apply andb_prop in F2; destruct F2 as [Nx Nv].
  apply negb_true_iff in Fx, Nx. apply memz_false in Fx, Nx.
  apply IH.
  - apply good_append; auto. destruct HR as [->|HR]; auto. right; apply HR; left; auto.
  - unfold fresh_all. apply andb_true_intro; split; auto.
    rewrite forallb_forall in *. intros y Hy. specialize (Fv y Hy).
    apply negb_true_iff in Fv. apply memz_false in Fv. apply negb_true_iff. apply memz_false.
    simpl. intro Hin. apply in_app_or in Hin. destruct Hin as [Hin|[->|[]]]; auto.
  - destruct HR as [->|HR]; auto. right. intros y Hy. simpl.
    unfold OrderingList.order_entity.
    assert (y <> x) by (intro; subst; auto).
    destruct (pos s x); [destruct roa|]; try rewrite set_pos_other by assumption; apply HR; right; auto.
Qed.

(* the wrapper's slice assignment *)
Lemma del_loop_good : forall n start s, Good s ->
  Good (snd (at_del_loop base n start s)) /\
  (forall x, In x (items (snd (at_del_loop base n start s))) -> In x (items s)).
Proof.
  induction n; intros start s G; simpl; auto.
  destruct (start <? zlen (items s)); [|apply IHn; auto].
  pose proof (good_delitem s start G) as G1.
  assert (Sub : forall x, In x (items (snd (at_delitem base s start))) -> In x (items s)).
  { unfold at_delitem. destruct (py_getitem (items s) start); simpl; auto.
    unfold ol_delitem, py_delitem. destruct (norm_index start (zlen (items s))); simpl; auto.
    intros x; apply del_nth_incl. }
  destruct (at_delitem base s start) as [[u|e] s1]; simpl in *.
  - destruct (IHn start s1 G1) as [A B]. split; auto.
  - split; auto.
Qed.

Lemma ins_loop_good : forall v p s, NoDup (items s) -> fresh_all v (items s) = true ->
  (v <> [] -> True) ->
  (v = [] -> Good s) -> Good (at_ins_loop base p v s).
Proof.
  induction v as [|x v IH]; intros p s ND F _ G0; simpl; auto.
  unfold fresh_all in F. simpl in F.
  apply andb_prop in F; destruct F as [F1 F2]. apply andb_prop in F1; destruct F1 as [Fx Fv].
  apply andb_prop in F2; destruct F2 as [Nx Nv].
  apply negb_true_iff in Fx, Nx. apply memz_false in Fx, Nx.
  pose proof (good_insert s p x ND Fx) as G1.
  apply IH; auto.
  - apply G1.
  - unfold fresh_all. apply andb_true_intro; split; auto.
    rewrite forallb_forall in *. intros y Hy. specialize (Fv y Hy).
    apply negb_true_iff in Fv. apply memz_false in Fv. apply negb_true_iff. apply memz_false.
    simpl. intro Hin. apply In_insert in Hin. destruct Hin as [->|Hin]; auto.
Qed.

Lemma set_loop_good : forall ivs s, Good s ->
  fresh_all (map snd ivs) (items s) = true ->
  Good (snd (at_set_loop base ivs s)).
Proof.
  induction ivs as [|[i x] r IH]; intros s G F; simpl; auto.
  unfold fresh_all in F. simpl in F.
  apply andb_prop in F; destruct F as [F1 F2]. apply andb_prop in F1; destruct F1 as [Fx Fv].
  apply andb_prop in F2; destruct F2 as [Nx Nv].
  apply negb_true_iff in Fx, Nx. apply memz_false in Fx, Nx.
  pose proof (good_setitem s i x G Fx) as G1.
  assert (Mem : forall y, In y (items (snd (at_setitem base s i x))) -> y = x \/ In y (items s)).
  { unfold at_setitem, py_getitem. destruct (norm_index i (zlen (items s))) as [n|] eqn:N; simpl; auto.
    destruct (nth_error (items s) n); simpl; auto.
    unfold ol_setitem, py_setitem. rewrite N. simpl.
    generalize (items s). clear. intros l. revert n. induction l; destruct n; simpl; intros y H; auto.
    - destruct H; auto.
    - destruct H; auto. destruct (IHl _ _ H); auto. }
  destruct (at_setitem base s i x) as [[u|e] s1]; simpl in *; auto.
  apply IH; auto.
  unfold fresh_all. apply andb_true_intro; split; auto.
  rewrite forallb_forall in *. intros y Hy. specialize (Fv y Hy).
  apply negb_true_iff in Fv. apply memz_false in Fv. apply negb_true_iff. apply memz_false.
  intro Hin. destruct (Mem _ Hin) as [->|]; auto.
Qed.

Lemma fresh_all_sub : forall v l l', (forall x, In x l' -> In x l) -> fresh_all v l = true -> fresh_all v l' = true.
Proof.
  intros v l l' S F. unfold fresh_all in *. apply andb_prop in F; destruct F as [F1 F2].
  apply andb_true_intro; split; auto. rewrite forallb_forall in *. intros x Hx.
  specialize (F1 x Hx). apply negb_true_iff in F1. apply memz_false in F1.
  apply negb_true_iff. apply memz_false. auto.
Qed.

Lemma combine_snd_fresh : forall (rng v : list Z) l, fresh_all v l = true ->
  length v = length rng -> fresh_all (map snd (combine rng v)) l = true.
Proof.
  intros rng v l F E. assert (H : forall (r w : list Z), length w = length r -> map snd (combine r w) = w).
  { induction r; destruct w; simpl; intros; try discriminate; auto. f_equal; auto. }
  rewrite H; auto.
Qed.

Lemma good_setslice : forall s sl v, Good s -> fresh_all v (items s) = true ->
  Good (snd (at_setslice base s sl v)).
Proof.
  intros s sl v G F. unfold at_setslice.
  destruct (adjust sl (zlen (items s))) as [[[start stop] step]|e] eqn:A; simpl; auto.
  destruct (step =? 1) eqn:S1.
  - destruct (del_loop_good (length (range start stop step)) start s G) as [G1 Sub].
    destruct (at_del_loop base (length (range start stop step)) start s) as [[u|e] s1]; simpl in *; auto.
    apply ins_loop_good; auto. apply G1. eapply fresh_all_sub; eauto.
  - destruct (Nat.eqb (length v) (length (range start stop step))) eqn:L; simpl; auto.
    apply Nat.eqb_eq in L.
    apply set_loop_good; auto. apply combine_snd_fresh; auto.
Qed.

(* ---- one operation, then histories ---- *)
Theorem good_step : forall s o, Good s -> ol_guard roa s o = true ->
  Good (snd (ol_step base roa true s o)).
Proof.
  intros s o G H. pose proof G as [O ND].
  destruct o as [e|i e|e|oi|i e|sl v|i|sl|v|v| | | |n|]; simpl in *.
  - apply andb_prop in H; destruct H as [H1 H2]. apply negb_true_iff in H1. apply memz_false in H1.
    apply good_append; auto. apply orb_prop in H2. destruct H2 as [->|H2]; auto.
    right. unfold unpositioned in H2. destruct (pos s e); auto; discriminate.
  - apply negb_true_iff in H. apply memz_false in H. apply good_insert; auto.
  - apply good_remove; auto.
  - apply good_pop; auto.
  - apply negb_true_iff in H. apply memz_false in H. apply good_setitem; auto.
  - apply good_setslice; auto.
  - apply good_delitem; auto.
  - apply good_delslice; auto.
  - apply andb_prop in H; destruct H as [H1 H2]. apply good_extend; auto.
    apply orb_prop in H2. destruct H2 as [->|H2]; auto. right. intros x Hx.
    rewrite forallb_forall in H2. specialize (H2 x Hx). unfold unpositioned in H2. destruct (pos s x); auto; discriminate.
  - apply andb_prop in H; destruct H as [H1 H2]. apply good_extend; auto.
    apply orb_prop in H2. destruct H2 as [->|H2]; auto. right. intros x Hx.
    rewrite forallb_forall in H2. specialize (H2 x Hx). unfold unpositioned in H2. destruct (pos s x); auto; discriminate.
  - split; [intros k e Hk; destruct k; discriminate|constructor].
  - apply Nat.leb_le in H. rewrite small_sort by assumption. destruct s; auto.
  - apply Nat.leb_le in H. rewrite small_rev by assumption. destruct s; auto.
  - assert (HH : n <= 1 \/ items s = []).
    { apply orb_prop in H. destruct H as [H|H]; [left; lia|right].
      apply Nat.eqb_eq in H. destruct (items s); auto; discriminate. }
    destruct (imul_small (items s) n HH) as [E|E]; rewrite E.
    + destruct s; auto.
    + split; [intros k e Hk; destruct k; discriminate|constructor].
  - apply good_reordered; auto.
Qed.

Theorem positions_eq_indices : forall ops s, Good s -> ol_guarded base roa true ops s = true ->
  Good (ol_run base roa true ops s).
Proof.
  induction ops as [|o r IH]; intros s G H; simpl in *; auto.
  apply andb_prop in H; destruct H as [H1 H2]. apply IH; auto. apply good_step; auto.
Qed.

(* what ORDER BY position reads back is the list *)
Lemma pinsert_head : forall p x l b, p x = Some b ->
  (forall y, In y l -> exists c, p y = Some c /\ b <= c) -> pinsert p x l = x :: l.
Proof.
  intros p x l b Hx H. destruct l as [|y r]; simpl; auto.
  rewrite Hx. destruct (H y (or_introl eq_refl)) as [c [Hc Hle]]. rewrite Hc.
  destruct (b <=? c) eqn:E; auto. lia.
Qed.

Theorem reload_is_list : forall s, ordered s -> reload s = items s.
Proof.
  intros s O. unfold reload, OrderingList.ordered in *.
  assert (G : forall l off, (forall k e, nth_error l k = Some e -> pos s e = Some (base + off + Z.of_nat k)) ->
                       fold_right (pinsert (pos s)) [] l = l).
  { induction l as [|a r IH]; intros off H; simpl; auto.
    rewrite (IH (off + 1)).
    - apply (pinsert_head _ _ _ (base + off)).
      + rewrite (H 0%nat a eq_refl). f_equal; lia.
      + intros y Hy. apply In_nth_error in Hy. destruct Hy as [k Hk].
        exists (base + off + Z.of_nat (S k)). split; [apply (H (S k)); auto|lia].
    - intros k e Hk. rewrite (H (S k) e Hk). f_equal; lia. }
  apply (G (items s) 0). intros k e Hk. rewrite (O k e Hk). f_equal; lia.
Qed.
End P.
