(* C50 - executable entry point for the correspondence check.

   input   L [I 0; L [I base; I roa; I attached; I n]; L ops]    ordering list; initially entities 0..n-1 appended
             ops: [0,e] append [1,i,e] insert [2,e] remove [3,i|None] pop [4,i,e] l[i]=e [5,sl,items] l[sl]=items
                  [6,i] del l[i] [7,sl] del l[sl] [8,items] extend [9,items] += [10] clear [11] sort (by entity id)
                  [12] reverse [13,n] *= [14] reorder()
           L [I 1; L init; L ops]     list proxy (initial values appended through the proxy)
             ops: [0,v] append [1,vs] extend [2,i,v] insert [3,i|None] pop [4,v] remove [5,i,v] p[i]=v
                  [6,sl,vs] p[sl]=vs [7,i] del p[i] [8,sl] del p[sl] [9] clear [10,vs] += [11,n] *= [12] reverse [13] sort [14,vs] obj.proxy = vs
           L [I 2; L init; L ops]     set proxy; ops as the set ops of C38 with arguments [0,items] set | [1,items] list
           L [I 3; L pairs; L ops]    dict proxy; ops as the dict ops of C38 (0 setitem 1 delitem 2 clear 3 pop 4 popitem
                                      5 setdefault 6 update); [20, x] obj.proxy = x for both
   output  one entry per operation
           ordering list: L [I rc; L [ L [I e; pos] ... ]]       pos = I p | L []
           list proxy:    L [I rc; L [ L [I oid; I value] ... ]]  oid = creation number of the intermediary
           set proxy:     L [I rc; L sorted values; I intermediaries_created]
           dict proxy:    L [I rc; ret; L [ L [I key; I value; I oid] ... ]]    ret = I v | L []
           and a last entry: what is read back after a flush -
           ordering list: L reloaded entity ids (ORDER BY position), L [] if positions are not distinct numbers
           proxies: L sorted values of the association rows (dict: sorted (key, value) pairs)
   rc: 0 ok, 10 IndexError 11 ValueError 12 KeyError 13 TypeError 14 RuntimeError, 20 NotImplemented(Error),
       21 AttributeError *)
From Coq Require Import List ZArith Bool Arith.
Import ListNotations.
From SAV.base Require Import Tree PySlice.
From SAV.orm Require Import CollBase CollList CollSet CollDict CollRun OrderingList AssocProxy.
Local Open Scope Z_scope.

Definition rc_of_exn (e : pyexn) : Z :=
  match e with IndexError => 10 | ValueError => 11 | KeyError => 12 | TypeError => 13 | RuntimeError => 14 end.
Definition rc_of_res {T} (r : res T) : Z := match r with Ok _ => 0 | Raise e => rc_of_exn e end.
Definition rc_of_pres (r : pres) : Z := match r with POk => 0 | PRaise e => rc_of_exn e | PNotImpl => 20 end.

(* ---------------- ordering list ---------------- *)
Definition as_oop (t : tree) : option oop :=
  match t with
  | L [I 0; I e] => Some (OAppend e)
  | L [I 1; I i; I e] => Some (OInsert i e)
  | L [I 2; I e] => Some (ORemove e)
  | L [I 3; oi] => option_map OPop (as_optZ oi)
  | L [I 4; I i; I e] => Some (OSetItem i e)
  | L [I 5; sl; v] => match as_slice sl, as_items v with Some s, Some w => Some (OSetSlice s w) | _, _ => None end
  | L [I 6; I i] => Some (ODelItem i)
  | L [I 7; sl] => option_map ODelSlice (as_slice sl)
  | L [I 8; v] => option_map OExtend (as_items v)
  | L [I 9; v] => option_map OIAdd (as_items v)
  | L [I 10] => Some OClear
  | L [I 11] => Some OSort
  | L [I 12] => Some OReverse
  | L [I 13; I n] => Some (OIMul n)
  | L [I 14] => Some OReorder
  | _ => None
  end.

Definition show_ol (s : ol) : tree :=
  of_list (fun e => L [I e; of_optZ (pos s e)]) (items s).

Section OL.
Variables (base : Z) (roa attached : bool).
Fixpoint run_ol (ops : list oop) (s : ol) : list tree * ol :=
  match ops with
  | [] => ([], s)
  | o :: r =>
      let '(x, s') := ol_step base roa attached s o in
      let '(out, sf) := run_ol r s' in
      (L [I (rc_of_res x); show_ol s'] :: out, sf)
  end.
End OL.

(* all positions are numbers and pairwise distinct *)
Definition distinct_positions (s : ol) : bool :=
  let ps := map (pos s) (items s) in
  forallb (fun p => match p with Some _ => true | None => false end) ps &&
  nodupb (map (fun p => match p with Some z => z | None => 0 end) ps).

(* ---------------- proxies ---------------- *)
Definition as_plop (t : tree) : option plop :=
  match t with
  | L [I 0; I v] => Some (PAppend v)
  | L [I 1; vs] => option_map PExtend (as_items vs)
  | L [I 2; I i; I v] => Some (PInsert i v)
  | L [I 3; oi] => option_map PPop (as_optZ oi)
  | L [I 4; I v] => Some (PRemove v)
  | L [I 5; I i; I v] => Some (PSetItem i v)
  | L [I 6; sl; vs] => match as_slice sl, as_items vs with Some s, Some w => Some (PSetSlice s w) | _, _ => None end
  | L [I 7; I i] => Some (PDelItem i)
  | L [I 8; sl] => option_map PDelSlice (as_slice sl)
  | L [I 9] => Some PClear
  | L [I 10; vs] => option_map PIAdd (as_items vs)
  | L [I 11; I n] => Some (PIMul n)
  | L [I 12] => Some PReverse
  | L [I 13] => Some PSort
  | L [I 14; vs] => option_map PAssign (as_items vs)
  | _ => None
  end.

Definition show_pl (s : px) : tree := of_list (fun o => L [of_nat o; I (pval s o)]) (col s).
Fixpoint run_pl (ops : list plop) (s : px) : list tree * px :=
  match ops with
  | [] => ([], s)
  | o :: r =>
      let '(x, s') := pl_step s o in
      let '(out, sf) := run_pl r s' in
      (L [I (rc_of_pres x); show_pl s'] :: out, sf)
  end.

Definition zsorted (l : list Z) : list Z := sort_by (fun x => x) l.
Definition ord_id (l : list Z) : list Z := l.

Definition as_psarg (t : tree) : option sarg :=
  match t with
  | L [I 0; v] => option_map (fun l => ASet (dedup l)) (as_items v)
  | L [I 1; v] => option_map AList (as_items v)
  | _ => None
  end.
Definition as_psop (t : tree) : option sop :=
  match t with
  | L [I 0; I x] => Some (SAdd x)
  | L [I 1; I x] => Some (SDiscard x)
  | L [I 2; I x] => Some (SRemove x)
  | L [I 3] => Some SPop
  | L [I 4] => Some SClear
  | L [I 5; a] => option_map SUpdate (as_psarg a)
  | L [I 6; a] => option_map SDiffUpdate (as_psarg a)
  | L [I 7; a] => option_map SInterUpdate (as_psarg a)
  | L [I 8; a] => option_map SSymDiffUpdate (as_psarg a)
  | L [I 9; a] => option_map SIor (as_psarg a)
  | L [I 10; a] => option_map SIsub (as_psarg a)
  | L [I 11; a] => option_map SIand (as_psarg a)
  | L [I 12; a] => option_map SIxor (as_psarg a)
  | _ => None
  end.
(* set / dict proxies: the operations of C38 plus whole-collection assignment [20, ...] *)
Inductive sop2 := S1 (o : sop) | SAssign (vs : list Z).
Inductive dop2 := D1 (o : dop) | DAssign (m : pydict).
Definition as_sop2 (t : tree) : option sop2 :=
  match t with
  | L [I 20; vs] => option_map (fun l => SAssign (dedup l)) (as_items vs)
  | _ => option_map S1 (as_psop t)
  end.
Definition as_dop2 (t : tree) : option dop2 :=
  match t with
  | L [I 20; m] => option_map DAssign (as_dict m)
  | _ => option_map D1 (as_dop t)
  end.

Fixpoint run_ps (ops : list sop2) (s : px) : list tree * px :=
  match ops with
  | [] => ([], s)
  | o :: r =>
      let '(x, s') := match o with S1 o' => ps_step ord_id s o' | SAssign vs => (POk, ps_assign s vs) end in
      let '(out, sf) := run_ps r s' in
      (L [I (rc_of_pres x); of_list of_Z (zsorted (to_list s')); of_nat (nxt s')] :: out, sf)
  end.

Definition show_pd (s : px) : tree := of_list (fun o => L [I (pkey s o); I (pval s o); of_nat o]) (col s).
Fixpoint run_pd (ops : list dop2) (s : px) : list tree * px :=
  match ops with
  | [] => ([], s)
  | o :: r =>
      let '(x, s') := match o with D1 o' => pd_step s o' | DAssign m => (DOk None, pd_assign s m) end in
      let '(out, sf) := run_pd r s' in
      (L [I (match x with DOk _ => 0 | DRaise e => rc_of_exn e end);
          match x with DOk (Some v) => I v | _ => L [] end;
          show_pd s'] :: out, sf)
  end.

Definition pair_key (kv : Z * Z) : Z := fst kv.

Definition run_case (t : tree) : tree :=
  match t with
  | L [I 0; L [I base; rb; ab; n]; ops] =>
      match as_bool rb, as_bool ab, as_nat n, as_list_of as_oop ops with
      | Some roa, Some att, Some n', Some os =>
          let init := fold_left (ol_append base roa) (map Z.of_nat (seq 0 n')) ol_empty in
          let '(out, sf) := run_ol base roa att os init in
          L (out ++ [if distinct_positions sf then of_list of_Z (reload sf) else L []])
      | _, _, _, _ => bad_input
      end
  | L [I 1; init; ops] =>
      match as_items init, as_list_of as_plop ops with
      | Some vs, Some os =>
          let '(out, sf) := run_pl os (pl_extend px_empty vs) in
          L (out ++ [of_list of_Z (zsorted (to_list sf))])
      | _, _ => bad_input
      end
  | L [I 2; init; ops] =>
      match as_items init, as_list_of as_sop2 ops with
      | Some vs, Some os =>
          let '(out, sf) := run_ps os (fold_left ps_add vs px_empty) in
          L (out ++ [of_list of_Z (zsorted (to_list sf))])
      | _, _ => bad_input
      end
  | L [I 3; init; ops] =>
      match as_pairs init, as_list_of as_dop2 ops with
      | Some kvs, Some os =>
          let '(out, sf) := run_pd os (fold_left (fun acc kv => pd_setitem acc (fst kv) (snd kv)) kvs px_empty) in
          L (out ++ [of_list (fun kv => L [I (fst kv); I (snd kv)]) (sort_by pair_key (to_dict sf))])
      | _, _ => bad_input
      end
  | _ => bad_input
  end.
