(* C39 - executable model of the ORM cascade machinery (definitions only).

   Transcribes, for one-to-many relationships with an optional many-to-one backref:
     orm/mapper.py        Mapper.cascade_iterator, Mapper._is_orphan
     orm/relationships.py RelationshipProperty.cascade_iterator
     orm/attributes.py    sethasparent, get_all_pending, backref listeners, fire_*_event order
     orm/unitofwork.py    _track_cascade_events (append / remove / set_), UOWTransaction.register_object,
                          the presort loop of _generate_actions
     orm/dependency.py    _OneToManyDP / _ManyToOneDP presort_saves, presort_deletes, process_saves, process_deletes
     orm/session.py       _save_or_update_state/_impl, delete/_delete_impl, expunge/_expunge_states,
                          _expire_state/_conditional_expire, _flush (top-level orphan detection)
   Objects are natural numbers; every per-object datum is a total function (finite support [nobj]). *)
From Coq Require Import List Bool Arith.
Import ListNotations.

(* ---------- configuration ---------- *)
Record casc := mkCasc { c_su : bool; c_mg : bool; c_ex : bool; c_dl : bool; c_do : bool; c_re : bool }.
Inductive ctype := TSU | TMG | TEX | TDL | TRE.
Definition has (c : casc) (t : ctype) : bool :=
  match t with TSU => c_su c | TMG => c_mg c | TEX => c_ex c | TDL => c_dl c | TRE => c_re c end.

(* relationship [ri]: collection  Parent.r<ri> -> Child  (foreign key on the child), cascade [fwd];
   optional scalar backref  Child.b<ri> -> Parent  with cascade [bk] *)
Record rel := mkRel { rp : nat; rc : nat; fwd : casc; hasback : bool; bk : casc }.
Record config := mkCfg { rels : list rel; legacy : nat -> bool; cls : nat -> nat; nobj : nat }.

Definition no_casc := mkCasc false false false false false false.
Definition dummy_rel := mkRel 0 0 no_casc false no_casc.
Definition getrel (cfg : config) (ri : nat) : rel := nth ri (rels cfg) dummy_rel.

Inductive prop := F (ri : nat) | B (ri : nat).
Definition prop_eqb (a b : prop) : bool :=
  match a, b with F x, F y => Nat.eqb x y | B x, B y => Nat.eqb x y | _, _ => false end.
Definition prop_casc (cfg : config) (p : prop) : casc :=
  match p with F ri => fwd (getrel cfg ri) | B ri => bk (getrel cfg ri) end.

Fixpoint indexed {A} (n : nat) (l : list A) : list (nat * A) :=
  match l with [] => [] | x :: r => (n, x) :: indexed (S n) r end.

(* mapper._props order of class k: per relationship index, the forward property then the backref *)
Definition props_of (cfg : config) (k : nat) : list prop :=
  flat_map (fun ir => let '(ri, r) := ir in
              (if Nat.eqb (rp r) k then [F ri] else []) ++
              (if Nat.eqb (rc r) k && hasback r then [B ri] else []))
           (indexed 0 (rels cfg)).

(* ---------- state ---------- *)
Inductive status := Transient | Pending | Persistent | Deleted | Detached | DetDel.
Inductive hpflag := HUnset | HFalse | HParent (p : nat).
Inductive pcomm_t := PCnone | PCnov | PCval (v : option nat).

Record state := mkState {
  st : nat -> status;
  marked : nat -> bool;                   (* session._deleted *)
  oos : nat -> bool;                      (* state._orphaned_outside_of_session *)
  modf : nat -> bool;                     (* state.modified *)
  hp : nat -> nat -> hpflag;              (* state.parents[relationship] *)
  coll : nat -> nat -> list nat;          (* current collection  parent -> rel -> children *)
  ccomm : nat -> nat -> option (list nat);(* committed_state of the collection *)
  par : nat -> nat -> option nat;         (* backref scalar  child -> rel -> parent *)
  pcomm : nat -> nat -> pcomm_t;          (* committed_state of the scalar *)
  fk : nat -> nat -> option nat;          (* foreign key attribute of the child object *)
  rowp : nat -> bool;                     (* a row exists *)
  rowfk : nat -> nat -> option nat;       (* foreign key values of the row *)
  expired : nat -> bool;
  poison : bool                           (* an unmodelled code path was reached *)
}.

Definition upd {A} (f : nat -> A) (k : nat) (v : A) : nat -> A := fun x => if Nat.eqb x k then v else f x.
Definition upd2 {A} (f : nat -> nat -> A) (k j : nat) (v : A) : nat -> nat -> A :=
  fun x y => if Nat.eqb x k && Nat.eqb y j then v else f x y.

Definition set_st s o v := mkState (upd (st s) o v) (marked s) (oos s) (modf s) (hp s) (coll s) (ccomm s) (par s) (pcomm s) (fk s) (rowp s) (rowfk s) (expired s) (poison s).
Definition set_marked s o v := mkState (st s) (upd (marked s) o v) (oos s) (modf s) (hp s) (coll s) (ccomm s) (par s) (pcomm s) (fk s) (rowp s) (rowfk s) (expired s) (poison s).
Definition set_oos s o v := mkState (st s) (marked s) (upd (oos s) o v) (modf s) (hp s) (coll s) (ccomm s) (par s) (pcomm s) (fk s) (rowp s) (rowfk s) (expired s) (poison s).
Definition set_modf s o v := mkState (st s) (marked s) (oos s) (upd (modf s) o v) (hp s) (coll s) (ccomm s) (par s) (pcomm s) (fk s) (rowp s) (rowfk s) (expired s) (poison s).
Definition set_hp s o ri v := mkState (st s) (marked s) (oos s) (modf s) (upd2 (hp s) o ri v) (coll s) (ccomm s) (par s) (pcomm s) (fk s) (rowp s) (rowfk s) (expired s) (poison s).
Definition set_coll s o ri v := mkState (st s) (marked s) (oos s) (modf s) (hp s) (upd2 (coll s) o ri v) (ccomm s) (par s) (pcomm s) (fk s) (rowp s) (rowfk s) (expired s) (poison s).
Definition set_ccomm s o ri v := mkState (st s) (marked s) (oos s) (modf s) (hp s) (coll s) (upd2 (ccomm s) o ri v) (par s) (pcomm s) (fk s) (rowp s) (rowfk s) (expired s) (poison s).
Definition set_par s o ri v := mkState (st s) (marked s) (oos s) (modf s) (hp s) (coll s) (ccomm s) (upd2 (par s) o ri v) (pcomm s) (fk s) (rowp s) (rowfk s) (expired s) (poison s).
Definition set_pcomm s o ri v := mkState (st s) (marked s) (oos s) (modf s) (hp s) (coll s) (ccomm s) (par s) (upd2 (pcomm s) o ri v) (fk s) (rowp s) (rowfk s) (expired s) (poison s).
(* sync._populate / sync._clear write the column attribute through its impl: the object is flagged modified, which
   matters for a child that is not part of this flush (not in the session) and is attached later *)
Definition set_fk s o ri v := mkState (st s) (marked s) (oos s) (upd (modf s) o true) (hp s) (coll s) (ccomm s) (par s) (pcomm s) (upd2 (fk s) o ri v) (rowp s) (rowfk s) (expired s) (poison s).
Definition set_row s o (present : bool) (v : nat -> option nat) := mkState (st s) (marked s) (oos s) (modf s) (hp s) (coll s) (ccomm s) (par s) (pcomm s) (fk s) (upd (rowp s) o present) (fun x => if Nat.eqb x o then v else rowfk s x) (expired s) (poison s).
Definition set_expired s o v := mkState (st s) (marked s) (oos s) (modf s) (hp s) (coll s) (ccomm s) (par s) (pcomm s) (fk s) (rowp s) (rowfk s) (upd (expired s) o v) (poison s).
Definition set_poison s := mkState (st s) (marked s) (oos s) (modf s) (hp s) (coll s) (ccomm s) (par s) (pcomm s) (fk s) (rowp s) (rowfk s) (expired s) true.

(* the harness creates every object with  o.r<i> = []  and  o.b<i> = None : attributes present,
   committed_state holds the (empty / NO_VALUE) previous value, state.modified is set *)
Definition init_state : state :=
  mkState (fun _ => Transient) (fun _ => false) (fun _ => false) (fun _ => true) (fun _ _ => HUnset)
          (fun _ _ => []) (fun _ _ => Some []) (fun _ _ => None) (fun _ _ => PCnov) (fun _ _ => None)
          (fun _ => false) (fun _ _ => None) (fun _ => false) false.

Definition in_session (s : state) (o : nat) : bool :=      (* Session._contains_state *)
  match st s o with Pending | Persistent => true | _ => false end.
Definition attached (s : state) (o : nat) : bool :=        (* state.session is not None *)
  match st s o with Pending | Persistent | Deleted => true | _ => false end.
Definition has_key (s : state) (o : nat) : bool :=         (* state.key is not None *)
  match st s o with Transient | Pending => false | _ => true end.
Definition was_deleted (s : state) (o : nat) : bool :=     (* state._deleted *)
  match st s o with Deleted | DetDel => true | _ => false end.
Definition is_pending (s : state) (o : nat) : bool := match st s o with Pending => true | _ => false end.

Definition mem (x : nat) (l : list nat) : bool := existsb (Nat.eqb x) l.
Definition remove1 (x : nat) (l : list nat) : list nat :=
  (fix go l := match l with [] => [] | y :: r => if Nat.eqb x y then r else y :: go r end) l.
Definition opt_eqb (a b : option nat) : bool :=
  match a, b with Some x, Some y => Nat.eqb x y | None, None => true | _, _ => false end.
Definition olist (a : option nat) : list nat := match a with Some x => [x] | None => [] end.

(* ---------- Mapper._is_orphan ---------- *)
Definition has_parent_flag (s : state) (o ri : nat) : bool :=
  match hp s o ri with HUnset => has_key s o (* optimistic=state.has_identity *) | HFalse => false | HParent _ => true end.

Fixpoint is_orphan_loop (cfg : config) (s : state) (o : nat) (rs : list (nat * rel)) (possible : bool) : bool :=
  match rs with
  | [] => if legacy cfg (cls cfg o) then possible else false
  | (ri, r) :: rest =>
      if Nat.eqb (rc r) (cls cfg o) && c_do (fwd r) then
        let hasp := has_parent_flag s o ri in
        if legacy cfg (cls cfg o) && hasp then false
        else if negb (legacy cfg (cls cfg o)) && negb hasp then true
        else is_orphan_loop cfg s o rest true
      else is_orphan_loop cfg s o rest possible
  end.
Definition is_orphan (cfg : config) (s : state) (o : nat) : bool :=
  is_orphan_loop cfg s o (indexed 0 (rels cfg)) false.

(* DependencyProcessor.hasparent(state) is False   (no flag counts as False: optimistic=False) *)
Definition hp_false (s : state) (o ri : nat) : bool :=
  match hp s o ri with HParent _ => false | _ => true end.

(* ---------- AttributeImpl.sethasparent ---------- *)
(* [last_parent.key != parent_state.key] : keys of pending/transient states are None *)
Definition key_eqb (s : state) (a b : nat) : bool :=
  match has_key s a, has_key s b with
  | true, true => Nat.eqb a b
  | false, false => true
  | _, _ => false
  end.
Definition sethp_false (s : state) (c ri p : nat) : state :=
  match hp s c ri with
  | HParent last => if key_eqb s last p then set_hp s c ri HFalse else s
  | _ => set_hp s c ri HFalse
  end.

(* ---------- cascade_iterator ---------- *)
(* the related objects a property yields: get_all_pending for save-update (current + removed original),
   the current value otherwise *)
Definition children (s : state) (t : ctype) (n : nat) (p : prop) : list nat :=
  match p with
  | F ri =>
      let cur := coll s n ri in
      match t, ccomm s n ri with
      | TSU, Some orig =>
          filter (fun c => negb (mem c orig)) cur ++ filter (fun c => mem c orig) cur
          ++ filter (fun c => negb (mem c cur)) orig
      | _, _ => cur
      end
  | B ri =>
      let cur := par s n ri in
      olist cur ++
      match t, pcomm s n ri with
      | TSU, PCval (Some orig) => if opt_eqb cur (Some orig) then [] else [orig]
      | _, _ => []
      end
  end.

(* may the iterator yield [c] when found through a property with cascade [pc] ?
   (objects are 0 .. nobj-1; the bound is vacuous for real object graphs and makes the iteration total) *)
Definition admissible (cfg : config) (s : state) (t : ctype) (halt : nat -> bool) (pc : casc) (c : nat) : bool :=
  Nat.ltb c (nobj cfg) && negb (halt c) &&
  negb (match t with TRE => negb (c_do pc) && negb (has_key s c) | _ => false end).

(* RelationshipProperty.cascade_iterator: the not-yet-visited admissible children, marked visited *)
Definition new_children (cfg : config) (s : state) (t : ctype) (halt : nat -> bool) (pc : casc) (cs vis : list nat) : list nat :=
  fold_left (fun q c => if negb (mem c (vis ++ q)) && admissible cfg s t halt pc c then q ++ [c] else q) cs [].

(* Mapper.cascade_iterator; result: the visited set in discovery order = the yielded objects *)
Fixpoint visit (cfg : config) (s : state) (t : ctype) (halt : nat -> bool) (fuel : nat) (n : nat) (vis : list nat)
  : list nat :=
  match fuel with
  | 0 => vis
  | S f =>
      fold_left (fun vis p =>
                   if has (prop_casc cfg p) t then
                     let q := new_children cfg s t halt (prop_casc cfg p) (children s t n p) vis in
                     fold_left (fun vis c => visit cfg s t halt f c vis) q (vis ++ q)
                   else vis)
                (props_of cfg (cls cfg n)) vis
  end.
Definition cascade_iter (cfg : config) (s : state) (t : ctype) (halt : nat -> bool) (o : nat) : list nat :=
  visit cfg s t halt (S (nobj cfg)) o [].
Definition no_halt : nat -> bool := fun _ => false.

(* ---------- Session primitives ---------- *)
(* _save_or_update_impl reached through a cascade; re-adding an object deleted in this transaction raises
   in the middle of the operation: not modelled (poison) *)
Definition sou_impl (s : state) (o : nat) : state :=
  match st s o with
  | Deleted | DetDel => set_poison s
  | Transient => set_st s o Pending
  | Pending => s
  | Detached => set_marked (set_st s o Persistent) o false
  | Persistent => set_marked s o false
  end.
Definition sou_state (cfg : config) (s : state) (o : nat) : state :=
  let s1 := sou_impl (set_oos s o false) o in
  fold_left sou_impl (cascade_iter cfg s1 TSU (in_session s1) o) s1.

Definition expunge1 (s : state) (o : nat) : state :=
  match st s o with
  | Pending => set_st s o Transient
  | Persistent => set_marked (set_st s o Detached) o false
  | Deleted => set_st s o DetDel
  | _ => s
  end.
Definition expunge_all (cfg : config) (s : state) (o : nat) : state :=
  fold_left expunge1 (o :: cascade_iter cfg s TEX no_halt o) s.

Definition delete_impl_casc (s : state) (c : nat) : state :=
  if negb (has_key s c) then s
  else if was_deleted s c then set_poison s
  else if marked s c then s
  else set_marked (match st s c with Detached => set_st s c Persistent | _ => s end) c true.

(* ---------- attribute events (unitofwork._track_cascade_events + attributes._backref_listeners) ---------- *)
Definition casc_append_listener (cfg : config) (s : state) (p : nat) (pr : prop) (item : nat) (same_key : bool) : state :=
  if attached s p && c_su (prop_casc cfg pr) && same_key && negb (in_session s item)
  then sou_state cfg s item else s.

Definition casc_remove_listener (cfg : config) (s : state) (p ri item : nat) : state :=
  if c_do (fwd (getrel cfg ri)) && is_orphan cfg s item then
    if attached s p && is_pending s item then expunge_all cfg s item
    else set_oos s item true
  else s.

Definition mod_coll (s : state) (p ri : nat) : state :=
  set_modf (match ccomm s p ri with None => set_ccomm s p ri (Some (coll s p ri)) | Some _ => s end) p true.
Definition mod_scalar (s : state) (c ri : nat) (prev : option nat) : state :=
  set_modf (match pcomm s c ri with PCnone => set_pcomm s c ri (PCval prev) | _ => s end) c true.

(* backref removal from the old parent's collection:
   CollectionAttributeImpl.pop(old, c, initiator = the scalar's replace token) *)
Definition detach_old (cfg : config) (s : state) (old ri c : nat) : state :=
  let s1 := sethp_false s c ri old in
  let s2 := casc_remove_listener cfg s1 old ri c in
  let s3 := mod_coll s2 old ri in
  set_coll s3 old ri (remove1 c (coll s3 old ri)).

(* backref append to the new parent's collection (initiator = the scalar's replace token) *)
Definition attach_new (s : state) (x ri c : nat) : state :=
  let s1 := mod_coll s x ri in
  let s2 := set_hp s1 c ri (HParent x) in
  set_coll s2 x ri (coll s2 x ri ++ [c]).

(* ScalarObjectAttributeImpl.set on the backref  c.b<ri> = v ; the flags say which listeners act for the
   initiator at hand: save-update cascade of the new value, removal from the old parent's collection,
   append to the new parent's collection *)
Definition scalar_set (cfg : config) (s : state) (c ri : nat) (v : option nat) (su_key rm_old app_new : bool) : state :=
  let old := par s c ri in
  let s1 :=
    if opt_eqb old v then s
    else
      let sa := match v with
                | Some x => if su_key && attached s c && c_su (bk (getrel cfg ri)) && negb (in_session s x)
                            then sou_state cfg s x else s
                | None => s
                end in
      let sb := match old with
                | Some q => if rm_old then detach_old cfg sa q ri c else sa
                | None => sa
                end in
      match v with
      | Some x => if app_new then attach_new sb x ri c else sb
      | None => sb
      end in
  set_par (mod_scalar s1 c ri old) c ri v.

(* p.r<ri>.append(c)   (the harness skips it when c is already a member) *)
Definition op_append (cfg : config) (s : state) (p ri c : nat) : state :=
  if mem c (coll s p ri) then s
  else
    let s1 := casc_append_listener cfg s p (F ri) c true in
    let s2 := if hasback (getrel cfg ri) then scalar_set cfg s1 c ri (Some p) false true false else s1 in
    let s3 := mod_coll s2 p ri in
    let s4 := set_hp s3 c ri (HParent p) in
    set_coll s4 p ri (coll s4 p ri ++ [c]).

(* p.r<ri>.remove(c)   (skipped when c is not a member) *)
Definition op_remove (cfg : config) (s : state) (p ri c : nat) : state :=
  if negb (mem c (coll s p ri)) then s
  else
    let s1 := sethp_false s c ri p in
    let s2 := casc_remove_listener cfg s1 p ri c in
    let s3 := if hasback (getrel cfg ri) && opt_eqb (par s2 c ri) (Some p)
              then scalar_set cfg s2 c ri None false false false else s2 in
    let s4 := mod_coll s3 p ri in
    set_coll s4 p ri (remove1 c (coll s4 p ri)).

(* c.b<ri> = v *)
Definition op_setparent (cfg : config) (s : state) (c ri : nat) (v : option nat) : state :=
  scalar_set cfg s c ri v true true true.

(* p.r<ri> = cs   (CollectionAttributeImpl.set + collections.bulk_replace) *)
Definition bulk_append (cfg : config) (p ri : nat) (s : state) (m : nat) : state :=
  let s1 := casc_append_listener cfg s p (F ri) m true in
  let s2 := if hasback (getrel cfg ri) then scalar_set cfg s1 m ri (Some p) false true false else s1 in
  let s3 := set_modf s2 p true in
  let s4 := set_hp s3 m ri (HParent p) in
  set_coll s4 p ri (coll s4 p ri ++ [m]).
Definition bulk_remove (cfg : config) (p ri : nat) (s : state) (m : nat) : state :=
  let s1 := sethp_false s m ri p in
  let s2 := casc_remove_listener cfg s1 p ri m in
  let s3 := if hasback (getrel cfg ri) && opt_eqb (par s2 m ri) (Some p)
            then scalar_set cfg s2 m ri None false true false else s2 in
  set_modf s3 p true.
Fixpoint nodupb (l : list nat) : bool := match l with [] => true | x :: r => negb (mem x r) && nodupb r end.
Definition op_replace (cfg : config) (s : state) (p ri : nat) (cs : list nat) : state :=
  if negb (nodupb cs) then set_poison s else
  let old := coll s p ri in
  let s0 := set_coll (mod_coll s p ri) p ri [] in
  let constants := filter (fun c => mem c cs) old in
  let removals := filter (fun c => negb (mem c cs)) old in
  let s1 := fold_left (fun s m => if mem m constants then set_coll s p ri (coll s p ri ++ [m])
                                  else bulk_append cfg p ri s m) cs s0 in
  let s2 := fold_left (fun s m => casc_append_listener cfg s p (F ri) m true) constants s1 in
  fold_left (bulk_remove cfg p ri) removals s2.

(* ---------- Session.add / delete / expunge / expire ---------- *)
Definition op_add (cfg : config) (s : state) (o : nat) : state * nat :=
  if was_deleted s o then (s, 1) else (sou_state cfg s o, 0).

Definition op_delete (cfg : config) (s : state) (o : nat) : state * nat :=
  if negb (has_key s o) then (s, 1)
  else if was_deleted s o then (set_poison s, 0)
  else if marked s o then (s, 0)
  else
    let s1 := match st s o with Detached => set_st s o Persistent | _ => s end in
    let casc := cascade_iter cfg s1 TDL no_halt o in
    (fold_left delete_impl_casc casc (set_marked s1 o true), 0).

Definition op_expunge (cfg : config) (s : state) (o : nat) : state * nat :=
  if negb (attached s o) then (s, 1) else (expunge_all cfg s o, 0).

Definition cond_expire (s : state) (x : nat) : state :=
  if has_key s x then set_expired s x true
  else if is_pending s x then set_st s x Transient else s.
Definition op_expire (cfg : config) (s : state) (o : nat) : state * nat :=
  match st s o with
  | Persistent => (fold_left cond_expire (o :: cascade_iter cfg s TRE no_halt o) s, 0)
  | _ => (s, 1)
  end.

(* ---------- flush ---------- *)
Definition hist_coll (s : state) (p ri : nat) : list nat * list nat * list nat :=
  let cur := coll s p ri in
  match ccomm s p ri with
  | None => ([], cur, [])
  | Some orig => (filter (fun c => negb (mem c orig)) cur, filter (fun c => mem c orig) cur,
                  filter (fun c => negb (mem c cur)) orig)
  end.
Definition h_added (h : list nat * list nat * list nat) := fst (fst h).
Definition h_unch (h : list nat * list nat * list nat) := snd (fst h).
Definition h_del (h : list nat * list nat * list nat) := snd h.

(* History.from_object_attribute : (added, unchanged, deleted) with None kept in added/unchanged *)
Definition hist_scalar (s : state) (c ri : nat) : list (option nat) * list (option nat) * list nat :=
  let cur := par s c ri in
  match pcomm s c ri with
  | PCnone => ([], [cur], [])
  | PCnov => ([cur], [], [])
  | PCval orig => if opt_eqb orig cur then ([], [cur], []) else ([cur], [], olist orig)
  end.

Record uow := mkUow { reg : nat -> option bool; order : list nat; done_ : list (prop * nat) }.
Definition uow0 : uow := mkUow (fun _ => None) [] [].

(* UOWTransaction.register_object (listonly is never used in this fragment) *)
Definition register (s : state) (u : uow) (rq : nat * bool * bool) : uow :=
  let '(x, isdel, cancel) := rq in
  if negb (in_session s x) then u
  else match reg u x with
       | None => mkUow (upd (reg u) x (Some isdel)) (order u ++ [x]) (done_ u)
       | Some _ => if isdel || cancel then mkUow (upd (reg u) x (Some isdel)) (order u) (done_ u) else u
       end.
Definition is_del (u : uow) (x : nat) : bool := match reg u x with Some true => true | _ => false end.

Definition with_delete_cascade (cfg : config) (s : state) (x : nat) : list (nat * bool * bool) :=
  (x, true, false) :: map (fun g => (g, true, false)) (cascade_iter cfg s TDL no_halt x).

(* requests issued by presort_deletes / presort_saves of one processor for one state *)
Definition reqs (cfg : config) (s : state) (pr : prop) (isdelete : bool) (o : nat) : list (nat * bool * bool) :=
  match pr with
  | F ri =>
      let fm := fwd (getrel cfg ri) in
      let h := hist_coll s o ri in
      if isdelete then
        map (fun c => (c, c_do fm, false)) (filter (fun c => hp_false s c ri) (h_del h))
        ++ (if c_dl fm then [] else map (fun c => (c, false, false)) (h_unch h))
      else
        map (fun c => (c, false, true)) (h_added h)
        ++ flat_map (fun c => if negb (c_do fm) then [(c, false, false)]
                              else if hp_false s c ri then with_delete_cascade cfg s c else [])
                    (h_del h)
  | B ri =>
      let bm := bk (getrel cfg ri) in
      if isdelete then
        if c_dl bm then
          let h := hist_scalar s o ri in
          flat_map (fun x => match x with Some x' => with_delete_cascade cfg s x' | None => [] end)
                   (fst (fst h) ++ snd (fst h))
        else []
      else [(o, false, false)]
  end.

Definition prop_class (cfg : config) (pr : prop) : nat :=
  match pr with F ri => rp (getrel cfg ri) | B ri => rc (getrel cfg ri) end.
Definition done_mem (pr : prop) (o : nat) (d : list (prop * nat)) : bool :=
  existsb (fun x => prop_eqb (fst x) pr && Nat.eqb (snd x) o) d.

(* _Preprocess.execute for one processor: partition the unprocessed states, deletes first *)
Definition batch (cfg : config) (s : state) (ub : uow * bool) (pr : prop) : uow * bool :=
  let '(u, changed) := ub in
  let todo := filter (fun o => Nat.eqb (cls cfg o) (prop_class cfg pr) && negb (done_mem pr o (done_ u))) (order u) in
  let dels := filter (is_del u) todo in
  let savs := filter (fun o => negb (is_del u o)) todo in
  let rq := flat_map (reqs cfg s pr true) dels ++ flat_map (reqs cfg s pr false) savs in
  let u1 := mkUow (reg u) (order u) (map (fun o => (pr, o)) todo ++ done_ u) in
  (fold_left (register s) rq u1, match todo with [] => changed | _ => true end).

Fixpoint presort (cfg : config) (s : state) (procs : list prop) (fuel : nat) (u : uow) : option uow :=
  match fuel with
  | 0 => None
  | S f => let '(u', changed) := fold_left (batch cfg s) procs (u, false) in
           if changed then presort cfg s procs f u' else Some u'
  end.

(* canonical processor order: per relationship the one-to-many processor, then the many-to-one one *)
Definition all_procs (cfg : config) : list prop :=
  flat_map (fun ir => let '(ri, r) := ir in F ri :: (if hasback r then [B ri] else [])) (indexed 0 (rels cfg)).

Definition objs (cfg : config) : list nat := seq 0 (nobj cfg).

(* Session._flush, top level: orphan detection over new + dirty, then the remaining deletes *)
(* new + dirty - deleted *)
Definition top_proc (cfg : config) (s : state) : list nat :=
  filter (fun o => (is_pending s o || (match st s o with Persistent => modf s o | _ => false end))
                   && negb (marked s o)) (objs cfg).
(* a pending orphan that was orphaned outside of the session is expunged instead of flushed.  The decision
   reads only the object's own flags, which the loop has not touched yet, so it is taken on the entry state *)
Definition top_expunge (cfg : config) (s : state) (o : nat) : bool :=
  is_orphan cfg s o && negb (has_key s o) && oos s o.
Definition top_register (cfg : config) (s s1 : state) (u : uow) (o : nat) : uow :=
  if top_expunge cfg s o then u else register s1 u (o, is_orphan cfg s o && has_key s o, false).
Definition top_marked (s1 : state) (u : uow) (o : nat) : uow :=
  if marked s1 o && in_session s1 o then
    match reg u o with None => register s1 u (o, true, false) | Some _ => u end
  else u.
Definition flush_top (cfg : config) (s : state) : state * uow :=
  let proc := top_proc cfg s in
  let s1 := fold_left (fun a o => if top_expunge cfg s o then expunge1 a o else a) proc s in
  (s1, fold_left (top_marked s1) (objs cfg) (fold_left (top_register cfg s s1) proc uow0)).

Definition set_fk_unless_deleted (u : uow) (s : state) (c ri : nat) (v : option nat) : state :=
  if is_del u c then s else set_fk s c ri v.

(* process_saves / process_deletes of both processors of relationship [ri] *)
Definition sync_rel (cfg : config) (u : uow) (s : state) (ir : nat * rel) : state :=
  let '(ri, r) := ir in
  let fm := fwd r in
  let added_anywhere :=
    flat_map (fun q => if Nat.eqb (cls cfg q) (rp r) && negb (is_del u q) then h_added (hist_coll s q ri) else [])
             (order u) in
  let s1 :=
    fold_left (fun s p =>
      if negb (Nat.eqb (cls cfg p) (rp r)) then s else
      let h := hist_coll s p ri in
      if negb (is_del u p) then
        let sa := fold_left (fun s c => set_fk_unless_deleted u s c ri (Some p)) (h_added h) s in
        fold_left (fun s c => if negb (c_do fm) && hp_false s c ri then set_fk_unless_deleted u s c ri None else s)
                  (h_del h) sa
      else
        let sa := fold_left (fun s c => if hp_false s c ri then set_fk_unless_deleted u s c ri None else s) (h_del h) s in
        if c_dl fm then sa
        else fold_left (fun s c => if mem c added_anywhere then s else set_fk_unless_deleted u s c ri None) (h_unch h) sa)
      (order u) s in
  if hasback r then
    fold_left (fun s c =>
      if negb (Nat.eqb (cls cfg c) (rc r)) || is_del u c then s else
      let h := hist_scalar s c ri in
      match fst (fst h), snd h with
      | [], [] => s
      | [], _ :: _ => set_fk s c ri None
      | a, _ => fold_left (fun s x => match x with
                                       | Some x' => if in_session s x' then set_fk s c ri (Some x') else s
                                       | None => set_fk s c ri None
                                       end) a s
      end) (order u) s1
  else s1.

Definition finalize1 (cfg : config) (u : uow) (s : state) (o : nat) : state :=
  if is_del u o then set_marked (set_st (set_row s o false (fun _ => None)) o Deleted) o false
  else
    let s1 := set_modf (set_st (set_row s o true (fk s o)) o Persistent) o false in
    fold_left (fun s ir => let '(ri, r) := ir in
                 let sa := if Nat.eqb (rp r) (cls cfg o) then set_ccomm s o ri None else s in
                 if Nat.eqb (rc r) (cls cfg o) && hasback r then set_pcomm sa o ri PCnone else sa)
              (indexed 0 (rels cfg)) s1.

Definition presort_fuel (cfg : config) : nat := S (length (all_procs cfg) * nobj cfg).

(* error 2 = FlushError (DELETE of a pending object) *)
Definition flush_with (cfg : config) (procs : list prop) (s : state) : state * nat :=
  let '(s1, u0) := flush_top cfg s in
  match order u0 with
  | [] => (s1, 0)
  | _ =>
      match presort cfg s1 procs (presort_fuel cfg) u0 with
      | None => (set_poison s1, 0)
      | Some u =>
          if existsb (fun o => is_del u o && negb (has_key s1 o)) (order u) then (s1, 2)
          else
            let s2 := fold_left (sync_rel cfg u) (indexed 0 (rels cfg)) s1 in
            (fold_left (finalize1 cfg u) (order u) s2, 0)
      end
  end.
Definition op_flush (cfg : config) (s : state) : state * nat := flush_with cfg (all_procs cfg) s.

(* ---------- operations ---------- *)
Inductive op :=
| OAdd (o : nat) | ODelete (o : nat) | OExpunge (o : nat)
| OAppend (p ri c : nat) | ORemove (p ri c : nat) | OSetParent (c ri : nat) (v : option nat)
| OReplace (p ri : nat) (cs : list nat) | OFlush | OExpire (o : nat).

(* an append/replace that would put a child into the collections of two parents of the same relationship
   (possible only without a backref) makes the flushed foreign key depend on set iteration order *)
Definition second_parent (cfg : config) (s : state) (p ri c : nat) : bool :=
  negb (hasback (getrel cfg ri)) && existsb (fun q => negb (Nat.eqb q p) && mem c (coll s q ri)) (objs cfg).

Definition step (cfg : config) (s : state) (o : op) : state * nat :=
  match o with
  | OAdd x => op_add cfg s x
  | ODelete x => op_delete cfg s x
  | OExpunge x => op_expunge cfg s x
  | OAppend p ri c => if second_parent cfg s p ri c then (set_poison s, 0) else (op_append cfg s p ri c, 0)
  | ORemove p ri c => (op_remove cfg s p ri c, 0)
  | OSetParent c ri v => (op_setparent cfg s c ri v, 0)
  | OReplace p ri cs => if existsb (second_parent cfg s p ri) cs then (set_poison s, 0) else (op_replace cfg s p ri cs, 0)
  | OFlush => op_flush cfg s
  | OExpire x => op_expire cfg s x
  end.

Definition run (cfg : config) (ops : list op) : state := fold_left (fun s o => fst (step cfg s o)) ops init_state.
