(* C37 - proofs, part 3: many-to-many.  Both sides are list collections; the statements are generic
   in the side the user mutates. *)
From Coq Require Import List NArith Bool Lia Arith.
Import ListNotations.
From SAV.orm Require Import Backref BackrefSpec BackrefBase BackrefO2M.
Open Scope N_scope.

Definition agree_sd (s : st) (sd : side) : Prop :=
  forall o v, In v (coll_of s sd o) <-> In o (coll_of s (other sd) v).

Lemma other_other : forall sd, other (other sd) = sd. Proof. destruct sd; reflexivity. Qed.
Lemma other_neq : forall sd, other sd <> sd. Proof. destruct sd; discriminate. Qed.
Lemma other_neq' : forall sd, sd <> other sd. Proof. destruct sd; discriminate. Qed.

Lemma inv_m2m_sd : forall s sd, inv_m2m s ->
  agree_sd s sd /\ nodup_side s sd /\ nodup_side s (other sd) /\ nonzero_side s sd /\ nonzero_side s (other sd).
Proof.
  intros s sd I. destruct I as [A NA NB ZA ZB]. destruct sd; cbn [other]; repeat split; auto.
  - apply A. - apply A. - intros H. apply A. exact H. - intros H. apply A. exact H.
Qed.
Lemma inv_m2m_of_sd : forall s sd,
  agree_sd s sd -> nodup_side s sd -> nodup_side s (other sd) -> nonzero_side s sd -> nonzero_side s (other sd) ->
  inv_m2m s.
Proof.
  intros s sd A N1 N2 Z1 Z2. destruct sd; cbn [other] in *; constructor; auto.
  - intros l r. split; intros H; apply A; exact H.
Qed.

(* ---- closed forms of the backref chains under M2M ---- *)
Definition attach_m (s : st) (sd : side) (o v : N) : st :=
  set_cell s (other sd) v (CList (coll_of s (other sd) v ++ [o])).
Definition detach_m (s : st) (sd : side) (o v : N) : st :=
  if memb o (coll_of s (other sd) v)
  then set_cell s (other sd) v (CList (remove1 o (coll_of s (other sd) v))) else s.

Lemma fire_append_m2m : forall n s sd o v init, v <> 0 ->
  init = (sd, TAppend) \/ init = (sd, TBulk) ->
  exec M2M (S (S (S (S (S n))))) (KAppendEvent sd o v init) s = Ok (attach_m s sd o v).
Proof.
  intros n s sd o v init V I. apply N.eqb_neq in V.
  destruct I as [-> | ->]; destruct sd; ev; rewrite V; ev; try reflexivity;
    destruct (o =? 0); reflexivity.
Qed.

Lemma fire_remove_m2m : forall n s sd o v init, v <> 0 ->
  init = (sd, TRemove) \/ init = (sd, TBulk) ->
  exec M2M (S (S (S (S (S n))))) (KRemoveEvent sd o (OV v) init) s = Ok (detach_m s sd o v).
Proof.
  intros n s sd o v init V I. unfold detach_m.
  destruct I as [-> | ->]; destruct sd; ev; rewrite (real_obj_ov v V); ev;
    (destruct o as [|o']; cbn [real_obj]; ev;
     [destruct (memb 0 (coll_of s _ v)); reflexivity|
      destruct (memb (N.pos o') (coll_of s _ v)); reflexivity]).
Qed.

Lemma m2m_add : forall s sd o v l', inv_m2m s -> o <> 0 -> v <> 0 -> ~ In v (coll_of s sd o) ->
  NoDup l' -> (forall x, In x l' <-> x = v \/ In x (coll_of s sd o)) ->
  inv_m2m (set_cell (attach_m s sd o v) sd o (CList l')).
Proof.
  intros s sd o v l' I O V NI ND L. destruct (inv_m2m_sd s sd I) as (A & N1 & N2 & Z1 & Z2).
  pose proof (other_neq sd) as ON. pose proof (other_neq' sd) as ON'.
  unfold attach_m. apply (inv_m2m_of_sd _ sd).
  - intros o' v'. destruct (N.eq_dec o' o) as [->|NO]; destruct (N.eq_dec v' v) as [->|NV];
      repeat first [rewrite coll_set_same | rewrite coll_set_other_obj by congruence
                   | rewrite coll_set_other_side by congruence].
    + rewrite L, in_app_iff. cbn. tauto.
    + rewrite L, <- (A o v'). intuition congruence.
    + rewrite in_app_iff, (A o' v). cbn. intuition congruence.
    + apply A.
  - intros o'. destruct (N.eq_dec o' o) as [->|NO];
      repeat first [rewrite coll_set_same | rewrite coll_set_other_obj by congruence
                   | rewrite coll_set_other_side by congruence]; [exact ND|apply N1].
  - intros v'. rewrite coll_set_other_side by congruence. destruct (N.eq_dec v' v) as [->|NV];
      repeat first [rewrite coll_set_same | rewrite coll_set_other_obj by congruence]; [|apply N2].
    apply NoDup_snoc; [apply N2|]. intros H. apply NI. apply A. exact H.
  - intros o'. destruct (N.eq_dec o' o) as [->|NO];
      repeat first [rewrite coll_set_same | rewrite coll_set_other_obj by congruence
                   | rewrite coll_set_other_side by congruence]; [|apply Z1].
    rewrite L. intros [E|H]; [congruence|apply (Z1 o H)].
  - intros v'. rewrite coll_set_other_side by congruence. destruct (N.eq_dec v' v) as [->|NV];
      repeat first [rewrite coll_set_same | rewrite coll_set_other_obj by congruence]; [|apply Z2].
    rewrite in_app_iff. cbn. intros [H|[E|[]]]; [apply (Z2 v H)|congruence].
Qed.

Lemma m2m_del : forall s sd o v l', inv_m2m s -> In v (coll_of s sd o) ->
  NoDup l' -> (forall x, In x l' <-> In x (coll_of s sd o) /\ x <> v) ->
  inv_m2m (set_cell (detach_m s sd o v) sd o (CList l')).
Proof.
  intros s sd o v l' I IN ND L. destruct (inv_m2m_sd s sd I) as (A & N1 & N2 & Z1 & Z2).
  pose proof (other_neq sd) as ON. pose proof (other_neq' sd) as ON'.
  assert (M : memb o (coll_of s (other sd) v) = true) by (apply memb_In; apply A; exact IN).
  unfold detach_m. rewrite M. apply (inv_m2m_of_sd _ sd).
  - intros o' v'. destruct (N.eq_dec o' o) as [->|NO]; destruct (N.eq_dec v' v) as [->|NV];
      repeat first [rewrite coll_set_same | rewrite coll_set_other_obj by congruence
                   | rewrite coll_set_other_side by congruence].
    + rewrite L, remove1_In by apply N2. tauto.
    + rewrite L, <- (A o v'). intuition congruence.
    + rewrite remove1_In by apply N2. rewrite (A o' v). intuition congruence.
    + apply A.
  - intros o'. destruct (N.eq_dec o' o) as [->|NO];
      repeat first [rewrite coll_set_same | rewrite coll_set_other_obj by congruence
                   | rewrite coll_set_other_side by congruence]; [exact ND|apply N1].
  - intros v'. rewrite coll_set_other_side by congruence. destruct (N.eq_dec v' v) as [->|NV];
      repeat first [rewrite coll_set_same | rewrite coll_set_other_obj by congruence]; [|apply N2].
    apply remove1_NoDup. apply N2.
  - intros o'. destruct (N.eq_dec o' o) as [->|NO];
      repeat first [rewrite coll_set_same | rewrite coll_set_other_obj by congruence
                   | rewrite coll_set_other_side by congruence]; [|apply Z1].
    rewrite L. intros [H _]. apply (Z1 o H).
  - intros v'. rewrite coll_set_other_side by congruence. destruct (N.eq_dec v' v) as [->|NV];
      repeat first [rewrite coll_set_same | rewrite coll_set_other_obj by congruence]; [|apply Z2].
    intros H. apply remove1_incl in H. apply (Z2 v H).
Qed.

Lemma detach_m_noop : forall s sd o v, inv_m2m s -> ~ In v (coll_of s sd o) -> detach_m s sd o v = s.
Proof.
  intros s sd o v I NI. destruct (inv_m2m_sd s sd I) as (A & _). unfold detach_m.
  destruct (memb o (coll_of s (other sd) v)) eqn:M; [|reflexivity].
  exfalso. apply NI. apply A. apply memb_In. exact M.
Qed.
Lemma detach_m_coll : forall s sd o v, coll_of (detach_m s sd o v) sd o = coll_of s sd o.
Proof.
  intros. unfold detach_m. destruct (memb o (coll_of s (other sd) v)); [|reflexivity].
  apply coll_set_other_side. apply other_neq'.
Qed.
Lemma attach_m_coll : forall s sd o v, coll_of (attach_m s sd o v) sd o = coll_of s sd o.
Proof. intros. unfold attach_m. apply coll_set_other_side. apply other_neq'. Qed.

(* ---------- the guarded primitives ---------- *)
Lemma m2m_append : forall s sd o v, inv_m2m s -> o <> 0 -> v <> 0 -> ~ In v (coll_of s sd o) ->
  exists s', step_prim M2M (PAppend sd o v) s = Ok s' /\ inv_m2m s'.
Proof.
  intros s sd o v I O V NI. destruct (inv_m2m_sd s sd I) as (A & N1 & _).
  unfold step_prim, run_call, FUEL. rewrite exec_coll_append, exec_fire_append.
  assert (T : tok_append M2M sd = (sd, TAppend)) by (destruct sd; reflexivity). rewrite T.
  rewrite (fire_append_m2m 5 s sd o v (sd, TAppend) V (or_introl eq_refl)). cbn [bind].
  eexists. split; [reflexivity|]. rewrite attach_m_coll. apply m2m_add; auto.
  - apply NoDup_snoc; [apply N1|exact NI].
  - intros x. rewrite in_app_iff. cbn. intuition.
Qed.

Lemma m2m_insert : forall s sd o i v, inv_m2m s -> o <> 0 -> v <> 0 -> ~ In v (coll_of s sd o) ->
  exists s', step_prim M2M (PInsert sd o i v) s = Ok s' /\ inv_m2m s'.
Proof.
  intros s sd o i v I O V NI. destruct (inv_m2m_sd s sd I) as (A & N1 & _).
  unfold step_prim, run_call, FUEL. rewrite exec_fire_append.
  assert (T : tok_append M2M sd = (sd, TAppend)) by (destruct sd; reflexivity). rewrite T.
  rewrite (fire_append_m2m 6 s sd o v (sd, TAppend) V (or_introl eq_refl)). cbn [bind].
  eexists. split; [reflexivity|]. rewrite attach_m_coll. apply m2m_add; auto.
  - apply insert_at_NoDup; [apply N1|exact NI].
  - intros x. apply insert_at_In.
Qed.

Lemma m2m_remove : forall s sd o v, inv_m2m s -> v <> 0 ->
  exists s', (step_prim M2M (PRemove sd o v) s = Ok s' \/ step_prim M2M (PRemove sd o v) s = Err ValueError s')
             /\ inv_m2m s'.
Proof.
  intros s sd o v I V. destruct (inv_m2m_sd s sd I) as (A & N1 & _).
  unfold step_prim, run_call, FUEL. rewrite exec_coll_remove.
  destruct (memb v (coll_of s sd o)) eqn:M; [|exists s; auto].
  rewrite exec_fire_remove. unfold tok_remove.
  rewrite (fire_remove_m2m 5 s sd o v (sd, TRemove) V (or_introl eq_refl)). cbn [bind].
  rewrite detach_m_coll, M.
  eexists. split; [left; reflexivity|]. apply memb_In in M. apply m2m_del; auto.
  - apply remove1_NoDup. apply N1.
  - intros x. apply remove1_In. apply N1.
Qed.

Lemma m2m_delitem : forall s sd o i, inv_m2m s ->
  exists s', (step_prim M2M (PDelItem sd o i) s = Ok s' \/ step_prim M2M (PDelItem sd o i) s = Err IndexError s')
             /\ inv_m2m s'.
Proof.
  intros s sd o i I. destruct (inv_m2m_sd s sd I) as (A & N1 & _ & Z1 & _). unfold step_prim.
  destruct (nth_error (coll_of s sd o) i) as [v|] eqn:E; [|exists s; auto].
  assert (IN : In v (coll_of s sd o)) by (eapply nth_error_In; eauto).
  assert (V : v <> 0) by (intros ->; apply (Z1 o IN)).
  unfold run_call, FUEL. rewrite exec_fire_remove. unfold tok_remove.
  rewrite (fire_remove_m2m 6 s sd o v (sd, TRemove) V (or_introl eq_refl)). cbn [bind].
  eexists. split; [left; reflexivity|]. rewrite detach_m_coll, (remove_at_remove1 i _ v (N1 o) E).
  apply m2m_del; auto; [apply remove1_NoDup; apply N1|intros x; apply remove1_In; apply N1].
Qed.

Definition same_cells := BackrefO2M.same_cells.
Lemma inv_m2m_ext : forall s1 s2, same_cells s1 s2 -> inv_m2m s1 -> inv_m2m s2.
Proof.
  intros s1 s2 [A B] I.
  assert (C : forall sd o, coll_of s2 sd o = coll_of s1 sd o).
  { intros [] o; unfold coll_of; cbn; [rewrite A|rewrite B]; reflexivity. }
  destruct I as [AG NA NB ZA ZB]. constructor.
  - intros l r. rewrite !C. apply AG.
  - intros o. rewrite C. apply NA. - intros o. rewrite C. apply NB.
  - intros o. rewrite C. apply ZA. - intros o. rewrite C. apply ZB.
Qed.

Lemma detach_m_commute : forall s sd o v l',
  same_cells (set_cell (detach_m s sd o v) sd o (CList l')) (detach_m (set_cell s sd o (CList l')) sd o v).
Proof.
  intros s sd o v l'. unfold detach_m. rewrite (coll_set_other_side s sd o (CList l') (other sd) v (other_neq sd)).
  destruct (memb o (coll_of s (other sd) v)); destruct sd; split; intros x; reflexivity.
Qed.

Lemma m2m_pop : forall s sd o i, inv_m2m s ->
  exists s', (step_prim M2M (PPop sd o i) s = Ok s' \/ step_prim M2M (PPop sd o i) s = Err IndexError s')
             /\ inv_m2m s'.
Proof.
  intros s sd o i I. destruct (inv_m2m_sd s sd I) as (A & N1 & _ & Z1 & _). unfold step_prim.
  destruct (nth_error (coll_of s sd o) i) as [v|] eqn:E; [|exists s; auto].
  assert (IN : In v (coll_of s sd o)) by (eapply nth_error_In; eauto).
  assert (V : v <> 0) by (intros ->; apply (Z1 o IN)).
  rewrite (remove_at_remove1 i _ v (N1 o) E).
  unfold run_call, FUEL. rewrite exec_fire_remove. unfold tok_remove.
  rewrite (fire_remove_m2m 6 _ sd o v (sd, TRemove) V (or_introl eq_refl)).
  eexists. split; [left; reflexivity|].
  eapply inv_m2m_ext; [apply detach_m_commute|].
  apply m2m_del; auto; [apply remove1_NoDup; apply N1|intros x; apply remove1_In; apply N1].
Qed.
