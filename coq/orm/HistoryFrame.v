(* C36 - proofs, part 3: frame lemmas.  Which part of the state each primitive may change. *)
From Coq Require Import List NArith Bool Lia.
Import ListNotations.
From SAV.orm Require Import History HistorySpec HistoryProofs HistoryWf.
Open Scope N_scope.

(* case analysis on variables only: after [dstate] every scrutinee is a field or an atomic test *)
Ltac brv1 :=
  match goal with
  | |- context [match ?x with _ => _ end] => is_var x; destruct x
  | |- context [is_some ?x] => is_var x; destruct x
  | |- context [is_nohist ?x] => is_var x; destruct x
  | |- context [negb ?x] => is_var x; destruct x
  | |- context [andb ?x _] => is_var x; destruct x
  | |- context [orb ?x _] => is_var x; destruct x
  | |- context [memb ?a ?b] => destruct (memb a b)
  | |- context [same_key ?a ?b] => destruct (same_key a b)
  | |- context [holder ?a ?b] => destruct (holder a b)
  | |- context [N.eqb ?a ?b] => destruct (N.eqb a b)
  | |- context [existsb ?a ?b] => destruct (existsb a b)
  | |- context [find ?a ?b] => destruct (find a b)
  end.
Ltac brv := cbn; repeat (brv1; cbn).

(* the database is only written by flush *)
Definition keepDB (s s' : st) : Prop :=
  db_x s' = db_x s /\ db_b s' = db_b s /\ db_c s' = db_c s /\ persistent s' = persistent s.
(* x: unchanged, or (clean) refreshed from the database *)
Definition loadX (s s' : st) : Prop :=
  x_c s' = x_c s /\ (x_d s' = x_d s \/ (x_c s = NoHist /\ x_d s' = Some (db_x s))).
Definition keepX (s s' : st) : Prop := x_c s' = x_c s /\ x_d s' = x_d s.
Definition keepB (s s' : st) : Prop := b_c s' = b_c s /\ b_d s' = b_d s.
Definition keepC (s s' : st) : Prop := c_c s' = c_c s /\ c_d s' = c_d s.
(* b: unchanged, or (absent, without a captured value) loaded from the database and committed *)
Definition loadB (s s' : st) : Prop :=
  keepB s s' \/ (b_d s = None /\ (b_c s = NoHist \/ b_c s = CNoValue) /\
                 b_c s' = NoHist /\ exists v, b_d s' = Some v).
Definition loadC (s s' : st) : Prop :=
  keepC s s' \/ (c_d s = None /\ (c_c s = NoHist \/ c_c s = CNoValue) /\
                 c_c s' = NoHist /\ exists l, c_d s' = Some l).

Lemma loadX_refl : forall s, loadX s s. Proof. unfold loadX; auto. Qed.
Lemma keepDB_refl : forall s, keepDB s s. Proof. unfold keepDB; auto. Qed.
Lemma keepX_loadX : forall s s', keepX s s' -> loadX s s'. Proof. unfold keepX, loadX; intuition. Qed.
Lemma loadX_trans : forall s1 s2 s3, keepDB s1 s2 -> loadX s1 s2 -> loadX s2 s3 -> loadX s1 s3.
Proof.
  unfold loadX, keepDB. intros s1 s2 s3 (DX & _) [C1 D1] [C2 D2]. split; [congruence|].
  destruct D2 as [D2|[N D2]]; [destruct D1 as [D1|[N1 D1]]; [left|right]|right]; try split; congruence.
Qed.
Lemma keepDB_trans : forall s1 s2 s3, keepDB s1 s2 -> keepDB s2 s3 -> keepDB s1 s3.
Proof. unfold keepDB. intuition congruence. Qed.
Lemma keepB_refl : forall s, keepB s s. Proof. unfold keepB; auto. Qed.
Lemma keepC_refl : forall s, keepC s s. Proof. unfold keepC; auto. Qed.
Lemma keepB_trans : forall s1 s2 s3, keepB s1 s2 -> keepB s2 s3 -> keepB s1 s3.
Proof. unfold keepB. intuition congruence. Qed.
Lemma keepC_trans : forall s1 s2 s3, keepC s1 s2 -> keepC s2 s3 -> keepC s1 s3.
Proof. unfold keepC. intuition congruence. Qed.
#[export] Hint Resolve loadX_refl keepDB_refl keepB_refl keepC_refl keepX_loadX : core.

Ltac frame_solve := unfold keepDB, loadX, keepX, keepB, keepC, loadB, loadC; brv; intuition eauto.

Lemma load_expired_frame : forall p s, let s' := fst (load_expired p s) in
  keepDB s s' /\ loadX s s' /\ keepB s s' /\ keepC s s'.
Proof. intros [co so io] s. dstate s. unfold load_expired. frame_solve. Qed.

Lemma col_bid_frame : forall p s, let s' := fst (col_bid p s) in
  keepDB s s' /\ loadX s s' /\ keepB s s' /\ keepC s s'.
Proof. intros [co so io] s. dstate s. unfold col_bid, load_expired. frame_solve. Qed.

Lemma get_x_frame : forall p s, let s' := fst (get_x p s) in
  keepDB s s' /\ loadX s s' /\ keepB s s' /\ keepC s s'.
Proof. intros [co so io] s. dstate s. unfold get_x, get, loader_x, load_expired, commit_x. frame_solve. Qed.

Lemma get_b_frame : forall p s, let s' := fst (get_b p s) in
  keepDB s s' /\ loadX s s' /\ loadB s s' /\ keepC s s'.
Proof.
  intros [co so io] s. dstate s. unfold get_b, get, loader_b, col_bid, load_expired, commit_b.
  frame_solve.
Qed.

Lemma get_c_frame : forall p s, let s' := fst (get_c p s) in
  keepDB s s' /\ loadX s s' /\ keepB s s' /\ loadC s s'.
Proof.
  intros [co so io] s. dstate s. unfold get_c, get, loader_c, load_expired, commit_c.
  frame_solve.
Qed.

