(* C39 - save-update on collection append: the appended object is in the session afterwards, except in the
   region of the known defect (a not-yet-persistent child moved between parents of a delete-orphan relationship
   with a backref), which is refuted by a witness history.  Second witness: a row left dangling when a child
   is appended to a parent that is marked for deletion. *)
From Coq Require Import List Bool Arith Lia.
From SAV.orm Require Import Cascade CascadeIterProofs CascadeOpsProofs.
Import ListNotations.

Lemma sou_impl_keeps : forall s o x, in_session s x = true -> in_session (sou_impl s o) x = true.
Proof.
  intros s o x H. unfold sou_impl. destruct (st s o) eqn:E; try exact H;
    unfold in_session in *; cbn [st set_st set_marked set_poison]; unfold upd;
    destruct (Nat.eqb x o) eqn:Ex; try exact H; reflexivity.
Qed.
Lemma fold_sou_impl_keeps : forall l s x, in_session s x = true -> in_session (fold_left sou_impl l s) x = true.
Proof. induction l as [|c l IH]; intros s x H; cbn [fold_left]; auto. apply IH, sou_impl_keeps, H. Qed.

Lemma sou_state_adds : forall cfg s c, was_deleted s c = false -> in_session (sou_state cfg s c) c = true.
Proof.
  intros cfg s c Hd. unfold sou_state. apply fold_sou_impl_keeps.
  unfold in_session. rewrite st_sou_impl by exact Hd. rewrite Nat.eqb_refl. cbn [st set_oos].
  rewrite in_session_promote. unfold was_deleted in Hd. destruct (st s c); try discriminate; reflexivity.
Qed.

(* frame: the save-update cascade touches only session membership *)
Lemma sou_impl_frame : forall s o,
  coll (sou_impl s o) = coll s /\ ccomm (sou_impl s o) = ccomm s /\ par (sou_impl s o) = par s /\
  pcomm (sou_impl s o) = pcomm s /\ hp (sou_impl s o) = hp s.
Proof. intros s o. unfold sou_impl. destruct (st s o); repeat split; reflexivity. Qed.
Lemma fold_sou_impl_frame : forall l s,
  coll (fold_left sou_impl l s) = coll s /\ ccomm (fold_left sou_impl l s) = ccomm s /\
  par (fold_left sou_impl l s) = par s /\ pcomm (fold_left sou_impl l s) = pcomm s /\ hp (fold_left sou_impl l s) = hp s.
Proof.
  induction l as [|c l IH]; intros s; cbn [fold_left]; [repeat split; reflexivity|].
  destruct (IH (sou_impl s c)) as [I1 [I2 [I3 [I4 I5]]]]. destruct (sou_impl_frame s c) as [F1 [F2 [F3 [F4 F5]]]].
  repeat split; congruence.
Qed.
Lemma sou_state_frame : forall cfg s o,
  coll (sou_state cfg s o) = coll s /\ par (sou_state cfg s o) = par s /\ hp (sou_state cfg s o) = hp s.
Proof.
  intros cfg s o. unfold sou_state.
  destruct (fold_sou_impl_frame (cascade_iter cfg (sou_impl (set_oos s o false) o) TSU
                                   (in_session (sou_impl (set_oos s o false) o)) o)
                                (sou_impl (set_oos s o false) o)) as [I1 [_ [I3 [_ I5]]]].
  destruct (sou_impl_frame (set_oos s o false) o) as [F1 [_ [F3 [_ F5]]]].
  split; [rewrite I1, F1; reflexivity|]. split; [rewrite I3, F3; reflexivity|rewrite I5, F5; reflexivity].
Qed.

(* the defective region: the child has no identity yet, the relationship is delete-orphan with a backref, and
   the child currently belongs to another parent *)
Definition moves_unsaved_child (cfg : config) (s : state) (p ri c : nat) : bool :=
  hasback (getrel cfg ri) && c_do (fwd (getrel cfg ri)) && negb (has_key s c) &&
  match par s c ri with Some q => negb (Nat.eqb q p) | None => false end.

Lemma st_detach_old_keeps : forall cfg s old ri c,
  (c_do (fwd (getrel cfg ri)) = false \/ is_pending s c = false) ->
  st (detach_old cfg s old ri c) = st s.
Proof.
  intros cfg s old ri c H. unfold detach_old.
  assert (E : st (casc_remove_listener cfg (sethp_false s c ri old) old ri c) = st s).
  { unfold casc_remove_listener.
    assert (S0 : st (sethp_false s c ri old) = st s).
    { unfold sethp_false. destruct (hp s c ri); [reflexivity|reflexivity|]. destruct (key_eqb s p old); reflexivity. }
    destruct H as [H|H].
    - rewrite H. cbn [andb]. exact S0.
    - destruct (c_do (fwd (getrel cfg ri)) && is_orphan cfg (sethp_false s c ri old) c); [|exact S0].
      assert (P : is_pending (sethp_false s c ri old) c = false).
      { unfold is_pending in *. rewrite S0. exact H. }
      rewrite P, andb_false_r. cbn [st set_oos]. exact S0. }
  unfold mod_coll.
  destruct (ccomm (casc_remove_listener cfg (sethp_false s c ri old) old ri c) old ri); cbn [st set_coll set_modf set_ccomm]; exact E.
Qed.

Theorem append_save_update_guarded : forall cfg s p ri c,
  attached s p = true -> c_su (fwd (getrel cfg ri)) = true -> mem c (coll s p ri) = false ->
  was_deleted s c = false -> moves_unsaved_child cfg s p ri c = false ->
  in_session (op_append cfg s p ri c) c = true /\ In c (coll (op_append cfg s p ri c) p ri).
Proof.
  intros cfg s p ri c Ha Hsu Hm Hd Hg. unfold op_append. rewrite Hm.
  set (s1 := casc_append_listener cfg s p (F ri) c true).
  assert (I1 : in_session s1 c = true).
  { unfold s1, casc_append_listener. cbn [prop_casc]. rewrite Ha, Hsu. cbn [andb].
    destruct (in_session s c) eqn:I; cbn [negb]; [exact I|apply sou_state_adds; exact Hd]. }
  assert (Fr : par s1 = par s /\ forall x, has_key s x = true -> is_pending s1 x = false).
  { unfold s1, casc_append_listener. destruct (attached s p && c_su (prop_casc cfg (F ri)) && true && negb (in_session s c)) eqn:E.
    - destruct (sou_state_frame cfg s c) as [_ [F2 _]]. split; [exact F2|].
      intros x Hx. apply andb_true_iff in E. destruct E as [_ E]. apply negb_true_iff in E.
      (* statuses only get promoted: an object with a key never becomes pending *)
      unfold sou_state.
      assert (G : forall l a, is_pending a x = false -> has_key a x = true -> is_pending (fold_left sou_impl l a) x = false).
      { induction l as [|y l IH]; intros a P K; cbn [fold_left]; [exact P|]. apply IH.
        - unfold is_pending, has_key, sou_impl in *. destruct (st a y) eqn:Sy; try exact P;
            cbn [st set_st set_marked set_poison]; unfold upd; destruct (Nat.eqb x y) eqn:Ex; try exact P; try reflexivity.
          apply Nat.eqb_eq in Ex. subst. rewrite Sy in K. discriminate.
        - unfold is_pending, has_key, sou_impl in *. destruct (st a y) eqn:Sy; try exact K;
            cbn [st set_st set_marked set_poison]; unfold upd; destruct (Nat.eqb x y) eqn:Ex; try exact K; try reflexivity.
          apply Nat.eqb_eq in Ex. subst. rewrite Sy in K. discriminate. }
      apply G.
      + unfold is_pending, has_key, sou_impl in *. cbn [st set_oos]. destruct (st s c) eqn:Sc;
          cbn [st set_st set_marked set_poison set_oos]; unfold upd; destruct (Nat.eqb x c) eqn:Ex;
          try (apply Nat.eqb_eq in Ex; subst; rewrite Sc in Hx; discriminate);
          try (destruct (st s x); try discriminate; reflexivity); try reflexivity.
      + unfold has_key, sou_impl in *. cbn [st set_oos]. destruct (st s c) eqn:Sc;
          cbn [st set_st set_marked set_poison set_oos]; unfold upd; destruct (Nat.eqb x c) eqn:Ex;
          try exact Hx; try reflexivity.
        apply Nat.eqb_eq in Ex. subst. rewrite Sc in Hx. discriminate.
    - split; [reflexivity|]. intros x Hx. unfold is_pending, has_key in *. destruct (st s x); try discriminate; reflexivity. }
  destruct Fr as [Fp Fk].
  set (s2 := if hasback (getrel cfg ri) then scalar_set cfg s1 c ri (Some p) false true false else s1).
  assert (S2 : st s2 = st s1).
  { unfold s2. destruct (hasback (getrel cfg ri)) eqn:HB; [|reflexivity].
    unfold scalar_set. rewrite Fp.
    assert (Tail : forall a, st (set_par (mod_scalar a c ri (par s c ri)) c ri (Some p)) = st a).
    { intros a. unfold mod_scalar. destruct (pcomm a c ri); reflexivity. }
    rewrite Tail. destruct (opt_eqb (par s c ri) (Some p)) eqn:OE; [reflexivity|].
    cbn [andb]. destruct (par s c ri) as [q|] eqn:Pq; [|reflexivity].
    apply st_detach_old_keeps.
    unfold moves_unsaved_child in Hg. rewrite HB, Pq in Hg. cbn [andb] in Hg.
    destruct (c_do (fwd (getrel cfg ri))) eqn:D; [|left; reflexivity]. right. cbn [andb] in Hg.
    destruct (has_key s c) eqn:K; [apply Fk; exact K|]. cbn [negb andb] in Hg.
    apply negb_false_iff, Nat.eqb_eq in Hg. subst q. cbn [opt_eqb] in OE. rewrite Nat.eqb_refl in OE. discriminate. }
  split.
  - unfold in_session. unfold mod_coll.
    destruct (ccomm s2 p ri); cbn [st set_coll set_hp set_modf set_ccomm]; rewrite S2; exact I1.
  - unfold mod_coll. destruct (ccomm s2 p ri); cbn [coll set_coll set_hp set_modf set_ccomm]; unfold upd2;
      rewrite !Nat.eqb_refl; cbn [andb]; apply in_app_iff; right; left; reflexivity.
Qed.

(* ---------- witnesses (histories from the initial state) ---------- *)
Definition all_casc := mkCasc true true true true false true.
Definition all_do := mkCasc true true true true true true.
Definition su_mg := mkCasc true true false false false false.
(* classes: objects 0,1 are parents (class 0), 2,3 children (class 1); one relationship
   P.cs = relationship(C, cascade="all, delete-orphan", back_populates="p"), C.p cascade "save-update, merge" *)
Definition wit_cfg : config :=
  mkCfg [mkRel 0 1 all_do true su_mg] (fun _ => false) (fun o => if Nat.ltb o 2 then 0 else 1) 4.

(* s.add_all([p0, p1]); p1.cs.append(c) - then p0.cs.append(c) *)
Definition wit_state : state := run wit_cfg [OAdd 0; OAdd 1; OAppend 1 0 2].

Theorem append_save_update_refuted :
  exists cfg s p ri c,
    attached s p = true /\ c_su (fwd (getrel cfg ri)) = true /\ mem c (coll s p ri) = false /\
    was_deleted s c = false /\ in_session s c = true /\ poison (op_append cfg s p ri c) = false /\
    In c (coll (op_append cfg s p ri c) p ri) /\ in_session (op_append cfg s p ri c) c = false /\
    (* ... and the flush inserts no row for it *)
    rowp (fst (op_flush cfg (op_append cfg s p ri c))) c = false /\
    rowp (fst (op_flush cfg (op_append cfg s p ri c))) p = true.
Proof.
  exists wit_cfg, wit_state, 0, 0, 2. vm_compute. repeat split; auto.
Qed.

(* the same move of a persistent child is handled correctly *)
Example append_persistent_child_moves :
  let s := run wit_cfg [OAdd 0; OAdd 1; OAppend 1 0 2; OFlush] in
  let s' := fst (op_flush wit_cfg (op_append wit_cfg s 0 0 2)) in
  in_session s' 2 = true /\ rowfk s' 2 0 = Some 0 /\ moves_unsaved_child wit_cfg s 0 0 2 = false.
Proof. vm_compute. repeat split. Qed.

Example guard_excludes_witness : moves_unsaved_child wit_cfg wit_state 0 0 2 = true.
Proof. vm_compute. reflexivity. Qed.

(* no_dangling_orphan_rows: session.delete(p); p.cs.append(new_c); flush()  leaves the row of new_c pointing to
   the deleted p *)
Definition dangling (cfg : config) (s : state) : Prop :=
  exists c ri p, rowp s c = true /\ rowfk s c ri = Some p /\ c_do (fwd (getrel cfg ri)) = true /\ rowp s p = false.

(* a delete requested by Session.delete (through the delete cascade) is cancelled when the object is also a member
   of the unflushed collection of another parent: it survives the flush, still listed in session.deleted, with its
   foreign key pointing to the deleted delete-orphan parent *)
Definition dangling_at (cfg : config) (s : state) (x : nat) : Prop :=
  exists ri p, rowfk s x ri = Some p /\ c_do (fwd (getrel cfg ri)) = true /\ rowp s p = false.
Definition wit_cfg2 : config :=
  mkCfg [mkRel 0 1 all_do true no_casc; mkRel 0 1 (mkCasc true false false true true false) false no_casc]
        (fun _ => false) (fun o => if Nat.ltb o 2 then 0 else 1) 3.

Theorem flush_marked_deleted_refuted :
  exists cfg s x,
    poison s = false /\ marked s x = true /\ st s x = Persistent /\ snd (op_flush cfg s) = 0 /\
    st (fst (op_flush cfg s)) x = Persistent /\ rowp (fst (op_flush cfg s)) x = true /\
    marked (fst (op_flush cfg s)) x = true /\
    (exists p ri, In x (h_added (hist_coll s p ri))) /\
    dangling_at cfg (fst (op_flush cfg s)) x.
Proof.
  exists wit_cfg2, (run wit_cfg2 [OAdd 1; OAppend 1 0 2; OFlush; OAppend 0 1 2; ODelete 1; OAdd 0]), 2.
  vm_compute. repeat split; auto. exists 0, 1. left. reflexivity.
  exists 0, 1. repeat split; reflexivity.
Qed.

Theorem no_dangling_orphan_rows_refuted :
  exists cfg ops, poison (run cfg ops) = false /\ dangling cfg (run cfg ops).
Proof.
  exists wit_cfg, [OAdd 0; OAppend 0 0 2; OFlush; ODelete 0; OAppend 0 0 3; OFlush].
  split; [vm_compute; reflexivity|]. exists 3, 0, 0. vm_compute. repeat split.
Qed.
