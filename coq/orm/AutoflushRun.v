(* executable entry point for the correspondence check of C47 *)
From Coq Require Import List ZArith NArith Bool Arith.
Import ListNotations.
From SAV.base Require Import Tree.
From SAV.orm Require Import Autoflush.

Definition as_crow (t : tree) : option (N * (Z * N)) :=
  match t with
  | L [a; I v; b] => match as_N a, as_N b with Some i, Some p => Some (i, (v, p)) | _, _ => None end
  | _ => None
  end.
Definition as_kind (z : Z) : option qkind :=
  match z with
  | 0 => Some SelEnt | 1 => Some SelCol | 2 => Some Count | 3 => Some Core | 4 => Some Get | 5 => Some LazyP
  | 6 => Some Children | 7 => Some GetP | 8 => Some Refresh | 9 => Some Legacy | 10 => Some Scalars
  | 11 => Some ScalarCore | 12 => Some ScalarText | 13 => Some ExecText | 14 => Some ScalarOrm | 15 => Some ScalarsCore
  | 16 => Some ConnExec | _ => None
  end%Z.
Definition as_mode (z : Z) : option qmode :=
  match z with 0 => Some MDefault | 1 => Some MNoAutoflushBlock | 2 => Some MExecOption | _ => None end%Z.
Definition as_op (t : tree) : option op :=
  match t with
  | L [I 1; I v; p] => match as_N p with Some p' => Some (AddC v p') | None => None end
  | L [I 2] => Some AddP
  | L [I 3; k; I v] => match as_N k with Some k' => Some (SetVal k' v) | None => None end
  | L [I 4; k; p] => match as_N k, as_N p with Some k', Some p' => Some (SetPid k' p') | _, _ => None end
  | L [I 5; k] => match as_N k with Some k' => Some (DelC k') | None => None end
  | L [I 6] => Some Flush
  | L [I 10; I k; I m; I a] =>
      match as_kind k, as_mode m with Some k', Some m' => if (0 <=? a)%Z then Some (Query k' m' a) else None | _, _ => None end
  | _ => None
  end%Z.

Definition of_res (r : res) : tree := L (map (fun row => L (map I row)) r).
Definition dbc_tree (s : st) : tree := L (map (fun p => L [of_N (fst p); I (fst (snd p)); of_N (snd (snd p))]) (dbc s)).
Definition dbp_tree (s : st) : tree := L (map of_N (dbp s)).
Definition count {A} (f : A -> bool) (l : list A) : nat := length (filter f l).

(* per step: [rc; result; [len(new); len(dirty); len(deleted)]; table c (0 if unchanged); table p (0 if unchanged)] *)
Definition observe (rc : Z) (r : res) (s0 s : st) : tree :=
  L [ I rc; of_res r;
      L [ of_nat (count (fun o => status_eqb (c_st o) Pend) (cs s) + count (fun p : N * bool => snd p) (ps s));
          of_nat (count (fun o => status_eqb (c_st o) Pers && c_dirty o) (cs s));
          of_nat (count (fun o => status_eqb (c_st o) Del) (cs s)) ];
      (if tree_eqb (dbc_tree s0) (dbc_tree s) then I 0 else dbc_tree s);
      (if tree_eqb (dbp_tree s0) (dbp_tree s) then I 0 else dbp_tree s) ].

Fixpoint run (ops : list op) (s : st) : list tree :=
  match ops with
  | [] => []
  | o :: r => let (s1, rs) := step o s in observe (guard o s) rs s s1 :: run r s1
  end.

Definition maxN (l : list N) : N := fold_right N.max 0%N l.

(* input  L [L parent-ids; L child-rows [id; val; pid]; I session-autoflush; L ops] *)
Definition run_case (t : tree) : tree :=
  match t with
  | L [tp; tc; ta; tops] =>
      match as_list_of as_N tp, as_list_of as_crow tc, as_bool ta, as_list_of as_op tops with
      | Some pr, Some cr, Some af, Some ops =>
          L (run ops (init pr cr af (N.succ (maxN (map fst cr))) (N.succ (maxN pr))))
      | _, _, _, _ => bad_input
      end
  | _ => bad_input
  end.
