(* C33 - the defective regions: concrete histories (replayed on the implementation on every run,
   findings/C33.json) after whose last, successful, commit/rollback the session disagrees with the
   database.  Each is outside the guard. *)
From Coq Require Import List ZArith Bool Arith.
Import ListNotations.
From SAV.orm Require Import SessTxn SessTxnSpec.
Open Scope Z_scope.

(* D1: a.rollback() while an inner savepoint b is open: b is only closed; the object flushed inside b
   stays persistent although its row was rolled back *)
Definition w_d1 : list op := [ONested; ONested; ONew 1 10; OFlush; OTRollback 0].
(* D2: key switch 1->2 in savepoint a, 2->3 in inner savepoint b, b released (dict.update overwrites
   (1,2) with (2,3)), a rolled back: identity key restored to 2, the row has 1 *)
Definition w_d2 : list op :=
  [ONew 1 10; OFlush; ONested; OSetPK 0 2; OFlush; ONested; OSetPK 0 3; OFlush; OTCommit 1; OTRollback 0].
(* D3: created in a, deleted in b, b released, a rolled back (object transient again but _deleted still
   set), added and committed again: reported in the deleted state while its row exists *)
Definition w_d3 : list op :=
  [ONested; ONew 1 10; OFlush; ONested; ODel 0; OFlush; OTCommit 1; OTRollback 0; OAdd 0; OFlush; OCommit].
(* D5: delete() of an object already in the deleted state re-registers it; the savepoint rollback
   resurrects it as persistent although the DELETE happened in the enclosing scope *)
Definition w_d5 : list op :=
  [ONew 1 2; OCommit; ODel 0; ONested; ODel 0; ONested; OTCommit 1; OTRollback 0].
(* D6: close() leaves the object in the deleted state attached although the transaction that deleted
   the row was rolled back *)
Definition w_d6 : list op := [ONew 2 3; OCommit; ODel 0; OFlush; OClose; OCommit].
(* D8 (expire_on_commit=False): an object deleted and committed stays in the deleted state, attached; no
   transaction refers to it any more, so not even close() detaches it; another object re-creates the row *)
Definition w_d8 : list op := [ONew 1 0; OCommit; ODel 0; OCommit; ONew 1 5; OCommit; OClose; OCommit].

Definition refutes (e : bool) (ps : list op) : bool :=
  match final e ps with
  | (Ok, st) => is_boundary (last ps OFlush) && negb (agrees st)
  | _ => false
  end.

(* each witness leaves the guard exactly at the operation named in the comment *)
Fixpoint first_unguarded (st : sess) (ps : list op) (i : nat) : option nat :=
  match ps with
  | [] => None
  | p :: r => if guard st p then first_unguarded (snd (do_op p st)) r (S i) else Some i
  end.

Lemma refuted_d1 : refutes true w_d1 = true. Proof. vm_compute. reflexivity. Qed.
Lemma refuted_d5 : refutes true w_d5 = true. Proof. vm_compute. reflexivity. Qed.
Lemma refuted_d8 : refutes false w_d8 = true. Proof. vm_compute. reflexivity. Qed.
Lemma unguarded_d1 : first_unguarded (sess0 true) w_d1 0 = Some 4%nat. Proof. vm_compute. reflexivity. Qed.
Lemma unguarded_d5 : first_unguarded (sess0 true) w_d5 0 = Some 4%nat. Proof. vm_compute. reflexivity. Qed.
Lemma unguarded_d8 : first_unguarded (sess0 false) w_d8 0 = Some 6%nat. Proof. vm_compute. reflexivity. Qed.

(* the remaining defects at once: (expire_on_commit, history) *)
Definition witnesses : list (bool * list op) := [(true, w_d1); (true, w_d5); (false, w_d8)].
Theorem agreement_refuted : forall w, In w witnesses ->
  is_boundary (last (snd w) OFlush) = true /\ fst (final (fst w) (snd w)) = Ok /\
  agrees (snd (final (fst w) (snd w))) = false /\
  first_unguarded (sess0 (fst w)) (snd w) 0 <> None.
Proof.
  intros w H. cbn [witnesses In] in H.
  destruct H as [H|[H|[H|[]]]]; subst w; vm_compute; repeat split; discriminate.
Qed.

(* the witnesses of the three repaired defects (D2 f8f802f, D3 0c90c34, D6 9732dc8) are guarded histories
   now and end in agreement *)
Definition repaired : list (list op) := [w_d2; w_d3; w_d6].
Theorem repaired_agree : forall ps, In ps repaired ->
  fst (final true ps) = Ok /\ agrees (snd (final true ps)) = true /\ first_unguarded (sess0 true) ps 0 = None.
Proof.
  intros ps H. cbn [repaired In] in H.
  destruct H as [H|[H|[H|[]]]]; subst ps; vm_compute; repeat split; reflexivity.
Qed.
