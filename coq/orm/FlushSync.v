(* C30 - primary key changes of a parent with a COMPOSITE natural key, passive_updates=False
   (lib/sqlalchemy/orm/sync.py _source_modified / _populate / _clear, dependency.py
   _OneToManyDP.process_saves "if self._pks_changed(...): for child in history.unchanged: _synchronize",
   _ManyToOneDP.process_saves, persistence.py UPDATE of changed key columns).  Definitions only.
   A key is a list of column values of ANY length; a synchronize pair is a position of that list. *)
From Coq Require Import List NArith ZArith Bool.
Import ListNotations.
Local Open Scope N_scope.

(* sync._source_modified: "for l, r in synchronize_pairs: if bool(history.deleted): return True / else:
   return False"; history.deleted of a key column is non-empty iff the column was set to a different value
   since the last flush *)
Fixpoint source_modified (old new : list Z) : bool :=
  match old, new with
  | o :: os, n :: ns => if negb (Z.eqb o n) then true else source_modified os ns
  | _, _ => false
  end.

(* states: 1 pending, 2 persistent *)
Record par := { p_id : N; p_st : N; p_key : list Z; p_old : list Z }.   (* current key attributes / key of the row *)
Record chd := { c_id : N; c_st : N; c_par : option N; c_pd : bool }.     (* parent, relationship set since the last flush *)
Record nstate := {
  pars : list par; chds : list chd;
  prow : list (N * list Z);              (* parent rows: object -> key *)
  crow : list (N * option (list Z))      (* child rows: object -> foreign key (NULL or the columns) *)
}.
Inductive nop :=
| NewP (i : N) (k : list Z) | NewC (i : N) | SetPar (c : N) (p : option N) | SetKey (p : N) (j : nat) (v : Z) | NFlush.

Definition get_par (s : nstate) (i : N) : option par := find (fun p => N.eqb (p_id p) i) (pars s).
Definition get_chd (s : nstate) (i : N) : option chd := find (fun c => N.eqb (c_id c) i) (chds s).
Fixpoint lassoc {A} (k : N) (l : list (N * A)) : option A :=
  match l with [] => None | (k', v) :: t => if N.eqb k' k then Some v else lassoc k t end.
Fixpoint set_nth (j : nat) (v : Z) (l : list Z) : list Z :=
  match l, j with [], _ => [] | _ :: t, O => v :: t | h :: t, S j' => h :: set_nth j' v t end.
Fixpoint key_eqb (a b : list Z) : bool :=
  match a, b with [], [] => true | x :: a', y :: b' => Z.eqb x y && key_eqb a' b' | _, _ => false end.
(* a key may be taken if no other parent has it now or in its row *)
Definition key_free (s : nstate) (i : N) (k : list Z) : bool :=
  forallb (fun p => N.eqb (p_id p) i || (negb (key_eqb (p_key p) k) && negb (key_eqb (p_old p) k))) (pars s).

Definition nstep (n : nat) (s : nstate) (o : nop) : nstate :=
  match o with
  | NewP i k =>
      match get_par s i with
      | Some _ => s
      | None => if Nat.eqb (length k) n && key_free s i k
                then {| pars := pars s ++ [{| p_id := i; p_st := 1; p_key := k; p_old := k |}]; chds := chds s; prow := prow s; crow := crow s |}
                else s
      end
  | NewC i =>
      match get_chd s i with
      | Some _ => s
      | None => {| pars := pars s; chds := chds s ++ [{| c_id := i; c_st := 1; c_par := None; c_pd := false |}]; prow := prow s; crow := crow s |}
      end
  | SetPar c p =>
      match get_chd s c, (match p with Some p' => match get_par s p' with Some _ => true | None => false end | None => true end) with
      | Some _, true =>
          {| pars := pars s;
             chds := map (fun x => if N.eqb (c_id x) c then {| c_id := c_id x; c_st := c_st x; c_par := p; c_pd := true |} else x) (chds s);
             prow := prow s; crow := crow s |}
      | _, _ => s
      end
  | SetKey p j v =>
      match get_par s p with
      | Some x =>
          if Nat.ltb j n && key_free s p (set_nth j v (p_key x))
          then {| pars := map (fun y => if N.eqb (p_id y) p
                                         then {| p_id := p_id y; p_st := p_st y; p_key := set_nth j v (p_key y);
                                                 p_old := if N.eqb (p_st y) 1 then set_nth j v (p_key y) else p_old y |}
                                         else y) (pars s);
                  chds := chds s; prow := prow s; crow := crow s |}
          else s
      | None => s
      end
  | NFlush => s
  end.

(* the foreign key a child gets from sync.populate / sync.clear *)
Definition fk_from (s : nstate) (p : option N) : option (list Z) :=
  match p with Some p' => match get_par s p' with Some x => Some (p_key x) | None => None end | None => None end.

Definition nflush (s : nstate) : nstate :=
  {| pars := map (fun p => {| p_id := p_id p; p_st := 2; p_key := p_key p; p_old := p_key p |}) (pars s);
     chds := map (fun c => {| c_id := c_id c; c_st := 2; c_par := c_par c; c_pd := false |}) (chds s);
     (* INSERT of pending parents; UPDATE of the changed key columns (WHERE the old key) *)
     prow := map (fun p => (p_id p, p_key p)) (pars s);
     crow := map (fun c =>
               (c_id c,
                if N.eqb (c_st c) 1 || c_pd c then fk_from s (c_par c)         (* INSERT / relationship history *)
                else match c_par c with
                     | Some p' =>
                         match get_par s p' with
                         | Some x => if N.eqb (p_st x) 2 && source_modified (p_old x) (p_key x)
                                     then Some (p_key x)                        (* _pks_changed: populate the unchanged children *)
                                     else match lassoc (c_id c) (crow s) with Some v => v | None => None end
                         | None => match lassoc (c_id c) (crow s) with Some v => v | None => None end
                         end
                     | None => match lassoc (c_id c) (crow s) with Some v => v | None => None end
                     end)) (chds s) |}.

Definition napply1 (n : nat) (s : nstate) (o : nop) : nstate := match o with NFlush => nflush s | _ => nstep n s o end.
Definition napply (n : nat) (s : nstate) (h : list nop) : nstate := fold_left (napply1 n) h s.
Definition nempty : nstate := {| pars := []; chds := []; prow := []; crow := [] |}.

(* spec: the rows of the graph *)
Definition spec_prow (s : nstate) : list (N * list Z) := map (fun p => (p_id p, p_key p)) (pars s).
Definition spec_crow (s : nstate) : list (N * option (list Z)) := map (fun c => (c_id c, fk_from s (c_par c))) (chds s).
