(* C40 - the joined (LEFT OUTER JOIN) chain: grouping the ordered rows of parents |><| children by identity
   recovers, level by level, each parent's related rows in relationship order. *)
From Coq Require Import List ZArith Bool Lia Sorting.Sorted.
Import ListNotations.
From SAV.orm Require Import Loaders LoadersBase.
Open Scope Z_scope.

(* ---------------------------------------------------------------- well-formed data *)
Definition wf_table (t : list row) : Prop := NoDup (map rid t).
Definition wf_step (s : step) : Prop :=
  wf_table (st_table s) /\
  match st_kind s with Down => st_order s <> ONone | Up => st_order s = ONone end.

Lemma table_id_inj : forall t a b, wf_table t -> In a t -> In b t -> rid a = rid b -> a = b.
Proof.
  unfold wf_table. induction t as [|x t IH]; intros a b ND Ha Hb E; [contradiction|].
  cbn in ND. inversion ND; subst. destruct Ha as [->|Ha], Hb as [->|Hb]; auto.
  - exfalso. apply H1. rewrite E. apply in_map; auto.
  - exfalso. apply H1. rewrite <- E. apply in_map; auto.
Qed.
Lemma wf_table_nodup : forall t, wf_table t -> NoDup t.
Proof. intros t H. eapply NoDup_map_inv; eauto. Qed.

Lemma rkey_inj : forall o a b, o <> ONone -> rkey o a = rkey o b -> rid a = rid b.
Proof. intros [] a b H E; cbn in E; try congruence; inversion E; lia. Qed.
Lemma rkey_len : forall o a b, length (rkey o a) = length (rkey o b).
Proof. intros []; reflexivity. Qed.
Lemma okey_len : forall o x y, length (okey o x) = length (okey o y).
Proof. intros [] [a|] [b|]; reflexivity. Qed.
Lemma okey_some_le : forall o a b, lex_le (okey o (Some a)) (okey o (Some b)) = lex_le (rkey o a) (rkey o b).
Proof. intros [] a b; cbn [okey]; try reflexivity; cbn [lex_le]; rewrite Z.ltb_irrefl, Z.eqb_refl; reflexivity. Qed.

Lemma okey_eqb_true : forall a b, okey_eqb a b = true <-> exists k, a = Some k /\ b = Some k.
Proof.
  intros [x|] [y|]; cbn; split; try discriminate; try (intros [k [H1 H2]]; discriminate).
  - intro E. apply Z.eqb_eq in E. subst. eauto.
  - intros [k [H1 H2]]. inversion H1; inversion H2; subst. apply Z.eqb_refl.
Qed.

(* the matches of a many-to-one step are all the same row *)
Lemma up_matches_eq : forall s p a b, wf_step s -> st_kind s = Up ->
  In a (st_table s) -> In b (st_table s) -> linked s p a = true -> linked s p b = true -> a = b.
Proof.
  intros s p a b [WT _] K Ha Hb La Lb. unfold linked in *. rewrite K in *. cbn in *.
  apply okey_eqb_true in La as [k [E1 E2]]. apply okey_eqb_true in Lb as [k' [E1' E2']].
  eapply table_id_inj; eauto. congruence.
Qed.

Definition matches (s : step) (p : row) : list row := filter (linked s p) (st_table s).
Lemma related_eq : forall s p, related s p = sort_by (rkey (st_order s)) (matches s p).
Proof. reflexivity. Qed.
Lemma related_in : forall s p c, In c (related s p) <-> In c (matches s p).
Proof. intros. rewrite related_eq. apply sort_by_in. Qed.
Lemma matches_nodup : forall s p, wf_step s -> NoDup (matches s p).
Proof. intros s p [WT _]. apply NoDup_filter. apply wf_table_nodup; auto. Qed.
Lemma related_nodup : forall s p, wf_step s -> NoDup (related s p).
Proof.
  intros. rewrite related_eq. eapply Permutation.Permutation_NoDup; [apply Permutation.Permutation_sym, sort_by_perm|].
  apply matches_nodup; auto.
Qed.
Lemma matches_table : forall s p c, In c (matches s p) -> In c (st_table s).
Proof. intros s p c H. apply filter_In in H. tauto. Qed.

(* ---------------------------------------------------------------- the spec of a chain with an attached leaf loader *)
Fixpoint gchain (chain : list step) (attach : row -> list graph) (e : row) : graph :=
  match chain with
  | [] => Node e (attach e)
  | s :: rest => Node e (map (gchain rest attach) (related s e))
  end.

(* the rows at the end of the chain below [e] *)
Fixpoint reach (chain : list step) (e : row) : list row :=
  match chain with
  | [] => [e]
  | s :: rest => flat_map (reach rest) (matches s e)
  end.

Lemma gchain_graph : forall steps' s chain attach e,
  (forall e', In e' (reach chain e) -> attach e' = map (graph_of steps') (related s e')) ->
  gchain chain attach e = graph_of (chain ++ s :: steps') e.
Proof.
  intros steps' s. induction chain as [|c chain IH]; intros attach e H; cbn [gchain app graph_of reach] in *.
  - rewrite H; cbn; auto.
  - f_equal. apply map_ext_in. intros x Hx. apply IH. intros e' He'. apply H.
    apply in_flat_map. exists x. split; auto. apply related_in; auto.
Qed.
Lemma gchain_nil : forall chain e, gchain chain (fun _ => []) e = graph_of chain e.
Proof.
  induction chain as [|c chain IH]; intro e; cbn; auto. f_equal. apply map_ext. auto.
Qed.

(* ---------------------------------------------------------------- ljoin facts *)
Lemma ljoin1_some : forall s p x, In (Some x) (ljoin1 s (Some p)) <-> In x (matches s p).
Proof.
  intros. unfold ljoin1. fold (matches s p). destruct (matches s p) as [|m ms] eqn:E.
  - cbn. split; [intros [H|[]]; discriminate|tauto].
  - rewrite in_map_iff. split; [intros [y [Hy H]]; inversion Hy; subst; auto|]. intro H. exists x. auto.
Qed.
Lemma ljoin1_none : forall s x, In x (ljoin1 s None) -> x = None.
Proof. intros s x [H|[]]; auto. Qed.
Lemma ljoin1_nonempty : forall s l, ljoin1 s l <> [].
Proof.
  intros s [p|]; cbn; [|discriminate]. destruct (filter (linked s p) (st_table s)); cbn; discriminate.
Qed.
Lemma ljoin_chain_nonempty : forall chain l, ljoin_chain chain l <> [].
Proof.
  induction chain as [|s rest IH]; intro l; cbn; [discriminate|].
  destruct (ljoin1 s l) as [|m ms] eqn:E; [exfalso; eapply ljoin1_nonempty; eauto|].
  cbn. specialize (IH m). destruct (ljoin_chain rest m); [contradiction|]. cbn. discriminate.
Qed.
Lemma ljoin_chain_cons : forall s rest l t, In t (ljoin_chain (s :: rest) l) <->
  exists m tl, t = m :: tl /\ In m (ljoin1 s l) /\ In tl (ljoin_chain rest m).
Proof.
  intros. cbn [ljoin_chain]. rewrite in_flat_map. split.
  - intros [m [Hm Ht]]. apply in_map_iff in Ht as [tl [<- Htl]]. eauto.
  - intros [m [tl [-> [Hm Htl]]]]. exists m. split; auto. apply in_map; auto.
Qed.

(* ---------------------------------------------------------------- build *)
Lemma firsts_sorted : forall s rest tails, sorted (tail_key (s :: rest)) tails ->
  (forall t, In t tails -> exists m tl, t = m :: tl) ->
  sorted (rkey (st_order s)) (somes (map (hd None) tails)).
Proof.
  intros s rest. induction tails as [|t tails IH]; intros S H; cbn; [constructor|].
  inversion S as [|? ? S' F]; subst.
  assert (IH' : sorted (rkey (st_order s)) (somes (map (hd None) tails))) by (apply IH; auto; intros; apply H; cbn; auto).
  destruct (H t) as [m [tl ->]]; [cbn; auto|]. cbn [hd]. destruct m as [h|]; cbn [somes]; auto.
  constructor; auto. apply Forall_forall. intros y Hy. apply somes_in in Hy. apply in_map_iff in Hy as [t2 [E Ht2]].
  destruct (H t2) as [m2 [tl2 ->]]; [cbn; auto|]. cbn in E. subst m2.
  rewrite Forall_forall in F. specialize (F _ Ht2). unfold kle in *. cbn [tail_key] in F.
  apply lex_le_app_len in F; [|apply okey_len]. rewrite okey_some_le in F. auto.
Qed.

Lemma uniq_idkey_in : forall t l, wf_table t -> (forall x, In x l -> In x t) -> forall x, In x (uniq_by idkey l) <-> In x l.
Proof.
  intros t l WT Hl. apply uniq_by_in_iff. intros a b Ha Hb E. unfold idkey in E. inversion E.
  eapply table_id_inj; eauto.
Qed.
Lemma uniq_idkey_nodup : forall l, NoDup (uniq_by idkey l).
Proof. intro l. eapply NoDup_map_inv. apply uniq_by_nodup. Qed.

Lemma build_correct : forall chain attach e tails, Forall wf_step chain ->
  eqset tails (ljoin_chain chain (Some e)) -> sorted (tail_key chain) tails ->
  build chain attach e tails = gchain chain attach e.
Proof.
  induction chain as [|s rest IH]; intros attach e tails WF E S; [reflexivity|].
  inversion WF as [|? ? WS WR]; subst. cbn [build gchain]. f_equal.
  assert (Hform : forall t, In t tails -> exists m tl, t = m :: tl /\ In m (ljoin1 s (Some e)) /\ In tl (ljoin_chain rest m)).
  { intros t Ht. apply E in Ht. apply ljoin_chain_cons in Ht. auto. }
  set (firsts := somes (map (hd None) tails)).
  assert (Hfirsts : forall h, In h firsts <-> In h (matches s e)).
  { intro h. unfold firsts. rewrite somes_in, in_map_iff. split.
    - intros [t [Eh Ht]]. destruct (Hform t Ht) as [m [tl [-> [Hm _]]]]. cbn in Eh. subst m. apply ljoin1_some; auto.
    - intro Hh. destruct (ljoin_chain rest (Some h)) as [|tl tls] eqn:El; [exfalso; eapply ljoin_chain_nonempty; eauto|].
      exists (Some h :: tl). split; auto. apply E. apply ljoin_chain_cons. exists (Some h), tl. split; auto. split.
      + apply ljoin1_some; auto.
      + rewrite El. cbn; auto. }
  assert (Hents : uniq_by idkey firsts = related s e).
  { destruct WS as [WT WK].
    assert (Hin : forall x, In x (uniq_by idkey firsts) <-> In x (related s e)).
    { intro x. rewrite (uniq_idkey_in (st_table s)); auto.
      - rewrite Hfirsts, related_in. tauto.
      - intros y Hy. apply Hfirsts in Hy. eapply matches_table; eauto. }
    destruct (st_kind s) eqn:K.
    - apply (sorted_unique (rkey (st_order s))); auto.
      + apply uniq_by_sorted. eapply firsts_sorted; eauto. intros t Ht. destruct (Hform t Ht) as [m [tl [-> _]]]; eauto.
      + rewrite related_eq. apply sort_by_sorted.
      + apply uniq_idkey_nodup.
      + apply related_nodup. split; auto. rewrite K; auto.
      + intros a b Ha Hb Ek. apply rkey_inj in Ek; auto.
        apply Hin in Ha, Hb. apply related_in in Ha, Hb.
        eapply table_id_inj; eauto using matches_table.
    - apply nodup_alleq_unique; auto.
      + apply uniq_idkey_nodup.
      + apply related_nodup. split; auto. rewrite K; auto.
      + intros a b Ha Hb. apply Hin in Ha, Hb. apply related_in in Ha, Hb.
        apply filter_In in Ha as [Ha La]. apply filter_In in Hb as [Hb Lb].
        eapply (up_matches_eq s e); eauto. split; auto. rewrite K; auto. }
  fold firsts. rewrite Hents. apply map_ext_in. intros h Hh. apply related_in in Hh.
  apply IH; auto.
  - (* the tails of the rows whose first component is h *)
    intro x. rewrite in_map_iff. split.
    + intros [t [<- Ht]]. apply filter_In in Ht as [Ht Hd]. destruct (Hform t Ht) as [m [tl [-> [Hm Htl]]]].
      cbn. unfold head_is in Hd. destruct m as [h'|]; [|discriminate]. apply Z.eqb_eq in Hd.
      apply ljoin1_some in Hm. assert (h' = h).
      { destruct WS as [WT _]. eapply table_id_inj; eauto using matches_table. }
      subst; auto.
    + intro Hx. exists (Some h :: x). split; auto. apply filter_In. split.
      * apply E. apply ljoin_chain_cons. exists (Some h), x. split; auto. split; auto. apply ljoin1_some; auto.
      * cbn. apply Z.eqb_refl.
  - eapply sorted_map; [apply sorted_filter; exact S|].
    intros a b Ha Hb Hk. apply filter_In in Ha as [Ha Da]. apply filter_In in Hb as [Hb Db].
    destruct (Hform a Ha) as [ma [ta [-> [Hma _]]]]. destruct (Hform b Hb) as [mb [tb [-> [Hmb _]]]].
    unfold head_is in Da, Db. destruct ma as [ha|]; [|discriminate]. destruct mb as [hb|]; [|discriminate].
    apply Z.eqb_eq in Da, Db. apply ljoin1_some in Hma, Hmb.
    assert (ha = hb). { destruct WS as [WT _]. eapply table_id_inj; eauto using matches_table. congruence. }
    subst hb. unfold kle in *. cbn [tail_key tl] in *. rewrite lex_le_app_same in Hk. auto.
Qed.

(* ---------------------------------------------------------------- proc: the rows of one statement *)
Definition tag_inj (H : list tagged) : Prop :=
  forall a b, In a H -> In b H -> rid (snd a) = rid (snd b) -> a = b.

Lemma tagkey_inj : forall a b, tagkey a = tagkey b -> a = b.
Proof. intros [x|] [y|] E; cbn in E; inversion E; auto. Qed.
Lemma tagkey_len : forall a, length (tagkey a) = 2%nat.
Proof. intros [x|]; reflexivity. Qed.
Lemma tagged_id_inv : forall a b, tagged_id a = tagged_id b -> fst a = fst b /\ rid (snd a) = rid (snd b).
Proof.
  intros [ta ra] [tb rb] E. unfold tagged_id, idkey in E. cbn [fst snd] in *.
  destruct ta as [x|], tb as [y|]; cbn in E; inversion E; auto.
Qed.
Lemma tagged_id_inj : forall H, tag_inj H -> forall a b, In a H -> In b H -> tagged_id a = tagged_id b -> a = b.
Proof. intros H TI a b Ha Hb E. apply tagged_id_inv in E as [_ E]. auto. Qed.

Lemma ljoin_rows_in : forall chain H j, In j (ljoin_rows chain H) <->
  In (fst j) H /\ In (snd j) (ljoin_chain chain (Some (snd (fst j)))).
Proof.
  intros chain H [h t]. unfold ljoin_rows. rewrite in_flat_map. cbn [fst snd]. split.
  - intros [h' [Hh' Hj]]. apply in_map_iff in Hj as [t' [Ej Ht']]. inversion Ej; subst. auto.
  - intros [Hh Ht]. exists h. split; auto. apply in_map_iff. eauto.
Qed.

Lemma proc_correct : forall chain attach o0 H rows, Forall wf_step chain -> tag_inj H ->
  ((o0 <> ONone /\ sorted (hkey o0) H) \/ (forall a b, In a H -> In b H -> a = b)) ->
  eqset rows (ljoin_rows chain H) -> sorted (jkey o0 chain) rows ->
  proc chain attach rows = map (fun h => (fst h, gchain chain attach (snd h))) (uniq_by tagged_id H).
Proof.
  intros chain attach o0 H rows WF TI OK E S. unfold proc.
  assert (Hheads : forall h, In h (map fst rows) <-> In h H).
  { intro h. rewrite in_map_iff. split.
    - intros [j [<- Hj]]. apply E in Hj. apply ljoin_rows_in in Hj. tauto.
    - intro Hh. destruct (ljoin_chain chain (Some (snd h))) as [|t ts] eqn:El; [exfalso; eapply ljoin_chain_nonempty; eauto|].
      exists (h, t). split; auto. apply E. apply ljoin_rows_in. cbn. rewrite El. cbn; auto. }
  assert (TI' : key_inj tagged_id (map fst rows)).
  { intros a b Ha Hb Ek. apply Hheads in Ha, Hb. eapply tagged_id_inj; eauto. }
  assert (TIH : key_inj tagged_id H) by (intros a b Ha Hb Ek; eapply tagged_id_inj; eauto).
  assert (Hents : uniq_by tagged_id (map fst rows) = uniq_by tagged_id H).
  { assert (Hin : eqset (uniq_by tagged_id (map fst rows)) (uniq_by tagged_id H)).
    { intro x. rewrite !uniq_by_in_iff; auto. }
    destruct OK as [[Ho SH]|Heq].
    - apply (sorted_unique (hkey o0)); auto.
      + apply uniq_by_sorted. eapply sorted_map; [exact S|]. intros a b _ _ Hk. unfold kle, jkey, hkey in *.
        eapply lex_le_app_len; [|exact Hk]. apply rkey_len.
      + apply uniq_by_sorted; auto.
      + eapply NoDup_map_inv. apply uniq_by_nodup.
      + eapply NoDup_map_inv. apply uniq_by_nodup.
      + intros a b Ha Hb Ek. apply uniq_by_in in Ha, Hb. apply Hheads in Ha, Hb.
        apply TI; auto. unfold hkey in Ek. eapply rkey_inj; eauto.
    - apply nodup_alleq_unique; auto.
      + eapply NoDup_map_inv. apply uniq_by_nodup.
      + eapply NoDup_map_inv. apply uniq_by_nodup.
      + intros a b Ha Hb. apply uniq_by_in in Ha, Hb. apply Hheads in Ha, Hb. auto. }
  rewrite Hents. apply map_ext_in. intros h Hh. apply uniq_by_in in Hh. f_equal.
  apply build_correct; auto.
  - intro x. rewrite in_map_iff. split.
    + intros [j [<- Hj]]. apply filter_In in Hj as [Hj Hs]. apply E in Hj. apply ljoin_rows_in in Hj as [Hj1 Hj2].
      unfold same_entity in Hs. apply lz_eqb_eq in Hs.
      assert (fst j = h) by (symmetry; eapply tagged_id_inj; eauto). subst h. exact Hj2.
    + intro Hx. exists (h, x). split; auto. apply filter_In. split.
      * apply E. apply ljoin_rows_in. cbn; auto.
      * unfold same_entity. cbn. apply lz_eqb_refl.
  - eapply sorted_map; [apply sorted_filter; exact S|].
    intros a b Ha Hb Hk. apply filter_In in Ha as [Ha Sa]. apply filter_In in Hb as [Hb Sb].
    apply E in Ha, Hb. apply ljoin_rows_in in Ha as [Ha _]. apply ljoin_rows_in in Hb as [Hb _].
    unfold same_entity in Sa, Sb. apply lz_eqb_eq in Sa, Sb.
    assert (fst a = h) by (symmetry; eapply tagged_id_inj; eauto).
    assert (fst b = h) by (symmetry; eapply tagged_id_inj; eauto).
    unfold kle, jkey, jhead, jtail in *. rewrite H0, H1 in Hk. rewrite lex_le_app_same in Hk. auto.
Qed.
