(* C35 - executable model of the Session object-lifecycle machinery (orm/state.py, orm/session.py).

   Representation.  One Session, a growing list of mapped objects (index = identity of the Python
   object; the harness keeps a strong reference to every object, so weak referencing plays no role).
   The Python sets/dicts keyed by InstanceState are kept as characteristic flags on the object record:
     inew  <-> state in session._new              isdel <-> state in session._deleted
     iimap <-> session.identity_map.contains_state(state)
     itnew <-> state in session._transaction._new itdel <-> state in session._transaction._deleted
   (flush subtransactions share the dictionaries of the root transaction; SAVEPOINTs are not modelled).
   A loop "for state in <set>" becomes a pass over all objects in index order; the order between
   different objects is not observable per object (the Python sets iterate in address order).

   Environment.  Everything that depends on attribute-level state or on the database is an input of
   each operation ([env]): the primary keys currently visible in the table, whether the identity map
   holds modified states, and per object whether it is expired / its pk attribute is expired / its pk
   attribute is loaded.  The theorems quantify over arbitrary environments.

   Every change of an object's (key, session, _deleted) triple is logged as [Chg i from to]; every
   SessionEvents lifecycle hook that the code fires is logged as [Ev i event state_at_that_moment]. *)
From Coq Require Import List ZArith Bool Arith.
Import ListNotations.
Open Scope Z_scope.

Inductive lc := Absent | Transient | Pending | Persistent | Deleted | Detached.
Inductive evt := T2P | P2S | P2T | LAP | S2T | S2D | D2X | S2X | X2S | D2S.

Record obj := mkObj {
  pk : Z;            (* value of the primary key attribute / identity key *)
  okey : bool;       (* state.key is not None *)
  osess : bool;      (* state.session_id is this session  (= state._attached) *)
  odel : bool;       (* state._deleted *)
  inew : bool; iimap : bool; isdel : bool; itnew : bool; itdel : bool }.

(* ---- orm/state.py: the five lifecycle predicates ------------------------------------------- *)
Definition st_transient (key_none attached deleted : bool) := key_none && negb attached.
Definition st_pending (key_none attached deleted : bool) := key_none && attached.
Definition st_deleted (key_none attached deleted : bool) := negb key_none && attached && deleted.
Definition st_persistent (key_none attached deleted : bool) := negb key_none && attached && negb deleted.
Definition st_detached (key_none attached deleted : bool) := negb key_none && negb attached.

Definition is_transient o := st_transient (negb (okey o)) (osess o) (odel o).
Definition is_pending o := st_pending (negb (okey o)) (osess o) (odel o).
Definition is_persistent o := st_persistent (negb (okey o)) (osess o) (odel o).
Definition is_deleted o := st_deleted (negb (okey o)) (osess o) (odel o).
Definition is_detached o := st_detached (negb (okey o)) (osess o) (odel o).

Definition lc_of (o : obj) : lc :=
  if okey o then (if osess o then (if odel o then Deleted else Persistent) else Detached)
  else (if osess o then Pending else Transient).

Definition lc_eqb (a b : lc) : bool :=
  match a, b with
  | Absent, Absent | Transient, Transient | Pending, Pending | Persistent, Persistent
  | Deleted, Deleted | Detached, Detached => true
  | _, _ => false
  end.

(* what is logged about one object; the log tags each item with the object's index *)
Inductive oentry := OChg (f t : lc) | OEv (e : evt) (at_ : lc).
Definition entry := (nat * oentry)%type.
Definition Chg (i : nat) (f t : lc) : entry := (i, OChg f t).
Definition Ev (i : nat) (e : evt) (at_ : lc) : entry := (i, OEv e at_).

Record state := mkSt {
  eoc : bool;                (* Session(expire_on_commit=...) *)
  objs : list obj;
  tx : option bool;          (* session._transaction: None | Some deactive? *)
  slog : list entry }.

Record env := mkEnv {
  rows : list Z;             (* primary keys visible on the session's connection before the operation *)
  emod : bool;               (* identity_map.check_modified() *)
  eexp : nat -> bool;        (* state.expired *)
  eidexp : nat -> bool;      (* "id" in state.expired_attributes *)
  ehasid : nat -> bool }.    (* "id" in state.dict *)

(* ---- record updates -------------------------------------------------------------------------- *)
Definition set_key b o := mkObj (pk o) b (osess o) (odel o) (inew o) (iimap o) (isdel o) (itnew o) (itdel o).
Definition set_sess b o := mkObj (pk o) (okey o) b (odel o) (inew o) (iimap o) (isdel o) (itnew o) (itdel o).
Definition set_del b o := mkObj (pk o) (okey o) (osess o) b (inew o) (iimap o) (isdel o) (itnew o) (itdel o).
Definition set_inew b o := mkObj (pk o) (okey o) (osess o) (odel o) b (iimap o) (isdel o) (itnew o) (itdel o).
Definition set_iimap b o := mkObj (pk o) (okey o) (osess o) (odel o) (inew o) b (isdel o) (itnew o) (itdel o).
Definition set_isdel b o := mkObj (pk o) (okey o) (osess o) (odel o) (inew o) (iimap o) b (itnew o) (itdel o).
Definition set_itnew b o := mkObj (pk o) (okey o) (osess o) (odel o) (inew o) (iimap o) (isdel o) b (itdel o).
Definition set_itdel b o := mkObj (pk o) (okey o) (osess o) (odel o) (inew o) (iimap o) (isdel o) (itnew o) b.

Definition new_obj (k : Z) : obj := mkObj k false false false false false false false false.
Definition dflt : obj := new_obj 0.
Definition get (st : state) (i : nat) : obj := nth i (objs st) dflt.

Definition chg (o o' : obj) : list oentry :=
  if lc_eqb (lc_of o) (lc_of o') then [] else [OChg (lc_of o) (lc_of o')].

(* one pass over all objects, in index order: [f i o] gives the new object and what is logged *)
Definition tag (i : nat) (l : list oentry) : list entry := map (fun x => (i, x)) l.
Fixpoint mapi_log (f : nat -> obj -> obj * list oentry) (i : nat) (l : list obj) : list obj * list entry :=
  match l with
  | [] => ([], [])
  | o :: r => let (o', es) := f i o in let (r', es') := mapi_log f (S i) r in (o' :: r', tag i es ++ es')
  end.
Definition app_all (f : nat -> obj -> obj * list oentry) (st : state) : state :=
  let (l, es) := mapi_log f 0%nat (objs st) in mkSt (eoc st) l (tx st) (slog st ++ es).
Definition only (i : nat) (g : obj -> obj * list oentry) : nat -> obj -> obj * list oentry :=
  fun j o => if Nat.eqb j i then g o else (o, []).
Definition quiet (g : obj -> obj) : obj -> obj * list oentry := fun o => (g o, []).
Definition set_tx (t : option bool) (st : state) : state := mkSt (eoc st) (objs st) t (slog st).

(* ---- state.py: InstanceState._detach_states (body of the loop, one state) --------------------- *)
Definition detach_obj (to_transient : bool) (o : obj) : obj * list oentry :=
  let deleted := odel o in
  let pending := negb (okey o) in
  let persistent := negb pending && negb deleted in
  let o' := set_del (odel o && negb to_transient) (set_key (okey o && negb to_transient) (set_sess false o)) in
  (o', chg o o' ++
       (if persistent then [OEv (if to_transient then S2T else S2X) (lc_of o')]
        else if deleted then [OEv D2X (lc_of o')]
        else if pending then [OEv P2T (lc_of o')] else [])).

(* ---- session.py: Session._expunge_states (set bookkeeping of one state, then its detach) ------ *)
Definition expunge_pre (has_tx : bool) (o : obj) : obj :=
  if inew o then set_inew false o
  else if iimap o then set_isdel false (set_iimap false o)
  else if has_tx then set_itdel false o
  else o.
Definition expunge_obj (has_tx to_transient : bool) (o : obj) : obj * list oentry :=
  detach_obj to_transient (expunge_pre has_tx o).
Definition has_tx (st : state) : bool := match tx st with Some _ => true | None => false end.
Definition is_deact (st : state) : bool := match tx st with Some d => d | None => false end.

(* ---- Session._before_attach / _after_attach ---------------------------------------------------- *)
Definition autobegin (st : state) : state :=
  match tx st with None => set_tx (Some false) st | Some _ => st end.
Definition after_attach (o : obj) : obj * list oentry :=
  let o' := set_sess true o in
  (o', chg o o' ++ [OEv (if okey o then X2S else T2P) (lc_of o')]).

(* ---- identity map -------------------------------------------------------------------------------- *)
Fixpoint holder_from (k : Z) (i : nat) (l : list obj) : option nat :=
  match l with
  | [] => None
  | o :: r => if iimap o && Z.eqb (pk o) k then Some i else holder_from k (S i) r
  end.
Definition holder (k : Z) (st : state) : option nat := holder_from k 0%nat (objs st).
(* WeakInstanceDict.add(state) raises when another state holds the key *)
Definition conflict (i : nat) (st : state) : bool :=
  match holder (pk (get st i)) st with Some h => negb (Nat.eqb h i) | None => false end.
(* WeakInstanceDict.replace(state) as one pass: [g] is what happens to state [i] itself, whoever else
   holds its key is evicted *)
Definition replacing (i : nat) (k : Z) (g : obj -> obj * list oentry) : nat -> obj -> obj * list oentry :=
  fun j o => if Nat.eqb j i then g o
             else if iimap o && Z.eqb (pk o) k then (set_iimap false o, []) else (o, []).

Definition andthen (g1 g2 : obj -> obj * list oentry) : obj -> obj * list oentry :=
  fun o => let (o1, e1) := g1 o in let (o2, e2) := g2 o1 in (o2, e1 ++ e2).
(* to_attach = self._before_attach(state, obj) ... if to_attach: self._after_attach(state, obj) *)
Definition attach_if_needed (o : obj) : obj * list oentry := if osess o then (o, []) else after_attach o.

(* ---- Session._save_impl / _update_impl / _delete_impl --------------------------------------------- *)
Definition save_obj : obj -> obj * list oentry := andthen (quiet (set_inew true)) attach_if_needed.
Definition update_obj : obj -> obj * list oentry :=
  andthen (quiet (fun o => set_iimap true (set_isdel false o))) attach_if_needed.
Definition delete_obj : obj -> obj * list oentry :=
  andthen (quiet (set_iimap true)) (andthen attach_if_needed (quiet (set_isdel true))).
Definition save_impl (i : nat) (st : state) : state * Z :=
  if okey (get st i) then (st, 1)
  else (app_all (only i save_obj) (autobegin st), 0).

Definition update_impl (i : nat) (st : state) : state * Z :=
  let o := get st i in
  if negb (okey o) then (st, 1)
  else if odel o then (st, 1)
  else
    let st := autobegin st in
    if conflict i st then (st, 1)
    else (app_all (only i update_obj) st, 0).

(* _update_impl(state, revert_deletion=True) as called by _restore_snapshot *)
Definition revert_obj (o : obj) : obj * list oentry :=
  let o1 := if odel o then set_del false o else o in
  let o2 := set_iimap true (set_isdel false o1) in
  if osess o then (o2, chg o o1 ++ (if odel o then [OEv D2S (lc_of o2)] else []))
  else let (o3, e3) := after_attach o2 in (o3, chg o o1 ++ e3).
Definition revert_impl (i : nat) (st : state) : state * Z :=
  let o := get st i in
  if negb (okey o) then (st, 1)
  else if odel o && negb (osess o) then (st, 0)
  else (app_all (replacing i (pk o) revert_obj) (autobegin st), 0).

Definition delete_impl (i : nat) (st : state) : state * Z :=
  let o := get st i in
  if negb (okey o) then (st, 1)
  else
    let st := autobegin st in
    if isdel o then (st, 0)
    else if conflict i st then (st, 1)
    else (app_all (only i delete_obj) st, 0).

(* ---- Session._remove_newly_deleted / _register_persistent (one state) ------------------------------ *)
Definition newly_deleted_obj (has_tx : bool) (o : obj) : obj * list oentry :=
  let o1 := if has_tx then set_itdel true o else o in
  let o' := set_del true (set_isdel false (set_iimap false o1)) in
  (o', chg o o' ++ [OEv S2D (lc_of o')]).

(* state.key = instance_key; identity_map.replace(state); _register_altered; event; _new.pop *)
Definition register_obj (has_tx : bool) (o : obj) : obj * list oentry :=
  let o1 := set_key true o in
  let o2 := set_inew false (set_iimap true (if has_tx then set_itnew true o1 else o1)) in
  (o2, chg o o1 ++ [OEv P2S (lc_of o2)]).
Definition register_one (st : state) (i : nat) : state :=
  app_all (replacing i (pk (get st i)) (register_obj (has_tx st))) st.

(* ---- SessionTransaction._restore_snapshot ----------------------------------------------------------- *)
Fixpoint fold_err (f : nat -> state -> state * Z) (l : list nat) (st : state) : state * Z :=
  match l with
  | [] => (st, 0)
  | i :: r => let (st', e) := f i st in if Z.eqb e 0 then fold_err f r st' else (st', e)
  end.
Definition all_idx (st : state) : list nat := seq 0 (length (objs st)).

Definition restore_expunge_obj (has_tx : bool) (o : obj) : obj * list oentry :=
  if itnew o || inew o then expunge_obj has_tx true o else (o, []).
Definition restore_snapshot (st : state) : state * Z :=
  let st := app_all (fun _ => restore_expunge_obj (has_tx st)) st in
  fold_err (fun i st => if itdel (get st i) || isdel (get st i) then revert_impl i st else (st, 0))
           (all_idx st) st.

(* a transaction object is discarded: its _new/_deleted dictionaries go with it *)
Definition end_tx_obj (o : obj) : obj * list oentry := (set_itnew false (set_itdel false o), []).
Definition end_tx (st : state) : state := set_tx None (app_all (fun _ => end_tx_obj) st).

(* ---- Session.flush ------------------------------------------------------------------------------------ *)
Definition any_obj (p : obj -> bool) (st : state) : bool := existsb p (objs st).
Definition is_clean (st : state) (modified : bool) : bool :=
  negb modified && negb (any_obj isdel st) && negb (any_obj inew st).
Definition memz (k : Z) (l : list Z) : bool := existsb (Z.eqb k) l.
Fixpoint remz (k : Z) (l : list Z) : list Z :=
  match l with [] => [] | x :: r => if Z.eqb x k then remz k r else x :: remz k r end.

(* persistence._organize_states_for_save for one pending state [p]: uowtransaction.was_already_deleted
   of the persistent holder of the same identity may move that holder to "deleted" right away.
   result: the state and whether [p] is a row switch *)
Definition organize_one (e : env) (dels : nat -> bool) (st : state) (p : nat) : state * option nat :=
  match holder (pk (get st p)) st with
  | None => (st, None)
  | Some ex =>
      if eexp e ex && negb (memz (pk (get st p)) (rows e))
      then (app_all (only ex (newly_deleted_obj (has_tx st))) st, None)
      else (st, if dels ex then Some ex else None)
  end.
(* result: the state and the row switches (pending state, holder whose delete is cancelled) *)
Fixpoint organize (e : env) (dels : nat -> bool) (st : state) (ps : list nat) : state * list (nat * nat) :=
  match ps with
  | [] => (st, [])
  | p :: r =>
      if inew (get st p) then
        let (st1, rs) := organize_one e dels st p in
        let (st2, rsw) := organize e dels st1 r in
        (st2, match rs with Some ex => (p, ex) :: rsw | None => rsw end)
      else organize e dels st r
  end.
Definition memn (i : nat) (l : list nat) : bool := existsb (Nat.eqb i) l.

(* the statements: INSERT for every pending state that is not a row switch, then DELETE for every
   state marked deleted whose delete was not cancelled by a row switch.  None = the flush raises *)
Fixpoint do_inserts (st : state) (rsw : list nat) (ps : list nat) (rws : list Z) : option (list Z) :=
  match ps with
  | [] => Some rws
  | p :: r =>
      if inew (get st p) && negb (memn p rsw) then
        if memz (pk (get st p)) rws then None else do_inserts st rsw r (pk (get st p) :: rws)
      else do_inserts st rsw r rws
  end.
Fixpoint do_deletes (e : env) (st0 : state) (lo : list nat) (ds : list nat) (rws : list Z) : option (list Z) :=
  match ds with
  | [] => Some rws
  | d :: r =>
      if isdel (get st0 d) && negb (memn d lo) then
        if eidexp e d && negb (memz (pk (get st0 d)) rws) then None
        else do_deletes e st0 lo r (remz (pk (get st0 d)) rws)
      else do_deletes e st0 lo r rws
  end.

Inductive dbres := DbOk (rws : list Z) | DbFail (code : Z).
Definition flush_db (e : env) (st0 : state) (rsw : list (nat * nat)) : dbres :=
  match do_inserts st0 (map fst rsw) (all_idx st0) (rows e) with
  | None => DbFail 2
  | Some rws => match do_deletes e st0 (map snd rsw) (all_idx st0) rws with
                | None => DbFail 5
                | Some rws' => DbOk rws'
                end
  end.

(* UOWTransaction.finalize_flush_changes: _remove_newly_deleted(isdel) then _register_persistent(other) *)
Definition finalize (st0 : state) (st : state) : state :=
  let st := app_all (fun i o => if isdel (get st0 i) then newly_deleted_obj (has_tx st) o else (o, [])) st in
  fold_left (fun st i => if inew (get st0 i) then register_one st i else st) (all_idx st0) st.

(* result: state, error code (0 = none), rows visible afterwards *)
Definition flush (e : env) (st : state) : state * Z * list Z :=
  if is_clean st (emod e) then (st, 0, rows e)
  else
    let st0 := autobegin st in
    if is_deact st0 then (st0, 3, rows e)
    else
      let (st1, rsw) := organize e (fun d => isdel (get st0 d)) st0 (all_idx st0) in
      match flush_db e st0 rsw with
      | DbFail c =>
          (* transaction.rollback(_capture_exception=True) *)
          (* an exception raised by _restore_snapshot itself replaces the original one *)
          let (st2, c2) := restore_snapshot (set_tx (Some true) st1) in (st2, if Z.eqb c2 0 then c else c2, rows e)
      | DbOk rws => (finalize st0 st1, 0, rws)
      end.

(* ---- operations ------------------------------------------------------------------------------------------ *)
Inductive op := Add (i : nat) | Delete (i : nat) | Expunge (i : nat) | Flush | Commit | Rollback | Close
              | Merge (i : nat) | MakeTransient (i : nat) | MakeTransientToDetached (i : nat).

Definition do_add (i : nat) (st : state) : state * Z :=
  if okey (get st i) then update_impl i st else save_impl i st.

Definition do_expunge (i : nat) (st : state) : state * Z :=
  if negb (osess (get st i)) then (st, 1)
  else (app_all (only i (expunge_obj (has_tx st) false)) st, 0).

Definition commit_detach_obj (o : obj) : obj * list oentry := if itdel o then detach_obj false o else (o, []).
Definition do_commit (e : env) (st : state) : state * Z :=
  let st := autobegin st in
  if is_deact st then (st, 3)
  else
    let '(st, c, _) := flush e st in
    if negb (Z.eqb c 0) then (st, c)
    else
      (* _remove_snapshot *)
      let st := if eoc st
                then app_all (fun _ => commit_detach_obj) st
                else st in
      (end_tx st, 0).

Definition do_rollback (e : env) (st : state) : state * Z :=
  match tx st with
  | None => (st, 0)
  | Some false =>
      let (st, c) := restore_snapshot (set_tx (Some true) st) in
      if negb (Z.eqb c 0) then (st, c) else (end_tx st, 0)
  | Some true =>
      if is_clean st (emod e) then (end_tx st, 0)
      else
        let (st, c) := restore_snapshot st in
        if negb (Z.eqb c 0) then (st, c) else (end_tx st, 0)
  end.

(* Session.close -> expunge_all, then the transaction is closed (no snapshot restore) *)
Definition close_obj (has_tx : bool) (o : obj) : obj * list oentry :=
  let o1 := set_isdel false (set_inew false (set_iimap false o)) in
  if iimap o || inew o || (has_tx && itdel o && odel o && osess o) then detach_obj false o1 else (o1, []).
Definition do_close (st : state) : state * Z := (end_tx (app_all (fun _ => close_obj (has_tx st)) st), 0).

Definition make_transient_obj (has_tx : bool) : obj -> obj * list oentry :=
  andthen (fun o => if osess o then expunge_obj has_tx false o else (o, []))
          (fun o => let o' := set_del false (set_key false o) in (o', chg o o')).
Definition do_make_transient (i : nat) (st : state) : state * Z :=
  (app_all (only i (make_transient_obj (has_tx st))) st, 0).

Definition mttd_obj (o : obj) : obj * list oentry := let o' := set_del false (set_key true o) in (o', chg o o').
Definition do_mttd (i : nat) (st : state) : state * Z :=
  let o := get st i in
  if osess o || okey o then (st, 1)
  else (app_all (only i mttd_obj) st, 0).

Definition add_obj (o : obj) (st : state) : state := mkSt (eoc st) (objs st ++ [o]) (tx st) (slog st).

(* result: state, error, index of the returned object *)
Definition do_merge (e : env) (i : nat) (st : state) : state * Z * option nat :=
  let pend := fun j => inew (get st j) in
  let '(st, c, rws) := flush e st in                      (* Session.merge: self._autoflush() *)
  if negb (Z.eqb c 0) then (st, c, None)
  else
    let k := pk (get st i) in
    match holder k st with
    | Some m =>
        if negb (Nat.eqb m i) && ehasid e i && eidexp e m && negb (pend m && okey (get st m)) then
          (* the pk attribute of the merge target is unexpired: SELECT on the session's connection *)
          let st := autobegin st in
          if is_deact st then (st, 3, None)
          else if negb (memz k rws) then (st, 5, None)
          else (st, 0, Some m)
        else (st, 0, Some m)
    | None =>
        (* Session.get: SELECT by primary key *)
        let st := autobegin st in
        if is_deact st then (st, 3, None)
        else
          let n := length (objs st) in
          if memz k rws then
            let o := mkObj k true true false false true false false false in
            let st := add_obj o st in
            (mkSt (eoc st) (objs st) (tx st) (slog st ++ [Chg n Absent Persistent; Ev n LAP Persistent]), 0, Some n)
          else
            let st := add_obj (new_obj k) st in
            let st := mkSt (eoc st) (objs st) (tx st) (slog st ++ [Chg n Absent Transient]) in
            let (st, c) := save_impl n st in (st, c, Some n)
    end.

Definition nores (r : state * Z) : state * Z * option nat := (fst r, snd r, None).
Definition step (e : env) (o : op) (st : state) : state * Z * option nat :=
  match o with
  | Add i => nores (do_add i st)
  | Delete i => nores (delete_impl i st)
  | Expunge i => nores (do_expunge i st)
  | Flush => let '(s, c, _) := flush e st in (s, c, None)
  | Commit => nores (do_commit e st)
  | Rollback => nores (do_rollback e st)
  | Close => nores (do_close st)
  | Merge i => do_merge e i st
  | MakeTransient i => nores (do_make_transient i st)
  | MakeTransientToDetached i => nores (do_mttd i st)
  end.

(* Histories are cut ([stop]) before an operation when an object without identity key has lost its
   primary key value (make_transient of an expired object, merge of an expired detached object whose
   row is gone) or when two pending objects carry the same primary key (the result of flushing them
   depends on the iteration order of a Python set): outside the modelled scope. *)
Fixpoint idless_from (e : env) (i : nat) (l : list obj) : bool :=
  match l with
  | [] => false
  | o :: r => (negb (okey o) && negb (ehasid e i)) || idless_from e (S i) r
  end.
Fixpoint dup_pending (l : list obj) : bool :=
  match l with
  | [] => false
  | o :: r => (inew o && existsb (fun o' => inew o' && Z.eqb (pk o') (pk o)) r) || dup_pending r
  end.
Definition stop (e : env) (st : state) : bool := idless_from e 0%nat (objs st) || dup_pending (objs st).

Definition init (eoc_ : bool) (pks : list Z) : state := mkSt eoc_ (map new_obj pks) None [].

(* a history: operations with the environment each one meets *)
Fixpoint run (h : list (env * op)) (st : state) : state :=
  match h with
  | [] => st
  | (e, o) :: r => if stop e st then st else let '(st', _, _) := step e o st in run r st'
  end.
