(* C36 - proofs, part 1: the History constructors against the declarative net difference, and
   purity of history inspection. *)
From Coq Require Import List NArith Bool Lia.
Import ListNotations.
From SAV.orm Require Import History HistorySpec.
Open Scope N_scope.

(* ---------- History.from_... = declarative difference ---------- *)
Lemma from_scalar_clean : forall cur,
  from_scalar NoHist cur = match cur with None => blank | Some c => ([], [c], []) end.
Proof. destruct cur; reflexivity. Qed.

Lemma from_scalar_known : forall p cur, from_scalar (CVal p) cur = net_diff_scalar (Known p) cur.
Proof.
  intros p [c|]; unfold from_scalar, net_diff_scalar; cbn [is_nohist is_nostate]; [|reflexivity].
  destruct (c =? p); reflexivity.
Qed.

Lemma from_scalar_unknown : forall o cur, is_nostate o = true ->
  from_scalar o cur = net_diff_scalar Unknown cur.
Proof. intros [| | |v] [c|] H; try discriminate H; reflexivity. Qed.

Lemma from_object_clean : forall cur,
  from_object NoHist cur = match cur with None => blank | Some c => ([], [c], []) end.
Proof. destruct cur; reflexivity. Qed.

Lemma from_object_known : forall p cur, from_object (CVal p) cur = net_diff_object (Known p) cur.
Proof.
  intros p [c|]; unfold from_object, net_diff_object; cbn [is_nohist is_nostate orb].
  - destruct (c =? p) eqn:E; [reflexivity|].
    destruct p; cbn [N.eqb]; reflexivity.
  - destruct p; reflexivity.
Qed.

Lemma from_object_unknown : forall o cur, is_nostate o = true ->
  from_object o cur = net_diff_object Unknown cur.
Proof. intros [| | |v] [c|] H; try discriminate H; reflexivity. Qed.

Lemma from_collection_clean : forall cur,
  from_collection NoHist cur = match cur with None => blank | Some c => ([], c, []) end.
Proof. destruct cur; reflexivity. Qed.

Lemma from_collection_known : forall o cur,
  from_collection (CVal o) cur = net_diff_coll (Known o) cur.
Proof. intros o [c|]; reflexivity. Qed.

Lemma from_collection_unknown : forall o cur, is_nostate o = true ->
  from_collection o cur = net_diff_coll Unknown cur.
Proof. intros [| | |v] [c|] H; try discriminate H; reflexivity. Qed.

(* ---------- get_history(PASSIVE_NO_INITIALIZE) in closed form ---------- *)
Lemma hist_x_eq : forall s, hist_x s = from_scalar (x_c s) (x_d s).
Proof.
  intros s. unfold hist_x. destruct (x_d s) eqn:D; [reflexivity|].
  destruct (x_c s) eqn:C; cbn [is_nohist negb]; try reflexivity.
  unfold get_x, get. rewrite D, C. reflexivity.
Qed.

Lemma hist_b_eq : forall s,
  hist_b s = match b_d s, b_c s with
             | None, CNoValue => blank
             | d, c => from_object c d
             end.
Proof.
  intros s. unfold hist_b, get_b, get.
  destruct (b_d s) eqn:D; [destruct (b_c s); reflexivity|].
  destruct (b_c s) eqn:C; reflexivity.
Qed.

Lemma hist_c_eq : forall s, hist_c s = from_collection (c_c s) (c_d s).
Proof.
  intros s. unfold hist_c, get_c, get.
  destruct (c_d s) eqn:D; [reflexivity|].
  destruct (c_c s) eqn:C; reflexivity.
Qed.
