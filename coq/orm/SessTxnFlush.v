(* C33 - a successful flush preserves the invariant (objects, rows, the frame's record). *)
From Coq Require Import List ZArith Bool Arith Lia Permutation.
Import ListNotations.
From SAV.orm Require Import SessTxn SessTxnBase SessTxnSpec SessTxnInv SessTxnOps SessTxnRestore SessTxnStmts.
Open Scope nat_scope.

(* ------------------------------------------------------------------ sorting by key is a permutation *)
Lemma insert_by_perm : forall st o l, Permutation (insert_by st o l) (o :: l).
Proof.
  intros st o l. induction l as [|x r IH]; cbn; auto.
  destruct (Z.leb (keyZ st o) (keyZ st x)); auto.
  eapply perm_trans; [apply perm_skip; exact IH|apply perm_swap].
Qed.
Lemma sort_by_key_perm : forall st l, Permutation (sort_by_key st l) l.
Proof.
  intros st l. unfold sort_by_key. induction l as [|x r IH]; cbn; auto.
  eapply perm_trans; [apply insert_by_perm|apply perm_skip; exact IH].
Qed.
Lemma sort_by_key_in : forall st l x, In x (sort_by_key st l) <-> In x l.
Proof.
  intros. split; intros H.
  - eapply Permutation_in; [apply sort_by_key_perm|exact H].
  - eapply Permutation_in; [apply Permutation_sym; apply sort_by_key_perm|exact H].
Qed.
Lemma sort_by_key_nodup : forall st l, NoDup l -> NoDup (sort_by_key st l).
Proof. intros st l H. eapply Permutation_NoDup; [apply Permutation_sym; apply sort_by_key_perm|exact H]. Qed.

(* the statement list of one flush is well-formed *)
Lemma NoDup_map_inj : forall {A B} (h : A -> B) l, (forall x y, h x = h y -> x = y) -> NoDup l -> NoDup (map h l).
Proof.
  intros A B h l Hh. induction l as [|a l IH]; intros H; cbn; constructor.
  - inversion H; subst. intros X. apply in_map_iff in X. destruct X as [y [E Hy]]. apply Hh in E. subst. contradiction.
  - inversion H; auto.
Qed.
Lemma stmts_of_wf : forall st new dirty deleted, NoDup new -> NoDup dirty -> NoDup deleted ->
  (forall x, In x dirty -> ~ In x deleted) -> WfL (stmts_of st new dirty deleted).
Proof.
  intros st new dirty deleted N1 N2 N3 Hd. unfold stmts_of, WfL. split.
  - assert (A1 : NoDup (map SUpd (sort_by_key st dirty))).
    { apply NoDup_map_inj; [intros x y E; congruence|apply sort_by_key_nodup; auto]. }
    assert (A2 : NoDup (map SIns new)). { apply NoDup_map_inj; [intros x y E; congruence|auto]. }
    assert (A3 : NoDup (map SDel (sort_by_key st deleted))).
    { apply NoDup_map_inj; [intros x y E; congruence|apply sort_by_key_nodup; auto]. }
    assert (A23 : NoDup (map SIns new ++ map SDel (sort_by_key st deleted))).
    { clear A1. clear N1. induction new as [|a r IH]; cbn; auto. inversion A2; subst. constructor.
      - intros X. apply in_app_or in X. destruct X as [X|X]; [contradiction|].
        apply in_map_iff in X. destruct X as [y [E _]]. discriminate.
      - apply IH. auto. }
    clear A2 A3. induction (sort_by_key st dirty) as [|a r IH]; cbn; auto.
    inversion A1; subst. constructor.
    + intros X. apply in_app_or in X. destruct X as [X|X]; [contradiction|].
      apply in_app_or in X. destruct X as [X|X]; apply in_map_iff in X; destruct X as [y [E _]]; discriminate.
    + apply IH. auto.
  - intros o Hu Hdel.
    apply in_app_or in Hu. destruct Hu as [Hu|Hu].
    2:{ apply in_app_or in Hu. destruct Hu as [Hu|Hu]; apply in_map_iff in Hu; destruct Hu as [y [E _]]; discriminate. }
    apply in_map_iff in Hu. destruct Hu as [y [E Hy]]. inversion E; subst y.
    apply in_app_or in Hdel. destruct Hdel as [X|X]; [apply in_map_iff in X; destruct X as [y [E' _]]; discriminate|].
    apply in_app_or in X. destruct X as [X|X]; apply in_map_iff in X; destruct X as [y [E' Hy']]; [discriminate|].
    inversion E'; subst y. apply sort_by_key_in in Hy. apply sort_by_key_in in Hy'. eapply Hd; eauto.
Qed.
Lemma stmts_of_in : forall st new dirty deleted o,
  (In (SUpd o) (stmts_of st new dirty deleted) <-> In o dirty) /\
  (In (SIns o) (stmts_of st new dirty deleted) <-> In o new) /\
  (In (SDel o) (stmts_of st new dirty deleted) <-> In o deleted).
Proof.
  intros. unfold stmts_of. repeat split; intros H.
  - apply in_app_or in H. destruct H as [H|H].
    + apply in_map_iff in H. destruct H as [y [E Hy]]. inversion E; subst. apply sort_by_key_in in Hy. auto.
    + apply in_app_or in H. destruct H as [H|H]; apply in_map_iff in H; destruct H as [y [E _]]; discriminate.
  - apply in_or_app. left. apply in_map. apply sort_by_key_in. auto.
  - apply in_app_or in H. destruct H as [H|H]; [apply in_map_iff in H; destruct H as [y [E _]]; discriminate|].
    apply in_app_or in H. destruct H as [H|H]; apply in_map_iff in H; destruct H as [y [E Hy]]; [|discriminate].
    inversion E; subst. auto.
  - apply in_or_app. right. apply in_or_app. left. apply in_map. auto.
  - apply in_app_or in H. destruct H as [H|H]; [apply in_map_iff in H; destruct H as [y [E _]]; discriminate|].
    apply in_app_or in H. destruct H as [H|H]; apply in_map_iff in H; destruct H as [y [E Hy]]; [discriminate|].
    inversion E; subst. apply sort_by_key_in in Hy. auto.
  - apply in_or_app. right. apply in_or_app. right. apply in_map. apply sort_by_key_in. auto.
Qed.

Lemma im_lookup_some : forall st k o, im_lookup st k = Some o ->
  o < nobj st /\ oin (objs st o) = true /\ okey (objs st o) = Some k.
Proof.
  intros st k o H. unfold im_lookup in H. apply find_some in H. destruct H as [H1 H2].
  apply in_seq in H1. apply andb_prop in H2. destruct H2 as [H2 H3].
  unfold key_is in H3. destruct (okey (objs st o)) as [k'|]; [|discriminate].
  apply Z.eqb_eq in H3. subst. repeat split; auto. lia.
Qed.

Section Flush.
  Variables (s0 : sess) (g : ghost) (f : frame).
  Hypothesis GC : GClean g.
  Let n := nobj s0.
  Let W0 := work s0.
  Let new := snew s0.
  Let deleted := sdel s0.
  Variable dirty : list nat.
  Hypothesis G0 : Good (objs s0) n W0 new deleted.
  Hypothesis J0 : J (objs s0) n.
  Hypothesis R0 : Rel g f (objs s0) n new deleted W0.
  Hypothesis Hdirty : forall x, In x dirty <-> (x < n /\ oin (objs s0 x) = true /\ omod (objs s0 x) = true /\ ~ In x deleted).
  Hypothesis Hdnd : NoDup dirty.

  Lemma sigl0 : SigL s0 g f s0.
  Proof. constructor; auto. apply sbo_refl. intros; apply obj_le_refl. Qed.

  (* the organize phase only loads *)
  Lemma organize_ok : forall l s r s', SigL s0 g f s -> work s = W0 ->
    foldM (organize_pending deleted) l s = (r, s') -> r <> Unmodelled ->
    r = Ok /\ SigL s0 g f s' /\ work s' = W0.
  Proof.
    induction l as [|o l IH]; intros s r s' L Hw H Hr.
    - inversion H; subst. auto.
    - cbn [foldM] in H. apply bind_inv in H.
      assert (Step : forall ra sa, organize_pending deleted o s = (ra, sa) -> ra <> Unmodelled ->
                ra = Ok /\ SigL s0 g f sa /\ work sa = W0).
      { intros ra sa Ha Hra. unfold organize_pending in Ha.
        destruct (odid (objs s o)) as [pk|]; [|inversion Ha; subst; congruence].
        destruct (im_lookup s pk) as [ex|] eqn:El; [|inversion Ha; subst; auto].
        destruct (im_lookup_some _ _ _ El) as [A [B C]].
        destruct (g_rows _ _ _ _ _ (sl_good _ _ _ _ L) ex pk B C) as [v [Hv _]].
        destruct (oexp (objs s ex)).
        - destruct (load_step s0 g f GC s ex pk v L B C) as [s1 [E1 [E2 [E3 [E4 E5]]]]]; [rewrite Hw; exact Hv|exact Hv|].
          rewrite E1 in Ha. destruct (mem ex deleted); inversion Ha; subst; [congruence|].
          split; [reflexivity|]. split; [exact E5|]. rewrite E3. exact Hw.
        - destruct (mem ex deleted); inversion Ha; subst; [congruence|auto]. }
      destruct H as [[s1 [H1 H2]]|[H1 Hn]].
      + destruct (Step Ok s1 H1) as [_ [A B]]; [discriminate|]. eapply IH; eauto.
      + destruct (Step r s' H1 Hr) as [A _]. congruence.
  Qed.

  Definition rho0 (s : sess) (x : nat) : option Z := if oin (objs s x) then okey (objs s x) else None.
  Definition rv0 (s : sess) (x : nat) : Z :=
    match okey (objs s x) with Some k => match W0 k with Some v => v | None => 0%Z end | None => 0%Z end.

  Lemma sig_init : forall s, SigL s0 g f s -> work s = W0 ->
    Sig s0 g f (stmts_of s new dirty deleted) s (rho0 s) (rv0 s).
  Proof.
    intros s L Hw. pose proof (sl_good _ _ _ _ L) as G. pose proof (sl_j _ _ _ _ L) as Jh.
    assert (Hle := sl_le _ _ _ _ L).
    assert (Hrv : forall x k v, okey (objs s x) = Some k -> W0 k = Some v -> rv0 s x = v).
    { intros x k v Hk Hv. unfold rv0. rewrite Hk, Hv. reflexivity. }
    assert (Hrho : forall x p, rho0 s x = Some p -> oin (objs s x) = true /\ okey (objs s x) = Some p).
    { intros x p H. unfold rho0 in H. destruct (oin (objs s x)); [auto|discriminate]. }
    constructor; auto.
    - intros x p H. destruct (Hrho x p H) as [A B].
      destruct (g_rows _ _ _ _ _ G x p A B) as [v [Hv _]]. rewrite Hw. rewrite (Hrv x p v B Hv). exact Hv.
    - intros x y p Hx Hy. destruct (Hrho x p Hx) as [A B]. destruct (Hrho y p Hy) as [C D].
      eapply (g_uniq _ _ _ _ _ G); eauto.
    - intros p Hp.
      destruct (find (fun x => oin (objs s x) && key_is p (objs s x)) (seq 0 n)) as [x|] eqn:Ef.
      + left. apply find_some in Ef. destruct Ef as [_ Ef]. apply andb_prop in Ef. destruct Ef as [E1 E2].
        exists x. unfold rho0. rewrite E1. unfold key_is in E2. destruct (okey (objs s x)) as [k|]; [|discriminate].
        apply Z.eqb_eq in E2. congruence.
      + right. split; [rewrite Hw; reflexivity|]. intros x Hx Hk.
        destruct (Hle x) as [Q1 [_ [_ [Q4 _]]]].
        assert (Hx' : oin (objs s x) = true) by congruence.
        destruct (g_in _ _ _ _ _ G x Hx') as [Hn _].
        eapply find_none with (x := x) in Ef; [|apply in_seq; lia].
        rewrite Hx' in Ef. unfold key_is in Ef. rewrite Q1, Hk in Ef. rewrite Z.eqb_refl in Ef. discriminate.
    - intros o Ho.
      assert (Hin : oin (objs s o) = true).
      { destruct (Hle o) as [_ [_ [_ [Q4 _]]]]. rewrite Q4.
        destruct (stmts_of_in s new dirty deleted o) as [S1 [_ S3]].
        destruct Ho as [Ho|Ho].
        - apply S1 in Ho. apply Hdirty in Ho. tauto.
        - apply S3 in Ho. apply (g_del _ _ _ _ _ G0). exact Ho. }
      split; auto. destruct (g_in _ _ _ _ _ G o Hin) as [_ [_ [_ Hk]]].
      destruct (okey (objs s o)) as [k|] eqn:Ek; [|congruence]. exists k.
      destruct (g_rows _ _ _ _ _ G o k Hin Ek) as [v [Hv _]].
      repeat split; auto.
      + unfold rho0. rewrite Hin. exact Ek.
      + rewrite (Hrv o k v Ek Hv). exact Hv.
    - intros o Ho. destruct (stmts_of_in s new dirty deleted o) as [_ [S2 _]]. apply S2 in Ho.
      split; auto. unfold rho0.
      apply (g_new _ _ _ _ _ G) in Ho. destruct Ho as [_ [Hk _]].
      destruct (oin (objs s o)) eqn:E; auto.
    - intros x p H. destruct (Hrho x p H) as [A B].
      destruct (g_in _ _ _ _ _ G x A) as [Hn _].
      destruct (stmts_of_in s new dirty deleted x) as [S1 [_ S3]].
      destruct (omod (objs s x)) eqn:Em.
      + destruct (mem x deleted) eqn:Ed.
        * right; left. apply S3. apply mem_In. exact Ed.
        * left. apply S1. apply Hdirty. destruct (Hle x) as [_ [_ [_ [Q4 [Q5 _]]]]].
          split; [exact Hn|]. split; [congruence|]. split; [congruence|].
          intros X. apply mem_In in X. congruence.
      + right; right. destruct (g_rows _ _ _ _ _ G x p A B) as [v [Hv [V1 [_ [V3 _]]]]].
        destruct (Jh x Hn) as [_ [_ J3]]. destruct (J3 Em) as [C1 C2].
        rewrite (Hrv x p v B Hv). auto.
    - intros x H. destruct (rho0 s x) as [p|] eqn:E; [|congruence]. destruct (Hrho x p E) as [A B].
      destruct (g_in _ _ _ _ _ G x A) as [Hn _]. auto.
  Qed.
End Flush.

(* ------------------------------------------------------------------ finalize_flush_changes *)
(* a fold whose step changes one object by a function of that object alone *)
Lemma fold_objs_pointwise : forall (step : nat -> sess -> sess) (F : nat -> obj -> obj),
  (forall o s x, x <> o -> objs (step o s) x = objs s x) ->
  (forall o s, objs (step o s) o = F o (objs s o)) ->
  forall l s, NoDup l ->
  forall x, objs (fold_left (fun s o => step o s) l s) x = if mem x l then F x (objs s x) else objs s x.
Proof.
  intros step F H1 H2. induction l as [|o l IH]; intros s Hnd x; cbn [fold_left]; auto.
  inversion Hnd; subst. rewrite IH by auto. cbn [mem existsb]. fold (mem x l).
  destruct (Nat.eqb_spec x o).
  - subst. cbn. destruct (mem o l) eqn:E; [apply mem_In in E; contradiction|]. apply H2.
  - cbn. rewrite H1 by auto. reflexivity.
Qed.

Lemma rnd_objs : forall o s x, objs (remove_newly_deleted o s) x =
  if Nat.eqb x o then o_delf (o_in (objs s o) false) true else objs s x.
Proof.
  intros o s x. unfold remove_newly_deleted.
  match goal with |- objs (mod_obj ?s1 o ?g) x = _ => set (S1 := s1) end.
  assert (E : forall y, objs S1 y = if Nat.eqb y o then o_in (objs s o) false else objs s y).
  { intros y. unfold S1. cbn [objs set_sdel]. unfold safe_discard.
    destruct (upd_head_fields s (fun f => f_del f (addm o (fdel f)))) as [X _].
    destruct (Nat.eqb_spec y o).
    - subst. rewrite objs_mod_same. rewrite X. reflexivity.
    - rewrite objs_mod_other by auto. rewrite X. reflexivity. }
  destruct (Nat.eqb_spec x o).
  - subst. rewrite objs_mod_same. rewrite E. rewrite Nat.eqb_refl. reflexivity.
  - rewrite objs_mod_other by auto. rewrite E. destruct (Nat.eqb_spec x o); [contradiction|reflexivity].
Qed.

Lemma rnd_rest : forall o s f0 rest, stack s = f0 :: rest ->
  stack (remove_newly_deleted o s) = f_del f0 (addm o (fdel f0)) :: rest /\
  sdel (remove_newly_deleted o s) = remm o (sdel s) /\ snew (remove_newly_deleted o s) = snew s /\
  nobj (remove_newly_deleted o s) = nobj s /\ work (remove_newly_deleted o s) = work s /\
  committed (remove_newly_deleted o s) = committed s /\ saves (remove_newly_deleted o s) = saves s /\
  nfid (remove_newly_deleted o s) = nfid s /\ eoc (remove_newly_deleted o s) = eoc s /\
  handles (remove_newly_deleted o s) = handles s.
Proof.
  intros o s f0 rest Hs. unfold remove_newly_deleted, safe_discard.
  destruct (upd_head_fields s (fun f => f_del f (addm o (fdel f)))) as [X0 [X1 [X2 [X3 [X4 [X5 [X6 [X7 [X8 [X9 X10]]]]]]]]]].
  cbn. rewrite X1, X2, X3, X4, X5, X6, X7, X8, X9, X10, Hs. repeat split; reflexivity.
Qed.

Lemma filter_remm_cons : forall o l r,
  filter (fun x => negb (mem x l)) (remm o r) = filter (fun x => negb (mem x (o :: l))) r.
Proof.
  intros o l r. unfold remm. induction r as [|a r IH]; [reflexivity|].
  cbn [filter]. assert (E : mem a (o :: l) = Nat.eqb a o || mem a l) by reflexivity. rewrite E.
  destruct (Nat.eqb_spec o a).
  - subst. rewrite Nat.eqb_refl. cbn. exact IH.
  - destruct (Nat.eqb_spec a o); [congruence|]. cbn [negb orb filter].
    destruct (mem a l); cbn; [exact IH|f_equal; exact IH].
Qed.

Lemma rnd_fold : forall l s f0 rest, stack s = f0 :: rest -> NoDup l ->
  let s' := fold_left (fun s o => remove_newly_deleted o s) l s in
  (forall x, objs s' x = if mem x l then o_delf (o_in (objs s x) false) true else objs s x) /\
  stack s' = f_del f0 (fold_left (fun d o => addm o d) l (fdel f0)) :: rest /\
  sdel s' = filter (fun x => negb (mem x l)) (sdel s) /\ snew s' = snew s /\
  nobj s' = nobj s /\ work s' = work s /\ committed s' = committed s /\ saves s' = saves s /\
  nfid s' = nfid s /\ eoc s' = eoc s /\ handles s' = handles s.
Proof.
  induction l as [|o l IH]; intros s f0 rest Hs Hnd; cbn [fold_left].
  - assert (X : forall l0 : list nat, l0 = filter (fun x => negb (mem x [])) l0).
    { induction l0 as [|a r IHr]; cbn; auto. f_equal. exact IHr. }
    repeat split; auto; try apply X. rewrite Hs; destruct f0; reflexivity.
  - inversion Hnd; subst.
    destruct (rnd_rest o s f0 rest Hs) as [A0 [A1 [A2 [A3 [A4 [A5 [A6 [A7 [A8 A9]]]]]]]]].
    destruct (IH (remove_newly_deleted o s) _ rest A0 H2) as [B0 [B1 [B2 [B3 [B4 [B5 [B6 [B7 [B8 [B9 B10]]]]]]]]]].
    split; [|split; [|split; [|repeat split; congruence]]].
    + intros x. rewrite B0, rnd_objs. cbn [mem existsb]. fold (mem x l).
      destruct (Nat.eqb_spec x o); cbn [orb].
      * subst. destruct (mem o l) eqn:E; [apply mem_In in E; contradiction|]. reflexivity.
      * reflexivity.
    + rewrite B1. reflexivity.
    + rewrite B2, A1. apply filter_remm_cons.
Qed.
