(* C33 - a successful flush preserves the invariant (objects, rows, the frame's record). *)
From Coq Require Import List ZArith Bool Arith Lia Permutation.
Import ListNotations.
From SAV.orm Require Import SessTxn SessTxnBase SessTxnSpec SessTxnInv SessTxnOps SessTxnRestore SessTxnStmts.
Open Scope nat_scope.

(* ------------------------------------------------------------------ sorting by key is a permutation *)
Lemma insert_by_perm : forall st o l, Permutation (insert_by st o l) (o :: l).
Proof.
  intros st o l. induction l as [|x r IH]; cbn; auto.
  destruct (Z.leb (keyZ st o) (keyZ st x)); auto.
  eapply perm_trans; [apply perm_skip; exact IH|apply perm_swap].
Qed.
Lemma sort_by_key_perm : forall st l, Permutation (sort_by_key st l) l.
Proof.
  intros st l. unfold sort_by_key. induction l as [|x r IH]; cbn; auto.
  eapply perm_trans; [apply insert_by_perm|apply perm_skip; exact IH].
Qed.
Lemma sort_by_key_in : forall st l x, In x (sort_by_key st l) <-> In x l.
Proof.
  intros. split; intros H.
  - eapply Permutation_in; [apply sort_by_key_perm|exact H].
  - eapply Permutation_in; [apply Permutation_sym; apply sort_by_key_perm|exact H].
Qed.
Lemma sort_by_key_nodup : forall st l, NoDup l -> NoDup (sort_by_key st l).
Proof. intros st l H. eapply Permutation_NoDup; [apply Permutation_sym; apply sort_by_key_perm|exact H]. Qed.

(* the statement list of one flush is well-formed *)
Lemma NoDup_map_inj : forall {A B} (h : A -> B) l, (forall x y, h x = h y -> x = y) -> NoDup l -> NoDup (map h l).
Proof.
  intros A B h l Hh. induction l as [|a l IH]; intros H; cbn; constructor.
  - inversion H; subst. intros X. apply in_map_iff in X. destruct X as [y [E Hy]]. apply Hh in E. subst. contradiction.
  - inversion H; auto.
Qed.
Lemma stmts_of_wf : forall st new dirty deleted, NoDup new -> NoDup dirty -> NoDup deleted ->
  (forall x, In x dirty -> ~ In x deleted) -> WfL (stmts_of st new dirty deleted).
Proof.
  intros st new dirty deleted N1 N2 N3 Hd. unfold stmts_of, WfL. split.
  - assert (A1 : NoDup (map SUpd (sort_by_key st dirty))).
    { apply NoDup_map_inj; [intros x y E; congruence|apply sort_by_key_nodup; auto]. }
    assert (A2 : NoDup (map SIns new)). { apply NoDup_map_inj; [intros x y E; congruence|auto]. }
    assert (A3 : NoDup (map SDel (sort_by_key st deleted))).
    { apply NoDup_map_inj; [intros x y E; congruence|apply sort_by_key_nodup; auto]. }
    assert (A23 : NoDup (map SIns new ++ map SDel (sort_by_key st deleted))).
    { clear A1. clear N1. induction new as [|a r IH]; cbn; auto. inversion A2; subst. constructor.
      - intros X. apply in_app_or in X. destruct X as [X|X]; [contradiction|].
        apply in_map_iff in X. destruct X as [y [E _]]. discriminate.
      - apply IH. auto. }
    clear A2 A3. induction (sort_by_key st dirty) as [|a r IH]; cbn; auto.
    inversion A1; subst. constructor.
    + intros X. apply in_app_or in X. destruct X as [X|X]; [contradiction|].
      apply in_app_or in X. destruct X as [X|X]; apply in_map_iff in X; destruct X as [y [E _]]; discriminate.
    + apply IH. auto.
  - intros o Hu Hdel.
    apply in_app_or in Hu. destruct Hu as [Hu|Hu].
    2:{ apply in_app_or in Hu. destruct Hu as [Hu|Hu]; apply in_map_iff in Hu; destruct Hu as [y [E _]]; discriminate. }
    apply in_map_iff in Hu. destruct Hu as [y [E Hy]]. inversion E; subst y.
    apply in_app_or in Hdel. destruct Hdel as [X|X]; [apply in_map_iff in X; destruct X as [y [E' _]]; discriminate|].
    apply in_app_or in X. destruct X as [X|X]; apply in_map_iff in X; destruct X as [y [E' Hy']]; [discriminate|].
    inversion E'; subst y. apply sort_by_key_in in Hy. apply sort_by_key_in in Hy'. eapply Hd; eauto.
Qed.
Lemma stmts_of_in : forall st new dirty deleted o,
  (In (SUpd o) (stmts_of st new dirty deleted) <-> In o dirty) /\
  (In (SIns o) (stmts_of st new dirty deleted) <-> In o new) /\
  (In (SDel o) (stmts_of st new dirty deleted) <-> In o deleted).
Proof.
  intros. unfold stmts_of. repeat split; intros H.
  - apply in_app_or in H. destruct H as [H|H].
    + apply in_map_iff in H. destruct H as [y [E Hy]]. inversion E; subst. apply sort_by_key_in in Hy. auto.
    + apply in_app_or in H. destruct H as [H|H]; apply in_map_iff in H; destruct H as [y [E _]]; discriminate.
  - apply in_or_app. left. apply in_map. apply sort_by_key_in. auto.
  - apply in_app_or in H. destruct H as [H|H]; [apply in_map_iff in H; destruct H as [y [E _]]; discriminate|].
    apply in_app_or in H. destruct H as [H|H]; apply in_map_iff in H; destruct H as [y [E Hy]]; [|discriminate].
    inversion E; subst. auto.
  - apply in_or_app. right. apply in_or_app. left. apply in_map. auto.
  - apply in_app_or in H. destruct H as [H|H]; [apply in_map_iff in H; destruct H as [y [E _]]; discriminate|].
    apply in_app_or in H. destruct H as [H|H]; apply in_map_iff in H; destruct H as [y [E Hy]]; [discriminate|].
    inversion E; subst. apply sort_by_key_in in Hy. auto.
  - apply in_or_app. right. apply in_or_app. right. apply in_map. apply sort_by_key_in. auto.
Qed.

Lemma im_lookup_some : forall st k o, im_lookup st k = Some o ->
  o < nobj st /\ oin (objs st o) = true /\ okey (objs st o) = Some k.
Proof.
  intros st k o H. unfold im_lookup in H. apply find_some in H. destruct H as [H1 H2].
  apply in_seq in H1. apply andb_prop in H2. destruct H2 as [H2 H3].
  unfold key_is in H3. destruct (okey (objs st o)) as [k'|]; [|discriminate].
  apply Z.eqb_eq in H3. subst. repeat split; auto. lia.
Qed.

Section Flush.
  Variables (s0 : sess) (g : ghost) (f : frame).
  Hypothesis GC : GClean g.
  Let n := nobj s0.
  Let W0 := work s0.
  Let new := snew s0.
  Let deleted := sdel s0.
  Variable dirty : list nat.
  Hypothesis G0 : Good (objs s0) n W0 new deleted.
  Hypothesis J0 : J (objs s0) n.
  Hypothesis R0 : Rel g f (objs s0) n new deleted W0.
  Hypothesis Hdirty : forall x, In x dirty <-> (x < n /\ oin (objs s0 x) = true /\ omod (objs s0 x) = true /\ ~ In x deleted).
  Hypothesis Hdnd : NoDup dirty.

  Lemma sigl0 : SigL s0 g f s0.
  Proof. constructor; auto. apply sbo_refl. intros; apply obj_le_refl. Qed.

  (* the organize phase only loads *)
  Lemma organize_ok : forall l s r s', SigL s0 g f s -> work s = W0 ->
    foldM (organize_pending deleted) l s = (r, s') -> r <> Unmodelled ->
    r = Ok /\ SigL s0 g f s' /\ work s' = W0.
  Proof.
    induction l as [|o l IH]; intros s r s' L Hw H Hr.
    - inversion H; subst. auto.
    - cbn [foldM] in H. apply bind_inv in H.
      assert (Step : forall ra sa, organize_pending deleted o s = (ra, sa) -> ra <> Unmodelled ->
                ra = Ok /\ SigL s0 g f sa /\ work sa = W0).
      { intros ra sa Ha Hra. unfold organize_pending in Ha.
        destruct (odid (objs s o)) as [pk|]; [|inversion Ha; subst; congruence].
        destruct (im_lookup s pk) as [ex|] eqn:El; [|inversion Ha; subst; auto].
        destruct (im_lookup_some _ _ _ El) as [A [B C]].
        destruct (g_rows _ _ _ _ _ (sl_good _ _ _ _ L) ex pk B C) as [v [Hv _]].
        destruct (oexp (objs s ex)).
        - destruct (load_step s0 g f GC s ex pk v L B C) as [s1 [E1 [E2 [E3 [E4 E5]]]]]; [rewrite Hw; exact Hv|exact Hv|].
          rewrite E1 in Ha. destruct (mem ex deleted); inversion Ha; subst; [congruence|].
          split; [reflexivity|]. split; [exact E5|]. rewrite E3. exact Hw.
        - destruct (mem ex deleted); inversion Ha; subst; [congruence|auto]. }
      destruct H as [[s1 [H1 H2]]|[H1 Hn]].
      + destruct (Step Ok s1 H1) as [_ [A B]]; [discriminate|]. eapply IH; eauto.
      + destruct (Step r s' H1 Hr) as [A _]. congruence.
  Qed.

  Definition rho0 (s : sess) (x : nat) : option Z := if oin (objs s x) then okey (objs s x) else None.
  Definition rv0 (s : sess) (x : nat) : Z :=
    match okey (objs s x) with Some k => match W0 k with Some v => v | None => 0%Z end | None => 0%Z end.

  Lemma sig_init : forall s, SigL s0 g f s -> work s = W0 ->
    Sig s0 g f (stmts_of s new dirty deleted) s (rho0 s) (rv0 s).
  Proof.
    intros s L Hw. pose proof (sl_good _ _ _ _ L) as G. pose proof (sl_j _ _ _ _ L) as Jh.
    assert (Hle := sl_le _ _ _ _ L).
    assert (Hrv : forall x k v, okey (objs s x) = Some k -> W0 k = Some v -> rv0 s x = v).
    { intros x k v Hk Hv. unfold rv0. rewrite Hk, Hv. reflexivity. }
    assert (Hrho : forall x p, rho0 s x = Some p -> oin (objs s x) = true /\ okey (objs s x) = Some p).
    { intros x p H. unfold rho0 in H. destruct (oin (objs s x)); [auto|discriminate]. }
    constructor; auto.
    - intros x p H. destruct (Hrho x p H) as [A B].
      destruct (g_rows _ _ _ _ _ G x p A B) as [v [Hv _]]. rewrite Hw. rewrite (Hrv x p v B Hv). exact Hv.
    - intros x y p Hx Hy. destruct (Hrho x p Hx) as [A B]. destruct (Hrho y p Hy) as [C D].
      eapply (g_uniq _ _ _ _ _ G); eauto.
    - intros p Hp.
      destruct (find (fun x => oin (objs s x) && key_is p (objs s x)) (seq 0 n)) as [x|] eqn:Ef.
      + left. apply find_some in Ef. destruct Ef as [_ Ef]. apply andb_prop in Ef. destruct Ef as [E1 E2].
        exists x. unfold rho0. rewrite E1. unfold key_is in E2. destruct (okey (objs s x)) as [k|]; [|discriminate].
        apply Z.eqb_eq in E2. congruence.
      + right. split; [rewrite Hw; reflexivity|]. intros x Hx Hk.
        destruct (Hle x) as [Q1 [_ [_ [Q4 _]]]].
        assert (Hx' : oin (objs s x) = true) by congruence.
        destruct (g_in _ _ _ _ _ G x Hx') as [Hn _].
        eapply find_none with (x := x) in Ef; [|apply in_seq; lia].
        rewrite Hx' in Ef. unfold key_is in Ef. rewrite Q1, Hk in Ef. rewrite Z.eqb_refl in Ef. discriminate.
    - intros o Ho.
      assert (Hin : oin (objs s o) = true).
      { destruct (Hle o) as [_ [_ [_ [Q4 _]]]]. rewrite Q4.
        destruct (stmts_of_in s new dirty deleted o) as [S1 [_ S3]].
        destruct Ho as [Ho|Ho].
        - apply S1 in Ho. apply Hdirty in Ho. tauto.
        - apply S3 in Ho. apply (g_del _ _ _ _ _ G0). exact Ho. }
      split; auto. destruct (g_in _ _ _ _ _ G o Hin) as [_ [_ [_ Hk]]].
      destruct (okey (objs s o)) as [k|] eqn:Ek; [|congruence]. exists k.
      destruct (g_rows _ _ _ _ _ G o k Hin Ek) as [v [Hv _]].
      repeat split; auto.
      + unfold rho0. rewrite Hin. exact Ek.
      + rewrite (Hrv o k v Ek Hv). exact Hv.
    - intros o Ho. destruct (stmts_of_in s new dirty deleted o) as [_ [S2 _]]. apply S2 in Ho.
      split; auto. unfold rho0.
      apply (g_new _ _ _ _ _ G) in Ho. destruct Ho as [_ [Hk _]].
      destruct (oin (objs s o)) eqn:E; auto.
    - intros x p H. destruct (Hrho x p H) as [A B].
      destruct (g_in _ _ _ _ _ G x A) as [Hn _].
      destruct (stmts_of_in s new dirty deleted x) as [S1 [_ S3]].
      destruct (omod (objs s x)) eqn:Em.
      + destruct (mem x deleted) eqn:Ed.
        * right; left. apply S3. apply mem_In. exact Ed.
        * left. apply S1. apply Hdirty. destruct (Hle x) as [_ [_ [_ [Q4 [Q5 _]]]]].
          split; [exact Hn|]. split; [congruence|]. split; [congruence|].
          intros X. apply mem_In in X. congruence.
      + right; right. destruct (g_rows _ _ _ _ _ G x p A B) as [v [Hv [V1 [_ [V3 _]]]]].
        destruct (Jh x Hn) as [_ [_ J3]]. destruct (J3 Em) as [C1 C2].
        rewrite (Hrv x p v B Hv). auto.
    - intros x H. destruct (rho0 s x) as [p|] eqn:E; [|congruence]. destruct (Hrho x p E) as [A B].
      destruct (g_in _ _ _ _ _ G x A) as [Hn _]. auto.
  Qed.
End Flush.

(* ------------------------------------------------------------------ finalize_flush_changes *)
(* a fold whose step changes one object by a function of that object alone *)
Lemma fold_objs_pointwise : forall (step : nat -> sess -> sess) (F : nat -> obj -> obj),
  (forall o s x, x <> o -> objs (step o s) x = objs s x) ->
  (forall o s, objs (step o s) o = F o (objs s o)) ->
  forall l s, NoDup l ->
  forall x, objs (fold_left (fun s o => step o s) l s) x = if mem x l then F x (objs s x) else objs s x.
Proof.
  intros step F H1 H2. induction l as [|o l IH]; intros s Hnd x; cbn [fold_left]; auto.
  inversion Hnd; subst. rewrite IH by auto. cbn [mem existsb]. fold (mem x l).
  destruct (Nat.eqb_spec x o).
  - subst. cbn. destruct (mem o l) eqn:E; [apply mem_In in E; contradiction|]. apply H2.
  - cbn. rewrite H1 by auto. reflexivity.
Qed.

Lemma rnd_objs : forall o s x, objs (remove_newly_deleted o s) x =
  if Nat.eqb x o then o_delf (o_in (objs s o) false) true else objs s x.
Proof.
  intros o s x. unfold remove_newly_deleted.
  match goal with |- objs (mod_obj ?s1 o ?g) x = _ => set (S1 := s1) end.
  assert (E : forall y, objs S1 y = if Nat.eqb y o then o_in (objs s o) false else objs s y).
  { intros y. unfold S1. cbn [objs set_sdel]. unfold safe_discard.
    destruct (upd_head_fields s (fun f => f_del f (addm o (fdel f)))) as [X _].
    destruct (Nat.eqb_spec y o).
    - subst. rewrite objs_mod_same. rewrite X. reflexivity.
    - rewrite objs_mod_other by auto. rewrite X. reflexivity. }
  destruct (Nat.eqb_spec x o).
  - subst. rewrite objs_mod_same. rewrite E. rewrite Nat.eqb_refl. reflexivity.
  - rewrite objs_mod_other by auto. rewrite E. destruct (Nat.eqb_spec x o); [contradiction|reflexivity].
Qed.

Lemma rnd_rest : forall o s f0 rest, stack s = f0 :: rest ->
  stack (remove_newly_deleted o s) = f_del f0 (addm o (fdel f0)) :: rest /\
  sdel (remove_newly_deleted o s) = remm o (sdel s) /\ snew (remove_newly_deleted o s) = snew s /\
  nobj (remove_newly_deleted o s) = nobj s /\ work (remove_newly_deleted o s) = work s /\
  committed (remove_newly_deleted o s) = committed s /\ saves (remove_newly_deleted o s) = saves s /\
  nfid (remove_newly_deleted o s) = nfid s /\ eoc (remove_newly_deleted o s) = eoc s /\
  handles (remove_newly_deleted o s) = handles s.
Proof.
  intros o s f0 rest Hs. unfold remove_newly_deleted, safe_discard.
  destruct (upd_head_fields s (fun f => f_del f (addm o (fdel f)))) as [X0 [X1 [X2 [X3 [X4 [X5 [X6 [X7 [X8 [X9 X10]]]]]]]]]].
  cbn. rewrite X1, X2, X3, X4, X5, X6, X7, X8, X9, X10, Hs. repeat split; reflexivity.
Qed.

Lemma filter_remm_cons : forall o l r,
  filter (fun x => negb (mem x l)) (remm o r) = filter (fun x => negb (mem x (o :: l))) r.
Proof.
  intros o l r. unfold remm. induction r as [|a r IH]; [reflexivity|].
  cbn [filter]. assert (E : mem a (o :: l) = Nat.eqb a o || mem a l) by reflexivity. rewrite E.
  destruct (Nat.eqb_spec o a).
  - subst. rewrite Nat.eqb_refl. cbn. exact IH.
  - destruct (Nat.eqb_spec a o); [congruence|]. cbn [negb orb filter].
    destruct (mem a l); cbn; [exact IH|f_equal; exact IH].
Qed.

Lemma rnd_fold : forall l s f0 rest, stack s = f0 :: rest -> NoDup l ->
  let s' := fold_left (fun s o => remove_newly_deleted o s) l s in
  (forall x, objs s' x = if mem x l then o_delf (o_in (objs s x) false) true else objs s x) /\
  stack s' = f_del f0 (fold_left (fun d o => addm o d) l (fdel f0)) :: rest /\
  sdel s' = filter (fun x => negb (mem x l)) (sdel s) /\ snew s' = snew s /\
  nobj s' = nobj s /\ work s' = work s /\ committed s' = committed s /\ saves s' = saves s /\
  nfid s' = nfid s /\ eoc s' = eoc s /\ handles s' = handles s.
Proof.
  induction l as [|o l IH]; intros s f0 rest Hs Hnd; cbn [fold_left].
  - assert (X : forall l0 : list nat, l0 = filter (fun x => negb (mem x [])) l0).
    { induction l0 as [|a r IHr]; cbn; auto. f_equal. exact IHr. }
    repeat split; auto; try apply X. rewrite Hs; destruct f0; reflexivity.
  - inversion Hnd; subst.
    destruct (rnd_rest o s f0 rest Hs) as [A0 [A1 [A2 [A3 [A4 [A5 [A6 [A7 [A8 A9]]]]]]]]].
    destruct (IH (remove_newly_deleted o s) _ rest A0 H2) as [B0 [B1 [B2 [B3 [B4 [B5 [B6 [B7 [B8 [B9 B10]]]]]]]]]].
    split; [|split; [|split; [|repeat split; congruence]]].
    + intros x. rewrite B0, rnd_objs. cbn [mem existsb]. fold (mem x l).
      destruct (Nat.eqb_spec x o); cbn [orb].
      * subst. destruct (mem o l) eqn:E; [apply mem_In in E; contradiction|]. reflexivity.
      * reflexivity.
    + rewrite B1. reflexivity.
    + rewrite B2, A1. apply filter_remm_cons.
Qed.

(* ---- _register_persistent: on the objects it is the re-keying loop of _restore_snapshot *)
Lemma find_ext : forall {A} (p q : A -> bool) l, (forall x, In x l -> p x = q x) -> find p l = find q l.
Proof.
  intros A p q l H. induction l as [|a l IH]; cbn; auto.
  rewrite (H a) by (left; auto). destruct (q a); auto. apply IH. intros; apply H; right; auto.
Qed.
Lemma im_other_ext : forall s t o, (forall x, objs s x = objs t x) -> nobj s = nobj t -> im_other s o = im_other t o.
Proof.
  intros s t o H Hn. unfold im_other, all_objs. rewrite H, Hn. destruct (okey (objs t o)); auto.
  apply find_ext. intros x _. rewrite H. reflexivity.
Qed.
Lemma im_replace_objs : forall s o x, objs (im_replace o s) x =
  if Nat.eqb x o then o_in (objs s o) true
  else match im_other s o with
       | Some o' => if Nat.eqb x o' then o_in (objs s o') false else objs s x
       | None => objs s x
       end.
Proof.
  intros s o x. unfold im_replace. destruct (im_other s o) as [o'|] eqn:E.
  - destruct (im_other_some _ _ _ E) as [_ [Hne _]].
    destruct (Nat.eqb_spec x o).
    + subst. rewrite objs_mod_same. rewrite objs_mod_other by auto. reflexivity.
    + rewrite objs_mod_other by auto. destruct (Nat.eqb_spec x o').
      * subst. rewrite objs_mod_same. reflexivity.
      * rewrite objs_mod_other by auto. reflexivity.
  - destruct (Nat.eqb_spec x o).
    + subst. rewrite objs_mod_same. reflexivity.
    + rewrite objs_mod_other by auto. reflexivity.
Qed.
Lemma im_replace_ext : forall s t o, (forall x, objs s x = objs t x) -> nobj s = nobj t ->
  forall x, objs (im_replace o s) x = objs (im_replace o t) x.
Proof.
  intros s t o H Hn x. rewrite !im_replace_objs. rewrite (im_other_ext s t o H Hn). rewrite !H.
  destruct (im_other t o); rewrite ?H; reflexivity.
Qed.

Lemma im_replace_fields : forall o s,
  nobj (im_replace o s) = nobj s /\ snew (im_replace o s) = snew s /\ sdel (im_replace o s) = sdel s /\
  work (im_replace o s) = work s /\ committed (im_replace o s) = committed s /\ saves (im_replace o s) = saves s /\
  nfid (im_replace o s) = nfid s /\ eoc (im_replace o s) = eoc s /\ handles (im_replace o s) = handles s /\
  stack (im_replace o s) = stack s.
Proof. intros o s. unfold im_replace. destruct (im_other s o); repeat split; reflexivity. Qed.

Lemma obj_key_eta : forall ob k, okey ob = Some k -> o_key ob (Some k) = ob.
Proof. intros [a b c d e f0 g0 h i j] k H. cbn in *. subst. reflexivity. Qed.

Lemma im_other_ext' : forall s t o, (forall x, x <> o -> objs s x = objs t x) ->
  okey (objs s o) = okey (objs t o) -> nobj s = nobj t -> im_other s o = im_other t o.
Proof.
  intros s t o H Hk Hn. unfold im_other, all_objs. rewrite Hk, Hn. destruct (okey (objs t o)); auto.
  apply find_ext. intros x _. destruct (Nat.eqb_spec x o); [reflexivity|]. rewrite H by auto. reflexivity.
Qed.
Lemma im_replace_ext' : forall s t o, (forall x, x <> o -> objs s x = objs t x) ->
  okey (objs s o) = okey (objs t o) -> o_in (objs s o) true = o_in (objs t o) true -> nobj s = nobj t ->
  forall x, objs (im_replace o s) x = objs (im_replace o t) x.
Proof.
  intros s t o H Hk Ho Hn x. rewrite !im_replace_objs. rewrite (im_other_ext' s t o H Hk Hn).
  destruct (Nat.eqb_spec x o); [exact Ho|].
  destruct (im_other t o) as [o'|] eqn:E; [|apply H; auto].
  destruct (im_other_some _ _ _ E) as [_ [Hne _]].
  destruct (Nat.eqb_spec x o'); [subst; rewrite H by auto; reflexivity|apply H; auto].
Qed.

Lemma register_sim : forall o s t ik ks, (forall x, objs s x = objs t x) -> nobj s = nobj t ->
  odid (objs s o) = Some ik -> ks_find o ks = Some (ik, ik) ->
  exists s', register_one o s = (Ok, s') /\
    (forall x, objs s' x = objs (restore_ks_one [] ks o t) x) /\
    nobj s' = nobj s /\ snew s' = snew s /\ sdel s' = sdel s /\ work s' = work s /\ committed s' = committed s /\
    saves s' = saves s /\ nfid s' = nfid s /\ eoc s' = eoc s /\ handles s' = handles s /\
    stack s' = match stack s with
               | [] => []
               | f0 :: r =>
                   match okey (objs s o) with
                   | Some k => if Z.eqb k ik then f0 :: r
                               else f_ks f0 (ks_set o (match ks_find o (fks f0) with Some (old, _) => old | None => k end, ik) (fks f0)) :: r
                   | None => f0 :: r
                   end
               end.
Proof.
  intros o s t ik ks H Hn Hd Hk. unfold register_one. rewrite Hd. unfold restore_ks_one. rewrite Hk. cbn [mem existsb].
  set (t2 := mod_obj (safe_discard o t) o (fun ob => o_key ob (Some ik))).
  assert (T2o : objs t2 o = o_key (o_in (objs t o) false) (Some ik)).
  { unfold t2. rewrite objs_mod_same. unfold safe_discard. rewrite objs_mod_same. reflexivity. }
  assert (T2x : forall y, y <> o -> objs t2 y = objs t y).
  { intros y Hy. unfold t2. rewrite objs_mod_other by auto. unfold safe_discard. rewrite objs_mod_other; auto. }
  assert (T2n : nobj t2 = nobj t) by reflexivity.
  destruct (okey (objs s o)) as [k|] eqn:Ek.
  - destruct (Z.eqb_spec k ik).
    + subst k. eexists. split; [reflexivity|].
      split; [|destruct (im_replace_fields o s) as [F1 [F2 [F3 [F4 [F5 [F6 [F7 [F8 [F9 F10]]]]]]]]];
               rewrite F1, F2, F3, F4, F5, F6, F7, F8, F9, F10; destruct (stack s); repeat split; reflexivity].
      apply im_replace_ext'.
      * intros y Hy. rewrite T2x by auto. apply H.
      * rewrite T2o. cbn. exact Ek.
      * rewrite T2o. rewrite <- H. rewrite <- (obj_key_eta (objs s o) ik Ek) at 1. reflexivity.
      * congruence.
    + set (h := fun f0 : frame => f_ks f0 (ks_set o (match ks_find o (fks f0) with Some (old, _) => old | None => k end, ik) (fks f0))).
      destruct (upd_head_fields (safe_discard o s) h) as [X0 [X1 [X2 [X3 [X4 [X5 [X6 [X7 [X8 [X9 X10]]]]]]]]]].
      set (s2 := mod_obj (upd_head (safe_discard o s) h) o (fun ob => o_key ob (Some ik))).
      eexists. split; [reflexivity|]. fold h. fold s2.
      assert (S2o : objs s2 o = o_key (o_in (objs s o) false) (Some ik)).
      { unfold s2. rewrite objs_mod_same. rewrite X0. unfold safe_discard. rewrite objs_mod_same. reflexivity. }
      assert (S2x : forall y, y <> o -> objs s2 y = objs s y).
      { intros y Hy. unfold s2. rewrite objs_mod_other by auto. rewrite X0. unfold safe_discard. rewrite objs_mod_other; auto. }
      split.
      * apply im_replace_ext'.
        -- intros y Hy. rewrite S2x, T2x by auto. apply H.
        -- rewrite S2o, T2o. reflexivity.
        -- rewrite S2o, T2o, H. reflexivity.
        -- unfold s2. cbn. rewrite X1. cbn. exact Hn.
      * destruct (im_replace_fields o s2) as [F1 [F2 [F3 [F4 [F5 [F6 [F7 [F8 [F9 F10]]]]]]]]].
        rewrite F1, F2, F3, F4, F5, F6, F7, F8, F9, F10. unfold s2. cbn.
        rewrite X1, X2, X3, X4, X5, X6, X7, X8, X9, X10. cbn. destruct (stack s); repeat split; reflexivity.
  - eexists. split; [reflexivity|].
    set (s2 := mod_obj s o (fun ob => o_key ob (Some ik))).
    split.
    + apply im_replace_ext'.
      * intros y Hy. unfold s2. rewrite objs_mod_other by auto. rewrite T2x by auto. apply H.
      * unfold s2. rewrite objs_mod_same, T2o. reflexivity.
      * unfold s2. rewrite objs_mod_same, T2o, H. reflexivity.
      * unfold s2. cbn. exact Hn.
    + destruct (im_replace_fields o s2) as [F1 [F2 [F3 [F4 [F5 [F6 [F7 [F8 [F9 F10]]]]]]]]].
      rewrite F1, F2, F3, F4, F5, F6, F7, F8, F9, F10. unfold s2. cbn. destruct (stack s); repeat split; reflexivity.
Qed.

(* register_one / restore_ks_one leave primary-key values and other objects' keys alone *)
Lemma restore_ks_one_keeps : forall E ks o s x,
  odid (objs (restore_ks_one E ks o s) x) = odid (objs s x) /\
  (x <> o -> okey (objs (restore_ks_one E ks o s) x) = okey (objs s x)).
Proof.
  intros E ks o s x. unfold restore_ks_one. destruct (ks_find o ks) as [[old nw]|]; [|auto].
  set (s2 := mod_obj (safe_discard o s) o (fun ob => o_key ob (Some old))).
  assert (A : odid (objs s2 x) = odid (objs s x) /\ (x <> o -> okey (objs s2 x) = okey (objs s x))).
  { unfold s2. destruct (Nat.eqb_spec x o).
    - subst. rewrite objs_mod_same. unfold safe_discard. rewrite objs_mod_same. split; [reflexivity|congruence].
    - rewrite objs_mod_other by auto. unfold safe_discard. rewrite objs_mod_other by auto. auto. }
  destruct (mem o E); [auto|].
  rewrite im_replace_objs. destruct A as [A1 A2].
  destruct (Nat.eqb_spec x o).
  - subst. cbn. split; [exact A1|congruence].
  - destruct (im_other s2 o) as [o'|]; [|auto].
    destruct (Nat.eqb_spec x o'); [subst; cbn; auto|auto].
Qed.

(* the key-switch record _register_persistent leaves in the frame *)
Definition ks_after (key0 : nat -> option Z) (ikof : nat -> Z) (l : list nat) (fk : list (nat * (Z * Z))) :=
  fold_left (fun fk o =>
    match key0 o with
    | Some k => if Z.eqb k (ikof o) then fk
                else ks_set o (match ks_find o fk with Some (old, _) => old | None => k end, ikof o) fk
    | None => fk
    end) l fk.

Lemma register_fold : forall ks (ikof : nat -> Z) l s t f0 rest,
  (forall x, objs s x = objs t x) -> nobj s = nobj t -> stack s = f0 :: rest -> NoDup l ->
  (forall o, In o l -> odid (objs s o) = Some (ikof o) /\ ks_find o ks = Some (ikof o, ikof o)) ->
  exists s', foldM register_one l s = (Ok, s') /\
    (forall x, objs s' x = objs (fold_left (fun s o => restore_ks_one [] ks o s) l t) x) /\
    nobj s' = nobj s /\ snew s' = snew s /\ sdel s' = sdel s /\ work s' = work s /\ committed s' = committed s /\
    saves s' = saves s /\ nfid s' = nfid s /\ eoc s' = eoc s /\ handles s' = handles s /\
    stack s' = f_ks f0 (ks_after (fun o => okey (objs s o)) ikof l (fks f0)) :: rest.
Proof.
  intros ks ikof. induction l as [|o l IH]; intros s t f0 rest H Hn Hs Hnd Hl.
  - exists s. cbn. repeat split; auto. rewrite Hs. destruct f0; reflexivity.
  - inversion Hnd; subst. destruct (Hl o (or_introl eq_refl)) as [Hd Hk].
    destruct (register_sim o s t (ikof o) ks H Hn Hd Hk) as [s1 [E1 [O1 [N1 [A1 [A2 [A3 [A4 [A5 [A6 [A7 [A8 A9]]]]]]]]]]]].
    rewrite Hs in A9.
    set (f1 := match okey (objs s o) with
               | Some k => if Z.eqb k (ikof o) then f0
                           else f_ks f0 (ks_set o (match ks_find o (fks f0) with Some (old, _) => old | None => k end, ikof o) (fks f0))
               | None => f0 end).
    assert (S1 : stack s1 = f1 :: rest).
    { rewrite A9. unfold f1. destruct (okey (objs s o)); [destruct (Z.eqb _ _)|]; reflexivity. }
    assert (Keep : forall x, odid (objs s1 x) = odid (objs s x) /\ (x <> o -> okey (objs s1 x) = okey (objs s x))).
    { intros x. rewrite O1. destruct (restore_ks_one_keeps [] ks o t x) as [B1 B2]. rewrite B1. rewrite H. split; auto. }
    destruct (IH s1 (restore_ks_one [] ks o t) f1 rest O1) as [s' [E' [O' [N' [B1 [B2 [B3 [B4 [B5 [B6 [B7 [B8 B9]]]]]]]]]]]].
    + rewrite N1. destruct (restore_ks_one [] ks o t) eqn:E. 
      unfold restore_ks_one in E. rewrite Hk in E. cbn [mem existsb] in E.
      destruct (im_replace_fields o (mod_obj (safe_discard o t) o (fun ob => o_key ob (Some (ikof o))))) as [F1 _].
      rewrite E in F1. cbn in F1. cbn. congruence.
    + exact S1.
    + exact H3.
    + intros x Hx. destruct (Keep x) as [K1 _]. rewrite K1. apply Hl. right; auto.
    + exists s'. cbn [foldM]. rewrite (bind_ok _ _ _ _ E1). split; [exact E'|].
      split; [exact O'|]. repeat split; try congruence.
      rewrite B9. unfold ks_after. cbn [fold_left].
      assert (X : fks f1 = match okey (objs s o) with
                  | Some k => if Z.eqb k (ikof o) then fks f0
                              else ks_set o (match ks_find o (fks f0) with Some (old, _) => old | None => k end, ikof o) (fks f0)
                  | None => fks f0 end).
      { unfold f1. destruct (okey (objs s o)); [destruct (Z.eqb _ _)|]; reflexivity. }
      rewrite X.
      assert (Y : f_ks f1 = f_ks f0). { unfold f1. destruct (okey (objs s o)); [destruct (Z.eqb _ _)|]; reflexivity. }
      rewrite Y. f_equal. f_equal.
      (* the keys of the remaining objects are still the original ones *)
      clear - Keep H2. revert H2. generalize (match okey (objs s o) with
                  | Some k => if Z.eqb k (ikof o) then fks f0
                              else ks_set o (match ks_find o (fks f0) with Some (old, _) => old | None => k end, ikof o) (fks f0)
                  | None => fks f0 end).
      induction l as [|a l IHl]; intros fk Hni; cbn; auto.
      destruct (Keep a) as [_ K2]. rewrite K2 by (intros X; subst; apply Hni; left; auto).
      apply IHl. intros X; apply Hni; right; auto.
Qed.

Lemma fold_ks_filter : forall E ks (P : nat -> bool) l s,
  (forall x, In x l -> P x = false -> ks_find x ks = None) ->
  fold_left (fun s o => restore_ks_one E ks o s) l s =
  fold_left (fun s o => restore_ks_one E ks o s) (filter P l) s.
Proof.
  intros E ks P. induction l as [|a l IH]; intros s H; cbn; auto.
  destruct (P a) eqn:Ea; cbn.
  - apply IH. intros; apply H; auto. right; auto.
  - unfold restore_ks_one at 2. rewrite (H a) by (auto; left; auto). apply IH. intros; apply H; auto. right; auto.
Qed.

Lemma ks_find_map : forall (h : nat -> Z * Z) l o,
  ks_find o (map (fun x => (x, h x)) l) = if mem o l then Some (h o) else None.
Proof.
  intros h l o. induction l as [|a l IH]; cbn; auto.
  rewrite (Nat.eqb_sym o a). destruct (Nat.eqb_spec a o); [subst; reflexivity|]. exact IH.
Qed.

(* commit_one on the frame *)
Lemma commit_one_objs : forall o s x, objs (commit_one o s) x = if Nat.eqb x o then commit_obj (objs s o) else objs s x.
Proof.
  intros o s x. unfold commit_one.
  set (s1 := mod_obj s o commit_obj).
  assert (E : objs s1 x = if Nat.eqb x o then commit_obj (objs s o) else objs s x).
  { unfold s1. destruct (Nat.eqb_spec x o); [subst; apply objs_mod_same|apply objs_mod_other; auto]. }
  destruct (mem o (snew s1));
    match goal with |- objs (upd_head ?S ?h) x = _ => destruct (upd_head_fields S h) as [X _]; rewrite X end; exact E.
Qed.
Lemma commit_fold_rest : forall l s f0 rest, stack s = f0 :: rest ->
  let s' := fold_left (fun s o => commit_one o s) l s in
  exists fn fd, stack s' = f_dirty (f_new f0 fn) fd :: rest /\
    (forall x, mem x fn = mem x (fnew f0) || (mem x l && mem x (snew s))) /\
    (forall x, mem x fd = mem x (fdirty f0) || (mem x l && negb (mem x (snew s)))) /\
    snew s' = snew s /\ sdel s' = sdel s /\ nobj s' = nobj s /\ work s' = work s /\ committed s' = committed s /\
    saves s' = saves s /\ nfid s' = nfid s /\ eoc s' = eoc s /\ handles s' = handles s.
Proof.
  induction l as [|o l IH]; intros s f0 rest Hs; cbn [fold_left].
  - exists (fnew f0), (fdirty f0). rewrite Hs. split; [destruct f0; reflexivity|].
    split; [intros; cbn; rewrite orb_false_r; reflexivity|].
    split; [intros; cbn; rewrite orb_false_r; reflexivity|]. repeat split; reflexivity.
  - set (s1 := commit_one o s).
    assert (A : exists f1, stack s1 = f1 :: rest /\ fdel f1 = fdel f0 /\ fks f1 = fks f0 /\ fid f1 = fid f0 /\
                  fnested f1 = fnested f0 /\ fstate f1 = fstate f0 /\ frbexc f1 = frbexc f0 /\ fconn f1 = fconn f0 /\
                  (forall x, mem x (fnew f1) = mem x (fnew f0) || (Nat.eqb x o && mem o (snew s))) /\
                  (forall x, mem x (fdirty f1) = mem x (fdirty f0) || (Nat.eqb x o && negb (mem o (snew s)))) /\
                  snew s1 = snew s /\ sdel s1 = sdel s /\ nobj s1 = nobj s /\ work s1 = work s /\ committed s1 = committed s /\
                  saves s1 = saves s /\ nfid s1 = nfid s /\ eoc s1 = eoc s /\ handles s1 = handles s).
    { unfold s1, commit_one. cbn [snew mod_obj set_obj set_objs].
      destruct (mem o (snew s)) eqn:Em.
      - match goal with |- exists f1, stack (upd_head ?S ?h) = _ /\ _ =>
          destruct (upd_head_fields S h) as [X0 [X1 [X2 [X3 [X4 [X5 [X6 [X7 [X8 [X9 X10]]]]]]]]]] end.
        cbn in X10. rewrite Hs in X10. eexists. split; [exact X10|]. cbn -[mem].
        rewrite X1, X2, X3, X4, X5, X6, X7, X8, X9. cbn -[mem].
        repeat split; auto.
        + intros x. rewrite mem_addm. rewrite andb_true_r. apply orb_comm.
        + intros x. rewrite andb_false_r, orb_false_r. reflexivity.
      - match goal with |- exists f1, stack (upd_head ?S ?h) = _ /\ _ =>
          destruct (upd_head_fields S h) as [X0 [X1 [X2 [X3 [X4 [X5 [X6 [X7 [X8 [X9 X10]]]]]]]]]] end.
        cbn in X10. rewrite Hs in X10. eexists. split; [exact X10|]. cbn -[mem].
        rewrite X1, X2, X3, X4, X5, X6, X7, X8, X9. cbn -[mem].
        repeat split; auto.
        + intros x. rewrite andb_false_r, orb_false_r. reflexivity.
        + intros x. rewrite mem_addm. rewrite andb_true_r. apply orb_comm. }
    destruct A as [f1 [S1 [D1 [K1 [I1 [N1 [T1 [R1 [C1 [Fn1 [Fd1 [A1 [A2 [A3 [A4 [A5 [A6 [A7 [A8 A9]]]]]]]]]]]]]]]]]]].
    destruct (IH s1 f1 rest S1) as [fn [fd [B0 [B1 [B2 [B3 [B4 [B5 [B6 [B7 [B8 [B9 [B10 B11]]]]]]]]]]]]].
    exists fn, fd. split.
    + rewrite B0. destruct f1, f0; cbn in *. subst. reflexivity.
    + split; [|split; [|repeat split; congruence]].
      * intros x. rewrite B1, Fn1, A1. cbn [mem existsb]. fold (mem x l).
        destruct (Nat.eqb_spec x o); subst; cbn; destruct (mem o (snew s)), (mem o l); cbn;
          rewrite ?orb_true_r, ?orb_false_r; auto;
          try (destruct (mem x (fnew f0)), (mem x l), (mem x (snew s)); reflexivity).
      * intros x. rewrite B2, Fd1, A1. cbn [mem existsb]. fold (mem x l).
        destruct (Nat.eqb_spec x o); subst; cbn; destruct (mem o (snew s)), (mem o l); cbn;
          rewrite ?orb_true_r, ?orb_false_r; auto;
          try (destruct (mem x (fdirty f0)), (mem x l), (mem x (snew s)); reflexivity).
Qed.

Lemma ks_find_app : forall x l1 l2, ks_find x (l1 ++ l2) = match ks_find x l1 with Some p => Some p | None => ks_find x l2 end.
Proof.
  intros x l1 l2. induction l1 as [|[o p] l1 IH]; cbn; auto. destruct (Nat.eqb o x); auto.
Qed.
Lemma ks_find_rem : forall x o l, ks_find x (ks_rem o l) = if Nat.eqb x o then None else ks_find x l.
Proof.
  intros x o l. unfold ks_rem. induction l as [|[a p] l IH]; cbn.
  - destruct (Nat.eqb x o); reflexivity.
  - destruct (Nat.eqb_spec a o); cbn.
    + subst. rewrite IH. destruct (Nat.eqb_spec x o).
      * reflexivity.
      * destruct (Nat.eqb_spec o x); [congruence|reflexivity].
    + rewrite IH. destruct (Nat.eqb_spec a x).
      * subst. destruct (Nat.eqb_spec x o); [congruence|reflexivity].
      * reflexivity.
Qed.
Lemma ks_find_set : forall x o p l, ks_find x (ks_set o p l) = if Nat.eqb x o then Some p else ks_find x l.
Proof.
  intros x o p l. unfold ks_set. rewrite ks_find_app, ks_find_rem. cbn.
  destruct (Nat.eqb_spec x o).
  - subst. rewrite Nat.eqb_refl. reflexivity.
  - destruct (ks_find x l); auto. destruct (Nat.eqb_spec o x); [congruence|reflexivity].
Qed.

Lemma ks_rem_keys : forall o l x, In x (map fst (ks_rem o l)) -> In x (map fst l) /\ x <> o.
Proof.
  intros o l x. unfold ks_rem. induction l as [|[a p] l IH]; cbn; [tauto|].
  destruct (Nat.eqb_spec a o); cbn.
  - intros H. destruct (IH H). split; auto.
  - intros [H|H]; [subst; split; auto|]. destruct (IH H). split; auto.
Qed.
Lemma ks_rem_nodup : forall o l, NoDup (map fst l) -> NoDup (map fst (ks_rem o l)).
Proof.
  intros o l. unfold ks_rem. induction l as [|[a p] l IH]; cbn; intros H; [constructor|].
  inversion H; subst. destruct (Nat.eqb_spec a o); cbn; auto.
  constructor; auto. intros X. apply (ks_rem_keys o l a) in X. tauto.
Qed.
Lemma ks_set_nodup : forall o p l, NoDup (map fst l) -> NoDup (map fst (ks_set o p l)).
Proof.
  intros o p l H. unfold ks_set. rewrite map_app. cbn.
  assert (A := ks_rem_nodup o l H).
  assert (B : ~ In o (map fst (ks_rem o l))). { intros X. apply ks_rem_keys in X. tauto. }
  revert A B. generalize (map fst (ks_rem o l)). intros l0. induction l0 as [|a l0 IH]; cbn; intros A B.
  - constructor; auto.
  - inversion A; subst. constructor.
    + intros X. apply in_app_or in X. destruct X as [X|[X|[]]]; [contradiction|subst; apply B; left; auto].
    + apply IH; auto.
Qed.
Lemma ks_after_nodup : forall key0 ikof l fk, NoDup (map fst fk) -> NoDup (map fst (ks_after key0 ikof l fk)).
Proof.
  intros key0 ikof. unfold ks_after. induction l as [|o l IH]; intros fk H; cbn; auto.
  apply IH. destruct (key0 o); auto. destruct (Z.eqb _ _); auto. apply ks_set_nodup; auto.
Qed.

Lemma ks_after_find : forall key0 ikof l fk x, NoDup l ->
  ks_find x (ks_after key0 ikof l fk) =
  if mem x l then
    match key0 x with
    | Some k => if Z.eqb k (ikof x) then ks_find x fk
                else Some (match ks_find x fk with Some (old, _) => old | None => k end, ikof x)
    | None => ks_find x fk
    end
  else ks_find x fk.
Proof.
  intros key0 ikof. induction l as [|o l IH]; intros fk x Hnd; cbn [ks_after fold_left mem existsb]; auto.
  inversion Hnd; subst. fold (mem x l). unfold ks_after in IH. rewrite IH by auto.
  destruct (Nat.eqb_spec x o).
  - subst. cbn [orb]. destruct (mem o l) eqn:E; [apply mem_In in E; contradiction|].
    destruct (key0 o) as [k|]; auto. destruct (Z.eqb k (ikof o)); auto.
    rewrite ks_find_set, Nat.eqb_refl. reflexivity.
  - cbn [orb]. destruct (mem x l); auto.
    + assert (E : ks_find x (match key0 o with
                  | Some k => if Z.eqb k (ikof o) then fk
                              else ks_set o (match ks_find o fk with Some (old, _) => old | None => k end, ikof o) fk
                  | None => fk end) = ks_find x fk).
      { destruct (key0 o) as [k|]; auto. destruct (Z.eqb k (ikof o)); auto.
        rewrite ks_find_set. destruct (Nat.eqb_spec x o); [contradiction|reflexivity]. }
      rewrite E. reflexivity.
    + destruct (key0 o) as [k|]; auto. destruct (Z.eqb k (ikof o)); auto.
      rewrite ks_find_set. destruct (Nat.eqb_spec x o); [contradiction|reflexivity].
Qed.

(* a successful registration means every object had a primary key value *)
Lemma register_fold_dids : forall l s s', foldM register_one l s = (Ok, s') ->
  forall o, In o l -> odid (objs s o) <> None.
Proof.
  induction l as [|a l IH]; intros s s' H o Ho; [contradiction|].
  cbn [foldM] in H. apply bind_inv in H. destruct H as [[s1 [H1 H2]]|[_ X]]; [|congruence].
  assert (Ha : odid (objs s a) <> None).
  { intros X. unfold register_one in H1. rewrite X in H1. discriminate. }
  destruct Ho as [Ho|Ho]; [subst; exact Ha|].
  destruct (odid (objs s a)) as [ik|] eqn:Ed; [|congruence].
  destruct (register_sim a s s ik [(a, (ik, ik))] (fun x => eq_refl) eq_refl Ed) as [s1' [E1 [O1 _]]].
  { cbn. rewrite Nat.eqb_refl. reflexivity. }
  assert (s1' = s1) by congruence. subst s1'.
  specialize (IH s1 s' H2 o Ho). rewrite O1 in IH.
  destruct (restore_ks_one_keeps [] [(a, (ik, ik))] a s o) as [K _]. congruence.
Qed.

(* ------------------------------------------------------------------ finalize: what it computes *)
Section FinalCompute.
  Variables (s1 : sess) (f : frame) (rest : list frame) (new dirty deleted : list nat).
  Hypothesis Hst : stack s1 = f :: rest.
  Hypothesis Hsn : snew s1 = new.
  Hypothesis Hsd : sdel s1 = deleted.
  Hypothesis Hnd_del : NoDup deleted.
  Let n := nobj s1.
  Let other := filter (fun o => mem o new || mem o dirty) (seq 0 n).
  Definition ikof (x : nat) : Z := match odid (objs s1 x) with Some k => k | None => 0%Z end.
  Hypothesis Hdisj : forall x, mem x deleted = true -> mem x other = false.
  Hypothesis Hnew_lt : forall x, In x new -> x < n.

  Definition FZ (x : nat) : obj :=
    if mem x deleted then o_delf (o_in (objs s1 x) false) true
    else if mem x other then commit_obj (o_in (o_key (objs s1 x) (Some (ikof x))) true)
    else objs s1 x.

  (* the state after the deletions were recorded *)
  Let s2 := fold_left (fun s o => remove_newly_deleted o s) deleted s1.
  Let ksR := map (fun o => (o, (ikof o, ikof o))) other.

  Definition P2R (x : nat) : obj :=
    if mem x other then o_in (o_key (objs s2 x) (Some (ikof x))) true else objs s2 x.

  Hypothesis Hinj : forall x y, x < n -> y < n -> oin (P2R x) = true -> oin (P2R y) = true ->
    okey (P2R x) = okey (P2R y) -> okey (P2R x) <> None -> x = y.

  Lemma finalize_compute : forall r sZ, finalize new dirty deleted s1 = (r, sZ) -> r <> Unmodelled ->
    r = Ok /\
    (forall x, objs sZ x = FZ x) /\
    (exists fn fd, stack sZ = f_dirty (f_new (f_ks (f_del f (fold_left (fun d o => addm o d) deleted (fdel f)))
                       (ks_after (fun o => okey (objs s1 o)) ikof other (fks f))) fn) fd :: rest /\
       (forall x, mem x fn = mem x (fnew f) || (mem x other && mem x new)) /\
       (forall x, mem x fd = mem x (fdirty f) || (mem x other && negb (mem x new)))) /\
    snew sZ = [] /\ sdel sZ = [] /\ nobj sZ = n /\ work sZ = work s1 /\ committed sZ = committed s1 /\
    saves sZ = saves s1 /\ nfid sZ = nfid s1 /\ eoc sZ = eoc s1 /\ handles sZ = handles s1.
  Proof.
    intros r sZ H Hr. unfold finalize in H.
    rewrite (bind_ok _ _ _ s2) in H by reflexivity.
    destruct (rnd_fold deleted s1 f rest Hst Hnd_del) as [O2 [S2 [D2 [N2 [A1 [A2 [A3 [A4 [A5 [A6 A7]]]]]]]]]].
    fold s2 in O2, S2, D2, N2, A1, A2, A3, A4, A5, A6, A7.
    rewrite withst_eq in H. unfold all_objs in H. rewrite A1 in H. fold n in H. fold other in H.
    destruct (negb (nodupZ (map (fun o => odid (objs s2 o)) other))); [inversion H; subst; congruence|].
    apply bind_inv in H. destruct H as [[s3 [H3 H]]|[H3 Hn]].
    2:{ (* registration cannot fail with an error *)
        exfalso. clear - H3 Hn Hr.
        revert H3. generalize s2. generalize other. intros l. induction l as [|a l IH]; intros s H3.
        - inversion H3; subst; congruence.
        - cbn [foldM] in H3. apply bind_inv in H3. destruct H3 as [[sa [Ha Hb]]|[Ha _]].
          + eapply IH; eauto.
          + unfold register_one in Ha. destruct (odid (objs s a)); [|inversion Ha; subst; congruence].
            destruct (okey (objs s a)); [destruct (Z.eqb _ _)|]; inversion Ha; subst; congruence. }
    (* every registered object has a key value *)
    assert (Hdid : forall o, In o other -> odid (objs s2 o) = Some (ikof o) /\ ks_find o ksR = Some (ikof o, ikof o)).
    { intros o Ho. pose proof (register_fold_dids _ _ _ H3 o Ho) as X.
      assert (E : objs s2 o = objs s1 o).
      { rewrite O2. destruct (mem o deleted) eqn:Ed; auto. apply Hdisj in Ed. apply mem_In in Ho. congruence. }
      split.
      - rewrite E in *. unfold ikof. destruct (odid (objs s1 o)); congruence.
      - unfold ksR. rewrite (ks_find_map (fun o => (ikof o, ikof o))). apply mem_In in Ho. rewrite Ho. reflexivity. }
    assert (Hnd_o : NoDup other) by (unfold other; apply NoDup_filter; apply seq_NoDup).
    destruct (register_fold ksR ikof other s2 s2 _ rest (fun x => eq_refl) eq_refl S2 Hnd_o Hdid)
      as [s3' [E3 [O3 [N3 [B1 [B2 [B3 [B4 [B5 [B6 [B7 [B8 B9]]]]]]]]]]]].
    assert (s3' = s3) by congruence. subst s3'.
    (* the re-keying loop over all objects *)
    assert (O3' : forall x, objs s3 x = P2R x).
    { intros x. rewrite O3.
      change (fold_left (fun s o => restore_ks_one [] ksR o s) other s2) with
             (fold_left (fun s o => restore_ks_one [] ksR o s) (filter (fun o => mem o new || mem o dirty) (seq 0 n)) s2).
      rewrite <- (fold_ks_filter [] ksR (fun o => mem o new || mem o dirty) (seq 0 n) s2).
      2:{ intros y _ Hy. unfold ksR. rewrite (ks_find_map (fun o => (ikof o, ikof o))).
          destruct (mem y other) eqn:Em; auto. apply mem_In in Em. unfold other in Em. apply filter_In in Em. destruct Em. congruence. }
      assert (Hinj' : forall x y, x < nobj s2 -> y < nobj s2 -> oin (P2 [] ksR s2 x) = true -> oin (P2 [] ksR s2 y) = true ->
                okey (P2 [] ksR s2 x) = okey (P2 [] ksR s2 y) -> okey (P2 [] ksR s2 x) <> None -> x = y).
      { assert (PE : forall z, P2 [] ksR s2 z = P2R z).
        { intros z. unfold P2, P2R, ksR. rewrite (ks_find_map (fun o => (ikof o, ikof o))). destruct (mem z other); reflexivity. }
        intros a b. rewrite !PE. rewrite A1. apply Hinj. }
      destruct (phase2_char [] ksR s2 (fun x0 (Hx0 : mem x0 [] = true) => False_ind _ (Bool.diff_false_true Hx0)) Hinj') as [_ PC]. unfold all_objs in PC. rewrite A1 in PC. fold n in PC.
      rewrite PC.
      - unfold P2, P2R, ksR. rewrite (ks_find_map (fun o => (ikof o, ikof o))). destruct (mem x other); reflexivity.
      - destruct (Nat.lt_ge_cases x n); auto. right. unfold ksR. rewrite (ks_find_map (fun o => (ikof o, ikof o))).
        destruct (mem x other) eqn:Em; auto. apply mem_In in Em. unfold other in Em. apply filter_In in Em.
        destruct Em as [Em _]. apply in_seq in Em. lia. }
    (* commit *)
    apply bind_inv in H. destruct H as [[s4 [H4 H]]|[H4 Hn]]; [|inversion H4; subst; congruence].
    inversion H4; subst s4. clear H4.
    inversion H; subst sZ r. clear H.
    set (f3 := f_ks (f_del f (fold_left (fun d o => addm o d) deleted (fdel f)))
                   (ks_after (fun o => okey (objs s2 o)) ikof other (fks (f_del f (fold_left (fun d o => addm o d) deleted (fdel f)))))) in *.
    destruct (commit_fold_rest other s3 f3 rest B9) as [fn [fd [C0 [C1 [C2 [C3 [C4 [C5 [C6 [C7 [C8 [C9 [C10 C11]]]]]]]]]]]]].
    split; [reflexivity|]. split; [|split].
    - intros x. cbn [objs set_snew].
      rewrite (fold_objs_pointwise commit_one (fun _ => commit_obj)); auto.
      + rewrite O3'. unfold P2R, FZ. rewrite O2.
        destruct (mem x deleted) eqn:Ed.
        * rewrite (Hdisj x Ed). reflexivity.
        * destruct (mem x other); reflexivity.
      + intros o s x0 Hx. rewrite commit_one_objs. destruct (Nat.eqb_spec x0 o); [contradiction|reflexivity].
      + intros o s. rewrite commit_one_objs. rewrite Nat.eqb_refl. reflexivity.
    - exists fn, fd. cbn [stack set_snew]. rewrite C0. split.
      + unfold f3. cbn.
        assert (KE : ks_after (fun o => okey (objs s2 o)) ikof other (fks f) = ks_after (fun o => okey (objs s1 o)) ikof other (fks f)).
        { unfold ks_after. clear - O2 Hdisj. revert Hdisj. generalize (fks f).
          assert (X : forall l, (forall y, In y l -> mem y deleted = false) -> forall fk,
                    fold_left (fun fk o => match okey (objs s2 o) with
                       | Some k => if Z.eqb k (ikof o) then fk else ks_set o (match ks_find o fk with Some (old, _) => old | None => k end, ikof o) fk
                       | None => fk end) l fk =
                    fold_left (fun fk o => match okey (objs s1 o) with
                       | Some k => if Z.eqb k (ikof o) then fk else ks_set o (match ks_find o fk with Some (old, _) => old | None => k end, ikof o) fk
                       | None => fk end) l fk).
          { induction l as [|a l IH]; intros Hl fk; cbn; auto.
            rewrite O2. rewrite (Hl a) by (left; auto). apply IH. intros; apply Hl; right; auto. }
          intros fk Hd. apply X. intros y Hy. destruct (mem y deleted) eqn:E; auto. apply Hd in E. apply mem_In in Hy. congruence. }
        rewrite KE. reflexivity.
      + split.
        * intros x. rewrite C1. unfold f3. cbn. rewrite B1, N2, Hsn. reflexivity.
        * intros x. rewrite C2. unfold f3. cbn. rewrite B1, N2, Hsn. reflexivity.
    - cbn [snew sdel nobj work committed saves nfid eoc handles set_snew].
      rewrite C3, C4, C5, C6, C7, C8, C9, C10, C11, B1, B2, N3, B3, B4, B5, B6, B7, B8, N2, D2, A1, A2, A3, A4, A5, A6, A7, Hsn, Hsd.
      repeat split; auto.
      + (* nothing stays pending *)
        assert (X : forall l, (forall y, In y l -> mem y other = true) -> filter (fun o => negb (mem o other)) l = []).
        { induction l as [|a l IH]; intros Hl; cbn; auto. rewrite (Hl a) by (left; auto). cbn. apply IH. intros; apply Hl; right; auto. }
        apply X. intros y Hy. apply mem_In. unfold other. apply filter_In. split.
        * apply in_seq. cbn. specialize (Hnew_lt y Hy). lia.
        * apply mem_In in Hy. rewrite Hy. reflexivity.
      + assert (X : forall l, (forall y, In y l -> mem y deleted = true) -> filter (fun x => negb (mem x deleted)) l = []).
        { induction l as [|a l IH]; intros Hl; cbn; auto. rewrite (Hl a) by (left; auto). cbn. apply IH. intros; apply Hl; right; auto. }
        apply X. intros y Hy. apply mem_In. exact Hy.
  Qed.
End FinalCompute.

Lemma mem_filter_seq' : forall (P : nat -> bool) n x, mem x (filter P (seq 0 n)) = Nat.ltb x n && P x.
Proof.
  intros P n x. destruct (mem x (filter P (seq 0 n))) eqn:E.
  - apply mem_In in E. apply filter_In in E. destruct E as [E1 E2]. apply in_seq in E1.
    rewrite E2. destruct (Nat.ltb_spec x n); [reflexivity|lia].
  - destruct (Nat.ltb_spec x n); cbn; auto. destruct (P x) eqn:EP; auto.
    assert (In x (filter P (seq 0 n))). { apply filter_In. split; auto. apply in_seq. lia. }
    apply mem_In in H0. congruence.
Qed.

(* ------------------------------------------------------------------ finalize: what it means *)
Section FlushSem.
  Variables (s0 : sess) (g : ghost) (f : frame) (s1 : sess) (rho : nat -> option Z) (rv : nat -> Z) (dirty : list nat).
  Hypothesis GC : GClean g.
  Let n := nobj s0.
  Let W0 := work s0.
  Let new := snew s0.
  Let deleted := sdel s0.
  Hypothesis Hdirty : forall x, In x dirty <-> (x < n /\ oin (objs s0 x) = true /\ omod (objs s0 x) = true /\ ~ In x deleted).
  Hypothesis S : Sig s0 g f [] s1 rho rv.
  Hypothesis HU1 : forall x, ~ In x dirty -> ~ In x new -> ~ In x deleted ->
    rho x = (if oin (objs s1 x) then okey (objs s1 x) else None) /\
    (forall k v, okey (objs s1 x) = Some k -> W0 k = Some v -> rv x = v).
  Hypothesis HU2 : forall x, In x dirty \/ In x new -> rho x <> None.
  Hypothesis HU3 : forall x, In x deleted -> rho x = None /\ odid (objs s1 x) <> None /\ odv (objs s1 x) <> None.

  Let L := sg_l _ _ _ _ _ _ _ S.
  Let G1 : Good (objs s1) n W0 new deleted := sl_good _ _ _ _ L.
  Let J1 : J (objs s1) n := sl_j _ _ _ _ L.
  Let R1 : Rel g f (objs s1) n new deleted W0 := sl_rel _ _ _ _ L.
  Let GG : Good (gobjs g) (gn g) (gW g) [] [] := proj1 GC.
  Let W1 := work s1.

  Lemma fs_n : nobj s1 = n /\ snew s1 = new /\ sdel s1 = deleted.
  Proof. destruct (sl_rest _ _ _ _ L) as [_ [A [B [C _]]]]. auto. Qed.

  Let other := filter (fun o => mem o new || mem o dirty) (seq 0 n).

  Lemma other_spec : forall x, mem x other = true <-> (In x new \/ In x dirty).
  Proof.
    intros x. unfold other. rewrite mem_filter_seq'. split.
    - intros H. apply andb_prop in H. destruct H as [_ H]. apply orb_prop in H.
      destruct H as [H|H]; apply mem_In in H; auto.
    - intros H. assert (x < n).
      { destruct H as [H|H]; [apply (g_new _ _ _ _ _ G1) in H; tauto|apply Hdirty in H; tauto]. }
      destruct (Nat.ltb_spec x n); [|lia]. cbn. destruct H as [H|H]; apply mem_In in H; rewrite H; auto. apply orb_true_r.
  Qed.

  Lemma del_not_other : forall x, mem x deleted = true -> mem x other = false.
  Proof.
    intros x H. destruct (mem x other) eqn:E; auto. exfalso. apply other_spec in E. apply mem_In in H.
    pose proof (g_del _ _ _ _ _ G1 x H) as Hin.
    destruct E as [E|E].
    - apply (g_new _ _ _ _ _ G1) in E. destruct E as [_ [E _]].
      destruct (g_in _ _ _ _ _ G1 x Hin) as [_ [_ [_ X]]]. congruence.
    - apply Hdirty in E. tauto.
  Qed.

  (* the objects that are in the identity map after the flush, and where their row is *)
  Definition foin (x : nat) : Prop :=
    mem x other = true \/ (mem x other = false /\ mem x deleted = false /\ oin (objs s1 x) = true).

  Lemma foin_rho : forall x, foin x -> exists p, rho x = Some p /\ W1 p = Some (rv x) /\ x < n /\
    (mem x other = true ->
       (odid (objs s1 x) = None \/ odid (objs s1 x) = Some p) /\ (odv (objs s1 x) = None \/ odv (objs s1 x) = Some (rv x))) /\
    (mem x other = false -> okey (objs s1 x) = Some p /\ W0 p = Some (rv x)).
  Proof.
    intros x [H|[H1 [H2 H3]]].
    - apply other_spec in H as H'. destruct (rho x) as [p|] eqn:Er.
      2:{ exfalso. apply (HU2 x); [tauto|exact Er]. }
      exists p. split; auto. split; [apply (sg_row _ _ _ _ _ _ _ S x p Er)|].
      split; [destruct (sg_dom _ _ _ _ _ _ _ S x) as [X _]; [congruence|exact X]|].
      split; [|congruence]. intros _.
      destruct (sg_vals _ _ _ _ _ _ _ S x p Er) as [[]|[[]|X]]. exact X.
    - assert (Hnd : ~ In x dirty /\ ~ In x new /\ ~ In x deleted).
      { repeat split; intros X.
        - assert (mem x other = true) by (apply other_spec; auto). congruence.
        - assert (mem x other = true) by (apply other_spec; auto). congruence.
        - apply mem_In in X. congruence. }
      destruct Hnd as [N1 [N2 N3]]. destruct (HU1 x N1 N2 N3) as [A B]. rewrite H3 in A.
      destruct (g_in _ _ _ _ _ G1 x H3) as [Hn [_ [_ Hk]]].
      destruct (okey (objs s1 x)) as [k|] eqn:Ek; [|congruence].
      destruct (g_rows _ _ _ _ _ G1 x k H3 Ek) as [v [Hv _]].
      exists k. split; auto. rewrite (B k v eq_refl Hv).
      split; [rewrite <- (B k v eq_refl Hv); apply (sg_row _ _ _ _ _ _ _ S x k A)|].
      split; auto. split; [congruence|auto].
  Qed.

  Hypothesis Hdid : forall o, mem o other = true -> odid (objs s1 o) <> None.

  Lemma P2R_spec : forall x,
    P2R s1 new dirty deleted x =
      if mem x other then o_in (o_key (objs s1 x) (Some (ikof s1 x))) true
      else if mem x deleted then o_delf (o_in (objs s1 x) false) true else objs s1 x.
  Proof.
    intros x. unfold P2R. destruct fs_n as [N1 [N2 N3]]. rewrite N1. fold other.
    assert (Hnd : NoDup deleted) by apply (g_nodup _ _ _ _ _ G1).
    assert (X : forall y, objs (fold_left (fun s o => remove_newly_deleted o s) deleted s1) y =
                if mem y deleted then o_delf (o_in (objs s1 y) false) true else objs s1 y).
    { intros y. rewrite (fold_objs_pointwise remove_newly_deleted (fun _ ob => o_delf (o_in ob false) true)); auto.
      - intros o s' z Hz. rewrite rnd_objs. destruct (Nat.eqb_spec z o); [contradiction|reflexivity].
      - intros o s'. rewrite rnd_objs, Nat.eqb_refl. reflexivity. }
    rewrite !X. destruct (mem x other) eqn:Eo.
    - destruct (mem x deleted) eqn:Ed; [rewrite (del_not_other x Ed) in Eo; discriminate|reflexivity].
    - reflexivity.
  Qed.

  Lemma P2R_inj : forall x y, x < nobj s1 -> y < nobj s1 ->
    oin (P2R s1 new dirty deleted x) = true -> oin (P2R s1 new dirty deleted y) = true ->
    okey (P2R s1 new dirty deleted x) = okey (P2R s1 new dirty deleted y) ->
    okey (P2R s1 new dirty deleted x) <> None -> x = y.
  Proof.
    assert (K : forall z, oin (P2R s1 new dirty deleted z) = true ->
              foin z /\ okey (P2R s1 new dirty deleted z) = rho z).
    { intros z Hz. rewrite P2R_spec in *. destruct (mem z other) eqn:Eo.
      - assert (Fz : foin z) by (left; auto). split; auto.
        destruct (foin_rho z Fz) as [p [A [_ [_ [B _]]]]]. destruct (B Eo) as [[B1|B1] _].
        + exfalso. apply (Hdid z Eo). exact B1.
        + cbn. unfold ikof. rewrite B1. congruence.
      - destruct (mem z deleted) eqn:Ed; [cbn in Hz; discriminate|].
        assert (Fz : foin z) by (right; auto). split; auto.
        destruct (foin_rho z Fz) as [p [A [_ [_ [_ B]]]]]. destruct (B Eo) as [B1 _]. congruence. }
    intros x y _ _ Hx Hy Hk Hnk. destruct (K x Hx) as [Fx Kx]. destruct (K y Hy) as [Fy Ky].
    rewrite Kx in Hk, Hnk. rewrite Ky in Hk.
    destruct (rho x) as [p|] eqn:E; [|congruence].
    eapply (sg_inj _ _ _ _ _ _ _ S); eauto.
  Qed.

  Notation FZ' := (FZ s1 new dirty deleted).

  Lemma FZ_unfold : forall x, FZ' x =
    if mem x deleted then o_delf (o_in (objs s1 x) false) true
    else if mem x other then commit_obj (o_in (o_key (objs s1 x) (Some (ikof s1 x))) true)
    else objs s1 x.
  Proof. intros x. unfold FZ. destruct fs_n as [N1 _]. rewrite N1. reflexivity. Qed.

  (* objects written by the flush were attached and not deleted *)
  Lemma other_att : forall x, mem x other = true ->
    x < n /\ oatt (objs s1 x) = true /\ odelf (objs s1 x) = false /\
    ((In x new /\ okey (objs s1 x) = None /\ oin (objs s1 x) = false) \/
     (In x dirty /\ ~ In x new /\ oin (objs s1 x) = true)).
  Proof.
    intros x H. apply other_spec in H.
    assert (Hn' : In x new -> x < n /\ oatt (objs s1 x) = true /\ odelf (objs s1 x) = false /\ okey (objs s1 x) = None /\ oin (objs s1 x) = false).
    { intros X. apply (g_new _ _ _ _ _ G1) in X. destruct X as [A [B C]]. pose proof (g_newd _ _ _ _ _ G1 x A B) as D.
      repeat split; auto. destruct (oin (objs s1 x)) eqn:E; auto.
      destruct (g_in _ _ _ _ _ G1 x E) as [_ [_ [_ Y]]]. congruence. }
    destruct (in_dec Nat.eq_dec x new) as [Hi|Hi].
    - destruct (Hn' Hi) as [A [B [C [D E]]]]. repeat split; auto.
    - destruct H as [H|H]; [contradiction|].
      apply Hdirty in H as H'. destruct H' as [A [B [C D]]].
      destruct (sl_le _ _ _ _ L x) as [_ [_ [_ [Q4 _]]]].
      assert (Hin : oin (objs s1 x) = true) by congruence.
      destruct (g_in _ _ _ _ _ G1 x Hin) as [_ [X1 [X2 _]]]. repeat split; auto.
  Qed.

  Lemma restored_final : forall fZ,
    (forall x, mem x (fnew fZ) = mem x (fnew f) || (mem x other && mem x new)) ->
    (forall x, mem x (fdirty fZ) = mem x (fdirty f) || (mem x other && negb (mem x new))) ->
    (forall x, mem x (fdel fZ) = mem x (fdel f) || mem x deleted) ->
    fks fZ = ks_after (fun o => okey (objs s1 o)) (ikof s1) other (fks f) ->
    Good FZ' n W1 [] [] /\ J FZ' n /\ Rel g fZ FZ' n [] [] W1 /\ (forall x, oin (FZ' x) = true -> omod (FZ' x) = false).
  Proof.
    intros fZ Hfn Hfd Hfl Hfk.
    assert (Hnd_o : NoDup other) by (unfold other; apply NoDup_filter; apply seq_NoDup).
    (* the three kinds of objects *)
    assert (Cdel : forall x, mem x deleted = true -> FZ' x = o_delf (o_in (objs s1 x) false) true /\ oin (objs s1 x) = true /\ x < n).
    { intros x H. rewrite FZ_unfold, H. split; auto. apply mem_In in H.
      pose proof (g_del _ _ _ _ _ G1 x H) as X. destruct (g_in _ _ _ _ _ G1 x X) as [Y _]. auto. }
    assert (Coth : forall x, mem x other = true -> FZ' x = commit_obj (o_in (o_key (objs s1 x) (Some (ikof s1 x))) true) /\ mem x deleted = false).
    { intros x H. rewrite FZ_unfold. destruct (mem x deleted) eqn:Ed; [rewrite (del_not_other x Ed) in H; discriminate|].
      rewrite H. auto. }
    assert (Crest : forall x, mem x deleted = false -> mem x other = false -> FZ' x = objs s1 x).
    { intros x H1 H2. rewrite FZ_unfold, H1, H2. reflexivity. }
    (* identity-map members of the result *)
    assert (Hfoin : forall x, oin (FZ' x) = true -> foin x /\ okey (FZ' x) = rho x /\ oatt (FZ' x) = true /\ odelf (FZ' x) = false).
    { intros x H. destruct (mem x deleted) eqn:Ed.
      - destruct (Cdel x Ed) as [E _]. rewrite E in H. discriminate.
      - destruct (mem x other) eqn:Eo.
        + destruct (Coth x Eo) as [E _]. rewrite E. assert (Fx : foin x) by (left; auto). split; auto.
          destruct (other_att x Eo) as [_ [A [B _]]].
          destruct (foin_rho x Fx) as [p [P1 [_ [_ [P2 _]]]]]. destruct (P2 Eo) as [[P3|P3] _]; [exfalso; apply (Hdid x Eo); exact P3|].
          cbn. unfold ikof. rewrite P3. repeat split; auto; congruence.
        + rewrite (Crest x Ed Eo) in *. assert (Fx : foin x) by (right; auto). split; auto.
          destruct (foin_rho x Fx) as [p [P1 [_ [_ [_ P2]]]]]. destruct (P2 Eo) as [P3 _].
          destruct (g_in _ _ _ _ _ G1 x H) as [_ [A [B _]]]. repeat split; auto; congruence. }
    assert (Hatt : forall x, oatt (FZ' x) = oatt (objs s1 x)).
    { intros x. rewrite FZ_unfold. destruct (mem x deleted); [reflexivity|]. destruct (mem x other); reflexivity. }
    assert (Hvals : forall x, odid (FZ' x) = odid (objs s1 x) /\ odv (FZ' x) = odv (objs s1 x)).
    { intros x. rewrite FZ_unfold. destruct (mem x deleted); [split; reflexivity|]. destruct (mem x other); split; reflexivity. }
    assert (Gd : Good FZ' n W1 [] []).
    { constructor.
      - intros x H. destruct (Hfoin x H) as [Fx [K [A D]]].
        destruct (foin_rho x Fx) as [p [P1 [_ [P3 _]]]]. repeat split; auto. congruence.
      - intros x y k Hx Hy Kx Ky. destruct (Hfoin x Hx) as [_ [K1 _]]. destruct (Hfoin y Hy) as [_ [K2 _]].
        eapply (sg_inj _ _ _ _ _ _ _ S); [rewrite <- K1; exact Kx|rewrite <- K2; exact Ky].
      - intros x k Hn Hk Ha Hd. destruct (mem x deleted) eqn:Ed.
        + destruct (Cdel x Ed) as [E _]. rewrite E in Hd. discriminate.
        + destruct (mem x other) eqn:Eo.
          * destruct (Coth x Eo) as [E _]. rewrite E. reflexivity.
          * rewrite (Crest x Ed Eo) in *. eapply (g_pers _ _ _ _ _ G1); eauto.
      - intros x k Hx Hk. destruct (Hfoin x Hx) as [Fx [K _]].
        destruct (foin_rho x Fx) as [p [P1 [P2 [P3 [P4 P5]]]]].
        assert (p = k) by congruence. subst p. exists (rv x). split; auto.
        destruct (mem x other) eqn:Eo.
        + destruct (Coth x Eo) as [E _]. destruct (P4 eq_refl) as [Q1 Q2]. rewrite E. unfold VA. cbn.
          repeat split; auto; try congruence; intros; discriminate.
        + destruct (mem x deleted) eqn:Ed; [destruct (Cdel x Ed) as [E _]; rewrite E in Hx; discriminate|].
          rewrite (Crest x Ed Eo) in *. destruct (P5 eq_refl) as [Q1 Q2].
          destruct (g_rows _ _ _ _ _ G1 x k Hx Q1) as [v [Hv Hva]]. assert (v = rv x) by congruence. subst v. exact Hva.
      - intros x. split; [intros []|]. intros [Hn [Hk Ha]]. exfalso.
        destruct (mem x deleted) eqn:Ed.
        + destruct (Cdel x Ed) as [E [X _]]. rewrite E in Hk. cbn in Hk.
          destruct (g_in _ _ _ _ _ G1 x X) as [_ [_ [_ Y]]]. congruence.
        + destruct (mem x other) eqn:Eo.
          * destruct (Coth x Eo) as [E _]. rewrite E in Hk. discriminate.
          * rewrite (Crest x Ed Eo) in *.
            assert (In x new) by (apply (g_new _ _ _ _ _ G1); auto).
            assert (mem x other = true) by (apply other_spec; auto). congruence.
      - intros x Hn Hk. destruct (mem x deleted) eqn:Ed.
        + exfalso. destruct (Cdel x Ed) as [E [X _]]. rewrite E in Hk. cbn in Hk.
          destruct (g_in _ _ _ _ _ G1 x X) as [_ [_ [_ Y]]]. congruence.
        + destruct (mem x other) eqn:Eo.
          * destruct (Coth x Eo) as [E _]. rewrite E in Hk. discriminate.
          * rewrite (Crest x Ed Eo) in *. apply (g_newd _ _ _ _ _ G1 x Hn Hk).
      - intros x [].
      - split; constructor.
      - (* deleted state: the row is gone or re-used by an object of the identity map *)
        intros x k Hn Hk Ha Hd.
        assert (Hk1 : okey (objs s1 x) = Some k /\ (mem x deleted = true \/ (oatt (objs s1 x) = true /\ odelf (objs s1 x) = true /\ oin (objs s1 x) = false))).
        { destruct (mem x deleted) eqn:Ed.
          - destruct (Cdel x Ed) as [E _]. rewrite E in Hk. cbn in Hk. auto.
          - destruct (mem x other) eqn:Eo.
            + destruct (Coth x Eo) as [E _]. destruct (other_att x Eo) as [_ [_ [X _]]]. rewrite E in Hd. cbn in Hd. congruence.
            + rewrite (Crest x Ed Eo) in *. split; auto. right. repeat split; auto.
              destruct (oin (objs s1 x)) eqn:E; auto. destruct (g_in _ _ _ _ _ G1 x E) as [_ [_ [Y _]]]. congruence. }
        destruct Hk1 as [Hk1 Hcase].
        destruct (W1 k) eqn:Ew; [|left; reflexivity]. right.
        assert (Hne : work s1 k <> None) by (unfold W1 in Ew; congruence).
        destruct (sg_cover _ _ _ _ _ _ _ S k Hne) as [[y Hy]|[Hsame Horph]].
        + (* someone's row *)
          exists y. destruct (sg_dom _ _ _ _ _ _ _ S y) as [Yn Yc]; [congruence|].
          assert (Fy : foin y).
          { destruct (mem y other) eqn:Eo; [left; auto|right].
            destruct (mem y deleted) eqn:Ed.
            - apply mem_In in Ed. destruct (HU3 y Ed) as [X _]. congruence.
            - repeat split; auto. destruct Yc as [Yc|Yc]; auto.
              assert (mem y other = true) by (apply other_spec; auto). congruence. }
          assert (Hoy : oin (FZ' y) = true /\ okey (FZ' y) = Some k).
          { destruct Fy as [Eo|[Eo [Ed Ei]]].
            - destruct (Coth y Eo) as [E _]. rewrite E. cbn. split; auto.
              destruct (foin_rho y (or_introl Eo)) as [p [P1 [_ [_ [P2 _]]]]]. destruct (P2 Eo) as [[P3|P3] _]; [exfalso; apply (Hdid y Eo); exact P3|].
              unfold ikof. rewrite P3. congruence.
            - rewrite (Crest y Ed Eo). split; auto.
              destruct (foin_rho y (or_intror (conj Eo (conj Ed Ei)))) as [p [P1 [_ [_ [_ P2]]]]]. destruct (P2 Eo). congruence. }
          exact Hoy.
        + (* an orphan row cannot sit under the key of a deleted object *)
          exfalso. destruct Hcase as [Ed|[A1 [A2 A3]]].
          * destruct (Cdel x Ed) as [_ [X _]].
            destruct (sl_le _ _ _ _ L x) as [Q1 [_ [_ [Q4 _]]]]. apply (Horph x); congruence.
          * destruct (g_dels _ _ _ _ _ G1 x k Hn Hk1 A1 A2) as [X|[x' [X1 X2]]].
            -- unfold W1 in Ew. rewrite Hsame in Ew. unfold W0 in X. congruence.
            -- destruct (sl_le _ _ _ _ L x') as [Q1 [_ [_ [Q4 _]]]]. apply (Horph x'); congruence.
      - intros x Hn Hk Ha Hd. destruct (Hvals x) as [V1 V2]. rewrite V1, V2.
        destruct (mem x deleted) eqn:Ed.
        + apply mem_In in Ed. destruct (HU3 x Ed) as [_ [A B]]. auto.
        + destruct (mem x other) eqn:Eo.
          * destruct (Coth x Eo) as [E _]. destruct (other_att x Eo) as [_ [_ [X _]]]. rewrite E in Hd. cbn in Hd. congruence.
          * rewrite (Crest x Ed Eo) in *. apply (g_delv _ _ _ _ _ G1 x Hn); auto. }
    split; [exact Gd|].
    assert (Jz : J FZ' n).
    { intros x Hn. destruct (J1 x Hn) as [A [B C]]. rewrite FZ_unfold.
      destruct (mem x deleted); [cbn; auto|]. destruct (mem x other); [cbn|auto].
      repeat split; auto; intros; try congruence. }
    split; [exact Jz|]. split.
    2:{ intros x H. destruct (mem x deleted) eqn:Ed; [destruct (Cdel x Ed) as [E _]; rewrite E in H; discriminate|].
        destruct (mem x other) eqn:Eo.
        - destruct (Coth x Eo) as [E _]. rewrite E. reflexivity.
        - rewrite (Crest x Ed Eo) in *.
          destruct (omod (objs s1 x)) eqn:Em; auto. exfalso.
          destruct (g_in _ _ _ _ _ G1 x H) as [Hn _].
          destruct (sl_le _ _ _ _ L x) as [_ [_ [_ [Q4 [Q5 _]]]]].
          assert (In x dirty).
          { apply Hdirty. repeat split; try congruence. intros X. apply mem_In in X. congruence. }
          assert (mem x other = true) by (apply other_spec; auto). congruence. }
    (* the frame's relation *)
    assert (Hexp : forall x, expunged fZ [] x = expunged f new x).
    { intros x. unfold expunged. rewrite Hfn. cbn. rewrite orb_false_r.
      destruct (mem x new) eqn:En; [|rewrite andb_false_r, orb_false_r; reflexivity].
      assert (mem x other = true) by (apply other_spec; left; apply mem_In; auto). rewrite H. reflexivity. }
    assert (Hks : forall x, ks_find x (fks fZ) =
              if mem x other then
                match okey (objs s1 x) with
                | Some k => if Z.eqb k (ikof s1 x) then ks_find x (fks f)
                            else Some (match ks_find x (fks f) with Some (old, _) => old | None => k end, ikof s1 x)
                | None => ks_find x (fks f)
                end
              else ks_find x (fks f)).
    { intros x. rewrite Hfk. apply ks_after_find. exact Hnd_o. }
    assert (Hkey : forall x, okey (FZ' x) = if mem x other then Some (ikof s1 x) else okey (objs s1 x)).
    { intros x. rewrite FZ_unfold. destruct (mem x deleted) eqn:Ed; [rewrite (del_not_other x Ed); reflexivity|].
      destruct (mem x other); reflexivity. }
    assert (Hdelf : forall x, odelf (FZ' x) = if mem x deleted then true else odelf (objs s1 x)).
    { intros x. rewrite FZ_unfold. destruct (mem x deleted); [reflexivity|]. destruct (mem x other); reflexivity. }
    assert (Hpkey : forall x, mem x new = false -> pkey fZ FZ' x = pkey f (objs s1) x).
    { intros x Hn. unfold pkey. rewrite Hks, Hkey. destruct (mem x other) eqn:Eo; auto.
      destruct (other_att x Eo) as [_ [_ [_ [[X _]|[_ [_ X]]]]]]; [apply mem_In in X; congruence|].
      destruct (g_in _ _ _ _ _ G1 x X) as [_ [_ [_ Y]]]. destruct (okey (objs s1 x)) as [k|] eqn:Ek; [|congruence].
      destruct (Z.eqb_spec k (ikof s1 x)).
      - destruct (ks_find x (fks f)) as [[old nw]|]; congruence.
      - destruct (ks_find x (fks f)) as [[old nw]|]; reflexivity. }
    assert (Hpdelf : forall x, pdelf fZ FZ' [] x = pdelf f (objs s1) deleted x).
    { intros x. unfold pdelf. rewrite Hfl, Hdelf. cbn. rewrite orb_false_r.
      destruct (mem x (fdel f)); cbn; auto. destruct (mem x deleted); reflexivity. }
    destruct R1 as [r_n0 r_exp0 r_id0 r_fresh0 r_row0 r_delv0 r_ks0 r_del0 r_lists0 r_ksu0 r_dirty0 r_keep0].
    assert (Hnew_not : forall x, expunged f new x = false -> mem x new = false).
    { intros x H. unfold expunged in H. apply orb_false_elim in H. tauto. }
    constructor.
    - exact r_n0.
    - intros x Hx He. rewrite Hexp in He. auto.
    - intros x Hx He. rewrite Hexp in He. destruct (r_id0 x Hx He) as [A B]. rewrite Hatt. split; auto.
      intros Ha. destruct (B Ha). rewrite Hpkey, Hpdelf by (apply Hnew_not; auto). auto.
    - intros x H1 H2. rewrite Hexp. destruct (r_fresh0 x H1 H2) as [A|[A B]]; auto. right.
      assert (Ed : mem x deleted = false).
      { destruct (mem x deleted) eqn:Ed; auto. destruct (Cdel x Ed) as [_ [X _]]. congruence. }
      assert (Eo : mem x other = false).
      { destruct (mem x other) eqn:Eo; auto. destruct (other_att x Eo) as [_ [X _]]. congruence. }
      rewrite (Crest x Ed Eo). auto.
    - (* rows the frame did not write *)
      intros x k Hx He Hi Hd Hdl Hk. rewrite Hexp in He. rewrite Hfd in Hd. rewrite Hfl in Hdl.
      apply orb_false_elim in Hd. destruct Hd as [Hd1 Hd2]. apply orb_false_elim in Hdl. destruct Hdl as [Hl1 Hl2].
      pose proof (Hnew_not x He) as Hnn.
      assert (Eo : mem x other = false). { rewrite Hnn in Hd2. cbn in Hd2. rewrite andb_true_r in Hd2. exact Hd2. }
      rewrite <- (r_row0 x k Hx He Hi Hd1 Hl1 Hk).
      (* x is untouched and still in the identity map under k *)
      destruct (r_id0 x Hx He) as [A B]. destruct (g_in _ _ _ _ _ GG x Hi) as [_ [Xa [Xd _]]].
      destruct (B Xa) as [B1 B2].
      assert (Hks0 : ks_find x (fks f) = None).
      { destruct (ks_find x (fks f)) as [[old nw]|] eqn:Ek; auto.
        destruct (r_ks0 x old nw Ek) as [_ [_ [_ [Y|Y]]]]; [|congruence].
        unfold expunged in He. rewrite Y in He. discriminate. }
      unfold pkey in B1. rewrite Hks0 in B1. unfold pdelf in B2. rewrite Hl1, Hl2 in B2. cbn in B2.
      assert (Hin : oin (objs s1 x) = true).
      { apply (g_pers _ _ _ _ _ G1 x k); try congruence. pose proof r_n0. lia. }
      assert (Fx : foin x) by (right; auto).
      destruct (foin_rho x Fx) as [p [P1 [P2 [_ [_ P3]]]]]. destruct (P3 Eo) as [P4 P5].
      assert (p = k) by congruence. subst p. unfold W1, W0 in *. congruence.
    - (* values of objects deleted in the frame *)
      intros x k v Hx He Hdl Hd Hm Hk Hw. rewrite Hexp in He. rewrite Hfd in Hd. rewrite Hfl in Hdl.
      apply orb_false_elim in Hd. destruct Hd as [Hd1 Hd2].
      destruct (Hvals x) as [V1 V2]. rewrite V1, V2.
      pose proof (Hnew_not x He) as Hnn.
      assert (Eo : mem x other = false). { rewrite Hnn in Hd2. cbn in Hd2. rewrite andb_true_r in Hd2. exact Hd2. }
      destruct (mem x (fdel f)) eqn:El.
      + assert (Ed : mem x deleted = false).
        { destruct (mem x deleted) eqn:Ed; auto. destruct (Cdel x Ed) as [_ [X _]].
          destruct (r_del0 x El) as [_ [Y _]]. congruence. }
        rewrite (Crest x Ed Eo) in Hm. eapply r_delv0; eauto.
      + cbn in Hdl. destruct (Cdel x Hdl) as [E [Hin Hn]]. rewrite E in Hm. cbn in Hm.
        destruct (r_id0 x Hx He) as [A B].
        destruct (g_in _ _ _ _ _ G1 x Hin) as [_ [Xa [Xd Xk]]].
        assert (Xa' : oatt (gobjs g x) = true) by congruence. destruct (B Xa') as [B1 B2].
        assert (Hks0 : ks_find x (fks f) = None).
        { destruct (ks_find x (fks f)) as [[old nw]|] eqn:Ek; auto.
          destruct (r_ks0 x old nw Ek) as [_ [_ [_ [Y|Y]]]]; [|congruence].
          unfold expunged in He. rewrite Y in He. discriminate. }
        unfold pkey in B1. rewrite Hks0 in B1.
        assert (Hk1 : okey (objs s1 x) = Some k) by congruence.
        destruct (g_rows _ _ _ _ _ G1 x k Hin Hk1) as [v0 [Hv0 [U1 [_ [U3 _]]]]].
        destruct (J1 x Hn) as [_ [_ J3]]. destruct (J3 Hm) as [C1 C2].
        assert (Hio : oin (gobjs g x) = true).
        { unfold pdelf in B2. rewrite El, Hdl in B2. cbn in B2. apply (g_pers _ _ _ _ _ GG x k); auto. }
        rewrite (r_row0 x k Hx He Hio Hd1 El Hk) in Hv0. assert (v0 = v) by congruence. subst v0. auto.
    - (* key switches *)
      intros x old nw Hk. rewrite Hks in Hk. destruct (mem x other) eqn:Eo.
      + destruct (other_att x Eo) as [Hn [Ha [Hd Hc]]].
        assert (Hfl' : mem x (fnew fZ) = true \/ mem x (fdirty fZ) = true).
        { rewrite Hfn, Hfd, Eo. cbn. destruct (mem x new); [left|right]; apply orb_true_r. }
        destruct (okey (objs s1 x)) as [k|] eqn:Ek.
        * destruct (Z.eqb_spec k (ikof s1 x)).
          -- destruct (r_ks0 x old nw Hk) as [A [B [C D]]]. rewrite Hkey, Eo, Hatt. repeat split; auto. congruence.
          -- inversion Hk; subst. rewrite Hkey, Eo, Hatt. repeat split; auto.
        * destruct (r_ks0 x old nw Hk) as [A [B [C D]]]. congruence.
      + destruct (r_ks0 x old nw Hk) as [A [B [C D]]]. rewrite Hkey, Eo, Hatt. repeat split; auto.
        rewrite Hfn, Hfd. destruct D as [D|D]; rewrite D; auto.
    - (* deleted in the frame *)
      intros x Hdl. rewrite Hfl in Hdl. destruct (mem x (fdel f)) eqn:El.
      + destruct (r_del0 x El) as [A [B [C [D F]]]].
        assert (Ed : mem x deleted = false).
        { destruct (mem x deleted) eqn:Ed; auto. destruct (Cdel x Ed) as [_ [X _]]. congruence. }
        assert (Eo : mem x other = false).
        { destruct (mem x other) eqn:Eo; auto. destruct (other_att x Eo) as [_ [_ [X _]]]. congruence. }
        rewrite (Crest x Ed Eo). auto.
      + cbn in Hdl. destruct (Cdel x Hdl) as [E [Hin Hn]]. rewrite E. cbn.
        destruct (g_in _ _ _ _ _ G1 x Hin) as [_ [Xa [_ Xk]]]. auto.
    - intros x [H|H]; [rewrite Hfn in H|rewrite Hfd in H]; apply orb_prop in H; destruct H as [H|H].
      + apply r_lists0; auto.
      + apply andb_prop in H. destruct H as [H _]. destruct (other_att x H); auto.
      + apply r_lists0; auto.
      + apply andb_prop in H. destruct H as [H _]. destruct (other_att x H); auto.
    - rewrite Hfk. apply ks_after_nodup. exact r_ksu0.
    - (* flushed as dirty *)
      intros x H. rewrite Hfd in H. rewrite Hfn. apply orb_prop in H. destruct H as [H|H].
      + destruct (r_dirty0 x H) as [X|X]; [left; rewrite X; reflexivity|right; exact X].
      + apply andb_prop in H. destruct H as [Eo Hnn]. apply negb_true_iff in Hnn.
        destruct (other_att x Eo) as [Hn [Ha [Hd [[X _]|[Xd [_ Hin]]]]]]; [apply mem_In in X; congruence|].
        destruct (mem x (fnew f)) eqn:Ef; [left; reflexivity|right].
        assert (He : expunged f new x = false) by (unfold expunged; rewrite Ef, Hnn; reflexivity).
        assert (Hx : x < gn g).
        { destruct (Nat.lt_ge_cases x (gn g)); auto.
          destruct (r_fresh0 x H Hn) as [Y|[Y _]]; congruence. }
        split; auto. destruct (r_id0 x Hx He) as [A B].
        assert (Xa : oatt (gobjs g x) = true) by congruence. destruct (B Xa) as [B1 B2].
        destruct (g_in _ _ _ _ _ G1 x Hin) as [_ [_ [Yd Yk]]].
        assert (Hdl : mem x (fdel f) = false).
        { destruct (mem x (fdel f)) eqn:El; auto. destruct (r_del0 x El) as [_ [Z _]]. congruence. }
        assert (Hdd : mem x deleted = false).
        { destruct (mem x deleted) eqn:Ed; auto. rewrite (del_not_other x Ed) in Eo. discriminate. }
        unfold pdelf in B2. rewrite Hdl, Hdd in B2. cbn in B2.
        assert (Hpk : pkey f (objs s1) x <> None).
        { unfold pkey. destruct (ks_find x (fks f)) as [[old nw]|]; [discriminate|exact Yk]. }
        destruct (okey (gobjs g x)) as [k|] eqn:Ek; [|congruence].
        apply (g_pers _ _ _ _ _ GG x k); auto. congruence.
    - (* objects in the deleted state since before the frame *)
      intros x Hx Ha Hi Hm.
      assert (Hin : oin (objs s1 x) = false).
      { eapply (Rel_notin g f (objs s1) n new deleted W0); eauto; try (constructor; auto). }
      assert (Ed : mem x deleted = false).
      { destruct (mem x deleted) eqn:Ed; auto. destruct (Cdel x Ed) as [_ [X _]]. congruence. }
      assert (Eo : mem x other = false).
      { destruct (mem x other) eqn:Eo; auto.
        destruct (other_att x Eo) as [_ [_ [_ [[X [Y _]]|[_ [_ X]]]]]]; [|congruence].
        (* pending now, attached but not in the map then: it had a key then *)
        exfalso. assert (He : expunged f new x = true) by (unfold expunged; apply mem_In in X; rewrite X; apply orb_true_r).
        pose proof (r_exp0 x Hx He). congruence. }
      rewrite (Crest x Ed Eo) in *. apply r_keep0; auto.
  Qed.
End FlushSem.

(* the invariants are extensional in the object function *)
Lemma Good_obj_ext : forall a b n W sn sd, (forall x, a x = b x) -> Good a n W sn sd -> Good b n W sn sd.
Proof.
  intros a b n W sn sd H G. destruct G as [g1 g2 g3 g4 g5 g5' g6 g6' g7 g8]. constructor.
  - intros o. rewrite <- H. apply g1.
  - intros o1 o2 k. rewrite <- !H. apply g2.
  - intros o k. rewrite <- H. apply g3.
  - intros o k. rewrite <- H. apply g4.
  - intros o. rewrite <- H. apply g5.
  - intros o. rewrite <- H. apply g5'.
  - intros o. rewrite <- H. apply g6.
  - exact g6'.
  - intros o k A B C D. rewrite <- H in *. destruct (g7 o k A B C D) as [X|[o' [X Y]]]; auto.
    right. exists o'. rewrite <- H. auto.
  - intros o. rewrite <- H. apply g8.
Qed.
Lemma J_obj_ext : forall a b n, (forall x, a x = b x) -> J a n -> J b n.
Proof. intros a b n H Ja x Hx. rewrite <- H. apply Ja; auto. Qed.
Lemma Rel_obj_ext : forall g f a b n sn sd W, (forall x, a x = b x) -> Rel g f a n sn sd W -> Rel g f b n sn sd W.
Proof.
  intros g f a b n sn sd W H R. destruct R as [r1 r2 r3 r4 r5 r6 r7 r8 r9 r9' r10 r11]. constructor; auto.
  - intros o A B. specialize (r3 o A B). unfold pkey, pdelf in *. rewrite <- H. exact r3.
  - intros o A B. rewrite <- H. apply r4; auto.
  - intros o k v. rewrite <- H. apply r6.
  - intros o old nw. rewrite <- H. apply r7.
  - intros o. rewrite <- H. apply r8.
  - intros o. rewrite <- H. apply r11.
Qed.

(* ------------------------------------------------------------------ the flush after the connection is there *)
Definition flush_body_k (k : option nat) (c : Z) (new dirty deleted : list nat) : M :=
  foldM (organize_pending deleted) new ;;
  withst (fun st0 => exec_f k c (stmts_of st0 new dirty deleted)) ;;
  finalize new dirty deleted.
Definition flush_body := flush_body_k None 0%Z.

Lemma flush_exec_unfold : forall new dirty deleted, flush_exec new dirty deleted = (provision ;; flush_body new dirty deleted).
Proof. reflexivity. Qed.

Lemma mem_fold_addm : forall l d x, mem x (fold_left (fun d o => addm o d) l d) = mem x d || mem x l.
Proof.
  induction l as [|a l IH]; intros d x; cbn [fold_left].
  - cbn. rewrite orb_false_r. reflexivity.
  - rewrite IH, mem_addm. cbn [mem existsb]. fold (mem x l). destruct (Nat.eqb x a), (mem x d), (mem x l); reflexivity.
Qed.

Section FlushBody.
  Variables (s0 : sess) (g : ghost) (f : frame) (rest : list frame) (dirty : list nat).
  Hypothesis GC : GClean g.
  Let n := nobj s0.
  Let W0 := work s0.
  Let new := snew s0.
  Let deleted := sdel s0.
  Hypothesis Hst0 : stack s0 = f :: rest.
  Hypothesis G0 : Good (objs s0) n W0 new deleted.
  Hypothesis J0 : J (objs s0) n.
  Hypothesis R0 : Rel g f (objs s0) n new deleted W0.
  Hypothesis Hdirty : forall x, In x dirty <-> (x < n /\ oin (objs s0 x) = true /\ omod (objs s0 x) = true /\ ~ In x deleted).
  Hypothesis Hdnd : NoDup dirty.

  (* everything before finalize_flush_changes only loads and executes statements *)
  Lemma flush_pre_spec : forall fk fc r sX,
    (foldM (organize_pending deleted) new ;; withst (fun st0 => exec_f fk fc (stmts_of st0 new dirty deleted))) s0 = (r, sX) ->
    r <> Unmodelled -> SigL s0 g f sX.
  Proof.
    intros fk fc r sX H Hr.
    pose proof (sigl0 s0 g f G0 J0 R0) as L0.
    apply bind_inv in H. destruct H as [[sa [Ha H]]|[Ha Hn]].
    2:{ destruct (organize_ok s0 g f GC new s0 r sX L0 eq_refl Ha Hr) as [_ [X _]]. exact X. }
    destruct (organize_ok s0 g f GC new s0 Ok sa L0 eq_refl Ha) as [_ [La Hwa]]; [discriminate|].
    rewrite withst_eq in H.
    pose proof (sig_init s0 g f dirty G0 Hdirty sa La Hwa) as Sa.
    assert (Wf : WfL (stmts_of sa new dirty deleted)).
    { apply stmts_of_wf; auto; try apply (g_nodup _ _ _ _ _ G0). intros x Hx. apply Hdirty in Hx. tauto. }
    change (stmts_of sa (snew s0) dirty (sdel s0)) with (stmts_of sa new dirty deleted) in Sa.
    destruct (exec_f_char _ _ _ _ _ _ H Hr) as [X1 X2].
    destruct r as [|c0|]; [|destruct X2 as [pre [suf [r0 [P1 [P2 P3]]]]]; [discriminate|]|congruence].
    - specialize (X1 eq_refl).
      rewrite <- (app_nil_r (stmts_of sa new dirty deleted)) in Sa, Wf.
      exact (stmts_prefix s0 g f GC _ [] _ _ _ _ _ Sa Wf X1 Hr).
    - rewrite P1 in Sa, Wf. exact (stmts_prefix s0 g f GC pre suf _ _ _ _ _ Sa Wf P2 P3).
  Qed.

  Theorem flush_body_spec : forall fk fc r sZ, flush_body_k fk fc new dirty deleted s0 = (r, sZ) -> r <> Unmodelled ->
    (r = Ok -> exists fZ, stack sZ = fZ :: rest /\
        fid fZ = fid f /\ fnested fZ = fnested f /\ fstate fZ = fstate f /\ frbexc fZ = frbexc f /\ fconn fZ = fconn f /\
        Good (objs sZ) n (work sZ) [] [] /\ J (objs sZ) n /\ Rel g fZ (objs sZ) n [] [] (work sZ) /\
        (forall x, oin (objs sZ x) = true -> omod (objs sZ x) = false) /\
        snew sZ = [] /\ sdel sZ = [] /\ nobj sZ = n /\ committed sZ = committed s0 /\ saves sZ = saves s0 /\
        nfid sZ = nfid s0 /\ eoc sZ = eoc s0 /\ handles sZ = handles s0 /\
        (* new key switches come from unflushed primary-key changes *)
        (forall x, ks_find x (fks fZ) <> None ->
           ks_find x (fks f) <> None \/ (oin (objs s0 x) = true /\ upd_sets_id (objs s0 x) = true))) /\
    (r <> Ok -> SigL s0 g f sZ).
  Proof.
    intros fk fc r sZ H Hr. unfold flush_body_k in H.
    pose proof (sigl0 s0 g f G0 J0 R0) as L0.
    apply bind_inv in H. destruct H as [[sa [Ha H]]|[Ha Hn]].
    2:{ destruct (organize_ok s0 g f GC new s0 r sZ L0 eq_refl Ha Hr) as [X _]. congruence. }
    destruct (organize_ok s0 g f GC new s0 Ok sa L0 eq_refl Ha) as [_ [La Hwa]]; [discriminate|].
    apply bind_inv in H. rewrite withst_eq in H.
    pose proof (sig_init s0 g f dirty G0 Hdirty sa La Hwa) as Sa.
    assert (Wf : WfL (stmts_of sa new dirty deleted)).
    { apply stmts_of_wf; auto; try apply (g_nodup _ _ _ _ _ G0). intros x Hx. apply Hdirty in Hx. tauto. }
    destruct H as [[s1 [H1 H]]|[H1 Hn]].
    2:{ destruct (exec_f_char _ _ _ _ _ _ H1 Hr) as [_ X]. destruct (X Hn) as [pre [suf [r0 [P1 [P2 P3]]]]].
        split; [congruence|]. intros _. change (stmts_of sa (snew s0) dirty (sdel s0)) with (stmts_of sa new dirty deleted) in Sa.
        rewrite P1 in Sa, Wf.
        exact (stmts_prefix s0 g f GC pre suf _ _ _ _ _ Sa Wf P2 P3). }
    destruct (exec_f_char _ _ _ _ _ _ H1) as [X0 _]; [discriminate|]. specialize (X0 eq_refl). clear H1. rename X0 into H1.
    destruct (stmts_fold s0 g f GC _ _ _ _ _ _ Sa Wf H1) as [X _]; [discriminate|].
    destruct (X eq_refl) as [rho [rv [S1 [U1 [U2 U3]]]]]. clear X.
    pose proof (sg_l _ _ _ _ _ _ _ S1) as L1.
    destruct (sl_rest _ _ _ _ L1) as [T1 [T2 [T3 [T4 [T5 [T6 [T7 [T8 T9]]]]]]]].
    (* the facts finalize needs *)
    assert (HU1 : forall x, ~ In x dirty -> ~ In x new -> ~ In x deleted ->
              rho x = (if oin (objs s1 x) then okey (objs s1 x) else None) /\
              (forall k v, okey (objs s1 x) = Some k -> W0 k = Some v -> rv x = v)).
    { intros x N1 N2 N3.
      destruct (U1 x) as [A [B C]].
      { intros a Ha' E. destruct (stmts_of_in sa new dirty deleted x) as [S1' [S2' S3']].
        destruct a as [o|o|o]; cbn in E; subst o; [apply N1, S1'|apply N2, S2'|apply N3, S3']; exact Ha'. }
      rewrite A, B, C. unfold rho0, rv0. split; auto.
      intros k v Hk Hv. rewrite Hk. unfold W0 in Hv. rewrite Hv. reflexivity. }
    assert (HU2 : forall x, In x dirty \/ In x new -> rho x <> None).
    { intros x Hx. apply U2. destruct (stmts_of_in sa new dirty deleted x) as [S1' [S2' _]].
      destruct Hx as [Hx|Hx]; [left; apply S1'|right; apply S2']; exact Hx. }
    assert (HU3 : forall x, In x deleted -> rho x = None /\ odid (objs s1 x) <> None /\ odv (objs s1 x) <> None).
    { intros x Hx. apply U3. destruct (stmts_of_in sa new dirty deleted x) as [_ [_ S3']]. apply S3'. exact Hx. }
    assert (Hst1 : stack s1 = f :: rest) by congruence.
    assert (Hn1 : nobj s1 = n) by exact T2.
    (* run finalize *)
    pose proof (finalize_compute s1 f rest new dirty deleted Hst1 T3 T4) as FC.
    assert (Hnd_del : NoDup deleted) by apply (g_nodup _ _ _ _ _ G0).
    assert (Hdisj : forall x, mem x deleted = true -> mem x (filter (fun o => mem o new || mem o dirty) (seq 0 (nobj s1))) = false).
    { intros x Hx. rewrite Hn1. apply (del_not_other s0 g f s1 rho rv dirty Hdirty S1). exact Hx. }
    assert (Hnew_lt : forall x, In x new -> x < nobj s1).
    { intros x Hx. rewrite Hn1. apply (g_new _ _ _ _ _ G0) in Hx. tauto. }
    specialize (FC Hnd_del Hdisj Hnew_lt).
    (* registration succeeded, so the objects had key values; get it from the run itself *)
    destruct (finalize new dirty deleted s1) as [rf sf] eqn:Ef.
    assert (rf = r /\ sf = sZ) by (split; congruence). destruct H0; subst rf sf.
    (* injectivity needs the key values, which we only know once registration succeeded: split on r *)
    assert (Hdid : forall o, mem o (filter (fun o => mem o new || mem o dirty) (seq 0 n)) = true -> odid (objs s1 o) <> None).
    { intros o Ho Hd.
      (* otherwise finalize is outside the model *)
      unfold finalize in Ef. rewrite (bind_ok _ _ _ (fold_left (fun s o => remove_newly_deleted o s) deleted s1)) in Ef by reflexivity.
      rewrite withst_eq in Ef.
      destruct (negb (nodupZ _)) in Ef; [inversion Ef; subst; congruence|].
      apply bind_inv in Ef.
      assert (Hall : all_objs (fold_left (fun s o => remove_newly_deleted o s) deleted s1) = seq 0 n).
      { unfold all_objs. destruct (stack s1) as [|f1 r1] eqn:Es; [congruence|].
        destruct (rnd_fold deleted s1 f1 r1 Es Hnd_del) as [_ [_ [_ [_ [A _]]]]]. rewrite A, Hn1. reflexivity. }
      rewrite Hall in Ef.
      assert (Hobj : objs (fold_left (fun s o => remove_newly_deleted o s) deleted s1) o = objs s1 o).
      { destruct (stack s1) as [|f1 r1] eqn:Es; [congruence|].
        destruct (rnd_fold deleted s1 f1 r1 Es Hnd_del) as [A _]. rewrite A.
        destruct (mem o deleted) eqn:Ed; auto. rewrite Hn1 in Hdisj. rewrite (Hdisj o Ed) in Ho. discriminate. }
      destruct Ef as [[s3 [E3 _]]|[E3 E4]].
      - apply mem_In in Ho. pose proof (register_fold_dids _ _ _ E3 o Ho) as X. rewrite Hobj in X. contradiction.
      - (* the registration loop never raises *)
        clear - E3 E4 Hr.
        revert E3. generalize (fold_left (fun s o => remove_newly_deleted o s) deleted s1).
        generalize (filter (fun o => mem o new || mem o dirty) (seq 0 n)). intros l.
        induction l as [|a l IH]; intros s E3.
        + inversion E3; subst; congruence.
        + cbn [foldM] in E3. apply bind_inv in E3. destruct E3 as [[sa' [Ha' Hb]]|[Ha' _]].
          * eapply IH; eauto.
          * unfold register_one in Ha'. destruct (odid (objs s a)); [|inversion Ha'; subst; congruence].
            destruct (okey (objs s a)); [destruct (Z.eqb _ _)|]; inversion Ha'; subst; congruence. }
    assert (Hinj := P2R_inj s0 g f s1 rho rv dirty Hdirty S1 HU1 HU2 Hdid).
    destruct (FC Hinj r sZ eq_refl Hr) as [Er [OZ [[fn [fd [SZ [Fn Fd]]]] [A1 [A2 [A3 [A4 [A5 [A6 [A7 [A8 A9]]]]]]]]]]].
    subst r. split; [|congruence]. intros _.
    eexists. split; [exact SZ|]. cbn [fid fnested fstate frbexc fconn f_dirty f_new f_ks f_del].
    split; [reflexivity|]. split; [reflexivity|]. split; [reflexivity|]. split; [reflexivity|]. split; [reflexivity|].
    destruct (restored_final s0 g f s1 rho rv dirty GC Hdirty S1 HU1 HU2 HU3 Hdid
                (f_dirty (f_new (f_ks (f_del f (fold_left (fun d o => addm o d) deleted (fdel f)))
                                   (ks_after (fun o => okey (objs s1 o)) (ikof s1) (filter (fun o => mem o new || mem o dirty) (seq 0 (nobj s1))) (fks f))) fn) fd))
      as [Gz [Jz [Rz Cz]]].
    { intros x. cbn -[mem]. rewrite Fn, Hn1. reflexivity. }
    { intros x. cbn -[mem]. rewrite Fd, Hn1. reflexivity. }
    { intros x. cbn -[mem]. apply mem_fold_addm. }
    { cbn. rewrite Hn1. reflexivity. }
    assert (Ext : forall x, FZ s1 new dirty deleted x = objs sZ x) by (intros; symmetry; apply OZ).
    rewrite A4.
    split; [eapply Good_obj_ext; eauto|]. split; [eapply J_obj_ext; eauto|]. split; [eapply Rel_obj_ext; eauto|].
    split; [intros x Hx; rewrite <- Ext in *; apply Cz; auto|].
    assert (KS : forall x, ks_find x (ks_after (fun o => okey (objs s1 o)) (ikof s1) (filter (fun o => mem o new || mem o dirty) (seq 0 (nobj s1))) (fks f)) <> None ->
               ks_find x (fks f) <> None \/ (oin (objs s0 x) = true /\ upd_sets_id (objs s0 x) = true)).
    { intros x Hx. rewrite ks_after_find in Hx by (apply NoDup_filter; apply seq_NoDup).
      destruct (mem x (filter (fun o => mem o new || mem o dirty) (seq 0 (nobj s1)))) eqn:Em; [|left; exact Hx].
      destruct (okey (objs s1 x)) as [k|] eqn:Ek; [|left; exact Hx].
      destruct (Z.eqb k (ikof s1 x)) eqn:Ez; [left; exact Hx|].
      destruct (ks_find x (fks f)) eqn:Efk; [left; discriminate|]. right.
      pose proof (sl_le _ _ _ _ L1 x) as [O1 [O2 [O3 [O4 [O5 [O6 [O7 [O8 O9]]]]]]]].
      assert (Ek0 : okey (objs s0 x) = Some k) by congruence.
      pose proof Em as Em'. apply mem_In in Em'. apply filter_In in Em'. destruct Em' as [Em1 Em2].
      assert (Hxd : In x dirty).
      { apply orb_prop in Em2. destruct Em2 as [E|E]; apply mem_In in E; auto.
        apply (g_new _ _ _ _ _ G0) in E. destruct E as [_ [E _]]. congruence. }
      apply Hdirty in Hxd. destruct Hxd as [Hxn [Hxi [Hxm _]]]. split; [exact Hxi|].
      rewrite Hn1 in Em. pose proof (Hdid x Em) as Hd1.
      destruct (odid (objs s1 x)) as [d|] eqn:Ed1; [|congruence].
      assert (Eik : ikof s1 x = d) by (unfold ikof; rewrite Ed1; reflexivity). rewrite Eik in Ez.
      destruct (g_rows _ _ _ _ _ G0 x k Hxi Ek0) as [v [Hv [V1 [V2 _]]]].
      destruct (odid (objs s0 x)) as [d0|] eqn:Ed0.
      - assert (d0 = d). { assert (X : Some d = Some d0) by (apply O8; discriminate). congruence. }
        subst d0. unfold upd_sets_id. rewrite Ed0.
        destruct (ocid (objs s0 x)) as [old|] eqn:Ec.
        + destruct (V2 old eq_refl) as [X _]. subst old. rewrite Ez. reflexivity.
        + exfalso. destruct (V1 eq_refl) as [X|X]; [discriminate|]. inversion X; subst. rewrite Z.eqb_refl in Ez. discriminate.
      - exfalso. destruct (J0 x Hxn) as [_ [Jb _]].
        assert (Ec : ocid (objs s0 x) = None). { destruct (ocid (objs s0 x)); auto. exfalso. apply Jb; [discriminate|exact Ed0]. }
        assert (Ec1 : ocid (objs s1 x) = None) by congruence.
        assert (Hi1 : oin (objs s1 x) = true) by congruence.
        destruct (g_rows _ _ _ _ _ (sl_good _ _ _ _ L1) x k Hi1 Ek) as [v1 [_ [W1 _]]].
        destruct (W1 Ec1) as [X|X]; [congruence|]. rewrite Ed1 in X. inversion X; subst. rewrite Z.eqb_refl in Ez. discriminate. }
    repeat split; auto; try congruence.
  Qed.
End FlushBody.
