(* C33 - a successful flush preserves the invariant (objects, rows, the frame's record). *)
From Coq Require Import List ZArith Bool Arith Lia Permutation.
Import ListNotations.
From SAV.orm Require Import SessTxn SessTxnBase SessTxnSpec SessTxnInv SessTxnOps SessTxnRestore SessTxnStmts.
Open Scope nat_scope.

(* ------------------------------------------------------------------ sorting by key is a permutation *)
Lemma insert_by_perm : forall st o l, Permutation (insert_by st o l) (o :: l).
Proof.
  intros st o l. induction l as [|x r IH]; cbn; auto.
  destruct (Z.leb (keyZ st o) (keyZ st x)); auto.
  eapply perm_trans; [apply perm_skip; exact IH|apply perm_swap].
Qed.
Lemma sort_by_key_perm : forall st l, Permutation (sort_by_key st l) l.
Proof.
  intros st l. unfold sort_by_key. induction l as [|x r IH]; cbn; auto.
  eapply perm_trans; [apply insert_by_perm|apply perm_skip; exact IH].
Qed.
Lemma sort_by_key_in : forall st l x, In x (sort_by_key st l) <-> In x l.
Proof.
  intros. split; intros H.
  - eapply Permutation_in; [apply sort_by_key_perm|exact H].
  - eapply Permutation_in; [apply Permutation_sym; apply sort_by_key_perm|exact H].
Qed.
Lemma sort_by_key_nodup : forall st l, NoDup l -> NoDup (sort_by_key st l).
Proof. intros st l H. eapply Permutation_NoDup; [apply Permutation_sym; apply sort_by_key_perm|exact H]. Qed.

(* the statement list of one flush is well-formed *)
Lemma NoDup_map_inj : forall {A B} (h : A -> B) l, (forall x y, h x = h y -> x = y) -> NoDup l -> NoDup (map h l).
Proof.
  intros A B h l Hh. induction l as [|a l IH]; intros H; cbn; constructor.
  - inversion H; subst. intros X. apply in_map_iff in X. destruct X as [y [E Hy]]. apply Hh in E. subst. contradiction.
  - inversion H; auto.
Qed.
Lemma stmts_of_wf : forall st new dirty deleted, NoDup new -> NoDup dirty -> NoDup deleted ->
  (forall x, In x dirty -> ~ In x deleted) -> WfL (stmts_of st new dirty deleted).
Proof.
  intros st new dirty deleted N1 N2 N3 Hd. unfold stmts_of, WfL. split.
  - assert (A1 : NoDup (map SUpd (sort_by_key st dirty))).
    { apply NoDup_map_inj; [intros x y E; congruence|apply sort_by_key_nodup; auto]. }
    assert (A2 : NoDup (map SIns new)). { apply NoDup_map_inj; [intros x y E; congruence|auto]. }
    assert (A3 : NoDup (map SDel (sort_by_key st deleted))).
    { apply NoDup_map_inj; [intros x y E; congruence|apply sort_by_key_nodup; auto]. }
    assert (A23 : NoDup (map SIns new ++ map SDel (sort_by_key st deleted))).
    { clear A1. clear N1. induction new as [|a r IH]; cbn; auto. inversion A2; subst. constructor.
      - intros X. apply in_app_or in X. destruct X as [X|X]; [contradiction|].
        apply in_map_iff in X. destruct X as [y [E _]]. discriminate.
      - apply IH. auto. }
    clear A2 A3. induction (sort_by_key st dirty) as [|a r IH]; cbn; auto.
    inversion A1; subst. constructor.
    + intros X. apply in_app_or in X. destruct X as [X|X]; [contradiction|].
      apply in_app_or in X. destruct X as [X|X]; apply in_map_iff in X; destruct X as [y [E _]]; discriminate.
    + apply IH. auto.
  - intros o Hu Hdel.
    apply in_app_or in Hu. destruct Hu as [Hu|Hu].
    2:{ apply in_app_or in Hu. destruct Hu as [Hu|Hu]; apply in_map_iff in Hu; destruct Hu as [y [E _]]; discriminate. }
    apply in_map_iff in Hu. destruct Hu as [y [E Hy]]. inversion E; subst y.
    apply in_app_or in Hdel. destruct Hdel as [X|X]; [apply in_map_iff in X; destruct X as [y [E' _]]; discriminate|].
    apply in_app_or in X. destruct X as [X|X]; apply in_map_iff in X; destruct X as [y [E' Hy']]; [discriminate|].
    inversion E'; subst y. apply sort_by_key_in in Hy. apply sort_by_key_in in Hy'. eapply Hd; eauto.
Qed.
Lemma stmts_of_in : forall st new dirty deleted o,
  (In (SUpd o) (stmts_of st new dirty deleted) <-> In o dirty) /\
  (In (SIns o) (stmts_of st new dirty deleted) <-> In o new) /\
  (In (SDel o) (stmts_of st new dirty deleted) <-> In o deleted).
Proof.
  intros. unfold stmts_of. repeat split; intros H.
  - apply in_app_or in H. destruct H as [H|H].
    + apply in_map_iff in H. destruct H as [y [E Hy]]. inversion E; subst. apply sort_by_key_in in Hy. auto.
    + apply in_app_or in H. destruct H as [H|H]; apply in_map_iff in H; destruct H as [y [E _]]; discriminate.
  - apply in_or_app. left. apply in_map. apply sort_by_key_in. auto.
  - apply in_app_or in H. destruct H as [H|H]; [apply in_map_iff in H; destruct H as [y [E _]]; discriminate|].
    apply in_app_or in H. destruct H as [H|H]; apply in_map_iff in H; destruct H as [y [E Hy]]; [|discriminate].
    inversion E; subst. auto.
  - apply in_or_app. right. apply in_or_app. left. apply in_map. auto.
  - apply in_app_or in H. destruct H as [H|H]; [apply in_map_iff in H; destruct H as [y [E _]]; discriminate|].
    apply in_app_or in H. destruct H as [H|H]; apply in_map_iff in H; destruct H as [y [E Hy]]; [discriminate|].
    inversion E; subst. apply sort_by_key_in in Hy. auto.
  - apply in_or_app. right. apply in_or_app. right. apply in_map. apply sort_by_key_in. auto.
Qed.

Lemma im_lookup_some : forall st k o, im_lookup st k = Some o ->
  o < nobj st /\ oin (objs st o) = true /\ okey (objs st o) = Some k.
Proof.
  intros st k o H. unfold im_lookup in H. apply find_some in H. destruct H as [H1 H2].
  apply in_seq in H1. apply andb_prop in H2. destruct H2 as [H2 H3].
  unfold key_is in H3. destruct (okey (objs st o)) as [k'|]; [|discriminate].
  apply Z.eqb_eq in H3. subst. repeat split; auto. lia.
Qed.

Section Flush.
  Variables (s0 : sess) (g : ghost) (f : frame).
  Hypothesis GC : GClean g.
  Let n := nobj s0.
  Let W0 := work s0.
  Let new := snew s0.
  Let deleted := sdel s0.
  Variable dirty : list nat.
  Hypothesis G0 : Good (objs s0) n W0 new deleted.
  Hypothesis J0 : J (objs s0) n.
  Hypothesis R0 : Rel g f (objs s0) n new deleted W0.
  Hypothesis Hdirty : forall x, In x dirty <-> (x < n /\ oin (objs s0 x) = true /\ omod (objs s0 x) = true /\ ~ In x deleted).
  Hypothesis Hdnd : NoDup dirty.

  Lemma sigl0 : SigL s0 g f s0.
  Proof. constructor; auto. apply sbo_refl. intros; apply obj_le_refl. Qed.

  (* the organize phase only loads *)
  Lemma organize_ok : forall l s r s', SigL s0 g f s -> work s = W0 ->
    foldM (organize_pending deleted) l s = (r, s') -> r <> Unmodelled ->
    r = Ok /\ SigL s0 g f s' /\ work s' = W0.
  Proof.
    induction l as [|o l IH]; intros s r s' L Hw H Hr.
    - inversion H; subst. auto.
    - cbn [foldM] in H. apply bind_inv in H.
      assert (Step : forall ra sa, organize_pending deleted o s = (ra, sa) -> ra <> Unmodelled ->
                ra = Ok /\ SigL s0 g f sa /\ work sa = W0).
      { intros ra sa Ha Hra. unfold organize_pending in Ha.
        destruct (odid (objs s o)) as [pk|]; [|inversion Ha; subst; congruence].
        destruct (im_lookup s pk) as [ex|] eqn:El; [|inversion Ha; subst; auto].
        destruct (im_lookup_some _ _ _ El) as [A [B C]].
        destruct (g_rows _ _ _ _ _ (sl_good _ _ _ _ L) ex pk B C) as [v [Hv _]].
        destruct (oexp (objs s ex)).
        - destruct (load_step s0 g f GC s ex pk v L B C) as [s1 [E1 [E2 [E3 [E4 E5]]]]]; [rewrite Hw; exact Hv|exact Hv|].
          rewrite E1 in Ha. destruct (mem ex deleted); inversion Ha; subst; [congruence|].
          split; [reflexivity|]. split; [exact E5|]. rewrite E3. exact Hw.
        - destruct (mem ex deleted); inversion Ha; subst; [congruence|auto]. }
      destruct H as [[s1 [H1 H2]]|[H1 Hn]].
      + destruct (Step Ok s1 H1) as [_ [A B]]; [discriminate|]. eapply IH; eauto.
      + destruct (Step r s' H1 Hr) as [A _]. congruence.
  Qed.

  Definition rho0 (s : sess) (x : nat) : option Z := if oin (objs s x) then okey (objs s x) else None.
  Definition rv0 (s : sess) (x : nat) : Z :=
    match okey (objs s x) with Some k => match W0 k with Some v => v | None => 0%Z end | None => 0%Z end.

  Lemma sig_init : forall s, SigL s0 g f s -> work s = W0 ->
    Sig s0 g f (stmts_of s new dirty deleted) s (rho0 s) (rv0 s).
  Proof.
    intros s L Hw. pose proof (sl_good _ _ _ _ L) as G. pose proof (sl_j _ _ _ _ L) as Jh.
    assert (Hle := sl_le _ _ _ _ L).
    assert (Hrv : forall x k v, okey (objs s x) = Some k -> W0 k = Some v -> rv0 s x = v).
    { intros x k v Hk Hv. unfold rv0. rewrite Hk, Hv. reflexivity. }
    assert (Hrho : forall x p, rho0 s x = Some p -> oin (objs s x) = true /\ okey (objs s x) = Some p).
    { intros x p H. unfold rho0 in H. destruct (oin (objs s x)); [auto|discriminate]. }
    constructor; auto.
    - intros x p H. destruct (Hrho x p H) as [A B].
      destruct (g_rows _ _ _ _ _ G x p A B) as [v [Hv _]]. rewrite Hw. rewrite (Hrv x p v B Hv). exact Hv.
    - intros x y p Hx Hy. destruct (Hrho x p Hx) as [A B]. destruct (Hrho y p Hy) as [C D].
      eapply (g_uniq _ _ _ _ _ G); eauto.
    - intros p Hp.
      destruct (find (fun x => oin (objs s x) && key_is p (objs s x)) (seq 0 n)) as [x|] eqn:Ef.
      + left. apply find_some in Ef. destruct Ef as [_ Ef]. apply andb_prop in Ef. destruct Ef as [E1 E2].
        exists x. unfold rho0. rewrite E1. unfold key_is in E2. destruct (okey (objs s x)) as [k|]; [|discriminate].
        apply Z.eqb_eq in E2. congruence.
      + right. split; [rewrite Hw; reflexivity|]. intros x Hx Hk.
        destruct (Hle x) as [Q1 [_ [_ [Q4 _]]]].
        assert (Hx' : oin (objs s x) = true) by congruence.
        destruct (g_in _ _ _ _ _ G x Hx') as [Hn _].
        eapply find_none with (x := x) in Ef; [|apply in_seq; lia].
        rewrite Hx' in Ef. unfold key_is in Ef. rewrite Q1, Hk in Ef. rewrite Z.eqb_refl in Ef. discriminate.
    - intros o Ho.
      assert (Hin : oin (objs s o) = true).
      { destruct (Hle o) as [_ [_ [_ [Q4 _]]]]. rewrite Q4.
        destruct (stmts_of_in s new dirty deleted o) as [S1 [_ S3]].
        destruct Ho as [Ho|Ho].
        - apply S1 in Ho. apply Hdirty in Ho. tauto.
        - apply S3 in Ho. apply (g_del _ _ _ _ _ G0). exact Ho. }
      split; auto. destruct (g_in _ _ _ _ _ G o Hin) as [_ [_ [_ Hk]]].
      destruct (okey (objs s o)) as [k|] eqn:Ek; [|congruence]. exists k.
      destruct (g_rows _ _ _ _ _ G o k Hin Ek) as [v [Hv _]].
      repeat split; auto.
      + unfold rho0. rewrite Hin. exact Ek.
      + rewrite (Hrv o k v Ek Hv). exact Hv.
    - intros o Ho. destruct (stmts_of_in s new dirty deleted o) as [_ [S2 _]]. apply S2 in Ho.
      split; auto. unfold rho0.
      apply (g_new _ _ _ _ _ G) in Ho. destruct Ho as [_ [Hk _]].
      destruct (oin (objs s o)) eqn:E; auto.
    - intros x p H. destruct (Hrho x p H) as [A B].
      destruct (g_in _ _ _ _ _ G x A) as [Hn _].
      destruct (stmts_of_in s new dirty deleted x) as [S1 [_ S3]].
      destruct (omod (objs s x)) eqn:Em.
      + destruct (mem x deleted) eqn:Ed.
        * right; left. apply S3. apply mem_In. exact Ed.
        * left. apply S1. apply Hdirty. destruct (Hle x) as [_ [_ [_ [Q4 [Q5 _]]]]].
          split; [exact Hn|]. split; [congruence|]. split; [congruence|].
          intros X. apply mem_In in X. congruence.
      + right; right. destruct (g_rows _ _ _ _ _ G x p A B) as [v [Hv [V1 [_ [V3 _]]]]].
        destruct (Jh x Hn) as [_ [_ J3]]. destruct (J3 Em) as [C1 C2].
        rewrite (Hrv x p v B Hv). auto.
    - intros x H. destruct (rho0 s x) as [p|] eqn:E; [|congruence]. destruct (Hrho x p E) as [A B].
      destruct (g_in _ _ _ _ _ G x A) as [Hn _]. auto.
  Qed.
End Flush.

(* ------------------------------------------------------------------ finalize_flush_changes *)
(* a fold whose step changes one object by a function of that object alone *)
Lemma fold_objs_pointwise : forall (step : nat -> sess -> sess) (F : nat -> obj -> obj),
  (forall o s x, x <> o -> objs (step o s) x = objs s x) ->
  (forall o s, objs (step o s) o = F o (objs s o)) ->
  forall l s, NoDup l ->
  forall x, objs (fold_left (fun s o => step o s) l s) x = if mem x l then F x (objs s x) else objs s x.
Proof.
  intros step F H1 H2. induction l as [|o l IH]; intros s Hnd x; cbn [fold_left]; auto.
  inversion Hnd; subst. rewrite IH by auto. cbn [mem existsb]. fold (mem x l).
  destruct (Nat.eqb_spec x o).
  - subst. cbn. destruct (mem o l) eqn:E; [apply mem_In in E; contradiction|]. apply H2.
  - cbn. rewrite H1 by auto. reflexivity.
Qed.

Lemma rnd_objs : forall o s x, objs (remove_newly_deleted o s) x =
  if Nat.eqb x o then o_delf (o_in (objs s o) false) true else objs s x.
Proof.
  intros o s x. unfold remove_newly_deleted.
  match goal with |- objs (mod_obj ?s1 o ?g) x = _ => set (S1 := s1) end.
  assert (E : forall y, objs S1 y = if Nat.eqb y o then o_in (objs s o) false else objs s y).
  { intros y. unfold S1. cbn [objs set_sdel]. unfold safe_discard.
    destruct (upd_head_fields s (fun f => f_del f (addm o (fdel f)))) as [X _].
    destruct (Nat.eqb_spec y o).
    - subst. rewrite objs_mod_same. rewrite X. reflexivity.
    - rewrite objs_mod_other by auto. rewrite X. reflexivity. }
  destruct (Nat.eqb_spec x o).
  - subst. rewrite objs_mod_same. rewrite E. rewrite Nat.eqb_refl. reflexivity.
  - rewrite objs_mod_other by auto. rewrite E. destruct (Nat.eqb_spec x o); [contradiction|reflexivity].
Qed.

Lemma rnd_rest : forall o s f0 rest, stack s = f0 :: rest ->
  stack (remove_newly_deleted o s) = f_del f0 (addm o (fdel f0)) :: rest /\
  sdel (remove_newly_deleted o s) = remm o (sdel s) /\ snew (remove_newly_deleted o s) = snew s /\
  nobj (remove_newly_deleted o s) = nobj s /\ work (remove_newly_deleted o s) = work s /\
  committed (remove_newly_deleted o s) = committed s /\ saves (remove_newly_deleted o s) = saves s /\
  nfid (remove_newly_deleted o s) = nfid s /\ eoc (remove_newly_deleted o s) = eoc s /\
  handles (remove_newly_deleted o s) = handles s.
Proof.
  intros o s f0 rest Hs. unfold remove_newly_deleted, safe_discard.
  destruct (upd_head_fields s (fun f => f_del f (addm o (fdel f)))) as [X0 [X1 [X2 [X3 [X4 [X5 [X6 [X7 [X8 [X9 X10]]]]]]]]]].
  cbn. rewrite X1, X2, X3, X4, X5, X6, X7, X8, X9, X10, Hs. repeat split; reflexivity.
Qed.

Lemma filter_remm_cons : forall o l r,
  filter (fun x => negb (mem x l)) (remm o r) = filter (fun x => negb (mem x (o :: l))) r.
Proof.
  intros o l r. unfold remm. induction r as [|a r IH]; [reflexivity|].
  cbn [filter]. assert (E : mem a (o :: l) = Nat.eqb a o || mem a l) by reflexivity. rewrite E.
  destruct (Nat.eqb_spec o a).
  - subst. rewrite Nat.eqb_refl. cbn. exact IH.
  - destruct (Nat.eqb_spec a o); [congruence|]. cbn [negb orb filter].
    destruct (mem a l); cbn; [exact IH|f_equal; exact IH].
Qed.

Lemma rnd_fold : forall l s f0 rest, stack s = f0 :: rest -> NoDup l ->
  let s' := fold_left (fun s o => remove_newly_deleted o s) l s in
  (forall x, objs s' x = if mem x l then o_delf (o_in (objs s x) false) true else objs s x) /\
  stack s' = f_del f0 (fold_left (fun d o => addm o d) l (fdel f0)) :: rest /\
  sdel s' = filter (fun x => negb (mem x l)) (sdel s) /\ snew s' = snew s /\
  nobj s' = nobj s /\ work s' = work s /\ committed s' = committed s /\ saves s' = saves s /\
  nfid s' = nfid s /\ eoc s' = eoc s /\ handles s' = handles s.
Proof.
  induction l as [|o l IH]; intros s f0 rest Hs Hnd; cbn [fold_left].
  - assert (X : forall l0 : list nat, l0 = filter (fun x => negb (mem x [])) l0).
    { induction l0 as [|a r IHr]; cbn; auto. f_equal. exact IHr. }
    repeat split; auto; try apply X. rewrite Hs; destruct f0; reflexivity.
  - inversion Hnd; subst.
    destruct (rnd_rest o s f0 rest Hs) as [A0 [A1 [A2 [A3 [A4 [A5 [A6 [A7 [A8 A9]]]]]]]]].
    destruct (IH (remove_newly_deleted o s) _ rest A0 H2) as [B0 [B1 [B2 [B3 [B4 [B5 [B6 [B7 [B8 [B9 B10]]]]]]]]]].
    split; [|split; [|split; [|repeat split; congruence]]].
    + intros x. rewrite B0, rnd_objs. cbn [mem existsb]. fold (mem x l).
      destruct (Nat.eqb_spec x o); cbn [orb].
      * subst. destruct (mem o l) eqn:E; [apply mem_In in E; contradiction|]. reflexivity.
      * reflexivity.
    + rewrite B1. reflexivity.
    + rewrite B2, A1. apply filter_remm_cons.
Qed.

(* ---- _register_persistent: on the objects it is the re-keying loop of _restore_snapshot *)
Lemma find_ext : forall {A} (p q : A -> bool) l, (forall x, In x l -> p x = q x) -> find p l = find q l.
Proof.
  intros A p q l H. induction l as [|a l IH]; cbn; auto.
  rewrite (H a) by (left; auto). destruct (q a); auto. apply IH. intros; apply H; right; auto.
Qed.
Lemma im_other_ext : forall s t o, (forall x, objs s x = objs t x) -> nobj s = nobj t -> im_other s o = im_other t o.
Proof.
  intros s t o H Hn. unfold im_other, all_objs. rewrite H, Hn. destruct (okey (objs t o)); auto.
  apply find_ext. intros x _. rewrite H. reflexivity.
Qed.
Lemma im_replace_objs : forall s o x, objs (im_replace o s) x =
  if Nat.eqb x o then o_in (objs s o) true
  else match im_other s o with
       | Some o' => if Nat.eqb x o' then o_in (objs s o') false else objs s x
       | None => objs s x
       end.
Proof.
  intros s o x. unfold im_replace. destruct (im_other s o) as [o'|] eqn:E.
  - destruct (im_other_some _ _ _ E) as [_ [Hne _]].
    destruct (Nat.eqb_spec x o).
    + subst. rewrite objs_mod_same. rewrite objs_mod_other by auto. reflexivity.
    + rewrite objs_mod_other by auto. destruct (Nat.eqb_spec x o').
      * subst. rewrite objs_mod_same. reflexivity.
      * rewrite objs_mod_other by auto. reflexivity.
  - destruct (Nat.eqb_spec x o).
    + subst. rewrite objs_mod_same. reflexivity.
    + rewrite objs_mod_other by auto. reflexivity.
Qed.
Lemma im_replace_ext : forall s t o, (forall x, objs s x = objs t x) -> nobj s = nobj t ->
  forall x, objs (im_replace o s) x = objs (im_replace o t) x.
Proof.
  intros s t o H Hn x. rewrite !im_replace_objs. rewrite (im_other_ext s t o H Hn). rewrite !H.
  destruct (im_other t o); rewrite ?H; reflexivity.
Qed.

Lemma im_replace_fields : forall o s,
  nobj (im_replace o s) = nobj s /\ snew (im_replace o s) = snew s /\ sdel (im_replace o s) = sdel s /\
  work (im_replace o s) = work s /\ committed (im_replace o s) = committed s /\ saves (im_replace o s) = saves s /\
  nfid (im_replace o s) = nfid s /\ eoc (im_replace o s) = eoc s /\ handles (im_replace o s) = handles s /\
  stack (im_replace o s) = stack s.
Proof. intros o s. unfold im_replace. destruct (im_other s o); repeat split; reflexivity. Qed.

Lemma obj_key_eta : forall ob k, okey ob = Some k -> o_key ob (Some k) = ob.
Proof. intros [a b c d e f0 g0 h i j] k H. cbn in *. subst. reflexivity. Qed.

Lemma im_other_ext' : forall s t o, (forall x, x <> o -> objs s x = objs t x) ->
  okey (objs s o) = okey (objs t o) -> nobj s = nobj t -> im_other s o = im_other t o.
Proof.
  intros s t o H Hk Hn. unfold im_other, all_objs. rewrite Hk, Hn. destruct (okey (objs t o)); auto.
  apply find_ext. intros x _. destruct (Nat.eqb_spec x o); [reflexivity|]. rewrite H by auto. reflexivity.
Qed.
Lemma im_replace_ext' : forall s t o, (forall x, x <> o -> objs s x = objs t x) ->
  okey (objs s o) = okey (objs t o) -> o_in (objs s o) true = o_in (objs t o) true -> nobj s = nobj t ->
  forall x, objs (im_replace o s) x = objs (im_replace o t) x.
Proof.
  intros s t o H Hk Ho Hn x. rewrite !im_replace_objs. rewrite (im_other_ext' s t o H Hk Hn).
  destruct (Nat.eqb_spec x o); [exact Ho|].
  destruct (im_other t o) as [o'|] eqn:E; [|apply H; auto].
  destruct (im_other_some _ _ _ E) as [_ [Hne _]].
  destruct (Nat.eqb_spec x o'); [subst; rewrite H by auto; reflexivity|apply H; auto].
Qed.

Lemma register_sim : forall o s t ik ks, (forall x, objs s x = objs t x) -> nobj s = nobj t ->
  odid (objs s o) = Some ik -> ks_find o ks = Some (ik, ik) ->
  exists s', register_one o s = (Ok, s') /\
    (forall x, objs s' x = objs (restore_ks_one [] ks o t) x) /\
    nobj s' = nobj s /\ snew s' = snew s /\ sdel s' = sdel s /\ work s' = work s /\ committed s' = committed s /\
    saves s' = saves s /\ nfid s' = nfid s /\ eoc s' = eoc s /\ handles s' = handles s /\
    stack s' = match stack s with
               | [] => []
               | f0 :: r =>
                   match okey (objs s o) with
                   | Some k => if Z.eqb k ik then f0 :: r
                               else f_ks f0 (ks_set o (match ks_find o (fks f0) with Some (old, _) => old | None => k end, ik) (fks f0)) :: r
                   | None => f0 :: r
                   end
               end.
Proof.
  intros o s t ik ks H Hn Hd Hk. unfold register_one. rewrite Hd. unfold restore_ks_one. rewrite Hk. cbn [mem existsb].
  set (t2 := mod_obj (safe_discard o t) o (fun ob => o_key ob (Some ik))).
  assert (T2o : objs t2 o = o_key (o_in (objs t o) false) (Some ik)).
  { unfold t2. rewrite objs_mod_same. unfold safe_discard. rewrite objs_mod_same. reflexivity. }
  assert (T2x : forall y, y <> o -> objs t2 y = objs t y).
  { intros y Hy. unfold t2. rewrite objs_mod_other by auto. unfold safe_discard. rewrite objs_mod_other; auto. }
  assert (T2n : nobj t2 = nobj t) by reflexivity.
  destruct (okey (objs s o)) as [k|] eqn:Ek.
  - destruct (Z.eqb_spec k ik).
    + subst k. eexists. split; [reflexivity|].
      split; [|destruct (im_replace_fields o s) as [F1 [F2 [F3 [F4 [F5 [F6 [F7 [F8 [F9 F10]]]]]]]]];
               rewrite F1, F2, F3, F4, F5, F6, F7, F8, F9, F10; destruct (stack s); repeat split; reflexivity].
      apply im_replace_ext'.
      * intros y Hy. rewrite T2x by auto. apply H.
      * rewrite T2o. cbn. exact Ek.
      * rewrite T2o. rewrite <- H. rewrite <- (obj_key_eta (objs s o) ik Ek) at 1. reflexivity.
      * congruence.
    + set (h := fun f0 : frame => f_ks f0 (ks_set o (match ks_find o (fks f0) with Some (old, _) => old | None => k end, ik) (fks f0))).
      destruct (upd_head_fields (safe_discard o s) h) as [X0 [X1 [X2 [X3 [X4 [X5 [X6 [X7 [X8 [X9 X10]]]]]]]]]].
      set (s2 := mod_obj (upd_head (safe_discard o s) h) o (fun ob => o_key ob (Some ik))).
      eexists. split; [reflexivity|]. fold h. fold s2.
      assert (S2o : objs s2 o = o_key (o_in (objs s o) false) (Some ik)).
      { unfold s2. rewrite objs_mod_same. rewrite X0. unfold safe_discard. rewrite objs_mod_same. reflexivity. }
      assert (S2x : forall y, y <> o -> objs s2 y = objs s y).
      { intros y Hy. unfold s2. rewrite objs_mod_other by auto. rewrite X0. unfold safe_discard. rewrite objs_mod_other; auto. }
      split.
      * apply im_replace_ext'.
        -- intros y Hy. rewrite S2x, T2x by auto. apply H.
        -- rewrite S2o, T2o. reflexivity.
        -- rewrite S2o, T2o, H. reflexivity.
        -- unfold s2. cbn. rewrite X1. cbn. exact Hn.
      * destruct (im_replace_fields o s2) as [F1 [F2 [F3 [F4 [F5 [F6 [F7 [F8 [F9 F10]]]]]]]]].
        rewrite F1, F2, F3, F4, F5, F6, F7, F8, F9, F10. unfold s2. cbn.
        rewrite X1, X2, X3, X4, X5, X6, X7, X8, X9, X10. cbn. destruct (stack s); repeat split; reflexivity.
  - eexists. split; [reflexivity|].
    set (s2 := mod_obj s o (fun ob => o_key ob (Some ik))).
    split.
    + apply im_replace_ext'.
      * intros y Hy. unfold s2. rewrite objs_mod_other by auto. rewrite T2x by auto. apply H.
      * unfold s2. rewrite objs_mod_same, T2o. reflexivity.
      * unfold s2. rewrite objs_mod_same, T2o, H. reflexivity.
      * unfold s2. cbn. exact Hn.
    + destruct (im_replace_fields o s2) as [F1 [F2 [F3 [F4 [F5 [F6 [F7 [F8 [F9 F10]]]]]]]]].
      rewrite F1, F2, F3, F4, F5, F6, F7, F8, F9, F10. unfold s2. cbn. destruct (stack s); repeat split; reflexivity.
Qed.

(* register_one / restore_ks_one leave primary-key values and other objects' keys alone *)
Lemma restore_ks_one_keeps : forall E ks o s x,
  odid (objs (restore_ks_one E ks o s) x) = odid (objs s x) /\
  (x <> o -> okey (objs (restore_ks_one E ks o s) x) = okey (objs s x)).
Proof.
  intros E ks o s x. unfold restore_ks_one. destruct (ks_find o ks) as [[old nw]|]; [|auto].
  set (s2 := mod_obj (safe_discard o s) o (fun ob => o_key ob (Some old))).
  assert (A : odid (objs s2 x) = odid (objs s x) /\ (x <> o -> okey (objs s2 x) = okey (objs s x))).
  { unfold s2. destruct (Nat.eqb_spec x o).
    - subst. rewrite objs_mod_same. unfold safe_discard. rewrite objs_mod_same. split; [reflexivity|congruence].
    - rewrite objs_mod_other by auto. unfold safe_discard. rewrite objs_mod_other by auto. auto. }
  destruct (mem o E); [exact A|].
  rewrite im_replace_objs. destruct A as [A1 A2].
  destruct (Nat.eqb_spec x o).
  - subst. cbn. split; [exact A1|congruence].
  - destruct (im_other s2 o) as [o'|]; [|auto].
    destruct (Nat.eqb_spec x o'); [subst; cbn; auto|auto].
Qed.

(* the key-switch record _register_persistent leaves in the frame *)
Definition ks_after (key0 : nat -> option Z) (ikof : nat -> Z) (l : list nat) (fk : list (nat * (Z * Z))) :=
  fold_left (fun fk o =>
    match key0 o with
    | Some k => if Z.eqb k (ikof o) then fk
                else ks_set o (match ks_find o fk with Some (old, _) => old | None => k end, ikof o) fk
    | None => fk
    end) l fk.

Lemma register_fold : forall ks (ikof : nat -> Z) l s t f0 rest,
  (forall x, objs s x = objs t x) -> nobj s = nobj t -> stack s = f0 :: rest -> NoDup l ->
  (forall o, In o l -> odid (objs s o) = Some (ikof o) /\ ks_find o ks = Some (ikof o, ikof o)) ->
  exists s', foldM register_one l s = (Ok, s') /\
    (forall x, objs s' x = objs (fold_left (fun s o => restore_ks_one [] ks o s) l t) x) /\
    nobj s' = nobj s /\ snew s' = snew s /\ sdel s' = sdel s /\ work s' = work s /\ committed s' = committed s /\
    saves s' = saves s /\ nfid s' = nfid s /\ eoc s' = eoc s /\ handles s' = handles s /\
    stack s' = f_ks f0 (ks_after (fun o => okey (objs s o)) ikof l (fks f0)) :: rest.
Proof.
  intros ks ikof. induction l as [|o l IH]; intros s t f0 rest H Hn Hs Hnd Hl.
  - exists s. cbn. repeat split; auto. rewrite Hs. destruct f0; reflexivity.
  - inversion Hnd; subst. destruct (Hl o (or_introl eq_refl)) as [Hd Hk].
    destruct (register_sim o s t (ikof o) ks H Hn Hd Hk) as [s1 [E1 [O1 [N1 [A1 [A2 [A3 [A4 [A5 [A6 [A7 [A8 A9]]]]]]]]]]]].
    rewrite Hs in A9.
    set (f1 := match okey (objs s o) with
               | Some k => if Z.eqb k (ikof o) then f0
                           else f_ks f0 (ks_set o (match ks_find o (fks f0) with Some (old, _) => old | None => k end, ikof o) (fks f0))
               | None => f0 end).
    assert (S1 : stack s1 = f1 :: rest).
    { rewrite A9. unfold f1. destruct (okey (objs s o)); [destruct (Z.eqb _ _)|]; reflexivity. }
    assert (Keep : forall x, odid (objs s1 x) = odid (objs s x) /\ (x <> o -> okey (objs s1 x) = okey (objs s x))).
    { intros x. rewrite O1. destruct (restore_ks_one_keeps [] ks o t x) as [B1 B2]. rewrite B1. rewrite H. split; auto. }
    destruct (IH s1 (restore_ks_one [] ks o t) f1 rest O1) as [s' [E' [O' [N' [B1 [B2 [B3 [B4 [B5 [B6 [B7 [B8 B9]]]]]]]]]]]].
    + rewrite N1. destruct (restore_ks_one [] ks o t) eqn:E. 
      unfold restore_ks_one in E. rewrite Hk in E. cbn [mem existsb] in E.
      destruct (im_replace_fields o (mod_obj (safe_discard o t) o (fun ob => o_key ob (Some (ikof o))))) as [F1 _].
      rewrite E in F1. cbn in F1. cbn. congruence.
    + exact S1.
    + exact H3.
    + intros x Hx. destruct (Keep x) as [K1 _]. rewrite K1. apply Hl. right; auto.
    + exists s'. cbn [foldM]. rewrite (bind_ok _ _ _ _ E1). split; [exact E'|].
      split; [exact O'|]. repeat split; try congruence.
      rewrite B9. unfold ks_after. cbn [fold_left].
      assert (X : fks f1 = match okey (objs s o) with
                  | Some k => if Z.eqb k (ikof o) then fks f0
                              else ks_set o (match ks_find o (fks f0) with Some (old, _) => old | None => k end, ikof o) (fks f0)
                  | None => fks f0 end).
      { unfold f1. destruct (okey (objs s o)); [destruct (Z.eqb _ _)|]; reflexivity. }
      rewrite X.
      assert (Y : f_ks f1 = f_ks f0). { unfold f1. destruct (okey (objs s o)); [destruct (Z.eqb _ _)|]; reflexivity. }
      rewrite Y. f_equal. f_equal.
      (* the keys of the remaining objects are still the original ones *)
      clear - Keep H2. revert H2. generalize (match okey (objs s o) with
                  | Some k => if Z.eqb k (ikof o) then fks f0
                              else ks_set o (match ks_find o (fks f0) with Some (old, _) => old | None => k end, ikof o) (fks f0)
                  | None => fks f0 end).
      induction l as [|a l IHl]; intros fk Hni; cbn; auto.
      destruct (Keep a) as [_ K2]. rewrite K2 by (intros X; subst; apply Hni; left; auto).
      apply IHl. intros X; apply Hni; right; auto.
Qed.

Lemma fold_ks_filter : forall E ks (P : nat -> bool) l s,
  (forall x, In x l -> P x = false -> ks_find x ks = None) ->
  fold_left (fun s o => restore_ks_one E ks o s) l s =
  fold_left (fun s o => restore_ks_one E ks o s) (filter P l) s.
Proof.
  intros E ks P. induction l as [|a l IH]; intros s H; cbn; auto.
  destruct (P a) eqn:Ea; cbn.
  - apply IH. intros; apply H; auto. right; auto.
  - unfold restore_ks_one at 2. rewrite (H a) by (auto; left; auto). apply IH. intros; apply H; auto. right; auto.
Qed.

Lemma ks_find_map : forall (h : nat -> Z * Z) l o,
  ks_find o (map (fun x => (x, h x)) l) = if mem o l then Some (h o) else None.
Proof.
  intros h l o. induction l as [|a l IH]; cbn; auto.
  rewrite (Nat.eqb_sym o a). destruct (Nat.eqb_spec a o); [subst; reflexivity|]. exact IH.
Qed.

(* commit_one on the frame *)
Lemma commit_one_objs : forall o s x, objs (commit_one o s) x = if Nat.eqb x o then commit_obj (objs s o) else objs s x.
Proof.
  intros o s x. unfold commit_one.
  set (s1 := mod_obj s o commit_obj).
  assert (E : objs s1 x = if Nat.eqb x o then commit_obj (objs s o) else objs s x).
  { unfold s1. destruct (Nat.eqb_spec x o); [subst; apply objs_mod_same|apply objs_mod_other; auto]. }
  destruct (mem o (snew s1));
    match goal with |- objs (upd_head ?S ?h) x = _ => destruct (upd_head_fields S h) as [X _]; rewrite X end; exact E.
Qed.
Lemma commit_fold_rest : forall l s f0 rest, stack s = f0 :: rest ->
  let s' := fold_left (fun s o => commit_one o s) l s in
  exists fn fd, stack s' = f_dirty (f_new f0 fn) fd :: rest /\
    (forall x, mem x fn = mem x (fnew f0) || (mem x l && mem x (snew s))) /\
    (forall x, mem x fd = mem x (fdirty f0) || (mem x l && negb (mem x (snew s)))) /\
    snew s' = snew s /\ sdel s' = sdel s /\ nobj s' = nobj s /\ work s' = work s /\ committed s' = committed s /\
    saves s' = saves s /\ nfid s' = nfid s /\ eoc s' = eoc s /\ handles s' = handles s.
Proof.
  induction l as [|o l IH]; intros s f0 rest Hs; cbn [fold_left].
  - exists (fnew f0), (fdirty f0). rewrite Hs. split; [destruct f0; reflexivity|].
    split; [intros; cbn; rewrite orb_false_r; reflexivity|].
    split; [intros; cbn; rewrite orb_false_r; reflexivity|]. repeat split; reflexivity.
  - set (s1 := commit_one o s).
    assert (A : exists f1, stack s1 = f1 :: rest /\ fdel f1 = fdel f0 /\ fks f1 = fks f0 /\ fid f1 = fid f0 /\
                  fnested f1 = fnested f0 /\ fstate f1 = fstate f0 /\ frbexc f1 = frbexc f0 /\ fconn f1 = fconn f0 /\
                  (forall x, mem x (fnew f1) = mem x (fnew f0) || (Nat.eqb x o && mem o (snew s))) /\
                  (forall x, mem x (fdirty f1) = mem x (fdirty f0) || (Nat.eqb x o && negb (mem o (snew s)))) /\
                  snew s1 = snew s /\ sdel s1 = sdel s /\ nobj s1 = nobj s /\ work s1 = work s /\ committed s1 = committed s /\
                  saves s1 = saves s /\ nfid s1 = nfid s /\ eoc s1 = eoc s /\ handles s1 = handles s).
    { unfold s1, commit_one. cbn [snew mod_obj set_obj set_objs].
      destruct (mem o (snew s)) eqn:Em.
      - match goal with |- exists f1, stack (upd_head ?S ?h) = _ /\ _ =>
          destruct (upd_head_fields S h) as [X0 [X1 [X2 [X3 [X4 [X5 [X6 [X7 [X8 [X9 X10]]]]]]]]]] end.
        cbn in X10. rewrite Hs in X10. eexists. split; [exact X10|]. cbn -[mem].
        rewrite X1, X2, X3, X4, X5, X6, X7, X8, X9. cbn -[mem].
        repeat split; auto.
        + intros x. rewrite mem_addm. rewrite andb_true_r. apply orb_comm.
        + intros x. rewrite andb_false_r, orb_false_r. reflexivity.
      - match goal with |- exists f1, stack (upd_head ?S ?h) = _ /\ _ =>
          destruct (upd_head_fields S h) as [X0 [X1 [X2 [X3 [X4 [X5 [X6 [X7 [X8 [X9 X10]]]]]]]]]] end.
        cbn in X10. rewrite Hs in X10. eexists. split; [exact X10|]. cbn -[mem].
        rewrite X1, X2, X3, X4, X5, X6, X7, X8, X9. cbn -[mem].
        repeat split; auto.
        + intros x. rewrite andb_false_r, orb_false_r. reflexivity.
        + intros x. rewrite mem_addm. rewrite andb_true_r. apply orb_comm. }
    destruct A as [f1 [S1 [D1 [K1 [I1 [N1 [T1 [R1 [C1 [Fn1 [Fd1 [A1 [A2 [A3 [A4 [A5 [A6 [A7 [A8 A9]]]]]]]]]]]]]]]]]]].
    destruct (IH s1 f1 rest S1) as [fn [fd [B0 [B1 [B2 [B3 [B4 [B5 [B6 [B7 [B8 [B9 [B10 B11]]]]]]]]]]]]].
    exists fn, fd. split.
    + rewrite B0. destruct f1, f0; cbn in *. subst. reflexivity.
    + split; [|split; [|repeat split; congruence]].
      * intros x. rewrite B1, Fn1, A1. cbn [mem existsb]. fold (mem x l).
        destruct (Nat.eqb_spec x o); subst; cbn; destruct (mem o (snew s)), (mem o l); cbn;
          rewrite ?orb_true_r, ?orb_false_r; auto;
          try (destruct (mem x (fnew f0)), (mem x l), (mem x (snew s)); reflexivity).
      * intros x. rewrite B2, Fd1, A1. cbn [mem existsb]. fold (mem x l).
        destruct (Nat.eqb_spec x o); subst; cbn; destruct (mem o (snew s)), (mem o l); cbn;
          rewrite ?orb_true_r, ?orb_false_r; auto;
          try (destruct (mem x (fdirty f0)), (mem x l), (mem x (snew s)); reflexivity).
Qed.
