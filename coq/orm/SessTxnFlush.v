(* C33 - a successful flush preserves the invariant (objects, rows, the frame's record). *)
From Coq Require Import List ZArith Bool Arith Lia Permutation.
Import ListNotations.
From SAV.orm Require Import SessTxn SessTxnBase SessTxnSpec SessTxnInv SessTxnOps SessTxnRestore SessTxnStmts.
Open Scope nat_scope.

(* ------------------------------------------------------------------ sorting by key is a permutation *)
Lemma insert_by_perm : forall st o l, Permutation (insert_by st o l) (o :: l).
Proof.
  intros st o l. induction l as [|x r IH]; cbn; auto.
  destruct (Z.leb (keyZ st o) (keyZ st x)); auto.
  eapply perm_trans; [apply perm_skip; exact IH|apply perm_swap].
Qed.
Lemma sort_by_key_perm : forall st l, Permutation (sort_by_key st l) l.
Proof.
  intros st l. unfold sort_by_key. induction l as [|x r IH]; cbn; auto.
  eapply perm_trans; [apply insert_by_perm|apply perm_skip; exact IH].
Qed.
Lemma sort_by_key_in : forall st l x, In x (sort_by_key st l) <-> In x l.
Proof.
  intros. split; intros H.
  - eapply Permutation_in; [apply sort_by_key_perm|exact H].
  - eapply Permutation_in; [apply Permutation_sym; apply sort_by_key_perm|exact H].
Qed.
Lemma sort_by_key_nodup : forall st l, NoDup l -> NoDup (sort_by_key st l).
Proof. intros st l H. eapply Permutation_NoDup; [apply Permutation_sym; apply sort_by_key_perm|exact H]. Qed.

(* the statement list of one flush is well-formed *)
Lemma NoDup_map_inj : forall {A B} (h : A -> B) l, (forall x y, h x = h y -> x = y) -> NoDup l -> NoDup (map h l).
Proof.
  intros A B h l Hh. induction l as [|a l IH]; intros H; cbn; constructor.
  - inversion H; subst. intros X. apply in_map_iff in X. destruct X as [y [E Hy]]. apply Hh in E. subst. contradiction.
  - inversion H; auto.
Qed.
Lemma stmts_of_wf : forall st new dirty deleted, NoDup new -> NoDup dirty -> NoDup deleted ->
  (forall x, In x dirty -> ~ In x deleted) -> WfL (stmts_of st new dirty deleted).
Proof.
  intros st new dirty deleted N1 N2 N3 Hd. unfold stmts_of, WfL. split.
  - assert (A1 : NoDup (map SUpd (sort_by_key st dirty))).
    { apply NoDup_map_inj; [intros x y E; congruence|apply sort_by_key_nodup; auto]. }
    assert (A2 : NoDup (map SIns new)). { apply NoDup_map_inj; [intros x y E; congruence|auto]. }
    assert (A3 : NoDup (map SDel (sort_by_key st deleted))).
    { apply NoDup_map_inj; [intros x y E; congruence|apply sort_by_key_nodup; auto]. }
    assert (A23 : NoDup (map SIns new ++ map SDel (sort_by_key st deleted))).
    { clear A1. clear N1. induction new as [|a r IH]; cbn; auto. inversion A2; subst. constructor.
      - intros X. apply in_app_or in X. destruct X as [X|X]; [contradiction|].
        apply in_map_iff in X. destruct X as [y [E _]]. discriminate.
      - apply IH. auto. }
    clear A2 A3. induction (sort_by_key st dirty) as [|a r IH]; cbn; auto.
    inversion A1; subst. constructor.
    + intros X. apply in_app_or in X. destruct X as [X|X]; [contradiction|].
      apply in_app_or in X. destruct X as [X|X]; apply in_map_iff in X; destruct X as [y [E _]]; discriminate.
    + apply IH. auto.
  - intros o Hu Hdel.
    apply in_app_or in Hu. destruct Hu as [Hu|Hu].
    2:{ apply in_app_or in Hu. destruct Hu as [Hu|Hu]; apply in_map_iff in Hu; destruct Hu as [y [E _]]; discriminate. }
    apply in_map_iff in Hu. destruct Hu as [y [E Hy]]. inversion E; subst y.
    apply in_app_or in Hdel. destruct Hdel as [X|X]; [apply in_map_iff in X; destruct X as [y [E' _]]; discriminate|].
    apply in_app_or in X. destruct X as [X|X]; apply in_map_iff in X; destruct X as [y [E' Hy']]; [discriminate|].
    inversion E'; subst y. apply sort_by_key_in in Hy. apply sort_by_key_in in Hy'. eapply Hd; eauto.
Qed.
Lemma stmts_of_in : forall st new dirty deleted o,
  (In (SUpd o) (stmts_of st new dirty deleted) <-> In o dirty) /\
  (In (SIns o) (stmts_of st new dirty deleted) <-> In o new) /\
  (In (SDel o) (stmts_of st new dirty deleted) <-> In o deleted).
Proof.
  intros. unfold stmts_of. repeat split; intros H.
  - apply in_app_or in H. destruct H as [H|H].
    + apply in_map_iff in H. destruct H as [y [E Hy]]. inversion E; subst. apply sort_by_key_in in Hy. auto.
    + apply in_app_or in H. destruct H as [H|H]; apply in_map_iff in H; destruct H as [y [E _]]; discriminate.
  - apply in_or_app. left. apply in_map. apply sort_by_key_in. auto.
  - apply in_app_or in H. destruct H as [H|H]; [apply in_map_iff in H; destruct H as [y [E _]]; discriminate|].
    apply in_app_or in H. destruct H as [H|H]; apply in_map_iff in H; destruct H as [y [E Hy]]; [|discriminate].
    inversion E; subst. auto.
  - apply in_or_app. right. apply in_or_app. left. apply in_map. auto.
  - apply in_app_or in H. destruct H as [H|H]; [apply in_map_iff in H; destruct H as [y [E _]]; discriminate|].
    apply in_app_or in H. destruct H as [H|H]; apply in_map_iff in H; destruct H as [y [E Hy]]; [discriminate|].
    inversion E; subst. apply sort_by_key_in in Hy. auto.
  - apply in_or_app. right. apply in_or_app. right. apply in_map. apply sort_by_key_in. auto.
Qed.

Lemma im_lookup_some : forall st k o, im_lookup st k = Some o ->
  o < nobj st /\ oin (objs st o) = true /\ okey (objs st o) = Some k.
Proof.
  intros st k o H. unfold im_lookup in H. apply find_some in H. destruct H as [H1 H2].
  apply in_seq in H1. apply andb_prop in H2. destruct H2 as [H2 H3].
  unfold key_is in H3. destruct (okey (objs st o)) as [k'|]; [|discriminate].
  apply Z.eqb_eq in H3. subst. repeat split; auto. lia.
Qed.

Section Flush.
  Variables (s0 : sess) (g : ghost) (f : frame).
  Hypothesis GC : GClean g.
  Let n := nobj s0.
  Let W0 := work s0.
  Let new := snew s0.
  Let deleted := sdel s0.
  Variable dirty : list nat.
  Hypothesis G0 : Good (objs s0) n W0 new deleted.
  Hypothesis J0 : J (objs s0) n.
  Hypothesis R0 : Rel g f (objs s0) n new deleted W0.
  Hypothesis Hdirty : forall x, In x dirty <-> (x < n /\ oin (objs s0 x) = true /\ omod (objs s0 x) = true /\ ~ In x deleted).
  Hypothesis Hdnd : NoDup dirty.

  Lemma sigl0 : SigL s0 g f s0.
  Proof. constructor; auto. apply sbo_refl. intros; apply obj_le_refl. Qed.

  (* the organize phase only loads *)
  Lemma organize_ok : forall l s r s', SigL s0 g f s -> work s = W0 ->
    foldM (organize_pending deleted) l s = (r, s') -> r <> Unmodelled ->
    r = Ok /\ SigL s0 g f s' /\ work s' = W0.
  Proof.
    induction l as [|o l IH]; intros s r s' L Hw H Hr.
    - inversion H; subst. auto.
    - cbn [foldM] in H. apply bind_inv in H.
      assert (Step : forall ra sa, organize_pending deleted o s = (ra, sa) -> ra <> Unmodelled ->
                ra = Ok /\ SigL s0 g f sa /\ work sa = W0).
      { intros ra sa Ha Hra. unfold organize_pending in Ha.
        destruct (odid (objs s o)) as [pk|]; [|inversion Ha; subst; congruence].
        destruct (im_lookup s pk) as [ex|] eqn:El; [|inversion Ha; subst; auto].
        destruct (im_lookup_some _ _ _ El) as [A [B C]].
        destruct (g_rows _ _ _ _ _ (sl_good _ _ _ _ L) ex pk B C) as [v [Hv _]].
        destruct (oexp (objs s ex)).
        - destruct (load_step s0 g f GC s ex pk v L B C) as [s1 [E1 [E2 [E3 [E4 E5]]]]]; [rewrite Hw; exact Hv|exact Hv|].
          rewrite E1 in Ha. destruct (mem ex deleted); inversion Ha; subst; [congruence|].
          split; [reflexivity|]. split; [exact E5|]. rewrite E3. exact Hw.
        - destruct (mem ex deleted); inversion Ha; subst; [congruence|auto]. }
      destruct H as [[s1 [H1 H2]]|[H1 Hn]].
      + destruct (Step Ok s1 H1) as [_ [A B]]; [discriminate|]. eapply IH; eauto.
      + destruct (Step r s' H1 Hr) as [A _]. congruence.
  Qed.
End Flush.
