(* C41: refutation witnesses and corollaries *)
From Coq Require Import List ZArith Bool Arith Lia.
Import ListNotations.
From SAV.sql Require Import Val3.
From SAV.orm Require Import Query QueryCrit QueryShapes QueryAsm.

(* ~P.children.contains(c) for a child c without parent: compiled to  NOT (p.id = NULL)  -> no row;
   the relational meaning (c is in no collection) selects every parent *)
Definition wit_db1 : db := {| ps := [ {| p_id := 4; p_x := Some 3%Z |} ];
                              cs := [ {| c_id := 7; c_pid := None; c_y := Some 0%Z; c_kind := 0 |} ]; ns := []; pn := [] |}.
Definition wit_q1 : oq := QP (PNot (PContains 7)).

Lemma core_meaning_refuted : exists d q,
  core_exec d (orm_to_core d q) = [] /\ meaning d q = [[Some 4%Z]] /\ query_ok d q = false.
Proof. exists wit_db1, wit_q1. repeat split; vm_compute; reflexivity. Qed.

(* legacy Query: three joined rows (7,0) (7,2) (7,2) -> all() returns two, count() says three *)
Definition wit_db2 : db :=
  {| ps := [ {| p_id := 7; p_x := Some 0%Z |} ];
     cs := [ {| c_id := 7; c_pid := Some 7%Z; c_y := Some 0%Z; c_kind := 1 |};
             {| c_id := 9; c_pid := Some 7%Z; c_y := Some 2%Z; c_kind := 1 |};
             {| c_id := 2; c_pid := Some 7%Z; c_y := Some 2%Z; c_kind := 0 |} ]; ns := []; pn := [] |}.
Definition wit_q2 : oq := QJoinPC false TgAlias STrue STrue EntCol.

Lemma count_agree_legacy_refuted : exists d q,
  orm_count d q = 3 /\ length (orm_exec d q true) = 2 /\ length (core_exec d (orm_to_core d q)) = 3.
Proof. exists wit_db2, wit_q2. repeat split; vm_compute; reflexivity. Qed.

(* any() / has() are two-valued EXISTS tests over the related rows; a NULL foreign key relates to nothing *)
Theorem any_has_semantics : forall d,
  (forall e pa p s, lookup e pa = grow_p p -> pa <> sub_alias ->
     beval d e (tr_pcrit d pa (PAny s)) =
     tv_of_bool (existsb (fun c => child_of c p && is_true (sxeval s (c_y c))) (cs d))) /\
  (forall e pa p s, lookup e pa = grow_p p -> pa <> sub_alias ->
     beval d e (tr_pcrit d pa (PAnySub s)) =
     tv_of_bool (existsb (fun c => child_of c p && (is_sub c && is_true (sxeval s (c_y c)))) (cs d))) /\
  (forall e ca c s, lookup e ca = grow_c c -> ca <> sub_alias ->
     beval d e (tr_ccrit ca (CHas s)) =
     tv_of_bool (existsb (fun p => child_of c p && is_true (sxeval s (p_x p))) (ps d))) /\
  (forall c p, c_pid c = None -> child_of c p = false).
Proof.
  intros d. split; [exact (any_semantics d)|]. split; [exact (any_sub_semantics d)|].
  split; [exact (has_semantics d)|]. intros c p H. unfold child_of. rewrite H. reflexivity.
Qed.

(* legacy Query.union(..).offset(1).exists() (formerly a cartesian product union x p; repaired in 2942091):
   the union has one row, the query returns none, count() is 0 and exists() is false *)
Definition wit_db3 : db := {| ps := [ {| p_id := 1; p_x := Some 1%Z |}; {| p_id := 2; p_x := Some 5%Z |} ]; cs := []; ns := []; pn := [] |}.
Definition wit_q3 : oq := QUnion (PS (SCmp OEq 1)) (PS (SCmp OEq 1)).
