(* C47 - proofs: flush is idempotent; autoflush = explicit flush for every entry point (guarded); refuted
   witnesses for lazy loads on pending objects; disabled autoflush writes nothing *)
From Coq Require Import List ZArith NArith Bool Arith Lia.
Import ListNotations.
From SAV.orm Require Import Autoflush.

(* ---------------------------------------------------------------- flush is idempotent *)
Lemma clean_idem : forall o, clean (clean o) = clean o.
Proof. intros []; reflexivity. Qed.
Lemma not_del_clean : forall o, not_del (clean o) = true.
Proof. intros []; reflexivity. Qed.
Lemma filter_not_del_clean : forall l, filter not_del (map clean l) = map clean l.
Proof. induction l as [|o l IH]; [reflexivity|]. cbn [map filter]. rewrite not_del_clean, IH. reflexivity. Qed.
Lemma flush_row_clean : forall d o, flush_row d (clean o) = d.
Proof. intros d []; reflexivity. Qed.
Lemma fold_clean : forall l d, fold_left flush_row (map clean l) d = d.
Proof. induction l as [|o l IH]; intros d; [reflexivity|]. cbn [map fold_left]. rewrite flush_row_clean. apply IH. Qed.
Lemma fold_ps_clean : forall (l : list (N * bool)) d,
  fold_left (fun d (p : N * bool) => if snd p then ins_N (fst p) d else d) (map (fun p : N * bool => (fst p, false)) l) d = d.
Proof. induction l as [|p l IH]; intros d; simpl; auto. Qed.

Lemma flush_idem : forall s, flush (flush s) = flush s.
Proof.
  intros s. unfold flush at 1. cbn [dbc dbp cs ps nc np saf flushing flush].
  rewrite fold_clean, fold_ps_clean, filter_not_del_clean.
  rewrite map_map. rewrite (map_ext _ clean (fun o => clean_idem o)).
  rewrite map_map. cbn [fst]. reflexivity.
Qed.

Lemma enabled_flush : forall k m s, enabled k m (flush s) = enabled k m s.
Proof. intros k [] s; reflexivity. Qed.
Lemma aft_flush : forall k m s, enabled k m s = true ->
  autoflush_then k m s = flush s /\ autoflush_then k m (flush s) = flush s.
Proof.
  intros k m s E. unfold autoflush_then. rewrite enabled_flush, E. split; auto. apply flush_idem.
Qed.

(* ---------------------------------------------------------------- lookups after a flush *)
Lemma find_c_In : forall k l o, find_c k l = Some o -> In o l /\ c_id o = k.
Proof.
  unfold find_c. intros k l o H. apply find_some in H. destruct H as [H1 H2]. apply N.eqb_eq in H2. auto.
Qed.
Lemma find_ident_In : forall k l o, find_ident k l = Some o -> In o l /\ c_id o = k /\ has_identity o = true.
Proof.
  unfold find_ident. intros k l o H. apply find_some in H. destruct H as [H1 H2].
  apply andb_prop in H2. destruct H2 as [H2 H3]. apply N.eqb_eq in H2. auto.
Qed.

Lemma find_c_flush : forall k l o, find_c k l = Some o -> not_del o = true ->
  find_c k (map clean (filter not_del l)) = Some (clean o).
Proof.
  unfold find_c. induction l as [|x l IH]; intros o H N; simpl in *; [discriminate|].
  destruct (N.eqb (c_id x) k) eqn:E.
  - inversion H. subst x. rewrite N. simpl. destruct o; simpl in *. rewrite E. reflexivity.
  - destruct (not_del x); [|apply IH; auto]. simpl. destruct x; simpl in *. rewrite E. apply IH; auto.
Qed.
Lemma find_c_flush_none : forall k l, find_c k l = None -> find_c k (map clean (filter not_del l)) = None.
Proof.
  unfold find_c. induction l as [|x l IH]; intros H; simpl in *; auto.
  destruct (N.eqb (c_id x) k) eqn:E; [discriminate|].
  destruct (not_del x); [|apply IH; auto]. simpl. destruct x; simpl in *. rewrite E. apply IH; auto.
Qed.

Lemma find_ident_flush : forall k l o, NoDup (map c_id l) -> find_ident k l = Some o -> not_del o = true ->
  find_ident k (map clean (filter not_del l)) = Some (clean o).
Proof.
  unfold find_ident. induction l as [|x l IH]; intros o ND H N; simpl in *; [discriminate|].
  inversion ND as [|? ? Hx ND']. subst.
  destruct (N.eqb (c_id x) k && has_identity x) eqn:E.
  - inversion H. subst x. rewrite N. simpl. destruct o; simpl in *.
    apply andb_prop in E. destruct E as [E1 E2]. rewrite E1. reflexivity.
  - destruct (N.eqb (c_id x) k) eqn:Ei.
    + (* same id, but pending: the object found later would share the id *)
      exfalso. apply N.eqb_eq in Ei. apply find_some in H. destruct H as [H1 H2].
      apply andb_prop in H2. destruct H2 as [H2 _]. apply N.eqb_eq in H2.
      apply Hx. rewrite Ei, <- H2. apply in_map. exact H1.
    + destruct (not_del x); [|apply IH; auto]. simpl. destruct x; simpl in *. rewrite Ei. simpl. apply IH; auto.
Qed.

Lemma find_p_flush : forall k (l : list (N * bool)),
  find_p k (map (fun p : N * bool => (fst p, false)) l) =
  match find_p k l with Some (i, _) => Some (i, false) | None => None end.
Proof.
  unfold find_p. induction l as [|[i b] l IH]; simpl; auto.
  destruct (N.eqb i k); auto.
Qed.

Lemma ent_clean : forall o, ent (clean o) = ent o.
Proof. intros []; reflexivity. Qed.
Lemma set_cs_self : forall s, set_cs (cs s) s = s.
Proof. intros []; reflexivity. Qed.

(* ---------------------------------------------------------------- the guarded region *)
(* no persistent object with id k has unflushed changes of its own *)
Definition undirty (o : cobj) : cobj := mkC (c_id o) (c_st o) (c_val o) (c_pid o) false.
Definition clean_at (k : N) (l : list cobj) : bool :=
  forallb (fun o => negb (N.eqb (c_id o) k && status_eqb (c_st o) Pers && c_dirty o)) l.

Definition guardq (k : qkind) (a : Z) (s : st) : bool :=
  let an := Z.to_N a in
  match k with
  | Get => match find_ident an (cs s) with Some o => not_del o | None => true end
  | LazyP => match find_c an (cs s) with Some o => status_eqb (c_st o) Pers | None => false end
  | Children => match find_p an (ps s) with Some (_, false) => true | _ => false end
  | Refresh => match find_c an (cs s) with Some o => status_eqb (c_st o) Pers | None => false end && clean_at an (cs s)
  | _ => true
  end.

Lemma flush_row_undirty : forall k d o, negb (N.eqb (c_id o) k && status_eqb (c_st o) Pers && c_dirty o) = true ->
  flush_row d (if N.eqb (c_id o) k then undirty o else o) = flush_row d o.
Proof.
  intros k d [i st v p dd] H. simpl in *. destruct (N.eqb i k); auto.
  destruct st; simpl in *; auto. destruct dd; simpl in *; [discriminate|reflexivity].
Qed.
Lemma fold_undirty : forall k l d, clean_at k l = true ->
  fold_left flush_row (upd_c k undirty l) d = fold_left flush_row l d.
Proof.
  unfold clean_at, upd_c. induction l as [|o l IH]; intros d H; simpl in *; auto.
  apply andb_prop in H. destruct H as [H1 H2]. rewrite (flush_row_undirty k d o H1). apply IH. exact H2.
Qed.
Lemma clean_filter_undirty : forall k l,
  map clean (filter not_del (upd_c k undirty l)) = map clean (filter not_del l).
Proof.
  unfold upd_c. induction l as [|o l IH]; [reflexivity|]. cbn [map filter].
  assert (N1 : not_del (if N.eqb (c_id o) k then undirty o else o) = not_del o) by (destruct (N.eqb (c_id o) k); destruct o; reflexivity).
  assert (C1 : clean (if N.eqb (c_id o) k then undirty o else o) = clean o) by (destruct (N.eqb (c_id o) k); destruct o; reflexivity).
  rewrite N1. destruct (not_del o); cbn [map]; rewrite ?C1, IH; reflexivity.
Qed.
Lemma flush_undirty : forall k s, clean_at k (cs s) = true -> flush (set_cs (upd_c k undirty (cs s)) s) = flush s.
Proof.
  intros k s H. unfold flush. cbn [dbc dbp cs ps nc np saf flushing set_cs].
  rewrite (fold_undirty k (cs s) (dbc s) H), clean_filter_undirty. reflexivity.
Qed.
Lemma upd_undirty_clean : forall k l, upd_c k undirty (map clean l) = map clean l.
Proof.
  unfold upd_c. intros k l. rewrite map_map. apply map_ext. intros [i st v p d]. simpl.
  destruct (N.eqb i k); reflexivity.
Qed.

(* ---------------------------------------------------------------- autoflush = explicit flush *)
Theorem autoflush_equiv_explicit_flush : forall k m a s,
  NoDup (map c_id (cs s)) -> enabled k m s = true -> guardq k a s = true ->
  snd (exec k m a s) = snd (exec k m a (flush s)).
Proof.
  intros k m a s ND E G. destruct (aft_flush k m s E) as [A1 A2].
  destruct k; unfold exec; cbv zeta.
  - (* SelEnt *) rewrite A1, A2. reflexivity.
  - rewrite A1, A2. reflexivity.
  - rewrite A1, A2. reflexivity.
  - rewrite A1, A2. reflexivity.
  - (* Get *) unfold guardq in G. cbv zeta in G.
    destruct (find_ident (Z.to_N a) (cs s)) as [o|] eqn:F.
    + cbn [cs flush]. rewrite (find_ident_flush _ _ o ND F G). cbn [snd]. rewrite ent_clean. reflexivity.
    + rewrite A1, A2. destruct (find_ident (Z.to_N a) (cs (flush s))) as [o|] eqn:F2; reflexivity.
  - (* LazyP *) unfold guardq in G. cbv zeta in G.
    destruct (find_c (Z.to_N a) (cs s)) as [o|] eqn:F; [|discriminate].
    assert (Nd : not_del o = true) by (unfold not_del; destruct (c_st o); simpl in *; auto; discriminate).
    cbn [cs flush]. rewrite (find_c_flush _ _ o F Nd).
    destruct o as [i st v p d]. simpl in G. destruct st; try discriminate. cbn [c_st clean c_pid].
    destruct (N.eqb p 0); [reflexivity|].
    change (map (fun p0 : N * bool => (fst p0, false)) (ps s)) with (ps (flush s)).
    rewrite A1, A2.
    assert (FP := find_p_flush p (ps s)). change (map (fun p0 : N * bool => (fst p0, false)) (ps s)) with (ps (flush s)) in FP.
    destruct (find_p p (ps s)) as [[i' [|]]|] eqn:Fp; rewrite FP.
    + unfold load_parent. rewrite FP. reflexivity.
    + reflexivity.
    + reflexivity.
  - (* Children *) unfold guardq in G. cbv zeta in G.
    assert (FP := find_p_flush (Z.to_N a) (ps s)). change (map (fun p0 : N * bool => (fst p0, false)) (ps s)) with (ps (flush s)) in FP.
    destruct (find_p (Z.to_N a) (ps s)) as [[i' [|]]|] eqn:Fp; try discriminate.
    rewrite FP, A1, A2. reflexivity.
  - (* GetP *)
    assert (FP := find_p_flush (Z.to_N a) (ps s)). change (map (fun p0 : N * bool => (fst p0, false)) (ps s)) with (ps (flush s)) in FP.
    rewrite A1, A2.
    destruct (find_p (Z.to_N a) (ps s)) as [[i' [|]]|] eqn:Fp; rewrite FP.
    + unfold load_parent. rewrite FP. reflexivity.
    + reflexivity.
    + reflexivity.
  - (* Refresh *) unfold guardq in G. cbv zeta in G. apply andb_prop in G. destruct G as [_ G].
    fold (undirty). change (fun o : cobj => mkC (c_id o) (c_st o) (c_val o) (c_pid o) false) with undirty.
    unfold autoflush_then. cbn [saf flushing set_cs enabled].
    assert (E1 : enabled Refresh m (set_cs (upd_c (Z.to_N a) undirty (cs s)) s) = true) by (destruct m; exact E).
    assert (E2 : enabled Refresh m (set_cs (upd_c (Z.to_N a) undirty (cs (flush s))) (flush s)) = true) by (destruct m; exact E).
    rewrite E1, E2.
    rewrite (flush_undirty _ s G).
    assert (X : set_cs (upd_c (Z.to_N a) undirty (cs (flush s))) (flush s) = flush s).
    { cbn [cs flush]. rewrite upd_undirty_clean. apply (set_cs_self (flush s)). }
    rewrite X, flush_idem. reflexivity.
  - rewrite A1, A2. reflexivity.
  - rewrite A1, A2. reflexivity.
  - rewrite A1, A2. reflexivity.
  - rewrite A1, A2. reflexivity.
  - rewrite A1, A2. reflexivity.
  - rewrite A1, A2. reflexivity.
  - rewrite A1, A2. reflexivity.
  - discriminate E.
Qed.

(* ---------------------------------------------------------------- documented: no load is emitted for a pending object *)
(* parent 1 exists; a pending child with pid = 1: its lazy load returns nothing, after a flush it returns
   the parent.  A pending parent: its collection load returns nothing, after a flush the re-parented child. *)
Definition wit_lazy : st := mkSt [] [1%N] [mkC 1 Pend 10 1 false] [] 2 2 true false.
Definition wit_coll : st := mkSt [(1%N, (10%Z, 0%N))] [] [mkC 1 Pers 10 2 true] [(2%N, true)] 2 3 true false.

Lemma lazy_load_on_pending_refuted :
  enabled LazyP MDefault wit_lazy = true /\ NoDup (map c_id (cs wit_lazy)) /\
  snd (exec LazyP MDefault 1 wit_lazy) = [] /\ snd (exec LazyP MDefault 1 (flush wit_lazy)) = [[1%Z]].
Proof. vm_compute. repeat split; auto. repeat constructor; simpl; tauto. Qed.
Lemma collection_load_on_pending_refuted :
  enabled Children MDefault wit_coll = true /\ NoDup (map c_id (cs wit_coll)) /\
  snd (exec Children MDefault 2 wit_coll) = [] /\ snd (exec Children MDefault 2 (flush wit_coll)) = [[1%Z]].
Proof. vm_compute. repeat split; auto. repeat constructor; simpl; tauto. Qed.

(* ---------------------------------------------------------------- disabled: nothing is written *)
Lemma resolve_db : forall acc row, dbc (fst (resolve acc row)) = dbc (fst acc) /\ dbp (fst (resolve acc row)) = dbp (fst acc)
  /\ ps (fst (resolve acc row)) = ps (fst acc).
Proof. intros [s out] row. unfold resolve. destruct (find_ident (fst row) (cs s)); simpl; auto. Qed.
Lemma fold_resolve_db : forall rs acc, dbc (fst (fold_left resolve rs acc)) = dbc (fst acc) /\
  dbp (fst (fold_left resolve rs acc)) = dbp (fst acc) /\ ps (fst (fold_left resolve rs acc)) = ps (fst acc).
Proof.
  induction rs as [|r rs IH]; intros acc; [auto|]. cbn [fold_left].
  destruct (IH (resolve acc r)) as (A & B & C). destruct (resolve_db acc r) as (A' & B' & C').
  rewrite A, B, C, A', B', C'. auto.
Qed.
Lemma load_rows_db : forall rs s, dbc (fst (load_rows rs s)) = dbc s /\ dbp (fst (load_rows rs s)) = dbp s
  /\ ps (fst (load_rows rs s)) = ps s.
Proof. intros rs s. apply (fold_resolve_db rs (s, [])). Qed.
Lemma load_parent_db : forall k s, dbc (fst (load_parent k s)) = dbc s /\ dbp (fst (load_parent k s)) = dbp s.
Proof.
  intros k s. unfold load_parent.
  destruct (find_p k (ps s)) as [[i [|]]|]; destruct (memN k (dbp s)); simpl; auto.
Qed.

Theorem disabled_writes_nothing : forall k m a s, enabled k m s = false ->
  dbc (fst (exec k m a s)) = dbc s /\ dbp (fst (exec k m a s)) = dbp s.
Proof.
  intros k m a s E.
  assert (A : forall s', enabled k m s' = enabled k m s -> autoflush_then k m s' = s').
  { intros s' H. unfold autoflush_then. rewrite H, E. reflexivity. }
  destruct k; unfold exec; cbv zeta; try rewrite (A s eq_refl).
  - destruct (load_rows_db (sel_val a (dbc s)) s) as (X & Y & _). destruct (load_rows _ s). simpl in *. auto.
  - simpl; auto.
  - simpl; auto.
  - simpl; auto.
  - destruct (find_ident (Z.to_N a) (cs s)); [simpl; auto|].
    destruct (row_get (Z.to_N a) (dbc s)) as [r|]; [|simpl; auto].
    destruct (load_rows_db [(Z.to_N a, r)] s) as (X & Y & _). destruct (load_rows _ s). simpl in *. auto.
  - destruct (find_c (Z.to_N a) (cs s)) as [o|]; [|simpl; auto].
    destruct (c_st o); try (simpl; auto; fail);
    (destruct (N.eqb (c_pid o) 0); [simpl; auto|]);
    (destruct (find_p (c_pid o) (ps s)) as [[i [|]]|]; try apply load_parent_db; simpl; auto).
  - destruct (find_p (Z.to_N a) (ps s)) as [[i [|]]|]; try (simpl; auto; fail).
    destruct (load_rows_db (sel_pid (Z.to_N a) (dbc s)) s) as (X & Y & _). destruct (load_rows _ s). simpl in *. auto.
  - destruct (find_p (Z.to_N a) (ps s)) as [[i [|]]|]; try apply load_parent_db; simpl; auto.
  - rewrite A by (destruct m; reflexivity). cbn [dbc dbp set_cs].
    destruct (row_get (Z.to_N a) (dbc s)); simpl; auto.
  - destruct (load_rows_db (sel_val a (dbc s)) s) as (X & Y & _). destruct (load_rows _ s). simpl in *. auto.
  - simpl; auto.
  - simpl; auto.
  - simpl; auto.
  - simpl; auto.
  - simpl; auto.
  - simpl; auto.
  - simpl; auto.
Qed.
