(* C35 - specification side: the documented state machine (doc/build/orm/session_events.rst,
   "Object Lifecycle Events"; session_state_management.rst), well-formedness of a transition/event
   log against it, and the guard that delimits the region where the implementation is known to
   deviate. *)
From Coq Require Import List ZArith Bool Arith.
Import ListNotations.
From SAV.orm Require Import Lifecycle.

(* (from, to, event that the documentation attaches to the transition).  The three rows without an
   event are documented without one: construction of an instance, make_transient() on an object that is
   (by then) detached, make_transient_to_detached(). *)
Definition doc_table : list (lc * lc * option evt) :=
  [ (Transient, Pending, Some T2P);
    (Pending, Persistent, Some P2S);
    (Pending, Transient, Some P2T);
    (Absent, Persistent, Some LAP);
    (Persistent, Transient, Some S2T);
    (Persistent, Deleted, Some S2D);
    (Deleted, Detached, Some D2X);
    (Persistent, Detached, Some S2X);
    (Detached, Persistent, Some X2S);
    (Deleted, Persistent, Some D2S);
    (Absent, Transient, None);
    (Detached, Transient, None);
    (Transient, Detached, None) ].
Definition doc_events : list evt := [T2P; P2S; P2T; LAP; S2T; S2D; D2X; S2X; X2S; D2S].

Definition evt_eqb (a b : evt) : bool :=
  match a, b with
  | T2P, T2P | P2S, P2S | P2T, P2T | LAP, LAP | S2T, S2T | S2D, S2D | D2X, D2X | S2X, S2X | X2S, X2S | D2S, D2S => true
  | _, _ => false
  end.
Definition row_eqb (r : lc * lc * option evt) (f t : lc) (e : option evt) : bool :=
  let '(f', t', e') := r in
  lc_eqb f f' && lc_eqb t t' &&
  match e, e' with Some a, Some b => evt_eqb a b | None, None => true | _, _ => false end.
Definition documented (f t : lc) (e : option evt) : bool := existsb (fun r => row_eqb r f t e) doc_table.

(* A log is well formed when it is a sequence of blocks, each about one object: a transition that the
   documentation knows, immediately followed by exactly the event documented for it (fired while the
   object is in the transition's target state), or a documented event-less transition alone.  Hence:
   every transition is documented, every transition that has an event is followed by that event once,
   and there is no event that does not directly follow its transition. *)
Inductive wf : list entry -> Prop :=
  | wf_nil : wf []
  | wf_fire : forall i f t e l, documented f t (Some e) = true -> wf l -> wf (Chg i f t :: Ev i e t :: l)
  | wf_silent : forall i f t l, documented f t None = true -> wf l -> wf (Chg i f t :: l).

(* the same for the items of one object *)
Inductive wfo : list oentry -> Prop :=
  | wfo_nil : wfo []
  | wfo_fire : forall f t e l, documented f t (Some e) = true -> wfo l -> wfo (OChg f t :: OEv e t :: l)
  | wfo_silent : forall f t l, documented f t None = true -> wfo l -> wfo (OChg f t :: l).

Fixpoint wfob (l : list oentry) : bool :=
  match l with
  | [] => true
  | OChg f t :: r =>
      match r with
      | OEv e t' :: r' => (documented f t (Some e) && lc_eqb t t' && wfob r') || (documented f t None && wfob r)
      | _ => documented f t None && wfob r
      end
  | OEv _ _ :: _ => false
  end.

Fixpoint wfb (l : list entry) : bool :=
  match l with
  | [] => true
  | (i, OChg f t) :: r =>
      match r with
      | (j, OEv e t') :: r' =>
          (Nat.eqb i j && documented f t (Some e) && lc_eqb t t' && wfb r') || (documented f t None && wfb r)
      | _ => documented f t None && wfb r
      end
  | (_, OEv _ _) :: _ => false
  end.

(* ---- the guard ------------------------------------------------------------------------------------ *)
(* _restore_snapshot treats (a) everything in transaction._new / session._new as attached and not
   deleted (in particular not in transaction._deleted), (b) everything in transaction._deleted / session._deleted as attached states with an identity *)
Definition restore_ok (st : state) : bool :=
  forallb (fun o => implb (itnew o || inew o) (osess o && negb (odel o) && negb (itdel o)) &&
                    implb (itdel o || isdel o) (okey o && osess o)) (objs st).

(* was_already_deleted() must not hit a state that this flush deletes as well *)
Fixpoint organize_ok (e : env) (dels : nat -> bool) (st : state) (ps : list nat) : bool :=
  match ps with
  | [] => true
  | p :: r =>
      if inew (get st p) then
        match holder (pk (get st p)) st with
        | Some ex => negb (eexp e ex && negb (memz (pk (get st p)) (rows e)) && isdel (get st ex))
        | None => true
        end && organize_ok e dels (fst (organize_one e dels st p)) r
      else organize_ok e dels st r
  end.

Definition flush_guard (e : env) (st : state) : bool :=
  if is_clean st (emod e) then true
  else
    let st0 := autobegin st in
    if is_deact st0 then true
    else
      let dels := fun d => isdel (get st0 d) in
      organize_ok e dels st0 (all_idx st0) &&
      let (st1, rsw) := organize e dels st0 (all_idx st0) in
      match flush_db e st0 rsw with
      | DbFail _ => restore_ok (set_tx (Some true) st1)
      | DbOk _ => true
      end.

Definition guard_step (e : env) (o : op) (st : state) : bool :=
  match o with
  | Delete i => negb (okey (get st i) && odel (get st i))
  | Flush | Merge _ => flush_guard e st
  | Commit => let st := autobegin st in if is_deact st then true else flush_guard e st
  | Rollback =>
      match tx st with
      | None => true
      | Some false => restore_ok st
      | Some true => if is_clean st (emod e) then true else restore_ok st
      end
  | _ => true
  end.

Fixpoint guarded (h : list (env * op)) (st : state) : bool :=
  match h with
  | [] => true
  | (e, o) :: r => if stop e st then true
                   else guard_step e o st && (let '(st', _, _) := step e o st in guarded r st')
  end.

(* ---- invariant -------------------------------------------------------------------------------------- *)
(* per object, relative to the transaction status [t] = session._transaction (None | Some deactive?) *)
Definition objinvb (t : option bool) (o : obj) : bool :=
  let active := match t with Some true => false | _ => true end in
  let notx := match t with None => true | _ => false end in
  implb (inew o) (negb (okey o) && osess o) &&
  implb (iimap o) (okey o && osess o && negb (odel o)) &&
  implb (isdel o) (iimap o) &&
  implb (active && itdel o) (okey o && osess o && odel o) &&
  implb (negb (okey o)) (negb (odel o)) &&
  implb notx (negb (itdel o)).
(* every object satisfies an (index-aware) boolean predicate *)
Definition SP (p : nat -> obj -> bool) (st : state) : Prop :=
  forall k o, nth_error (objs st) k = Some o -> p k o = true.
Definition Inv (st : state) : Prop := SP (fun _ => objinvb (tx st)) st /\ wf (slog st).
