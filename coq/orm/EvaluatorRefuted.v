(* C43: machine-checked counterexamples for every region excluded by the guards (each one is reproduced on
   the implementation: session value <> database value), and the repaired AND. *)
From Coq Require Import List ZArith NArith Bool.
Import ListNotations.
From SAV.sql Require Import Val3 InList.
From SAV.orm Require Import Evaluator.
Open Scope Z_scope.

Definition scx : schema := fun c => match c with 0%nat | 1%nat => TyInt | _ => TyStr end.
Definition mkrow (x y : sv) (s t : sv) : row :=
  fun c => match c with 0%nat => x | 1%nat => y | 2%nat => s | _ => t end.
Definition str (l : list N) : sv := SText l.
Definition lit_i (z : Z) : ex := ELit TyInt (SInt z).
Definition lit_s (l : list N) : ex := ELit TyStr (SText l).

(* (a)  x % 3 == 2  with x = -7: Python's % is 2 (floor), SQL's is -1 (truncation) *)
Example mod_negative_refuted :
  let e := EBin OEq (EBin OMod (ECol 0) (lit_i 3)) (lit_i 2) in
  let r := mkrow (SInt (-7)) (SInt 0) SNull SNull in
  wt scx e = Some TyBool /\ guard e r = false /\
  matched scx e (obj_of r) = Matched false /\ selected e r = false.
Proof. vm_compute. repeat split. Qed.

(* (b)  x NOT IN (1, NULL)  with x = 0: SQL UNKNOWN.  Repaired by e2dd2ce: the evaluator now returns None
   (formerly Python's "0 not in [1, None]" = True), so the witness is inside the guarded region and faithful *)
Example not_in_null_now_faithful :
  let e := EIn true (ECol 0) [SInt 1; SNull] in
  let r := mkrow (SInt 0) (SInt 0) SNull SNull in
  wt scx e = Some TyBool /\ guard e r = true /\
  matched scx e (obj_of r) = NotMatched /\ selected e r = false /\ ev scx e (obj_of r) = POk VNone.
Proof. vm_compute. repeat split. Qed.

(* (b')  x NOT IN ()  with x = NULL: SQL TRUE (C07), Python None *)
Example empty_in_null_operand_refuted :
  let e := EIn true (ECol 0) [] in
  let r := mkrow SNull (SInt 0) SNull SNull in
  wt scx e = Some TyBool /\ guard e r = false /\
  matched scx e (obj_of r) = NotMatched /\ selected e r = true.
Proof. vm_compute. repeat split. Qed.

(* (c)  s.startswith('a%')  with s = 'abc': str.startswith is False, s LIKE 'a%' || '%' is TRUE *)
Example startswith_wildcard_refuted :
  let e := EBin OStartsWith (ECol 2) (lit_s [97; 37]%N) in
  let r := mkrow (SInt 0) (SInt 0) (str [97; 98; 99]%N) SNull in
  wt scx e = Some TyBool /\ guard e r = false /\
  matched scx e (obj_of r) = NotMatched /\ selected e r = true.
Proof. vm_compute. repeat split. Qed.

(* (c')  s.startswith('ab')  with s = 'Abc' on SQLite: LIKE folds ASCII case *)
Example startswith_case_refuted :
  let e := EBin OStartsWith (ECol 2) (lit_s [97; 98]%N) in
  let r := mkrow (SInt 0) (SInt 0) (str [65; 98; 99]%N) SNull in
  wt scx e = Some TyBool /\ guard e r = false /\
  matched scx e (obj_of r) = NotMatched /\ selected e r = true.
Proof. vm_compute. repeat split. Qed.

(* (d)  an object with an expired attribute read by the criterion counts as matched: UPDATE .. SET y = 9
   WHERE x > 0 changes the object although its row (x = -7) is not updated *)
Example partially_expired_refuted :
  let e := EBin OGt (ECol 0) (lit_i 0) in
  let r := mkrow (SInt (-7)) (SInt 0) SNull SNull in
  let o := fun c => match c with 0%nat => Expired | _ => obj_of r c end in
  wt scx e = Some TyBool /\ guard e r = true /\
  matched scx e o = Matched true /\ selected e r = false /\
  (exists o', update_obj scx e [(1%nat, lit_i 9)] o = OOk o' /\ o' 1%nat = Loaded (SInt 9)) /\
  update_row e [(1%nat, lit_i 9)] r 1%nat = SInt 0.
Proof. vm_compute. repeat split. eexists. split; reflexivity. Qed.

(* (e)  SET x = y, y = x: the database swaps.  Repaired by c4d3d0a: the session evaluates both right-hand sides
   on the old object state and then assigns (formerly one clause after the other: x = y = old y) *)
Example set_order_now_faithful :
  let e := ETrue in
  let sets := [(0%nat, ECol 1); (1%nat, ECol 0)] in
  let r := mkrow (SInt 1) (SInt 2) SNull SNull in
  (exists o', update_obj scx e sets (obj_of r) = OOk o' /\ o' 0%nat = Loaded (SInt 2) /\ o' 1%nat = Loaded (SInt 1)) /\
  update_row e sets r 0%nat = SInt 2 /\ update_row e sets r 1%nat = SInt 1.
Proof. vm_compute. repeat split. eexists. repeat split. Qed.

(* (f)  WHERE x  (an integer as a truth value) with x = -7: the row is selected, the object is not matched
   ("evaled_condition is True") *)
Example non_boolean_criterion_refuted :
  let e := ECol 0 in
  let r := mkrow (SInt (-7)) (SInt 0) SNull SNull in
  wt scx e = Some TyInt /\ matched scx e (obj_of r) = NotMatched /\ selected e r = true.
Proof. vm_compute. repeat split. Qed.

(* the AND defect repaired by commit 830775e:  NOT (x > 0 AND y < 0)  with x NULL, y = 0 is TRUE in SQL;
   the evaluator now continues past the NULL and finds the FALSE operand *)
Example and_false_null_now_faithful :
  let e := ENot (EGroup (EAnd [EBin OGt (ECol 0) (lit_i 0); EBin OLt (ECol 1) (lit_i 0)])) in
  let r := mkrow SNull (SInt 0) SNull SNull in
  wt scx e = Some TyBool /\ guard e r = true /\
  matched scx e (obj_of r) = Matched false /\ selected e r = true.
Proof. vm_compute. repeat split. Qed.

(* x % 0: ZeroDivisionError from the evaluator (after the UPDATE has been emitted), NULL in SQL *)
Example mod_zero_raises :
  let e := EBin OEq (EBin OMod (ECol 0) (ECol 1)) (lit_i 0) in
  let r := mkrow (SInt 1) (SInt 0) SNull SNull in
  matched scx e (obj_of r) = MRaise PyZeroDivisionError /\ selected e r = false /\ guard e r = false.
Proof. vm_compute. repeat split. Qed.
