(* C33 - Session.flush under the whole invariant: success and the error path. *)
From Coq Require Import List ZArith Bool Arith Lia.
Import ListNotations.
From SAV.orm Require Import SessTxn SessTxnBase SessTxnSpec SessTxnInv SessTxnOps SessTxnRestore SessTxnRestore2
  SessTxnShift SessTxnStmts SessTxnFlush SessTxnDbInv SessTxnCore.
Open Scope nat_scope.

(* the chain only looks at the four collections of each frame *)
Lemma ChainG_ext : forall fs fs' gi gs, map lists_of fs' = map lists_of fs -> ChainG gi fs gs -> ChainG gi fs' gs.
Proof.
  induction fs as [|f fs IH]; intros fs' gi gs E H; destruct fs' as [|f' fs']; try discriminate; auto.
  cbn in E. injection E as E1 E2 E3 E4 E5 E6 E7 E8 E9. destruct gs as [|g gs]; [exact H|].
  cbn [ChainG] in *. destruct H as [A [B C]]. split; auto. split.
  - eapply Rel_frame_ext; [| | | |exact B]; auto.
  - eapply IH; eauto.
Qed.

Lemma lists_skel : forall fs fs', map lists_of fs' = map lists_of fs ->
  map (fun f => (fid f, fnested f, fstate f)) fs' = map (fun f => (fid f, fnested f, fstate f)) fs.
Proof.
  induction fs as [|f fs IH]; intros [|f' fs'] E; try discriminate; auto.
  cbn in E. injection E as E1 E2 E3 E4 E5 E6 E7 E8 E9. cbn. rewrite E6, E7, E8. f_equal. apply IH. exact E9.
Qed.

(* FramesOk when every frame has a connection *)
Lemma FramesOk_allconn : forall fs fs' b, map lists_of fs' = map lists_of fs -> (forall f, In f fs' -> fconn f = true) ->
  FramesOk b fs -> FramesOk b fs'.
Proof.
  induction fs as [|f fs IH]; intros fs' b E Hc H; destruct fs' as [|f' fs']; try discriminate; auto.
  pose proof E as E0. cbn in E. injection E as E1 E2 E3 E4 E5 E6 E7 E8 E9. cbn [FramesOk] in *.
  destruct H as [A [B [C [D F]]]]. rewrite E6, E7.
  split; [exact A|]. split; [apply IH; auto; intros; apply Hc; right; auto|]. split; [|split].
  - destruct C as [C1 C2]. split; intros X.
    + specialize (C1 X). intros Y. subst fs'. destruct fs; [congruence|discriminate].
    + apply C2. intros Y. subst fs. destruct fs'; [congruence|discriminate].
  - intros _ x Hx. apply Hc. right; auto.
  - intros x Hx. pose proof (lists_skel fs fs' E9) as Sk.
    assert (Hin : exists y, In y fs /\ fstate y = fstate x).
    { clear - Sk Hx. revert fs' Sk Hx. induction fs as [|a fs IH]; intros [|a' fs'] Sk Hx; try discriminate; [contradiction|].
      cbn in Sk. injection Sk as S1 S2 S3 S4. destruct Hx as [Hx|Hx].
      - subst. exists a. split; [left; auto|auto].
      - destruct (IH fs' S4 Hx) as [y [Y1 Y2]]. exists y. split; [right; auto|auto]. }
    destruct Hin as [y [Y1 Y2]]. rewrite <- Y2. apply F; auto.
Qed.

(* provisioning under the invariant *)
Lemma provision_core : forall st gs f rest, Core st gs -> stack st = f :: rest -> fstate f = ACTIVE ->
  exists sp, provision st = (Ok, sp) /\ Core sp gs /\
    objs sp = objs st /\ nobj sp = nobj st /\ snew sp = snew st /\ sdel sp = sdel st /\ work sp = work st /\
    committed sp = committed st /\ nfid sp = nfid st /\ eoc sp = eoc st /\ handles sp = handles st /\
    map lists_of (stack sp) = map lists_of (stack st) /\ (forall f', In f' (stack sp) -> fconn f' = true).
Proof.
  intros st gs f rest C Hs Hf. destruct C as [G Jh D Ch Em]. destruct D as [D1 D2 D4 D5]. destruct D5 as [D5 D6].
  assert (HA : forall f', In f' (stack st) -> fstate f' = ACTIVE).
  { rewrite Hs. intros f' [X|X]; [subst; auto|]. rewrite Hs in D1. cbn in D1. destruct D1 as [_ [_ [_ [_ F]]]]. auto. }
  destruct (provision_fs_ok (stack st) gs (work st) (committed st) (nfid st) D1 HA D6 D4)
    as [fs' [E1 [E2 [E3 E5]]]].
  unfold provision. rewrite D5, E1. eexists. split; [reflexivity|].
  cbn [objs nobj snew sdel work committed nfid eoc handles stack set_db set_stack].
  split; [|repeat split; auto].
  constructor; auto.
  - constructor; cbn [stack nfid saves work committed set_db set_stack]; auto.
    + eapply FramesOk_allconn; eauto.
    + unfold head_ok in *. rewrite Hs in *. destruct fs' as [|f' r']; auto.
      pose proof (lists_skel _ _ E2) as Sk. cbn in Sk. injection Sk as S1 S2 S3 S4. rewrite S3. exact D2.
    + intros Hn. exfalso. rewrite Hs in E2. destruct fs' as [|f' r']; [discriminate|].
      specialize (Hn f' (or_introl eq_refl)). rewrite (E3 f' (or_introl eq_refl)) in Hn. discriminate.
    + split; auto.
  - unfold Chain in *. cbn [stack objs nobj snew sdel work set_db set_stack]. rewrite Hs in *.
    destruct fs' as [|f' r']; [discriminate|]. destruct gs as [|g gs']; [contradiction|].
    cbn in E2. injection E2 as X1 X2 X3 X4 X5 X6 X7 X8 X9.
    destruct Ch as [A [B C]]. split; auto. rewrite X8. rewrite Hf in *. split.
    + eapply Rel_frame_ext; [| | | |exact B]; auto.
    + eapply ChainG_ext; eauto.
  - cbn [stack set_db set_stack]. intros X. subst fs'. rewrite Hs in E2. discriminate.
Qed.

Lemma flush_ok_core : forall sp gs g gs' f rest sZ fZ,
  Core sp gs -> stack sp = f :: rest -> fstate f = ACTIVE -> fconn f = true -> gs = g :: gs' ->
  stack sZ = fZ :: rest ->
  fid fZ = fid f -> fnested fZ = fnested f -> fstate fZ = fstate f -> frbexc fZ = frbexc f -> fconn fZ = fconn f ->
  Good (objs sZ) (nobj sp) (work sZ) [] [] -> J (objs sZ) (nobj sp) -> Rel g fZ (objs sZ) (nobj sp) [] [] (work sZ) ->
  (forall x, oin (objs sZ x) = true -> omod (objs sZ x) = false) ->
  snew sZ = [] -> sdel sZ = [] -> nobj sZ = nobj sp -> committed sZ = committed sp -> saves sZ = saves sp ->
  nfid sZ = nfid sp ->
  Core sZ gs /\ is_clean sZ = true.
Proof.
  intros sp gs g gs' f rest sZ fZ C Hs Hf Hc Hg HsZ I1 I2 I3 I4 I5 G' J' R' Cl N1 N2 N3 N4 N5 N6.
  destruct C as [G Jh D Ch Em]. subst gs.
  assert (Hclean : is_clean sZ = true).
  { apply is_clean_spec. repeat split; auto. }
  split; auto. constructor.
  - unfold GoodS. rewrite N1, N2, N3. exact G'.
  - rewrite N3. exact J'.
  - eapply (DbOk_work sp sZ); eauto. rewrite HsZ, Hs. cbn. unfold skel. rewrite I1, I2, I3, I5. reflexivity.
  - unfold Chain in *. rewrite HsZ. rewrite Hs in Ch. destruct Ch as [A [B C]]. split; auto.
    rewrite I3, Hf. rewrite N1, N2, N3. split; auto.
  - rewrite HsZ. intros X; discriminate.
Qed.

Lemma Approx_obj_ext : forall g a b n, (forall x, a x = b x) -> Approx g a n -> Approx g b n.
Proof.
  intros g a b n H A. destruct A as [a1 a2 a3 a4 a5]. constructor; auto.
  - intros o Ho. rewrite <- H. apply a2; auto.
  - intros o H1 H2. rewrite <- H. apply a3; auto.
  - intros o. rewrite <- H. apply a4.
  - intros o. rewrite <- H. apply a5.
Qed.

(* _restore_snapshot on the innermost frame once the database is back at the frame's restore point *)
Lemma restore_head : forall b st f rest W0 g,
  stack st = f :: rest ->
  Good (objs st) (nobj st) W0 (snew st) (sdel st) -> J (objs st) (nobj st) -> GClean g ->
  Rel g f (objs st) (nobj st) (snew st) (sdel st) W0 -> work st = gW g ->
  exists st' f', restore_snapshot b st = (Ok, st') /\
    Good (objs st') (nobj st) (work st') [] [] /\ J (objs st') (nobj st) /\ Approx g (objs st') (nobj st) /\
    snew st' = [] /\ sdel st' = [] /\ is_clean st' = true /\ work st' = gW g /\
    stack st' = f' :: rest /\ fid f' = fid f /\ fnested f' = fnested f /\ fstate f' = fstate f /\
    fconn f' = fconn f /\ frbexc f' = frbexc f /\
    nobj st' = nobj st /\ committed st' = committed st /\ saves st' = saves st /\ nfid st' = nfid st /\
    eoc st' = eoc st /\ handles st' = handles st.
Proof.
  intros b st f rest W0 g Hs G Jh GC R Hw.
  destruct (restore_compute b st f rest W0 g Hs G GC R) as [st' [E [O [N [S1 [S2 [S3 [A1 [A2 [A3 [A4 [A5 A6]]]]]]]]]]]].
  exists st'. eexists. split; [exact E|].
  assert (Ext : forall x, fo4 b f (objs st) (nobj st) (snew st) (sdel st) x = objs st' x) by (intros; symmetry; apply O).
  pose proof (restored_good b f (objs st) (nobj st) (snew st) (sdel st) W0 g G Jh GC R) as Gd.
  pose proof (restored_J b f (objs st) (nobj st) (snew st) (sdel st) W0 G Jh) as Jd.
  pose proof (restored_approx b f (objs st) (nobj st) (snew st) (sdel st) W0 g G GC R) as Ad.
  assert (Ap : Approx g (objs st') (nobj st)) by (eapply Approx_obj_ext; eauto).
  split; [rewrite A4, Hw; eapply Good_obj_ext; eauto|]. split; [eapply J_obj_ext; eauto|]. split; [exact Ap|].
  split; [exact S1|]. split; [exact S2|]. split.
  { apply is_clean_spec. repeat split; auto. intros o _ Hi. apply (a_clean _ _ _ Ap o Hi). }
  split; [congruence|]. split; [exact S3|]. cbn. repeat split; auto.
Qed.

Lemma bind_withst : forall (k : sess -> M) (b : M) st, (withst k ;; b) st = (k st ;; b) st.
Proof. reflexivity. Qed.

(* the error path of _flush: database back to the restore point, frame DEACTIVE, snapshot restored *)
Lemma flush_fail_core : forall sp gs g gs' f rest sZ,
  Core sp gs -> stack sp = f :: rest -> fstate f = ACTIVE -> fconn f = true -> gs = g :: gs' ->
  SigL sp g f sZ ->
  exists s4 f4, flush_fail sZ = (Ok, s4) /\ Core s4 gs /\ stack s4 = f4 :: rest /\ fstate f4 = DEACTIVE /\
    fid f4 = fid f /\ is_clean s4 = true /\ committed s4 = committed sp /\ nfid s4 = nfid sp /\ nobj s4 = nobj sp /\
    handles s4 = handles sp /\ eoc s4 = eoc sp.
Proof.
  intros sp gs g gs' f rest sZ C Hs Hf Hc Hg L. subst gs.
  destruct C as [G Jh D Ch Em].
  destruct L as [L1 L2 L3 L4 L5]. destruct L1 as [T1 [T2 [T3 [T4 [T5 [T6 [T7 [T8 T9]]]]]]]].
  assert (GC : GClean g). { unfold Chain in Ch. rewrite Hs in Ch. tauto. }
  assert (CG : ChainG g rest gs'). { unfold Chain in Ch. rewrite Hs in Ch. tauto. }
  (* the database part does not see the objects, and not the table either (connection present) *)
  assert (DZ : DbOk sZ (g :: gs')).
  { eapply (DbOk_work sp sZ); eauto. rewrite T5. reflexivity. }
  assert (HsZ : stack sZ = f :: rest) by congruence.
  assert (Hlive : live_state (fstate f) = true) by (rewrite Hf; reflexivity).
  destruct (head_rollback_ok sZ g gs' f rest DZ HsZ Hlive) as [s1 [E1 [W1 [D1 [O1 [N1 [A1 [A2 [A3 [A4 [A5 [A6 A7]]]]]]]]]]]].
  unfold flush_fail. rewrite (bind_ok _ _ _ _ E1). rewrite (bind_ok _ _ _ (set_head_state DEACTIVE s1)) by reflexivity.
  set (s2 := set_head_state DEACTIVE s1) in *.
  assert (Hs2 : stack s2 = f_state f DEACTIVE :: rest).
  { unfold s2, set_head_state. destruct (upd_head_fields s1 (fun f0 => f_state f0 DEACTIVE)) as [_ [_ [_ [_ [_ [_ [_ [_ [_ [_ X]]]]]]]]]].
    rewrite X, A3, HsZ. reflexivity. }
  destruct (upd_head_fields s1 (fun f0 => f_state f0 DEACTIVE)) as [X0 [X1 [X2 [X3 [X4 [X5 [X6 [X7 [X8 [X9 _]]]]]]]]]].
  fold (set_head_state DEACTIVE s1) in X0, X1, X2, X3, X4, X5, X6, X7, X8, X9. fold s2 in X0, X1, X2, X3, X4, X5, X6, X7, X8, X9.
  rewrite bind_withst. assert (Hn2 : head_nested s2 = fnested f) by (unfold head_nested; rewrite Hs2; reflexivity). rewrite Hn2.
  destruct (restore_head (fnested f) s2 (f_state f DEACTIVE) rest (work sp) g Hs2) as [s3 [f3 [E3 [G3 [J3 [Ap [S1 [S2 [Cl [W3 [St3 [I1 [I2 [I3 [I4 [I5 [B1 [B2 [B3 [B4 [B5 B6]]]]]]]]]]]]]]]]]]]]].
  { rewrite X0, X1, X2, X3, O1, N1, A1, A2, T2, T3, T4. exact L2. }
  { rewrite X0, X1, O1, N1, T2. exact L3. }
  { exact GC. }
  { rewrite X0, X1, X2, X3, O1, N1, A1, A2, T2, T3, T4. eapply Rel_frame_ext; [| | | |exact L4]; reflexivity. }
  { rewrite X7. exact W1. }
  cbn [fid fnested fstate fconn frbexc f_state] in I1, I2, I3, I4, I5.
  rewrite (bind_ok _ _ _ _ E3). rewrite bind_withst. rewrite Cl. rewrite (bind_ok _ _ _ s3) by reflexivity.
  eexists. eexists. split; [reflexivity|].
  destruct (upd_head_fields s3 (fun f0 => f_rbexc f0 true)) as [Y0 [Y1 [Y2 [Y3 [Y4 [Y5 [Y6 [Y7 [Y8 [Y9 Y10]]]]]]]]]].
  rewrite St3 in Y10.
  assert (Hn3 : nobj s3 = nobj sp) by congruence.
  split; [|split; [exact Y10|]].
  2:{ cbn. split; [exact I3|]. split; [exact I1|]. split.
      - apply is_clean_spec. apply is_clean_spec in Cl. destruct Cl as [C1 [C2 C3]]. rewrite Y0, Y1, Y2, Y3. auto.
      - repeat split; congruence. }
  constructor.
  - unfold GoodS. rewrite Y0, Y1, Y2, Y3, Y7, S1, S2, B1. exact G3.
  - rewrite Y0, Y1, B1. exact J3.
  - (* database: as after the rollback, the remaining changes are invisible to it *)
    eapply (DbOk_ext s2); [| | | | |exact D1].
    + rewrite Y10, Hs2. cbn. unfold skel. cbn. rewrite I1, I2, I3, I4. reflexivity.
    + congruence.
    + congruence.
    + rewrite Y7, W3, X7. symmetry. exact W1.
    + congruence.
  - unfold Chain. rewrite Y10. split; [exact GC|]. cbn [fstate f_rbexc]. rewrite I3.
    split; [|exact CG].
    rewrite Y0, Y1, Y2, Y3, Y7, B1. split; [exact Ap|]. split; [exact S1|]. split; [exact S2|exact W3].
  - rewrite Y10. intros X; discriminate.
Qed.

(* ------------------------------------------------------------------ Session.flush *)
(* what a flush that reached its end leaves: a new innermost frame over the same snapshot, nothing pending *)
Definition FlushDone (s0 : sess) (g : ghost) (f : frame) (rest : list frame) (sZ : sess) : Prop :=
  exists fZ, stack sZ = fZ :: rest /\
        fid fZ = fid f /\ fnested fZ = fnested f /\ fstate fZ = fstate f /\ frbexc fZ = frbexc f /\ fconn fZ = fconn f /\
        Good (objs sZ) (nobj s0) (work sZ) [] [] /\ J (objs sZ) (nobj s0) /\ Rel g fZ (objs sZ) (nobj s0) [] [] (work sZ) /\
        (forall x, oin (objs sZ x) = true -> omod (objs sZ x) = false) /\
        snew sZ = [] /\ sdel sZ = [] /\ nobj sZ = nobj s0 /\ committed sZ = committed s0 /\ saves sZ = saves s0 /\
        nfid sZ = nfid s0 /\ eoc sZ = eoc s0 /\ handles sZ = handles s0 /\
        (forall x, ks_find x (fks fZ) <> None ->
           ks_find x (fks f) <> None \/ (oin (objs s0 x) = true /\ upd_sets_id (objs s0 x) = true)).

(* the body of the subtransaction: a failure happens either before finalize_flush_changes (only loads and
   statements so far) or after it (C32: after_flush_postexec raises) *)
Definition InnerSpec (inner : list nat -> list nat -> list nat -> M) : Prop :=
  forall s0 g f rest dirty, GClean g -> stack s0 = f :: rest ->
    Good (objs s0) (nobj s0) (work s0) (snew s0) (sdel s0) -> J (objs s0) (nobj s0) ->
    Rel g f (objs s0) (nobj s0) (snew s0) (sdel s0) (work s0) ->
    (forall x, In x dirty <-> (x < nobj s0 /\ oin (objs s0 x) = true /\ omod (objs s0 x) = true /\ ~ In x (sdel s0))) ->
    NoDup dirty ->
    forall r sZ, inner (snew s0) dirty (sdel s0) s0 = (r, sZ) -> r <> Unmodelled ->
    (r = Ok -> FlushDone s0 g f rest sZ) /\
    (r <> Ok -> SigL s0 g f sZ \/ FlushDone s0 g f rest sZ).

Lemma flush_body_k_inner : forall k c, InnerSpec (flush_body_k k c).
Proof.
  intros k c s0 g f rest dirty GC Hs G Jh R Hd Hnd r sZ H Hr.
  destruct (flush_body_spec s0 g f rest dirty GC Hs G Jh R Hd Hnd k c r sZ H Hr) as [A B].
  split; [exact A|]. intros X. left. exact (B X).
Qed.

Lemma SigL_refl : forall st g f, Good (objs st) (nobj st) (work st) (snew st) (sdel st) -> J (objs st) (nobj st) ->
  Rel g f (objs st) (nobj st) (snew st) (sdel st) (work st) -> SigL st g f st.
Proof.
  intros st g f G Jh R. constructor; auto.
  - apply sbo_refl.
  - intros x. apply obj_le_refl.
Qed.
Lemma flush_body_inner : InnerSpec flush_body.
Proof. apply flush_body_k_inner. Qed.

Definition hd_state (st : sess) : option tstate := match stack st with f :: _ => Some (fstate f) | [] => None end.
(* the key switches recorded in the innermost frame grow only by unflushed primary-key changes *)
Definition KsGrow (st st' : sess) : Prop :=
  match stack st, stack st' with
  | f :: _, f' :: _ => forall x, ks_find x (fks f') <> None ->
                         ks_find x (fks f) <> None \/ (oin (objs st x) = true /\ upd_sets_id (objs st x) = true)
  | _, _ => True
  end.
Lemma KsGrow_refl : forall st, KsGrow st st.
Proof. intros st. unfold KsGrow. destruct (stack st); auto. Qed.
Definition ids (st : sess) : list (nat * bool) := map (fun f => (fid f, fnested f)) (stack st).

Lemma lists_ids : forall fs fs', map lists_of fs' = map lists_of fs ->
  map (fun f0 => (fid f0, fnested f0)) fs' = map (fun f0 => (fid f0, fnested f0)) fs.
Proof.
  induction fs as [|a fs IH]; intros [|b fs'] Q; try discriminate; auto.
  cbn in Q. injection Q as E1 E2 E3 E4 E5 E6 E7 E8 E9. cbn. rewrite E6, E7. f_equal. apply IH; auto.
Qed.

Lemma flush_with_core : forall inner, InnerSpec inner ->
  forall st gs r st', Core st gs -> flush_with (fun n d e => provision ;; inner n d e) st = (r, st') -> r <> Unmodelled ->
  Core st' gs /\ ids st' = ids st /\ nfid st' = nfid st /\ committed st' = committed st /\
  nobj st' = nobj st /\ handles st' = handles st /\ eoc st' = eoc st /\
  map lists_of (tl (stack st')) = map lists_of (tl (stack st)) /\
  (r = Ok -> is_clean st' = true /\ hd_state st' = hd_state st /\ KsGrow st st') /\
  (r <> Ok -> hd_state st' = hd_state st \/ (hd_state st = Some ACTIVE /\ hd_state st' = Some DEACTIVE /\ is_clean st' = true)).
Proof.
  intros inner HI st gs r st' C H Hr. unfold flush_with in H.
  destruct (is_clean st) eqn:Ecl.
  { inversion H; subst. split; [exact C|]. do 7 (split; [reflexivity|]). split; [intros _; split; [auto|split; [auto|apply KsGrow_refl]]|intros X; congruence]. }
  assert (Hne : stack st <> []). { intros X. rewrite (c_empty _ _ C X) in Ecl. discriminate. }
  destruct (autobegin_core st gs C) as [gs0 [C0 [A0 _]]]. destruct (A0 Hne) as [Eg Ea]. subst gs0. rewrite Ea in *.
  destruct (stack st) as [|f rest] eqn:Es; [congruence|].
  destruct (check_prereq f M_begin) eqn:Ec.
  { inversion H; subst. split; [exact C|]. do 7 (split; [unfold ids, hd_state; rewrite ?Es; reflexivity|]). split; [intros X; congruence|intros _; left; reflexivity]. }
  assert (Hf : fstate f = ACTIVE).
  { unfold check_prereq in Ec. destruct (fstate f); cbn in Ec; try discriminate; reflexivity. }
  destruct (Core_head st gs f rest C Es Hf) as [g [gs' [Eg [GC R]]]].
  destruct (provision_core st gs f rest C Es Hf) as [sp [Ep [Cp [P1 [P2 [P3 [P4 [P5 [P6 [P7 [P8 [P9 [P10 P11]]]]]]]]]]]]].
  rewrite (bind_ok _ _ _ _ Ep) in H.
  rewrite Es in P10. destruct (stack sp) as [|fp restp] eqn:Esp; [discriminate|].
  cbn in P10. injection P10 as Q1 Q2 Q3 Q4 Q5 Q6 Q7 Q8 Q9.
  assert (Hfp : fstate fp = ACTIVE) by congruence.
  assert (Hcp : fconn fp = true) by (apply P11; left; auto).
  destruct (Core_head sp gs fp restp Cp Esp Hfp) as [g2 [gs2 [Eg2 [GC2 R2]]]].
  assert (g2 = g /\ gs2 = gs') by (split; congruence). destruct H0; subst g2 gs2.
  set (dirty := filter (fun o => negb (mem o (sdel st))) (filter (fun o => oin (objs st o) && omod (objs st o)) (all_objs st))) in *.
  assert (Hd : forall x, In x dirty <-> (x < nobj sp /\ oin (objs sp x) = true /\ omod (objs sp x) = true /\ ~ In x (sdel sp))).
  { intros x. unfold dirty. rewrite P1, P2, P4. rewrite !filter_In. unfold all_objs. rewrite in_seq. split.
    - intros [[A B] D]. apply andb_prop in B. destruct B. apply negb_true_iff in D. repeat split; auto; try lia.
      intros X. apply mem_In in X. congruence.
    - intros [A [B [D E]]]. repeat split; try lia.
      + rewrite B, D. reflexivity.
      + apply negb_true_iff. destruct (mem x (sdel st)) eqn:Em; auto. apply mem_In in Em. contradiction. }
  assert (Hnd : NoDup dirty). { unfold dirty. apply NoDup_filter. apply NoDup_filter. apply seq_NoDup. }
  destruct (inner (snew st) dirty (sdel st) sp) as [r2 sZ] eqn:Ein.
  rewrite <- P3, <- P4 in Ein.
  assert (Hr2 : r2 <> Unmodelled).
  { intros X. subst r2. inversion H; subst. congruence. }
  destruct (HI sp g fp restp dirty GC Esp (c_good _ _ Cp) (c_j _ _ Cp) R2 Hd Hnd r2 sZ Ein Hr2) as [Hok Herr].
  pose proof (lists_ids _ _ Q9) as Hrest.
  destruct r2 as [|z|].
  - (* success *)
    inversion H; subst r st'. destruct (Hok eq_refl) as (fZ & SZ & I1 & I2 & I3 & I4 & I5 & G' & J' & R' & Cl & N1 & N2 & N3 & N4 & N5 & N6 & N7 & N8 & KS).
    destruct (flush_ok_core sp gs g gs' fp restp sZ fZ Cp Esp Hfp Hcp Eg SZ I1 I2 I3 I4 I5 G' J' R' Cl N1 N2 N3 N4 N5 N6) as [CZ ClZ].
    split; [exact CZ|]. unfold ids, hd_state. rewrite SZ, Es. cbn [map tl].
    split; [rewrite I1, I2, Q6, Q7, Hrest; reflexivity|].
    split; [congruence|]. split; [congruence|]. split; [congruence|]. split; [congruence|]. split; [congruence|].
    split; [exact Q9|]. split; [intros _; split; [exact ClZ|split; [congruence|]]|intros X; congruence].
    unfold KsGrow. rewrite SZ, Es. intros x Hx. destruct (KS x Hx) as [K|K]; [left; congruence|right; rewrite <- P1; exact K].
  - (* failure *)
    specialize (Herr ltac:(discriminate)).
    assert (Fin : forall sp' fp' sZ', Core sp' gs -> stack sp' = fp' :: restp -> fstate fp' = ACTIVE -> fconn fp' = true ->
              SigL sp' g fp' sZ' -> fid fp' = fid fp -> fnested fp' = fnested fp ->
              committed sp' = committed sp -> nfid sp' = nfid sp -> nobj sp' = nobj sp -> handles sp' = handles sp -> eoc sp' = eoc sp ->
              (match flush_fail sZ' with (Ok, st3) => (Err z, st3) | r => r end) = (r, st') ->
              Core st' gs /\ ids st' = ids st /\ nfid st' = nfid st /\ committed st' = committed st /\
              nobj st' = nobj st /\ handles st' = handles st /\ eoc st' = eoc st /\
              map lists_of (tl (stack st')) = map lists_of (tl (f :: rest)) /\
              (r = Ok -> is_clean st' = true /\ hd_state st' = hd_state st /\ KsGrow st st') /\
              (r <> Ok -> hd_state st' = hd_state st \/ (hd_state st = Some ACTIVE /\ hd_state st' = Some DEACTIVE /\ is_clean st' = true))).
    { intros sp' fp' sZ' Cp' Esp' Hfp' Hcp' L' J1 J2 J3 J4 J5 J6 J7 H'.
      destruct (flush_fail_core sp' gs g gs' fp' restp sZ' Cp' Esp' Hfp' Hcp' Eg L') as (s4 & f4 & E4 & C4 & S4 & F4 & I4 & Cl4 & K1 & K2 & K3 & K4 & K5).
      rewrite E4 in H'. inversion H'; subst r st'.
      split; [exact C4|]. unfold ids, hd_state. rewrite S4, Es. cbn [map tl].
      assert (Hn4 : fnested f4 = fnested fp').
      { (* the frame keeps its kind: read it off the invariant *)
        destruct C4 as [_ _ D4 _ _]. destruct D4 as [F _ _ _ _]. rewrite S4 in F. cbn in F. destruct F as [_ [_ [X _]]].
        destruct Cp' as [_ _ Dp _ _]. destruct Dp as [Fp _ _ _ _]. rewrite Esp' in Fp. cbn in Fp. destruct Fp as [_ [_ [Y _]]].
        destruct (fnested f4) eqn:E1, (fnested fp') eqn:E2; auto.
        - destruct X as [X _]. destruct Y as [_ Y]. specialize (X eq_refl). specialize (Y X). discriminate.
        - destruct X as [_ X]. destruct Y as [Y _]. specialize (Y eq_refl). specialize (X Y). discriminate. }
      split; [rewrite I4, Hn4, J1, J2, Q6, Q7, Hrest; reflexivity|].
      split; [congruence|]. split; [congruence|]. split; [congruence|]. split; [congruence|]. split; [congruence|].
      split; [exact Q9|]. split; [intros X; congruence|]. intros _. right. rewrite F4, Hf. auto. }
    destruct Herr as [Herr|Hdone].
    + apply (Fin sp fp sZ Cp Esp Hfp Hcp Herr); auto.
    + destruct Hdone as (fZ & SZ & I1 & I2 & I3 & I4 & I5 & G' & J' & R' & Cl & N1 & N2 & N3 & N4 & N5 & N6 & N7 & N8 & KS).
      destruct (flush_ok_core sp gs g gs' fp restp sZ fZ Cp Esp Hfp Hcp Eg SZ I1 I2 I3 I4 I5 G' J' R' Cl N1 N2 N3 N4 N5 N6) as [CZ ClZ].
      apply (Fin sZ fZ sZ CZ SZ); try congruence.
      apply SigL_refl.
      * rewrite N1, N2, N3. exact G'.
      * rewrite N3. exact J'.
      * rewrite N1, N2, N3. exact R'.
  - congruence.
Qed.
