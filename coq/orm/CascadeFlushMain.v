(* C39 - the flush theorems: orphan rule, marked objects are deleted, nothing else is deleted. *)
From Coq Require Import List Bool Arith Lia.
From SAV.orm Require Import Cascade CascadeIterProofs CascadeOpsProofs CascadeFlushProofs.
Import ListNotations.

(* ---------- the top-level loop only turns pending orphans into transient objects ---------- *)
Lemma top_expunge_pending : forall cfg s o, top_expunge cfg s o = true -> has_key s o = false.
Proof.
  intros cfg s o H. unfold top_expunge in H. apply andb_true_iff in H. destruct H as [H _].
  apply andb_true_iff in H. destruct H as [_ H]. apply negb_true_iff in H. exact H.
Qed.

Lemma flush_top_has_key : forall cfg s x, has_key (fst (flush_top cfg s)) x = has_key s x.
Proof.
  intros cfg s x. unfold has_key. rewrite flush_top_st.
  destruct (mem x (top_proc cfg s) && top_expunge cfg s x) eqn:E; [|reflexivity].
  apply andb_true_iff in E. destruct E as [_ E]. apply top_expunge_pending in E. unfold has_key in E.
  destruct (st s x); try discriminate; reflexivity.
Qed.

Lemma flush_top_marked : forall cfg s, marked (fst (flush_top cfg s)) = marked s.
Proof.
  intros cfg s. unfold flush_top. cbn [fst].
  assert (G : forall l a, (forall o, top_expunge cfg s o = true -> has_key a o = false) ->
              marked (fold_left (fun a o => if top_expunge cfg s o then expunge1 a o else a) l a) = marked a).
  { induction l as [|c l IH]; intros a H; cbn [fold_left]; [reflexivity|].
    destruct (top_expunge cfg s c) eqn:T.
    - rewrite IH.
      + unfold expunge1. specialize (H c T). unfold has_key in H. destruct (st a c); try discriminate; reflexivity.
      + intros o To. specialize (H o To). unfold has_key in *. rewrite st_expunge1.
        destruct (Nat.eqb o c) eqn:E; [|exact H]. apply Nat.eqb_eq in E. subst.
        destruct (st a c); try discriminate; reflexivity.
    - apply IH. exact H. }
  apply G. intros o. apply top_expunge_pending.
Qed.

Lemma flush_top_hist : forall cfg s p ri, hist_coll (fst (flush_top cfg s)) p ri = hist_coll s p ri.
Proof.
  intros. destruct (flush_top_attrs cfg s) as [A1 [A2 _]]. unfold hist_coll. rewrite A1, A2. reflexivity.
Qed.

(* ---------- a registered delete survives unless the object was added to a saved parent's collection ---------- *)
Lemma presort_keeps_delete : forall cfg s1 procs fuel u u' c,
  (forall p ri, ~ In c (h_added (hist_coll s1 p ri))) ->
  reg u c = Some true -> presort cfg s1 procs fuel u = Some u' -> reg u' c = Some true.
Proof.
  intros cfg s1 procs fuel u u' c Hno. apply (presort_inv cfg s1 (fun u => reg u c = Some true)).
  - intros u0 d H. exact H.
  - intros u0 pr b o [[x isdel] k] H Hin. rewrite reg_register.
    destruct (Nat.eqb c x && in_session s1 x) eqn:E; [|exact H].
    apply andb_true_iff in E. destruct E as [E _]. apply Nat.eqb_eq in E. subst x. rewrite H.
    destruct isdel; [reflexivity|]. destruct k; [|reflexivity]. exfalso.
    apply reqs_cancel_shape in Hin. destruct Hin as [ri [_ [_ [_ Hin]]]]. eapply Hno; eauto.
Qed.

(* ---------- orphan rule ---------- *)
(* a persistent, modified object that _is_orphan reports as an orphan (its has-parent flag for a delete-orphan
   relationship was cleared and not set again) is deleted by the flush, whatever the processor order, unless it
   was meanwhile added to another collection *)
Theorem flush_orphan_registered : forall cfg procs s u c,
  flush_regs cfg procs s u ->
  In c (top_proc cfg s) -> has_key s c = true -> is_orphan cfg s c = true ->
  (forall p ri, ~ In c (h_added (hist_coll s p ri))) ->
  reg u c = Some true.
Proof.
  intros cfg procs s u c [_ Hp] Hc Hk Ho Hno.
  eapply presort_keeps_delete; [|  |exact Hp].
  - intros p ri. rewrite flush_top_hist. apply Hno.
  - pose proof (flush_top_reg cfg s c) as R. cbv zeta in R. rewrite R.
    assert (T : top_expunge cfg s c = false).
    { unfold top_expunge. rewrite Hk. cbn [negb]. rewrite andb_false_r. reflexivity. }
    assert (I : in_session (fst (flush_top cfg s)) c = true).
    { unfold in_session. rewrite flush_top_st, T, andb_false_r.
      unfold top_proc in Hc. apply filter_In in Hc. destruct Hc as [_ Hc]. apply andb_true_iff in Hc.
      destruct Hc as [Hc _]. unfold has_key in Hk. unfold is_pending in Hc. destruct (st s c); try discriminate; reflexivity. }
    apply mem_In in Hc. rewrite Hc, T, I, Ho, Hk. cbn [negb andb].
    destruct (mem c (objs cfg) && marked (fst (flush_top cfg s)) c); reflexivity.
Qed.

Theorem flush_orphan_rule : forall cfg procs s u c,
  flush_regs cfg procs s u ->
  existsb (fun o => is_del u o && negb (has_key (fst (flush_top cfg s)) o)) (order u) = false ->
  In c (top_proc cfg s) -> has_key s c = true -> is_orphan cfg s c = true ->
  (forall p ri, ~ In c (h_added (hist_coll s p ri))) ->
  st (fst (flush_with cfg procs s)) c = Deleted /\ rowp (fst (flush_with cfg procs s)) c = false.
Proof.
  intros cfg procs s u c Hr Hnp Hc Hk Ho Hno.
  pose proof (flush_orphan_registered cfg procs s u c Hr Hc Hk Ho Hno) as R.
  destruct (flush_outcome cfg procs s u Hr Hnp) as [_ [_ [S Rw]]]. cbv zeta in S, Rw.
  rewrite S, Rw, R. split; reflexivity.
Qed.

(* ---------- every object marked by Session.delete is deleted ---------- *)
Theorem flush_marked_registered : forall cfg procs s u x,
  flush_regs cfg procs s u ->
  x < nobj cfg -> marked s x = true -> st s x = Persistent ->
  (forall p ri, ~ In x (h_added (hist_coll s p ri))) ->
  reg u x = Some true.
Proof.
  intros cfg procs s u x [_ Hp] Hx Hm Hst Hno.
  eapply presort_keeps_delete; [| |exact Hp].
  - intros p ri. rewrite flush_top_hist. apply Hno.
  - pose proof (flush_top_reg cfg s x) as R. cbv zeta in R. rewrite R.
    assert (Pn : mem x (top_proc cfg s) = false).
    { apply mem_false_notIn. intros H. unfold top_proc in H. apply filter_In in H. destruct H as [_ H].
      rewrite Hm in H. rewrite andb_false_r in H. discriminate. }
    assert (I : in_session (fst (flush_top cfg s)) x = true).
    { unfold in_session. rewrite flush_top_st, Pn. cbn [andb]. rewrite Hst. reflexivity. }
    assert (O : mem x (objs cfg) = true). { apply mem_In. apply in_seq. lia. }
    rewrite Pn, flush_top_marked, Hm, I, O. reflexivity.
Qed.

Theorem flush_marked_deleted : forall cfg procs s u x,
  flush_regs cfg procs s u ->
  existsb (fun o => is_del u o && negb (has_key (fst (flush_top cfg s)) o)) (order u) = false ->
  x < nobj cfg -> marked s x = true -> st s x = Persistent ->
  (forall p ri, ~ In x (h_added (hist_coll s p ri))) ->
  st (fst (flush_with cfg procs s)) x = Deleted /\ rowp (fst (flush_with cfg procs s)) x = false.
Proof.
  intros cfg procs s u x Hr Hnp Hx Hm Hst Hno.
  pose proof (flush_marked_registered cfg procs s u x Hr Hx Hm Hst Hno) as R.
  destruct (flush_outcome cfg procs s u Hr Hnp) as [_ [_ [S Rw]]]. cbv zeta in S, Rw.
  rewrite S, Rw, R. split; reflexivity.
Qed.

(* ---------- nothing else is deleted ---------- *)
Definition delete_justified (cfg : config) (s : state) (x : nat) : Prop :=
  marked s x = true \/ (is_orphan cfg s x = true /\ has_key s x = true) \/ cascaded_delete cfg s x.

Lemma cascaded_delete_top : forall cfg s x,
  cascaded_delete cfg (fst (flush_top cfg s)) x -> cascaded_delete cfg s x.
Proof.
  intros cfg s x [y [Hy Hx]]. destruct (flush_top_attrs cfg s) as [A1 [A2 [A3 [A4 [A5 _]]]]].
  exists y. split.
  - destruct Hy as [[ri [p [H1 [H2 H3]]]]|[ri [c [H1 H2]]]].
    + left. exists ri, p. split; [exact H1|]. split; [rewrite <- (flush_top_hist cfg s); exact H2|].
      unfold hp_false in *. rewrite <- A5. exact H3.
    + right. exists ri, c. split; [exact H1|]. unfold hist_scalar in *. rewrite <- A3, <- A4. exact H2.
  - destruct Hx as [Hx|Hx]; [left; exact Hx|right].
    apply (creach_ext cfg (fst (flush_top cfg s)) s TDL no_halt y x A1 A2 A3 A4 (flush_top_has_key cfg s) Hx).
Qed.

Theorem flush_deletes_justified : forall cfg procs s u x,
  flush_regs cfg procs s u -> reg u x = Some true -> delete_justified cfg s x.
Proof.
  intros cfg procs s u x [_ Hp].
  set (s1 := fst (flush_top cfg s)) in *.
  assert (Q : forall y, reg u y = Some true ->
                marked s y = true \/ (is_orphan cfg s y = true /\ has_key s y = true) \/ cascaded_delete cfg s1 y).
  { apply (presort_inv cfg s1 (fun u => forall y, reg u y = Some true ->
              marked s y = true \/ (is_orphan cfg s y = true /\ has_key s y = true) \/ cascaded_delete cfg s1 y)
             (fun u d H => H)) with (procs := procs) (fuel := presort_fuel cfg) (u := snd (flush_top cfg s)).
    - intros u0 pr b o [[z isdel] k] H Hin y. rewrite reg_register.
      destruct (Nat.eqb y z && in_session s1 z) eqn:E; [|apply H].
      apply andb_true_iff in E. destruct E as [E _]. apply Nat.eqb_eq in E. subst z.
      destruct (reg u0 y) as [old|] eqn:R.
      + destruct (isdel || k) eqn:IK.
        * intros Hd. inversion Hd. subst isdel. right. right. eapply reqs_delete_shape; eauto.
        * intros Hd. inversion Hd. subst old. apply H. exact R.
      + intros Hd. inversion Hd. subst isdel. right. right. eapply reqs_delete_shape; eauto.
    - intros y. pose proof (flush_top_reg cfg s y) as R. cbv zeta in R. fold s1 in R. rewrite R.
      unfold s1. rewrite flush_top_marked. fold s1.
      destruct (mem y (top_proc cfg s) && negb (top_expunge cfg s y) && in_session s1 y) eqn:E1.
      + assert (X : Some (is_orphan cfg s y && has_key s y) = Some true ->
                    marked s y = true \/ (is_orphan cfg s y = true /\ has_key s y = true) \/ cascaded_delete cfg s1 y).
        { intros Hd. assert (Hd' : is_orphan cfg s y && has_key s y = true) by congruence.
          apply andb_true_iff in Hd'. right. left. exact Hd'. }
        destruct (mem y (objs cfg) && marked s y && in_session s1 y); exact X.
      + destruct (mem y (objs cfg) && marked s y && in_session s1 y) eqn:E2; [|discriminate].
        intros _. left. apply andb_true_iff in E2. destruct E2 as [E2 _]. apply andb_true_iff in E2. tauto.
    - exact Hp. }
  intros Hx. destruct (Q x Hx) as [H|[H|H]]; [left; exact H|right; left; exact H|].
  right. right. apply cascaded_delete_top. exact H.
Qed.

(* an object that survives in the session after a flush keeps / gets a row; a deleted one has none *)
Theorem flush_rows_match_states : forall cfg procs s u,
  flush_regs cfg procs s u ->
  existsb (fun o => is_del u o && negb (has_key (fst (flush_top cfg s)) o)) (order u) = false ->
  forall x, reg u x <> None ->
  (st (fst (flush_with cfg procs s)) x = Deleted /\ rowp (fst (flush_with cfg procs s)) x = false) \/
  (st (fst (flush_with cfg procs s)) x = Persistent /\ rowp (fst (flush_with cfg procs s)) x = true).
Proof.
  intros cfg procs s u Hr Hnp x Hx.
  destruct (flush_outcome cfg procs s u Hr Hnp) as [_ [_ [S Rw]]]. cbv zeta in S, Rw. rewrite S, Rw.
  destruct (reg u x) as [[|]|]; [left|right|contradiction]; split; reflexivity.
Qed.
