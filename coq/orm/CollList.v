(* C38 - model of orm/collections.py::_list_decorators (InstrumentedList) as the code is NOW
   (slice assignment through slice.indices(), commit 1d9f897; value materialised first, 2c3a941;
   remove() fires its event only for a present value, b1144f3), and the builtin list it must equal.

   Each wrapper is transcribed statement by statement; the wrapped builtin [fn] is the reference
   semantics of base/PySlice.v.  Calls such as `del self[start]`, `self.insert(..)`,
   `self.append(..)`, `self.__setitem__(i, item)` inside a wrapper go to the instrumented methods
   (they fire events), exactly as in the source. *)
From Coq Require Import List ZArith Bool.
Import ListNotations.
From SAV.base Require Import PySlice.
From SAV.orm Require Import CollBase.
Open Scope Z_scope.

(* the right-hand side of a slice assignment / the argument of extend, += *)
Inductive value :=
| VList (v : list item)     (* a list / tuple: has len(), iterable *)
| VIter (v : list item)     (* a one-shot iterator / generator: iterable, no len() *)
| VSelf                     (* the collection itself *)
| VNonIter.                 (* not iterable (e.g. an int) *)

Inductive lop :=
| LAppend (x : item)
| LRemove (x : item)
| LInsert (i : Z) (x : item)
| LSetItem (i : Z) (x : item)
| LSetSlice (sl : pyslice) (v : value)
| LDelItem (i : Z)
| LDelSlice (sl : pyslice)
| LExtend (v : value)
| LIAdd (v : value)
| LPop (oi : option Z)
| LClear
| LIMul (n : Z)          (* not wrapped: see the comment at the end of _list_decorators *)
| LReverse               (* not wrapped *)
| LGetSlice (sl : pyslice).  (* not wrapped; read only *)

(* ---------- builtin list: remaining reference operations (need item equality) ---------- *)
Fixpoint remove_first (x : item) (l : list item) : option (list item) :=
  match l with
  | [] => None
  | y :: r => if Z.eqb x y then Some r
              else match remove_first x r with Some r' => Some (y :: r') | None => None end
  end.
Definition py_remove (l : list item) (x : item) : res (list item) :=
  match remove_first x l with Some l' => Ok l' | None => Raise ValueError end.

(* list(iterable) *)
Definition materialise (l : list item) (v : value) : option (list item) :=
  match v with
  | VList w | VIter w => Some w
  | VSelf => Some l
  | VNonIter => None
  end.

(* the builtin list, operation by operation: result and contents afterwards *)
Definition py_list_op (l : list item) (op : lop) : res retv * list item :=
  let upd (r : res (list item)) (rv : retv) :=
      match r with Ok l' => (Ok rv, l') | Raise e => (Raise e, l) end in
  match op with
  | LAppend x => (Ok RNone, l ++ [x])
  | LRemove x => upd (py_remove l x) RNone
  | LInsert i x => (Ok RNone, py_insert l i x)
  | LSetItem i x => upd (py_setitem l i x) RNone
  | LSetSlice sl v =>
      match adjust sl (zlen l) with
      | Raise e => (Raise e, l)
      | Ok _ =>
        match materialise l v with
        | None => (Raise TypeError, l)
        | Some w => upd (py_setslice l sl w) RNone
        end
      end
  | LDelItem i => upd (py_delitem l i) RNone
  | LDelSlice sl => upd (py_delslice l sl) RNone
  | LExtend v => match materialise l v with
                 | None => (Raise TypeError, l)
                 | Some w => (Ok RNone, l ++ w)
                 end
  | LIAdd v => match materialise l v with
               | None => (Raise TypeError, l)
               | Some w => (Ok RSelf, l ++ w)
               end
  | LPop oi => match py_pop l (match oi with Some i => i | None => -1 end) with
               | Ok (x, l') => (Ok (RItem x), l')
               | Raise e => (Raise e, l)
               end
  | LClear => (Ok RNone, [])
  | LIMul n => (Ok RSelf, py_imul l n)
  | LReverse => (Ok RNone, rev l)
  | LGetSlice sl => match py_getslice l sl with
                    | Ok r => (Ok (RList r), l)
                    | Raise e => (Raise e, l)
                    end
  end.

(* ---------- the instrumented list ---------- *)
Definition LM := M (list item).

Definition b_getitem (i : Z) : LM item :=
  lift (fun l => match py_getitem l i with Ok x => Ok (x, l) | Raise e => Raise e end).
Definition b_upd (f : list item -> res (list item)) : LM unit :=
  lift (fun l => match f l with Ok l' => Ok (tt, l') | Raise e => Raise e end).

(* def append(self, item): item = __set(self, item, ..); fn(self, item) *)
Definition sa_append (x : item) : LM unit :=
  fire (EAdd x) ;;; b_upd (fun l => Ok (l ++ [x])).

(* def remove(self, value): if value in self: __del(self, value, ..);  fn(self, value) *)
Definition sa_remove (x : item) : LM unit :=
  l <- get ;;
  (if mem x l then fire (ERem x) else ret tt) ;;;
  b_upd (fun l => py_remove l x).

(* def insert(self, index, value): value = __set(self, value, None, index); fn(self, index, value) *)
Definition sa_insert (i : Z) (x : item) : LM unit :=
  fire (EAdd x) ;;; b_upd (fun l => Ok (py_insert l i x)).

(* __setitem__, int index:
     existing = self[index]; if existing is not None: __del(..)   (members are never None)
     value = __set(..); fn(self, index, value) *)
Definition sa_setitem (i : Z) (x : item) : LM unit :=
  existing <- b_getitem i ;;
  fire (ERem existing) ;;;
  fire (EAdd x) ;;;
  b_upd (fun l => py_setitem l i x).

(* __delitem__, int index: item = self[index]; __del(..); fn(self, index) *)
Definition sa_delitem (i : Z) : LM unit :=
  it <- b_getitem i ;;
  fire (ERem it) ;;;
  b_upd (fun l => py_delitem l i).

(* __delitem__, slice: for item in self[index]: __del(..);  fn(self, index) *)
Definition sa_delslice (sl : pyslice) : LM unit :=
  items <- lift (fun l => match py_getslice l sl with Ok r => Ok (r, l) | Raise e => Raise e end) ;;
  for_each items (fun it => fire (ERem it)) ;;;
  b_upd (fun l => py_delslice l sl).

(* for i in range(start, stop, step): if len(self) > start: del self[start] *)
Fixpoint del_loop (n : nat) (start : Z) : LM unit :=
  match n with
  | O => ret tt
  | S n' =>
      l <- get ;;
      (if start <? zlen l then sa_delitem start else ret tt) ;;;
      del_loop n' start
  end.

(* for i, item in enumerate(value): self.insert(i + start, item) *)
Fixpoint ins_loop (pos : Z) (v : list item) : LM unit :=
  match v with
  | [] => ret tt
  | x :: v' => sa_insert pos x ;;; ins_loop (pos + 1) v'
  end.

(* for i, item in zip(rng, value): self.__setitem__(i, item)        value a real sequence *)
Fixpoint set_loop (ivs : list (Z * item)) : LM unit :=
  match ivs with
  | [] => ret tt
  | (i, x) :: r => sa_setitem i x ;;; set_loop r
  end.

(* __setitem__, slice:
     start, stop, step = index.indices(len(self))
     if step == 1:
         if value is self: return
         value = list(value)
         for i in range(start, stop, step): if len(self) > start: del self[start]
         for i, item in enumerate(value): self.insert(i + start, item)
     else:
         value = list(value)
         rng = list(range(start, stop, step))
         if len(value) != len(rng): raise ValueError(..)
         for i, item in zip(rng, value): self.__setitem__(i, item) *)
Definition sa_setslice (sl : pyslice) (v : value) : LM unit :=
  l <- get ;;
  ind <- lift (fun c => match adjust sl (zlen l) with Ok t => Ok (t, c) | Raise e => Raise e end) ;;
  let '(start, stop, step) := ind in
  if step =? 1 then
    match v with
    | VSelf => ret tt
    | _ =>
      match materialise l v with
      | None => raise TypeError                                   (* list(value) *)
      | Some w => del_loop (length (range start stop step)) start ;;; ins_loop start w
      end
    end
  else
    match materialise l v with
    | None => raise TypeError                                     (* list(value) *)
    | Some w =>
        let rng := range start stop step in
        if Nat.eqb (length w) (length rng) then set_loop (combine rng w) else raise ValueError
    end.

(* extend / __iadd__: for value in list(iterable): self.append(value) *)
Definition sa_extend (v : value) : LM unit :=
  l <- get ;;
  match materialise l v with
  | None => raise TypeError
  | Some w => for_each w sa_append
  end.

(* pop: __before_pop(self); item = fn(self, index); __del(self, item, None, index); return item *)
Definition sa_pop (i : Z) : LM item :=
  it <- lift (fun l => py_pop l i) ;;
  fire (ERem it) ;;;
  ret it.

(* clear: for item in self: __del(..);  fn(self) *)
Definition sa_clear : LM unit :=
  l <- get ;;
  for_each l (fun it => fire (ERem it)) ;;;
  put [].

Definition sa_list_op (op : lop) : LM retv :=
  match op with
  | LAppend x => sa_append x ;;; ret RNone
  | LRemove x => sa_remove x ;;; ret RNone
  | LInsert i x => sa_insert i x ;;; ret RNone
  | LSetItem i x => sa_setitem i x ;;; ret RNone
  | LSetSlice sl v => sa_setslice sl v ;;; ret RNone
  | LDelItem i => sa_delitem i ;;; ret RNone
  | LDelSlice sl => sa_delslice sl ;;; ret RNone
  | LExtend v => sa_extend v ;;; ret RNone
  | LIAdd v => sa_extend v ;;; ret RSelf
  | LPop oi => it <- sa_pop (match oi with Some i => i | None => -1 end) ;; ret (RItem it)
  | LClear => sa_clear ;;; ret RNone
  | LIMul n => b_upd (fun l => Ok (py_imul l n)) ;;; ret RSelf        (* builtin, no events *)
  | LReverse => b_upd (fun l => Ok (rev l)) ;;; ret RNone             (* builtin, no events *)
  | LGetSlice sl =>
      r <- lift (fun l => match py_getslice l sl with Ok r => Ok (r, l) | Raise e => Raise e end) ;;
      ret (RList r)
  end.

(* one operation on contents [l] with an empty log: (result, contents, events) *)
Definition sa_list_run1 (l : list item) (op : lop) : res retv * list item * list ev :=
  match sa_list_op op (l, []) with (r, (l', g)) => (r, l', g) end.

(* a history of operations; the log accumulates *)
Fixpoint sa_list_run (ops : list lop) (s : st (list item)) : list (res retv) * st (list item) :=
  match ops with
  | [] => ([], s)
  | op :: r => match sa_list_op op s with
               | (x, s') => let '(xs, s'') := sa_list_run r s' in (x :: xs, s'')
               end
  end.
Fixpoint py_list_run (ops : list lop) (l : list item) : list (res retv) * list item :=
  match ops with
  | [] => ([], l)
  | op :: r => match py_list_op l op with
               | (x, l') => let '(xs, l'') := py_list_run r l' in (x :: xs, l'')
               end
  end.

(* ---------- where the instrumented list is known NOT to equal the builtin ---------- *)
(* contents/result/exception: the only exclusion left is  c[a:b] = c  (step 1) unless the slice is
   the whole list (`if value is self: return`, a documented decision of the test-suite) *)
Definition list_eq_guard (l : list item) (op : lop) : bool :=
  match op with
  | LSetSlice sl VSelf =>
      match adjust sl (zlen l) with
      | Raise _ => true
      | Ok (start, stop, step) =>
          if step =? 1 then (start =? 0) && (Z.max start stop =? zlen l) else true
      end
  | _ => true
  end.

(* event accounting: the only exclusion left is  *= n  that changes the contents (n <> 1 on a
   non-empty list): __imul__ is deliberately not wrapped *)
Definition list_acct_guard (l : list item) (op : lop) : bool :=
  match op with
  | LIMul n => (n =? 1) || Nat.eqb (length l) 0
  | _ => true
  end.

Fixpoint all_guard (g : list item -> lop -> bool) (ops : list lop) (l : list item) : bool :=
  match ops with
  | [] => true
  | op :: r => g l op && all_guard g r (snd (py_list_op l op))
  end.
