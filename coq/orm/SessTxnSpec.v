(* C33 - what "the session agrees with the database" means on a model state, and the guard that
   excludes the five defective regions of the implementation.  Definitions only. *)
From Coq Require Import List ZArith Bool Arith.
Import ListNotations.
From SAV.orm Require Import SessTxn.
Open Scope nat_scope.

Definition is_persistent (ob : obj) : bool :=
  match okey ob with Some _ => oatt ob && negb (odelf ob) | None => false end.
Definition is_deleted_state (ob : obj) : bool :=
  match okey ob with Some _ => oatt ob && odelf ob | None => false end.
Definition is_pending (ob : obj) : bool :=
  match okey ob with Some _ => false | None => oatt ob end.

Definition loaded_is (x : option Z) (v : Z) : bool := match x with None => true | Some y => Z.eqb y v end.

(* one object against the rows the session's transaction currently sees ([work]; equal to the committed
   rows when no transaction is open):
   - persistent: its identity key names an existing row; unless it has unflushed modifications, every
     loaded attribute value equals that row;
   - deleted state: the row is gone (or belongs to another persistent object meanwhile);
   - transient / pending / detached: nothing is claimed. *)
Definition obj_agrees (st : sess) (o : nat) : bool :=
  let ob := objs st o in
  match okey ob with
  | None => true
  | Some k =>
      if negb (oatt ob) then true
      else if odelf ob then
        match work st k with
        | None => true
        | Some _ => existsb (fun o' => negb (Nat.eqb o' o) && is_persistent (objs st o') && key_is k (objs st o')) (all_objs st)
        end
      else
        match work st k with
        | None => false
        | Some v => omod ob || (loaded_is (odid ob) k && loaded_is (odv ob) v)
        end
  end.
Definition agrees (st : sess) : bool := forallb (obj_agrees st) (all_objs st).
(* after a boundary nothing is pending, modified or marked for deletion *)
Definition no_pending (st : sess) : bool :=
  forallb (fun o => negb (is_pending (objs st o))) (all_objs st).

Definition is_boundary (p : op) : bool :=
  match p with OCommit | ORollback | OTCommit _ | OTRollback _ => true | _ => false end.

(* ------------------------------------------------------------------ the guard *)
Definition on_stack (n : nat) (st : sess) : bool := existsb (fun f => Nat.eqb (fid f) n) (stack st).

(* [guard st p]: operation [p] in state [st] stays outside the defective regions:
   g1  handle.rollback() of a savepoint that is not the innermost open one (the inner ones are closed
       without _restore_snapshot);
   g5  delete() of an object that is already in the deleted state (it is put back into the identity map);
   g6  close() while an object is in the deleted state and no open transaction refers to it (with
       expire_on_commit=False an object stays in the deleted state, attached, after its DELETE was
       committed; expunge_all cannot find it).
   (Former clauses g2 - key switches of one object in a savepoint and an enclosing scope - and g3 - add()
   of an object whose _deleted flag survived an expunge - are gone: the implementation was repaired,
   commits f8f802f and 0c90c34, and the theorem is proved without them; g6 shrank with 9732dc8.)
   Not a defect, a limit of what is proved: after a failed flush (innermost transaction DEACTIVE) the
   object operations new/add/assign/delete are outside the guard until the transaction is rolled back
   (the implementation discards such changes with a warning; covered by the correspondence only). *)
(* the innermost transaction is usable (not waiting for rollback() after a failed flush) *)
Definition head_usable (st : sess) : bool :=
  match stack st with f :: _ => tstate_eqb (fstate f) ACTIVE | [] => true end.

Definition guard (st : sess) (p : op) : bool :=
  (match p with ONew _ _ | OAdd _ | OSetV _ _ | OSetPK _ _ | ODel _ => head_usable st | _ => true end) &&
  match p with
  | OTRollback h =>
      match nth_error (handles st) h with
      | Some (Some n) => head_is n st || negb (on_stack n st)
      | _ => true
      end
  | ODel o => negb (odelf (objs st o))
  | OClose => negb (existsb (fun o => is_deleted_state (objs st o) &&
                                      negb (existsb (fun f => mem o (fdel f)) (stack st))) (all_objs st))
  | _ => true
  end.

(* a guarded history: every operation is modelled and passes the guard in the state it is applied to *)
Inductive GReach (e : bool) : sess -> Prop :=
  | greach_init : GReach e (sess0 e)
  | greach_step : forall st p r st', GReach e st -> guard st p = true -> do_op p st = (r, st') ->
      r <> Unmodelled -> GReach e st'.

(* final state of a run *)
Definition final (e : bool) (ps : list op) : res * sess := last (run (sess0 e) ps) (Ok, sess0 e).
