(* C33 - the main induction: every guarded operation keeps the session invariant. *)
From Coq Require Import List ZArith Bool Arith Lia.
Import ListNotations.
From SAV.orm Require Import SessTxn SessTxnBase SessTxnSpec SessTxnInv SessTxnOps SessTxnRestore SessTxnRestore2
  SessTxnShift SessTxnStmts SessTxnFlush SessTxnDbInv SessTxnCore SessTxnFlushCore SessTxnTx SessTxnCommit SessTxnObjOps
  SessTxnNested SessTxnClose.
Open Scope nat_scope.

Lemma inv_init : forall e, Inv (sess0 e).
Proof.
  intros e. exists []. constructor.
  - unfold GoodS, sess0. cbn. constructor; cbn; try (intros; discriminate); try (intros; lia); try (intros; contradiction);
      try (split; constructor); try (intros o; split; [intros []|intros [X _]; lia]).
  - intros o Ho. cbn in Ho. lia.
  - constructor; cbn; auto. split; [reflexivity|exact I].
  - exact I.
  - intros _. reflexivity.
Qed.

Lemma find_frame_none : forall st n, on_stack n st = false -> find_frame n st = None.
Proof.
  intros st n H. unfold on_stack in H. unfold find_frame. induction (stack st) as [|f r IH]; cbn in *; auto.
  apply orb_false_iff in H. destruct H as [H1 H2]. rewrite H1. auto.
Qed.

Theorem do_op_inv : forall st p r st', Inv st -> guard st p = true ->
  do_op p st = (r, st') -> r <> Unmodelled ->
  Inv st' /\ (is_boundary p = true -> r = Ok -> is_clean st' = true).
Proof.
  intros st p r st' [gs C] Hg H Hr. unfold Inv.
  assert (NB : forall X : Prop, X -> is_boundary p = false -> X /\ (is_boundary p = true -> r = Ok -> is_clean st' = true)).
  { intros X x E. split; auto. intros Y. congruence. }
  assert (Hu : match p with ONew _ _ | OAdd _ | OSetV _ _ | OSetPK _ _ | ODel _ => head_usable st = true | _ => True end).
  { unfold guard in Hg. apply andb_prop in Hg. destruct Hg as [Hg _]. destruct p; auto. }
  destruct p.
  - apply NB; auto. eapply op_new_core; eauto.
  - apply NB; auto. eapply op_add_core; eauto.
  - apply NB; auto. eapply op_setv_core; eauto.
  - apply NB; auto. eapply op_setpk_core; eauto.
  - apply NB; auto. eapply op_del_core; eauto.
  - apply NB; auto. cbn [do_op] in H. destruct (flush_core st gs r st' C H Hr) as [C' _]. eauto.
  - apply NB; auto. eapply op_nested_core; eauto.
  - (* Session.commit *)
    cbn [do_op] in H.
    destruct (autobegin_core st gs C) as [gs1 [C1 [A1 A2]]].
    assert (Hl : length (stack (autobegin st)) < S (S (length (stack st)))).
    { unfold autobegin. destruct (stack st) eqn:Es; cbn; rewrite ?Es; cbn; lia. }
    destruct (commit_all_core _ _ gs1 r st' C1 Hl H Hr) as [gs' [C' B]].
    split; [eauto|]. intros _ Y. apply B; auto.
  - cbn [do_op] in H.
    destruct (rollback_all_core (S (length (stack st))) st gs C) as (s2 & E & C2 & _ & Cl2 & _); [lia|].
    rewrite E in H. inversion H; subst. eauto.
  - (* handle.commit() *)
    cbn [do_op] in H.
    destruct (nth_error (handles st) h) as [[n|]|] eqn:En;
      [|inversion H; subst; split; [eauto|intros _ Y; discriminate]|inversion H; subst; congruence].
    destruct (t_commit_core st gs n r st' C H Hr) as [gs' [C' [B _]]]. split; eauto.
  - (* handle.rollback() *)
    cbn [do_op] in H. unfold guard in Hg. cbn in Hg.
    destruct (nth_error (handles st) h) as [[n|]|] eqn:En;
      [|inversion H; subst; split; [eauto|intros _ Y; discriminate]|inversion H; subst; congruence].
    apply orb_prop in Hg. destruct Hg as [Hg|Hg].
    + rewrite (t_rollback_head st gs n C Hg) in H.
      unfold head_is in Hg. destruct (stack st) as [|f rest] eqn:Es; [discriminate|].
      destruct (Core_shape st gs f rest C Es) as [g [gs' Eg]]. subst gs.
      destruct (rollback_head_core st g gs' f rest C Es) as (s2 & E & C2 & _ & Cl2 & _).
      rewrite E in H. inversion H; subst. eauto.
    + apply negb_true_iff in Hg. rewrite (t_rollback_gone st n (find_frame_none st n Hg)) in H. inversion H; subst.
      split; [eauto|intros _ Y; discriminate].
  - (* Session.close() *)
    destruct (op_close_core st gs r st' C Hg H Hr) as [_ [C' _]]. apply NB; eauto.
  - apply NB; auto. eapply op_load_core; eauto.
Qed.

Lemma Good_no_pending : forall st, GoodS st -> snew st = [] -> no_pending st = true.
Proof.
  intros st G Hn. unfold no_pending. apply forallb_forall. intros o Ho. apply in_seq in Ho. cbn in Ho.
  unfold is_pending. destruct (okey (objs st o)) eqn:Ek; auto.
  destruct (oatt (objs st o)) eqn:Ea; auto.
  assert (X : In o (snew st)). { apply (g_new _ _ _ _ _ G). repeat split; auto. lia. }
  rewrite Hn in X. destruct X.
Qed.

(* every state of a guarded history (SessTxnSpec.GReach) satisfies the invariant *)
Theorem greach_inv : forall e st, GReach e st -> Inv st.
Proof.
  intros e st H. induction H; [apply inv_init|]. eapply do_op_inv; eauto.
Qed.

(* T2, the guarded theorem: at EVERY point of a guarded history the session agrees with the rows its
   transaction sees; after every successful commit/rollback (outer or savepoint) nothing is pending,
   modified or marked for deletion *)
Theorem agreement_guarded : forall e st p r st', GReach e st -> guard st p = true ->
  do_op p st = (r, st') -> r <> Unmodelled ->
  agrees st' = true /\ (is_boundary p = true -> r = Ok -> is_clean st' = true /\ no_pending st' = true).
Proof.
  intros e st p r st' R Hg H Hr.
  destruct (do_op_inv st p r st' (greach_inv e st R) Hg H Hr) as [[gs C] B].
  split; [apply Good_agrees; exact (c_good _ _ C)|].
  intros X Y. specialize (B X Y). split; auto.
  apply Good_no_pending; [exact (c_good _ _ C)|].
  unfold is_clean in B. apply andb_prop in B. destruct B as [_ B]. destruct (snew st'); [reflexivity|discriminate].
Qed.
