(* C40 - composite keys: how selectin loading extracts the key tuple that groups the fetched rows.
   _SelectInLoader._init_for_omit_join: the related rows are keyed by the FK columns listed BY WALKING THE
   PARENT'S PRIMARY KEY ([pk_to_fk[col] for col in parent.primary_key]), so that the tuple lines up with
   the parent identity key (state.key[1], in primary-key order) whatever the order in which the
   relationship's join condition lists the column pairs. *)
From Coq Require Import List ZArith Bool Lia.
Import ListNotations.
From SAV.orm Require Import Loaders.
Open Scope Z_scope.

Definition krow := list (option Z).                       (* a row: column values by position *)
Definition colval (r : krow) (c : nat) : option Z := nth c r None.

Definition lookup_fk (pairs : list (nat * nat)) (c : nat) : option nat :=
  match find (fun p => Nat.eqb (fst p) c) pairs with Some p => Some (snd p) | None => None end.

(* [pk_to_fk[col] for col in self.parent.primary_key if col in pk_to_fk] *)
Definition fk_cols (pairs : list (nat * nat)) (pk : list nat) : list nat :=
  flat_map (fun c => match lookup_fk pairs c with Some f => [f] | None => [] end) pk.

Fixpoint key_eqb (a b : list (option Z)) : bool :=
  match a, b with
  | [], [] => true
  | Some x :: a', Some y :: b' => (x =? y) && key_eqb a' b'
  | None :: a', None :: b' => key_eqb a' b'      (* Python tuple equality: None == None *)
  | _, _ => false
  end.

(* selectin, one-to-many: data[row[:n_pk]].append(row[n_pk]); collection = data.get(state.key[1]) *)
Definition selectin_down (fkc : list nat) (pk : list nat) (parents children : list krow) : list (krow * list krow) :=
  map (fun p => (p, filter (fun c => key_eqb (map (colval c) fkc) (map (colval p) pk)) children)) parents.

(* the join condition: every (parent column, child column) pair equal, NULL equal to nothing *)
Definition joined_on (pairs : list (nat * nat)) (p c : krow) : bool :=
  forallb (fun pr => okey_eqb (colval p (fst pr)) (colval c (snd pr))) pairs.
Definition spec_down (pairs : list (nat * nat)) (parents children : list krow) : list (krow * list krow) :=
  map (fun p => (p, filter (joined_on pairs p) children)) parents.

(* selectin, many-to-one (_init_for_omit_join_m2o / _load_via_child): the child's key is its FK values in
   the TARGET's primary-key order; a NULL component means no parent *)
Definition selectin_up (fkc : list nat) (pk : list nat) (parents children : list krow) : list (krow * list krow) :=
  map (fun c => (c, let k := map (colval c) fkc in
                    if existsb (fun v => match v with None => true | Some _ => false end) k then []
                    else filter (fun p => key_eqb k (map (colval p) pk)) parents)) children.
Definition spec_up (pairs : list (nat * nat)) (parents children : list krow) : list (krow * list krow) :=
  map (fun c => (c, filter (fun p => joined_on pairs p c) parents)) children.

(* the seeded variant: the dict's own (join-condition) order *)
Definition fk_cols_dict_order (pairs : list (nat * nat)) (pk : list nat) : list nat :=
  map snd (filter (fun p => existsb (Nat.eqb (fst p)) pk) pairs).

(* ---------------------------------------------------------------- proofs *)
Definition wf_pairs (pairs : list (nat * nat)) (pk : list nat) : Prop :=
  NoDup (map fst pairs) /\ (forall c, In c pk <-> In c (map fst pairs)).
Definition pk_not_null (pk : list nat) (p : krow) : Prop := forall c, In c pk -> colval p c <> None.

Lemma lookup_fk_in : forall pairs a f, NoDup (map fst pairs) -> In (a, f) pairs -> lookup_fk pairs a = Some f.
Proof.
  induction pairs as [|[a0 f0] pairs IH]; intros a f N H; [contradiction|]. unfold lookup_fk. cbn [find fst].
  change (map fst ((a0, f0) :: pairs)) with (a0 :: map fst pairs) in N. inversion N as [|? ? Hn Hd]; subst. destruct H as [E|H].
  - inversion E; subst. rewrite Nat.eqb_refl. reflexivity.
  - destruct (Nat.eqb a0 a) eqn:E.
    + apply Nat.eqb_eq in E. subst. exfalso. apply Hn. change a with (fst (a, f)). apply in_map; auto.
    + apply IH; auto.
Qed.
Lemma lookup_fk_some : forall pairs a f, lookup_fk pairs a = Some f -> In (a, f) pairs.
Proof.
  intros pairs a f H. unfold lookup_fk in H. destruct (find _ pairs) as [p|] eqn:E; [|discriminate].
  apply find_some in E as [Hp E]. apply Nat.eqb_eq in E. inversion H; subst. destruct p; auto.
Qed.

Lemma key_eqb_pointwise : forall (A : Type) (l : list A) (f g : A -> option Z),
  (forall x, In x l -> g x <> None) ->
  (key_eqb (map f l) (map g l) = true <-> forall x, In x l -> f x = g x).
Proof.
  induction l as [|a l IH]; intros f g NN; cbn [map key_eqb]; [split; auto; intros _ x []|].
  assert (NN' : forall x, In x l -> g x <> None) by (intros; apply NN; cbn; auto).
  specialize (IH f g NN'). destruct (g a) as [y|] eqn:Ga; [|exfalso; apply (NN a); cbn; auto].
  destruct (f a) as [x|] eqn:Fa.
  - rewrite andb_true_iff, IH, Z.eqb_eq. split.
    + intros [E H] z [<-|Hz]; [congruence|auto].
    + intro H. split; [|intros; apply H; cbn; auto]. specialize (H a (or_introl eq_refl)). congruence.
  - split; [discriminate|]. intro H. specialize (H a (or_introl eq_refl)). congruence.
Qed.

Lemma fk_cols_map : forall pairs pk, (forall c, In c pk -> In c (map fst pairs)) ->
  forall r, map (colval r) (fk_cols pairs pk) =
            map (fun c => match lookup_fk pairs c with Some f => colval r f | None => None end) pk.
Proof.
  intros pairs pk H r. unfold fk_cols. induction pk as [|c pk IH]; auto. cbn [flat_map map]. rewrite map_app, IH by (intros; apply H; cbn; auto).
  destruct (lookup_fk pairs c) eqn:E; auto.
  exfalso. assert (Hc : In c (map fst pairs)) by (apply H; cbn; auto). apply in_map_iff in Hc as [[a f] [Ea Hp]]. cbn in Ea. subst.
  unfold lookup_fk in E. destruct (find _ pairs) eqn:E2; [discriminate|]. eapply find_none in E2; eauto. cbn in E2. rewrite Nat.eqb_refl in E2. discriminate.
Qed.

(* the key lemma: for EVERY order of the join-condition pairs, the key tuple read off a related row equals
   the parent's identity key exactly when the join condition holds *)
Theorem key_match_iff_joined : forall pairs pk p c, wf_pairs pairs pk -> pk_not_null pk p ->
  key_eqb (map (colval c) (fk_cols pairs pk)) (map (colval p) pk) = joined_on pairs p c.
Proof.
  intros pairs pk p c [N HP] NN.
  rewrite fk_cols_map by (intros; apply HP; auto).
  apply eq_true_iff_eq. rewrite key_eqb_pointwise by exact NN. unfold joined_on. rewrite forallb_forall. split.
  - intros H [a f] Hp. cbn [fst snd]. assert (Ha : In a pk) by (apply HP; change a with (fst (a, f)); apply in_map; auto).
    specialize (H a Ha). rewrite (lookup_fk_in pairs a f N Hp) in H. rewrite H.
    destruct (colval p a) eqn:E; [cbn; apply Z.eqb_refl|exfalso; eapply NN; eauto].
  - intros H a Ha. destruct (lookup_fk pairs a) as [f|] eqn:E.
    + apply lookup_fk_some in E. specialize (H (a, f) E). cbn [fst snd] in H.
      destruct (colval p a) as [x|], (colval c f) as [y|]; cbn in H; try discriminate. apply Z.eqb_eq in H. congruence.
    + exfalso. apply HP in Ha. apply in_map_iff in Ha as [[a' f] [Ea Hp]]. cbn in Ea. subst. rewrite (lookup_fk_in pairs a f N Hp) in E. discriminate.
Qed.

Theorem selectin_down_eq_spec : forall pairs pk parents children, wf_pairs pairs pk ->
  Forall (pk_not_null pk) parents ->
  selectin_down (fk_cols pairs pk) pk parents children = spec_down pairs parents children.
Proof.
  intros pairs pk parents children W NN. unfold selectin_down, spec_down. apply map_ext_in. intros p Hp. f_equal.
  apply filter_ext. intro c. apply key_match_iff_joined; auto. rewrite Forall_forall in NN. auto.
Qed.

Theorem selectin_up_eq_spec : forall pairs pk parents children, wf_pairs pairs pk ->
  Forall (pk_not_null pk) parents ->
  selectin_up (fk_cols pairs pk) pk parents children = spec_up pairs parents children.
Proof.
  intros pairs pk parents children W NN. unfold selectin_up, spec_up. apply map_ext_in. intros c Hc. f_equal.
  rewrite Forall_forall in NN.
  destruct (existsb _ (map (colval c) (fk_cols pairs pk))) eqn:E.
  - (* a NULL component: the join condition holds for no parent *)
    symmetry. apply existsb_exists in E as [v [Hv Ev]]. destruct v; [discriminate|].
    assert (forall l, (forall p, In p l -> joined_on pairs p c = false) -> filter (fun p => joined_on pairs p c) l = []).
    { induction l as [|a l IH]; intro H; cbn; auto. rewrite (H a) by (cbn; auto). apply IH. intros; apply H; cbn; auto. }
    apply H. intros p Hp. rewrite <- (key_match_iff_joined pairs pk p c W (NN p Hp)).
    destruct (key_eqb _ _) eqn:K; auto. exfalso.
    destruct W as [N HP]. rewrite fk_cols_map in K, Hv by (intros; apply HP; auto).
    rewrite key_eqb_pointwise in K by (apply NN; auto).
    apply in_map_iff in Hv as [a [Ea Ha]]. rewrite (K a Ha) in Ea. eapply NN; eauto.
  - apply filter_ext_in. intros p Hp. apply key_match_iff_joined; auto.
Qed.

(* listing the key columns in the join condition's own order instead is wrong as soon as that order
   differs from the primary key's: parents (1,2) and (2,1) receive each other's children *)
Theorem dict_order_refuted : exists pairs pk parents children, wf_pairs pairs pk /\ Forall (pk_not_null pk) parents /\
  selectin_down (fk_cols_dict_order pairs pk) pk parents children <> spec_down pairs parents children.
Proof.
  exists [(1%nat, 2%nat); (0%nat, 1%nat)], [0%nat; 1%nat],
         [[Some 1; Some 2]; [Some 2; Some 1]],
         [[Some 7; Some 1; Some 2]; [Some 8; Some 2; Some 1]].
  split; [|split].
  - split; [cbn; repeat constructor; cbn; intuition; discriminate|].
    intro c. cbn. intuition.
  - repeat constructor; intros c [<-|[<-|[]]]; cbn; discriminate.
  - vm_compute. intro H. discriminate H.
Qed.
