(* C44: the statements of props/C44.v, over every reachable state of every history *)
From Coq Require Import List ZArith NArith Bool Arith Lia.
Import ListNotations.
From SAV.orm Require Import Version VersionBase VersionStmts VersionInv VersionFlush VersionStep VersionTheorems VersionWitness.
Open Scope Z_scope.

Lemma del_check_guard : forall sane_multi n, (sane_multi = true \/ n = 1%nat) -> del_check true sane_multi n = true.
Proof.
  intros sm n [-> | ->]; unfold del_check; [reflexivity|]. cbn. apply orb_true_r.
Qed.

Lemma run_app : forall server a b eoc g l1 l2 s,
  run server a b eoc g (l1 ++ l2) s = run server a b eoc g l2 (run server a b eoc g l1 s).
Proof. induction l1 as [|[i o] t IH]; intros; cbn [run app]; [reflexivity|apply IH]. Qed.

Section P.
Variables (server sane_multi : bool) (eoc : nat -> bool) (g : Z -> Z).
Hypothesis Hg : forall v, v < g v.
Variable r0 : rows.
Notation stepT := (step server true sane_multi eoc g).
Notation reachT := (reach server true sane_multi eoc g r0).

Theorem main_stale : forall s i o, reachT s -> is_flush o ->
  stale_upd s i \/ (stale_del s i /\ (sane_multi = true \/ n_dels s i = 1%nat)) ->
  let s' := fst (stepT i o s) in
  let r := snd (stepT i o s) in
  (r = RStale \/ r = RBusy) /\
  (begin_write (sdb s) i (snap (sget i (sss s))) <> None -> r = RStale) /\
  com (sdb s') = com (sdb s) /\ gen (sdb s') = gen (sdb s) /\
  writer_is (sdb s') i = None /\ sget i (sss s') = empty_sess /\
  forall j, j <> i -> sget j (sss s') = sget j (sss s) /\ writer_is (sdb s') j = writer_is (sdb s) j.
Proof.
  intros s i o HR Ho Hst. pose proof (reach_inv server sane_multi eoc g Hg r0 s HR) as HI.
  assert (Hst' : stale_upd s i \/ (stale_del s i /\ del_check true sane_multi (n_dels s i) = true)).
  { destruct Hst as [H|[H G]]; [left; exact H|right; split; [exact H|apply del_check_guard, G]]. }
  destruct (stale_flush_fails server sane_multi eoc g i o s HI Ho Hst') as [A [B C]].
  cbv zeta. split; [exact A|]. split; [exact B|]. rewrite C.
  destruct (rolled_back_facts s i) as [F1 [F2 [F3 [F4 F5]]]].
  split; [exact F1|]. split; [exact F2|]. split; [exact F3|]. split; [exact F4|exact F5].
Qed.

Theorem main_monotone : forall s l, reachT s ->
  forall k b, lookup k (com (sdb (run server true sane_multi eoc g l s))) = Some b ->
  exists a, lookup k (com (sdb s)) = Some a /\ rv a <= rv b /\ (rv a = rv b -> rx a = rx b).
Proof.
  intros s l HR. pose proof (reach_inv server sane_multi eoc g Hg r0 s HR) as HI.
  exact (versions_monotone server sane_multi eoc g Hg l s HI).
Qed.

Theorem main_no_lost_update : forall s i o, reachT s -> is_flush o -> snd (stepT i o s) = ROk ->
  forall k e, In (k, e) (sents (sget i (sss s))) ->
  (is_upd e = true ->
     lookup k (cur_rows (sdb s) i) = Some {| rx := ex e; rv := ev e |} /\
     lookup k (after_rows o (fst (stepT i o s)) i) = Some {| rx := pend_of e; rv := g (ev e) |} /\ ev e < g (ev e)) /\
  (edel e = true -> (sane_multi = true \/ n_dels s i = 1%nat) ->
     lookup k (cur_rows (sdb s) i) = Some {| rx := ex e; rv := ev e |} /\
     lookup k (after_rows o (fst (stepT i o s)) i) = None).
Proof.
  intros s i o HR Ho Hr k e Hin. pose proof (reach_inv server sane_multi eoc g Hg r0 s HR) as HI.
  destruct (no_lost_update server sane_multi eoc g Hg i o s HI Ho Hr k e Hin) as [A B].
  split; [exact A|]. intros Hd G. apply B; [exact Hd|apply del_check_guard, G].
Qed.

Theorem main_other_sessions : forall s i o j, reachT s -> j <> i ->
  sget j (sss (fst (stepT i o s))) = sget j (sss s).
Proof.
  intros s i o j HR N. pose proof (reach_inv server sane_multi eoc g Hg r0 s HR) as HI.
  apply step_other_sessions; [exact N|apply (proj2 HI i)].
Qed.
End P.

(* refutations *)
Theorem main_multi_delete_refuted :
  exists s i, reach false true false no_eoc Z.succ rows12 s /\ stale_del s i /\ n_dels s i = 2%nat /\
    snd (step false true false no_eoc Z.succ i Commit s) = ROk /\
    lookup 1 (com (sdb (fst (step false true false no_eoc Z.succ i Commit s)))) = Some {| rx := (5, 0); rv := 2 |}.
Proof.
  exists (st_del true false), 0%nat. split; [apply st_del_reach|]. split; [apply st_del_stale|].
  destruct multi_delete_unchecked as [A [B C]]. split; [exact C|]. split; [exact A|]. rewrite B. reflexivity.
Qed.

Theorem main_no_sane_rowcount_refuted :
  exists s i, reach false false false no_eoc Z.succ rows12 s /\ stale_upd s i /\
    snd (step false false false no_eoc Z.succ i Commit s) = ROk.
Proof.
  exists (st_upd false false), 0%nat. split; [apply st_upd_reach|]. split; [apply st_upd_stale|].
  apply no_sane_rowcount_unchecked.
Qed.
