(* C40 - main theorem: for every assignment of loader strategies along the path, what is loaded is the
   relational meaning of the query. *)
From Coq Require Import List ZArith Bool Lia Sorting.Sorted Permutation.
Import ListNotations.
From SAV.orm Require Import Loaders LoadersBase LoadersJoin LoadersStmt LoadersSrc LoadersOne LoadersAttach LoadersSubq.
Open Scope Z_scope.

(* is a subquery load issued that re-issues the user's own statement? *)
Fixpoint root_subq (asg : list strategy) : bool :=
  match asg with
  | SSubquery :: _ => true
  | SJoined :: r => root_subq r
  | _ => false
  end.

(* ---------------------------------------------------------------- Forall2 plumbing *)
Lemma Forall2_map_same : forall {A B C} (R : B -> C -> Prop) (f : A -> B) (g : A -> C) l,
  (forall x, In x l -> R (f x) (g x)) -> Forall2 R (map f l) (map g l).
Proof. induction l as [|a l IH]; intro H; cbn; constructor; [apply H; cbn; auto|apply IH; intros; apply H; cbn; auto]. Qed.
Lemma Forall2_map_r_inv : forall {A B C} (R : A -> C -> Prop) (g : B -> C) l1 l2,
  Forall2 R l1 (map g l2) -> Forall2 (fun a b => R a (g b)) l1 l2.
Proof.
  intros A B C R g l1. induction l1 as [|a l1 IH]; intros [|b l2] H; inversion H; subst; constructor; auto.
Qed.
Lemma Forall2_length' : forall {A B} (R : A -> B -> Prop) l1 l2, Forall2 R l1 l2 -> length l1 = length l2.
Proof. intros A B R l1 l2 H. induction H; cbn; auto. Qed.
Lemma Forall2_combine_in : forall {A B} (R : A -> B -> Prop) l1 l2, Forall2 R l1 l2 ->
  forall p, In p (combine l1 l2) -> R (fst p) (snd p).
Proof. intros A B R l1 l2 H. induction H; intros p Hp; cbn in Hp; [contradiction|]. destruct Hp as [<-|Hp]; auto. Qed.
Lemma combine_in_l : forall {A B} (l1 : list A) (l2 : list B) a, length l1 = length l2 -> In a l1 ->
  exists b, In (a, b) (combine l1 l2).
Proof.
  induction l1 as [|x l1 IH]; intros [|y l2] a L H; cbn in *; try contradiction; try discriminate.
  destruct H as [->|H]; [eauto|]. destruct (IH l2 a) as [b Hb]; auto. eauto.
Qed.
Lemma Forall2_flip : forall {A B} (R : A -> B -> Prop) l1 l2, Forall2 R l1 l2 -> Forall2 (fun b a => R a b) l2 l1.
Proof. intros A B R l1 l2 H. induction H; constructor; auto. Qed.
Lemma Forall2_impl_in : forall {A B} (R S : A -> B -> Prop) l1 l2,
  (forall a b, In a l1 -> In b l2 -> R a b -> S a b) -> Forall2 R l1 l2 -> Forall2 S l1 l2.
Proof.
  intros A B R S l1 l2 H F. induction F; constructor.
  - apply H; cbn; auto.
  - apply IHF. intros; apply H; cbn; auto.
Qed.

(* ---------------------------------------------------------------- assembling one wave *)
Definition attach_ok (nestf : nest_fn) (chain : list step) (s : step) (steps' : list step)
           (src : source) (attach : row -> list graph) : Prop :=
  forall e', In e' (frontier chain (eval_stmt nestf src chain)) -> attach e' = map (graph_of steps') (related s e').

Lemma stmt_tagwise : forall nestf src chain attach path (g : row -> graph),
  nest_covers nestf -> Forall wf_step chain -> src_step_ok src ->
  (forall e, g e = graph_of path e) ->
  (forall h, In h (stmt_heads src) -> gchain chain attach (snd h) = g (snd h)) ->
  tagwise_eq (proc chain attach (eval_stmt nestf src chain)) (spec_out src path).
Proof.
  intros nestf src chain attach path g NC WF OK Hg Hh t.
  rewrite (stmt_sel nestf src chain attach g t NC WF OK Hh). rewrite spec_out_sel.
  apply map_ext. intro h. apply Hg.
Qed.

Lemma wave_assemble : forall nestf chain s steps' srcs attaches,
  nest_covers nestf -> Forall wf_step chain -> Forall src_step_ok srcs ->
  Forall2 (attach_ok nestf chain s steps') srcs attaches ->
  Forall2 tagwise_eq
    (map (fun ra => proc chain (snd ra) (fst ra)) (combine (map (fun src => eval_stmt nestf src chain) srcs) attaches))
    (map (fun src => spec_out src (chain ++ s :: steps')) srcs).
Proof.
  intros nestf chain s steps' srcs attaches NC WF OKs F. induction F as [|src attach srcs attaches HA F IH]; cbn; [constructor|].
  inversion OKs; subst. constructor; auto.
  apply (stmt_tagwise nestf src chain attach (chain ++ s :: steps') (graph_of (chain ++ s :: steps'))); auto.
  intros h Hh. apply gchain_graph. intros e' He'. apply HA. apply frontier_in; auto. eauto.
Qed.

(* every entity at the end of some sibling statement's chain is among the merged parents *)
Lemma parents_in : forall nestf chain srcs T src e', nest_covers nestf -> Forall wf_step chain ->
  Forall (fun src => src_step_ok src /\ src_table src = T) srcs -> In src srcs ->
  In e' (frontier chain (eval_stmt nestf src chain)) ->
  In e' (uniq_by idkey (concat (map (frontier chain) (map (fun src => eval_stmt nestf src chain) srcs)))).
Proof.
  intros nestf chain srcs T src e' NC WF INV Hs He.
  rewrite Forall_forall in INV.
  set (LT := match chain with [] => T | c :: r => st_table (last r c) end).
  assert (HLT : forall src0, In src0 srcs -> level_table src0 chain = LT).
  { intros src0 H0. destruct (INV _ H0) as [_ ET]. unfold level_table, LT. destruct chain; auto. }
  apply (uniq_idkey_in LT).
  - rewrite <- (HLT src Hs). apply level_table_wf; auto. apply INV; auto.
  - intros x Hx. apply in_concat in Hx as [fr [Hfr Hx]]. rewrite map_map in Hfr. apply in_map_iff in Hfr as [src0 [<- H0]].
    rewrite <- (HLT src0 H0). rewrite frontier_raw in Hx. apply uniq_by_in in Hx. eapply fr_raw_table; eauto.
  - apply in_concat. exists (frontier chain (eval_stmt nestf src chain)). split; auto.
    rewrite map_map. apply in_map_iff. eauto.
Qed.

Lemma load_keys_in : forall s parents e k, In e parents -> parent_key (st_kind s) e = Some k -> In k (load_keys s parents).
Proof. intros. unfold load_keys. apply dedupeZ_in. apply somes_in. rewrite <- H0. apply in_map; auto. Qed.

Definition G_rel (s : step) (steps' : list step) (k : Z) : list graph :=
  map (graph_of steps') (sort_by (rkey (st_order s)) (filter (match_key s k) (st_table s))).

Lemma attach_by_key : forall s steps' (attach : row -> list graph) e,
  (forall k, parent_key (st_kind s) e = Some k -> attach e = G_rel s steps' k) ->
  (parent_key (st_kind s) e = None -> attach e = []) ->
  attach e = map (graph_of steps') (related s e).
Proof.
  intros s steps' attach e HS HN. destruct (parent_key (st_kind s) e) as [k|] eqn:PK.
  - rewrite (HS k); auto. unfold G_rel. rewrite (related_match s e k); auto.
  - rewrite HN; auto. rewrite related_none; auto.
Qed.

(* a lazily issued statement's result *)
Lemma lazy_result : forall s k steps' r, wf_step s ->
  tagwise_eq r (spec_out (SrcLazy s k) steps') -> map snd r = G_rel s steps' k.
Proof.
  intros s k steps' r WS TE. rewrite sel_all_none.
  - rewrite TE. apply lazy_sel_none; auto.
  - intros t Ht. rewrite TE. apply lazy_sel_some; auto.
Qed.

Lemma Forall2_map_r : forall {A B} (R : A -> B -> Prop) (g : A -> B) l, (forall x, In x l -> R x (g x)) -> Forall2 R l (map g l).
Proof. induction l as [|a l IH]; intro H; cbn; constructor; [apply H; cbn; auto|apply IH; intros; apply H; cbn; auto]. Qed.
Lemma Forall2_map_r_intro : forall {A B C} (R : A -> C -> Prop) (g : B -> C) l1 l2,
  Forall2 (fun a b => R a (g b)) l1 l2 -> Forall2 R l1 (map g l2).
Proof. intros A B C R g l1 l2 H. induction H; cbn; constructor; auto. Qed.

Lemma hd_error_app_step : forall chain (s : step) steps', hd_error (chain ++ s :: steps') = hd_error (chain ++ [s]).
Proof. intros [|c chain] s steps'; reflexivity. Qed.

Theorem load_wave_correct : forall nestf, nest_covers nestf ->
  forall asg degraded steps srcs chain T,
    length asg = length steps ->
    Forall wf_step (chain ++ steps) ->
    Forall (fun src => src_step_ok src /\ src_table src = T) srcs ->
    (degraded = false -> root_subq asg = true ->
     forall u t0 f c1, In (SrcUser u t0 f) srcs -> hd_error (chain ++ steps) = Some c1 -> defect u f c1 = false) ->
    Forall2 tagwise_eq (load_wave nestf degraded asg steps srcs chain)
                       (map (fun src => spec_out src (chain ++ steps)) srcs).
Proof.
  intros nestf NC. induction asg as [|a0 asg IH]; intros degraded steps srcs chain T HL WF INV SAFE.
  - destruct steps; [|discriminate]. cbn [load_wave]. rewrite app_nil_r in *.
    apply Forall2_map_same. intros src Hs. rewrite Forall_forall in INV. destruct (INV _ Hs) as [OK _].
    apply (stmt_tagwise nestf src chain (fun _ => []) chain (graph_of chain)); auto.
    intros h _. apply gchain_nil.
  - destruct steps as [|s steps']; [discriminate|]. injection HL as HL.
    assert (WFc : Forall wf_step chain) by (apply Forall_app in WF; tauto).
    assert (WS : wf_step s) by (apply Forall_app in WF as [_ W]; inversion W; auto).
    assert (WF' : Forall wf_step steps') by (apply Forall_app in WF as [_ W]; inversion W; auto).
    assert (OKs : Forall src_step_ok srcs) by (eapply Forall_impl; [|exact INV]; cbn; tauto).
    assert (INVlazy : forall ks, Forall (fun src => src_step_ok src /\ src_table src = st_table s) (map (SrcLazy s) ks)).
    { intro ks. apply Forall_forall. intros src Hs. apply in_map_iff in Hs as [k [<- _]]. cbn. auto. }
    assert (INVin : forall chs, Forall (fun src => src_step_ok src /\ src_table src = st_table s) (map (SrcIn s) chs)).
    { intro chs. apply Forall_forall. intros src Hs. apply in_map_iff in Hs as [k [<- _]]. cbn. auto. }
    assert (NOUSERlazy : forall ks u t0 f, ~ In (SrcUser u t0 f) (map (SrcLazy s) ks)).
    { intros ks u t0 f Hin. apply in_map_iff in Hin as [k [E _]]. discriminate. }
    assert (NOUSERin : forall chs u t0 f, ~ In (SrcUser u t0 f) (map (SrcIn s) chs)).
    { intros chs u t0 f Hin. apply in_map_iff in Hin as [k [E _]]. discriminate. }
    (* the merged parents of this wave *)
    set (rowss := map (fun src => eval_stmt nestf src chain) srcs).
    set (parents := uniq_by idkey (concat (map (frontier chain) rowss))).
    set (keys := load_keys s parents).
    assert (KEYS : forall src e' k, In src srcs -> In e' (frontier chain (eval_stmt nestf src chain)) ->
                   parent_key (st_kind s) e' = Some k -> In k keys).
    { intros src e' k Hs He PK. unfold keys. eapply load_keys_in; eauto. unfold parents, rowss. eapply parents_in; eauto. }
    cbn [load_wave]. fold rowss. fold parents. fold keys.
    destruct (effective degraded a0) eqn:EA.
    + (* lazy *)
      apply wave_assemble; auto. apply Forall2_map_r. intros src Hs e' He'.
      apply (attach_by_key s steps' (fun e => match parent_key (st_kind s) e with
               | Some k => map snd (concat (load_wave nestf degraded asg steps' [SrcLazy s k] []))
               | None => [] end)).
      * intros k PK. cbv beta. rewrite PK.
        specialize (IH degraded steps' [SrcLazy s k] [] (st_table s) HL WF' (INVlazy [k])).
        cbn [app map] in IH.
        assert (F : Forall2 tagwise_eq (load_wave nestf degraded asg steps' [SrcLazy s k] []) [spec_out (SrcLazy s k) steps']).
        { apply IH. intros _ _ u t0 f c1 Hin. exfalso. eapply (NOUSERlazy [k]); eauto. }
        inversion F as [|r ? rs ? TE F']; subst. inversion F'; subst. cbn [concat]. rewrite app_nil_r.
        apply lazy_result; auto.
      * intros PK. cbv beta. rewrite PK. reflexivity.
    + (* joined *)
      assert (degraded = false /\ a0 = SJoined) as [-> ->].
      { unfold effective in EA. destruct degraded; [discriminate|]. auto. }
      specialize (IH false steps' srcs (chain ++ [s]) T HL).
      rewrite <- app_assoc in IH. cbn [app] in IH. apply IH; auto.
    + (* subquery *)
      assert (degraded = false /\ a0 = SSubquery) as [-> ->].
      { unfold effective in EA. destruct degraded; [discriminate|]. auto. }
      apply wave_assemble; auto.
      set (deg' := false || negb (forallb user_rooted srcs)).
      set (mk := fun src => mk_subq src chain s).
      assert (INVsub : Forall (fun src => src_step_ok src /\ src_table src = st_table s) (map mk srcs)).
      { apply Forall_forall. intros src' Hs. apply in_map_iff in Hs as [src [<- _]]. unfold mk.
        pose proof (mk_subq_last src chain s) as ML. destruct (mk_subq src chain s) as [| | |orig f r]; try contradiction.
        cbn. rewrite ML. auto. }
      specialize (IH deg' steps' (map mk srcs) [] (st_table s) HL WF' INVsub). cbn [app] in IH.
      assert (F : Forall2 tagwise_eq (load_wave nestf deg' asg steps' (map mk srcs) []) (map (fun src => spec_out src steps') (map mk srcs))).
      { apply IH. intros _ _ u t0 f c1 Hin. exfalso. apply in_map_iff in Hin as [src [E _]]. unfold mk in E.
        pose proof (mk_subq_last src chain s) as ML. rewrite E in ML. contradiction. }
      rewrite map_map in F. apply Forall2_map_r_inv in F. apply Forall2_flip in F.
      apply Forall2_map_r_intro. eapply Forall2_impl_in; [|exact F].
      intros src r Hs _ TE e' He'. cbv beta in TE.
      apply (attach_by_key s steps' (fun e => match parent_key (st_kind s) e with Some k => with_tag k r | None => [] end)).
      * intros k PK. cbv beta. rewrite PK. rewrite with_tag_sel, TE. unfold mk.
        pose proof (mk_subq_last src chain s) as ML.
        assert (COV : forall c, In c (matches s e') ->
                  match mk_subq src chain s with SrcSubq orig f r0 => In c (ireach (subq_rows1 orig f) r0) | _ => False end).
        { intros c Hc. apply (subq_cover nestf src chain s e' c); auto.
          - rewrite Forall_forall in OKs. auto.
          - intros u t0 f c1 -> Hhd. apply (SAFE eq_refl eq_refl u t0 f c1); auto. rewrite hd_error_app_step. auto. }
        destruct (mk_subq src chain s) as [| | |orig f r0]; try contradiction.
        rewrite subq_sel; rewrite ML; auto.
        intros c Hc Mc. apply COV. apply filter_In. split; auto. rewrite (linked_match s e' k); auto.
      * intros PK. cbv beta. rewrite PK. reflexivity.
    + (* immediate *)
      apply wave_assemble; auto. apply Forall2_map_r. intros src Hs e' He'.
      set (res := load_wave nestf degraded asg steps' (map (SrcLazy s) keys) []).
      specialize (IH degraded steps' (map (SrcLazy s) keys) [] (st_table s) HL WF' (INVlazy keys)). cbn [app] in IH.
      assert (F : Forall2 tagwise_eq res (map (fun src => spec_out src steps') (map (SrcLazy s) keys))).
      { apply IH. intros _ _ u t0 f c1 Hin. exfalso. eapply NOUSERlazy; eauto. }
      rewrite map_map in F. apply Forall2_map_r_inv in F. apply Forall2_flip in F.
      assert (F2 : Forall2 (fun k v => v = G_rel s steps' k) keys (map (map snd) res)).
      { apply Forall2_map_r_intro. eapply Forall2_impl_in; [|exact F]. intros k r _ _ TE. cbv beta in TE. apply lazy_result; auto. }
      apply (attach_by_key s steps' (fun e => lookup_key (combine keys (map (map snd) res)) (parent_key (st_kind s) e))).
      * intros k PK. cbv beta. rewrite PK. apply lookup_key_all.
        -- intros p Hp. apply (Forall2_combine_in _ _ _ F2 p Hp).
        -- destruct (combine_in_l keys (map (map snd) res) k) as [v Hv].
           ++ eapply Forall2_length'; eauto.
           ++ eapply KEYS; eauto.
           ++ exists (k, v). auto.
      * intros PK. cbv beta. rewrite PK. reflexivity.
    + (* selectin *)
      apply wave_assemble; auto. apply Forall2_map_r. intros src Hs e' He'.
      set (chs := chunks (S chunk_minus_1) keys).
      set (res := load_wave nestf degraded asg steps' (map (SrcIn s) chs) []).
      specialize (IH degraded steps' (map (SrcIn s) chs) [] (st_table s) HL WF' (INVin chs)). cbn [app] in IH.
      assert (F : Forall2 tagwise_eq res (map (fun src => spec_out src steps') (map (SrcIn s) chs))).
      { apply IH. intros _ _ u t0 f c1 Hin. exfalso. eapply NOUSERin; eauto. }
      rewrite map_map in F. apply Forall2_map_r_inv in F. apply Forall2_flip in F.
      set (assoc := concat (map (fun cr => map (fun k => (k, with_tag k (snd cr))) (fst cr)) (combine chs res))).
      apply (attach_by_key s steps' (fun e => lookup_key assoc (parent_key (st_kind s) e))).
      * intros k PK. cbv beta. rewrite PK. apply lookup_key_all.
        -- intros p Hp. unfold assoc in Hp. apply in_concat in Hp as [l [Hl Hp]]. apply in_map_iff in Hl as [cr [<- Hcr]].
           apply in_map_iff in Hp as [k' [<- Hk']]. cbn [fst snd].
           pose proof (Forall2_combine_in _ _ _ F cr Hcr) as TE. cbv beta in TE.
           rewrite with_tag_sel, TE. apply in_sel; auto.
        -- assert (Hk : In k keys) by (eapply KEYS; eauto).
           assert (Hc : concat chs = keys) by (apply chunks_concat; lia).
           rewrite <- Hc in Hk. apply in_concat in Hk as [ch [Hch Hk]].
           destruct (combine_in_l chs res ch) as [r Hr]; auto; [eapply Forall2_length'; eauto|].
           exists (k, with_tag k r). split; auto. unfold assoc. apply in_concat.
           exists (map (fun k0 => (k0, with_tag k0 r)) ch). split.
           ++ apply in_map_iff. exists (ch, r). auto.
           ++ apply in_map_iff. eauto.
      * intros PK. cbv beta. rewrite PK. reflexivity.
Qed.
