(* C37 - proofs, part 7: del obj.collection (CollectionAdapter.clear_with_event over a snapshot,
   then the key leaves the dict) preserves the invariants. *)
From Coq Require Import List NArith Bool Lia Arith.
Import ListNotations.
From SAV.orm Require Import Backref BackrefSpec BackrefBase BackrefO2M BackrefM2M BackrefSetItem.
Open Scope N_scope.

Lemma inv_o2m_coll_ext : forall s1 s2,
  (forall p, coll_of s2 SA p = coll_of s1 SA p) -> (forall c, sb s2 c = sb s1 c) ->
  inv_o2m s1 -> inv_o2m s2.
Proof.
  intros s1 s2 C B I. constructor.
  - intros p c. rewrite C, B. apply (o2m_agree s1 I).
  - intros p. rewrite C. apply (o2m_nodup s1 I).
  - intros p. rewrite C. apply (o2m_nonzero s1 I).
  - intros c. cbn [cells]. rewrite B. apply (o2m_loaded s1 I).
Qed.

Lemma o2m_remove_in : forall s p c, inv_o2m s -> p <> 0 -> In c (coll_of s SA p) ->
  exists s', run_call O2M (KCollRemove SA p c None) s = Ok s' /\ inv_o2m s' /\
             coll_of s' SA p = remove1 c (coll_of s SA p).
Proof.
  intros s p c I P IN.
  assert (C : c <> 0) by (intros ->; apply (o2m_nonzero s I p IN)).
  unfold run_call, FUEL. rewrite exec_coll_remove, exec_fire_remove. unfold tok_remove.
  rewrite (fire_remove_o2m 5 s p c C P); [|apply has_dupes_NoDup; apply (o2m_nodup s I)|apply (o2m_loaded s I)].
  cbn [bind]. rewrite unparent_coll.
  assert (M : memb c (coll_of s SA p) = true) by (apply memb_In; exact IN). rewrite M.
  eexists. split; [reflexivity|]. split; [|apply coll_set_same].
  apply unparent_then_remove; auto.
  - apply remove1_NoDup. apply (o2m_nodup s I).
  - intros x. apply remove1_In. apply (o2m_nodup s I).
Qed.

Lemma o2m_clear : forall l s p, inv_o2m s -> p <> 0 -> coll_of s SA p = l ->
  exists s', clear_with_event O2M SA p l s = Ok s' /\ inv_o2m s' /\ coll_of s' SA p = [].
Proof.
  induction l as [|v rest IH]; intros s p I P C; cbn [clear_with_event].
  - exists s. auto.
  - destruct (o2m_remove_in s p v I P) as (s1 & E & I1 & C1); [rewrite C; left; reflexivity|].
    rewrite E. cbn [bind]. apply IH; auto. rewrite C1, C. cbn [remove1]. rewrite N.eqb_refl. reflexivity.
Qed.

Theorem o2m_delcoll : forall s p, inv_o2m s -> p <> 0 ->
  exists s', step_prim O2M (PDelColl SA p) s = Ok s' /\ inv_o2m s'.
Proof.
  intros s p I P. cbn [step_prim]. destruct (cells s SA p) as [| | |l] eqn:Q; try (exists s; auto; fail).
  assert (C : coll_of s SA p = l) by (unfold coll_of; rewrite Q; reflexivity).
  destruct (o2m_clear l s p I P C) as (s1 & E & I1 & C1). rewrite E. cbn [bind].
  eexists. split; [reflexivity|]. eapply inv_o2m_coll_ext; [| |exact I1].
  - intros p'. destruct (N.eq_dec p' p) as [->|NE].
    + unfold coll_of at 1. rewrite cells_set_same. symmetry. exact C1.
    + apply coll_set_other_obj. exact NE.
  - intros c. reflexivity.
Qed.

(* ---------- many-to-many ---------- *)
Lemma inv_m2m_coll_ext : forall s1 s2,
  (forall sd o, coll_of s2 sd o = coll_of s1 sd o) -> inv_m2m s1 -> inv_m2m s2.
Proof.
  intros s1 s2 C I. destruct I as [AG NA NB ZA ZB]. constructor.
  - intros l r. rewrite !C. apply AG.
  - intros o. rewrite C. apply NA. - intros o. rewrite C. apply NB.
  - intros o. rewrite C. apply ZA. - intros o. rewrite C. apply ZB.
Qed.

Lemma m2m_remove_in : forall s sd o v, inv_m2m s -> In v (coll_of s sd o) ->
  exists s', run_call M2M (KCollRemove sd o v None) s = Ok s' /\ inv_m2m s' /\
             coll_of s' sd o = remove1 v (coll_of s sd o).
Proof.
  intros s sd o v I IN. destruct (inv_m2m_sd s sd I) as (A & N1 & _ & Z1 & _).
  assert (V : v <> 0) by (intros ->; apply (Z1 o IN)).
  unfold run_call, FUEL. rewrite exec_coll_remove, exec_fire_remove. unfold tok_remove.
  rewrite (fire_remove_m2m 5 s sd o v (sd, TRemove) V (or_introl eq_refl)). cbn [bind].
  rewrite detach_m_coll. assert (M : memb v (coll_of s sd o) = true) by (apply memb_In; exact IN). rewrite M.
  eexists. split; [reflexivity|]. split; [|apply coll_set_same].
  apply m2m_del; auto; [apply remove1_NoDup; apply N1|intros x; apply remove1_In; apply N1].
Qed.

Lemma m2m_clear : forall l s sd o, inv_m2m s -> coll_of s sd o = l ->
  exists s', clear_with_event M2M sd o l s = Ok s' /\ inv_m2m s' /\ coll_of s' sd o = [].
Proof.
  induction l as [|v rest IH]; intros s sd o I C; cbn [clear_with_event].
  - exists s. auto.
  - destruct (m2m_remove_in s sd o v I) as (s1 & E & I1 & C1); [rewrite C; left; reflexivity|].
    rewrite E. cbn [bind]. apply IH; auto. rewrite C1, C. cbn [remove1]. rewrite N.eqb_refl. reflexivity.
Qed.

Theorem m2m_delcoll : forall s sd o, inv_m2m s ->
  exists s', step_prim M2M (PDelColl sd o) s = Ok s' /\ inv_m2m s'.
Proof.
  intros s sd o I. cbn [step_prim]. destruct (cells s sd o) as [| | |l] eqn:Q; try (exists s; auto; fail).
  assert (C : coll_of s sd o = l) by (unfold coll_of; rewrite Q; reflexivity).
  destruct (m2m_clear l s sd o I C) as (s1 & E & I1 & C1). rewrite E. cbn [bind].
  eexists. split; [reflexivity|]. eapply inv_m2m_coll_ext; [|exact I1].
  intros sd' o'. destruct (N.eq_dec o' o) as [->|NE].
  - destruct sd, sd'; try (unfold coll_of at 1; rewrite cells_set_same; symmetry; exact C1);
      apply coll_set_other_side; discriminate.
  - destruct sd, sd'; try (apply coll_set_other_obj; exact NE); apply coll_set_other_side; discriminate.
Qed.
