(* C42: the theorems about the polymorphic query model *)
From Coq Require Import List ZArith Bool Arith Lia Permutation Sorted.
Import ListNotations.
From SAV.orm Require Import Poly PolyTree PolyStore.

(* ---------- generic facts about classify / plan / zip_objs (any database) ---------- *)
Lemma classify_ok : forall h C rows rks, classify h C rows = Ok rks ->
  map fst rks = rows /\ forall r K, In (r, K) rks -> classify1 h C r = Ok K.
Proof.
  intros h C rows. induction rows as [|r rows IH]; intros rks H.
  - cbn in H. inversion H. split; [reflexivity | intros ? ? []].
  - cbn [classify] in H. destruct (classify1 h C r) as [K|e] eqn:E1; [|discriminate].
    destruct (classify h C rows) as [l|e] eqn:E2; [|discriminate].
    inversion H; subst. destruct (IH l eq_refl) as [Hm Hall]. split.
    + cbn [map fst]. f_equal. exact Hm.
    + intros r' K' [Hin|Hin]; [inversion Hin; subst; exact E1 | apply Hall; exact Hin].
Qed.

Lemma classify_all_ok : forall h C rows,
  (forall r, In r rows -> exists K, classify1 h C r = Ok K) -> exists rks, classify h C rows = Ok rks.
Proof.
  intros h C rows. induction rows as [|r rows IH]; intros H.
  - exists []. reflexivity.
  - destruct (H r (or_introl eq_refl)) as [K HK].
    destruct IH as [l Hl]; [intros r' Hr'; apply H; right; exact Hr'|].
    exists ((r, K) :: l). cbn [classify]. rewrite HK, Hl. reflexivity.
Qed.

Lemma classify_raise : forall h C rows e, classify h C rows = Raise e ->
  exists r, In r rows /\ classify1 h C r = Raise e.
Proof.
  intros h C rows. induction rows as [|r rows IH]; intros e H; [discriminate|].
  cbn [classify] in H. destruct (classify1 h C r) as [K|e'] eqn:E1.
  - destruct (classify h C rows) as [l|e''] eqn:E2; [discriminate|].
    inversion H; subst. destruct (IH e eq_refl) as [r' [Hin Hr']]. exists r'. split; [right; exact Hin | exact Hr'].
  - inversion H; subst. exists r. split; [left; reflexivity | exact E1].
Qed.

Lemma zip_objs_pk : forall h d C W ld rks fs,
  map o_pk (zip_objs h d C W ld rks fs) = map (fun rk => rpk (fst rk)) rks.
Proof.
  intros h d C W ld rks. induction rks as [|[r K] rks IH]; intros fs; [destruct fs; reflexivity|].
  destruct fs as [|f fs]; cbn [zip_objs map]; rewrite IH; reflexivity.
Qed.

Lemma zip_objs_in : forall h d C W ld rks fs o, In o (zip_objs h d C W ld rks fs) ->
  exists r K f, In (r, K) rks /\ o = mk_obj h d C W ld (r, K) f.
Proof.
  intros h d C W ld rks. induction rks as [|[r K] rks IH]; intros fs o H; [destruct fs; destruct H|].
  destruct fs as [|f fs]; cbn [zip_objs] in H; destruct H as [H|H].
  - exists r, K, false. split; [left; reflexivity | symmetry; exact H].
  - destruct (IH _ _ H) as (r' & K' & f' & Hin & Ho). exists r', K', f'. split; [right; exact Hin | exact Ho].
  - exists r, K, f. split; [left; reflexivity | symmetry; exact H].
  - destruct (IH _ _ H) as (r' & K' & f' & Hin & Ho). exists r', K', f'. split; [right; exact Hin | exact Ho].
Qed.

(* the shape of [exec] *)
Lemma exec_ok_inv : forall h d C o res, exec h d C o = Ok res ->
  exists rks fs ld,
    classify h C (select_rows h d C (wp_mappers h C (o_wp o))) = Ok rks /\
    res = zip_objs h d C (wp_mappers h C (o_wp o)) ld rks fs.
Proof.
  intros h d C o res H. unfold exec in H.
  destruct (classify h C (select_rows h d C (wp_mappers h C (o_wp o)))) as [rks|e] eqn:E; [|discriminate].
  destruct (plan h C (o_sel o) ([], []) (map snd rks)) as [fs ld] eqn:Ep.
  inversion H; subst. exists rks, fs, ld. split; reflexivity.
Qed.

Lemma exec_raise_inv : forall h d C o e, exec h d C o = Raise e ->
  exists r, In r (select_rows h d C (wp_mappers h C (o_wp o))) /\ classify1 h C r = Raise e.
Proof.
  intros h d C o e H. unfold exec in H.
  destruct (classify h C (select_rows h d C (wp_mappers h C (o_wp o)))) as [rks|e'] eqn:E.
  - destruct (plan h C (o_sel o) ([], []) (map snd rks)). discriminate.
  - inversion H; subst. apply classify_raise. exact E.
Qed.

Lemma classify1_ok_inv : forall h C r K, classify1 h C r = Ok K ->
  exists dv, rdisc r = Some dv /\ pmap h dv = Some K /\ (K = C \/ isa h K C = true).
Proof.
  intros h C r K H. unfold classify1 in H.
  destruct (rdisc r) as [dv|]; [|discriminate].
  destruct (pmap h dv) as [K'|] eqn:Ep; [|discriminate].
  exists dv. destruct (Nat.eqb K' C) eqn:E.
  - inversion H; subst. apply Nat.eqb_eq in E. repeat split; auto.
  - destruct (isa h K' C) eqn:Ei; [|discriminate]. inversion H; subst. repeat split; auto.
Qed.

Lemma select_rows_in : forall h d C W r, In r (select_rows h d C W) ->
  In r (tbl d 0) /\ row_ok h d C W r = true.
Proof.
  intros h d C W r H. unfold select_rows in H. apply filter_In in H. destruct H as [H1 H2].
  split; [|exact H2]. exact (Permutation_in _ (sort_rows_perm _) H1).
Qed.

(* ---- most specific class, for arbitrary table contents ---- *)
Lemma most_specific_any_db : forall h d C o res, exec h d C o = Ok res ->
  forall x, In x res ->
  exists r dv, In r (tbl d 0) /\ rpk r = o_pk x /\ rdisc r = Some dv /\ pmap h dv = Some (o_cls x) /\
               (o_cls x = C \/ isa h (o_cls x) C = true).
Proof.
  intros h d C o res H x Hx.
  destruct (exec_ok_inv _ _ _ _ _ H) as (rks & fs & ld & Hc & Hres). subst res.
  destruct (zip_objs_in _ _ _ _ _ _ _ _ Hx) as (r & K & f & Hin & Ho).
  destruct (classify_ok _ _ _ _ Hc) as [Hm Hall].
  pose proof (Hall r K Hin) as H1. destruct (classify1_ok_inv _ _ _ _ H1) as (dv & Hd & Hp & Hi).
  assert (Hr : In r (select_rows h d C (wp_mappers h C (o_wp o)))).
  { rewrite <- Hm. change r with (fst (r, K)). apply in_map. exact Hin. }
  apply select_rows_in in Hr. destruct Hr as [Hr _].
  exists r, dv. subst x. cbn [mk_obj o_pk o_cls]. repeat split; assumption.
Qed.

(* ---------- stored objects ---------- *)
Section Stored.
Variable h : hier.
Hypothesis Hwf : wf_hier h.
Variable objs : list sobj.
Hypothesis Hobjs : wf_objs h objs.
Variable C : nat.
Hypothesis HC : C < length h.
Variable spec : wpspec.

Let W := wp_mappers h C spec.
Let d := store h objs.

Lemma W_spec : forall m, In m W -> m < length h /\ isa h m C = true.
Proof.
  intros m Hm. unfold W, wp_mappers in Hm. destruct spec as [| |l].
  - destruct Hm.
  - apply in_desc in Hm. exact Hm.
  - apply filter_In in Hm. destruct Hm as [Hm _]. apply in_desc in Hm. exact Hm.
Qed.

(* the with_polymorphic set is closed upwards inside the queried subtree (iterate_to_root) *)
Lemma W_up : forall m t, In m W -> isa h m t = true -> isa h t C = true -> In t W.
Proof.
  intros m t Hm Hmt HtC. pose proof (W_spec m Hm) as [Hl _].
  assert (Htl : t < length h) by (pose proof (isa_le h Hwf _ _ Hmt); lia).
  unfold W, wp_mappers in *. destruct spec as [| |l].
  - destruct Hm.
  - apply in_desc. split; assumption.
  - apply filter_In in Hm. destruct Hm as [_ Hx]. apply filter_In. split.
    + apply in_desc. split; assumption.
    + apply existsb_exists in Hx. destruct Hx as [x [Hx Hxm]]. apply existsb_exists. exists x. split; [exact Hx|].
      apply isa_trans with m; assumption.
Qed.

Lemma in_inner : forall t, isa h C t = true -> joined h t = true -> memn t (inner_tabs h C) = true.
Proof.
  intros t Ht Hj. apply memn_In. unfold inner_tabs.
  rewrite <- (owner_joined_id h Hwf t Hj). apply in_map. apply in_path_isa; assumption.
Qed.

Lemma inner_isa : forall t, memn t (inner_tabs h C) = true -> isa h C t = true /\ joined h t = true.
Proof.
  intros t Ht. apply memn_In in Ht. unfold inner_tabs in Ht. apply in_map_iff in Ht.
  destruct Ht as [k [Hk Hin]]. subst t. apply in_path_isa in Hin. split.
  - apply isa_trans with k; [exact Hwf | exact Hin | apply isa_owner; exact Hwf].
  - apply owner_is_joined; exact Hwf.
Qed.

(* the FROM clause contains, with a table, every table its ON clauses lead to *)
Lemma in_from_up : forall t t', in_from h C W t = true -> isa h t t' = true -> joined h t' = true ->
  in_from h C W t' = true.
Proof.
  intros t t' Hf Htt Hj. unfold in_from in *. apply orb_true_iff in Hf. apply orb_true_iff.
  destruct Hf as [Hf|Hf].
  - left. apply inner_isa in Hf. destruct Hf as [Hct _]. apply in_inner; [|exact Hj].
    apply isa_trans with t; assumption.
  - apply andb_true_iff in Hf. destruct Hf as [Hw _]. apply memn_In in Hw.
    destruct (W_spec t Hw) as [_ HtC].
    destruct (isa_chain h Hwf t t' C Htt HtC) as [H1|H1].
    + right. apply andb_true_iff. split; [|exact Hj]. apply memn_In. exact (W_up t t' Hw Htt H1).
    + left. apply in_inner; assumption.
Qed.

Section OneObject.
Variable s : sobj.
Hypothesis Hs : In s objs.
Let K := s_cls s.
Let HK : K < length h. Proof. apply Hobjs. exact Hs. Qed.

Lemma present_store : forall n t, t < n -> isa h K t = true -> joined h t = true ->
  in_from h C W t = true -> present h d (in_from h C W) (s_pk s) n t = true.
Proof.
  induction n as [|n IH]; intros t Hn Hi Hj Hf; [lia|].
  cbn [present]. rewrite Hf. unfold d. rewrite (has_row_store h objs Hobjs t s Hs).
  fold K. rewrite Hj, Hi.
  assert (Hl : Nat.ltb t (length h) = true).
  { apply Nat.ltb_lt. pose proof (isa_le h Hwf _ _ Hi). lia. }
  rewrite Hl. cbn [andb].
  destruct (parent h t) as [p|] eqn:Ep; [|reflexivity].
  assert (Hpt : p < t) by (destruct Hwf as (_ & _ & _ & Hp & _); exact (Hp _ _ Ep)).
  assert (Htp : isa h t (owner h p) = true).
  { apply isa_trans with p; [exact Hwf | apply isa_parent; assumption | apply isa_owner; exact Hwf]. }
  apply IH.
  - pose proof (isa_le h Hwf _ _ (isa_owner h Hwf p)). lia.
  - apply isa_trans with t; assumption.
  - apply owner_is_joined; exact Hwf.
  - apply in_from_up with t; [exact Hf | exact Htp | apply owner_is_joined; exact Hwf].
Qed.

Lemma present_isa : forall n t, present h d (in_from h C W) (s_pk s) n t = true -> isa h K t = true.
Proof.
  intros n t H. destruct n as [|n]; [discriminate|]. cbn [present] in H.
  apply andb_true_iff in H. destruct H as [H _]. apply andb_true_iff in H. destruct H as [_ H].
  unfold d in H. rewrite (has_row_store h objs Hobjs t s Hs) in H.
  apply andb_true_iff in H. destruct H as [_ H]. exact H.
Qed.

(* the row of the stored object is selected exactly when its class is in the queried subtree *)
Lemma row_ok_store : row_ok h d C W (mkrow h 0 s) = isa h K C.
Proof.
  unfold row_ok. cbn [mkrow rpk rdisc Nat.eqb]. fold K.
  destruct (ident_some h K HK) as [x Hx]. rewrite Hx.
  destruct (isa h K C) eqn:Ei.
  - apply andb_true_iff. split.
    + apply forallb_forall. intros t Ht. apply memn_In in Ht. pose proof Ht as Ht'.
      apply inner_isa in Ht. destruct Ht as [Hct Hj]. unfold present_t. apply present_store.
      * lia.
      * apply isa_trans with C; assumption.
      * exact Hj.
      * unfold in_from. rewrite Ht'. reflexivity.
    + unfold crit_ok. destruct (negb (joined h C) && match parent h C with Some _ => true | None => false end); [|reflexivity].
      apply existsb_exists. exists K. split; [apply in_desc; split; assumption|].
      unfold ident_is. rewrite Hx. apply Z.eqb_refl.
  - apply andb_false_iff. destruct (joined h C) eqn:Ej.
    + left. apply not_true_is_false. intros Hall. rewrite forallb_forall in Hall.
      assert (Hin : In C (inner_tabs h C)).
      { apply memn_In. apply in_inner; [apply isa_refl; exact Hwf | exact Ej]. }
      specialize (Hall C Hin). unfold present_t in Hall. apply present_isa in Hall. congruence.
    + right. unfold crit_ok. rewrite Ej. cbn [negb andb].
      assert (Hp : exists p, parent h C = Some p).
      { destruct Hwf as (_ & H0 & _ & _ & Hex & _). apply Hex; [|exact HC].
        destruct C; [congruence | lia]. }
      destruct Hp as [p Hp]. rewrite Hp.
      apply not_true_is_false. intros He. apply existsb_exists in He. destruct He as [m [Hm Hid]].
      apply in_desc in Hm. destruct Hm as [Hml HmC].
      unfold ident_is in Hid. destruct (ident h m) as [y|] eqn:Ey; [|discriminate].
      apply Z.eqb_eq in Hid. subst y.
      destruct Hwf as (_ & _ & _ & _ & _ & Hu). pose proof (Hu m K x Ey Hx). subst m. congruence.
Qed.

Lemma classify1_store : isa h K C = true -> classify1 h C (mkrow h 0 s) = Ok K.
Proof.
  intros Hi. unfold classify1. cbn [mkrow rdisc Nat.eqb]. fold K.
  destruct (ident_some h K HK) as [x Hx]. rewrite Hx. rewrite (pmap_ident h Hwf K x HK Hx).
  rewrite Hi. destruct (Nat.eqb K C); reflexivity.
Qed.

(* a selected column finds its table in the FROM clause *)
Lemma selected_in_from : forall a, selected h C W a = true -> in_from h C W (owner h a) = true.
Proof.
  intros a Hsel. unfold selected in Hsel. apply orb_true_iff in Hsel. unfold in_from. apply orb_true_iff.
  assert (Hoj : joined h (owner h a) = true) by (apply owner_is_joined; exact Hwf).
  destruct Hsel as [Hsel|Hsel].
  - left. apply in_inner; [|exact Hoj]. apply isa_trans with a; [exact Hwf | exact Hsel | apply isa_owner; exact Hwf].
  - apply existsb_exists in Hsel. destruct Hsel as [m [Hm Hma]].
    destruct (W_spec m Hm) as [_ HmC].
    assert (Hmo : isa h m (owner h a) = true).
    { apply isa_trans with a; [exact Hwf | exact Hma | apply isa_owner; exact Hwf]. }
    destruct (isa_chain h Hwf m (owner h a) C Hmo HmC) as [H1|H1].
    + right. apply andb_true_iff. split; [|exact Hoj]. apply memn_In. exact (W_up m _ Hm Hmo H1).
    + left. apply in_inner; assumption.
Qed.

(* every attribute value, however it gets loaded, is the stored one *)
Lemma attr_value_store : forall a, isa h K a = true -> attr_value h d C W (s_pk s) a = s_val s a.
Proof.
  intros a Ha. unfold attr_value.
  assert (Hg : db_get d (owner h a) (s_pk s) a = s_val s a).
  { unfold d. apply db_get_store; assumption. }
  destruct (selected h C W a) eqn:Es; [|exact Hg].
  assert (Hp : present_t h d C W (s_pk s) (owner h a) = true).
  { unfold present_t. apply present_store.
    - lia.
    - apply isa_trans with a; [exact Hwf | exact Ha | apply isa_owner; exact Hwf].
    - apply owner_is_joined; exact Hwf.
    - apply selected_in_from. exact Es. }
  rewrite Hp. exact Hg.
Qed.

End OneObject.

Lemma select_rows_store :
  select_rows h d C W = filter (row_ok h d C W) (sort_rows (map (mkrow h 0) objs)).
Proof. unfold select_rows, d. rewrite (tbl0_store h Hwf objs Hobjs). reflexivity. Qed.

Lemma selected_row_is_object : forall r, In r (select_rows h d C W) ->
  exists s, In s objs /\ r = mkrow h 0 s /\ isa h (s_cls s) C = true.
Proof.
  intros r Hr. rewrite select_rows_store in Hr. apply filter_In in Hr. destruct Hr as [Hin Hok].
  apply (Permutation_in _ (sort_rows_perm _)) in Hin. apply in_map_iff in Hin.
  destruct Hin as [s [Hs Hin]]. exists s. split; [exact Hin|]. split; [symmetry; exact Hs|].
  subst r. rewrite (row_ok_store s Hin) in Hok. exact Hok.
Qed.

Lemma select_rows_pks :
  Permutation (map rpk (select_rows h d C W)) (map s_pk (filter (fun s => isa h (s_cls s) C) objs)).
Proof.
  rewrite select_rows_store.
  eapply Permutation_trans.
  { apply Permutation_map. apply Permutation_filter'. apply sort_rows_perm. }
  rewrite filter_map_swap, map_map. cbn [mkrow rpk].
  rewrite (filter_ext_in' _ (fun x => row_ok h d C W (mkrow h 0 x)) (fun s => isa h (s_cls s) C)).
  - apply Permutation_refl.
  - intros s Hs. apply row_ok_store. exact Hs.
Qed.

End Stored.

(* ---------- the three clauses of the property ---------- *)
Theorem rows_exactly_subtree : forall h objs C o,
  wf_hier h -> wf_objs h objs -> C < length h ->
  exists res, exec h (store h objs) C o = Ok res /\
    Permutation (map o_pk res) (map s_pk (filter (fun s => isa h (s_cls s) C) objs)) /\
    StronglySorted Z.le (map o_pk res).
Proof.
  intros h objs C o Hwf Hobjs HC.
  set (W := wp_mappers h C (o_wp o)).
  destruct (classify_all_ok h C (select_rows h (store h objs) C W)) as [rks Hrks].
  { intros r Hr. destruct (selected_row_is_object h Hwf objs Hobjs C HC (o_wp o) r Hr) as (s & Hs & Hrs & Hi).
    exists (s_cls s). subst r. exact (classify1_store h Hwf objs Hobjs C s Hs Hi). }
  unfold exec. fold W. rewrite Hrks.
  destruct (plan h C (o_sel o) ([], []) (map snd rks)) as [fs ld].
  eexists. split; [reflexivity|].
  destruct (classify_ok _ _ _ _ Hrks) as [Hm _].
  rewrite zip_objs_pk. rewrite <- (map_map fst rpk), Hm. split.
  - apply select_rows_pks; assumption.
  - unfold select_rows. apply sorted_map_pk. apply filter_sorted. apply sort_rows_sorted.
Qed.

Theorem most_specific_class_stored : forall h objs C o res,
  wf_hier h -> wf_objs h objs -> C < length h ->
  exec h (store h objs) C o = Ok res ->
  forall x, In x res -> exists s, In s objs /\ s_pk s = o_pk x /\ o_cls x = s_cls s /\
    ident h (o_cls x) = ident h (s_cls s) /\
    o_vals x = map (fun a => (a, s_val s a)) (path h (s_cls s)).
Proof.
  intros h objs C o res Hwf Hobjs HC H x Hx.
  destruct (exec_ok_inv _ _ _ _ _ H) as (rks & fs & ld & Hc & Hres). subst res.
  destruct (zip_objs_in _ _ _ _ _ _ _ _ Hx) as (r & K & f & Hin & Ho).
  destruct (classify_ok _ _ _ _ Hc) as [Hm Hall].
  pose proof (Hall r K Hin) as H1.
  assert (Hr : In r (select_rows h (store h objs) C (wp_mappers h C (o_wp o)))).
  { rewrite <- Hm. change r with (fst (r, K)). apply in_map. exact Hin. }
  destruct (selected_row_is_object h Hwf objs Hobjs C HC (o_wp o) r Hr) as (s & Hs & Hrs & Hi).
  subst r. rewrite (classify1_store h Hwf objs Hobjs C s Hs Hi) in H1. inversion H1; subst K.
  exists s. subst x. cbn [mk_obj o_pk o_cls o_vals mkrow rpk]. repeat split; try reflexivity; try assumption.
  apply map_ext_in. intros a Ha. f_equal.
  apply in_path_isa in Ha.
  exact (attr_value_store h Hwf objs Hobjs C HC (o_wp o) s Hs a Ha).
Qed.

(* with_polymorphic("*"): every attribute of every returned object is loaded by the query itself *)
Theorem wp_star_loads_everything : forall h d C sel res,
  wf_hier h -> C < length h ->
  exec h d C {| o_wp := WpStar; o_sel := sel |} = Ok res ->
  forall x, In x res -> o_loaded x = path h (o_cls x).
Proof.
  intros h d C sel res Hwf HC H x Hx.
  destruct (most_specific_any_db _ _ _ _ _ H x Hx) as (r & dv & _ & _ & _ & Hp & Hi).
  destruct (exec_ok_inv _ _ _ _ _ H) as (rks & fs & ld & Hc & Hres). subst res.
  destruct (zip_objs_in _ _ _ _ _ _ _ _ Hx) as (r' & K & f & Hin & Ho). subst x.
  cbn [mk_obj o_loaded o_cls] in *. apply filter_all. intros a Ha.
  apply in_path_isa in Ha. apply orb_true_iff. left.
  unfold selected. apply orb_true_iff. right. apply existsb_exists. exists K. split; [|exact Ha].
  cbn [o_wp wp_mappers]. apply in_desc. apply pmap_some in Hp. destruct Hp as [Hl _]. split; [exact Hl|].
  destruct Hi as [Hi|Hi]; [subst; apply isa_refl; exact Hwf | exact Hi].
Qed.

(* no option: exactly the attributes of the queried class are loaded by the query, the rest on access *)
Lemma plan_no_selectin : forall h C ks st, snd st = [] -> snd (plan h C [] st ks) = [].
Proof.
  intros h C. induction ks as [|k ks IH]; intros [procs l] Hst; cbn [snd] in Hst; subst l; [reflexivity|].
  cbn [plan]. unfold plan_step. destruct (Nat.eqb k C).
  - specialize (IH (procs, []) eq_refl). destruct (plan h C [] (procs, []) ks). exact IH.
  - destruct (assoc_b procs k).
    + specialize (IH (procs, []) eq_refl). destruct (plan h C [] (procs, []) ks). exact IH.
    + unfold via. cbn [memn existsb]. destruct (parent h k); cbn [is_nil negb].
      * specialize (IH (procs ++ [(k, false)], []) eq_refl).
        destruct (plan h C [] (procs ++ [(k, false)], []) ks). exact IH.
      * specialize (IH (procs ++ [(k, false)], []) eq_refl).
        destruct (plan h C [] (procs ++ [(k, false)], []) ks). exact IH.
Qed.

Theorem plain_query_loads_base_attributes : forall h d C res,
  exec h d C {| o_wp := WpNone; o_sel := [] |} = Ok res ->
  forall x, In x res -> o_loaded x = filter (fun a => isa h C a) (path h (o_cls x)).
Proof.
  intros h d C res H x Hx. unfold exec in H. cbn [o_wp o_sel wp_mappers] in H.
  destruct (classify h C (select_rows h d C [])) as [rks|e]; [|discriminate].
  pose proof (plan_no_selectin h C (map snd rks) ([], []) eq_refl) as Hld.
  destruct (plan h C [] ([], []) (map snd rks)) as [fs ld]. cbn [snd] in Hld. subst ld.
  inversion H; subst res. clear H.
  destruct (zip_objs_in _ _ _ _ _ _ _ _ Hx) as (r' & K & f & Hin & Ho). subst x.
  cbn [mk_obj o_loaded o_cls]. apply filter_ext_in'. intros a _.
  unfold selected. cbn [existsb memn]. rewrite andb_false_r, !orb_false_r. reflexivity.
Qed.

(* a query raises only because of a selected row whose discriminator cannot be dispatched *)
Theorem raises_only_on_bad_discriminator : forall h d C o e, exec h d C o = Raise e ->
  exists r, In r (tbl d 0) /\ classify1 h C r = Raise e.
Proof.
  intros h d C o e H. destruct (exec_raise_inv _ _ _ _ _ H) as [r [Hr He]].
  exists r. split; [|exact He]. apply select_rows_in in Hr. tauto.
Qed.
