(* C36 - proofs, part 4: frames of the operations. *)
From Coq Require Import List NArith Bool Lia.
Import ListNotations.
From SAV.orm Require Import History HistorySpec HistoryProofs HistoryWf HistoryFrame.
Open Scope N_scope.

(* ---------- frames of the operations ---------- *)
Definition keepXC (s s' : st) : Prop := keepDB s s' /\ loadX s s' /\ keepC s s'.
Definition keepXB (s s' : st) : Prop := keepDB s s' /\ loadX s s' /\ keepB s s'.
Definition keepBC (s s' : st) : Prop := keepDB s s' /\ keepB s s' /\ keepC s s'.

Lemma set_x_frame : forall v s, keepBC s (fst (set_x v s)).
Proof. intros v s. dstate s. unfold keepBC, set_x, mod_x. frame_solve. Qed.
Lemma del_x_frame : forall s, keepBC s (fst (del_x s)).
Proof. intros s. dstate s. unfold keepBC, del_x, mod_x. frame_solve. Qed.

Lemma set_b_frame : forall v s, keepXC s (fst (set_b v s)).
Proof.
  intros v s. unfold set_b. destruct (get_b_frame P_NO_FETCH_NO_INIT s) as (D & X & _ & C).
  destruct (get_b P_NO_FETCH_NO_INIT s) as [s1 old]. cbn [fst] in *.
  assert (K : keepDB s1 (set_b_d (Some v) (mod_b (comm_of_gres old) s1)) /\
              keepX s1 (set_b_d (Some v) (mod_b (comm_of_gres old) s1)) /\
              keepC s1 (set_b_d (Some v) (mod_b (comm_of_gres old) s1))).
  { clear. dstate s1. unfold mod_b. frame_solve. }
  destruct K as (D1 & X1 & C1). repeat split.
  - eapply keepDB_trans; eauto. - eapply keepDB_trans; eauto. - eapply keepDB_trans; eauto.
  - eapply keepDB_trans; eauto.
  - eapply loadX_trans; eauto.
  - eapply loadX_trans; eauto.
  - eapply keepC_trans; eauto. - eapply keepC_trans; eauto.
Qed.

Lemma del_b_frame : forall s, keepXC s (fst (del_b s)).
Proof.
  intros s. unfold del_b. destruct (get_b_frame P_NO_FETCH_NO_INIT s) as (D & X & _ & C).
  destruct (get_b P_NO_FETCH_NO_INIT s) as [s1 old]. cbn [fst] in *.
  set (s3 := set_b_d None (mod_b (comm_of_gres old) s1)).
  assert (K : keepDB s1 s3 /\ keepX s1 s3 /\ keepC s1 s3).
  { clear. subst s3. dstate s1. unfold mod_b. frame_solve. }
  destruct K as (D1 & X1 & C1).
  assert (R : keepXC s s3).
  { split; [|split]; [eapply keepDB_trans|eapply loadX_trans|eapply keepC_trans]; eauto. }
  match goal with |- context [if ?b then _ else _] => destruct b end; exact R.
Qed.

Lemma coll_touch_frame : forall s, let s' := fst (coll_touch s) in
  keepDB s s' /\ loadX s s' /\ keepB s s' /\ loadC s s'.
Proof.
  intros s. unfold coll_touch. destruct (c_d s) eqn:D.
  - cbn. repeat split; auto. left. auto.
  - pose proof (get_c_frame P_OFF s) as F. destruct (get_c P_OFF s) as [s1 r]. exact F.
Qed.

Definition c_frame (s s' : st) : Prop := keepDB s s' /\ loadX s s' /\ keepB s s'.

Lemma c_frame_touch : forall s s1 s2, c_frame s s1 ->
  keepDB s1 s2 -> keepX s1 s2 -> keepB s1 s2 -> c_frame s s2.
Proof.
  intros s s1 s2 (D0 & X0 & B0) D X B.
  split; [|split]; [eapply keepDB_trans|eapply loadX_trans|eapply keepB_trans]; eauto.
Qed.

Lemma coll_event_frame : forall s l, let s' := set_c_d l (coll_event s) in
  keepDB s s' /\ keepX s s' /\ keepB s s'.
Proof. intros s l. dstate s. unfold coll_event, mod_c. frame_solve. Qed.
Lemma coll_event1_frame : forall s, let s' := coll_event s in
  keepDB s s' /\ keepX s s' /\ keepB s s'.
Proof. intros s. dstate s. unfold coll_event, mod_c. frame_solve. Qed.
Lemma coll_event2_frame : forall s l, let s' := set_c_d l (coll_event (coll_event s)) in
  keepDB s s' /\ keepX s s' /\ keepB s s'.
Proof. intros s l. dstate s. unfold coll_event, mod_c. frame_solve. Qed.

Lemma c_add_frame : forall k o s, c_frame s (fst (c_add k o s)).
Proof.
  intros k o s. unfold c_add. destruct (coll_touch_frame s) as (D0 & X0 & B0 & _).
  destruct (coll_touch s) as [s1 ok]. cbn [fst] in *.
  assert (R0 : c_frame s s1) by (split; [|split]; auto).
  destruct (negb ok); [exact R0|].
  destruct k; cbn [fst].
  - destruct (coll_event_frame s1 (Some (cur_coll s1 ++ [o]))) as (A & B & C). eapply c_frame_touch; eauto.
  - destruct (memb o (cur_coll s1)); [exact R0|].
    destruct (coll_event_frame s1 (Some (insert_uniq o (cur_coll s1)))) as (A & B & C). eapply c_frame_touch; eauto.
  - destruct (same_key o (cur_coll s1)); cbn [fst].
    + edestruct (coll_event2_frame s1) as (A & B & C). eapply c_frame_touch; eauto.
    + edestruct (coll_event_frame s1) as (A & B & C). eapply c_frame_touch; eauto.
Qed.

Lemma c_rem_frame : forall k o s, c_frame s (fst (c_rem k o s)).
Proof.
  intros k o s. unfold c_rem. destruct (coll_touch_frame s) as (D0 & X0 & B0 & _).
  destruct (coll_touch s) as [s1 ok]. cbn [fst] in *.
  assert (R0 : c_frame s s1) by (split; [|split]; auto).
  destruct (negb ok); [exact R0|].
  destruct k; cbn [fst].
  - destruct (memb o (cur_coll s1)); [|exact R0].
    edestruct (coll_event_frame s1) as (A & B & C). eapply c_frame_touch; eauto.
  - destruct (memb o (cur_coll s1)); [|exact R0].
    edestruct (coll_event_frame s1) as (A & B & C). eapply c_frame_touch; eauto.
  - destruct (holder o (cur_coll s1)); [|exact R0]. destruct (v =? o); [|exact R0].
    edestruct (coll_event_frame s1) as (A & B & C). eapply c_frame_touch; eauto.
Qed.

Lemma c_replace_frame : forall k l s, c_frame s (fst (c_replace k l s)).
Proof.
  intros k l s. unfold c_replace. destruct (get_c_frame P_OFF s) as (D & X & B & _).
  destruct (get_c P_OFF s) as [s1 r]. cbn [fst] in *.
  assert (R0 : c_frame s s1) by (split; [|split]; auto).
  destruct r; try exact R0. cbn [fst].
  assert (K : keepDB s1 (set_c_d (Some (build k l)) (mod_c (CVal v) s1)) /\
              keepX s1 (set_c_d (Some (build k l)) (mod_c (CVal v) s1)) /\
              keepB s1 (set_c_d (Some (build k l)) (mod_c (CVal v) s1))).
  { clear. dstate s1. unfold mod_c. frame_solve. }
  destruct K as (D1 & X1 & B1).
  split; [|split]; [eapply keepDB_trans|eapply loadX_trans|eapply keepB_trans]; eauto.
Qed.

Lemma c_del_frame : forall s, c_frame s (fst (c_del s)).
Proof. intros s. dstate s. unfold c_frame, c_del, mod_c. frame_solve. Qed.

Lemma c_get_frame : forall s, c_frame s (fst (c_get s)).
Proof.
  intros s. unfold c_get. destruct (coll_touch_frame s) as (D & X & B & _).
  destruct (coll_touch s) as [s1 ok]. destruct ok; split; auto.
Qed.

(* ---------- keyed dict operations ---------- *)
Definition k3 (s s' : st) : Prop := keepDB s s' /\ keepX s s' /\ keepB s s'.
Lemma k3_refl : forall s, k3 s s. Proof. intros; split; [|split]; unfold keepX; auto. Qed.
Lemma k3_trans : forall s1 s2 s3, k3 s1 s2 -> k3 s2 s3 -> k3 s1 s3.
Proof.
  intros s1 s2 s3 (A & [B1 B2] & C) (A' & [B1' B2'] & C'). split; [|split].
  - eapply keepDB_trans; eauto. - split; congruence. - eapply keepB_trans; eauto.
Qed.
Lemma before_pop_k3 : forall s, k3 s (before_pop s).
Proof. intros s. dstate s. unfold k3, before_pop, mod_c. frame_solve. Qed.
Lemma coll_event_set_k3 : forall s l, k3 s (set_c_d l (coll_event s)).
Proof. intros s l. apply (coll_event_frame s l). Qed.
Lemma dict_setitem_k3 : forall o s, k3 s (dict_setitem o s).
Proof.
  intros o s. unfold dict_setitem. destruct (same_key o (cur_coll s)).
  - apply (coll_event2_frame s). - apply coll_event_set_k3.
Qed.
Lemma update_fold_k3 : forall l s, k3 s (fold_left update_one l s).
Proof.
  induction l as [|o rest IH]; intros s; cbn [fold_left]; [apply k3_refl|].
  eapply k3_trans; [|apply IH]. unfold update_one.
  destruct (holder o (cur_coll s)) as [p|]; [destruct (p =? o); [apply k3_refl|]|]; apply dict_setitem_k3.
Qed.
Lemma c_frame_k3 : forall s s1 s2, c_frame s s1 -> k3 s1 s2 -> c_frame s s2.
Proof. intros s s1 s2 F (A & B & C). eapply c_frame_touch; eauto. Qed.

Ltac touch_frame s :=
  destruct (coll_touch_frame s) as (D0 & X0 & B0 & _);
  destruct (coll_touch s) as [s1 ok]; cbn [fst] in *;
  assert (R0 : c_frame s s1) by (split; [|split]; auto);
  destruct (negb ok); [exact R0|].

Lemma c_pop_frame : forall d o s, c_frame s (fst (c_pop d o s)).
Proof.
  intros d o s. unfold c_pop. touch_frame s.
  destruct (holder o (cur_coll s1)); cbn [fst].
  - eapply c_frame_k3; [exact R0|]. eapply k3_trans; [apply before_pop_k3|apply coll_event_set_k3].
  - destruct d; cbn [fst]; (eapply c_frame_k3; [exact R0|apply before_pop_k3]).
Qed.
Lemma c_popitem_frame : forall s, c_frame s (fst (c_popitem s)).
Proof.
  intros s. unfold c_popitem. touch_frame s.
  destruct (last_of (cur_coll s1)); cbn [fst].
  - eapply c_frame_k3; [exact R0|]. eapply k3_trans; [apply before_pop_k3|apply coll_event_set_k3].
  - eapply c_frame_k3; [exact R0|apply before_pop_k3].
Qed.
Lemma c_delkey_frame : forall o s, c_frame s (fst (c_delkey o s)).
Proof.
  intros o s. unfold c_delkey. touch_frame s.
  destruct (holder o (cur_coll s1)); cbn [fst]; [|exact R0].
  eapply c_frame_k3; [exact R0|apply coll_event_set_k3].
Qed.
Lemma c_setdefault_frame : forall o s, c_frame s (fst (c_setdefault o s)).
Proof.
  intros o s. unfold c_setdefault. touch_frame s.
  destruct (same_key o (cur_coll s1)); cbn [fst]; [exact R0|].
  eapply c_frame_k3; [exact R0|apply coll_event_set_k3].
Qed.
Lemma c_update_frame : forall l s, c_frame s (fst (c_update l s)).
Proof.
  intros l s. unfold c_update. touch_frame s. cbn [fst].
  eapply c_frame_k3; [exact R0|apply update_fold_k3].
Qed.
Lemma c_clear_frame : forall s, c_frame s (fst (c_clear s)).
Proof.
  intros s. unfold c_clear. touch_frame s.
  destruct (cur_coll s1); cbn [fst]; [exact R0|].
  eapply c_frame_k3; [exact R0|apply coll_event_set_k3].
Qed.

(* every operation other than flush leaves the database alone *)
Lemma step_keepDB : forall k o s, is_flush o = false -> keepDB s (fst (step k o s)).
Proof.
  intros k o s NF. destruct o; try discriminate NF; cbn [step].
  - apply set_x_frame. - apply del_x_frame.
  - rewrite read_fst. apply get_x_frame.
  - apply set_b_frame. - apply del_b_frame.
  - rewrite read_fst. apply get_b_frame.
  - apply c_add_frame. - apply c_rem_frame. - apply c_replace_frame. - apply c_del_frame.
  - apply c_get_frame.
  - dstate s. unfold expire. unfold keepDB. brv; auto.
  - apply c_pop_frame. - apply c_pop_frame. - apply c_popitem_frame. - apply c_delkey_frame.
  - apply c_setdefault_frame. - apply c_update_frame. - apply c_clear_frame.
Qed.

(* operations that are not about x only ever refresh a clean x from the database *)
Definition on_x (o : op) : bool := match o with SetX _ | DelX => true | _ => false end.
Definition on_b (o : op) : bool := match o with SetB _ | DelB | GetB => true | _ => false end.
Definition on_c (o : op) : bool :=
  match o with
  | CAdd _ | CRem _ | CReplace _ | CDel | CGet
  | CPop _ | CPopD _ | CPopItem | CDelKey _ | CSetDefault _ | CUpdate _ | CClear => true
  | _ => false
  end.

Lemma step_loadX : forall k o s, is_sync o = false -> on_x o = false -> loadX s (fst (step k o s)).
Proof.
  intros k o s NS NX. destruct o; try discriminate NS; try discriminate NX; cbn [step].
  - rewrite read_fst. apply get_x_frame.
  - apply set_b_frame. - apply del_b_frame.
  - rewrite read_fst. apply get_b_frame.
  - apply c_add_frame. - apply c_rem_frame. - apply c_replace_frame. - apply c_del_frame.
  - apply c_get_frame.
  - apply c_pop_frame. - apply c_pop_frame. - apply c_popitem_frame. - apply c_delkey_frame.
  - apply c_setdefault_frame. - apply c_update_frame. - apply c_clear_frame.
Qed.

Lemma step_keepB : forall k o s, is_sync o = false -> on_b o = false -> keepB s (fst (step k o s)).
Proof.
  intros k o s NS NX. destruct o; try discriminate NS; try discriminate NX; cbn [step].
  - apply set_x_frame. - apply del_x_frame.
  - rewrite read_fst. apply get_x_frame.
  - apply c_add_frame. - apply c_rem_frame. - apply c_replace_frame. - apply c_del_frame.
  - apply c_get_frame.
  - apply c_pop_frame. - apply c_pop_frame. - apply c_popitem_frame. - apply c_delkey_frame.
  - apply c_setdefault_frame. - apply c_update_frame. - apply c_clear_frame.
Qed.

Lemma step_keepC : forall k o s, is_sync o = false -> on_c o = false -> keepC s (fst (step k o s)).
Proof.
  intros k o s NS NX. destruct o; try discriminate NS; try discriminate NX; cbn [step].
  - apply set_x_frame. - apply del_x_frame.
  - rewrite read_fst. apply get_x_frame.
  - apply set_b_frame. - apply del_b_frame.
  - rewrite read_fst. apply get_b_frame.
Qed.
