(* C45 - the merge theorems instantiated after an arbitrary history of session operations *)
From Coq Require Import List Bool Arith ZArith.
From SAV.orm Require Import Merge MergeProofs MergeValues MergeIdem MergeWf.
Import ListNotations.

Theorem merge_after_any_history : forall cfg sas sbs ops load src s' t,
  let s := mrun cfg sas sbs m0 ops in
  merge_A cfg load sbs s src = Some (s', t) ->
  (forall pk, sa_pk src = Some pk ->
     (forall e, idA s pk = Some e -> t = e) /\
     (load = false \/ idA s pk <> None \/ assoc pk (rowsA cfg) <> None -> idA s' pk = Some t)) /\
  cols s' t 1 = copied (sa_x src) (base_col cfg load s src 1) /\
  cols s' t 2 = copied (sa_y src) (base_col cfg load s src 2).
Proof.
  intros cfg sas sbs ops load src s' t s H.
  exact (merge_identity_and_values cfg load sbs s src s' t (wf_all_histories cfg sas sbs ops) H).
Qed.
