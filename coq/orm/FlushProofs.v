(* C30 - proofs: the invariant "the database is the rows of the committed view, and everything that differs
   in the current view is recorded as history" holds after every operation history; a flush re-establishes
   "database = rows of the current graph" *)
From Coq Require Import List NArith ZArith Bool Lia.
Import ListNotations.
From SAV.orm Require Import Flush.
Local Open Scope N_scope.

(* ---------------------------------------------------------------- small facts *)
Lemma memN_In x l : memN x l = true <-> In x l.
Proof. unfold memN. rewrite existsb_exists. split.
  - intros [y [H1 H2]]. apply N.eqb_eq in H2. subst. exact H1.
  - intros H. exists x. split; [exact H|apply N.eqb_refl]. Qed.
Lemma t3eqb_eq x y : t3eqb x y = true <-> x = y.
Proof. destruct x as [[a b] c], y as [[a' b'] c']. unfold t3eqb. simpl. rewrite !andb_true_iff, !N.eqb_eq. split.
  - intros [[-> ->] ->]. reflexivity.
  - intros H. inversion H. auto. Qed.
Lemma mem3_In x l : mem3 x l = true <-> In x l.
Proof. unfold mem3. rewrite existsb_exists. split.
  - intros [y [H1 H2]]. apply t3eqb_eq in H2. subst. exact H1.
  - intros H. exists x. split; [exact H|apply t3eqb_eq; reflexivity]. Qed.
Lemma mem3_false x l : mem3 x l = false <-> ~ In x l.
Proof. rewrite <- mem3_In. destruct (mem3 x l); split; intros H.
  - discriminate. - exfalso; apply H; reflexivity. - intros X; discriminate. - reflexivity. Qed.
Lemma in_remove3 x y l : In y (filter (fun z => negb (t3eqb x z)) l) <-> In y l /\ y <> x.
Proof. rewrite filter_In. split; intros [H1 H2]; split; try exact H1.
  - intros ->. assert (t3eqb x x = true) by (apply t3eqb_eq; reflexivity). rewrite H in H2. discriminate.
  - apply negb_true_iff. destruct (t3eqb x y) eqn:E; [|reflexivity]. apply t3eqb_eq in E. congruence. Qed.

Lemma assoc_in {A} k (v : A) l : assoc k l = Some v -> In (k, v) l.
Proof. induction l as [|[k' v'] l IH]; simpl; [discriminate|]. destruct (N.eqb k' k) eqn:E.
  - intros H. inversion H; subst. apply N.eqb_eq in E. subst. left. reflexivity.
  - intros H. right. apply IH, H. Qed.
Lemma assoc_none {A} k (l : list (N * A)) : assoc k l = None <-> ~ In k (map fst l).
Proof. induction l as [|[k' v'] l IH]; simpl; [tauto|]. destruct (N.eqb k' k) eqn:E.
  - apply N.eqb_eq in E. subst. split; [discriminate|]. intros H. exfalso. apply H. left. reflexivity.
  - apply N.eqb_neq in E. rewrite IH. tauto. Qed.
Lemma assoc_nodup {A} k (v : A) l : NoDup (map fst l) -> In (k, v) l -> assoc k l = Some v.
Proof. induction l as [|[k' v'] l IH]; simpl; intros Hn Hi; [contradiction|]. inversion Hn; subst.
  destruct Hi as [Hi|Hi].
  - inversion Hi; subst. rewrite N.eqb_refl. reflexivity.
  - destruct (N.eqb k' k) eqn:E; [|apply IH; assumption]. apply N.eqb_eq in E. subst. exfalso. apply H1.
    apply in_map_iff. exists (k, v). split; [reflexivity|exact Hi]. Qed.

(* assoc through a filter on a list with unique keys *)
Lemma assoc_filter (P : N * N -> bool) k l : NoDup (map fst l) ->
  assoc k (filter P l) = match assoc k l with Some v => if P (k, v) then Some v else None | None => None end.
Proof. induction l as [|[k' v'] l IH]; simpl; intros Hn; [reflexivity|]. inversion Hn; subst.
  destruct (N.eqb k' k) eqn:E.
  - apply N.eqb_eq in E. subst. destruct (P (k, v')) eqn:Pk; simpl.
    + rewrite N.eqb_refl. reflexivity.
    + apply assoc_none. intros H. apply H1. apply in_map_iff in H. destruct H as [[a b] [E1 E2]]. simpl in E1. subst.
      apply filter_In in E2. apply in_map_iff. exists (k, b). split; [reflexivity|tauto].
  - destruct (P (k', v')); simpl; [rewrite E|]; apply IH; assumption. Qed.

Lemma filter_keys_sub (P : N * N -> bool) l k : In k (map fst (filter P l)) -> In k (map fst l).
Proof. intros H. apply in_map_iff in H. destruct H as [e [E H]]. apply filter_In in H. apply in_map_iff. exists e. tauto. Qed.
Lemma nodup_filter_keys (P : N * N -> bool) l : NoDup (map fst l) -> NoDup (map fst (filter P l)).
Proof. induction l as [|e l IH]; simpl; intros H; [constructor|]. inversion H; subst. destruct (P e); simpl; [constructor|]; auto.
  intros X. apply H2. eapply filter_keys_sub; exact X. Qed.

Lemma assoc_app {A} k (l1 l2 : list (N * A)) : assoc k (l1 ++ l2) = match assoc k l1 with Some v => Some v | None => assoc k l2 end.
Proof. induction l1 as [|[k' v'] l1 IH]; simpl; [reflexivity|]. destruct (N.eqb k' k); [reflexivity|exact IH]. Qed.

(* ---------------------------------------------------------------- objects *)
Lemma get_obj_in s i o : get_obj s i = Some o -> In o (objs s) /\ o_id o = i.
Proof. unfold get_obj. intros H. apply find_some in H. destruct H as [H1 H2]. apply N.eqb_eq in H2. auto. Qed.
Lemma get_obj_nodup s o : NoDup (map o_id (objs s)) -> In o (objs s) -> get_obj s (o_id o) = Some o.
Proof. unfold get_obj. induction (objs s) as [|a l IH]; simpl; intros Hn Hi; [contradiction|]. inversion Hn; subst.
  destruct Hi as [->|Hi]; [rewrite N.eqb_refl; reflexivity|].
  destruct (N.eqb (o_id a) (o_id o)) eqn:E; [|apply IH; assumption]. apply N.eqb_eq in E. exfalso. apply H1. rewrite E. apply in_map, Hi. Qed.
Lemma get_obj_none s i : get_obj s i = None <-> ~ In i (map o_id (objs s)).
Proof. unfold get_obj. induction (objs s) as [|a l IH]; simpl; [tauto|]. destruct (N.eqb (o_id a) i) eqn:E.
  - apply N.eqb_eq in E. split; [discriminate|]. intros H. exfalso. apply H. left. exact E.
  - apply N.eqb_neq in E. rewrite IH. tauto. Qed.

(* lookup in a list built object by object *)
Lemma assoc_flat_map {A} (l : list obj) (f : obj -> option A) i : NoDup (map o_id l) ->
  assoc i (flat_map (fun o => match f o with Some w => [(o_id o, w)] | None => [] end) l) =
  match find (fun o => N.eqb (o_id o) i) l with Some o => f o | None => None end.
Proof. induction l as [|a l IH]; simpl; intros Hn; [reflexivity|]. inversion Hn; subst. rewrite assoc_app.
  destruct (N.eqb (o_id a) i) eqn:E.
  - destruct (f a) as [w|]; simpl; [rewrite E; reflexivity|]. rewrite IH by assumption.
    apply N.eqb_eq in E. subst. destruct (find _ l) as [o|] eqn:F; [|reflexivity].
    apply find_some in F. destruct F as [F1 F2]. apply N.eqb_eq in F2. exfalso. apply H1. rewrite <- F2. apply in_map, F1.
  - destruct (f a) as [w|]; simpl; [rewrite E|]; apply IH; assumption. Qed.

(* ---------------------------------------------------------------- the invariant *)
Definition hasrow (n : N) : bool := N.eqb n 2 || N.eqb n 3.
(* the foreign keys of the committed view: a parent that has a row *)
Definition fkrow (s : state) (par : list (N * N)) : list (N * N) := filter (fun e => hasrow (st_of s (snd e))) par.

Definition row_ok (s : state) (o : obj) (w : row) : Prop :=
  w_cls w = o_cls o /\ NoDup (map fst (w_fk w)) /\ (o_dd o = false -> w_data w = o_data o) /\
  (forall r, memN r (o_pd o) = false -> assoc r (w_fk w) = assoc r (fkrow s (o_par o))).

Definition par_ok (s : state) (o : obj) : Prop :=
  NoDup (map fst (o_par o)) /\
  forall r p, In (r, p) (o_par o) -> get_obj s p <> None /\ (memN r (o_pd o) = false -> st_of s p <> 1).

Definition rows_ok (s : state) (i : N) : Prop :=
  match get_obj s i with
  | Some o => if hasrow (o_st o) then exists w, assoc i (rows s) = Some w /\ row_ok s o w else assoc i (rows s) = None
  | None => assoc i (rows s) = None end.

Record Inv (s : state) : Prop := {
  i_nodup : NoDup (map o_id (objs s));
  i_st : forall o, In o (objs s) -> o_st o <= 3;
  i_par : forall o, In o (objs s) -> par_ok s o;
  i_rows : forall i, rows_ok s i;
  i_s1 : forall x, In x (secs s) <-> (In x (pairs s) /\ ~ In x (padd s)) \/ In x (pdel s);
  i_s2 : forall x, In x (padd s) -> In x (pairs s);
  i_s3 : forall x, In x (pdel s) -> ~ In x (pairs s)
}.

Lemma inv_empty : Inv empty.
Proof. constructor; simpl.
  - constructor.
  - intros o [].
  - intros o [].
  - intros i. unfold rows_ok. reflexivity.
  - intros x. tauto.
  - intros x [].
  - intros x []. Qed.

(* ---------------------------------------------------------------- updating one object *)
Section Upd.
Variables (s : state) (i : N) (f : obj -> obj).
Hypothesis Hid : forall o, o_id (f o) = o_id o.
Let s' := set_objs s (upd_obj s i f).

Lemma upd_ids : map o_id (objs s') = map o_id (objs s).
Proof. simpl. unfold upd_obj. rewrite map_map. apply map_ext. intros o. destruct (N.eqb (o_id o) i); [apply Hid|reflexivity]. Qed.

Lemma upd_get j : get_obj s' j = match get_obj s j with Some o => Some (if N.eqb (o_id o) i then f o else o) | None => None end.
Proof. unfold get_obj. simpl. unfold upd_obj. induction (objs s) as [|a l IH]; simpl; [reflexivity|].
  destruct (N.eqb (o_id a) i) eqn:E; [rewrite Hid|]; destruct (N.eqb (o_id a) j) eqn:F; try rewrite E; auto. Qed.
End Upd.

Lemma fkrow_ext s s' par : (forall p, hasrow (st_of s' p) = hasrow (st_of s p)) -> fkrow s' par = fkrow s par.
Proof. intros H. unfold fkrow. apply filter_ext. intros e. apply H. Qed.

Lemma inv_upd s i f : Inv s ->
  (forall o, o_id (f o) = o_id o) ->
  (forall o, In o (objs s) -> o_id o = i ->
     hasrow (o_st (f o)) = hasrow (o_st o) /\ N.eqb (o_st (f o)) 1 = N.eqb (o_st o) 1 /\ o_st (f o) <= 3 /\
     par_ok s (f o) /\ (forall w, row_ok s o w -> row_ok s (f o) w)) ->
  pairs (set_objs s (upd_obj s i f)) = pairs s ->
  Inv (set_objs s (upd_obj s i f)).
Proof.
  intros Hi Hid Hf _. set (s' := set_objs s (upd_obj s i f)).
  assert (Hget : forall j, get_obj s' j = match get_obj s j with Some o => Some (if N.eqb (o_id o) i then f o else o) | None => None end)
    by (intros j; apply upd_get; exact Hid).
  assert (Hst : forall p, hasrow (st_of s' p) = hasrow (st_of s p) /\ N.eqb (st_of s' p) 1 = N.eqb (st_of s p) 1).
  { intros p. unfold st_of. rewrite Hget. destruct (get_obj s p) as [o|] eqn:G; [|auto]. destruct (N.eqb (o_id o) i) eqn:E; [|auto].
    apply get_obj_in in G. destruct G as [G1 G2]. apply N.eqb_eq in E. destruct (Hf o G1 E) as [A [B _]]. auto. }
  assert (Hfk : forall par, fkrow s' par = fkrow s par) by (intros par; apply fkrow_ext; intros p; apply Hst).
  assert (Hpo : forall o, par_ok s o -> par_ok s' o).
  { intros o [P1 P2]. split; [exact P1|]. intros r p Hrp. destruct (P2 r p Hrp) as [A B]. split.
    - rewrite Hget. destruct (get_obj s p); [discriminate|exact A].
    - intros Hm X. apply (B Hm). destruct (Hst p) as [_ Y]. apply N.eqb_eq in X. rewrite X in Y. simpl in Y. symmetry in Y. apply N.eqb_eq in Y. exact Y. }
  assert (Hro : forall o w, row_ok s o w -> row_ok s' o w).
  { intros o w [A [B [C D]]]. split; [exact A|]. split; [exact B|]. split; [exact C|]. intros r Hr. rewrite Hfk. apply D, Hr. }
  constructor.
  - change (NoDup (map o_id (objs s'))). unfold s'. rewrite upd_ids by exact Hid. apply (i_nodup _ Hi).
  - intros o Ho. simpl in Ho. unfold upd_obj in Ho. apply in_map_iff in Ho. destruct Ho as [o0 [E Ho]].
    destruct (N.eqb (o_id o0) i) eqn:X; subst o; [|apply (i_st _ Hi), Ho]. apply N.eqb_eq in X. destruct (Hf o0 Ho X) as [_ [_ [A _]]]. exact A.
  - intros o Ho. simpl in Ho. unfold upd_obj in Ho. apply in_map_iff in Ho. destruct Ho as [o0 [E Ho]].
    destruct (N.eqb (o_id o0) i) eqn:X; subst o; [|apply Hpo, (i_par _ Hi), Ho]. apply N.eqb_eq in X. destruct (Hf o0 Ho X) as [_ [_ [_ [A _]]]]. apply Hpo, A.
  - intros j. pose proof (i_rows _ Hi j) as R. unfold rows_ok in *. rewrite Hget. change (rows s') with (rows s).
    destruct (get_obj s j) as [o|] eqn:G; [|exact R]. destruct (N.eqb (o_id o) i) eqn:X.
    + apply get_obj_in in G. destruct G as [G1 G2]. apply N.eqb_eq in X. destruct (Hf o G1 X) as [A [_ [_ [_ B]]]]. rewrite A.
      destruct (hasrow (o_st o)); [|exact R]. destruct R as [w [R1 R2]]. exists w. split; [exact R1|]. apply Hro, B, R2.
    + destruct (hasrow (o_st o)); [|exact R]. destruct R as [w [R1 R2]]. exists w. split; [exact R1|apply Hro, R2].
  - apply (i_s1 _ Hi).
  - apply (i_s2 _ Hi).
  - apply (i_s3 _ Hi).
Qed.

(* ---------------------------------------------------------------- the operations preserve the invariant *)
Lemma find_app' {A} (f : A -> bool) l1 l2 : find f (l1 ++ l2) = match find f l1 with Some x => Some x | None => find f l2 end.
Proof. induction l1 as [|a l1 IH]; simpl; [reflexivity|]. destruct (f a); [reflexivity|exact IH]. Qed.
Lemma NoDup_app_intro {A} (l1 l2 : list A) : NoDup l1 -> NoDup l2 -> (forall x, In x l1 -> In x l2 -> False) -> NoDup (l1 ++ l2).
Proof. induction l1 as [|a l1 IH]; simpl; intros H1 H2 Hd; [exact H2|]. inversion H1; subst. constructor.
  - intros X. apply in_app_or in X. destruct X as [X|X]; [contradiction|]. apply (Hd a); [left; reflexivity|exact X].
  - apply IH; [assumption|assumption|]. intros x X1 X2. apply (Hd x); [right; exact X1|exact X2]. Qed.

Lemma st_of_get s i o : get_obj s i = Some o -> st_of s i = o_st o.
Proof. unfold st_of. intros ->. reflexivity. Qed.
Lemma live_exists s i : live (st_of s i) = true -> get_obj s i <> None.
Proof. unfold st_of. destruct (get_obj s i); [discriminate|]. simpl. discriminate. Qed.

Lemma assoc_set_other (k k' v : N) l : k' <> k -> assoc k' (set_assoc k v l) = assoc k' (del_assoc k l).
Proof. intros H. unfold set_assoc. simpl. destruct (N.eqb k k') eqn:E; [apply N.eqb_eq in E; congruence|reflexivity]. Qed.
Lemma nodup_del_assoc k l : NoDup (map fst l) -> NoDup (map fst (del_assoc k l)).
Proof. apply nodup_filter_keys. Qed.
Lemma nodup_set_assoc k v l : NoDup (map fst l) -> NoDup (map fst (set_assoc k v l)).
Proof. intros H. unfold set_assoc. simpl. constructor; [|apply nodup_filter_keys, H].
  intros X. apply in_map_iff in X. destruct X as [e [E X]]. apply filter_In in X. destruct X as [_ X]. rewrite E, N.eqb_refl in X. discriminate. Qed.

Lemma fkrow_other s r k par par' : r <> k -> NoDup (map fst par) ->
  (forall e, In e par' <-> (In e par /\ fst e <> k) \/ (fst e = k /\ In e par')) ->
  NoDup (map fst par') ->
  assoc r (fkrow s par') = assoc r (fkrow s par).
Proof. intros Hne Hn Hp Hn'. unfold fkrow. rewrite !assoc_filter by assumption.
  assert (E : assoc r par' = assoc r par).
  { destruct (assoc r par) as [v|] eqn:A.
    - apply assoc_nodup; [exact Hn'|]. apply Hp. left. split; [apply assoc_in, A|simpl; exact Hne].
    - apply assoc_none. intros X. apply in_map_iff in X. destruct X as [[a b] [E X]]. simpl in E. subst a.
      apply Hp in X. destruct X as [[X _]|[X _]]; [|simpl in X; congruence].
      apply assoc_none in A. apply A. apply in_map_iff. exists (r, b). split; [reflexivity|exact X]. }
  rewrite E. reflexivity. Qed.

Lemma inv_new s i c v : Inv s -> get_obj s i = None ->
  Inv (set_objs s (objs s ++ [{| o_id := i; o_cls := c; o_st := 1; o_data := v; o_dd := false; o_par := []; o_pd := [] |}])).
Proof.
  intros Hi G. pose proof (proj1 (get_obj_none s i) G) as Hni.
  set (n := {| o_id := i; o_cls := c; o_st := 1; o_data := v; o_dd := false; o_par := []; o_pd := [] |}).
  set (s' := set_objs s (objs s ++ [n])).
  assert (Hget : forall j, get_obj s' j = if N.eqb j i then Some n else get_obj s j).
  { intros j. unfold get_obj. simpl. rewrite find_app'. destruct (find _ (objs s)) as [o|] eqn:F.
    - destruct (N.eqb j i) eqn:E; [|reflexivity]. apply N.eqb_eq in E. subst j. unfold get_obj in G. congruence.
    - simpl. rewrite N.eqb_sym. destruct (N.eqb j i); reflexivity. }
  assert (Hst : forall p, p <> i -> st_of s' p = st_of s p).
  { intros p Hp. unfold st_of. rewrite Hget. apply N.eqb_neq in Hp. rewrite Hp. reflexivity. }
  assert (Href : forall o, In o (objs s) -> forall r p, In (r, p) (o_par o) -> p <> i).
  { intros o Ho r p Hrp ->. destruct (i_par _ Hi o Ho) as [_ P]. destruct (P r i Hrp) as [X _]. congruence. }
  constructor.
  - simpl. rewrite map_app. simpl. apply NoDup_app_intro; [apply (i_nodup _ Hi)|repeat constructor; intros []|].
    intros x X1 [<-|[]]. contradiction.
  - intros o Ho. simpl in Ho. apply in_app_or in Ho. destruct Ho as [Ho|[<-|[]]]; [apply (i_st _ Hi), Ho|simpl; lia].
  - intros o Ho. simpl in Ho. apply in_app_or in Ho. destruct Ho as [Ho|[<-|[]]].
    + destruct (i_par _ Hi o Ho) as [P1 P2]. split; [exact P1|]. intros r p Hrp. destruct (P2 r p Hrp) as [A B].
      pose proof (Href o Ho r p Hrp) as Hne. split.
      * rewrite Hget. apply N.eqb_neq in Hne. rewrite Hne. exact A.
      * rewrite (Hst p Hne). exact B.
    + split; [constructor|]. intros r p [].
  - intros j. unfold rows_ok. rewrite Hget. change (rows s') with (rows s). pose proof (i_rows _ Hi j) as R. unfold rows_ok in R.
    destruct (N.eqb j i) eqn:E.
    + apply N.eqb_eq in E. subst j. simpl. rewrite G in R. exact R.
    + destruct (get_obj s j) as [o|] eqn:Gj; [|exact R]. destruct (hasrow (o_st o)); [|exact R].
      destruct R as [w [R1 [A [B [C D]]]]]. exists w. split; [exact R1|]. split; [exact A|]. split; [exact B|]. split; [exact C|].
      intros r Hr. rewrite (D r Hr). apply get_obj_in in Gj. destruct Gj as [Gj _]. unfold fkrow.
      f_equal. apply filter_ext_in. intros [r' p] Hp. simpl. rewrite (Hst p); [reflexivity|]. apply (Href o Gj r' p Hp).
  - apply (i_s1 _ Hi).
  - apply (i_s2 _ Hi).
  - apply (i_s3 _ Hi).
Qed.

Lemma inv_data s i v : Inv s ->
  Inv (set_objs s (upd_obj s i (fun o => {| o_id := o_id o; o_cls := o_cls o; o_st := o_st o; o_data := v; o_dd := true;
                                             o_par := o_par o; o_pd := o_pd o |}))).
Proof. intros Hi. apply inv_upd; try assumption; try reflexivity.
  intros o Ho _. split; [reflexivity|]. split; [reflexivity|]. split; [apply (i_st _ Hi o Ho)|]. split; [apply (i_par _ Hi o Ho)|].
  intros w [A [B [C D]]]. split; [exact A|]. split; [exact B|]. split; [simpl; discriminate|exact D]. Qed.

Lemma inv_del s i : Inv s -> st_of s i = 2 ->
  Inv (set_objs s (upd_obj s i (fun o => {| o_id := o_id o; o_cls := o_cls o; o_st := 3; o_data := o_data o; o_dd := o_dd o;
                                             o_par := o_par o; o_pd := o_pd o |}))).
Proof. intros Hi C. apply inv_upd; try assumption; try reflexivity.
  intros o Ho Ho'. assert (E : o_st o = 2).
  { rewrite <- C. symmetry. apply st_of_get. rewrite <- Ho'. apply get_obj_nodup; [apply (i_nodup _ Hi)|exact Ho]. }
  simpl. rewrite E. split; [reflexivity|]. split; [reflexivity|]. split; [lia|]. split; [apply (i_par _ Hi o Ho)|]. intros w R. exact R. Qed.

Lemma del_assoc_spec k l (e : N * N) : In e (del_assoc k l) <-> In e l /\ fst e <> k.
Proof. unfold del_assoc. rewrite filter_In. split; intros [X Y]; split; try exact X.
  - intros E. rewrite E, N.eqb_refl in Y. discriminate.
  - apply negb_true_iff, N.eqb_neq. exact Y. Qed.
Lemma set_assoc_spec k v l (e : N * N) : In e (set_assoc k v l) <-> (In e l /\ fst e <> k) \/ (fst e = k /\ In e (set_assoc k v l)).
Proof. unfold set_assoc. simpl. fold (del_assoc k l). rewrite del_assoc_spec. split.
  - intros [<-|X]; [right; split; [reflexivity|left; reflexivity]|left; exact X].
  - intros [X|[_ X]]; [right; exact X|exact X]. Qed.

Lemma inv_par s r c (p : option N) : Inv s -> (forall p', p = Some p' -> get_obj s p' <> None) ->
  Inv (set_objs s (upd_obj s c (fun o => {| o_id := o_id o; o_cls := o_cls o; o_st := o_st o; o_data := o_data o; o_dd := o_dd o;
                 o_par := match p with Some p' => set_assoc r p' (o_par o) | None => del_assoc r (o_par o) end;
                 o_pd := r :: o_pd o |}))).
Proof.
  intros Hi Hp. apply inv_upd; try assumption; try reflexivity.
  intros o Ho Ho'. destruct (i_par _ Hi o Ho) as [P1 P2].
  split; [reflexivity|]. split; [reflexivity|]. split; [apply (i_st _ Hi o Ho)|]. split.
  - split; simpl.
    + destruct p; [apply nodup_set_assoc|apply nodup_del_assoc]; exact P1.
    + intros r0 p0 H.
      assert (Hin : (r0 = r /\ p = Some p0) \/ (In (r0, p0) (o_par o) /\ r0 <> r)).
      { destruct p as [p'|]; simpl in H.
        - destruct H as [H|H]; [inversion H; subst; left; auto|]. apply filter_In in H. destruct H as [H H']. right. split; [exact H|].
          simpl in H'. intros ->. rewrite N.eqb_refl in H'. discriminate.
        - apply filter_In in H. destruct H as [H H']. right. split; [exact H|]. simpl in H'. intros ->. rewrite N.eqb_refl in H'. discriminate. }
      destruct Hin as [[-> E]|[Hin Hne]].
      * split; [apply Hp, E|]. intros Hm. simpl in Hm. rewrite N.eqb_refl in Hm. discriminate.
      * destruct (P2 _ _ Hin) as [A B]. split; [exact A|]. intros Hm. simpl in Hm. apply orb_false_iff in Hm. apply B. tauto.
  - intros w [A [B [C' D]]]. split; [exact A|]. split; [exact B|]. split; [exact C'|]. simpl. intros r' Hr'.
    apply orb_false_iff in Hr'. destruct Hr' as [H1 H2]. apply N.eqb_neq in H1. rewrite (D r' H2). symmetry.
    apply (fkrow_other s r' r); [congruence|exact P1| |destruct p; [apply nodup_set_assoc|apply nodup_del_assoc]; exact P1].
    intros e. destruct p as [p'|]; [apply set_assoc_spec|]. rewrite del_assoc_spec. split; [intros X; left; exact X|].
    intros [X|[X Y]]; [exact X|exact Y].
Qed.

Lemma inv_pairs s p' a' d' : Inv s ->
  (forall x, In x (secs s) <-> (In x p' /\ ~ In x a') \/ In x d') ->
  (forall x, In x a' -> In x p') -> (forall x, In x d' -> ~ In x p') ->
  Inv {| objs := objs s; pairs := p'; padd := a'; pdel := d'; rows := rows s; secs := secs s |}.
Proof. intros Hi S1 S2 S3. constructor; simpl; try assumption.
  - apply (i_nodup _ Hi).
  - apply (i_st _ Hi).
  - apply (i_par _ Hi).
  - apply (i_rows _ Hi). Qed.

Lemma inv_add s x : Inv s -> ~ In x (pairs s) ->
  Inv {| objs := objs s; pairs := x :: pairs s;
         padd := if mem3 x (pdel s) then padd s else x :: padd s;
         pdel := filter (fun y => negb (t3eqb x y)) (pdel s); rows := rows s; secs := secs s |}.
Proof. intros Hi C. apply inv_pairs; [exact Hi| | |].
  - intros y. rewrite in_remove3. rewrite (i_s1 _ Hi). destruct (mem3 x (pdel s)) eqn:M.
    + apply mem3_In in M. split.
      * intros [[X Y]|X]; [left; split; [right; exact X|exact Y]|].
        destruct (t3eqb x y) eqn:E.
        -- apply t3eqb_eq in E. subst y. left. split; [left; reflexivity|]. intros Z. apply C, (i_s2 _ Hi), Z.
        -- right. split; [exact X|]. intros ->. assert (t3eqb x x = true) by (apply t3eqb_eq; reflexivity). congruence.
      * intros [[[X|X] Y]|[X Y]]; [subst y; right; exact M|left; split; assumption|right; exact X].
    + apply mem3_false in M. split.
      * intros [[X Y]|X]; [left; split; [right; exact X|]|right; split; [exact X|intros ->; contradiction]].
        intros [Z|Z]; [subst y; contradiction|contradiction].
      * intros [[[X|X] Y]|[X Y]]; [subst y; exfalso; apply Y; left; reflexivity|left; split; [exact X|intros Z; apply Y; right; exact Z]|right; exact X].
  - intros y. destruct (mem3 x (pdel s)); simpl; [intros X; right; apply (i_s2 _ Hi), X|].
    intros [X|X]; [left; exact X|right; apply (i_s2 _ Hi), X].
  - intros y X. apply in_remove3 in X. destruct X as [X Y]. intros [Z|Z]; [congruence|apply (i_s3 _ Hi y X), Z].
Qed.

Lemma inv_rem s x : Inv s -> In x (pairs s) ->
  Inv {| objs := objs s; pairs := filter (fun y => negb (t3eqb x y)) (pairs s);
         padd := filter (fun y => negb (t3eqb x y)) (padd s);
         pdel := if mem3 x (padd s) then pdel s else x :: pdel s; rows := rows s; secs := secs s |}.
Proof. intros Hi C. apply inv_pairs; [exact Hi| | |].
  - intros y. rewrite !in_remove3. rewrite (i_s1 _ Hi). destruct (mem3 x (padd s)) eqn:M.
    + apply mem3_In in M. split.
      * intros [[X Y]|X]; [|right; exact X]. left. split; [split; [exact X|intros ->; contradiction]|]. intros [Z _]. contradiction.
      * intros [[[X X'] Y]|X]; [left; split; [exact X|]; intros Z; apply Y; split; assumption|right; exact X].
    + apply mem3_false in M. simpl. split.
      * intros [[X Y]|X]; [|right; right; exact X].
        destruct (t3eqb x y) eqn:E; [apply t3eqb_eq in E; subst y; right; left; reflexivity|].
        left. split; [split; [exact X|]|intros [Z _]; contradiction]. intros ->.
        assert (t3eqb x x = true) by (apply t3eqb_eq; reflexivity). congruence.
      * intros [[[X X'] Y]|[X|X]]; [left; split; [exact X|]; intros Z; apply Y; split; assumption| |right; exact X].
        subst y. left. split; assumption.
  - intros y X. apply in_remove3 in X. destruct X as [X Y]. apply in_remove3. split; [apply (i_s2 _ Hi), X|exact Y].
  - intros y. destruct (mem3 x (padd s)); simpl.
    + intros X Z. apply in_remove3 in Z. destruct Z as [Z _]. apply (i_s3 _ Hi y X), Z.
    + intros [X|X] Z; apply in_remove3 in Z; destruct Z as [Z Z']; [congruence|apply (i_s3 _ Hi y X), Z].
Qed.

Lemma inv_step rs s o : Inv s -> Inv (step rs s o).
Proof.
  intros Hi. destruct o as [i c v|i v|r c p|r a b|r a b|i|]; simpl; try exact Hi.
  - destruct (get_obj s i) eqn:G; [exact Hi|apply inv_new; assumption].
  - destruct (live (st_of s i)); [apply inv_data, Hi|exact Hi].
  - destruct (get_rel rs r) as [rr|]; [|exact Hi]. destruct (negb (acyclic_with s c p)); [exact Hi|].
    destruct (N.eqb (r_kind rr) 0 && live (st_of s c) && opt_cls_is s c (r_a rr) && _) eqn:C; [|exact Hi].
    apply inv_par; [exact Hi|]. intros p' ->. apply andb_true_iff in C. destruct C as [_ C]. apply andb_true_iff in C.
    destruct C as [C _]. apply live_exists, C.
  - destruct (get_rel rs r) as [rr|]; [|exact Hi]. destruct (_ && negb (mem3 (r, a, b) (pairs s))) eqn:C; [|exact Hi].
    apply andb_true_iff in C. destruct C as [_ C]. apply negb_true_iff, mem3_false in C. apply inv_add; assumption.
  - destruct (mem3 (r, a, b) (pairs s) && _ && _) eqn:C; [|exact Hi].
    apply andb_true_iff in C. destruct C as [C _]. apply andb_true_iff in C. destruct C as [C _]. apply mem3_In in C.
    apply inv_rem; assumption.
  - destruct (N.eqb (st_of s i) 2 && del_ok rs s i) eqn:C; [|exact Hi]. apply andb_true_iff in C. destruct C as [C _]. apply N.eqb_eq in C.
    apply inv_del; assumption.
Qed.

(* ---------------------------------------------------------------- flush *)
Definition row_equiv (a b : option row) : Prop :=
  match a, b with
  | None, None => True
  | Some w, Some w' => w_cls w = w_cls w' /\ w_data w = w_data w' /\ forall r, assoc r (w_fk w) = assoc r (w_fk w')
  | _, _ => False
  end.

Definition newst (n : N) : N := if N.eqb n 1 then 2 else if N.eqb n 3 then 0 else n.
Definition fobj (o : obj) : obj :=
  {| o_id := o_id o; o_cls := o_cls o; o_st := newst (o_st o); o_data := o_data o; o_dd := false; o_par := o_par o; o_pd := [] |}.

Lemma flush_objs s : objs (flush s) = map fobj (objs s).
Proof. reflexivity. Qed.

Lemma get_obj_flush s i : get_obj (flush s) i = match get_obj s i with Some o => Some (fobj o) | None => None end.
Proof. unfold get_obj. rewrite flush_objs. induction (objs s) as [|a l IH]; simpl; [reflexivity|].
  destruct (N.eqb (o_id a) i); [reflexivity|exact IH]. Qed.
Lemma st_of_flush s p : st_of (flush s) p = newst (st_of s p).
Proof. unfold st_of. rewrite get_obj_flush. destruct (get_obj s p); reflexivity. Qed.

Lemma live_newst n : n <= 3 -> live (newst n) = live n.
Proof. intros H. assert (X : n = 0 \/ n = 1 \/ n = 2 \/ n = 3) by lia. destruct X as [->|[->|[->| ->]]]; reflexivity. Qed.
Lemma hasrow_newst n : n <= 3 -> hasrow (newst n) = live n.
Proof. intros H. assert (X : n = 0 \/ n = 1 \/ n = 2 \/ n = 3) by lia. destruct X as [->|[->|[->| ->]]]; reflexivity. Qed.

Lemma st_le3 s p : Inv s -> st_of s p <= 3.
Proof. intros Hi. unfold st_of. destruct (get_obj s p) as [o|] eqn:G; [|lia]. apply get_obj_in in G. apply (i_st _ Hi), G. Qed.

Lemma fk_of_flush s par : Inv s -> fk_of (flush s) par = fk_of s par.
Proof. intros Hi. unfold fk_of. apply filter_ext. intros e. rewrite st_of_flush. apply live_newst, st_le3, Hi. Qed.

Definition frow (s : state) (o : obj) : option row :=
  if N.eqb (o_st o) 1 then Some {| w_cls := o_cls o; w_data := o_data o; w_fk := fk_of s (o_par o) |}
  else if N.eqb (o_st o) 2 then match assoc (o_id o) (rows s) with Some w => Some (upd_row s o w) | None => None end
  else None.

Lemma flush_rows_assoc s i : NoDup (map o_id (objs s)) ->
  assoc i (flush_rows s) = match get_obj s i with Some o => frow s o | None => None end.
Proof. intros Hn. unfold flush_rows, get_obj. rewrite <- (assoc_flat_map (objs s) (frow s) i Hn). f_equal.
  apply flat_map_ext. intros o. unfold frow. destruct (N.eqb (o_st o) 1); [reflexivity|].
  destruct (N.eqb (o_st o) 2); [|reflexivity]. destruct (assoc (o_id o) (rows s)); reflexivity. Qed.

Lemma upd_row_fk s o w r : NoDup (map fst (o_par o)) -> NoDup (map fst (w_fk w)) ->
  assoc r (w_fk (upd_row s o w)) =
  if memN r (o_pd o) then assoc r (fk_of s (o_par o))
  else match assoc r (w_fk w) with Some p => if N.eqb (st_of s p) 3 then None else Some p | None => None end.
Proof. intros N1 N2. unfold upd_row. simpl. rewrite assoc_app.
  rewrite (assoc_filter _ r (fk_of s (o_par o))) by (apply nodup_filter_keys, N1).
  rewrite (assoc_filter _ r (w_fk w)) by exact N2. simpl.
  destruct (memN r (o_pd o)); simpl;
  destruct (assoc r (fk_of s (o_par o))); destruct (assoc r (w_fk w)) as [p|]; try reflexivity; destruct (N.eqb (st_of s p) 3); reflexivity. Qed.

Lemma upd_row_nodup s o w : NoDup (map fst (o_par o)) -> NoDup (map fst (w_fk w)) -> NoDup (map fst (w_fk (upd_row s o w))).
Proof. intros N1 N2. unfold upd_row. simpl. rewrite map_app. apply NoDup_app_intro.
  - apply nodup_filter_keys, nodup_filter_keys, N1.
  - apply nodup_filter_keys, N2.
  - intros k X Y. apply in_map_iff in X. destruct X as [e [E X]]. apply filter_In in X. destruct X as [_ X].
    apply in_map_iff in Y. destruct Y as [e' [E' Y]]. apply filter_In in Y. destruct Y as [_ Y].
    apply andb_true_iff in Y. destruct Y as [Y _]. rewrite E in X. rewrite E' in Y. rewrite X in Y. discriminate. Qed.

Theorem flush_spec s : Inv s ->
  (forall i, row_equiv (assoc i (rows (flush s))) (spec_row (flush s) i)) /\
  (forall x, In x (secs (flush s)) <-> In x (pairs (flush s))).
Proof.
  intros Hi. split.
  - intros i. change (rows (flush s)) with (flush_rows s). rewrite (flush_rows_assoc s i (i_nodup _ Hi)).
    unfold spec_row. rewrite get_obj_flush. pose proof (i_rows _ Hi i) as R. unfold rows_ok in R.
    destruct (get_obj s i) as [o|] eqn:G; [|exact I]. apply get_obj_in in G. destruct G as [G1 G2].
    pose proof (i_st _ Hi o G1) as L3. destruct (i_par _ Hi o G1) as [P1 P2].
    simpl. rewrite (live_newst _ L3). unfold frow. unfold live.
    destruct (N.eqb (o_st o) 1) eqn:S1; simpl.
    + split; [reflexivity|]. split; [reflexivity|]. intros r. rewrite (fk_of_flush s _ Hi). reflexivity.
    + destruct (N.eqb (o_st o) 2) eqn:S2; simpl.
      * unfold hasrow in R. rewrite S2 in R. simpl in R. destruct R as [w [R1 [A [B [C D]]]]]. rewrite <- G2 in R1. rewrite R1.
        split; [exact A|]. split.
        -- simpl. destruct (o_dd o) eqn:Dd; [reflexivity|apply C; reflexivity].
        -- intros r. cbn [w_fk]. rewrite (upd_row_fk s o w r P1 B). rewrite (fk_of_flush s _ Hi).
           destruct (memN r (o_pd o)) eqn:M; [reflexivity|]. rewrite (D r M). unfold fkrow, fk_of.
           rewrite !assoc_filter by exact P1. destruct (assoc r (o_par o)) as [p|] eqn:Ap; [|reflexivity]. simpl.
           destruct (P2 r p (assoc_in _ _ _ Ap)) as [_ Q]. specialize (Q M).
           pose proof (st_le3 s p Hi) as Lp. unfold hasrow, live.
           destruct (N.eqb (st_of s p) 2) eqn:E2; simpl.
           { apply N.eqb_eq in E2. rewrite E2. simpl. reflexivity. }
           destruct (N.eqb (st_of s p) 3) eqn:E3; simpl.
           { apply N.eqb_eq in E3. rewrite E3. simpl. reflexivity. }
           destruct (N.eqb (st_of s p) 1) eqn:E1; [apply N.eqb_eq in E1; contradiction|reflexivity].
      * exact I.
  - intros x. simpl. rewrite in_app_iff, !filter_In. rewrite (i_s1 _ Hi). split.
    + intros [[X Y]|[X Y]]; [split; [apply (i_s2 _ Hi), X|exact Y]|].
      apply andb_true_iff in Y. destruct Y as [Y1 Y2]. apply negb_true_iff, mem3_false in Y1.
      destruct X as [[X _]|X]; [split; assumption|contradiction].
    + intros [X Y]. destruct (mem3 x (padd s)) eqn:M; [left; split; [apply mem3_In, M|exact Y]|].
      right. apply mem3_false in M. split; [left; split; assumption|]. apply andb_true_iff. split; [|exact Y].
      apply negb_true_iff, mem3_false. intros Z. apply (i_s3 _ Hi x Z), X.
Qed.

Lemma row_equiv_some a w' : row_equiv a (Some w') -> exists w, a = Some w /\ w_cls w = w_cls w' /\ w_data w = w_data w' /\
  forall r, assoc r (w_fk w) = assoc r (w_fk w').
Proof. destruct a as [w|]; simpl; [|contradiction]. intros H. exists w. tauto. Qed.

Lemma inv_flush s : Inv s -> Inv (flush s).
Proof.
  intros Hi. destruct (flush_spec s Hi) as [F1 F2].
  assert (Hst : forall p, st_of (flush s) p <> 1).
  { intros p. rewrite st_of_flush. pose proof (st_le3 s p Hi) as L.
    assert (X : st_of s p = 0 \/ st_of s p = 1 \/ st_of s p = 2 \/ st_of s p = 3) by lia.
    destruct X as [->|[->|[->| ->]]]; discriminate. }
  constructor.
  - rewrite flush_objs, map_map. simpl. apply (i_nodup _ Hi).
  - intros o Ho. rewrite flush_objs in Ho. apply in_map_iff in Ho. destruct Ho as [o0 [<- Ho]]. simpl.
    pose proof (i_st _ Hi o0 Ho). unfold newst. destruct (N.eqb (o_st o0) 1); [lia|]. destruct (N.eqb (o_st o0) 3); lia.
  - intros o Ho. rewrite flush_objs in Ho. apply in_map_iff in Ho. destruct Ho as [o0 [<- Ho]].
    destruct (i_par _ Hi o0 Ho) as [P1 P2]. split; [exact P1|]. simpl. intros r p Hrp. destruct (P2 r p Hrp) as [A _]. split.
    + rewrite get_obj_flush. destruct (get_obj s p); [discriminate|exact A].
    + intros _. apply Hst.
  - intros i. unfold rows_ok. specialize (F1 i). unfold spec_row in F1. rewrite get_obj_flush in *.
    remember (assoc i (rows (flush s))) as ai eqn:Eai.
    destruct (get_obj s i) as [o|] eqn:G.
    + apply get_obj_in in G. destruct G as [G1 G2]. pose proof (i_st _ Hi o G1) as L3. destruct (i_par _ Hi o G1) as [P1 P2].
      simpl in *. rewrite (hasrow_newst _ L3). rewrite (live_newst _ L3) in F1. destruct (live (o_st o)) eqn:Lv.
      * apply row_equiv_some in F1. destruct F1 as [w [E [A [B C]]]]. simpl in A, B, C. exists w. split; [exact E|]. rewrite E in Eai. symmetry in Eai. clear E. rename Eai into E.
        split; [exact A|]. split.
        -- (* unique columns *)
           change (rows (flush s)) with (flush_rows s) in E. rewrite (flush_rows_assoc s i (i_nodup _ Hi)) in E.
           assert (G' : get_obj s i = Some o) by (rewrite <- G2; apply get_obj_nodup; [apply (i_nodup _ Hi)|exact G1]).
           rewrite G' in E. unfold frow in E. destruct (N.eqb (o_st o) 1).
           ++ inversion E; subst w. simpl. apply nodup_filter_keys, P1.
           ++ destruct (N.eqb (o_st o) 2) eqn:S2; [|discriminate]. pose proof (i_rows _ Hi i) as R. unfold rows_ok in R. rewrite G' in R.
              unfold hasrow in R. rewrite S2 in R. simpl in R. destruct R as [w0 [R1 [_ [RB _]]]]. rewrite G2, R1 in E. inversion E; subst w.
              apply upd_row_nodup; assumption.
        -- split; [intros _; exact B|]. intros r _. simpl. rewrite C. unfold fkrow, fk_of. f_equal. apply filter_ext. intros e.
           rewrite st_of_flush. pose proof (st_le3 s (snd e) Hi) as Le. rewrite (hasrow_newst _ Le), (live_newst _ Le). reflexivity.
      * destruct ai; [contradiction|reflexivity].
    + destruct ai; [contradiction|reflexivity].
  - intros x. rewrite F2. simpl. tauto.
  - intros x [].
  - intros x [].
Qed.

(* ---------------------------------------------------------------- all histories *)
Lemma inv_apply1 rs s o : Inv s -> Inv (apply1 rs s o).
Proof. intros Hi. destruct o; try (apply inv_step; exact Hi). apply inv_flush, Hi. Qed.

Theorem inv_history rs : forall h s, Inv s -> Inv (apply rs s h).
Proof. induction h as [|o h IH]; intros s Hi; [exact Hi|]. simpl. apply IH, inv_apply1, Hi. Qed.

Lemma assoc_rows_of_graph s i : NoDup (map o_id (objs s)) -> assoc i (rows_of_graph s) = spec_row s i.
Proof. intros Hn. unfold rows_of_graph. rewrite (assoc_flat_map (objs s) (fun o => spec_row s (o_id o)) i Hn).
  destruct (find (fun o => N.eqb (o_id o) i) (objs s)) as [o|] eqn:F.
  - apply find_some in F. destruct F as [_ F]. apply N.eqb_eq in F. rewrite F. reflexivity.
  - unfold spec_row, get_obj. rewrite F. reflexivity. Qed.

(* the database after a flush at the end of ANY operation history is the rows of the object graph *)
Theorem flush_writes_graph_main : forall rs h,
  let s := flush (apply rs empty h) in
  (forall i, row_equiv (assoc i (rows s)) (assoc i (rows_of_graph s))) /\
  (forall x, In x (secs s) <-> In x (pairs s)).
Proof. intros rs h s. pose proof (inv_history rs h empty inv_empty) as Hi. destruct (flush_spec _ Hi) as [F1 F2].
  split; [|exact F2]. intros i. rewrite assoc_rows_of_graph; [apply F1|]. apply (i_nodup _ (inv_flush _ Hi)). Qed.

(* loading the rows of a graph into a fresh session gives that graph back *)
Theorem reload_equiv_main : forall s, NoDup (map o_id (objs s)) -> load (rows_of_graph s) = graph_of s.
Proof. intros s Hn. unfold load, rows_of_graph, graph_of.
  assert (H : forall l, (forall o, In o l -> get_obj s (o_id o) = Some o) ->
    map (fun e : N * row => (fst e, w_cls (snd e), w_data (snd e), w_fk (snd e)))
        (flat_map (fun o => match spec_row s (o_id o) with Some w => [(o_id o, w)] | None => [] end) l) =
    flat_map (fun o => if live (o_st o) then [(o_id o, o_cls o, o_data o, fk_of s (o_par o))] else []) l).
  { induction l as [|o l IH]; intros Hl; [reflexivity|]. simpl. rewrite map_app, IH by (intros o' Ho'; apply Hl; right; exact Ho').
    f_equal. unfold spec_row. rewrite (Hl o (or_introl eq_refl)). destruct (live (o_st o)); reflexivity. }
  apply H. intros o Ho. apply get_obj_nodup; assumption. Qed.
