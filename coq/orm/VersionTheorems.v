(* C44: the three clauses of the property, for every reachable state of every history *)
From Coq Require Import List ZArith NArith Bool Arith Lia.
Import ListNotations.
From SAV.orm Require Import Version VersionBase VersionStmts VersionInv VersionFlush VersionStep.
Open Scope Z_scope.

(* session i is about to write row k from a loaded version that is not the current one *)
Definition stale_upd (s : state) (i : nat) : Prop :=
  exists k e, In (k, e) (sents (sget i (sss s))) /\ is_upd e = true /\ matches (cur_rows (sdb s) i) k (ev e) = false.
Definition stale_del (s : state) (i : nat) : Prop :=
  exists k e, In (k, e) (sents (sget i (sss s))) /\ edel e = true /\ matches (cur_rows (sdb s) i) k (ev e) = false.
Definition n_dels (s : state) (i : nat) : nat := length (dels (sents (sget i (sss s)))).
Definition is_flush (o : op) : Prop := o = Flush \/ o = Commit.
(* rows in which the effect of a successful flush / commit of session i is visible *)
Definition after_rows (o : op) (s' : state) (i : nat) : rows :=
  match o with Commit => com (sdb s') | _ => cur_rows (sdb s') i end.

Lemma rolled_back_facts : forall s i,
  com (sdb (rolled_back s i)) = com (sdb s) /\ gen (sdb (rolled_back s i)) = gen (sdb s) /\
  writer_is (sdb (rolled_back s i)) i = None /\
  sget i (sss (rolled_back s i)) = empty_sess /\
  (forall j, j <> i -> sget j (sss (rolled_back s i)) = sget j (sss s) /\
                       writer_is (sdb (rolled_back s i)) j = writer_is (sdb s) j).
Proof.
  intros s i. unfold rolled_back. cbn [sdb sss]. unfold end_txn, writer_is.
  destruct (wr (sdb s)) as [[[j0 w] b]|] eqn:W.
  - destruct (Nat.eqb_spec j0 i) as [->|N]; cbn [andb com gen wr].
    + repeat split; try reflexivity; try (apply sget_sput_same); try (apply sget_sput_other; assumption).
      destruct (Nat.eqb_spec i j); [congruence|reflexivity].
    + rewrite W. destruct (Nat.eqb_spec j0 i); [contradiction|].
      repeat split; try reflexivity; try (apply sget_sput_same); try (apply sget_sput_other; assumption).
  - rewrite W. repeat split; try reflexivity; try (apply sget_sput_same); try (apply sget_sput_other; assumption).
Qed.

Section P.
Variables (server sane_multi : bool) (eoc : nat -> bool) (g : Z -> Z).
Notation stepT := (step server true sane_multi eoc g).
Notation flushT := (flush server true sane_multi g).
Notation del_checkT := (del_check true sane_multi).

Lemma step_flush : forall i o s, is_flush o -> snd (flushT i s) <> ROk -> stepT i o s = flushT i s.
Proof.
  intros i o s [-> | ->] H; cbn [step]; [reflexivity|]. destruct (flushT i s) as [s1 r]. cbn [snd] in H.
  destruct r; try reflexivity. contradiction.
Qed.

(* clause 1: a flush (or commit) from a stale version fails, and the failure discards everything *)
Theorem stale_flush_fails : forall i o s, Inv s -> is_flush o ->
  stale_upd s i \/ (stale_del s i /\ del_checkT (n_dels s i) = true) ->
  (snd (stepT i o s) = RStale \/ snd (stepT i o s) = RBusy) /\
  (begin_write (sdb s) i (snap (sget i (sss s))) <> None -> snd (stepT i o s) = RStale) /\
  fst (stepT i o s) = rolled_back s i.
Proof.
  intros i o s HI Ho Hst. pose proof (proj2 HI i) as [S1 _]. pose proof (sorted_distinct _ S1) as D.
  pose proof (flush_flush_out server sane_multi g i s S1) as HF.
  assert (HX : (snd (flushT i s) = RStale \/ snd (flushT i s) = RBusy) /\
               (begin_write (sdb s) i (snap (sget i (sss s))) <> None -> snd (flushT i s) = RStale) /\
               fst (flushT i s) = rolled_back s i).
  { destruct (flushT i s) as [s1 r]. cbn [fst snd] in *.
    destruct HF as [Hn|Hn B|dirty Hn B Nu|dirty Hn B Eu Dc Nd|dirty dirty' Hn B Eu Ed Hdirty].
    - exfalso. apply nothing_true in Hn. destruct Hn as [Hu Hd].
      destruct Hst as [[k [e [Hin [Hup _]]]]|[[k [e [Hin [Hde _]]]] _]].
      + assert (X : In (k, e) (upds (sents (sget i (sss s))))) by (apply filter_In; split; assumption). rewrite Hu in X. destruct X.
      + assert (X : In (k, e) (dels (sents (sget i (sss s))))) by (apply filter_In; split; assumption). rewrite Hd in X. destruct X.
    - split; [right; reflexivity|]. split; [intros X; contradiction|reflexivity].
    - split; [left; reflexivity|]. split; reflexivity.
    - split; [left; reflexivity|]. split; reflexivity.
    - exfalso. destruct Hst as [[k [e [Hin [Hup M]]]]|[[k [e [Hin [Hde M]]]] Dc]].
      + assert (X : In (k, e) (upds (sents (sget i (sss s))))) by (apply filter_In; split; assumption).
        rewrite (mcount_full _ _ Eu k e X) in M. discriminate.
      + unfold n_dels in Dc. destruct Ed as [Ed|Ed]; [congruence|].
        assert (X : In (k, e) (dels (sents (sget i (sss s))))) by (apply filter_In; split; assumption).
        rewrite (mcount_full _ _ Ed k e X) in M. discriminate. }
  rewrite (step_flush i o s Ho); [exact HX|]. destruct HX as [[E|E] _]; rewrite E; discriminate.
Qed.

Hypothesis Hg : forall v, v < g v.

(* clause 2 (history form): committed versions never go backwards, no row is re-created, and two
   committed states of a row with the same version have the same content *)
Lemma flush_com : forall i s, sorted (sents (sget i (sss s))) ->
  com (sdb (fst (flushT i s))) = com (sdb s) /\ gen (sdb (fst (flushT i s))) = gen (sdb s).
Proof.
  intros i s S1. pose proof (flush_flush_out server sane_multi g i s S1) as HF.
  destruct (flushT i s) as [s1 r]. cbn [fst snd] in *.
  destruct HF; try (split; reflexivity); destruct (rolled_back_facts s i) as [A [B _]]; split; assumption.
Qed.

Lemma step_com_le : forall i o s, Inv s -> rows_le (com (sdb s)) (com (sdb (fst (stepT i o s)))).
Proof.
  intros i o s HI. destruct o as [k|k c p|k| | |]; cbn [step].
  - pose proof (load_inv i k s HI) as [_ [E _]]. destruct (load i k s) as [s1 r]. cbn [fst] in *. rewrite E. apply rows_le_refl.
  - pose proof (load_inv i k s HI) as [_ [E _]]. destruct (load i k s) as [s1 [e|]]; cbn [fst sdb] in *; rewrite E; apply rows_le_refl.
  - pose proof (load_inv i k s HI) as [_ [E _]]. destruct (load i k s) as [s1 [e|]]; cbn [fst sdb] in *; rewrite E; apply rows_le_refl.
  - rewrite (proj1 (flush_com i s (proj1 (proj2 HI i)))). apply rows_le_refl.
  - pose proof (flush_com i s (proj1 (proj2 HI i))) as [E _]. pose proof (flush_inv server sane_multi g Hg i s HI) as H1.
    destruct (flushT i s) as [s1 r]. cbn [fst] in *.
    destruct r; cbn [fst sdb]; try (rewrite E; apply rows_le_refl).
    rewrite <- E. unfold end_txn. pose proof (proj1 H1) as Hd. unfold db_ok in Hd.
    destruct (wr (sdb s1)) as [[[j w] b]|]; [|apply rows_le_refl].
    destruct (Nat.eqb j i); [|apply rows_le_refl]. destruct b; cbn [andb com]; [apply Hd|apply rows_le_refl].
  - destruct (stx (sget i (sss s))); cbn [fst]; [|apply rows_le_refl].
    rewrite (proj1 (rolled_back_facts s i)). apply rows_le_refl.
Qed.

Theorem versions_monotone : forall l s, Inv s -> rows_le (com (sdb s)) (com (sdb (run server true sane_multi eoc g l s))).
Proof.
  induction l as [|[i o] t IH]; intros s HI; cbn [run]; [apply rows_le_refl|].
  eapply rows_le_trans; [apply step_com_le, HI|]. apply IH. apply (step_inv server sane_multi eoc g Hg), HI.
Qed.

(* clause 3 (and clause 2, step form): every UPDATE / DELETE of a successful flush hit exactly the row
   - content and version - the session had loaded; the UPDATE left version g(loaded) > loaded *)
Lemma com_end_commit : forall d i w b, db_ok d -> wr d = Some (i, w, b) -> com (end_txn d i true) = w.
Proof.
  intros d i w b Hd W. unfold end_txn. unfold db_ok in Hd. rewrite W in *. rewrite Nat.eqb_refl.
  destruct b; cbn [andb com]; [reflexivity|]. symmetry. apply Hd. reflexivity.
Qed.

Lemma row_eq : forall (b : row) x v, rv b = v -> rx b = x -> b = {| rx := x; rv := v |}.
Proof. intros [x0 v0] x v. cbn. intros -> ->. reflexivity. Qed.

Theorem no_lost_update : forall i o s, Inv s -> is_flush o -> snd (stepT i o s) = ROk ->
  forall k e, In (k, e) (sents (sget i (sss s))) ->
  (is_upd e = true ->
     lookup k (cur_rows (sdb s) i) = Some {| rx := ex e; rv := ev e |} /\
     lookup k (after_rows o (fst (stepT i o s)) i) = Some {| rx := pend_of e; rv := g (ev e) |} /\ ev e < g (ev e)) /\
  (edel e = true -> del_checkT (n_dels s i) = true ->
     lookup k (cur_rows (sdb s) i) = Some {| rx := ex e; rv := ev e |} /\
     lookup k (after_rows o (fst (stepT i o s)) i) = None).
Proof.
  intros i o s HI Ho Hr k e Hin. pose proof (proj2 HI i) as [S1 [S2 _]]. pose proof (sorted_distinct _ S1) as D.
  pose proof (flush_flush_out server sane_multi g i s S1) as HF.
  pose proof (flush_inv server sane_multi g Hg i s HI) as HI1.
  (* the flush part *)
  assert (HX : snd (flushT i s) = ROk /\
    ((is_upd e = true \/ edel e = true) ->
       exists dirty, wr (sdb (fst (flushT i s))) =
         Some (i, fst (run_deletes (fst (run_updates g (cur_rows (sdb s) i) (upds (sents (sget i (sss s))))))
                                   (dels (sents (sget i (sss s))))), dirty)) /\
    (is_upd e = true -> matches (cur_rows (sdb s) i) k (ev e) = true) /\
    (edel e = true -> del_checkT (n_dels s i) = true -> matches (cur_rows (sdb s) i) k (ev e) = true)).
  { destruct Ho as [-> | ->]; cbn [step] in Hr.
    - split; [exact Hr|]. destruct (flushT i s) as [s1 r]. cbn [fst snd] in *. subst r.
      inversion HF as [Hn E1|Hn B|dirty Hn B Nu|dirty Hn B Eu Dc Nd|dirty dirty' Hn B Eu Ed Hdirty E1].
      + apply nothing_true in Hn. destruct Hn as [Hu Hd]. split; [|split].
        * intros [Hup|Hde]; exfalso.
          -- assert (X : In (k, e) (upds (sents (sget i (sss s))))) by (apply filter_In; split; assumption). rewrite Hu in X. destruct X.
          -- assert (X : In (k, e) (dels (sents (sget i (sss s))))) by (apply filter_In; split; assumption). rewrite Hd in X. destruct X.
        * intros Hup. exfalso.
          assert (X : In (k, e) (upds (sents (sget i (sss s))))) by (apply filter_In; split; assumption). rewrite Hu in X. destruct X.
        * intros Hde. exfalso.
          assert (X : In (k, e) (dels (sents (sget i (sss s))))) by (apply filter_In; split; assumption). rewrite Hd in X. destruct X.
      + split; [|split].
        * intros _. exists dirty'. reflexivity.
        * intros Hup. apply (mcount_full _ _ Eu k e). apply filter_In. split; assumption.
        * intros Hde Dc. unfold n_dels in Dc. destruct Ed as [Ed|Ed]; [congruence|].
          apply (mcount_full _ _ Ed k e). apply filter_In. split; assumption.
    - destruct (flushT i s) as [s1 r] eqn:F. cbn [fst snd] in *.
      destruct r; cbn [snd] in Hr; try discriminate. split; [reflexivity|].
      inversion HF as [Hn E1|Hn B|dirty Hn B Nu|dirty Hn B Eu Dc Nd|dirty dirty' Hn B Eu Ed Hdirty E1].
      + apply nothing_true in Hn. destruct Hn as [Hu Hd]. split; [|split].
        * intros [Hup|Hde]; exfalso.
          -- assert (X : In (k, e) (upds (sents (sget i (sss s))))) by (apply filter_In; split; assumption). rewrite Hu in X. destruct X.
          -- assert (X : In (k, e) (dels (sents (sget i (sss s))))) by (apply filter_In; split; assumption). rewrite Hd in X. destruct X.
        * intros Hup. exfalso.
          assert (X : In (k, e) (upds (sents (sget i (sss s))))) by (apply filter_In; split; assumption). rewrite Hu in X. destruct X.
        * intros Hde. exfalso.
          assert (X : In (k, e) (dels (sents (sget i (sss s))))) by (apply filter_In; split; assumption). rewrite Hd in X. destruct X.
      + split; [|split].
        * intros _. exists dirty'. reflexivity.
        * intros Hup. apply (mcount_full _ _ Eu k e). apply filter_In. split; assumption.
        * intros Hde Dc. unfold n_dels in Dc. destruct Ed as [Ed|Ed]; [congruence|].
          apply (mcount_full _ _ Ed k e). apply filter_In. split; assumption. }
  destruct HX as [Hok [Hwr [Mu Md]]].
  (* rows in which the effect is visible *)
  assert (HA : (is_upd e = true \/ edel e = true) ->
    after_rows o (fst (stepT i o s)) i =
      fst (run_deletes (fst (run_updates g (cur_rows (sdb s) i) (upds (sents (sget i (sss s))))))
                       (dels (sents (sget i (sss s)))))).
  { intros H. destruct (Hwr H) as [dirty W]. destruct Ho as [-> | ->]; cbn [step after_rows].
    - unfold cur_rows at 1, writer_is. rewrite W. rewrite Nat.eqb_refl. reflexivity.
    - destruct (flushT i s) as [s1 r]. cbn [fst snd] in *. subst r. cbn [fst sdb].
      apply (com_end_commit _ _ _ dirty); [apply HI1|exact W]. }
  assert (HB : matches (cur_rows (sdb s) i) k (ev e) = true -> lookup k (cur_rows (sdb s) i) = Some {| rx := ex e; rv := ev e |}).
  { unfold matches. intros M. destruct (lookup k (cur_rows (sdb s) i)) as [b|] eqn:L; [|discriminate].
    apply Z.eqb_eq in M. f_equal. apply row_eq; [exact M|].
    destruct (S2 k e b Hin L) as [_ E]. symmetry. apply E. symmetry. exact M. }
  split.
  - intros Hup. split; [apply HB, Mu, Hup|]. split; [|apply Hg].
    rewrite HA by (left; exact Hup). apply (flush_rows_upd g); [exact D|exact Hin|exact Hup|apply Mu, Hup].
  - intros Hde Dc. split; [apply HB, Md; assumption|].
    rewrite HA by (right; exact Hde). apply (flush_rows_del g _ _ k e); [exact D|exact Hin|exact Hde|apply Md; assumption].
Qed.

(* a step of session i leaves every other session's instances and snapshot alone *)
Theorem step_other_sessions : forall i o s j, j <> i -> sorted (sents (sget i (sss s))) ->
  sget j (sss (fst (stepT i o s))) = sget j (sss s).
Proof.
  intros i o s j N S1.
  assert (HFl : sget j (sss (fst (flushT i s))) = sget j (sss s)).
  { pose proof (flush_flush_out server sane_multi g i s S1) as HF. destruct (flushT i s) as [s1 r]. cbn [fst snd] in *.
    destruct HF; try (apply (proj1 (proj2 (proj2 (proj2 (proj2 (rolled_back_facts s i)))) j N)));
      unfold flush_noop, flush_done; cbn [sss]; apply sget_sput_other, N. }
  destruct o as [k|k c p|k| | |]; cbn [step].
  - unfold load. destruct (lookup k _); [reflexivity|]. destruct (view _ _ _) as [vw sn]. destruct (lookup k vw); cbn [fst sss]; apply sget_sput_other, N.
  - unfold load. destruct (lookup k (sents (sget i (sss s)))) eqn:L; cbn [fst sss].
    + apply sget_sput_other, N.
    + destruct (view _ _ _) as [vw sn]. destruct (lookup k vw); cbn [fst sss]; rewrite ?sget_sput_other by exact N; reflexivity.
  - unfold load. destruct (lookup k (sents (sget i (sss s)))) eqn:L; cbn [fst sss].
    + apply sget_sput_other, N.
    + destruct (view _ _ _) as [vw sn]. destruct (lookup k vw); cbn [fst sss]; rewrite ?sget_sput_other by exact N; reflexivity.
  - exact HFl.
  - destruct (flushT i s) as [s1 r]. cbn [fst] in *. destruct r; cbn [fst sss]; try exact HFl.
    rewrite sget_sput_other by exact N. exact HFl.
  - destruct (stx _); cbn [fst]; [|reflexivity]. apply (proj1 (proj2 (proj2 (proj2 (proj2 (rolled_back_facts s i)))) j N)).
Qed.
End P.
