(* C33 - the invariant under single-object updates and under the object operations. *)
From Coq Require Import List ZArith Bool Arith Lia.
Import ListNotations.
From SAV.orm Require Import SessTxn SessTxnBase SessTxnSpec SessTxnInv.
Open Scope nat_scope.

(* same identity: key, attachment, deleted flag, identity-map membership *)
Definition same_id (x y : obj) : Prop :=
  okey x = okey y /\ oatt x = oatt y /\ odelf x = odelf y /\ oin x = oin y.
Lemma same_id_refl : forall x, same_id x x.
Proof. intros; repeat split. Qed.

Lemma Good_upd : forall ob n W sn sd o x, Good ob n W sn sd -> same_id x (ob o) ->
  (oin (ob o) = true -> forall k v, okey (ob o) = Some k -> W k = Some v -> VA x k v) ->
  (okey x <> None -> oatt x = true -> odelf x = true -> odv x <> None /\ odid x <> None) ->
  Good (updN ob o x) n W sn sd.
Proof.
  intros ob n W sn sd o x G [I1 [I2 [I3 I4]]] Hva Hdv.
  assert (U : forall o', (okey (updN ob o x o') = okey (ob o') /\ oatt (updN ob o x o') = oatt (ob o') /\
                          odelf (updN ob o x o') = odelf (ob o') /\ oin (updN ob o x o') = oin (ob o'))).
  { intros o'. unfold updN. destruct (Nat.eqb_spec o' o); subst; auto. }
  constructor.
  - intros o' H. destruct (U o') as [A [B [C D]]]. rewrite D in H. rewrite A, B, C. eapply g_in; eauto.
  - intros o1 o2 k H1 H2 K1 K2. destruct (U o1) as [A1 [_ [_ D1]]], (U o2) as [A2 [_ [_ D2]]].
    rewrite D1 in H1. rewrite D2 in H2. rewrite A1 in K1. rewrite A2 in K2. eapply g_uniq; eauto.
  - intros o' k Hn K A D. destruct (U o') as [A1 [B1 [C1 D1]]]. rewrite D1. rewrite A1 in K. rewrite B1 in A. rewrite C1 in D.
    eapply g_pers; eauto.
  - intros o' k H K. destruct (U o') as [A1 [B1 [C1 D1]]]. rewrite D1 in H. rewrite A1 in K.
    destruct (g_rows _ _ _ _ _ G o' k H K) as [v [Hw Hv]]. exists v. split; auto.
    unfold updN. destruct (Nat.eqb_spec o' o); subst; auto.
  - intros o'. destruct (U o') as [A1 [B1 _]]. rewrite A1, B1. apply (g_new _ _ _ _ _ G).
  - intros o' H K. destruct (U o') as [A1 [_ [C1 _]]]. rewrite C1. rewrite A1 in K. eapply g_newd; eauto.
  - intros o' H. destruct (U o') as [_ [_ [_ D1]]]. rewrite D1. eapply g_del; eauto.
  - apply (g_nodup _ _ _ _ _ G).
  - intros o' k Hn K A D. destruct (U o') as [A1 [B1 [C1 D1]]]. rewrite A1 in K. rewrite B1 in A. rewrite C1 in D.
    destruct (g_dels _ _ _ _ _ G o' k Hn K A D) as [H|[o'' [H1 H2]]]; auto.
    right. exists o''. destruct (U o'') as [A2 [_ [_ D2]]]. rewrite A2, D2. auto.
  - intros o' Hn K A D. unfold updN in *. destruct (Nat.eqb_spec o' o); subst; auto.
    eapply g_delv; eauto.
Qed.

(* Rel depends on the frame only through its four collections *)
Lemma Rel_frame_ext : forall g f f' ob n sn sd W,
  fnew f' = fnew f -> fdel f' = fdel f -> fdirty f' = fdirty f -> fks f' = fks f ->
  Rel g f ob n sn sd W -> Rel g f' ob n sn sd W.
Proof.
  intros g f f' ob n sn sd W E1 E2 E3 E4 R. destruct R.
  constructor; unfold expunged, pkey, pdelf in *; rewrite ?E1, ?E2, ?E3, ?E4; auto.
Qed.

(* a keyed object that was outside the identity map when the frame began is outside it now *)
(* an attached object that was outside the identity map when the frame began (deleted state) is outside it now *)
Lemma Rel_notin : forall g f ob n sn sd W o, GClean g -> Good ob n W sn sd -> Rel g f ob n sn sd W ->
  o < gn g -> oatt (gobjs g o) = true -> oin (gobjs g o) = false -> oin (ob o) = false.
Proof.
  intros g f ob n sn sd W o [GG _] G R Ho Hk Hi.
  destruct (oin (ob o)) eqn:E; auto. exfalso.
  destruct (expunged f sn o) eqn:Ee.
  - pose proof (r_exp _ _ _ _ _ _ _ R o Ho Ee). congruence.
  - destruct (r_id _ _ _ _ _ _ _ R o Ho Ee) as [A B].
    destruct (g_in _ _ _ _ _ G o E) as [_ [Ha [Hd Hkk]]].
    destruct (B Hk) as [B1 C].
    assert (Hd' : odelf (gobjs g o) = false).
    { rewrite <- C. unfold pdelf. destruct (_ || _); auto. }
    destruct (okey (gobjs g o)) as [k|] eqn:Ek.
    + rewrite (g_pers _ _ _ _ _ GG o k Ho Ek) in Hi; congruence.
    + assert (In o []); [|auto]. apply (g_new _ _ _ _ _ GG). auto.
Qed.

Lemma Rel_upd : forall g f ob n sn sd W o x, GClean g -> Good ob n W sn sd -> Rel g f ob n sn sd W ->
  same_id x (ob o) ->
  (oin (ob o) = true \/ omod x = true \/ (odid x = odid (ob o) /\ odv x = odv (ob o) /\ omod x = omod (ob o))) ->
  Rel g f (updN ob o x) n sn sd W.
Proof.
  intros g f ob n sn sd W o x GC G R [I1 [I2 [I3 I4]]] Hv.
  assert (U : forall o', (okey (updN ob o x o') = okey (ob o') /\ oatt (updN ob o x o') = oatt (ob o') /\
                          odelf (updN ob o x o') = odelf (ob o') /\ oin (updN ob o x o') = oin (ob o'))).
  { intros o'. unfold updN. destruct (Nat.eqb_spec o' o); subst; auto. }
  pose proof R as R0.
  destruct R as [r_n0 r_exp0 r_id0 r_fresh0 r_row0 r_delv0 r_ks0 r_del0 r_lists0 r_ksu0 r_dirty0 r_keep0]. constructor; auto.
  - intros o' Ho He. destruct (r_id0 o' Ho He) as [A B]. destruct (U o') as [A1 [B1 [C1 D1]]].
    unfold pkey, pdelf in *. rewrite A1, B1, C1. auto.
  - intros o' H1 H2. destruct (U o') as [A1 [B1 [C1 D1]]]. rewrite B1, D1. auto.
  - intros o' k v Ho He Hd Hdi Hm Hk Hw. unfold updN in *. destruct (Nat.eqb_spec o' o); [subst o'|eauto].
    destruct (r_del0 o Hd) as [_ [Hin _]].
    destruct Hv as [Hv|[Hv|[V1 [V2 V3]]]]; [congruence|congruence|].
    rewrite V1, V2. rewrite V3 in Hm. eauto.
  - intros o' old new H. destruct (r_ks0 o' old new H) as [A [B [C D]]]. destruct (U o') as [A1 [B1 _]].
    rewrite A1, B1. auto.
  - intros o' H. destruct (r_del0 o' H) as [A [B C]]. destruct (U o') as [A1 [B1 [C1 D1]]].
    rewrite A1, B1, C1, D1. auto.
  - intros o' Ho Hk Hi Hm. unfold updN in *. destruct (Nat.eqb_spec o' o); [subst o'|eauto].
    destruct Hv as [Hv|[Hv|[V1 [V2 V3]]]].
    + pose proof (Rel_notin g f ob n sn sd W o GC G R0 Ho Hk Hi). congruence.
    + congruence.
    + rewrite V1, V2. rewrite V3 in Hm. eauto.
Qed.

Lemma J_upd : forall ob n o x, J ob n ->
  ((odv x = None -> odid x = None) /\ (ocid x <> None -> odid x <> None) /\ (omod x = false -> ocid x = None /\ ocv x = None)) ->
  J (updN ob o x) n.
Proof.
  intros ob n o x Hj Hx o' Ho. unfold updN. destruct (Nat.eqb_spec o' o); subst; auto.
Qed.
