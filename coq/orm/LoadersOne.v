(* C40 - one statement: its rows processed into objects are, tag group by tag group, the objects of its
   primary rows with the eager chain resolved; and which entities end up at the end of the chain. *)
From Coq Require Import List ZArith Bool Lia Sorting.Sorted.
Import ListNotations.
From SAV.orm Require Import Loaders LoadersBase LoadersJoin LoadersStmt LoadersSrc.
Open Scope Z_scope.

Definition spec_out (src : source) (path : list step) : list (option Z * graph) :=
  map (fun h => (fst h, graph_of path (snd h))) (uniq_by tagged_id (stmt_heads src)).

Lemma filter_filter_imp : forall {A} (f g : A -> bool) l, (forall x, In x l -> f x = true -> g x = true) ->
  filter f (filter g l) = filter f l.
Proof.
  induction l as [|a l IH]; intro H; cbn; auto. destruct (g a) eqn:Ga; cbn.
  - destruct (f a); rewrite IH; auto; intros; apply H; cbn; auto.
  - destruct (f a) eqn:Fa; [rewrite (H a) in Ga; cbn; auto; discriminate|]. apply IH. intros; apply H; cbn; auto.
Qed.
Lemma filter_map_swap : forall {A B} (g : A -> B) (f : B -> bool) l, filter f (map g l) = map g (filter (fun a => f (g a)) l).
Proof. induction l as [|a l IH]; cbn; auto. destruct (f (g a)); cbn; rewrite IH; auto. Qed.

Lemma tagged_id_tag : forall a b : tagged, tagged_id a = tagged_id b -> fst a = fst b.
Proof. intros a b E. apply tagged_id_inv in E. tauto. Qed.

(* a statement, observed through one tag group *)
Lemma stmt_sel : forall nestf src chain attach (g : row -> graph) t,
  nest_covers nestf -> Forall wf_step chain -> src_step_ok src ->
  (forall h, In h (stmt_heads src) -> gchain chain attach (snd h) = g (snd h)) ->
  sel t (proc chain attach (eval_stmt nestf src chain)) =
  map (fun h => g (snd h)) (filter (fun h => otag_eqb (fst h) t) (uniq_by tagged_id (stmt_heads src))).
Proof.
  intros nestf src chain attach g t NC WF OK Hg.
  destruct (eval_stmt_char nestf src chain NC WF) as [S E].
  set (rows := eval_stmt nestf src chain) in *. set (H := stmt_heads src) in *.
  set (pt := fun h : tagged => otag_eqb (fst h) t).
  set (rows_t := filter (fun j : jrow => pt (fst j)) rows).
  set (H_t := filter pt H).
  assert (Prespect : forall a b : tagged, tagged_id a = tagged_id b -> pt a = pt b).
  { intros a b Eab. unfold pt. rewrite (tagged_id_tag a b Eab). auto. }
  (* 1. selecting the tag group commutes with processing *)
  assert (C1 : sel t (proc chain attach rows) = map snd (proc chain attach rows_t)).
  { unfold sel, proc.
    rewrite (filter_map_swap (fun h : tagged => (fst h, build chain attach (snd h) (map jtail (filter (same_entity h) rows))))).
    cbn [fst]. fold pt.
    rewrite <- (uniq_by_filter tagged_id pt Prespect).
    assert (Em : filter pt (map fst rows) = map fst rows_t).
    { unfold rows_t. rewrite filter_map_swap. reflexivity. }
    rewrite Em. rewrite !map_map. cbn [snd]. apply map_ext_in. intros h Hh. f_equal. f_equal.
    unfold rows_t. symmetry. apply filter_filter_imp. intros j _ Hs. unfold same_entity in Hs. apply lz_eqb_eq in Hs.
    apply uniq_by_in in Hh. apply in_map_iff in Hh as [j' [<- Hj']]. apply filter_In in Hj' as [_ Hj'].
    rewrite <- (Prespect _ _ Hs). exact Hj'. }
  rewrite C1.
  (* 2. the tag group's rows are the ordered join of the tag group's primary rows *)
  assert (E_t : eqset rows_t (ljoin_rows chain H_t)).
  { intro j. unfold rows_t, H_t. rewrite filter_In, (E j), !ljoin_rows_in, filter_In. tauto. }
  assert (S_t : sorted (jkey (src_order src) chain) rows_t) by (apply sorted_filter; auto).
  assert (TI : tag_inj H_t).
  { intros a b Ha Hb. apply filter_In in Ha as [Ha _]. apply filter_In in Hb as [Hb _]. apply (stmt_heads_tag_inj src OK); auto. }
  assert (OKt : (src_order src <> ONone /\ sorted (hkey (src_order src)) H_t) \/ (forall a b, In a H_t -> In b H_t -> a = b)).
  { destruct (src_group_ok src OK) as [Ho|Hg'].
    - left. split; auto. apply sorted_filter. apply stmt_heads_sorted.
    - right. intros a b Ha Hb. apply filter_In in Ha as [Ha Pa]. apply filter_In in Hb as [Hb Pb].
      apply Hg'; auto using stmt_heads_base. unfold pt in *. apply otag_eqb_eq in Pa, Pb. congruence. }
  rewrite (proc_correct chain attach (src_order src) H_t rows_t WF TI OKt E_t S_t).
  rewrite map_map. cbn [snd]. unfold H_t. rewrite (uniq_by_filter tagged_id pt Prespect).
  apply map_ext_in. intros h Hh. apply filter_In in Hh as [Hh _]. apply uniq_by_in in Hh. apply Hg; auto.
Qed.

Lemma spec_out_sel : forall src path t,
  sel t (spec_out src path) =
  map (fun h => graph_of path (snd h)) (filter (fun h => otag_eqb (fst h) t) (uniq_by tagged_id (stmt_heads src))).
Proof. intros. unfold spec_out. apply (sel_map (fun h : tagged => graph_of path (snd h)) fst). Qed.

(* ---------------------------------------------------------------- the frontier *)
Definition fr_raw (chain : list step) (rows : list jrow) : list row :=
  match chain with
  | [] => map jhead rows
  | _ => somes (map (fun j => last (jtail j) None) rows)
  end.
Lemma frontier_raw : forall chain rows, frontier chain rows = uniq_by idkey (fr_raw chain rows).
Proof. intros [|c chain] rows; reflexivity. Qed.

Lemma reach_ljoin : forall chain e e', chain <> [] -> In e' (reach chain e) ->
  exists t, In t (ljoin_chain chain (Some e)) /\ last t None = Some e'.
Proof.
  induction chain as [|s rest IH]; intros e e' NE H; [contradiction|].
  cbn [reach] in H. apply in_flat_map in H as [m [Hm He']].
  destruct rest as [|s2 rest'].
  - cbn in He'. destruct He' as [<-|[]]. exists [Some m]. split; auto.
    apply ljoin_chain_cons. exists (Some m), []. split; auto. split; [apply ljoin1_some; auto|cbn; auto].
  - destruct (IH m e') as [t' [Ht' Hl]]; auto; [discriminate|].
    exists (Some m :: t'). split.
    + apply ljoin_chain_cons. exists (Some m), t'. split; auto. split; auto. apply ljoin1_some; auto.
    + destruct t' as [|x t'']; [cbn in Hl; discriminate|]. rewrite <- Hl. reflexivity.
Qed.

Lemma ljoin_reach : forall chain l t e', In t (ljoin_chain chain l) -> chain <> [] -> last t None = Some e' ->
  exists e, l = Some e /\ In e' (reach chain e).
Proof.
  induction chain as [|s rest IH]; intros l t e' Ht NE Hl; [contradiction|].
  apply ljoin_chain_cons in Ht as [m [tl [-> [Hm Htl]]]].
  destruct rest as [|s2 rest'].
  - cbn in Htl. destruct Htl as [<-|[]]. cbn in Hl. subst m. destruct l as [e|]; [|apply ljoin1_none in Hm; discriminate].
    exists e. split; auto. cbn. apply in_flat_map. exists e'. split; [apply ljoin1_some; auto|cbn; auto].
  - assert (Hl' : last tl None = Some e').
    { destruct tl as [|x tl']; [|exact Hl]. apply ljoin_chain_cons in Htl as [? [? [Ht _]]]. discriminate. }
    destruct (IH m tl e' Htl) as [e1 [-> He1]]; auto; [discriminate|].
    destruct l as [e|]; [|apply ljoin1_none in Hm; discriminate].
    exists e. split; auto. cbn [reach]. apply in_flat_map. exists e1. split; auto. apply ljoin1_some; auto.
Qed.

Lemma reach_table : forall chain e e' d, chain <> [] -> In e' (reach chain e) -> In e' (st_table (last chain d)).
Proof.
  induction chain as [|s rest IH]; intros e e' d NE H; [contradiction|].
  cbn [reach] in H. apply in_flat_map in H as [m [Hm He']]. destruct rest as [|s2 rest'].
  - cbn in *. destruct He' as [<-|[]]. eapply matches_table; eauto.
  - change (last (s :: s2 :: rest') d) with (last (s2 :: rest') d). eapply IH; eauto. discriminate.
Qed.

(* membership in the raw frontier of a statement *)
Lemma fr_raw_in : forall nestf src chain e', nest_covers nestf -> Forall wf_step chain ->
  (In e' (fr_raw chain (eval_stmt nestf src chain)) <->
   exists h, In h (stmt_heads src) /\ In e' (reach chain (snd h))).
Proof.
  intros nestf src chain e' NC WF. destruct (eval_stmt_char nestf src chain NC WF) as [_ E].
  destruct chain as [|c chain'].
  - cbn [fr_raw reach]. rewrite in_map_iff. split.
    + intros [j [<- Hj]]. apply E in Hj. apply ljoin_rows_in in Hj as [Hj _]. exists (fst j). split; auto. cbn; auto.
    + intros [h [Hh [<-|[]]]]. exists (h, []). split; auto. apply E. apply ljoin_rows_in. cbn; auto.
  - cbn [fr_raw]. rewrite somes_in, in_map_iff. split.
    + intros [j [Hl Hj]]. apply E in Hj. apply ljoin_rows_in in Hj as [Hj Ht]. exists (fst j). split; auto.
      destruct (ljoin_reach (c :: chain') _ _ e' Ht) as [e [Ee He]]; auto; [discriminate|]. inversion Ee; subst. auto.
    + intros [h [Hh Hr]]. destruct (reach_ljoin (c :: chain') (snd h) e') as [t [Ht Hl]]; auto; [discriminate|].
      exists (h, t). split; auto. apply E. apply ljoin_rows_in. cbn; auto.
Qed.

Definition level_table (src : source) (chain : list step) : list row :=
  match chain with [] => src_table src | c :: r => st_table (last r c) end.

Lemma fr_raw_table : forall nestf src chain e', nest_covers nestf -> Forall wf_step chain ->
  In e' (fr_raw chain (eval_stmt nestf src chain)) -> In e' (level_table src chain).
Proof.
  intros nestf src chain e' NC WF H. apply fr_raw_in in H as [h [Hh Hr]]; auto.
  destruct chain as [|c r]; cbn [level_table].
  - cbn in Hr. destruct Hr as [<-|[]]. apply stmt_heads_base in Hh. apply src_base_spec in Hh. tauto.
  - rewrite <- last_cons_default with (d := c). eapply reach_table; eauto. discriminate.
Qed.

Lemma level_table_wf : forall src chain, src_step_ok src -> Forall wf_step chain -> wf_table (level_table src chain).
Proof.
  intros src [|c r] OK WF; cbn [level_table]; [apply src_table_wf; auto|].
  assert (In (last r c) (c :: r)).
  { clear. revert c. induction r as [|x r IH]; intro c; [cbn; auto|]. right. rewrite last_cons_default. apply IH. }
  rewrite Forall_forall in WF. destruct (WF _ H). auto.
Qed.

Lemma frontier_in : forall nestf src chain e', nest_covers nestf -> Forall wf_step chain -> src_step_ok src ->
  (In e' (frontier chain (eval_stmt nestf src chain)) <->
   exists h, In h (stmt_heads src) /\ In e' (reach chain (snd h))).
Proof.
  intros. rewrite frontier_raw. rewrite (uniq_idkey_in (level_table src chain)).
  - apply fr_raw_in; auto.
  - apply level_table_wf; auto.
  - intros x Hx. eapply fr_raw_table; eauto.
Qed.
