(* C48 - the theorems about reachable states *)
From Coq Require Import List ZArith NArith Bool Arith Lia.
Import ListNotations.
From SAV.orm Require Import WeakRef WeakRefBase WeakRefInv WeakRefFlush WeakRefMain.

(* ---------------------------------------------------------------- start states *)
Lemma max_pk_ge : forall rows p, In p rows -> (fst p <= max_pk rows)%N.
Proof.
  induction rows as [|q rows IH]; intros p H; [destruct H|]. simpl.
  destruct H as [H|H]; [subst; lia|specialize (IH p H); lia].
Qed.
Lemma inv_start : forall rows ns, Inv (start rows ns).
Proof.
  intros rows ns. apply inv_init. intros k v H. unfold db_get in H.
  destruct (find (fun p => N.eqb (fst p) k) rows) as [p|] eqn:F; [|discriminate].
  apply find_some in F. destruct F as [F1 F2]. apply N.eqb_eq in F2. subst k.
  assert (X := max_pk_ge rows p F1). lia.
Qed.

(* ---------------------------------------------------------------- pending changes *)
(* object o belongs to the session and carries the unflushed value v for the row with primary key k *)
(* attribute val (w = false) or w (w = true) *)
Definition pval (w : bool) (ob : obj) : option Z := if w then pendw ob else pend ob.
Definition col (w : bool) (r : row) : Z := if w then snd r else fst r.
Definition pending (w : bool) (s : st) (o : nat) (k : N) (v : Z) : Prop :=
  let ob := heap s o in
  alive ob = true /\ pk ob = k /\ pval w ob = Some v /\ in_del ob = false /\ (in_new ob = true \/ in_map ob = true).
Lemma has_pend_of : forall w ob v, pval w ob = Some v -> has_pend ob = true.
Proof. intros [] ob v H; unfold pval, has_pend in *; rewrite H; [destruct (pend ob)|]; reflexivity. Qed.

Lemma pending_rooted : forall w s o k v, Inv s -> pending w s o k v -> rooted s o = true.
Proof.
  intros w s o k v I (A & _ & P & _ & H). unfold rooted. rewrite A. simpl.
  assert (R := okb_pending_rooted (heap s o) (i_ok s I o) A (has_pend_of w _ v P)).
  assert (H' : in_new (heap s o) || in_map (heap s o) = true) by (destruct H as [H|H]; rewrite H; auto using orb_true_r).
  specialize (R H'). apply orb_true_iff in R. destruct R as [R|R].
  - rewrite R. rewrite orb_true_r. reflexivity.
  - apply andb_prop in R. destruct R as [R R3]. apply andb_prop in R. destruct R as [R1 R2].
    rewrite R1, R2. simpl. repeat rewrite orb_true_r. reflexivity.
Qed.

Lemma pending_collect : forall w s o k v l, Inv s -> pending w s o k v -> pending w (collect l s) o k v.
Proof.
  intros w s o k v l I P. unfold pending. rewrite (collect_keeps_rooted l s o I (pending_rooted w s o k v I P)). exact P.
Qed.

(* the operations by which an application loses its references, and any collector *)
Inductive refop := RDrop (i : nat) | RLink (i j : nat) | RGc | RCollect (l : list nat).
Definition ref_step (r : refop) (s : st) : st :=
  match r with
  | RDrop i => fst (step (Drop i) s)
  | RLink i j => fst (step (Link i j) s)
  | RGc => fst (step Gc s)
  | RCollect l => collect l s
  end.
Definition ref_run (h : list refop) (s : st) : st := fold_left (fun s r => ref_step r s) h s.

Lemma inv_ref_step : forall r s, Inv s -> Inv (ref_step r s).
Proof. intros [i|i j| |l] s I; cbn [ref_step]; auto using inv_step, inv_collect. Qed.
Lemma reachable_ref_step : forall s0 r s, reachable s0 s -> reachable s0 (ref_step r s).
Proof. intros s0 [i|i j| |l] s R; cbn [ref_step]; auto using r_op, r_collect. Qed.
Lemma reachable_ref_run : forall s0 h s, reachable s0 s -> reachable s0 (ref_run h s).
Proof. induction h; intros s R; simpl; auto. apply IHh. apply reachable_ref_step. exact R. Qed.

Lemma pending_ref_step : forall w r s o k v, Inv s -> pending w s o k v -> pending w (ref_step r s) o k v.
Proof.
  intros w [i|i j| |l] s o k v I P; cbn [ref_step step fst].
  - exact P.
  - destruct (slot_get s i) as [x|]; cbn [fst]; [|exact P].
    unfold pending in *. cbn [heap upd set_heap]. destruct (Nat.eqb o x); [|exact P].
    destruct (heap s o); exact P.
  - apply pending_collect; auto.
  - apply pending_collect; auto.
Qed.

Lemma modified_never_collected : forall w h s o k v, Inv s -> pending w s o k v ->
  pending w (ref_run h s) o k v /\ Inv (ref_run h s).
Proof.
  intros w. induction h as [|r h IH]; intros s o k v I P; simpl; auto.
  apply IH; [apply inv_ref_step; auto|apply pending_ref_step; auto].
Qed.

Lemma flush_writes_pending : forall w s o k v, Inv s -> pending w s o k v ->
  option_map (col w) (db_get k (db (flush s))) = Some v.
Proof.
  intros w s o k v I (A & Pk & P & D & H). subst k.
  destruct (flush_writes s o I A (has_pend_of w _ v P) D H) as (r & G & F1 & F2 & _).
  rewrite G. simpl. f_equal. destruct w; [apply F2|apply F1]; exact P.
Qed.

Lemma rc_collect_db : forall s, db (rc_collect s) = db s.
Proof. intros s. unfold rc_collect. apply (rc_iter_fields (S (nobj s)) s). Qed.

Lemma flush_writes_dropped_changes : forall w h s o k v, Inv s -> pending w s o k v ->
  option_map (col w) (db_get k (db (flush (ref_run h s)))) = Some v /\
  option_map (col w) (db_get k (db (fst (step_cpy Flush (ref_run h s))))) = Some v /\
  option_map (col w) (db_get k (db (fst (step_cpy Commit (ref_run h s))))) = Some v.
Proof.
  intros w h s o k v I P. destruct (modified_never_collected w h s o k v I P) as [P' I'].
  assert (F := flush_writes_pending w _ o k v I' P').
  repeat split; auto; unfold step_cpy; cbn [step fst compact set_heap db]; rewrite rc_collect_db; exact F.
Qed.

(* a change made through a reference - attribute set, or in-place change + flag_modified - is pending *)
Lemma modev_pending : forall w s o, Inv s -> In (Some o) (slots s) ->
  in_del (heap s o) = false -> (in_new (heap s o) = true \/ in_map (heap s o) = true) ->
  pending w (bump_val (upd o (modified_event w (next_val s)) s)) o (pk (heap s o)) (next_val s).
Proof.
  intros w s o I G D H.
  assert (A : alive (heap s o) = true) by (apply (i_slots s I); exact G).
  unfold pending. cbn [heap bump_val upd set_heap]. rewrite Nat.eqb_refl.
  revert A D H. generalize (heap s o). intros ob A D H. unfold modified_event, modev_cond, pval.
  destruct w, ob; cbn in *;
  repeat match goal with |- context [if ?c then _ else _] => destruct c end; cbn; auto.
Qed.
Lemma set_makes_pending : forall s i o, Inv s -> slot_get s i = Some o ->
  in_del (heap s o) = false -> (in_new (heap s o) = true \/ in_map (heap s o) = true) ->
  pending false (fst (step (SetV i) s)) o (pk (heap s o)) (next_val s) /\
  pending true (fst (step (SetW i) s)) o (pk (heap s o)) (next_val s) /\
  (in_val (heap s o) = true -> pending false (fst (step (Mut i) s)) o (pk (heap s o)) (next_val s)).
Proof.
  intros s i o I G D H. assert (Hin := slot_get_In s i o G). cbn [step]. rewrite G. cbn [fst].
  split; [apply modev_pending; auto|]. split; [apply modev_pending; auto|].
  intros V. rewrite V. cbn [fst]. apply modev_pending; auto.
Qed.
Lemma new_is_pending : forall s i, pending false (fst (step (New i) s)) (nobj s) (next_pk s) (next_val s).
Proof.
  intros s i. cbn [step fst]. unfold pending, pval. cbn. rewrite Nat.eqb_refl. cbn. repeat split; auto.
Qed.

(* a partial expire discards the change of the named attribute only: the change of the other attribute
   stays pending (and the object stays pinned: Inv) *)
Lemma partial_expire_keeps_other : forall w s i o k v, Inv s -> slot_get s i = Some o ->
  pending w s o k v -> pending w (fst (step (ExpireAttr i (negb w)) s)) o k v.
Proof.
  intros w s i o k v I G P. cbn [step]. rewrite G. destruct (persistent (heap s o)); cbn [fst]; [|exact P].
  unfold pending in *. cbn [heap upd set_heap]. rewrite Nat.eqb_refl.
  revert P. generalize (heap s o). intros ob P. unfold expire_attr, pval in *. destruct w, ob; cbn in *; exact P.
Qed.

(* ---------------------------------------------------------------- identity map *)
Lemma map_consistent : forall s o, Inv s -> in_map (heap s o) = true ->
  alive (heap s o) = true /\ db_get (pk (heap s o)) (db s) <> None /\ lookup (pk (heap s o)) s = Some o.
Proof.
  intros s o I M. split; [apply map_alive; auto|]. split; [apply (i_map_row s I); auto|apply lookup_unique; auto].
Qed.
Lemma pending_identity_stable : forall w s o k v, Inv s -> pending w s o k v -> in_map (heap s o) = true ->
  lookup k s = Some o.
Proof. intros w s o k v I (_ & Pk & _) M. subst k. apply lookup_unique; auto. Qed.

(* ---------------------------------------------------------------- release *)
Lemma rooted_false_of : forall s o, app_ref s o = false -> unrooted_local (heap s o) = true -> rooted s o = false.
Proof.
  intros s o H U. unfold rooted. rewrite H. unfold unrooted_local in U.
  apply andb_prop in U. destruct U as [U U3]. apply andb_prop in U. destruct U as [U1 U2].
  apply negb_true_iff in U1, U2, U3. rewrite U1, U2, U3. simpl. apply andb_false_r.
Qed.

Lemma unmodified_unreferenced_may_be_released : forall s o, Inv s ->
  in_map (heap s o) = true -> modified (heap s o) = false -> in_del (heap s o) = false ->
  app_ref s o = false -> (forall p, alive (heap s p) = true -> link (heap s p) <> Some o) ->
  let s' := collect [o] s in
  alive (heap s' o) = false /\ in_map (heap s' o) = false /\ lookup (pk (heap s o)) s' = None /\
  db s' = db s /\ (forall p, p <> o -> heap s' p = heap s p) /\ Inv s'.
Proof.
  intros s o I M Md D AR NL s'.
  assert (A := map_alive s o I M).
  assert (U := okb_clean_unrooted _ (i_ok s I o) M Md D).
  assert (NR : memb o (reach s) = false).
  { destruct (memb o (reach s)) eqn:E; auto. apply memb_In in E. apply (reach_inv s o I) in E.
    destruct E as [E|[p [Ap Lp]]].
    - rewrite (rooted_false_of s o AR U) in E. discriminate.
    - exfalso. apply (NL p Ap Lp). }
  assert (Ho : heap s' o = free_obj (heap s o)).
  { unfold s'. rewrite collect_heap. cbv zeta. rewrite A, NR. simpl. rewrite Nat.eqb_refl. reflexivity. }
  assert (Hp : forall p, p <> o -> heap s' p = heap s p).
  { intros p Np. unfold s'. rewrite collect_heap. cbv zeta. simpl.
    destruct (Nat.eqb p o) eqn:E; [apply Nat.eqb_eq in E; contradiction|reflexivity]. }
  assert (I' : Inv s') by (apply inv_collect; exact I).
  split; [rewrite Ho; destruct (heap s o); reflexivity|].
  split; [rewrite Ho; destruct (heap s o); reflexivity|].
  split; [|split; [reflexivity|split; [exact Hp|exact I']]].
  destruct (lookup (pk (heap s o)) s') as [x|] eqn:Lk; auto.
  exfalso. destruct (lookup_some s' _ x Lk) as [Mx Px].
  destruct (Nat.eq_dec x o) as [->|Nx].
  - rewrite Ho in Mx. destruct (heap s o); discriminate.
  - rewrite (Hp x Nx) in Mx, Px. apply Nx. apply (i_map_inj s I); auto.
Qed.

(* ---------------------------------------------------------------- reference counting is a sound collector *)
Lemma existsb_filter_len : forall {A} (f : A -> bool) l, existsb f l = true -> 0 < length (filter f l).
Proof.
  intros A f l. induction l as [|x l IH]; simpl; [discriminate|].
  destruct (f x); simpl; [lia|auto].
Qed.
Lemma sum_zero : forall a b c d e f, a + b + c + d + e + f = 0 -> a = 0 /\ b = 0 /\ c = 0 /\ d = 0 /\ e = 0 /\ f = 0.
Proof. intros. lia. Qed.
Lemma rc_zero_unreachable : forall s o, Inv s -> alive (heap s o) = true -> refcount s o = 0 -> ~ In o (reach s).
Proof.
  intros s o I A Hz H. apply (reach_inv s o I) in H. unfold refcount in Hz. cbv zeta in Hz.
  apply sum_zero in Hz. destruct Hz as (Z1 & Z2 & Z3 & Z4 & Z5 & Z6).
  destruct H as [H|[p [Ap Lp]]].
  - unfold rooted in H. rewrite A in H. simpl in H. unfold app_ref in H.
    destruct (existsb (is_ref o) (slots s)) eqn:E1.
    { apply existsb_filter_len in E1. rewrite Z1 in E1. inversion E1. }
    destruct (is_ref o (local s)); [discriminate|].
    destruct (in_new (heap s o)); [discriminate|].
    destruct (in_del (heap s o)); [discriminate|].
    destruct (strong (heap s o)); [discriminate|]. simpl in H. discriminate.
  - assert (L := alive_lt s p I Ap).
    assert (E : existsb (fun p => let q := heap s p in alive q && is_ref o (link q)) (oids s) = true).
    { apply existsb_exists. exists p. split; [apply in_seq; lia|]. cbv zeta. rewrite Ap, Lp. simpl. apply Nat.eqb_refl. }
    apply existsb_filter_len in E. cbv zeta in E. rewrite Z6 in E. inversion E.
Qed.
