(* C32 - run_case for the correspondence: the encoding of C33 (SessTxnRun.v) plus [13, kind, k]. *)
From Coq Require Import List ZArith Bool Arith.
Import ListNotations.
From SAV.base Require Import Tree.
From SAV.orm Require Import SessTxn SessTxnRun FlushFail.
Open Scope Z_scope.

Definition dec_fop (t : tree) : option fop :=
  match t with
  | L [I 13; I 0; k] => option_map (fun n => Faulty (FStmt n)) (as_nat k)
  | L [I 13; I 1; _] => Some (Faulty FPre)
  | L [I 13; I 2; _] => Some (Faulty FAfter)
  | L [I 13; I 3; _] => Some (Faulty FPost)
  | _ => option_map Plain (dec_op t)
  end.

Definition run_case (t : tree) : tree :=
  match t with
  | L [e; L ops] =>
      match as_bool e, all_some (map dec_fop ops) with
      | Some eo, Some ps =>
          let out := runf (sess0 eo) ps in
          if has_unmodelled out then L [I (-998)] else L (map (fun p => enc_obs (fst p) (snd p)) out)
      | _, _ => bad_input
      end
  | _ => bad_input
  end.
