(* C37 - both sides of a bidirectional relationship: executable model (definitions only).

   A pair of mutually back-populating attributes: side A on the objects of one class, side B on the
   objects of the other.  Each side is a scalar (_ScalarObjectAttributeImpl) or a list collection
   (_CollectionAttributeImpl):   one-to-many / many-to-one = (Coll, Scal), one-to-one = (Scal, Scal),
   many-to-many = (Coll, Coll).
   Transcribed from lib/sqlalchemy/orm/attributes.py: _backref_listeners (the three emit_backref_...
   listeners and their initiator-token tests), _AttributeImpl.append/pop, _ScalarObjectAttributeImpl
   .set/.delete/.fire_replace_event/.fire_remove_event, _CollectionAttributeImpl.append/remove/pop/
   set/fire_append_event/fire_remove_event; orm/collections.py: the list decorators (append, remove,
   insert, pop, __setitem__, __delitem__) and bulk_replace; util.has_dupes.
   Objects are N (0 is Python None).  The listeners call each other through the impl methods; the
   recursion is cut by the initiator tokens, and is modelled with explicit fuel ([OutOfFuel] is a
   distinct result proved unreachable).                                                        *)
From Coq Require Import List NArith Bool.
Import ListNotations.
Open Scope N_scope.

Inductive side := SA | SB.
Inductive skind := Scal | Coll.
Inductive rkind := O2M | O2O | M2M.

Definition kind_of (r : rkind) (sd : side) : skind :=
  match r, sd with
  | O2M, SA => Coll | O2M, SB => Scal
  | O2O, _ => Scal
  | M2M, _ => Coll
  end.
Definition other (sd : side) : side := match sd with SA => SB | SB => SA end.

(* what instance_dict holds for the attribute *)
Inductive cell :=
| CAbsent                      (* not in __dict__ (never set / deleted) *)
| CUnl                         (* persistent, expired: the old value cannot be had without SQL *)
| CVal (v : N)                 (* scalar: 0 = None *)
| CList (l : list N).          (* collection *)

Record st := mkst { persistent : bool; sa : N -> cell; sb : N -> cell }.
Definition cells (s : st) (sd : side) : N -> cell := match sd with SA => sa s | SB => sb s end.
Definition upd (f : N -> cell) (o : N) (c : cell) : N -> cell := fun o' => if o' =? o then c else f o'.
Definition set_cell (s : st) (sd : side) (o : N) (c : cell) : st :=
  match sd with
  | SA => mkst (persistent s) (upd (sa s) o c) (sb s)
  | SB => mkst (persistent s) (sa s) (upd (sb s) o c)
  end.
Definition coll_of (s : st) (sd : side) (o : N) : list N :=
  match cells s sd o with CList l => l | _ => [] end.

(* AttributeEventToken: (impl, op); a scalar impl uses its replace token as append token *)
Inductive top := TAppend | TReplace | TRemove | TBulk.
Definition tok := (side * top)%type.
Definition side_eqb (a b : side) : bool := match a, b with SA, SA | SB, SB => true | _, _ => false end.
Definition top_eqb (a b : top) : bool :=
  match a, b with TAppend, TAppend | TReplace, TReplace | TRemove, TRemove | TBulk, TBulk => true | _, _ => false end.
Definition tok_eqb (a b : tok) : bool := side_eqb (fst a) (fst b) && top_eqb (snd a) (snd b).
Definition tok_is (a : tok) (b : option tok) : bool := match b with Some t => tok_eqb a t | None => false end.

Definition tok_append (r : rkind) (sd : side) : tok :=
  match kind_of r sd with Scal => (sd, TReplace) | Coll => (sd, TAppend) end.
Definition tok_replace (sd : side) : tok := (sd, TReplace).
Definition tok_remove (sd : side) : tok := (sd, TRemove).
Definition tok_bulk (r : rkind) (sd : side) : option tok :=
  match kind_of r sd with Scal => None | Coll => Some (sd, TBulk) end.

Inductive exn := AttributeError | ValueError | IndexError.
Inductive res := Ok (s : st) | Err (e : exn) (s : st) | OutOfFuel.
Definition bind (r : res) (f : st -> res) : res := match r with Ok s => f s | _ => r end.

(* the value get() finds for the old scalar: a value / NO_VALUE / PASSIVE_NO_RESULT *)
Inductive oldv := ONoValue | ONoResult | OV (v : N).
Definition scalar_old (s : st) (sd : side) (o : N) : oldv :=
  match cells s sd o with
  | CAbsent => ONoValue
  | CUnl => ONoResult
  | CVal v => OV v
  | CList _ => ONoValue
  end.
(* "oldchild is not None and not PASSIVE_NO_RESULT and not NO_VALUE" *)
Definition real_obj (v : oldv) : option N :=
  match v with OV 0 => None | OV p => Some p | _ => None end.

Fixpoint count (x : N) (l : list N) : nat :=
  match l with [] => O | y :: r => if x =? y then S (count x r) else count x r end.
Definition has_dupes (l : list N) (x : N) : bool := Nat.leb 2 (count x l).
Definition memb (x : N) (l : list N) : bool := existsb (N.eqb x) l.
Fixpoint remove1 (x : N) (l : list N) : list N :=
  match l with [] => [] | y :: r => if x =? y then r else y :: remove1 x r end.

Inductive call :=
(* _ScalarObjectAttributeImpl.set(state, dict_, value, initiator, check_old, pop) *)
| KScalarSet (sd : side) (o : N) (value : N) (init : option tok) (check_old : option N) (pop : bool)
(* impl.append / impl.pop as called by the listeners (dispatch on the impl class) *)
| KImplAppend (sd : side) (o : N) (value : N) (init : tok)
| KImplPop (sd : side) (o : N) (value : N) (init : tok)
(* CollectionAdapter.append_with_event / remove_with_event: event, then the list operation *)
| KCollAppend (sd : side) (o : N) (value : N) (init : option tok)
| KCollRemove (sd : side) (o : N) (value : N) (init : option tok)
(* fire_append_event / fire_remove_event: "initiator or self._append_token" *)
| KFireAppend (sd : side) (o : N) (value : N) (init : option tok)
| KFireRemove (sd : side) (o : N) (value : N) (init : option tok)
(* the listeners, attached to side sd *)
| KSetEvent (sd : side) (o : N) (child : N) (oldchild : oldv) (init : tok)
| KAppendEvent (sd : side) (o : N) (child : N) (init : tok)
| KRemoveEvent (sd : side) (o : N) (child : oldv) (init : tok).

Definition oldv_is (v : oldv) (x : N) : bool := match v with OV y => x =? y | _ => false end.

Section Exec.
  Variable r : rkind.

  Fixpoint exec (fuel : nat) (c : call) (s : st) : res :=
    match fuel with
    | O => OutOfFuel
    | S n =>
      match c with
      | KScalarSet sd o value init check_old pop =>
          let old := scalar_old s sd o in
          let mismatch := match check_old, old with
                          | Some co, ONoResult => false
                          | Some co, _ => negb (oldv_is old co)
                          | None, _ => false
                          end in
          if mismatch then (if pop then Ok s else Err ValueError s) else
          let i := match init with Some t => t | None => tok_replace sd end in
          bind (exec n (KSetEvent sd o value old i) s)
               (fun s1 => Ok (set_cell s1 sd o (CVal value)))
      | KImplAppend sd o value init =>
          match kind_of r sd with
          | Scal => exec n (KScalarSet sd o value (Some init) None false) s
          | Coll => exec n (KCollAppend sd o value (Some init)) s
          end
      | KImplPop sd o value init =>
          match kind_of r sd with
          | Scal => exec n (KScalarSet sd o 0 (Some init) (Some value) true) s
          | Coll => match exec n (KCollRemove sd o value (Some init)) s with
                    | Err ValueError s1 => Ok s1      (* except (ValueError, KeyError, IndexError): pass *)
                    | Err IndexError s1 => Ok s1
                    | x => x
                    end
          end
      | KCollAppend sd o value init =>
          bind (exec n (KFireAppend sd o value init) s)
               (fun s1 => Ok (set_cell s1 sd o (CList (coll_of s1 sd o ++ [value]))))
      | KCollRemove sd o value init =>
          (* list.remove decorator: the remove event is fired only for a member *)
          if memb value (coll_of s sd o)
          then bind (exec n (KFireRemove sd o value init) s)
                    (fun s1 => if memb value (coll_of s1 sd o)
                               then Ok (set_cell s1 sd o (CList (remove1 value (coll_of s1 sd o))))
                               else Err ValueError s1)
          else Err ValueError s
      | KFireAppend sd o value init =>
          exec n (KAppendEvent sd o value (match init with Some t => t | None => tok_append r sd end)) s
      | KFireRemove sd o value init =>
          exec n (KRemoveEvent sd o (OV value) (match init with Some t => t | None => tok_remove sd end)) s
      (* emit_backref_from_scalar_set_event *)
      | KSetEvent sd o child oldchild init =>
          let cs := other sd in
          if oldv_is oldchild child then Ok s else
          let r1 :=
            match real_obj oldchild with
            | Some p =>
                let check := match kind_of r cs with Scal => tok_replace cs | Coll => tok_remove cs end in
                if tok_eqb init check then Ok s
                else exec n (KImplPop cs p o (tok_append r sd)) s
            | None => Ok s
            end in
          bind r1 (fun s1 =>
            if child =? 0 then Ok s1 else
            if tok_eqb init (tok_append r cs) || tok_is init (tok_bulk r cs) then Ok s1
            else exec n (KImplAppend cs child o init) s1)
      (* emit_backref_from_collection_append_event *)
      | KAppendEvent sd o child init =>
          let cs := other sd in
          if child =? 0 then Ok s else
          if tok_eqb init (tok_append r cs) || tok_is init (tok_bulk r cs) then Ok s
          else exec n (KImplAppend cs child o init) s
      (* emit_backref_from_collection_remove_event *)
      | KRemoveEvent sd o child init =>
          let cs := other sd in
          match real_obj child with
          | None => Ok s
          | Some ch =>
            let check_replace := match kind_of r cs with Scal => Some (tok_replace cs) | Coll => tok_bulk r cs end in
            let dupes := match kind_of r cs, kind_of r sd with Scal, Coll => true | _, _ => false end in
            if tok_eqb init (tok_remove cs) || tok_is init check_replace then Ok s
            else if dupes && has_dupes (coll_of s sd o) ch then Ok s
            else exec n (KImplPop cs ch o init) s
          end
      end
    end.

  Definition FUEL : nat := 12.
  Definition run_call (c : call) (s : st) : res := exec FUEL c s.

  (* ---------------- user-level primitives ---------------- *)
  Inductive prim :=
  | PAppend (sd : side) (o v : N)
  | PRemove (sd : side) (o v : N)
  | PInsert (sd : side) (o : N) (i : nat) (v : N)
  | PPop (sd : side) (o : N) (i : nat)
  | PDelItem (sd : side) (o : N) (i : nat)
  | PSetItem (sd : side) (o : N) (i : nat) (v : N)
  | PReplace (sd : side) (o : N) (vs : list N)
  | PSet (sd : side) (o v : N)
  | PDel (sd : side) (o : N)
  | PDelColl (sd : side) (o : N).          (* del obj.collection *)

  Fixpoint insert_at (i : nat) (v : N) (l : list N) : list N :=
    match i, l with
    | O, _ => v :: l
    | S j, [] => [v]
    | S j, y :: t => y :: insert_at j v t
    end.
  Fixpoint remove_at (i : nat) (l : list N) : list N :=
    match i, l with
    | _, [] => []
    | O, _ :: t => t
    | S j, y :: t => y :: remove_at j t
    end.
  Fixpoint set_at (i : nat) (v : N) (l : list N) : list N :=
    match i, l with
    | _, [] => []
    | O, _ :: t => v :: t
    | S j, y :: t => y :: set_at j v t
    end.

  (* collections.bulk_replace: appends of the additions carry the bulk token, constants are appended
     silently; then remove events for the removals (each member once) *)
  Fixpoint bulk_appends (sd : side) (o : N) (constants vs : list N) (s : st) : res :=
    match vs with
    | [] => Ok s
    | v :: rest =>
      let r1 := if memb v constants then Ok s
                else run_call (KFireAppend sd o v (tok_bulk r sd)) s in
      bind r1 (fun s1 =>
        bulk_appends sd o constants rest (set_cell s1 sd o (CList (coll_of s1 sd o ++ [v]))))
    end.
  Fixpoint bulk_removes (sd : side) (o : N) (vs : list N) (s : st) : res :=
    match vs with
    | [] => Ok s
    | v :: rest => bind (run_call (KFireRemove sd o v (tok_bulk r sd)) s) (bulk_removes sd o rest)
    end.
  Fixpoint dedup (l : list N) : list N :=
    match l with [] => [] | y :: t => if memb y t then dedup t else y :: dedup t end.
  Definition dedup_first (l : list N) : list N := rev (dedup (rev l)).

  (* CollectionAdapter.clear_with_event: the remover is called for every member of a snapshot *)
  Fixpoint clear_with_event (sd : side) (o : N) (snapshot : list N) (s : st) : res :=
    match snapshot with
    | [] => Ok s
    | v :: rest => bind (run_call (KCollRemove sd o v None) s) (clear_with_event sd o rest)
    end.

  Definition step_prim (p : prim) (s : st) : res :=
    match p with
    | PAppend sd o v => run_call (KCollAppend sd o v None) s
    | PRemove sd o v => run_call (KCollRemove sd o v None) s
    | PInsert sd o i v =>
        bind (run_call (KFireAppend sd o v None) s)
             (fun s1 => Ok (set_cell s1 sd o (CList (insert_at i v (coll_of s1 sd o)))))
    | PPop sd o i =>
        (* __before_pop; item = list.pop(i); the remove event fires after the removal *)
        match nth_error (coll_of s sd o) i with
        | None => Err IndexError s
        | Some v => run_call (KFireRemove sd o v None)
                      (set_cell s sd o (CList (remove_at i (coll_of s sd o))))
        end
    | PDelItem sd o i =>
        match nth_error (coll_of s sd o) i with
        | None => Err IndexError s
        | Some v => bind (run_call (KFireRemove sd o v None) s)
                         (fun s1 => Ok (set_cell s1 sd o (CList (remove_at i (coll_of s1 sd o)))))
        end
    | PSetItem sd o i v =>
        match nth_error (coll_of s sd o) i with
        | None => Err IndexError s
        | Some e =>
            bind (run_call (KFireRemove sd o e None) s) (fun s1 =>
            bind (run_call (KFireAppend sd o v None) s1) (fun s2 =>
            Ok (set_cell s2 sd o (CList (set_at i v (coll_of s2 sd o))))))
        end
    | PReplace sd o vs =>
        let old := coll_of s sd o in
        let constants := filter (fun v => memb v vs) old in
        bind (bulk_appends sd o constants vs (set_cell s sd o (CList [])))
             (bulk_removes sd o (dedup_first (filter (fun v => negb (memb v constants)) old)))
    | PSet sd o v => run_call (KScalarSet sd o v None None false) s
    | PDel sd o =>
        (* _ScalarObjectAttributeImpl.delete: remove event with the old value, then dict_.pop *)
        let old := scalar_old s sd o in
        bind (run_call (KRemoveEvent sd o old (tok_remove sd)) s) (fun s1 =>
          let s2 := set_cell s1 sd o CAbsent in
          match cells s1 sd o, old with
          | CAbsent, ONoResult => Ok s2
          | CAbsent, _ => if persistent s then Ok s2 else Err AttributeError s2
          | _, _ => Ok s2
          end)
    | PDelColl sd o =>
        (* _CollectionAttributeImpl.delete: no-op when the key is not in the dict *)
        match cells s sd o with
        | CList l => bind (clear_with_event sd o l s) (fun s1 => Ok (set_cell s1 sd o CAbsent))
        | _ => Ok s
        end
    end.
End Exec.
