(* C45 - executable model of Session.merge for the mapping
     A(id, x, y, bs = relationship(B, cascade "save-update[, merge]"[, back_populates="a"]))
     B(id, aid -> a.id, v[, a = relationship(A, cascade "save-update[, merge]", back_populates="bs")])
   and source graphs "one A with its B children" (detached or transient, attributes partially loaded).
   Transcribes orm/session.py Session._merge, orm/properties.py ColumnProperty.merge, orm/relationships.py
   RelationshipProperty.merge, and what they call: Session.get (identity map, else one SELECT), the lazy load
   of the destination collection (PASSIVE_MERGE), ScalarAttributeImpl.set / CollectionAttributeImpl.set with the
   backref listeners (history = committed_state, state.modified), InstanceState._commit_all.
   Target instances are natural numbers; per-instance data are total functions. *)
From Coq Require Import List Bool Arith ZArith.
Import ListNotations.

(* ---------- configuration, database, sources ---------- *)
Record mconfig := mkMC {
  mf : bool;                                    (* "merge" in A.bs cascade *)
  hb : bool;                                    (* the backref B.a exists *)
  mb : bool;                                    (* "merge" in B.a cascade *)
  rowsA : list (nat * (option Z * option Z));   (* pk, x, y *)
  rowsB : list (nat * (option nat * option Z))  (* pk, aid, v ; ordered by pk *)
}.

(* an attribute of a source object: not loaded, or loaded with a value *)
Inductive sattr (A : Type) := SU | SV (v : A).
Arguments SU {A}. Arguments SV {A} v.

Inductive bparent := BPunloaded | BPnone | BPparent.   (* B.a on a source child: points to the A that owns it *)
Record srcB := mkSB { sb_detached : bool; sb_pk : option nat; sb_v : sattr (option Z); sb_a : bparent }.
Record srcA := mkSA { sa_detached : bool; sa_pk : option nat; sa_x : sattr (option Z); sa_y : sattr (option Z);
                      sa_bs : sattr (list nat) (* indices into the list of child sources *) }.

(* ---------- session state ---------- *)
Inductive cval := CNov | CVal (v : option Z).                      (* committed value of a column *)
Inductive oldp := ONov | ONores | OVal (v : option nat).           (* old value of B.a as seen by an attribute event *)

Record mstate := mkM {
  next : nat;
  tkey : nat -> option nat;                (* identity (primary key) of a persistent instance *)
  tpend : nat -> bool;                     (* in session.new *)
  cols : nat -> nat -> option (option Z);  (* column 0 = id, 1 = x | v, 2 = y | aid ; None = not in __dict__ *)
  ccomm : nat -> nat -> option cval;       (* committed_state of the column *)
  bs : nat -> option (list nat);
  bscomm : nat -> option (list nat);
  par : nat -> option (option nat);        (* B.a in __dict__ *)
  pcomm : nat -> option oldp;
  modf : nat -> bool;                      (* state.modified *)
  idA : nat -> option nat;                 (* identity map, class A: pk -> instance *)
  idB : nat -> option nat;
  pendings : list nat;                     (* session.new in insertion order *)
  sql : nat;                               (* statements sent to the database *)
  poison : bool                            (* an unmodelled code path was reached *)
}.

Definition upd {A} (f : nat -> A) (k : nat) (v : A) : nat -> A := fun x => if Nat.eqb x k then v else f x.
Definition upd2 {A} (f : nat -> nat -> A) (k j : nat) (v : A) : nat -> nat -> A :=
  fun x y => if Nat.eqb x k && Nat.eqb y j then v else f x y.

Definition m0 : mstate :=
  mkM 0 (fun _ => None) (fun _ => false) (fun _ _ => None) (fun _ _ => None) (fun _ => None) (fun _ => None)
      (fun _ => None) (fun _ => None) (fun _ => false) (fun _ => None) (fun _ => None) [] 0 false.

Definition set_next s v := mkM v (tkey s) (tpend s) (cols s) (ccomm s) (bs s) (bscomm s) (par s) (pcomm s) (modf s) (idA s) (idB s) (pendings s) (sql s) (poison s).
Definition set_tkey s t v := mkM (next s) (upd (tkey s) t v) (tpend s) (cols s) (ccomm s) (bs s) (bscomm s) (par s) (pcomm s) (modf s) (idA s) (idB s) (pendings s) (sql s) (poison s).
Definition set_pending s t := mkM (next s) (tkey s) (upd (tpend s) t true) (cols s) (ccomm s) (bs s) (bscomm s) (par s) (pcomm s) (modf s) (idA s) (idB s) (pendings s ++ [t]) (sql s) (poison s).
Definition set_cols s t k v := mkM (next s) (tkey s) (tpend s) (upd2 (cols s) t k v) (ccomm s) (bs s) (bscomm s) (par s) (pcomm s) (modf s) (idA s) (idB s) (pendings s) (sql s) (poison s).
Definition set_ccomm s t k v := mkM (next s) (tkey s) (tpend s) (cols s) (upd2 (ccomm s) t k v) (bs s) (bscomm s) (par s) (pcomm s) (modf s) (idA s) (idB s) (pendings s) (sql s) (poison s).
Definition set_bs s t v := mkM (next s) (tkey s) (tpend s) (cols s) (ccomm s) (upd (bs s) t v) (bscomm s) (par s) (pcomm s) (modf s) (idA s) (idB s) (pendings s) (sql s) (poison s).
Definition set_bscomm s t v := mkM (next s) (tkey s) (tpend s) (cols s) (ccomm s) (bs s) (upd (bscomm s) t v) (par s) (pcomm s) (modf s) (idA s) (idB s) (pendings s) (sql s) (poison s).
Definition set_par s t v := mkM (next s) (tkey s) (tpend s) (cols s) (ccomm s) (bs s) (bscomm s) (upd (par s) t v) (pcomm s) (modf s) (idA s) (idB s) (pendings s) (sql s) (poison s).
Definition set_pcomm s t v := mkM (next s) (tkey s) (tpend s) (cols s) (ccomm s) (bs s) (bscomm s) (par s) (upd (pcomm s) t v) (modf s) (idA s) (idB s) (pendings s) (sql s) (poison s).
Definition set_modf s t v := mkM (next s) (tkey s) (tpend s) (cols s) (ccomm s) (bs s) (bscomm s) (par s) (pcomm s) (upd (modf s) t v) (idA s) (idB s) (pendings s) (sql s) (poison s).
Definition set_idA s k v := mkM (next s) (tkey s) (tpend s) (cols s) (ccomm s) (bs s) (bscomm s) (par s) (pcomm s) (modf s) (upd (idA s) k v) (idB s) (pendings s) (sql s) (poison s).
Definition set_idB s k v := mkM (next s) (tkey s) (tpend s) (cols s) (ccomm s) (bs s) (bscomm s) (par s) (pcomm s) (modf s) (idA s) (upd (idB s) k v) (pendings s) (sql s) (poison s).
Definition inc_sql s := mkM (next s) (tkey s) (tpend s) (cols s) (ccomm s) (bs s) (bscomm s) (par s) (pcomm s) (modf s) (idA s) (idB s) (pendings s) (S (sql s)) (poison s).
Definition set_poison s := mkM (next s) (tkey s) (tpend s) (cols s) (ccomm s) (bs s) (bscomm s) (par s) (pcomm s) (modf s) (idA s) (idB s) (pendings s) (sql s) true.

Definition alloc (s : mstate) : mstate * nat := (set_next s (S (next s)), next s).

Definition zpk (pk : nat) : option Z := Some (Z.of_nat pk).
Definition mem (x : nat) (l : list nat) : bool := existsb (Nat.eqb x) l.
Definition remove1 (x : nat) (l : list nat) : list nat :=
  (fix go l := match l with [] => [] | y :: r => if Nat.eqb x y then r else y :: go r end) l.
Fixpoint assoc {A} (k : nat) (l : list (nat * A)) : option A :=
  match l with [] => None | (k', v) :: r => if Nat.eqb k k' then Some v else assoc k r end.

(* ---------- loading ---------- *)
Definition load_A (cfg : mconfig) (s : mstate) (pk : nat) (row : option Z * option Z) : mstate * nat :=
  let '(s1, t) := alloc s in
  let s2 := set_cols (set_cols (set_cols (set_tkey s1 t (Some pk)) t 0 (Some (zpk pk))) t 1 (Some (fst row))) t 2 (Some (snd row)) in
  (set_idA s2 pk (Some t), t).
Definition load_B (cfg : mconfig) (s : mstate) (pk : nat) (row : option nat * option Z) : mstate * nat :=
  match idB s pk with
  | Some t => (s, t)
  | None =>
      let '(s1, t) := alloc s in
      let s2 := set_cols (set_cols (set_cols (set_tkey s1 t (Some pk)) t 0 (Some (zpk pk))) t 1 (Some (snd row)))
                         t 2 (Some (option_map Z.of_nat (fst row))) in
      (set_idB s2 pk (Some t), t)
  end.

(* Session.get: identity map, else one SELECT *)
Definition get_A (cfg : mconfig) (s : mstate) (pk : nat) : mstate * option nat :=
  match idA s pk with
  | Some t => (s, Some t)
  | None => match assoc pk (rowsA cfg) with
            | Some row => let '(s1, t) := load_A cfg (inc_sql s) pk row in (s1, Some t)
            | None => (inc_sql s, None)
            end
  end.
Definition get_B (cfg : mconfig) (s : mstate) (pk : nat) : mstate * option nat :=
  match idB s pk with
  | Some t => (s, Some t)
  | None => match assoc pk (rowsB cfg) with
            | Some row => let '(s1, t) := load_B cfg (inc_sql s) pk row in (s1, Some t)
            | None => (inc_sql s, None)
            end
  end.

(* the lazy load of t.bs (destination collection pre-load, PASSIVE_MERGE) *)
Definition lazy_bs (cfg : mconfig) (s : mstate) (t : nat) : mstate :=
  match bs s t with
  | Some _ => s
  | None =>
      match tkey s t with
      | None => set_bs s t (Some [])
      | Some pk =>
          let '(s1, l) :=
            fold_left (fun sl r => let '(s, l) := sl in
                         match fst (snd r) with
                         | Some a => if Nat.eqb a pk then let '(s', c) := load_B cfg s (fst r) (snd r) in (s', l ++ [c]) else (s, l)
                         | None => (s, l)
                         end) (rowsB cfg) (inc_sql s, []) in
          set_bs s1 t (Some l)
      end
  end.

(* ---------- attribute events ---------- *)
(* ScalarAttributeImpl.set : history + modified flag *)
Definition set_col (s : mstate) (t k : nat) (v : option Z) : mstate :=
  let old := match cols s t k with Some x => CVal x | None => CNov end in
  let s1 := match ccomm s t k with None => set_ccomm s t k (Some old) | Some _ => s end in
  set_cols (set_modf s1 t true) t k (Some v).

(* the "old" value of B.a an attribute event sees without emitting SQL (PASSIVE_NO_FETCH) *)
Definition cur_parent (s : mstate) (c : nat) : oldp :=
  match par s c with
  | Some v => OVal v
  | None =>
      match tkey s c with
      | None => ONov
      | Some _ =>
          match cols s c 2 with
          | Some None => OVal None
          | Some (Some z) => match idA s (Z.to_nat z) with Some q => OVal (Some q) | None => ONores end
          | None => ONores
          end
      end
  end.
Definition optnat_eqb (a b : option nat) : bool :=
  match a, b with Some x, Some y => Nat.eqb x y | None, None => true | _, _ => false end.
Definition oldp_is (o : oldp) (v : option nat) : bool := match o with OVal w => optnat_eqb w v | _ => false end.

(* backref: ScalarObjectAttributeImpl.set on B.a, fired from the collection of [A] *)
Definition set_parent (s : mstate) (c : nat) (newp : option nat) (remove_from_old : bool) (check_old : option nat) : mstate :=
  let old := cur_parent s c in
  let stop := match check_old with
              | Some q => match old with ONores => false | _ => negb (oldp_is old (Some q)) end
              | None => false
              end in
  if stop then s
  else
    let s1 :=
      if oldp_is old newp then s
      else match old with
           | OVal (Some q) =>
               if remove_from_old then
                 match bs s q with
                 | Some l => if mem c l then
                               let sa := match bscomm s q with None => set_bscomm s q (Some l) | Some _ => s end in
                               set_bs (set_modf sa q true) q (Some (remove1 c l))
                             else s
                 | None => set_poison s        (* pending mutation of an unloaded collection: not modelled *)
                 end
               else s
           | _ => s
           end in
    let s2 := match pcomm s1 c with None => set_pcomm s1 c (Some old) | Some _ => s1 end in
    set_par (set_modf s2 c true) c (Some newp).

(* CollectionAttributeImpl.set + collections.bulk_replace on A.bs *)
Definition coll_set (cfg : mconfig) (s : mstate) (t : nat) (new : list nat) : mstate :=
  let old := match bs s t with Some l => l | None => [] end in
  let s0 := match bscomm s t with None => set_bscomm s t (Some old) | Some _ => s end in
  let s1 := set_bs (set_modf s0 t true) t (Some []) in
  let constants := filter (fun c => mem c new) old in
  let s2 := fold_left (fun s m =>
                         let s' := if mem m constants then s
                                   else if hb cfg then set_parent s m (Some t) true None else s in
                         set_bs s' t (Some (match bs s' t with Some l => l | None => [] end ++ [m])))
                      new s1 in
  fold_left (fun s m => if mem m constants then s
                        else if hb cfg then set_parent s m None false (Some t) else s) old s2.

(* InstanceState._commit_all *)
Definition commit_all (s : mstate) (t : nat) : mstate :=
  mkM (next s) (tkey s) (tpend s) (cols s) (fun x k => if Nat.eqb x t then None else ccomm s x k) (bs s)
      (upd (bscomm s) t None) (par s) (upd (pcomm s) t None) (upd (modf s) t false) (idA s) (idB s) (pendings s) (sql s) (poison s).

(* ColumnProperty.merge *)
Definition merge_col (load : bool) (s : mstate) (t k : nat) (v : sattr (option Z)) : mstate :=
  match v with
  | SU => s
  | SV x => if load then set_col s t k x else set_cols s t k (Some x)
  end.

(* ---------- Session._merge ---------- *)
Record mctx := mkCtx { memo : list (nat * nat); cmap : list (nat * nat) }.   (* _recursive, _resolve_conflict_map *)

(* result None = InvalidRequestError (load=False with a transient source) *)
Definition merge_B (cfg : mconfig) (load : bool) (root_t : nat) (srcs : list srcB)
                   (acc : option (mstate * mctx * list nat)) (j : nat) : option (mstate * mctx * list nat) :=
  match acc with
  | None => None
  | Some (s, ctx, dest) =>
      match assoc j (memo ctx) with
      | Some t => Some (s, ctx, dest ++ [t])
      | None =>
          match nth_error srcs j with
          | None => Some (set_poison s, ctx, dest)
          | Some src =>
              if negb (sb_detached src) && negb load then None
              else
                let found := match sb_pk src with Some pk => idB s pk | None => None end in
                let '(s1, tgt) :=
                  match found with
                  | Some t => (s, Some t)
                  | None =>
                      match sb_pk src with
                      | Some pk =>
                          match assoc pk (cmap ctx) with
                          | Some t => (s, Some t)
                          | None =>
                              if negb load then
                                let '(sa, t) := alloc s in (set_idB (set_tkey sa t (Some pk)) pk (Some t), Some t)
                              else get_B cfg s pk
                          end
                      | None => (s, None)
                      end
                  end in
                let '(s2, t) := match tgt with
                                | Some t => (s1, t)
                                | None => let '(sa, t) := alloc s1 in (set_pending sa t, t)
                                end in
                let ctx' := mkCtx ((j, t) :: memo ctx)
                                  (match sb_pk src with Some pk => (pk, t) :: cmap ctx | None => cmap ctx end) in
                let s3 := match sb_pk src with Some pk => merge_col load s2 t 0 (SV (zpk pk)) | None => s2 end in
                let s4 := merge_col load s3 t 1 (sb_v src) in
                (* B.a.merge: skipped with load=True because the reverse property A.bs is being merged *)
                let s5 := if hb cfg && mb cfg && negb load then
                            match sb_a src with
                            | BPunloaded => s4
                            | BPnone => set_par s4 t (Some None)
                            | BPparent => set_par s4 t (Some (Some root_t))
                            end
                          else s4 in
                let s6 := if load then s5 else commit_all s5 t in
                Some (s6, ctx', dest ++ [t])
          end
      end
  end.

Definition merge_A (cfg : mconfig) (load : bool) (srcs : list srcB) (s : mstate) (src : srcA) : option (mstate * nat) :=
  if negb (sa_detached src) && negb load then None
  else
    let found := match sa_pk src with Some pk => idA s pk | None => None end in
    let '(s1, tgt) :=
      match found with
      | Some t => (s, Some t)
      | None =>
          match sa_pk src with
          | Some pk => if negb load then
                         let '(sa, t) := alloc s in (set_idA (set_tkey sa t (Some pk)) pk (Some t), Some t)
                       else get_A cfg s pk
          | None => (s, None)
          end
      end in
    let '(s2, t) := match tgt with
                    | Some t => (s1, t)
                    | None => let '(sa, t) := alloc s1 in (set_pending sa t, t)
                    end in
    let s3 := match sa_pk src with Some pk => merge_col load s2 t 0 (SV (zpk pk)) | None => s2 end in
    let s4 := merge_col load (merge_col load s3 t 1 (sa_x src)) t 2 (sa_y src) in
    let r :=
      match sa_bs src with
      | SV js =>
          if mf cfg then
            let s5 := if load then lazy_bs cfg s4 t else s4 in
            match fold_left (merge_B cfg load t srcs) js (Some (s5, mkCtx [] [], [])) with
            | None => None
            | Some (s6, _, dest) => Some (if load then coll_set cfg s6 t dest else set_bs s6 t (Some dest))
            end
          else Some s4
      | SU => Some s4
      end in
    match r with
    | None => None
    | Some s7 => Some (if load then s7 else commit_all s7 t, t)
    end.

(* ---------- operations of a history ---------- *)
Inductive mop :=
| MGetA (pk : nat) | MGetB (pk : nat) | MLoadBs (pk : nat)
| MSetX (pk : nat) (v : option Z) | MSetV (pk : nat) (v : option Z)
| MMerge (i : nat) (load : bool).

Definition dummyA := mkSA true None SU SU SU.

(* state after the operation and the merge result (None: no merge / error flagged separately) *)
Definition mstep (cfg : mconfig) (sas : list srcA) (sbs : list srcB) (s : mstate) (o : mop) : option mstate :=
  match o with
  | MGetA pk => Some (fst (get_A cfg s pk))
  | MGetB pk => Some (fst (get_B cfg s pk))
  | MLoadBs pk => let '(s1, r) := get_A cfg s pk in Some (match r with Some t => lazy_bs cfg s1 t | None => s1 end)
  | MSetX pk v => let '(s1, r) := get_A cfg s pk in Some (match r with Some t => set_col s1 t 1 v | None => s1 end)
  | MSetV pk v => let '(s1, r) := get_B cfg s pk in Some (match r with Some t => set_col s1 t 1 v | None => s1 end)
  | MMerge i load => option_map fst (merge_A cfg load sbs s (nth i sas dummyA))
  end.
