(* C43: the evaluator's Python value refines the SQL value on the typed, guarded fragment. *)
From Coq Require Import List ZArith NArith Bool Lia.
Import ListNotations.
From SAV.sql Require Import Val3 Val3Proofs InList InListSpecProofs.
From SAV.orm Require Import Evaluator.
Open Scope Z_scope.

(* ---------------------------------------------------------------------------------------- *)
(** * induction over expression trees *)
Section EX_IND.
Variable P : ex -> Prop.
Hypothesis Hcol : forall c, P (ECol c).
Hypothesis Hlit : forall t v, P (ELit t v).
Hypothesis Hnull : P ENull.
Hypothesis Htrue : P ETrue.
Hypothesis Hfalse : P EFalse.
Hypothesis Hbin : forall o a b, P a -> P b -> P (EBin o a b).
Hypothesis Hin : forall n a vs, P a -> P (EIn n a vs).
Hypothesis Hand : forall es, Forall P es -> P (EAnd es).
Hypothesis Hor : forall es, Forall P es -> P (EOr es).
Hypothesis Hnot : forall e, P e -> P (ENot e).
Hypothesis Hgroup : forall e, P e -> P (EGroup e).
Hypothesis Hother : P EOther.
Fixpoint ex_ind' (e : ex) : P e :=
  match e with
  | ECol c => Hcol c
  | ELit t v => Hlit t v
  | ENull => Hnull | ETrue => Htrue | EFalse => Hfalse
  | EBin o a b => Hbin o a b (ex_ind' a) (ex_ind' b)
  | EIn n a vs => Hin n a vs (ex_ind' a)
  | EAnd es => Hand es ((fix go (l : list ex) : Forall P l :=
                           match l with [] => Forall_nil P | x :: r => Forall_cons x (ex_ind' x) (go r) end) es)
  | EOr es => Hor es ((fix go (l : list ex) : Forall P l :=
                         match l with [] => Forall_nil P | x :: r => Forall_cons x (ex_ind' x) (go r) end) es)
  | ENot e1 => Hnot e1 (ex_ind' e1)
  | EGroup e1 => Hgroup e1 (ex_ind' e1)
  | EOther => Hother
  end.
End EX_IND.

(* ---------------------------------------------------------------------------------------- *)
(** * refinement between Python values and SQL values *)
Inductive rel : pyv -> sv -> Prop :=
| rel_none : rel VNone SNull
| rel_bool : forall b, rel (VBool b) (SInt (b2z b))
| rel_int : forall z, rel (VInt z) (SInt z)
| rel_str : forall s, rel (VStr s) (SText s).

Definition pv_has (t : sty) (v : pyv) : Prop :=
  match v, t with
  | VNone, _ => True
  | VInt _, TyInt => True
  | VStr _, TyStr => True
  | VBool _, TyBool => True
  | _, _ => False
  end.

Lemma rel_of_sv v : rel (of_sv v) v.
Proof. destruct v; constructor. Qed.
Lemma rel_to_attr v s : rel v s -> to_attr v = Loaded s.
Proof. intros H. destruct H; reflexivity. Qed.
Lemma pv_not_exp t v : pv_has t v -> is_exp v = false.
Proof. destruct v, t; cbn; intros H; try reflexivity; destruct H. Qed.

(* ---------------------------------------------------------------------------------------- *)
(** * LIKE against a literal prefix / suffix *)
Lemma lower_ceq c x : negb (N.leb 65 c && N.leb c 90)%N = true -> negb (N.leb 65 x && N.leb x 90)%N = true ->
  ceq c x = N.eqb c x.
Proof.
  intros Hc Hx. unfold ceq, upper.
  apply negb_true_iff in Hc. apply negb_true_iff in Hx.
  destruct (N.leb 97 c && N.leb c 122)%N eqn:Ec; destruct (N.leb 97 x && N.leb x 122)%N eqn:Ex.
  - apply andb_true_iff in Ec as [E1 E2]. apply andb_true_iff in Ex as [E3 E4].
    apply N.leb_le in E1, E2, E3, E4.
    destruct (N.eqb c x) eqn:E; [apply N.eqb_eq in E; subst; apply N.eqb_refl|].
    apply N.eqb_neq in E. apply N.eqb_neq. lia.
  - apply andb_true_iff in Ec as [E1 E2]. apply N.leb_le in E1, E2.
    apply andb_false_iff in Hx. apply andb_false_iff in Ex.
    destruct (N.eqb c x) eqn:E.
    + apply N.eqb_eq in E. subst. destruct Ex as [Ex|Ex]; apply N.leb_gt in Ex; lia.
    + apply N.eqb_neq in E. apply N.eqb_neq. intros H.
      destruct Hx as [Hx|Hx]; apply N.leb_gt in Hx; destruct Ex as [Ex|Ex]; apply N.leb_gt in Ex; lia.
  - apply andb_true_iff in Ex as [E1 E2]. apply N.leb_le in E1, E2.
    apply andb_false_iff in Hc. apply andb_false_iff in Ec.
    destruct (N.eqb c x) eqn:E.
    + apply N.eqb_eq in E. subst. destruct Ec as [Ec|Ec]; apply N.leb_gt in Ec; lia.
    + apply N.eqb_neq in E. apply N.eqb_neq. intros H.
      destruct Hc as [Hc|Hc]; apply N.leb_gt in Hc; destruct Ec as [Ec|Ec]; apply N.leb_gt in Ec; lia.
  - reflexivity.
Qed.

Definition like_any (p : list N) : list N -> bool :=
  fix any (s : list N) : bool := like p s || match s with [] => false | _ :: s' => any s' end.
Lemma like_pct p s : like (pct :: p) s = like_any p s.
Proof. reflexivity. Qed.
Lemma like_any_nil s : like_any [] s = true.
Proof. induction s as [|x s IH]; cbn [like_any like]; [reflexivity|]. cbn [orb]. exact IH. Qed.

Lemma like_cons_plain c p x s : N.eqb c pct = false -> N.eqb c und = false ->
  like (c :: p) (x :: s) = ceq c x && like p s.
Proof. intros H1 H2. cbn [like]. now rewrite H1, H2. Qed.
Lemma like_cons_nil c p : N.eqb c pct = false -> like (c :: p) [] = false.
Proof. intros H1. cbn [like]. now rewrite H1. Qed.

Lemma like_prefix y x : no_wild y = true -> lower_only x = true -> lower_only y = true ->
  like (y ++ [pct]) x = prefixb y x.
Proof.
  revert x. induction y as [|c y IH]; intros x Hw Hx Hy.
  - cbn [app]. rewrite like_pct, like_any_nil. now destruct x.
  - cbn [no_wild forallb] in Hw. apply andb_true_iff in Hw as [Hc Hw].
    apply negb_true_iff in Hc. apply orb_false_iff in Hc as [Hc1 Hc2].
    cbn [lower_only forallb] in Hy. apply andb_true_iff in Hy as [Hcl Hy].
    cbn [app]. destruct x as [|a x].
    + rewrite like_cons_nil by assumption. reflexivity.
    + cbn [lower_only forallb] in Hx. apply andb_true_iff in Hx as [Hal Hx].
      rewrite like_cons_plain by assumption. cbn [prefixb].
      rewrite (lower_ceq c a Hcl Hal). f_equal. now apply IH.
Qed.

(* without wildcards LIKE is an exact (case-folded) comparison *)
Lemma like_exact y x : no_wild y = true -> lower_only x = true -> lower_only y = true ->
  like y x = text_eqb x y.
Proof.
  revert x. induction y as [|c y IH]; intros x Hw Hx Hy.
  - now destruct x.
  - cbn [no_wild forallb] in Hw. apply andb_true_iff in Hw as [Hc Hw].
    apply negb_true_iff in Hc. apply orb_false_iff in Hc as [Hc1 Hc2].
    cbn [lower_only forallb] in Hy. apply andb_true_iff in Hy as [Hcl Hy].
    destruct x as [|a x].
    + rewrite like_cons_nil by assumption. reflexivity.
    + cbn [lower_only forallb] in Hx. apply andb_true_iff in Hx as [Hal Hx].
      rewrite like_cons_plain by assumption. cbn [text_eqb].
      rewrite (lower_ceq c a Hcl Hal). rewrite N.eqb_sym. f_equal. now apply IH.
Qed.

Lemma like_suffix y x : no_wild y = true -> lower_only x = true -> lower_only y = true ->
  like (pct :: y) x = suffixb y x.
Proof.
  intros Hw Hx Hy. rewrite like_pct. induction x as [|a x IH].
  - cbn [like_any suffixb]. rewrite (like_exact y [] Hw eq_refl Hy). now rewrite orb_false_r.
  - cbn [like_any suffixb]. rewrite (like_exact y (a :: x) Hw Hx Hy).
    cbn [lower_only forallb] in Hx. apply andb_true_iff in Hx as [_ Hx]. f_equal. now apply IH.
Qed.

(* ---------------------------------------------------------------------------------------- *)
(** * IN over scalars *)
Lemma row_eq3_single a v : row_eq3 [a] [v] = eq3 a v.
Proof. cbn [row_eq3]. apply and3_TT_r. Qed.

Lemma or_eq_scalar a vs : or_eq [a] (map (fun v => [v]) vs) = fold_right (fun v acc => or3 (eq3 a v) acc) TF vs.
Proof.
  unfold or_eq. induction vs as [|v vs IH]; [reflexivity|].
  cbn [map fold_right]. now rewrite row_eq3_single, IH.
Qed.

Lemma in_sem_scalar_null vs : vs <> [] -> in_sem [SNull] (map (fun v => [v]) vs) = TU.
Proof.
  intros Hne. rewrite in_is_or_of_eq, or_eq_scalar.
  destruct vs as [|v vs]; [congruence|]. clear Hne. revert v.
  induction vs as [|w vs IH]; intro v; cbn [fold_right]; [reflexivity|].
  specialize (IH w). cbn [fold_right] in IH. cbn [eq3] in *. now rewrite IH.
Qed.

Lemma eq3_sv_eqb a v : a <> SNull -> v <> SNull -> eq3 a v = tv_of_bool (sv_eqb a v).
Proof. destruct a, v; intros; try congruence; reflexivity. Qed.

Lemma in_sem_scalar a vs : a <> SNull ->
  in_sem [a] (map (fun v => [v]) vs) = if existsb (sv_eqb a) vs then TT else if has_null vs then TU else TF.
Proof.
  intros Ha. rewrite in_is_or_of_eq, or_eq_scalar. unfold has_null.
  induction vs as [|v vs IH]; [reflexivity|].
  cbn [fold_right existsb]. rewrite IH. clear IH.
  destruct v as [|z|s].
  - rewrite eq3_null_r. replace (sv_eqb a SNull) with false by (now destruct a). cbn [orb].
    destruct (existsb (sv_eqb a) vs); [reflexivity|]. destruct (existsb _ vs); reflexivity.
  - rewrite eq3_sv_eqb by (assumption || discriminate). destruct (sv_eqb a (SInt z)); cbn [tv_of_bool orb or3]; [reflexivity|].
    destruct (existsb (sv_eqb a) vs); [reflexivity|]. destruct (existsb _ vs); reflexivity.
  - rewrite eq3_sv_eqb by (assumption || discriminate). destruct (sv_eqb a (SText s)); cbn [tv_of_bool orb or3]; [reflexivity|].
    destruct (existsb (sv_eqb a) vs); [reflexivity|]. destruct (existsb _ vs); reflexivity.
Qed.

Lemma py_eq_of_sv a v : py_eq (of_sv a) (of_sv v) = sv_eqb a v.
Proof. destruct a, v; reflexivity. Qed.
Lemma py_in_of_sv a vs : py_in (of_sv a) vs = existsb (sv_eqb a) vs.
Proof. unfold py_in. induction vs as [|v vs IH]; cbn [existsb]; [reflexivity|]. now rewrite py_eq_of_sv, IH. Qed.

Lemma rel_val_of_sv t v s : rel v s -> pv_has t v -> (val_ty t = true \/ t = TyNull) -> v = of_sv s.
Proof.
  intros Hr Hp Ht. destruct Hr; try reflexivity.
  destruct t; cbn in Hp; try (now destruct Hp); destruct Ht as [Ht|Ht]; discriminate.
Qed.

Lemma sv_of_tv_bool b : sv_of_tv (tv_of_bool b) = SInt (b2z b).
Proof. now destruct b. Qed.

(* ---------------------------------------------------------------------------------------- *)
(** * AND / OR loops *)
Definition and_go (o : obj) : list ex -> bool -> pyres :=
  fix go (l : list ex) (has_null : bool) : pyres :=
    match l with
    | [] => if has_null then POk VNone else POk (VBool true)
    | x :: r =>
        pbind (run x o) (fun v =>
        if is_exp v then POk VExp
        else if truthy v then go r has_null
        else if is_none v then go r true
        else POk (VBool false))
    end.
Definition or_go (o : obj) : list ex -> bool -> pyres :=
  fix go (l : list ex) (has_null : bool) : pyres :=
    match l with
    | [] => if has_null then POk VNone else POk (VBool false)
    | x :: r =>
        pbind (run x o) (fun v =>
        if is_exp v then POk VExp
        else if truthy v then POk (VBool true)
        else go r (has_null || is_none v))
    end.
Lemma run_and es o : run (EAnd es) o = and_go o es false.
Proof. reflexivity. Qed.
Lemma run_or es o : run (EOr es) o = or_go o es false.
Proof. reflexivity. Qed.

Definition and_sem (r : row) : list ex -> tv :=
  fix go (l : list ex) : tv := match l with [] => TT | x :: t => and3 (tv_of_sv (sem x r)) (go t) end.
Definition or_sem (r : row) : list ex -> tv :=
  fix go (l : list ex) : tv := match l with [] => TF | x :: t => or3 (tv_of_sv (sem x r)) (go t) end.
Lemma sem_and es r : sem (EAnd es) r = sv_of_tv (and_sem r es).
Proof. reflexivity. Qed.
Lemma sem_or es r : sem (EOr es) r = sv_of_tv (or_sem r es).
Proof. reflexivity. Qed.

Definition boolish (o : obj) (r : row) (x : ex) : Prop :=
  exists v, run x o = POk v /\ rel v (sem x r) /\ pv_has TyBool v.

Lemma rel_sv_of_tv_cases v s : rel v s -> pv_has TyBool v ->
  (v = VNone /\ tv_of_sv s = TU) \/ (v = VBool true /\ tv_of_sv s = TT) \/ (v = VBool false /\ tv_of_sv s = TF).
Proof.
  intros Hr Hp. destruct Hr; cbn in Hp; try (now destruct Hp).
  - now left.
  - destruct b; [right; left|right; right]; split; reflexivity.
Qed.

Lemma and_go_ok o r es : Forall (boolish o r) es -> forall hn,
  exists v, and_go o es hn = POk v /\ rel v (sv_of_tv (and3 (if hn then TU else TT) (and_sem r es))) /\ pv_has TyBool v.
Proof.
  intros H. induction H as [|x es (v & Hv & Hr & Hp) H IH]; intros hn.
  - cbn [and_go and_sem]. destruct hn; eexists; (split; [reflexivity|]); split; try exact I; constructor.
  - cbn [and_go and_sem]. rewrite Hv. cbn [pbind].
    destruct (rel_sv_of_tv_cases _ _ Hr Hp) as [[-> Ht]|[[-> Ht]|[-> Ht]]]; rewrite Ht; cbn [is_exp truthy is_none].
    + destruct (IH true) as (w & Hw & Hrw & Hpw). exists w. split; [exact Hw|]. split; [|exact Hpw].
      cbn [and3] in Hrw. destruct hn; destruct (and_sem r es); exact Hrw.
    + destruct (IH hn) as (w & Hw & Hrw & Hpw). exists w. split; [exact Hw|]. split; [|exact Hpw].
      now rewrite and3_TT_l.
    + eexists. split; [reflexivity|]. split; [|exact I].
      replace (and3 (if hn then TU else TT) (and3 TF (and_sem r es))) with TF by (destruct hn; reflexivity).
      apply (rel_bool false).
Qed.

Lemma or_go_ok o r es : Forall (boolish o r) es -> forall hn,
  exists v, or_go o es hn = POk v /\ rel v (sv_of_tv (or3 (if hn then TU else TF) (or_sem r es))) /\ pv_has TyBool v.
Proof.
  intros H. induction H as [|x es (v & Hv & Hr & Hp) H IH]; intros hn.
  - cbn [or_go or_sem]. destruct hn; eexists; (split; [reflexivity|]); split; try exact I; constructor.
  - cbn [or_go or_sem]. rewrite Hv. cbn [pbind].
    destruct (rel_sv_of_tv_cases _ _ Hr Hp) as [[-> Ht]|[[-> Ht]|[-> Ht]]]; rewrite Ht; cbn [is_exp truthy is_none].
    + destruct (IH (hn || true)) as (w & Hw & Hrw & Hpw). exists w. split; [exact Hw|]. split; [|exact Hpw].
      rewrite orb_true_r in Hrw. destruct hn; destruct (or_sem r es); exact Hrw.
    + eexists. split; [reflexivity|]. split; [|exact I].
      replace (or3 (if hn then TU else TF) (or3 TT (or_sem r es))) with TT by (destruct hn; reflexivity).
      apply (rel_bool true).
    + destruct (IH (hn || false)) as (w & Hw & Hrw & Hpw). exists w. split; [exact Hw|]. split; [|exact Hpw].
      rewrite orb_false_r in Hrw. now rewrite or3_TF_l.
Qed.

(* ---------------------------------------------------------------------------------------- *)
(** * facts about typing *)
Lemma all_check_forall sc es :
  (fix all (l : list ex) : bool := match l with [] => true | x :: r => check sc x && all r end) es = true ->
  Forall (fun x => check sc x = true) es.
Proof.
  induction es as [|x es IH]; intros H; constructor.
  - now apply andb_true_iff in H as [H _].
  - apply IH. now apply andb_true_iff in H as [_ H].
Qed.
Lemma all_wt_forall sc es :
  (fix all (l : list ex) : bool :=
     match l with [] => true | x :: r => match wt' sc x with Some TyBool => all r | _ => false end end) es = true ->
  Forall (fun x => wt' sc x = Some TyBool) es.
Proof.
  induction es as [|x es IH]; intros H; constructor.
  - destruct (wt' sc x) as [[]|]; try discriminate. reflexivity.
  - apply IH. destruct (wt' sc x) as [[]|]; try discriminate. exact H.
Qed.
Lemma all_guard_forall es r :
  (fix all (l : list ex) : bool := match l with [] => true | x :: t => guard x r && all t end) es = true ->
  Forall (fun x => guard x r = true) es.
Proof.
  induction es as [|x es IH]; intros H; constructor.
  - now apply andb_true_iff in H as [H _].
  - apply IH. now apply andb_true_iff in H as [_ H].
Qed.

Lemma pv_has_lit t v : pv_has (lit_ty t v) (of_sv v).
Proof. destruct v; cbn; exact I. Qed.
Lemma pv_has_col sc r c : row_ok sc r -> val_ty (sc c) = true -> pv_has (sc c) (of_sv (r c)).
Proof.
  intros Hr Hv. specialize (Hr c). destruct (r c), (sc c); cbn in *; try exact I; discriminate.
Qed.

(* a value of an int-like / str-like type *)
Lemma intlike_cases t v s : intlike t = true -> pv_has t v -> rel v s ->
  (v = VNone /\ s = SNull) \/ exists z, v = VInt z /\ s = SInt z.
Proof.
  intros Ht Hp Hr. destruct Hr; destruct t; cbn in *; try discriminate; try (now destruct Hp);
    try (left; now split); right; eexists; split; reflexivity.
Qed.
Lemma strlike_cases t v s : strlike t = true -> pv_has t v -> rel v s ->
  (v = VNone /\ s = SNull) \/ exists z, v = VStr z /\ s = SText z.
Proof.
  intros Ht Hp Hr. destruct Hr; destruct t; cbn in *; try discriminate; try (now destruct Hp);
    try (left; now split); right; eexists; split; reflexivity.
Qed.
(* operands of a comparison: one of them NULL, or two ints, or two strings *)
Lemma compat_cases ta tb va vb sa sb : compat ta tb = true -> pv_has ta va -> pv_has tb vb -> rel va sa -> rel vb sb ->
  (va = VNone /\ sa = SNull) \/ (vb = VNone /\ sb = SNull) \/
  (exists x y, va = VInt x /\ sa = SInt x /\ vb = VInt y /\ sb = SInt y) \/
  (exists x y, va = VStr x /\ sa = SText x /\ vb = VStr y /\ sb = SText y).
Proof.
  intros Hc Ha Hb Hra Hrb.
  destruct Hra; [left; now split| | |]; destruct Hrb; try (right; left; now split);
    destruct ta, tb; cbn in *; try discriminate; try (now destruct Ha); try (now destruct Hb).
  - right; right; left. now eexists _, _.
  - right; right; right. now eexists _, _.
Qed.

Lemma compat_of_sv ta tb va s : compat ta tb = true \/ compat tb ta = true -> pv_has ta va -> rel va s -> va = of_sv s.
Proof.
  intros Hc Hp Hr. destruct Hr; try reflexivity.
  destruct ta; cbn in Hp; try (now destruct Hp). destruct Hc as [Hc|Hc]; destruct tb; discriminate.
Qed.

(* ---------------------------------------------------------------------------------------- *)
(** * MAIN: value refinement *)
Definition faithful_at (sc : schema) (r : row) (e : ex) : Prop :=
  forall t, wt' sc e = Some t -> check sc e = true -> guard e r = true ->
  exists v, run e (obj_of r) = POk v /\ rel v (sem e r) /\ pv_has t v.

Lemma run_bin o a b ob va vb : run a ob = POk va -> run b ob = POk vb ->
  run (EBin o a b) ob =
  match o with
  | OIs => if is_exp va || is_exp vb then POk VExp else POk (VBool (py_eq va vb))
  | OIsNot => if is_exp va || is_exp vb then POk VExp else POk (VBool (negb (py_eq va vb)))
  | _ => if is_exp va || is_exp vb then POk VExp
         else if is_none va || is_none vb then POk VNone else py_binop o va vb
  end.
Proof. intros Ha Hb. cbn [run]. rewrite Ha, Hb. cbn [pbind]. now destruct o. Qed.

Ltac done_val := eexists; split; [reflexivity|]; split; [|exact I]; try constructor.

Theorem faithful sc r : row_ok sc r -> forall e, faithful_at sc r e.
Proof.
  intros Hrow. apply ex_ind'; unfold faithful_at.
  - (* ECol *) intros c t Hw _ _. cbn [wt'] in Hw. destruct (val_ty (sc c)) eqn:Hv; [|discriminate].
    inversion Hw; subst t. exists (of_sv (r c)). split; [reflexivity|]. split; [apply rel_of_sv|now apply pv_has_col].
  - (* ELit *) intros t0 v t Hw _ _. inversion Hw; subst t. exists (of_sv v). split; [reflexivity|].
    split; [apply rel_of_sv|apply pv_has_lit].
  - intros t Hw _ _. inversion Hw; subst. done_val.
  - intros t Hw _ _. inversion Hw; subst. eexists; split; [reflexivity|]; split; [apply (rel_bool true)|exact I].
  - intros t Hw _ _. inversion Hw; subst. eexists; split; [reflexivity|]; split; [apply (rel_bool false)|exact I].
  - (* EBin *)
    intros o a b IHa IHb t Hw Hc Hg.
    cbn [wt'] in Hw. destruct (wt' sc a) as [ta|] eqn:Hta; [|discriminate]. destruct (wt' sc b) as [tb|] eqn:Htb; [|discriminate].
    cbn [check] in Hc. apply andb_true_iff in Hc as [Hc Hco]. apply andb_true_iff in Hc as [Hca Hcb].
    cbn [guard] in Hg. apply andb_true_iff in Hg as [Hg Hgo]. apply andb_true_iff in Hg as [Hga Hgb].
    destruct (IHa ta eq_refl Hca Hga) as (va & Hva & Hra & Hpa).
    destruct (IHb tb eq_refl Hcb Hgb) as (vb & Hvb & Hrb & Hpb).
    rewrite (run_bin o a b _ va vb Hva Hvb).
    rewrite (pv_not_exp _ _ Hpa), (pv_not_exp _ _ Hpb). cbn [orb sem].
    destruct o; try discriminate.
    + (* OAdd *) destruct (intlike ta && intlike tb) eqn:E; [|discriminate]. inversion Hw; subst t.
      apply andb_true_iff in E as [E1 E2].
      destruct (intlike_cases _ _ _ E1 Hpa Hra) as [[-> ->]|(x & -> & ->)]; [done_val|].
      destruct (intlike_cases _ _ _ E2 Hpb Hrb) as [[-> ->]|(y & -> & ->)]; done_val.
    + (* OSub *) destruct (intlike ta && intlike tb) eqn:E; [|discriminate]. inversion Hw; subst t.
      apply andb_true_iff in E as [E1 E2].
      destruct (intlike_cases _ _ _ E1 Hpa Hra) as [[-> ->]|(x & -> & ->)]; [done_val|].
      destruct (intlike_cases _ _ _ E2 Hpb Hrb) as [[-> ->]|(y & -> & ->)]; done_val.
    + (* OMul *) destruct (intlike ta && intlike tb) eqn:E; [|discriminate]. inversion Hw; subst t.
      apply andb_true_iff in E as [E1 E2].
      destruct (intlike_cases _ _ _ E1 Hpa Hra) as [[-> ->]|(x & -> & ->)]; [done_val|].
      destruct (intlike_cases _ _ _ E2 Hpb Hrb) as [[-> ->]|(y & -> & ->)]; done_val.
    + (* OMod *) destruct (intlike ta && intlike tb) eqn:E; [|discriminate]. inversion Hw; subst t.
      apply andb_true_iff in E as [E1 E2].
      destruct (intlike_cases _ _ _ E1 Hpa Hra) as [[-> Ha]|(x & -> & Ha)]; rewrite Ha in *; [done_val|].
      destruct (intlike_cases _ _ _ E2 Hpb Hrb) as [[-> Hb]|(y & -> & Hb)]; rewrite Hb in *; [done_val|].
      cbn [mod_safe] in Hgo. apply andb_true_iff in Hgo as [Hy Hm]. apply negb_true_iff in Hy. apply Z.eqb_eq in Hm.
      cbn [is_none orb py_binop py_mod as_int sql_mod]. rewrite Hy, Hm. done_val.
    + (* OLt *) destruct (compat ta tb) eqn:E; [|discriminate]. inversion Hw; subst t.
      destruct (compat_cases _ _ _ _ _ _ E Hpa Hpb Hra Hrb) as [[-> ->]|[[-> ->]|[(x & y & -> & -> & -> & ->)|(x & y & -> & -> & -> & ->)]]].
      * done_val.
      * rewrite orb_true_r. eexists; split; [reflexivity|]; split; [|exact I].
        rewrite ?eq3_null_r. destruct (sem a r); constructor.
      * cbn [is_none orb py_binop py_cmp as_int sql_cmp]; rewrite sv_of_tv_bool; done_val.
      * cbn [is_none orb py_binop py_cmp as_int sql_cmp]; rewrite sv_of_tv_bool; done_val.
    + (* OLe *) destruct (compat ta tb) eqn:E; [|discriminate]. inversion Hw; subst t.
      destruct (compat_cases _ _ _ _ _ _ E Hpa Hpb Hra Hrb) as [[-> ->]|[[-> ->]|[(x & y & -> & -> & -> & ->)|(x & y & -> & -> & -> & ->)]]].
      * done_val.
      * rewrite orb_true_r. eexists; split; [reflexivity|]; split; [|exact I].
        rewrite ?eq3_null_r. destruct (sem a r); constructor.
      * cbn [is_none orb py_binop py_cmp as_int sql_cmp]; rewrite sv_of_tv_bool; done_val.
      * cbn [is_none orb py_binop py_cmp as_int sql_cmp]; rewrite sv_of_tv_bool; done_val.
    + (* ONe *) destruct (compat ta tb) eqn:E; [|discriminate]. inversion Hw; subst t.
      destruct (compat_cases _ _ _ _ _ _ E Hpa Hpb Hra Hrb) as [[-> ->]|[[-> ->]|[(x & y & -> & -> & -> & ->)|(x & y & -> & -> & -> & ->)]]].
      * done_val.
      * rewrite orb_true_r. eexists; split; [reflexivity|]; split; [|exact I].
        rewrite ?eq3_null_r. destruct (sem a r); constructor.
      * cbn [is_none orb py_binop py_eq as_int eq3]; destruct (Z.eqb x y); cbn [tv_of_bool not3 sv_of_tv negb]; eexists; (split; [reflexivity|]); split; try exact I; [apply (rel_bool false)|apply (rel_bool true)].
      * cbn [is_none orb py_binop py_eq as_int eq3]; destruct (text_eqb x y); cbn [tv_of_bool not3 sv_of_tv negb]; eexists; (split; [reflexivity|]); split; try exact I; [apply (rel_bool false)|apply (rel_bool true)].
    + (* OGt *) destruct (compat ta tb) eqn:E; [|discriminate]. inversion Hw; subst t.
      destruct (compat_cases _ _ _ _ _ _ E Hpa Hpb Hra Hrb) as [[-> ->]|[[-> ->]|[(x & y & -> & -> & -> & ->)|(x & y & -> & -> & -> & ->)]]].
      * done_val.
      * rewrite orb_true_r. eexists; split; [reflexivity|]; split; [|exact I].
        rewrite ?eq3_null_r. destruct (sem a r); constructor.
      * cbn [is_none orb py_binop py_cmp as_int sql_cmp]; rewrite sv_of_tv_bool; done_val.
      * cbn [is_none orb py_binop py_cmp as_int sql_cmp]; rewrite sv_of_tv_bool; done_val.
    + (* OGe *) destruct (compat ta tb) eqn:E; [|discriminate]. inversion Hw; subst t.
      destruct (compat_cases _ _ _ _ _ _ E Hpa Hpb Hra Hrb) as [[-> ->]|[[-> ->]|[(x & y & -> & -> & -> & ->)|(x & y & -> & -> & -> & ->)]]].
      * done_val.
      * rewrite orb_true_r. eexists; split; [reflexivity|]; split; [|exact I].
        rewrite ?eq3_null_r. destruct (sem a r); constructor.
      * cbn [is_none orb py_binop py_cmp as_int sql_cmp]; rewrite sv_of_tv_bool; done_val.
      * cbn [is_none orb py_binop py_cmp as_int sql_cmp]; rewrite sv_of_tv_bool; done_val.
    + (* OEq *) destruct (compat ta tb) eqn:E; [|discriminate]. inversion Hw; subst t.
      destruct (compat_cases _ _ _ _ _ _ E Hpa Hpb Hra Hrb) as [[-> ->]|[[-> ->]|[(x & y & -> & -> & -> & ->)|(x & y & -> & -> & -> & ->)]]].
      * done_val.
      * rewrite orb_true_r. eexists; split; [reflexivity|]; split; [|exact I].
        rewrite ?eq3_null_r. destruct (sem a r); constructor.
      * cbn [is_none orb py_binop py_eq as_int eq3]; rewrite sv_of_tv_bool; done_val.
      * cbn [is_none orb py_binop py_eq as_int eq3]; rewrite sv_of_tv_bool; done_val.
    + (* OIs *) destruct (compat ta tb) eqn:E; [|discriminate]. inversion Hw; subst t.
      rewrite (compat_of_sv ta tb va _ (or_introl E) Hpa Hra), (compat_of_sv tb ta vb _ (or_intror E) Hpb Hrb).
      rewrite py_eq_of_sv. unfold sql_is. done_val.
    + (* OIsNot *) destruct (compat ta tb) eqn:E; [|discriminate]. inversion Hw; subst t.
      rewrite (compat_of_sv ta tb va _ (or_introl E) Hpa Hra), (compat_of_sv tb ta vb _ (or_intror E) Hpb Hrb).
      rewrite py_eq_of_sv. unfold sql_is. done_val.
    + (* OConcat *) destruct (strlike ta && strlike tb) eqn:E; [|discriminate]. inversion Hw; subst t.
      apply andb_true_iff in E as [E1 E2].
      destruct (strlike_cases _ _ _ E1 Hpa Hra) as [[-> ->]|(x & -> & ->)]; [done_val|].
      destruct (strlike_cases _ _ _ E2 Hpb Hrb) as [[-> ->]|(y & -> & ->)]; done_val.
    + (* OStartsWith *) destruct (strlike ta && strlike tb) eqn:E; [|discriminate]. inversion Hw; subst t.
      apply andb_true_iff in E as [E1 E2].
      destruct (strlike_cases _ _ _ E1 Hpa Hra) as [[-> Ha]|(x & -> & Ha)]; rewrite Ha in *.
      { destruct (strlike_cases _ _ _ E2 Hpb Hrb) as [[-> Hb]|(y & -> & Hb)]; rewrite Hb; done_val. }
      destruct (strlike_cases _ _ _ E2 Hpb Hrb) as [[-> Hb]|(y & -> & Hb)]; rewrite Hb in *; [done_val|].
      cbn [like_safe] in Hgo. apply andb_true_iff in Hgo as [Hgo Hly]. apply andb_true_iff in Hgo as [Hnw Hlx].
      cbn [is_none orb py_binop py_startswith sql_concat sql_like].
      rewrite (like_prefix y x Hnw Hlx Hly), sv_of_tv_bool. done_val.
    + (* OEndsWith *) destruct (strlike ta && strlike tb) eqn:E; [|discriminate]. inversion Hw; subst t.
      apply andb_true_iff in E as [E1 E2].
      destruct (strlike_cases _ _ _ E1 Hpa Hra) as [[-> Ha]|(x & -> & Ha)]; rewrite Ha in *.
      { destruct (strlike_cases _ _ _ E2 Hpb Hrb) as [[-> Hb]|(y & -> & Hb)]; rewrite Hb; done_val. }
      destruct (strlike_cases _ _ _ E2 Hpb Hrb) as [[-> Hb]|(y & -> & Hb)]; rewrite Hb in *; [done_val|].
      cbn [like_safe] in Hgo. apply andb_true_iff in Hgo as [Hgo Hly]. apply andb_true_iff in Hgo as [Hnw Hlx].
      cbn [is_none orb py_binop py_endswith sql_concat sql_like app].
      rewrite (like_suffix y x Hnw Hlx Hly), sv_of_tv_bool. done_val.
  - (* EIn *)
    intros neg a vs IHa t Hw Hc Hg.
    cbn [wt'] in Hw. destruct (wt' sc a) as [ta|] eqn:Hta; [|discriminate].
    destruct ((val_ty ta || sty_eqb ta TyNull) && _) eqn:E; [|discriminate]. inversion Hw; subst t.
    apply andb_true_iff in E as [E1 E2].
    cbn [check] in Hc. cbn [guard] in Hg. apply andb_true_iff in Hg as [Hga Hgo].
    destruct (IHa ta eq_refl Hc Hga) as (va & Hva & Hra & Hpa).
    assert (Hof : va = of_sv (sem a r)).
    { apply (rel_val_of_sv ta); try assumption. apply orb_true_iff in E1 as [E1|E1]; [now left|right]. now destruct ta. }
    cbn [run sem]. rewrite Hva. cbn [pbind]. rewrite (pv_not_exp _ _ Hpa).
    destruct (sem a r) as [|z|s] eqn:Hs; subst va; cbn [of_sv is_none].
    + cbn [in_safe] in Hgo. apply negb_true_iff in Hgo.
      rewrite in_sem_scalar_null by (destruct vs; [discriminate|discriminate]).
      destruct neg; done_val.
    + rewrite (in_sem_scalar (SInt z) vs) by discriminate. change (VInt z) with (of_sv (SInt z)). rewrite py_in_of_sv.
      fold (has_null vs).
      destruct (existsb (sv_eqb (SInt z)) vs); [|destruct (has_null vs)];
        destruct neg; eexists; (split; [reflexivity|]); split; try exact I;
        try apply (rel_bool false); try apply (rel_bool true); constructor.
    + rewrite (in_sem_scalar (SText s) vs) by discriminate. change (VStr s) with (of_sv (SText s)). rewrite py_in_of_sv.
      fold (has_null vs).
      destruct (existsb (sv_eqb (SText s)) vs); [|destruct (has_null vs)];
        destruct neg; eexists; (split; [reflexivity|]); split; try exact I;
        try apply (rel_bool false); try apply (rel_bool true); constructor.
  - (* EAnd *)
    intros es IH t Hw Hc Hg. cbn [wt'] in Hw.
    destruct ((fix all (l : list ex) : bool := match l with [] => true | x :: r0 => match wt' sc x with Some TyBool => all r0 | _ => false end end) es) eqn:E; [|discriminate].
    inversion Hw; subst t.
    pose proof (all_wt_forall sc es E) as Hwt. pose proof (all_check_forall sc es Hc) as Hck. pose proof (all_guard_forall es r Hg) as Hgd.
    assert (HB : Forall (boolish (obj_of r) r) es).
    { clear E Hw Hc Hg. induction IH as [|x es Hx IH IHes]; constructor.
      - inversion Hwt; inversion Hck; inversion Hgd; subst. now apply Hx.
      - inversion Hwt; inversion Hck; inversion Hgd; subst. now apply IHes. }
    rewrite run_and, sem_and. destruct (and_go_ok _ _ _ HB false) as (v & Hv & Hr & Hp).
    exists v. split; [exact Hv|]. split; [|exact Hp]. now rewrite and3_TT_l in Hr.
  - (* EOr *)
    intros es IH t Hw Hc Hg. cbn [wt'] in Hw.
    destruct ((fix all (l : list ex) : bool := match l with [] => true | x :: r0 => match wt' sc x with Some TyBool => all r0 | _ => false end end) es) eqn:E; [|discriminate].
    inversion Hw; subst t.
    pose proof (all_wt_forall sc es E) as Hwt. pose proof (all_check_forall sc es Hc) as Hck. pose proof (all_guard_forall es r Hg) as Hgd.
    assert (HB : Forall (boolish (obj_of r) r) es).
    { clear E Hw Hc Hg. induction IH as [|x es Hx IH IHes]; constructor.
      - inversion Hwt; inversion Hck; inversion Hgd; subst. now apply Hx.
      - inversion Hwt; inversion Hck; inversion Hgd; subst. now apply IHes. }
    rewrite run_or, sem_or. destruct (or_go_ok _ _ _ HB false) as (v & Hv & Hr & Hp).
    exists v. split; [exact Hv|]. split; [|exact Hp]. now rewrite or3_TF_l in Hr.
  - (* ENot *)
    intros e IH t Hw Hc Hg. cbn [wt'] in Hw. destruct (wt' sc e) as [[]|] eqn:Ht; try discriminate. inversion Hw; subst t.
    destruct (IH TyBool eq_refl Hc Hg) as (v & Hv & Hr & Hp).
    cbn [run sem]. rewrite Hv. cbn [pbind].
    destruct (rel_sv_of_tv_cases _ _ Hr Hp) as [[-> Ht']|[[-> Ht']|[-> Ht']]]; rewrite Ht'; cbn [is_exp is_none truthy negb not3 sv_of_tv].
    + done_val.
    + eexists; split; [reflexivity|]; split; [apply (rel_bool false)|exact I].
    + eexists; split; [reflexivity|]; split; [apply (rel_bool true)|exact I].
  - (* EGroup *) intros e IH t Hw Hc Hg. exact (IH t Hw Hc Hg).
  - (* EOther *) intros t Hw. discriminate.
Qed.
