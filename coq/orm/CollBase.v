(* C38 - common vocabulary of the instrumented-collection models (orm/collections.py).

   Members are entity objects compared by identity: [item := Z] (distinct integers = distinct
   objects; never None).  An instrumented method runs against the collection contents [S] and the
   adapter's event log; a raised exception keeps whatever was already done (partial effects are
   observable), hence the state is threaded through [Raise] as well. *)
From Coq Require Import List ZArith Bool.
Import ListNotations.
From SAV.base Require Import PySlice.
Open Scope Z_scope.

Notation item := Z (only parsing).

(* CollectionAdapter.fire_append_event / fire_remove_event / fire_append_wo_mutation_event *)
Inductive ev := EAdd (x : item) | ERem (x : item) | ESame (x : item).

(* what a method returns *)
Inductive retv :=
| RNone | RItem (x : item) | RSelf | RList (l : list item) | RNotImpl | RPair (k : Z) (x : item).

Section Monad.
Variable S : Type.
Definition st : Type := (S * list ev)%type.
Definition M (T : Type) : Type := st -> res T * st.

Definition ret {T} (t : T) : M T := fun s => (Ok t, s).
Definition raise {T} (e : pyexn) : M T := fun s => (Raise e, s).
Definition bind {T U} (m : M T) (f : T -> M U) : M U :=
  fun s => match m s with
           | (Ok t, s') => f t s'
           | (Raise e, s') => (Raise e, s')
           end.
Definition get : M S := fun s => (Ok (fst s), s).
(* __set / __del / __set_wo_mutation : the adapter records the event *)
Definition fire (e : ev) : M unit := fun s => (Ok tt, (fst s, snd s ++ [e])).
(* the wrapped builtin method: on an exception the contents are unchanged *)
Definition lift {T} (f : S -> res (T * S)) : M T :=
  fun s => match f (fst s) with
           | Ok (t, c) => (Ok t, (c, snd s))
           | Raise e => (Raise e, s)
           end.
Definition put (c : S) : M unit := fun s => (Ok tt, (c, snd s)).

Fixpoint for_each {T} (xs : list T) (body : T -> M unit) : M unit :=
  match xs with
  | [] => ret tt
  | x :: r => bind (body x) (fun _ => for_each r body)
  end.
End Monad.

Arguments ret {S T} t.
Arguments raise {S T} e.
Arguments bind {S T U} m f.
Arguments get {S}.
Arguments fire {S} e.
Arguments lift {S T} f.
Arguments put {S} c.
Arguments for_each {S T} xs body.

Notation "x <- m ;; f" := (bind m (fun x => f)) (at level 61, m at next level, right associativity).
Notation "m ;;; f" := (bind m (fun _ => f)) (at level 61, right associativity).

Definition mem (x : item) (l : list item) : bool := existsb (Z.eqb x) l.

(* multiset bookkeeping used by the accounting theorems *)
Definition countZ (x : item) (l : list item) : Z := Z.of_nat (count_occ Z.eq_dec l x).
Definition ev_delta (x : item) (e : ev) : Z :=
  match e with
  | EAdd y => if Z.eqb x y then 1 else 0
  | ERem y => if Z.eqb x y then -1 else 0
  | ESame _ => 0
  end.
(* (#append events for x) - (#remove events for x) *)
Fixpoint net (x : item) (log : list ev) : Z :=
  match log with [] => 0 | e :: r => ev_delta x e + net x r end.
