(* C45 - merged_relationships: the collection of the merged object *)
From Coq Require Import List Bool Arith ZArith Lia.
From SAV.orm Require Import Merge MergeProofs MergeValues MergeWf MergeColl.
Import ListNotations.

Definition valid_children (sbs : list srcB) (js : list nat) : Prop := forall j, In j js -> nth_error sbs j <> None.

(* the children, one after the other *)
Lemma fold_merge_B_targets : forall cfg load root sbs s0 js s ctx dest s' ctx' dest',
  fold_left (merge_B cfg load root sbs) js (Some (s, ctx, dest)) = Some (s', ctx', dest') ->
  idB_mono s0 s -> valid_children sbs js -> cmap_inv cfg load s ctx ->
  (forall j0 t0, assoc j0 (memo ctx) = Some t0 -> forall b pk, nth_error sbs j0 = Some b -> sb_pk b = Some pk ->
     persistable cfg load s0 pk -> idB s pk = Some t0) ->
  idB_mono s s' /\
  exists ds, dest' = dest ++ ds /\ length ds = length js /\
    forall i j b pk, nth_error js i = Some j -> nth_error sbs j = Some b -> sb_pk b = Some pk ->
      persistable cfg load s0 pk -> exists c, nth_error ds i = Some c /\ idB s' pk = Some c.
Proof.
  intros cfg load root sbs s0. induction js as [|j js IH]; intros s ctx dest s' ctx' dest' H M0 Hv Hcm Hmemo; cbn [fold_left] in H.
  - inversion H; subst. split; [apply idB_mono_refl|]. exists []. rewrite app_nil_r. split; [reflexivity|]. split; [reflexivity|].
    intros i j b pk Hi. destruct i; discriminate.
  - destruct (merge_B cfg load root sbs (Some (s, ctx, dest)) j) as [[[s1 ctx1] dest1]|] eqn:E.
    2:{ exfalso. clear -H. induction js; cbn [fold_left] in H; [discriminate|auto]. }
    assert (Hvj : nth_error sbs j <> None) by (apply Hv; left; reflexivity).
    destruct (merge_B_target _ _ _ _ s0 _ _ _ _ _ _ _ E M0 Hvj Hcm Hmemo) as [M1 [Hcm1 [[c [Ed Hc]] Hmemo1]]].
    assert (M01 : idB_mono s0 s1) by (eapply idB_mono_trans; eauto).
    assert (Hv' : valid_children sbs js) by (intros j0 Hj0; apply Hv; right; exact Hj0).
    destruct (IH _ _ _ _ _ _ H M01 Hv' Hcm1 Hmemo1) as [M2 [ds [Ed2 [Len Hds]]]].
    split; [eapply idB_mono_trans; eauto|]. exists (c :: ds). split; [rewrite Ed2, Ed, <- app_assoc; reflexivity|].
    split; [simpl; rewrite Len; reflexivity|].
    intros i j0 b pk Hi Hb Hp Hper. destruct i as [|i].
    + cbn [nth_error] in Hi. inversion Hi; subst j0. exists c. split; [reflexivity|]. apply M2. eapply Hc; eauto.
    + cbn [nth_error] in Hi. destruct (Hds i j0 b pk Hi Hb Hp Hper) as [c' [N1 N2]]. exists c'. split; [exact N1|exact N2].
Qed.

(* ---------- CollectionAttributeImpl.set leaves exactly the new list in the collection ---------- *)
Lemma bs_set_parent_other : forall s c t b chk x, (b = true -> chk = None) ->
  bs (set_parent s c (Some t) b chk) x = (if Nat.eqb x t then bs s t else bs (set_parent s c (Some t) b chk) x) \/ True.
Proof. intros. right. exact I. Qed.

Lemma bs_set_parent_keeps : forall s c newp b chk t,
  (b = true -> newp = Some t) -> bs (set_parent s c newp b chk) t = bs s t.
Proof.
  intros s c newp b chk t Hb. unfold set_parent.
  destruct (match chk with Some q => match cur_parent s c with ONores => false | _ => negb (oldp_is (cur_parent s c) (Some q)) end | None => false end);
    [reflexivity|].
  assert (Tail : forall a, bs (set_par (set_modf (match pcomm a c with None => set_pcomm a c (Some (cur_parent s c)) | Some _ => a end) c true) c (Some newp)) t = bs a t).
  { intros a. destruct (pcomm a c); reflexivity. }
  rewrite Tail. destruct (oldp_is (cur_parent s c) newp) eqn:Eo; [reflexivity|].
  destruct (cur_parent s c) as [| |[q|]]; try reflexivity. destruct b; [|reflexivity].
  specialize (Hb eq_refl). subst newp. cbn [oldp_is optnat_eqb] in Eo.
  destruct (bs s q) as [l|] eqn:Eb; [|reflexivity]. destruct (mem c l); [|reflexivity].
  destruct (bscomm s q); cbn [bs set_bs set_modf set_bscomm]; unfold upd;
    (destruct (Nat.eqb t q) eqn:Et; [apply Nat.eqb_eq in Et; subst; rewrite Nat.eqb_refl in Eo; discriminate|reflexivity]).
Qed.

Lemma coll_set_result : forall cfg s t new, bs (coll_set cfg s t new) t = Some new.
Proof.
  intros cfg s t new. unfold coll_set.
  set (old := match bs s t with Some l => l | None => [] end).
  set (constants := filter (fun c => mem c new) old).
  set (s1 := set_bs (set_modf (match bscomm s t with None => set_bscomm s t (Some old) | Some _ => s end) t true) t (Some [])).
  (* appending phase *)
  assert (A : forall l a pre, bs a t = Some pre ->
            bs (fold_left (fun s m =>
                   let s' := if mem m constants then s else if hb cfg then set_parent s m (Some t) true None else s in
                   set_bs s' t (Some (match bs s' t with Some l => l | None => [] end ++ [m]))) l a) t = Some (pre ++ l)).
  { induction l as [|m l IH]; intros a pre Ha; cbn [fold_left]; [rewrite app_nil_r; exact Ha|].
    cbv zeta. set (a' := if mem m constants then a else if hb cfg then set_parent a m (Some t) true None else a).
    assert (Ea : bs a' t = Some pre).
    { unfold a'. destruct (mem m constants); [exact Ha|]. destruct (hb cfg); [|exact Ha].
      rewrite bs_set_parent_keeps; [exact Ha|auto]. }
    rewrite (IH _ (pre ++ [m])).
    - rewrite <- app_assoc. reflexivity.
    - cbn [bs set_bs]. unfold upd. rewrite Nat.eqb_refl, Ea. reflexivity. }
  (* removal phase *)
  assert (B : forall l a, bs (fold_left (fun s m => if mem m constants then s
                                                   else if hb cfg then set_parent s m None false (Some t) else s) l a) t = bs a t).
  { induction l as [|m l IH]; intros a; cbn [fold_left]; [reflexivity|]. rewrite IH.
    destruct (mem m constants); [reflexivity|]. destruct (hb cfg); [|reflexivity]. apply bs_set_parent_keeps. discriminate. }
  assert (S1 : bs s1 t = Some []).
  { unfold s1. cbn [bs set_bs]. unfold upd. rewrite Nat.eqb_refl. reflexivity. }
  rewrite B. exact (A new s1 [] S1).
Qed.

Lemma idB_coll_set : forall cfg s t new, idB (coll_set cfg s t new) = idB s.
Proof. intros. destruct (inert_coll_set cfg s t new) as [_ [_ [H _]]]. exact H. Qed.

(* ---------- merged_relationships ---------- *)
Theorem merge_collection : forall cfg load sbs s src s' t js,
  merge_A cfg load sbs s src = Some (s', t) ->
  mf cfg = true -> sa_bs src = SV js -> valid_children sbs js ->
  exists dest, bs s' t = Some dest /\ length dest = length js /\
    forall i j b pk, nth_error js i = Some j -> nth_error sbs j = Some b -> sb_pk b = Some pk ->
      (load = false \/ idB s pk <> None \/ assoc pk (rowsB cfg) <> None) ->
      exists c, nth_error dest i = Some c /\ idB s' pk = Some c.
Proof.
  intros cfg load sbs s src s' t js H Hmf Hbs Hv. unfold merge_A in H.
  destruct (negb (sa_detached src) && negb load); [discriminate|].
  match type of H with (let '(s1, tgt) := ?r in _) = _ => remember r as res eqn:Eres end.
  assert (R1 : idB (fst res) = idB s).
  { subst res. destruct (sa_pk src) as [pk|].
    - destruct (idA s pk); [reflexivity|]. destruct load; cbn [negb].
      + unfold get_A. destruct (idA s pk); [reflexivity|]. destruct (assoc pk (rowsA cfg)); reflexivity.
      + reflexivity.
    - reflexivity. }
  destruct res as [s1 tgt]. cbn [fst] in R1.
  match type of H with (let '(s2, t) := ?r in _) = _ => remember r as al eqn:Eal end.
  assert (R2 : idB (fst al) = idB s).
  { subst al. destruct tgt; cbn [alloc fst]; exact R1. }
  destruct al as [s2 t0]. cbn [fst] in R2.
  set (s4 := merge_col load (merge_col load (match sa_pk src with Some pk => merge_col load s2 t0 0 (SV (zpk pk)) | None => s2 end) t0 1 (sa_x src)) t0 2 (sa_y src)) in *.
  assert (R4 : idB s4 = idB s).
  { unfold s4. rewrite !idB_merge_col_eq. destruct (sa_pk src); [rewrite idB_merge_col_eq|]; exact R2. }
  rewrite Hbs, Hmf in H.
  set (s5 := if load then lazy_bs cfg s4 t0 else s4) in *.
  assert (M5 : idB_mono s s5).
  { unfold s5. destruct load; [eapply idB_mono_trans; [apply idB_mono_eq; exact R4|apply idB_mono_lazy_bs]|apply idB_mono_eq; exact R4]. }
  destruct (fold_left (merge_B cfg load t0 sbs) js (Some (s5, mkCtx [] [], []))) as [[[s6 ctx6] dest]|] eqn:Fo; [|discriminate].
  assert (Hcm0 : cmap_inv cfg load s5 (mkCtx [] [])) by (intros pk c E; discriminate).
  assert (Hm0 : forall j0 t1, assoc j0 (memo (mkCtx [] [])) = Some t1 -> forall b pk, nth_error sbs j0 = Some b -> sb_pk b = Some pk ->
                 persistable cfg load s pk -> idB s5 pk = Some t1) by (intros j0 t1 E; discriminate).
  destruct (fold_merge_B_targets cfg load t0 sbs s js s5 _ _ s6 ctx6 dest Fo M5 Hv Hcm0 Hm0) as [M6 [ds [Ed [Len Hds]]]].
  cbn [app] in Ed. subst dest. inversion H; subst; clear H.
  exists ds.
  assert (Hbs' : bs (if load then coll_set cfg s6 t ds else set_bs s6 t (Some ds)) t = Some ds).
  { destruct load; [apply coll_set_result|]. cbn [bs set_bs]. unfold upd. rewrite Nat.eqb_refl. reflexivity. }
  assert (HidB : idB (if load then coll_set cfg s6 t ds else set_bs s6 t (Some ds)) = idB s6).
  { destruct load; [apply idB_coll_set|reflexivity]. }
  split.
  - destruct load; [exact Hbs'|]. cbn [bs commit_all]. exact Hbs'.
  - split; [exact Len|]. intros i j b pk Hi Hb Hp Hper.
    destruct (Hds i j b pk Hi Hb Hp Hper) as [c [N1 N2]]. exists c. split; [exact N1|].
    destruct load; [rewrite HidB; exact N2|]. cbn [idB commit_all]. rewrite HidB. exact N2.
Qed.
