(* C32 - a faulty flush under the session invariant of C33 (SessTxnCore.Core). *)
From Coq Require Import List ZArith Bool Arith Lia.
Import ListNotations.
From SAV.orm Require Import SessTxn SessTxnBase SessTxnSpec SessTxnInv SessTxnOps SessTxnRestore SessTxnRestore2
  SessTxnShift SessTxnStmts SessTxnFlush SessTxnDbInv SessTxnCore SessTxnFlushCore SessTxnTx FlushFail.
Open Scope nat_scope.

(* every crash point is covered by the error-path analysis of Session._flush *)
Lemma fault_inner_spec : forall ft, InnerSpec (fault_inner ft).
Proof.
  intros ft. destruct ft as [|k| |].
  - (* FPre never reaches the subtransaction; its body here is the FPost one *)
    intros s0 g f rest dirty GC Hs G Jh R Hd Hnd r sZ H Hr.
    assert (H' : (flush_body (snew s0) dirty (sdel s0) ;; raise E_EVENT) s0 = (r, sZ)).
    { unfold flush_body, flush_body_k. rewrite bind_assoc4. exact H. }
    apply bind_inv in H'. destruct H' as [[s1 [H1 H2]]|[H1 Hn]].
    + inversion H2; subst r sZ. split; [discriminate|]. intros _. right.
      destruct (flush_body_inner s0 g f rest dirty GC Hs G Jh R Hd Hnd Ok s1 H1) as [A _]; [discriminate|]. exact (A eq_refl).
    + destruct (flush_body_inner s0 g f rest dirty GC Hs G Jh R Hd Hnd r sZ H1 Hr) as [_ B]. split; [congruence|exact B].
  - exact (flush_body_k_inner (Some k) E_FAULT).
  - intros s0 g f rest dirty GC Hs G Jh R Hd Hnd r sZ H Hr.
    assert (H' : ((foldM (organize_pending (sdel s0)) (snew s0) ;;
                   withst (fun st0 => exec_f None 0%Z (stmts_of st0 (snew s0) dirty (sdel s0)))) ;; raise E_EVENT) s0 = (r, sZ)).
    { rewrite bind_assoc. exact H. }
    apply bind_inv in H'. destruct H' as [[s1 [H1 H2]]|[H1 Hn]].
    + inversion H2; subst r sZ. split; [discriminate|]. intros _. left.
      apply (flush_pre_spec s0 g f dirty GC G Jh R Hd Hnd None 0%Z Ok s1 H1). discriminate.
    + split; [congruence|]. intros _. left.
      apply (flush_pre_spec s0 g f dirty GC G Jh R Hd Hnd None 0%Z r sZ H1 Hr).
  - intros s0 g f rest dirty GC Hs G Jh R Hd Hnd r sZ H Hr.
    assert (H' : (flush_body (snew s0) dirty (sdel s0) ;; raise E_EVENT) s0 = (r, sZ)).
    { unfold flush_body, flush_body_k. rewrite bind_assoc4. exact H. }
    apply bind_inv in H'. destruct H' as [[s1 [H1 H2]]|[H1 Hn]].
    + inversion H2; subst r sZ. split; [discriminate|]. intros _. right.
      destruct (flush_body_inner s0 g f rest dirty GC Hs G Jh R Hd Hnd Ok s1 H1) as [A _]; [discriminate|]. exact (A eq_refl).
    + destruct (flush_body_inner s0 g f rest dirty GC Hs G Jh R Hd Hnd r sZ H1 Hr) as [_ B]. split; [congruence|exact B].
Qed.

(* the faulty flush keeps the invariant; the transaction is at worst DEACTIVE with its snapshot restored *)
Theorem flush_fault_core : forall ft st gs r st', Core st gs -> flush_fault ft st = (r, st') -> r <> Unmodelled ->
  Core st' gs /\ ids st' = ids st /\ nfid st' = nfid st /\ committed st' = committed st /\
  nobj st' = nobj st /\ handles st' = handles st /\ eoc st' = eoc st /\
  (r = Ok -> is_clean st' = true /\ hd_state st' = hd_state st) /\
  (r <> Ok -> hd_state st' = hd_state st \/ (hd_state st = Some ACTIVE /\ hd_state st' = Some DEACTIVE /\ is_clean st' = true)).
Proof.
  intros ft st gs r st' C H Hr.
  assert (Gen : flush_with (fun n d e => provision ;; fault_inner ft n d e) st = (r, st') ->
          Core st' gs /\ ids st' = ids st /\ nfid st' = nfid st /\ committed st' = committed st /\
          nobj st' = nobj st /\ handles st' = handles st /\ eoc st' = eoc st /\
          (r = Ok -> is_clean st' = true /\ hd_state st' = hd_state st) /\
          (r <> Ok -> hd_state st' = hd_state st \/ (hd_state st = Some ACTIVE /\ hd_state st' = Some DEACTIVE /\ is_clean st' = true))).
  { intros H'. destruct (flush_with_core _ (fault_inner_spec ft) st gs r st' C H' Hr) as (A1 & A2 & A3 & A4 & A5 & A6 & A7 & _ & A9 & A10).
    split; [exact A1|]. split; [exact A2|]. split; [exact A3|]. split; [exact A4|]. split; [exact A5|]. split; [exact A6|].
    split; [exact A7|]. split; [|exact A10]. intros X. destruct (A9 X) as [B1 [B2 _]]. auto. }
  destruct ft; try (apply Gen; exact H).
  unfold flush_fault in H. destruct (is_clean st) eqn:Ecl; inversion H; subst r st'.
  - repeat (split; auto); try (intros X; congruence).
  - repeat (split; auto); try discriminate.
Qed.
