(* executable entry point for the correspondence check of C42 *)
From Coq Require Import List ZArith Bool Arith.
Import ListNotations.
From SAV.base Require Import Tree.
From SAV.orm Require Import Poly.

(* class: L [I parent (-1 for the root); I identity; I joined] *)
Definition as_cdef (t : tree) : option cdef :=
  match t with
  | L [I p; I idt; j] =>
    match as_bool j with
    | Some jb => Some {| cparent := if (p <? 0)%Z then None else Some (Z.to_nat p); cident := idt; cjoined := jb |}
    | None => None
    end
  | _ => None
  end.
Definition as_val (t : tree) : option (nat * option Z) := as_pair_of as_nat as_optZ t.
(* row: L [I pk; discriminator (I z | L []); L [L [I attr; value]]] *)
Definition as_row (t : tree) : option row :=
  match t with
  | L [I pk; dsc; vs] =>
    match as_optZ dsc, as_list_of as_val vs with
    | Some dv, Some l => Some {| rpk := pk; rdisc := dv; rvals := l |}
    | _, _ => None
    end
  | _ => None
  end.
Definition as_table (t : tree) : option (nat * list row) := as_pair_of as_nat (as_list_of as_row) t.
Definition as_opt (t : tree) : option popt :=
  match t with
  | L [I k; wl; sl; I _] =>      (* the last component (aliased / flat) does not change the result *)
    match as_list_of as_nat wl, as_list_of as_nat sl with
    | Some w, Some s =>
      Some {| o_wp := if (k =? 1)%Z then WpStar else if (k =? 2)%Z then WpList w else WpNone; o_sel := s |}
    | _, _ => None
    end
  | _ => None
  end.

Definition of_val (p : nat * option Z) : tree := L [of_nat (fst p); of_optZ (snd p)].
Definition of_obj (o : obj) : tree :=
  L [I (o_pk o); of_nat (o_cls o); of_list of_nat (o_loaded o); of_list of_val (o_vals o)].

(* with_polymorphic(C, [classes]) refuses a class that does not inherit from C (InvalidRequestError, code 3) *)
Definition wp_valid (h : hier) (C : nat) (s : wpspec) : bool :=
  match s with WpList l => forallb (fun m => Nat.ltb m (length h) && isa h m C) l | _ => true end.

(* input  L [hierarchy; tables; I class; options]
   output L [I 0; L objects] | L [I 1] InvalidRequestError | L [I 2] AssertionError | L [I 3] bad with_polymorphic *)
Definition run_case1 (t : tree) : tree :=
  match t with
  | L [th; tb; tc; tp] =>
    match as_list_of as_cdef th, as_list_of as_table tb, as_nat tc, as_opt tp with
    | Some h, Some d, Some C, Some o =>
      if wf_hierb h && Nat.ltb C (length h) then
        if wp_valid h C (o_wp o) then
          match exec h d C o with
          | Ok l => L [I 0; of_list of_obj l]
          | Raise EInvalidRequest => L [I 1]
          | Raise EAssertion => L [I 2]
          end
        else L [I 3]
      else bad_input
    | _, _, _, _ => bad_input
    end
  | _ => bad_input
  end.

(* a fifth component describes how the hierarchy was built in the harness (classes mapped after a first query,
   compiled cache cleared): on the model side the mapping is simply the final hierarchy *)
Definition run_case (t : tree) : tree :=
  match t with
  | L [th; tb; tc; tp; _] => run_case1 (L [th; tb; tc; tp])
  | _ => run_case1 t
  end.
