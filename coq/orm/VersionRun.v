(* executable entry point for the correspondence check of C44 *)
From Coq Require Import List ZArith NArith Bool Arith.
Import ListNotations.
From SAV.base Require Import Tree.
From SAV.orm Require Import Version.
Open Scope Z_scope.

Definition as_row (t : tree) : option (Z * row) :=
  match t with L [I k; I x; I y; I v] => Some (k, {| rx := (x, y); rv := v |}) | _ => None end.
Definition as_op (t : tree) : option (nat * op) :=
  match t with
  | L [I i; I o; I k; I p] =>
      if i <? 0 then None else
      let n := Z.to_nat i in
      if o =? 0 then Some (n, Load k) else if o =? 1 then Some (n, SetX k false p) else if o =? 2 then Some (n, Del k)
      else if o =? 3 then Some (n, Flush) else if o =? 4 then Some (n, Commit) else if o =? 5 then Some (n, Rollback)
      else if o =? 6 then Some (n, SetX k true p)
      else None
  | _ => None
  end.

Definition of_res (r : res) : tree :=
  match r with
  | RNone => L [I 0] | RFound x v => L [I 1; I (fst x); I (snd x); I v]
  | ROk => L [I 0] | RStale => L [I 1] | RBusy => L [I 2]
  end.
Definition of_stmt (s : stmt) : tree :=
  match s with
  | Select k => L [I 1; I k]
  | Update k px py nv wv => L [I 2; I k; of_optZ px; of_optZ py; of_optZ nv; I wv]
  | Delete ps => L [I 3; L (map (fun kv => L [I (fst kv); I (snd kv)]) ps)]
  end.
Definition of_rows (r : rows) : tree :=
  L (map (fun p => L [I (fst p); I (fst (rx (snd p))); I (snd (rx (snd p))); I (rv (snd p))]) r).

Section R.
Variables (server sane_rc sane_multi : bool) (eoc : nat -> bool) (joined : bool).
Fixpoint observe (l : list (nat * op)) (s : state) : list tree :=
  match l with
  | [] => []
  | (i, o) :: r =>
      let (s1, rs) := step server sane_rc sane_multi eoc Z.succ i o s in
      L [of_res rs; L (map of_stmt (stmts server sane_rc sane_multi Z.succ joined i o s rs)); of_rows (com (sdb s1))]
      :: observe r s1
  end.
End R.

(* input  L [I mode; I dialect; L eocs; L rows; L ops]
     mode 0 = client-side version_id_generator (v + 1), 1 = server-side (SET v = v + 1 ... RETURNING v),
          2 = client-side, three-level joined-table inheritance (version in the root table)
     rows L [id; x; y; v];  op codes 0 load, 1 set x, 2 delete, 3 flush, 4 commit, 5 rollback, 6 set y
     dialect 0 = sane rowcount + sane multi rowcount, 1 = sane rowcount only, 2 = neither
   output L [ L [result; L statements; L committed-rows] per operation ] *)
Definition run_case (t : tree) : tree :=
  match t with
  | L [I mode; I dial; te; tr; tops] =>
      match as_list_of as_bool te, as_list_of as_row tr, as_list_of as_op tops with
      | Some eocs, Some r0, Some ops =>
          L (observe (mode =? 1) (dial <? 2) (dial <? 1) (fun i => nth i eocs false) (mode =? 2) ops (init r0))
      | _, _, _ => bad_input
      end
  | _ => bad_input
  end.
