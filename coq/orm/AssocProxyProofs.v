(* C50 - proofs about the association-proxy models: a proxy operation is the builtin's operation
   on the view. *)
From Coq Require Import List ZArith Bool Arith Lia.
Import ListNotations.
From SAV.base Require Import PySlice PySliceProofs.
From SAV.orm Require Import CollBase CollList CollSet CollDict AssocProxy.
Local Open Scope nat_scope.

(* well-formed: the members are distinct intermediaries that have been created *)
Definition wf (s : px) : Prop := NoDup (col s) /\ forall o, In o (col s) -> o < nxt s.

Lemma wf_empty : wf px_empty.
Proof. split; [constructor|intros o []]. Qed.

Lemma map_ext_in' : forall (f g : nat -> Z) l, (forall o, In o l -> f o = g o) -> map f l = map g l.
Proof. intros; apply map_ext_in; auto. Qed.

Lemma updf_other : forall f k v j, j <> k -> updf f k v j = f j.
Proof. intros; unfold updf. destruct (Nat.eqb_spec j k); congruence. Qed.
Lemma updf_same : forall f k v, updf f k v k = v.
Proof. intros; unfold updf; rewrite Nat.eqb_refl; reflexivity. Qed.

Lemma map_fresh : forall s v l, (forall o, In o l -> o < nxt s) ->
  map (updf (pval s) (nxt s) v) l = map (pval s) l.
Proof. intros; apply map_ext_in'. intros o Ho. apply updf_other. specialize (H o Ho). lia. Qed.

(* ---- map commutes with the builtin list operations ---- *)
Section MapComm.
Variables (A B : Type) (f : A -> B).
Lemma zlen_map : forall l, zlen (map f l) = zlen l.
Proof. intros; unfold zlen; rewrite map_length; reflexivity. Qed.
Lemma map_insert : forall l i x, map f (py_insert l i x) = py_insert (map f l) i (f x).
Proof.
  intros; unfold py_insert. rewrite zlen_map, map_app, firstn_map. simpl. rewrite skipn_map. reflexivity.
Qed.
Lemma map_del_nth : forall n l, map f (del_nth n l) = del_nth n (map f l).
Proof. induction n; destruct l; simpl; auto. f_equal; auto. Qed.
Lemma map_sel : forall js l, map f (sel js l) = sel js (map f l).
Proof.
  induction js; simpl; auto. intros l. rewrite map_app, IHjs. f_equal.
  rewrite nth_error_map. destruct (nth_error l a); reflexivity.
Qed.
Lemma map_drop_idx : forall idx l, map f (drop_idx idx l) = drop_idx idx (map f l).
Proof. intros; unfold drop_idx. rewrite map_sel, map_length. reflexivity. Qed.
Lemma delslice_map : forall l sl,
  py_delslice (map f l) sl = match py_delslice l sl with Ok c => Ok (map f c) | Raise e => Raise e end.
Proof.
  intros; unfold py_delslice. rewrite zlen_map.
  destruct (adjust sl (zlen l)) as [[[a b] c]|e]; auto. rewrite map_drop_idx. reflexivity.
Qed.
Lemma delitem_map : forall l i,
  py_delitem (map f l) i = match py_delitem l i with Ok c => Ok (map f c) | Raise e => Raise e end.
Proof.
  intros; unfold py_delitem. rewrite zlen_map. destruct (norm_index i (zlen l)); auto.
  rewrite map_del_nth; reflexivity.
Qed.
Lemma pop_map : forall l i,
  py_pop (map f l) i = match py_pop l i with Ok (x, c) => Ok (f x, map f c) | Raise e => Raise e end.
Proof.
  intros; unfold py_pop. rewrite zlen_map. destruct (norm_index i (zlen l)); auto.
  rewrite nth_error_map. destruct (nth_error l n); simpl; auto. rewrite map_del_nth; reflexivity.
Qed.
End MapComm.

Lemma map_set_nth_updf : forall (g : nat -> Z) n o v l, NoDup l -> nth_error l n = Some o ->
  map (updf g o v) l = set_nth n v (map g l).
Proof.
  intros g n o v l. revert n. induction l as [|a r IH]; intros n ND H; [destruct n; discriminate|].
  inversion ND; subst. destruct n; simpl in *.
  - inversion H; subst. rewrite updf_same. f_equal. apply map_ext_in'. intros x Hx.
    apply updf_other. intro; subst; auto.
  - rewrite (IH n H3 H). f_equal. apply updf_other. intro; subst. apply H2. eapply nth_error_In; eauto.
Qed.

Lemma remove_first_map : forall (g : nat -> Z) v c k,
  remove_first v (map g c) =
  match find_val g v c k with Some j => Some (map g (del_nth (j - k) c)) | None => None end.
Proof.
  intros g v c. induction c as [|o r IH]; intros k; simpl; auto.
  rewrite Z.eqb_sym. destruct (Z.eqb (g o) v).
  - rewrite Nat.sub_diag. reflexivity.
  - rewrite (IH (S k)). destruct (find_val g v r (S k)) as [j|] eqn:E; auto.
    assert (S k <= j).
    { clear -E. revert k j E. induction r; simpl; intros; [discriminate|].
      destruct (Z.eqb (g a) v); [inversion E; lia|]. apply IHr in E. lia. }
    replace (j - k) with (S (j - S k)) by lia. reflexivity.
Qed.

(* ------------------------------------------------------------------ list proxy *)
Lemma wf_with_col : forall s c, NoDup c -> (forall o, In o c -> In o (col s)) -> wf s -> wf (with_col s c).
Proof. intros s c ND Sub [_ B]; split; simpl; auto. Qed.

Lemma append_view : forall s v, wf s ->
  wf (pl_append s v) /\ to_list (pl_append s v) = to_list s ++ [v].
Proof.
  intros s v [ND B]. unfold pl_append, to_list; simpl. split.
  - split; simpl.
    + clear -ND B. induction (col s) as [|a r IH]; simpl; [constructor; auto; constructor|].
      inversion ND; subst. constructor.
      * intro H. apply in_app_or in H. destruct H as [H|[H|[]]]; auto.
        specialize (B a (or_introl eq_refl)). lia.
      * apply IH; auto. intros o Ho; apply B; right; auto.
    + intros o H. apply in_app_or in H. destruct H as [H|[<-|[]]]; auto. specialize (B o H). lia.
  - rewrite map_app. simpl. rewrite updf_same. f_equal. apply map_fresh; auto.
Qed.

Lemma extend_view : forall vs s, wf s ->
  wf (pl_extend s vs) /\ to_list (pl_extend s vs) = to_list s ++ vs.
Proof.
  induction vs as [|v r IH]; intros s W; simpl.
  - rewrite app_nil_r; auto.
  - destruct (append_view s v W) as [W1 E1]. destruct (IH _ W1) as [W2 E2].
    split; auto. unfold pl_extend in *. rewrite E2, E1, <- app_assoc. reflexivity.
Qed.

Lemma insert_view : forall s i v, wf s ->
  wf (pl_insert s i v) /\ to_list (pl_insert s i v) = py_insert (to_list s) i v.
Proof.
  intros s i v [ND B]. unfold pl_insert, to_list; simpl. split.
  - split; simpl.
    + unfold py_insert. eapply Permutation.Permutation_NoDup; [apply insert_perm|].
      constructor; auto. intro H. specialize (B _ H). lia.
    + intros o H. unfold py_insert in H.
      eapply Permutation.Permutation_in in H; [|apply Permutation.Permutation_sym, insert_perm].
      destruct H as [<-|H]; auto. specialize (B o H). lia.
  - rewrite map_insert. rewrite updf_same. f_equal. apply map_fresh; auto.
Qed.

Lemma del_nth_In : forall n (l : list nat) x, In x (del_nth n l) -> In x l.
Proof. induction n; destruct l; simpl; intros; auto. destruct H; eauto. Qed.
Lemma del_nth_NoDup : forall n (l : list nat), NoDup l -> NoDup (del_nth n l).
Proof.
  induction n; destruct l; simpl; intros H; auto; inversion H; subst; auto.
  constructor; auto. intro Hin; apply del_nth_In in Hin; auto.
Qed.

Lemma delitem_view : forall s i, wf s ->
  wf (snd (pl_delitem s i)) /\
  match fst (pl_delitem s i), py_delitem (to_list s) i with
  | POk, Ok l' => to_list (snd (pl_delitem s i)) = l'
  | PRaise e, Raise e' => e = e' /\ snd (pl_delitem s i) = s
  | _, _ => False
  end.
Proof.
  intros s i W. unfold pl_delitem, to_list. rewrite delitem_map.
  destruct (py_delitem (col s) i) as [c|e] eqn:E; simpl; auto.
  split; auto. unfold py_delitem in E. destruct (norm_index i (zlen (col s))); inversion E; subst.
  apply wf_with_col; auto. apply del_nth_NoDup, W. intros o; apply del_nth_In.
Qed.

Lemma skipn_skipn' : forall (A : Type) x y (l : list A), skipn x (skipn y l) = skipn (y + x) l.
Proof. induction y; simpl; intros; auto. destruct l; simpl; auto. destruct x; reflexivity. Qed.
Lemma In_firstn' : forall (A : Type) n (l : list A) x, In x (firstn n l) -> In x l.
Proof. intros A n l x H. rewrite <- (firstn_skipn n l). apply in_or_app; auto. Qed.
Lemma In_skipn' : forall (A : Type) n (l : list A) x, In x (skipn n l) -> In x l.
Proof. intros A n l x H. rewrite <- (firstn_skipn n l). apply in_or_app; auto. Qed.

Lemma del_then_skip : forall (l : list nat) a n, a < length l ->
  firstn a (del_nth a l) ++ skipn (a + n) (del_nth a l) = firstn a l ++ skipn (a + S n) l.
Proof.
  intros l a n H. rewrite del_nth_split.
  assert (La : length (firstn a l) = a) by (rewrite firstn_length; lia).
  rewrite firstn_app, La, Nat.sub_diag, firstn_firstn, Nat.min_id.
  rewrite skipn_app, La.
  rewrite (skipn_all2 (firstn a l)) by lia.
  replace (a + n - a) with n by lia.
  rewrite skipn_skipn'. replace (S a + n) with (a + S n) by lia.
  change (firstn 0 (skipn (S a) l)) with (@nil nat). rewrite app_nil_r. reflexivity.
Qed.

(* the slice loops on a well-placed slice: 0 <= start <= stop <= len, step 1 *)
Lemma firstn_skipn_del : forall (l : list nat) a, a < length l ->
  del_nth a l = firstn a l ++ skipn (S a) l.
Proof. intros; apply del_nth_split. Qed.

Lemma del_loop_spec : forall n s a, wf s -> a + n <= length (col s) ->
  fst (pl_del_loop n (Z.of_nat a) s) = POk /\
  wf (snd (pl_del_loop n (Z.of_nat a) s)) /\
  col (snd (pl_del_loop n (Z.of_nat a) s)) = firstn a (col s) ++ skipn (a + n) (col s) /\
  pval (snd (pl_del_loop n (Z.of_nat a) s)) = pval s /\ nxt (snd (pl_del_loop n (Z.of_nat a) s)) = nxt s.
Proof.
  induction n; intros s a W H; simpl.
  - rewrite Nat.add_0_r, firstn_skipn. auto.
  - unfold pl_delitem, py_delitem.
    rewrite norm_index_nonneg by (unfold zlen; lia). rewrite Nat2Z.id.
    set (s1 := with_col s (del_nth a (col s))).
    assert (W1 : wf s1).
    { apply wf_with_col; auto. apply del_nth_NoDup, W. intros o; apply del_nth_In. }
    assert (L1 : length (col s1) = length (col s) - 1).
    { simpl. rewrite del_nth_split, app_length, firstn_length, skipn_length. lia. }
    destruct (IHn s1 a W1) as (R & W2 & C & P & N); [lia|].
    simpl. rewrite R. split; auto. split; auto. split; [|auto].
    rewrite C. unfold s1, with_col; cbn [col]. apply del_then_skip. lia.
Qed.

Lemma ins_loop_spec : forall vs s a pre post, wf s -> col s = pre ++ post -> length pre = a ->
  wf (pl_ins_loop (Z.of_nat a) vs s) /\
  exists news, col (pl_ins_loop (Z.of_nat a) vs s) = pre ++ news ++ post /\
               map (pval (pl_ins_loop (Z.of_nat a) vs s)) news = vs /\
               (forall o, o < nxt s -> pval (pl_ins_loop (Z.of_nat a) vs s) o = pval s o).
Proof.
  induction vs as [|v r IH]; intros s a pre post W C L; simpl.
  - split; auto. exists []. simpl. auto.
  - destruct (insert_view s (Z.of_nat a) v W) as [W1 _].
    assert (C1 : col (pl_insert s (Z.of_nat a) v) = (pre ++ [nxt s]) ++ post).
    { unfold pl_insert; simpl. unfold py_insert, insert_pos.
      destruct (Z.of_nat a <? 0)%Z eqn:E; [lia|].
      rewrite Z.min_l by (unfold zlen; rewrite C, app_length; lia). rewrite Nat2Z.id.
      rewrite C, <- L, firstn_app, firstn_all, Nat.sub_diag, skipn_app, skipn_all, Nat.sub_diag. simpl.
      rewrite app_nil_r, <- app_assoc. reflexivity. }
    replace (Z.of_nat a + 1)%Z with (Z.of_nat (S a)) by lia.
    destruct (IH _ (S a) (pre ++ [nxt s]) post W1 C1) as [W2 [news [E1 [E2 E3]]]].
    { rewrite app_length; simpl; lia. }
    split; auto. exists (nxt s :: news). split; [rewrite E1, <- app_assoc; reflexivity|]. split.
    + cbn [map]. rewrite E2. f_equal. rewrite E3; [|unfold pl_insert; simpl; lia].
      unfold pl_insert; simpl. apply updf_same.
    + intros o Ho. rewrite E3; [|unfold pl_insert; simpl; lia].
      unfold pl_insert; simpl. apply updf_other. lia.
Qed.

(* contiguous slice: delete b - a elements at a, then insert the new values from a on *)
Lemma slice1_view : forall s a b vs, wf s -> a <= b <= length (col s) ->
  fst (pl_del_loop (b - a) (Z.of_nat a) s) = POk /\
  wf (pl_ins_loop (Z.of_nat a) vs (snd (pl_del_loop (b - a) (Z.of_nat a) s))) /\
  to_list (pl_ins_loop (Z.of_nat a) vs (snd (pl_del_loop (b - a) (Z.of_nat a) s)))
    = firstn a (to_list s) ++ vs ++ skipn b (to_list s).
Proof.
  intros s a b vs W H.
  destruct (del_loop_spec (b - a) s a W) as (R & W1 & C & P & N); [lia|].
  destruct (pl_del_loop (b - a) (Z.of_nat a) s) as [r s1]; simpl in *. subst r.
  replace (a + (b - a)) with b in C by lia.
  destruct (ins_loop_spec vs s1 a (firstn a (col s)) (skipn b (col s)) W1 C) as [W2 [news [E1 [E2 E3]]]].
  { rewrite firstn_length; lia. }
  split; auto. split; auto.
  unfold to_list. rewrite E1, !map_app, E2, firstn_map, skipn_map.
  destruct W as [_ B].
  f_equal; [|f_equal]; apply map_ext_in'; intros o Ho; rewrite E3, P; auto; rewrite N; apply B.
  - eapply In_firstn'; eauto.
  - eapply In_skipn'; eauto.
Qed.

(* extended slice: the values are stored into the existing intermediaries *)
Lemma set_loop_view : forall ivs s, wf s ->
  (forall i v, In (i, v) ivs -> (0 <= i < zlen (col s))%Z) ->
  fst (pl_set_loop ivs s) = POk /\ wf (snd (pl_set_loop ivs s)) /\
  to_list (snd (pl_set_loop ivs s)) = assign_at (to_list s) ivs.
Proof.
  induction ivs as [|[i v] r IH]; intros s W B; simpl; auto.
  assert (Bi : (0 <= i < zlen (col s))%Z) by (apply (B i v); left; auto).
  unfold py_getitem. rewrite norm_index_nonneg by assumption.
  destruct (nth_error (col s) (Z.to_nat i)) as [o|] eqn:E;
    [|apply nth_error_None in E; unfold zlen in Bi; lia].
  assert (W' : wf (set_val s o v)) by exact W.
  destruct (IH (set_val s o v) W') as (R & W2 & T).
  { intros j w Hj. apply (B j w). right; auto. }
  split; auto. split; auto. rewrite T. unfold assign_at. simpl. f_equal.
  unfold to_list. simpl. apply map_set_nth_updf; auto. apply W.
Qed.

Lemma delslice_wf : forall s sl c, wf s -> py_delslice (col s) sl = Ok c -> wf (with_col s c).
Proof.
  intros s sl c W H.
  destruct (py_getslice (col s) sl) as [g|e] eqn:G.
  - pose proof (getslice_delslice_perm nat (col s) sl g c G H) as P.
    apply wf_with_col; auto.
    + destruct W as [ND _]. eapply Permutation.Permutation_NoDup in ND; [|exact P].
      clear -ND. induction g; simpl in *; auto. inversion ND; auto.
    + intros o Ho. eapply Permutation.Permutation_in; [apply Permutation.Permutation_sym, P|].
      apply in_or_app; auto.
  - apply getslice_delslice_same_error in G. congruence.
Qed.

Lemma imul_succ : forall (l : list Z) n, (1 < n)%Z -> py_imul l n = l ++ py_imul l (n - 1)%Z.
Proof.
  intros l n H. unfold py_imul.
  destruct (n <=? 0)%Z eqn:E1; [lia|]. destruct (n - 1 <=? 0)%Z eqn:E2; [lia|].
  replace (Z.to_nat n) with (S (Z.to_nat (n - 1))) by lia. reflexivity.
Qed.

Lemma clamp_in : forall len v, (0 <= v <= len)%Z -> clamp_index 1 len v = v.
Proof.
  intros len v H. unfold clamp_index.
  destruct (v <? 0)%Z eqn:E; [lia|]. destruct (len <=? v)%Z eqn:E2; simpl; lia.
Qed.

Theorem proxy_list_is_view : forall s o, wf s -> pl_guard s o = true ->
  wf (snd (pl_step s o)) /\
  (fst (pl_step s o), to_list (snd (pl_step s o))) = plop_ref (to_list s) o.
Proof.
  intros s o W G. destruct o as [v|vs|i v|oi|v|i v|sl vs|i|sl| |vs|n| | |vs]; cbn [pl_step plop_ref py_list_op fst snd].
  - destruct (append_view s v W) as [W1 E]. split; auto. rewrite E; reflexivity.
  - destruct (extend_view vs s W) as [W1 E]. split; auto. simpl. rewrite E; reflexivity.
  - destruct (insert_view s i v W) as [W1 E]. split; auto. rewrite E; reflexivity.
  - unfold to_list. rewrite pop_map.
    destruct (py_pop (col s) (match oi with Some i => i | None => (-1)%Z end)) as [[x c]|e] eqn:E; simpl; auto.
    split; auto. unfold py_pop in E. destruct (norm_index _ (zlen (col s))); [|discriminate].
    destruct (nth_error (col s) n); inversion E; subst.
    apply wf_with_col; auto. apply del_nth_NoDup, W. intros o; apply del_nth_In.
  - unfold to_list, py_remove. rewrite (remove_first_map (pval s) v (col s) 0).
    destruct (find_val (pval s) v (col s) 0) as [k|]; simpl; auto.
    rewrite Nat.sub_0_r. split; auto.
    apply wf_with_col; auto. apply del_nth_NoDup, W. intros o; apply del_nth_In.
  - unfold to_list, py_setitem, py_getitem. rewrite zlen_map.
    destruct (norm_index i (zlen (col s))) as [n|] eqn:N; simpl; auto.
    pose proof (norm_index_lt _ _ _ _ N) as Hlt.
    destruct (nth_error (col s) n) as [o|] eqn:E; [|apply nth_error_None in E; lia].
    simpl. split; [exact W|]. f_equal. apply map_set_nth_updf; auto. apply W.
  - (* slice assignment: any slice *)
    unfold pl_setslice.
    assert (ZL : zlen (to_list s) = zlen (col s)) by (unfold to_list; apply zlen_map).
    rewrite ZL.
    assert (Hl : (0 <= zlen (col s))%Z) by (unfold zlen; lia).
    destruct (adjust sl (zlen (col s))) as [[[start stop] step]|e] eqn:A; [|simpl; auto].
    destruct (adjust_bounds _ _ _ _ _ Hl A) as (Hs & Hp & Hn).
    cbn [materialise]. unfold py_setslice. rewrite ZL, A.
    destruct (Z.eqb_spec step 1) as [->|N1].
    + destruct (Hp ltac:(lia)) as [B1 B2].
      set (a := Z.to_nat start). set (b := Z.to_nat (Z.max start stop)).
      assert (RL : length (range start stop 1) = b - a).
      { rewrite range_length, slicelen_step1. unfold a, b. lia. }
      assert (Ea : Z.of_nat a = start) by (unfold a; lia).
      rewrite RL, <- Ea.
      destruct (slice1_view s a b vs W) as (R & W1 & E).
      { unfold a, b, zlen in *. lia. }
      destruct (pl_del_loop (b - a) (Z.of_nat a) s) as [r s1]; simpl in *. subst r. simpl.
      split; auto. rewrite E. reflexivity.
    + destruct (Nat.eqb (length vs) (length (range start stop step))) eqn:L; [|simpl; auto].
      destruct (set_loop_view (combine (range start stop step) vs) s W) as (R & W1 & T).
      { intros i v H. apply in_combine_l in H. eapply range_in_bounds; eauto. }
      destruct (pl_set_loop (combine (range start stop step) vs) s) as [r s1]; simpl in *. subst r.
      split; auto. rewrite T. reflexivity.
  - destruct (delitem_view s i W) as [W1 E]. split; auto.
    destruct (pl_delitem s i) as [r s'], (py_delitem (to_list s) i) as [l'|e']; simpl in *;
      destruct r; try contradiction; try (destruct E; subst); auto.
  - unfold to_list. rewrite delslice_map.
    destruct (py_delslice (col s) sl) as [c|e] eqn:E; simpl; auto.
    split; auto. eapply delslice_wf; eauto.
  - split; [apply wf_with_col; auto; [constructor|intros o []]|reflexivity].
  - destruct (extend_view vs s W) as [W1 E]. split; auto. simpl. rewrite E; reflexivity.
  - simpl in G. apply Z.leb_le in G.
    destruct (Z.eqb_spec n 0).
    + subst. simpl. split; [apply wf_with_col; auto; [constructor|intros o []]|reflexivity].
    + destruct (1 <? n)%Z eqn:E1; simpl.
      * destruct (extend_view (py_imul (to_list s) (n - 1)) s W) as [W1 E]. split; auto.
        rewrite E. rewrite <- imul_succ by lia. reflexivity.
      * split; auto. assert (n = 1%Z) by lia. subst. unfold py_imul. simpl. rewrite app_nil_r. reflexivity.
  - discriminate.
  - discriminate.
  - assert (W0 : wf (pl_clear s)) by (apply wf_with_col; auto; [constructor|intros o []]).
    destruct (extend_view vs (pl_clear s) W0) as [W1 E]. split; auto. rewrite E. reflexivity.
Qed.

(* ------------------------------------------------------------------ dict proxy *)
Lemma d_get_view : forall s k,
  d_get k (to_dict s) = option_map (pval s) (find_key (pkey s) k (col s)).
Proof.
  intros s k. unfold to_dict. induction (col s) as [|o r IH]; simpl; auto.
  rewrite Z.eqb_sym. destruct (Z.eqb (pkey s o) k); auto.
Qed.

Lemma find_key_In : forall f k c o, find_key f k c = Some o -> In o c /\ f o = k.
Proof.
  induction c as [|a r IH]; simpl; intros o H; [discriminate|].
  destruct (Z.eqb_spec (f a) k).
  - inversion H; subst; auto.
  - destruct (IH _ H); auto.
Qed.

Lemma d_set_absent : forall k v d, d_get k d = None -> d_set k v d = d ++ [(k, v)].
Proof.
  induction d as [|[k' v'] r IH]; simpl; intros H; auto.
  destruct (Z.eqb k k'); [discriminate|]. rewrite IH; auto.
Qed.

Lemma d_set_present : forall s k v o, NoDup (col s) -> find_key (pkey s) k (col s) = Some o ->
  d_set k v (to_dict s) = to_dict (set_val s o v).
Proof.
  intros s k v o. unfold to_dict, set_val; simpl.
  induction (col s) as [|a r IH]; simpl; intros ND H; [discriminate|].
  inversion ND; subst. rewrite Z.eqb_sym.
  destruct (Z.eqb_spec (pkey s a) k).
  - inversion H; subst. rewrite updf_same. f_equal.
    apply map_ext_in. intros x Hx. rewrite updf_other; auto. intro; subst; auto.
  - rewrite (IH H3 H). f_equal. rewrite updf_other; auto.
    intro; subst. destruct (find_key_In _ _ _ _ H). auto.
Qed.

Lemma pd_del_view : forall s k, to_dict (pd_del s k) = d_del k (to_dict s).
Proof.
  intros s k. unfold to_dict, pd_del, d_del; simpl.
  induction (col s) as [|a r IH]; simpl; auto.
  destruct (Z.eqb_spec (pkey s a) k); destruct (Z.eqb_spec k (pkey s a)); try congruence; simpl; auto.
  f_equal; auto.
Qed.

Lemma pd_del_wf : forall s k, wf s -> wf (pd_del s k).
Proof.
  intros s k [ND B]. unfold pd_del. apply wf_with_col; [|intros o Ho; apply filter_In in Ho; apply Ho|split; auto].
  apply NoDup_filter; auto.
Qed.

Lemma pd_setitem_view : forall s k v, wf s ->
  wf (pd_setitem s k v) /\ to_dict (pd_setitem s k v) = d_set k v (to_dict s).
Proof.
  intros s k v W. unfold pd_setitem.
  destruct (find_key (pkey s) k (col s)) as [o|] eqn:F.
  - split; [exact W|]. symmetry. apply d_set_present; auto. apply W.
  - destruct W as [ND B]. simpl. split.
    + split; simpl.
      * clear -ND B. induction (col s) as [|a r IH]; simpl; [constructor; auto; constructor|].
        inversion ND; subst. constructor.
        -- intro H. apply in_app_or in H. destruct H as [H|[H|[]]]; auto.
           specialize (B a (or_introl eq_refl)). lia.
        -- apply IH; auto. intros o Ho; apply B; right; auto.
      * intros o H. apply in_app_or in H. destruct H as [H|[<-|[]]]; auto. specialize (B o H). lia.
    + rewrite d_set_absent by (rewrite d_get_view, F; reflexivity).
      unfold to_dict; simpl. rewrite map_app. simpl. rewrite !updf_same. f_equal.
      apply map_ext_in. intros o Ho. specialize (B o Ho). rewrite !updf_other by lia. reflexivity.
Qed.

Theorem proxy_dict_is_view_partial : forall s o, wf s -> pd_guard s o = true ->
  (match o with DUpdate _ _ => False | _ => True end) ->
  wf (snd (pd_step s o)) /\
  (fst (pd_step s o), to_dict (snd (pd_step s o))) = pdop_ref (to_dict s) o.
Proof.
  intros s o W G NU. destruct o as [k v|k| |k dflt| |k v|u kw|m]; unfold pdop_ref; cbn [pd_step py_dict_op fst snd].
  - destruct (pd_setitem_view s k v W) as [W1 E]. split; auto. rewrite E; reflexivity.
  - unfold d_has. rewrite d_get_view.
    destruct (find_key (pkey s) k (col s)) as [o|]; simpl; auto.
    split; [apply pd_del_wf; auto|]. rewrite pd_del_view; reflexivity.
  - split; [apply wf_with_col; auto; [constructor|intros o []]|reflexivity].
  - rewrite d_get_view.
    destruct (find_key (pkey s) k (col s)) as [o|]; simpl.
    + split; [apply pd_del_wf; auto|]. rewrite pd_del_view; reflexivity.
    + destruct dflt; auto.
  - unfold d_last, to_dict. rewrite <- map_rev.
    destruct (rev (col s)) as [|o r]; simpl; auto.
    split; [apply pd_del_wf; auto|]. f_equal. apply (pd_del_view s (pkey s o)).
  - rewrite d_get_view.
    destruct (find_key (pkey s) k (col s)) as [o|] eqn:F; simpl; auto.
    destruct (pd_setitem_view s k v W) as [W1 E]. split; auto. rewrite E; reflexivity.
  - contradiction.
  - discriminate.
Qed.

(* update(): applying the collapsed dict `up` equals applying the pairs one by one *)
Definition keys (d : pydict) : list Z := map fst d.

Lemma d_get_None_notin : forall k d, d_get k d = None <-> ~ In k (keys d).
Proof.
  induction d as [|[k' v'] r IH]; simpl; [tauto|].
  destruct (Z.eqb_spec k k'); split; intro H; try discriminate.
  - exfalso; apply H; auto.
  - intros [E|E]; [congruence|]. apply IH in H; auto.
  - apply IH. intro; apply H; auto.
Qed.

Lemma keys_d_set : forall k v d x, In x (keys (d_set k v d)) <-> x = k \/ In x (keys d).
Proof.
  induction d as [|[k' v'] r IH]; simpl; intros x.
  - split; [intros [H|[]]; auto|intros [H|[]]; auto].
  - destruct (Z.eqb_spec k k'); simpl.
    + subst. split; [intros [H|H]; auto|intros [H|[H|H]]; auto].
    + rewrite IH. split; [intros [H|[H|H]]; auto|intros [H|[H|H]]; auto].
Qed.

Lemma NoDup_keys_d_set : forall k v d, NoDup (keys d) -> NoDup (keys (d_set k v d)).
Proof.
  induction d as [|[k' v'] r IH]; simpl; intros H.
  - repeat constructor; auto.
  - inversion H; subst. destruct (Z.eqb_spec k k'); simpl.
    + subst. constructor; auto.
    + constructor; auto. intro Hin. apply keys_d_set in Hin. destruct Hin; [congruence|auto].
Qed.

(* replacing the value of a key that is present commutes with any other assignment *)
Lemma d_set_comm_present : forall k v k1 v1 d, k <> k1 -> In k (keys d) ->
  d_set k v (d_set k1 v1 d) = d_set k1 v1 (d_set k v d).
Proof.
  induction d as [|[k' v'] r IH]; simpl; intros N H; [contradiction|].
  destruct (Z.eqb_spec k1 k'); destruct (Z.eqb_spec k k'); subst; simpl.
  - congruence.
  - destruct (Z.eqb_spec k k'); [congruence|]. rewrite Z.eqb_refl. reflexivity.
  - rewrite Z.eqb_refl. destruct (Z.eqb_spec k1 k'); [congruence|]. reflexivity.
  - destruct (Z.eqb_spec k k'); [congruence|]. destruct (Z.eqb_spec k1 k'); [congruence|].
    f_equal. apply IH; auto. destruct H; [simpl in *; congruence|auto].
Qed.

Lemma d_set_idem : forall k v v' d, d_set k v (d_set k v' d) = d_set k v d.
Proof.
  induction d as [|[k' w] r IH]; simpl.
  - rewrite Z.eqb_refl. reflexivity.
  - destruct (Z.eqb_spec k k'); simpl.
    + rewrite Z.eqb_refl. reflexivity.
    + destruct (Z.eqb_spec k k'); [congruence|]. f_equal; auto.
Qed.

Lemma d_update_cons : forall d kv r, d_update d (kv :: r) = d_update (d_set (fst kv) (snd kv) d) r.
Proof. reflexivity. Qed.

Lemma set_update_comm : forall r k v d, ~ In k (keys r) -> In k (keys d) ->
  d_set k v (d_update d r) = d_update (d_set k v d) r.
Proof.
  induction r as [|[k1 v1] r IH]; intros k v d N H; auto.
  rewrite !d_update_cons. simpl fst; simpl snd.
  rewrite IH.
  - f_equal. apply d_set_comm_present; auto. intro; subst; apply N; left; auto.
  - intro; apply N; right; auto.
  - apply keys_d_set; auto.
Qed.

Lemma update_set_unique : forall m k v d, NoDup (keys m) ->
  d_update d (d_set k v m) = d_set k v (d_update d m).
Proof.
  induction m as [|[k' v'] r IH]; intros k v d ND; auto.
  inversion ND; subst. simpl d_set.
  destruct (Z.eqb_spec k k').
  - subst. rewrite !d_update_cons. simpl fst; simpl snd.
    rewrite set_update_comm; auto.
    + rewrite d_set_idem. reflexivity.
    + apply keys_d_set; auto.
  - rewrite !d_update_cons. simpl fst; simpl snd. apply IH; auto.
Qed.

Lemma update_update : forall ps m d, NoDup (keys m) ->
  d_update d (d_update m ps) = d_update (d_update d m) ps.
Proof.
  induction ps as [|[k v] r IH]; intros m d ND; auto.
  rewrite !d_update_cons. simpl fst; simpl snd.
  rewrite IH by (apply NoDup_keys_d_set; auto).
  rewrite update_set_unique; auto.
Qed.

Lemma NoDup_keys_update : forall ps m, NoDup (keys m) -> NoDup (keys (d_update m ps)).
Proof.
  induction ps as [|[k v] r IH]; intros m ND; auto.
  rewrite d_update_cons. apply IH. apply NoDup_keys_d_set; auto.
Qed.

Lemma pd_update_view : forall up s, wf s ->
  wf (fold_left (fun acc kv => pd_setitem acc (fst kv) (snd kv)) up s) /\
  to_dict (fold_left (fun acc kv => pd_setitem acc (fst kv) (snd kv)) up s) = d_update (to_dict s) up.
Proof.
  induction up as [|[k v] r IH]; intros s W; simpl; auto.
  destruct (pd_setitem_view s k v W) as [W1 E1]. destruct (IH _ W1) as [W2 E2].
  split; auto. rewrite E2, E1. reflexivity.
Qed.

Theorem proxy_dict_update_view : forall s u kw, wf s ->
  wf (snd (pd_step s (DUpdate u kw))) /\
  (fst (pd_step s (DUpdate u kw)), to_dict (snd (pd_step s (DUpdate u kw)))) = pdop_ref (to_dict s) (DUpdate u kw).
Proof.
  intros s u kw W. unfold pdop_ref. cbn [pd_step py_dict_op fst snd].
  destruct (pd_update_view (d_update (d_update [] (upd_pairs u)) kw) s W) as [W1 E].
  split; auto. rewrite E. f_equal.
  rewrite update_update by (apply NoDup_keys_update; constructor).
  rewrite update_update by constructor. reflexivity.
Qed.

Theorem proxy_dict_is_view : forall s o, wf s -> pd_guard s o = true ->
  wf (snd (pd_step s o)) /\
  (fst (pd_step s o), to_dict (snd (pd_step s o))) = pdop_ref (to_dict s) o.
Proof.
  intros s o W G. destruct o as [k v|k| |k dflt| |k v|u kw|m] eqn:E;
    try (apply proxy_dict_is_view_partial; auto; exact I).
  apply proxy_dict_update_view; auto.
Qed.

(* ------------------------------------------------------------------ set proxy *)
(* the proxied values are distinct; single-element operations and the unions / differences built
   from them *)
Definition wfs (s : px) : Prop := wf s /\ NoDup (to_list s).

Lemma find_member_view : forall s v, ps_mem s v = mem v (to_list s).
Proof.
  intros s v. unfold ps_mem, to_list, mem.
  induction (col s) as [|o r IH]; simpl; auto.
  destruct (Z.eqb_spec (pval s o) v); destruct (Z.eqb_spec v (pval s o)); try congruence; simpl; auto.
Qed.

Lemma filter_all : forall (A : Type) (p : A -> bool) l, (forall x, In x l -> p x = true) -> filter p l = l.
Proof.
  induction l; simpl; intros H; auto. rewrite (H a (or_introl eq_refl)). f_equal. apply IHl. intros; apply H; auto.
Qed.

Lemma find_member_In : forall f v c o, find_member f v c = Some o -> In o c /\ f o = v.
Proof.
  induction c as [|a r IH]; simpl; intros o H; [discriminate|].
  destruct (Z.eqb_spec (f a) v).
  - inversion H; subst; auto.
  - destruct (IH _ H); auto.
Qed.

Lemma discard_aux : forall (f : nat -> Z) v c, NoDup c -> NoDup (map f c) ->
  map f (match find_member f v c with
         | Some o => filter (fun x => negb (Nat.eqb x o)) c
         | None => c end) = filter (fun y => negb (Z.eqb v y)) (map f c).
Proof.
  intros f v. induction c as [|a r IH]; intros N1 N2; simpl; auto.
  inversion N1; subst. inversion N2; subst.
  destruct (Z.eqb_spec (f a) v); destruct (Z.eqb_spec v (f a)); try congruence; simpl.
  - rewrite Nat.eqb_refl. simpl.
    rewrite filter_all.
    + rewrite filter_all; auto. intros y Hy. apply negb_true_iff. apply Z.eqb_neq. intro; subst. congruence.
    + intros x Hx. apply negb_true_iff. apply Nat.eqb_neq. intro; subst; auto.
  - specialize (IH H2 H4).
    destruct (find_member f v r) as [o|] eqn:F; simpl.
    + destruct (find_member_In _ _ _ _ F) as [Ho Hv].
      destruct (Nat.eqb_spec a o); [subst; congruence|]. simpl. f_equal; auto.
    + f_equal; auto.
Qed.

Lemma NoDup_snoc_Z : forall (l : list Z) x, NoDup l -> ~ In x l -> NoDup (l ++ [x]).
Proof.
  induction l; simpl; intros x ND Hx; [constructor; auto; constructor|].
  inversion ND; subst. constructor.
  - intro H. apply in_app_or in H. destruct H as [H|[->|[]]]; auto.
  - apply IHl; auto.
Qed.

Lemma ps_add_view : forall s v, wfs s ->
  wfs (ps_add s v) /\ to_list (ps_add s v) = set_add v (to_list s).
Proof.
  intros s v [W ND]. unfold ps_add, set_add. rewrite find_member_view.
  destruct (mem v (to_list s)) eqn:M; [split; [split|]; auto|].
  pose proof (append_view s v W) as [W1 E]. unfold pl_append in *. simpl in *.
  split; [split; auto|auto].
  rewrite E. apply NoDup_snoc_Z; auto.
  intro H. unfold mem in M. rewrite <- not_true_iff_false in M. apply M.
  apply existsb_exists. exists v; split; auto. apply Z.eqb_refl.
Qed.

Lemma ps_discard_view : forall s v, wfs s ->
  wfs (ps_discard s v) /\ to_list (ps_discard s v) = set_discard v (to_list s).
Proof.
  intros s v [[NDc B] ND].
  assert (E : to_list (ps_discard s v) = set_discard v (to_list s)).
  { pose proof (discard_aux (pval s) v (col s) NDc ND) as G.
    unfold ps_discard, set_discard, to_list in *. destruct (find_member (pval s) v (col s)); simpl; auto. }
  split; auto. split.
  - unfold ps_discard. destruct (find_member (pval s) v (col s)); [|split; auto].
    apply wf_with_col; [apply NoDup_filter; auto|intros o Ho; apply filter_In in Ho; apply Ho|split; auto].
  - rewrite E. apply NoDup_filter; auto.
Qed.

Lemma ps_update_view : forall vs s, wfs s ->
  wfs (fold_left ps_add vs s) /\ to_list (fold_left ps_add vs s) = set_union (to_list s) vs.
Proof.
  induction vs as [|v r IH]; intros s W; simpl; auto.
  destruct (ps_add_view s v W) as [W1 E1]. destruct (IH _ W1) as [W2 E2].
  split; auto. rewrite E2, E1. reflexivity.
Qed.

Lemma set_diff_fold : forall vs (l : list Z),
  fold_left (fun acc v => set_discard v acc) vs l = set_diff l vs.
Proof.
  induction vs as [|v r IH]; intros l; simpl.
  - unfold set_diff. symmetry. apply filter_all. auto.
  - rewrite IH. unfold set_diff, set_discard. clear.
    induction l as [|a t IHl]; simpl; auto.
    destruct (Z.eqb_spec v a); simpl.
    + subst. rewrite Z.eqb_refl. simpl. auto.
    + destruct (Z.eqb_spec a v); [congruence|]. simpl. destruct (mem a r); simpl; auto. f_equal; auto.
Qed.

Lemma ps_diffupdate_view : forall vs s, wfs s ->
  wfs (fold_left ps_discard vs s) /\ to_list (fold_left ps_discard vs s) = set_diff (to_list s) vs.
Proof.
  intros vs s W. rewrite <- set_diff_fold. revert s W.
  induction vs as [|v r IH]; intros s W; simpl; auto.
  destruct (ps_discard_view s v W) as [W1 E1]. destruct (IH _ W1) as [W2 E2].
  split; auto. rewrite E2, E1. reflexivity.
Qed.

(* the single-element operations and the unions / differences built from them; the bulk
   intersection / symmetric-difference operations (which remove and add in the iteration order of
   builtin sets) are compared with the implementation and the builtin by the check only *)
Definition ps_covered (o : sop) : bool :=
  match o with
  | SAdd _ | SDiscard _ | SRemove _ | SClear => true
  | SUpdate (ASet _) | SUpdate (AList _) | SDiffUpdate (ASet _) | SDiffUpdate (AList _) => true
  | SIor (ASet _) | SIsub (ASet _) => true
  | _ => false
  end.

Theorem proxy_set_is_view_partial : forall ord s o, wfs s -> ps_covered o = true ->
  wfs (snd (ps_step ord s o)) /\
  (fst (ps_step ord s o), to_list (snd (ps_step ord s o))) = psop_ref ord (to_list s) o.
Proof.
  intros ord s o W C. unfold psop_ref.
  destruct o as [v|v|v| | |a|a|a|a|a|a|a|a]; try discriminate; cbn [ps_step py_set_op fst snd].
  - destruct (ps_add_view s v W) as [W1 E]. split; auto. rewrite E; reflexivity.
  - destruct (ps_discard_view s v W) as [W1 E]. split; auto. rewrite E; reflexivity.
  - unfold ps_remove. rewrite find_member_view.
    destruct (mem v (to_list s)); simpl; auto.
    destruct (ps_discard_view s v W) as [W1 E]. split; auto. rewrite E; reflexivity.
  - split; [|reflexivity]. split; [apply wf_with_col; [constructor|intros o []|apply W]|constructor].
  - destruct a as [vs|vs| |]; try discriminate; simpl.
    + destruct (ps_update_view (ord vs) s W) as [W1 E]. split; auto. rewrite E; reflexivity.
    + destruct (ps_update_view vs s W) as [W1 E]. split; auto. rewrite E; reflexivity.
  - destruct a as [vs|vs| |]; try discriminate; simpl.
    + destruct (ps_diffupdate_view (ord vs) s W) as [W1 E]. split; auto. rewrite E; reflexivity.
    + destruct (ps_diffupdate_view vs s W) as [W1 E]. split; auto. rewrite E; reflexivity.
  - destruct a as [vs|vs| |]; try discriminate; simpl.
    destruct (ps_update_view (ord vs) s W) as [W1 E]. split; auto. rewrite E; reflexivity.
  - destruct a as [vs|vs| |]; try discriminate; simpl.
    destruct (ps_diffupdate_view (ord vs) s W) as [W1 E]. split; auto. rewrite E; reflexivity.
Qed.

(* ------------------------------------------------------------------ whole-collection assignment *)
Lemma mem_In : forall x l, mem x l = true <-> In x l.
Proof.
  intros; unfold mem; rewrite existsb_exists; split.
  - intros [y [Hy E]]; apply Z.eqb_eq in E; subst; auto.
  - intros H; exists x; split; auto; apply Z.eqb_refl.
Qed.
Lemma mem_false : forall x l, mem x l = false <-> ~ In x l.
Proof. intros; rewrite <- mem_In; destruct (mem x l); split; congruence. Qed.

Lemma d_get_set : forall k k1 v1 d, d_get k (d_set k1 v1 d) = if Z.eqb k k1 then Some v1 else d_get k d.
Proof.
  induction d as [|[k' v'] r IH]; simpl.
  - reflexivity.
  - destruct (Z.eqb_spec k1 k'); simpl.
    + subst. destruct (Z.eqb k k'); reflexivity.
    + rewrite IH. destruct (Z.eqb_spec k k'); destruct (Z.eqb_spec k k1); subst; try congruence; reflexivity.
Qed.

Lemma d_get_update_rel : forall m d d' d0,
  (forall k, d_get k d = match d_get k d' with Some v => Some v | None => d_get k d0 end) ->
  forall k, d_get k (d_update d m) = match d_get k (d_update d' m) with Some v => Some v | None => d_get k d0 end.
Proof.
  induction m as [|[k1 v1] r IH]; intros d d' d0 H k; auto.
  rewrite !d_update_cons. simpl fst; simpl snd. apply IH.
  intros k2. rewrite !d_get_set. destruct (Z.eqb k2 k1); auto.
Qed.

Lemma d_get_update_keys : forall m d' k,
  (mem k (map fst m) = true -> d_get k (d_update d' m) <> None) /\
  (mem k (map fst m) = false -> d_get k (d_update d' m) = d_get k d').
Proof.
  induction m as [|[k1 v1] r IH]; intros d' k.
  - simpl. split; [discriminate|auto].
  - change (d_update d' ((k1, v1) :: r)) with (d_update (d_set k1 v1 d') r).
    cbn [map fst mem existsb]. fold (mem k (map fst r)).
    destruct (IH (d_set k1 v1 d') k) as [A B]. split.
    + intros H. destruct (mem k (map fst r)) eqn:M; [auto|].
      rewrite (B eq_refl), d_get_set. apply orb_prop in H. destruct H as [H|H]; [|discriminate].
      rewrite H. discriminate.
    + intros H. apply orb_false_elim in H. destruct H as [H1 H2].
      rewrite (B H2), d_get_set, H1. reflexivity.
Qed.

Lemma d_get_del : forall k k1 d, d_get k (d_del k1 d) = if Z.eqb k k1 then None else d_get k d.
Proof.
  induction d as [|[k' v'] r IH]; simpl.
  - destruct (Z.eqb k k1); reflexivity.
  - destruct (Z.eqb_spec k1 k'); simpl.
    + subst. rewrite IH. destruct (Z.eqb_spec k k'); reflexivity.
    + rewrite IH. destruct (Z.eqb_spec k k'); destruct (Z.eqb_spec k k1); subst; try congruence; reflexivity.
Qed.

Lemma pd_del_all_view : forall rem s, wf s ->
  wf (fold_left pd_del rem s) /\
  forall k, d_get k (to_dict (fold_left pd_del rem s)) = if mem k rem then None else d_get k (to_dict s).
Proof.
  induction rem as [|k1 r IH]; intros s W; simpl; auto.
  destruct (IH (pd_del s k1) (pd_del_wf s k1 W)) as [W1 E]. split; auto.
  intros k. rewrite E, pd_del_view, d_get_del. destruct (Z.eqb k k1); simpl; auto.
  destruct (mem k r); reflexivity.
Qed.

Lemma d_get_Some_keys : forall k d, d_get k d <> None -> In k (map fst d).
Proof.
  induction d as [|[k' v'] r IH]; simpl; intros H; [congruence|].
  destruct (Z.eqb_spec k k'); auto.
Qed.

(* obj.proxy = m : afterwards the view IS the assigned mapping - for every old contents and every m *)
Theorem proxy_dict_assign_view : forall s m, wf s ->
  wf (pd_assign s m) /\
  forall k, d_get k (to_dict (pd_assign s m)) = d_get k (d_update [] m).
Proof.
  intros s m W. unfold pd_assign.
  destruct (pd_update_view m s W) as [W1 E1].
  set (rem := filter (fun k => negb (mem k (map fst m))) (map fst (to_dict s))).
  destruct (pd_del_all_view rem _ W1) as [W2 E2]. split; auto.
  intros k. rewrite E2, E1.
  rewrite (d_get_update_rel m (to_dict s) [] (to_dict s)) by (intros; reflexivity).
  destruct (d_get_update_keys m [] k) as [A B].
  destruct (mem k (map fst m)) eqn:M.
  - assert (R : mem k rem = false).
    { apply mem_false. unfold rem. intro H. apply filter_In in H. destruct H as [_ H]. rewrite M in H; discriminate. }
    rewrite R. destruct (d_get k (d_update [] m)); auto. exfalso; apply (A eq_refl); reflexivity.
  - rewrite (B eq_refl). simpl.
    destruct (mem k rem) eqn:R; auto.
    destruct (d_get k (to_dict s)) eqn:G; auto.
    exfalso. apply mem_false in R. apply R. unfold rem. apply filter_In. split.
    + apply d_get_Some_keys. congruence.
    + rewrite M. reflexivity.
Qed.

(* sets *)
Lemma In_set_add : forall x y l, In x (set_add y l) <-> x = y \/ In x l.
Proof.
  intros; unfold set_add. destruct (mem y l) eqn:M.
  - split; auto. intros [->|H]; auto. apply mem_In; auto.
  - rewrite in_app_iff. simpl. split; [intros [H|[H|[]]]; auto|intros [H|H]; auto].
Qed.
Lemma In_set_union : forall vs l x, In x (set_union l vs) <-> In x l \/ In x vs.
Proof.
  unfold set_union. induction vs as [|v r IH]; intros l x; simpl.
  - split; auto. intros [H|[]]; auto.
  - rewrite IH, In_set_add. split; [intros [[H|H]|H]; auto|intros [H|[H|H]]; auto].
Qed.
Lemma In_set_diff : forall a b x, In x (set_diff a b) <-> In x a /\ ~ In x b.
Proof.
  intros; unfold set_diff. rewrite filter_In. rewrite negb_true_iff, mem_false. reflexivity.
Qed.

Theorem proxy_set_assign_view : forall s vs, wfs s ->
  wfs (ps_assign s vs) /\ forall x, In x (to_list (ps_assign s vs)) <-> In x vs.
Proof.
  intros s vs W. unfold ps_assign.
  destruct (ps_update_view vs s W) as [W1 E1].
  destruct (ps_diffupdate_view (filter (fun x => negb (mem x vs)) (to_list s)) _ W1) as [W2 E2].
  split; auto. intros x. rewrite E2, E1, In_set_diff, In_set_union, filter_In, negb_true_iff, mem_false.
  destruct (mem x vs) eqn:M.
  - apply mem_In in M. tauto.
  - apply mem_false in M. tauto.
Qed.
