(* C49 - witnesses: the two regions excluded by [guard] really lose a change (also with tables in
   which every mutator notifies), and every mutator missing from the override table yields a
   counterexample history (the side condition [covers] is necessary, not only sufficient). *)
From Coq Require Import List ZArith Bool Arith Lia.
Import ListNotations.
From SAV.base Require Import PySlice.
From SAV.orm Require Import CollBase CollList CollSet CollDict Mutable MutableProofs.
Local Open Scope nat_scope.

Definition ord_id (l : list Z) : list Z := l.
Definition ov_full (k : kind) : list meth := in_place_mutators k.

(* (a) v = obj.data; obj.data = None; v[1] = 2; obj.data = v; flush
   - the object is flagged modified, but committed_state['data'] IS v, so is_equal(v, v) skips the
   UPDATE: after the flush the row still holds the old dictionary *)
Definition hist_reattach : list op :=
  [Save (TSess 0); SetPlain (TSess 0) None; Mut THandle (OD (DSetItem 1 2)%Z); SetH (TSess 0); Flush].
Definition w_reattach : world := run ord_id ov_full hist_reattach (init_world (Some (CD [(0, 1)]%Z)) None).

Lemma reattach_refuted :
  covers_all ov_full = true /\
  guarded ord_id ov_full hist_reattach (init_world (Some (CD [(0, 1)]%Z)) None) = false /\
  slot (objs w_reattach 0) = Pres (Some 0) /\
  vcont (heap w_reattach 0) = CD [(0, 1); (1, 2)]%Z /\
  db w_reattach 0 = Some (CD [(0, 1)]%Z) /\
  ~ stored w_reattach 0.
Proof.
  repeat split; try (vm_compute; reflexivity).
  intros H. specialize (H (Some 0) eq_refl). vm_compute in H. discriminate.
Qed.

(* (b) the same list assigned to two rows, flushed; row 0 expired; row1.data.append(7):
   changed() reaches the expired row 0 first and raises, row 1 is never flagged *)
Definition hist_shared : list op :=
  [Save (TSess 0); SetH (TSess 1); Flush; Expire 0; Mut (TSess 1) (OL (LAppend 7%Z))].
Definition w_shared : world := run ord_id ov_full hist_shared (init_world (Some (CL [1]%Z)) None).

Lemma shared_expired_refuted :
  guarded ord_id ov_full hist_shared (init_world (Some (CL [1]%Z)) None) = false /\
  snd (step ord_id ov_full
         (run ord_id ov_full [Save (TSess 0); SetH (TSess 1); Flush; Expire 0] (init_world (Some (CL [1]%Z)) None))
         (Mut (TSess 1) (OL (LAppend 7%Z)))) = rc_invalid /\
  slot (objs w_shared 1) = Pres (Some 0) /\
  vcont (heap w_shared 0) = CL [1; 7]%Z /\
  db w_shared 1 = Some (CL [1]%Z) /\
  pmod (objs w_shared 1) = false /\
  ~ in_sync w_shared 1.
Proof.
  repeat split; try (vm_compute; reflexivity).
  intros H. specialize (H eq_refl (Some 0) eq_refl). vm_compute in H. discriminate.
Qed.

(* ------------------------------------------------------------------ covers is necessary *)
Lemma unnotified_mutation_lost : forall ov c o c',
  notifies ov c o = false ->
  mut_sem ord_id c o = (Ok tt, c') ->
  ceq c' c = false ->
  guarded ord_id ov [Mut (TSess 0) o] (init_world (Some c) None) = true /\
  ~ in_sync (run ord_id ov [Mut (TSess 0) o] (init_world (Some c) None)) 0.
Proof.
  intros ov c o c' N MS NE.
  assert (GV : get_value (init_world (Some c) None) (TSess 0) =
               (fst (load (init_world (Some c) None) 0), rc_ok, Some (Some 0))) by reflexivity.
  set (w1 := fst (load (init_world (Some c) None) 0)) in *.
  assert (H0 : vcont (heap w1 0) = c) by reflexivity.
  assert (P0 : vpar (heap w1 0) = [0]) by reflexivity.
  split.
  - cbn [guarded guard]. rewrite GV. rewrite H0, MS, N. simpl.
    reflexivity.
  - cbn [run step fst]. rewrite GV. unfold mutate. rewrite H0, MS, N. cbn [fst].
    intros IS. unfold in_sync in IS.
    specialize (IS eq_refl (Some 0) eq_refl).
    revert IS. unfold val. cbn. unfold upd. simpl. rewrite NE. discriminate.
Qed.

Definition witness (k : kind) (m : meth) : option (cont * cop) :=
  let d := CD [(0, 1)]%Z in let l := CL [2; 1]%Z in let s := CS [1; 2]%Z in
  match k, m with
  | KDict, M_setitem => Some (d, OD (DSetItem 1 2)%Z)
  | KDict, M_delitem => Some (d, OD (DDelItem 0)%Z)
  | KDict, M_clear => Some (d, OD DClear)
  | KDict, M_pop => Some (d, OD (DPop 0%Z None))
  | KDict, M_popitem => Some (d, OD DPopItem)
  | KDict, M_setdefault => Some (d, OD (DSetDefault 1 2)%Z)
  | KDict, M_update => Some (d, OD (DUpdate (UMap [(1, 2)]%Z) []))
  | KDict, M_ior => Some (d, OD (DIor [(1, 2)]%Z))
  | KList, M_setitem => Some (l, OL (LSetItem 0 9)%Z)
  | KList, M_delitem => Some (l, OL (LDelItem 0%Z))
  | KList, M_append => Some (l, OL (LAppend 7%Z))
  | KList, M_extend => Some (l, OL (LExtend (VList [7%Z])))
  | KList, M_insert => Some (l, OL (LInsert 0 7)%Z)
  | KList, M_pop => Some (l, OL (LPop None))
  | KList, M_remove => Some (l, OL (LRemove 1%Z))
  | KList, M_clear => Some (l, OL LClear)
  | KList, M_sort => Some (l, OLSort false)
  | KList, M_reverse => Some (l, OL LReverse)
  | KList, M_iadd => Some (l, OL (LIAdd (VList [7%Z])))
  | KList, M_imul => Some (l, OL (LIMul 2%Z))
  | KSet, M_add => Some (s, OS (SAdd 7%Z))
  | KSet, M_discard => Some (s, OS (SDiscard 1%Z))
  | KSet, M_remove => Some (s, OS (SRemove 1%Z))
  | KSet, M_pop => Some (s, OS SPop)
  | KSet, M_clear => Some (s, OS SClear)
  | KSet, M_update => Some (s, OS (SUpdate (AList [7%Z])))
  | KSet, M_difference_update => Some (s, OS (SDiffUpdate (AList [1%Z])))
  | KSet, M_intersection_update => Some (s, OS (SInterUpdate (AList [1%Z])))
  | KSet, M_symmetric_difference_update => Some (s, OS (SSymDiffUpdate (AList [1%Z])))
  | KSet, M_ior => Some (s, OS (SIor (ASet [7%Z])))
  | KSet, M_iand => Some (s, OS (SIand (ASet [1%Z])))
  | KSet, M_isub => Some (s, OS (SIsub (ASet [1%Z])))
  | KSet, M_ixor => Some (s, OS (SIxor (ASet [1%Z])))
  | _, _ => None
  end.

Definition witness_ok (k : kind) (m : meth) : bool :=
  match witness k m with
  | None => false
  | Some (c, o) =>
      match mut_sem ord_id c o with
      | (Ok _, c') => negb (ceq c' c) && meth_beq (meth_of o) m &&
                      match kind_of c, k with KDict, KDict | KList, KList | KSet, KSet => true | _, _ => false end
      | _ => false
      end
  end.

Lemma witnesses_ok : forall k, forallb (witness_ok k) (in_place_mutators k) = true.
Proof. destruct k; vm_compute; reflexivity. Qed.

Theorem covers_necessary : forall k m ov,
  In m (in_place_mutators k) -> memb m (ov k) = false ->
  exists c o, kind_of c = k /\ meth_of o = m /\
    guarded ord_id ov [Mut (TSess 0) o] (init_world (Some c) None) = true /\
    ~ in_sync (run ord_id ov [Mut (TSess 0) o] (init_world (Some c) None)) 0.
Proof.
  intros k m ov Hin Hm.
  pose proof (witnesses_ok k) as W. rewrite forallb_forall in W. specialize (W m Hin).
  unfold witness_ok in W. destruct (witness k m) as [[c o]|]; [|discriminate].
  destruct (mut_sem ord_id c o) as [[[]|e] c'] eqn:MS; [|discriminate].
  apply andb_prop in W; destruct W as [W W3]. apply andb_prop in W; destruct W as [W1 W2].
  apply negb_true_iff in W1. apply internal_meth_dec_bl in W2.
  assert (KK : kind_of c = k) by (destruct (kind_of c), k; congruence).
  exists c, o. split; auto. split; auto.
  apply (unnotified_mutation_lost ov c o c'); auto.
  unfold notifies. rewrite W2, KK. exact Hm.
Qed.

(* the tables before commit eb5f802: MutableDict had no __ior__, MutableList no __imul__ *)
Definition ov_before_eb5f802 (k : kind) : list meth :=
  match k with
  | KDict => [M_setitem; M_delitem; M_clear; M_pop; M_popitem; M_setdefault; M_update]
  | KList => [M_setitem; M_delitem; M_append; M_extend; M_insert; M_pop; M_remove; M_clear; M_sort;
              M_reverse; M_iadd]
  | KSet => in_place_mutators KSet
  end.
