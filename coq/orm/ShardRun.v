(* executable entry point for the correspondence check of C53.

   input   L [I n; shard_chooser; identity_chooser; execute_chooser; L init; L ops]
     shard_chooser     L [I 0; I sel; L [I s ..]; I dflt]        table[key mod len]  (dflt when the table is empty)
                       L [I 1; I sel; L [L [I b; I s] ..]; I dflt]  first b with key < b, else dflt
                       sel: 0 = pk, 1 = grp, 2 = val  (hash / attribute / range based choosers)
     identity_chooser  L [L [I s ..] ..]                          table[pk mod len]
     execute_chooser   L [L all; L grp_table; L pk_table; L val_table]   (tables of shard lists)
     init              per shard 0..n-1 the rows L [I pk; I grp; I val]
     ops               L [I 0; pk; grp; val; pre] add (pre = -1: no preset token)
                       L [I 1; o; g; v] set | L [I 2] flush | L [I 3] commit | L [I 4; L [o ..]] delete all in one flush
                       L [I 5; qkind; qarg; tgt; how] query (tgt = -1: execute_chooser; how = 0: 2.0-style
                         execute (shard as bind argument), 1: legacy Query (shard by set_shard; result
                         uniqued), 2: execute with the set_shard_id option)
                       L [I 6; k; tok] get | L [I 7; o] refresh
                       L [I 8; pk; grp; val; tok] merge of a detached object with identity key (pk, tok)
                       object numbers are taken modulo the number of objects seen so far
   output  [run_full]: L [L per-op observations; I error code; L committed rows per shard]
           per op: L [ret; L writes (sorted); L shards read; L object states; L visible rows per shard]
           [run_case]: L [I digest of run_full; I error code; I number of completed ops] *)
From Coq Require Import List ZArith NArith Bool.
Import ListNotations.
From SAV.base Require Import Tree.
From SAV.orm Require Import Shard.
Open Scope Z_scope.

Definition nth_mod {A} (l : list A) (k : Z) : option A :=
  match l with
  | [] => None
  | _ => nth_error l (Z.to_nat (k mod Z.of_nat (length l)))
  end.

Definition sel_key (sel : Z) (r : row) : Z :=
  if sel =? 0 then r_pk r else if sel =? 1 then r_grp r else r_val r.

Fixpoint range_pick (tab : list (Z * N)) (dflt : N) (k : Z) : N :=
  match tab with
  | [] => dflt
  | (b, s) :: r => if k <? b then s else range_pick r dflt k
  end.

Definition dec_shard_chooser (t : tree) : option (row -> N) :=
  match t with
  | L [I kind; I sel; tab; d] =>
      match as_N d with
      | Some dflt =>
          if kind =? 0 then
            match as_list_of as_N tab with
            | Some l => Some (fun r => match nth_mod l (sel_key sel r) with Some s => s | None => dflt end)
            | None => None
            end
          else
            match as_list_of (as_pair_of as_Z as_N) tab with
            | Some l => Some (fun r => range_pick l dflt (sel_key sel r))
            | None => None
            end
      | None => None
      end
  | _ => None
  end.

Definition dec_table (t : tree) : option (list (list N)) := as_list_of (as_list_of as_N) t.
Definition tab_pick (tab : list (list N)) (k : Z) : list N :=
  match nth_mod tab k with Some l => l | None => [] end.

Definition dec_exec_chooser (t : tree) : option (qry -> list N) :=
  match t with
  | L [a; g; p; v] =>
      match as_list_of as_N a, dec_table g, dec_table p, dec_table v with
      | Some la, Some tg, Some tp, Some tv =>
          Some (fun q => match q with
                         | QAll => la
                         | QGrp x => tab_pick tg x
                         | QPk x => tab_pick tp x
                         | QValGe x => tab_pick tv x
                         end)
      | _, _, _, _ => None
      end
  | _ => None
  end.

Definition as_row (t : tree) : option row :=
  match t with L [I a; I b; I c] => Some (mkRow a b c) | _ => None end.

Fixpoint dbs_of (tabs : list table) (s : N) : table :=
  match tabs with
  | [] => []
  | t :: r => if N.eqb s 0 then t else dbs_of r (N.pred s)
  end.

Definition opt_sid (z : Z) : option N := if z <? 0 then None else Some (Z.to_N z).

Definition obj_no (st : sess) (z : Z) : nat :=
  match insts st with
  | [] => 0%nat
  | _ => Z.to_nat (z mod Z.of_nat (length (insts st)))
  end.

Definition dec_op (st : sess) (t : tree) : option op :=
  match t with
  | L [I 0; I a; I b; I c; I p] => Some (OAdd (mkRow a b c) (opt_sid p))
  | L [I 1; I o; I g; I v] => Some (OSet (obj_no st o) g v)
  | L [I 2] => Some OFlush
  | L [I 3] => Some OCommit
  | L [I 4; L os] =>
      match all_some (map as_Z os) with
      | Some zs => Some (ODelete (map (obj_no st) zs))
      | None => None
      end
  | L [I 5; I k; I a; I tg; I how] =>
      let q := if k =? 0 then QAll else if k =? 1 then QGrp a else if k =? 2 then QPk a else QValGe a in
      Some (OQuery q (opt_sid tg) (how =? 1))
  | L [I 6; I k; I tk] => Some (OGet k (opt_sid tk))
  | L [I 7; I o] => Some (ORefresh (obj_no st o))
  | L [I 8; I a; I b; I c; I tk] => if tk <? 0 then None else Some (OMerge (mkRow a b c) (Z.to_N tk))
  | _ => None
  end.

(* ---- observation encoding ---- *)
Definition of_row (r : row) : tree := L [I (r_pk r); I (r_grp r); I (r_val r)].
Definition of_optsid (o : option N) : Z := match o with Some s => Z.of_N s | None => -1 end.
Definition of_ret (r : ret) : tree :=
  match r with
  | RNone => L []
  | ROids os => L [I 1; L (map of_nat os)]
  | ROpt None => L [I 2]
  | ROpt (Some o) => L [I 2; of_nat o]
  end.
Definition wkey (w : write) : Z :=
  match w with
  | WIns _ s r => Z.of_N s * 1000 + r_pk r
  | WUpd s r => 1000000 + Z.of_N s * 1000 + r_pk r
  | WDel s k => 2000000 + Z.of_N s * 1000 + k
  end.
Fixpoint wins (w : write) (l : list write) : list write :=
  match l with
  | [] => [w]
  | x :: r => if wkey w <=? wkey x then w :: l else x :: wins w r
  end.
Definition of_write (w : write) : tree :=
  match w with
  | WIns _ s r => L [I 0; of_N s; I (r_pk r); I (r_grp r); I (r_val r)]
  | WUpd s r => L [I 1; of_N s; I (r_pk r)]
  | WDel s k => L [I 2; of_N s; I k]
  end.
Definition of_life (x : life) : Z := match x with Pending => 0 | Persistent => 1 | Gone => 2 end.
Definition of_inst (i : inst) : tree :=
  L [I (of_life (i_life i)); I (of_optsid (i_tok i)); I (r_pk (i_cur i)); I (r_grp (i_cur i)); I (r_val (i_cur i))].
Definition shard_ids (n : nat) : list N := map N.of_nat (seq 0 n).
Definition of_dbs (n : nat) (d : dbs) : tree := L (map (fun s => L (map of_row (sort_pk (d s)))) (shard_ids n)).

Definition of_err (e : err) : Z :=
  match e with EIntegrity => 1 | EMultiple => 2 | EInvalid => 3 | EIndex => 4 | ENoRow => 5 end.

Section Run.
  Variable sc : row -> N.
  Variable ic : Z -> list N.
  Variable ec : qry -> list N.
  Variable n : nat.

  Definition obs_of (st st' : sess) (r : ret) : tree :=
    L [of_ret r;
       L (map of_write (fold_right wins [] (skipn (length (wlog st)) (wlog st'))));
       L (map of_N (skipn (length (rlog st)) (rlog st')));
       L (map of_inst (insts st'));
       of_dbs n (db st')].

  Fixpoint run_ops (st : sess) (ops : list tree) (acc : list tree) : tree :=
    match ops with
    | [] => L [L (rev acc); I 0; of_dbs n (committed st)]
    | t :: r =>
        match dec_op st t with
        | None => bad_input
        | Some o =>
            match step sc ic ec st o with
            | Ok (st', rt) => run_ops st' r (obs_of st st' rt :: acc)
            | Err e => L [L (rev acc); I (of_err e); of_dbs n (committed st)]
            end
        end
    end.
End Run.

Definition run_full (t : tree) : tree :=
  match t with
  | L [I n; tsc; tic; tec; tinit; L ops] =>
      match dec_shard_chooser tsc, dec_table tic, dec_exec_chooser tec,
            as_list_of (as_list_of as_row) tinit with
      | Some sc, Some ict, Some ec, Some tabs =>
          run_ops sc (tab_pick ict) ec (Z.to_nat n) (init (dbs_of tabs)) ops []
      | _, _, _, _ => bad_input
      end
  | _ => bad_input
  end.

(* digest of an observation (the harness computes the same function on the implementation's
   observation): keeps the per-run cases_*.v files small *)
(* polynomial hash modulo 2^60, computed with a bit mask (no division) *)
Definition M60 : Z := 1152921504606846975.
Definition mix (h x : Z) : Z := Z.land (h * 1000003 + x) M60.
Definition enc (z : Z) : Z := if 0 <=? z then 2 * z + 4 else -2 * z + 3.
Fixpoint hash_tree (h : Z) (t : tree) : Z :=
  match t with
  | I z => mix h (enc z)
  | L l =>
      mix ((fix go (h : Z) (l : list tree) : Z :=
              match l with [] => h | x :: r => go (hash_tree h x) r end) (mix h 1) l) 2
  end.

Definition run_case (t : tree) : tree :=
  match run_full t with
  | L [L obs; I e; fin] => L [I (hash_tree 7 (L [L obs; I e; fin])); I e; of_nat (length obs)]
  | x => x
  end.
