(* C31 - theorem B (edges_cover_fk), part 2: every ordering need that follows from the constraints is
   covered by a path of the final dependency set, in every regime (per-mapper / per-state on either side) *)
From Coq Require Import List NArith Bool Lia Permutation Arith.
Import ListNotations.
From SAV.util Require Import Topo Cycles TopoRun TopoProofs.
From SAV.orm Require Import FlushOrder FlushOrderSpec FlushOrderBase FlushOrderSort FlushOrderCover.
Local Open Scope N_scope.

Section Needs.
Variables (g : graph) (cy : list N).
Notation T := std_tables.
Hypothesis Hnd : NoDup (map d_id (g_deps g)).
Hypothesis Hshape : cyc_shape cy = true.
Hypothesis Hfollow : procs_follow g cy = true.
Hypothesis Hpair : forall m, In m (all_mappers g) -> incyc cy (DelAll m) = incyc cy (SaveAll m).

Notation fpath := (fpath T g cy).
Notation edge_ok := (edge_ok T g cy).

Let state_edge := state_edge g cy.
Let state_act := state_act g cy.
Let proc_clean := proc_clean g cy Hnd.
Let proc_not_cyc := proc_not_cyc g cy Hfollow.
Let eok_keep := eok_keep g cy.
Let eok_left := eok_left g cy Hshape.
Let eok_right := eok_right g cy Hshape.
Let eok_state := eok_state g cy.
Let SaveSt_FI := SaveSt_FI g cy Hshape.
Let DelSt_FI := DelSt_FI g cy Hshape.
Let child_cyc := child_cyc g cy.
Let child_nocyc_save := child_nocyc_save g cy.
Let child_nocyc_del := child_nocyc_del g cy.
Let clean_other := clean_other g cy.
Let FI_any := FI_any g cy.
Let proc_disabled := proc_disabled g cy.
Let FI_0 := FI_0 g cy.

Lemma pair_parent d : In d (g_deps g) -> incyc cy (DelAll (d_parent d)) = incyc cy (SaveAll (d_parent d)).
Proof. intros H. apply Hpair. unfold all_mappers. apply in_or_app. right. apply in_or_app. left. apply in_map, H. Qed.
Lemma pair_child d : In d (g_deps g) -> incyc cy (DelAll (d_child d)) = incyc cy (SaveAll (d_child d)).
Proof. intros H. apply Hpair. unfold all_mappers. apply in_or_app. right. apply in_or_app. right. apply in_map, H. Qed.

Lemma child_action_save s : role_of g s = 1 -> child_action g (Some s) = (Some (SaveSt s), false).
Proof. intros H. unfold child_action. rewrite H. reflexivity. Qed.
Lemma child_action_del s : role_of g s = 2 -> child_action g (Some s) = (Some (DelSt s), true).
Proof. intros H. unfold child_action. rewrite H. reflexivity. Qed.

Ltac inact d Hd Ha := apply (actions0_dep g d _ Hd Ha); unfold dep_actions0, post_acts; simpl; tauto.
Ltac notproc := apply clean_other; intros; discriminate.
Ltac tab Hk Hp := apply (edges0_dep T g _ _ _); [assumption|assumption|rewrite Hk, Hp; simpl; tauto].

(* -------- N1, one-to-many: INSERT of the parent row t before the save of the child row s *)
Lemma cov_o2m_ins d s t :
  In d (g_deps g) -> d_active d = true -> d_kind d = 0 -> d_post d = false ->
  d_parent d = map_of g t -> d_child d = map_of g s -> link_in g (d_id d) t s = true ->
  role_of g t = 1 -> role_of g s = 1 ->
  fpath (home_save g cy t) (home_save g cy s).
Proof.
  intros Hd Ha Hk Hp HP HC Hl Rt Rs. unfold home_save. rewrite <- HP, <- HC.
  destruct (incyc cy (SaveAll (d_parent d))) eqn:cP.
  - (* parent side per-state *)
    assert (Hsum : sum_of g (d_id d) t <> []) by (intros E; apply link_sum in Hl; rewrite E in Hl; exact Hl).
    assert (Hst : In t (states_of g (d_parent d) false)) by (unfold states_of; rewrite HP; apply in_saves_of, Rt).
    assert (FIt : In (SaveSt t) (final_items g cy)) by (apply SaveSt_FI; [assumption|rewrite <- HP; exact cP]).
    destruct (incyc cy (SaveAll (d_child d))) eqn:cC.
    + apply fp1. apply eok_state; try assumption; try notproc; try (apply shape_SaveSt; assumption).
      * pose proof (child_cyc d t (Some s) cC (link_sum _ _ _ _ Hl)) as Hca. rewrite (child_action_save s Rs) in Hca.
        pose proof (state_edge d false t _ SSaveP SChild Hd Ha cP Hst Hsum Hca) as X. simpl in X. apply X.
        rewrite Hk, Hp. simpl. tauto.
      * apply SaveSt_FI; [assumption|rewrite <- HC; exact cC].
    + apply fp1. apply eok_state; try assumption; try notproc; try (apply shape_SaveSt; assumption).
      * pose proof (state_edge d false t _ SSaveP SChild Hd Ha cP Hst Hsum (child_nocyc_save d t cC)) as X.
        simpl in X. apply X. rewrite Hk, Hp. simpl. tauto.
      * apply FI_0; [inact d Hd Ha|notproc|exact cC].
  - (* aggregate processor *)
    assert (Cp : clean g cy (ProcAll (d_id d) false)) by (apply proc_clean; assumption).
    assert (Ip : incyc cy (ProcAll (d_id d) false) = false) by (apply proc_not_cyc; assumption).
    apply fp2 with (x := ProcAll (d_id d) false).
    + apply eok_keep; try assumption; try notproc; [|inact d Hd Ha|inact d Hd Ha].
      change (SaveAll (d_parent d)) with (role_act d PSaves). change (ProcAll (d_id d) false) with (role_act d AfterSave). tab Hk Hp.
    + destruct (incyc cy (SaveAll (d_child d))) eqn:cC.
      * apply eok_right with (B := SaveAll (d_child d)); try assumption; try notproc; [|inact d Hd Ha|inact d Hd Ha|].
        -- change (SaveAll (d_child d)) with (role_act d CSaves). change (ProcAll (d_id d) false) with (role_act d AfterSave). tab Hk Hp.
        -- simpl. rewrite HC. apply in_map, in_saves_of, Rs.
      * apply eok_keep; try assumption; try notproc; [|inact d Hd Ha|inact d Hd Ha].
        change (SaveAll (d_child d)) with (role_act d CSaves). change (ProcAll (d_id d) false) with (role_act d AfterSave). tab Hk Hp.
Qed.

(* ---------------------------------------------------------------- packaged steps *)
Lemma ps_edge d isdel o ca x y a b :
  In d (g_deps g) -> d_active d = true -> incyc cy (parent_rec d isdel) = true ->
  In o (states_of g (d_parent d) isdel) -> sum_of g (d_id d) o <> [] ->
  In ca (child_actions g cy d o) -> In (x, y) (state_edges T (d_kind d) (d_post d) isdel (snd ca)) ->
  srole_act d isdel o (fst ca) x = Some a -> srole_act d isdel o (fst ca) y = Some b ->
  In a (final_items g cy) -> In b (final_items g cy) ->
  (forall d' b', a <> ProcAll d' b') -> (forall d' b', b <> ProcAll d' b') ->
  incyc cy a = false -> incyc cy b = false -> edge_ok a b.
Proof. intros Hd Ha Hc Ho Hs Hca Hxy Ea Eb Fa Fb Na Nb Ia Ib.
  apply eok_state; try assumption; try (apply clean_other; assumption).
  rewrite <- Ea, <- Eb. apply state_edge; assumption. Qed.

Lemma fi_procst d isdel o : In d (g_deps g) -> d_active d = true -> incyc cy (parent_rec d isdel) = true ->
  In o (states_of g (d_parent d) isdel) -> sum_of g (d_id d) o <> [] -> In (ProcSt (d_id d) isdel o) (final_items g cy).
Proof. intros. apply FI_any; [right; apply (state_act d isdel o); auto|apply clean_other; intros; discriminate|apply shape_ProcSt, Hshape]. Qed.

Lemma fi_coarse a : In a (actions0 g) -> (forall d b, a <> ProcAll d b) -> incyc cy a = false -> In a (final_items g cy).
Proof. intros H1 H2 H3. apply FI_0; [exact H1|apply clean_other, H2|exact H3]. Qed.

Lemma role_in_actions d r : In d (g_deps g) -> d_active d = true ->
  (match r with CPost | CPre => d_post d && N.eqb (d_kind d) 0 | PPost | PPre => d_post d && N.eqb (d_kind d) 1 | _ => true end) = true ->
  In (role_act d r) (actions0 g).
Proof. intros Hd Ha Hr. apply (actions0_dep g d _ Hd Ha). unfold dep_actions0, post_acts.
  destruct r; simpl; try tauto; apply andb_true_iff in Hr; destruct Hr as [-> Hr]; rewrite Hr; simpl; try tauto;
  apply N.eqb_eq in Hr; rewrite Hr; simpl; tauto. Qed.

(* per-property edge, both ends stay *)
Lemma pp_keep d r1 r2 : In d (g_deps g) -> d_active d = true ->
  In (r1, r2) (prop_edges T (d_kind d) (d_post d)) ->
  In (role_act d r1) (actions0 g) -> In (role_act d r2) (actions0 g) ->
  clean g cy (role_act d r1) -> clean g cy (role_act d r2) ->
  incyc cy (role_act d r1) = false -> incyc cy (role_act d r2) = false -> edge_ok (role_act d r1) (role_act d r2).
Proof. intros. apply eok_keep; try assumption. apply edges0_dep; assumption. Qed.
Lemma pp_left d r1 r2 x : In d (g_deps g) -> d_active d = true ->
  In (r1, r2) (prop_edges T (d_kind d) (d_post d)) ->
  In (role_act d r1) (actions0 g) -> In (role_act d r2) (actions0 g) ->
  clean g cy (role_act d r1) -> clean g cy (role_act d r2) ->
  incyc cy (role_act d r1) = true -> incyc cy (role_act d r2) = false -> In x (convert g (role_act d r1)) ->
  edge_ok x (role_act d r2).
Proof. intros. apply (eok_left (role_act d r1)); try assumption. apply edges0_dep; assumption. Qed.
Lemma pp_right d r1 r2 x : In d (g_deps g) -> d_active d = true ->
  In (r1, r2) (prop_edges T (d_kind d) (d_post d)) ->
  In (role_act d r1) (actions0 g) -> In (role_act d r2) (actions0 g) ->
  clean g cy (role_act d r1) -> clean g cy (role_act d r2) ->
  incyc cy (role_act d r1) = false -> incyc cy (role_act d r2) = true -> In x (convert g (role_act d r2)) ->
  edge_ok (role_act d r1) x.
Proof. intros. apply (eok_right (role_act d r1) (role_act d r2)); try assumption. apply edges0_dep; assumption. Qed.

(* ---------------------------------------------------------------- one per-property edge, any regime *)
(* the final record that does the work of the per-mapper record [a] for the state [x] *)
Definition fin_act (a : action) (x : N) : action :=
  match a with
  | SaveAll m => if incyc cy a then SaveSt x else a
  | DelAll m => if incyc cy a then DelSt x else a
  | _ => a
  end.
Definition act_state_ok (a : action) (x : N) : Prop :=
  match a with
  | SaveAll m => role_of g x = 1 /\ map_of g x = m
  | DelAll m => role_of g x = 2 /\ map_of g x = m
  | ProcAll _ _ | PostAll _ _ => incyc cy a = false
  | _ => False
  end.

Lemma G_edge a b x y : In (a, b) (edges0 T g) -> In a (actions0 g) -> In b (actions0 g) ->
  clean g cy a -> clean g cy b -> act_state_ok a x -> act_state_ok b y ->
  incyc cy a && incyc cy b = false -> edge_ok (fin_act a x) (fin_act b y).
Proof.
  intros He Ha Hb Ca Cb Oa Ob Hc.
  destruct (incyc cy a) eqn:Ia, (incyc cy b) eqn:Ib; try discriminate.
  - (* a split *) assert (fin_act b y = b) as -> by (destruct b; simpl; rewrite ?Ib; reflexivity).
    destruct a; simpl in Oa; try contradiction; try congruence; simpl; rewrite Ia; destruct Oa as [R M]; subst.
    + apply (eok_left (SaveAll (map_of g x))); try assumption. simpl. apply in_map, in_saves_of, R.
    + apply (eok_left (DelAll (map_of g x))); try assumption. simpl. apply in_map, in_dels_of, R.
  - assert (fin_act a x = a) as -> by (destruct a; simpl; rewrite ?Ia; reflexivity).
    destruct b; simpl in Ob; try contradiction; try congruence; simpl; rewrite Ib; destruct Ob as [R M]; subst.
    + apply (eok_right a (SaveAll (map_of g y))); try assumption. simpl. apply in_map, in_saves_of, R.
    + apply (eok_right a (DelAll (map_of g y))); try assumption. simpl. apply in_map, in_dels_of, R.
  - assert (fin_act a x = a) as -> by (destruct a; simpl; rewrite ?Ia; reflexivity).
    assert (fin_act b y = b) as -> by (destruct b; simpl; rewrite ?Ib; reflexivity).
    apply eok_keep; assumption.
Qed.

Lemma fin_save x : fin_act (SaveAll (map_of g x)) x = home_save g cy x.
Proof. reflexivity. Qed.
Lemma fin_del x : fin_act (DelAll (map_of g x)) x = home_del g cy x.
Proof. reflexivity. Qed.

(* a per-property edge of processor d between the roles r1, r2 *)
Lemma G_dep d r1 r2 x y : In d (g_deps g) -> d_active d = true ->
  In (r1, r2) (prop_edges T (d_kind d) (d_post d)) ->
  In (role_act d r1) (actions0 g) -> In (role_act d r2) (actions0 g) ->
  clean g cy (role_act d r1) -> clean g cy (role_act d r2) ->
  act_state_ok (role_act d r1) x -> act_state_ok (role_act d r2) y ->
  incyc cy (role_act d r1) && incyc cy (role_act d r2) = false ->
  edge_ok (fin_act (role_act d r1) x) (fin_act (role_act d r2) y).
Proof. intros. apply G_edge; try assumption. apply edges0_dep; assumption. Qed.

(* ---------------------------------------------------------------- tactics *)
Ltac rolein := apply role_in_actions; [assumption|assumption|
  first [reflexivity | match goal with Hk : d_kind _ = _, Hp : d_post _ = _ |- _ => rewrite Hk, Hp; reflexivity end]].
Ltac tabmem := match goal with Hk : d_kind ?d = _ |- In _ (prop_edges _ (d_kind ?d) (d_post ?d)) =>
  rewrite Hk; first [match goal with Hp : d_post d = _ |- _ => rewrite Hp end | destruct (d_post d)]; simpl; tauto end.
Ltac stabmem := match goal with Hk : d_kind ?d = _ |- In _ (state_edges _ (d_kind ?d) (d_post ?d) _ _) =>
  rewrite Hk; first [match goal with Hp : d_post d = _ |- _ => rewrite Hp end | destruct (d_post d)]; simpl; tauto end.
Ltac gdep d r1 r2 x y :=
  apply (G_dep d r1 r2 x y); [assumption|assumption|tabmem|rolein|rolein| | | | | ];
  simpl role_act; try notproc; try assumption.
Ltac pse d isdel o ca x y :=
  apply (ps_edge d isdel o ca x y); [assumption|assumption|assumption|assumption|assumption| |stabmem|reflexivity|reflexivity| | | | | | ];
  try (intros; discriminate); try assumption;
  try (apply shape_SaveSt, Hshape); try (apply shape_DelSt, Hshape); try (apply shape_ProcSt, Hshape); try (apply shape_PostAll, Hshape).

(* -------- N1, many-to-one: INSERT of the referenced row t before the save of the referencing row s *)
Lemma cov_m2o_ins d s t :
  In d (g_deps g) -> d_active d = true -> d_kind d = 1 -> d_post d = false ->
  d_parent d = map_of g s -> d_child d = map_of g t -> link_in g (d_id d) s t = true ->
  role_of g t = 1 -> role_of g s = 1 ->
  fpath (home_save g cy t) (home_save g cy s).
Proof.
  intros Hd Ha Hk Hp HP HC Hl Rt Rs. rewrite <- (fin_save t), <- (fin_save s), <- HP, <- HC.
  destruct (incyc cy (SaveAll (d_parent d))) eqn:cP.
  - assert (cP' : incyc cy (parent_rec d false) = true) by exact cP.
    assert (Hsum : sum_of g (d_id d) s <> []) by (intros E; apply link_sum in Hl; rewrite E in Hl; exact Hl).
    assert (Hst : In s (states_of g (d_parent d) false)) by (unfold states_of; rewrite HP; apply in_saves_of, Rs).
    assert (FIs : In (SaveSt s) (final_items g cy)) by (apply SaveSt_FI; [assumption|rewrite <- HP; exact cP]).
    assert (FIp : In (ProcSt (d_id d) false s) (final_items g cy)) by (apply fi_procst; assumption).
    simpl fin_act. rewrite cP.
    destruct (incyc cy (SaveAll (d_child d))) eqn:cC.
    + assert (FIt : In (SaveSt t) (final_items g cy)) by (apply SaveSt_FI; [assumption|rewrite <- HC; exact cC]).
      pose proof (child_cyc d s (Some t) cC (link_sum _ _ _ _ Hl)) as Hca. rewrite (child_action_save t Rt) in Hca.
      apply fp2 with (x := ProcSt (d_id d) false s).
      * pse d false s (Some (SaveSt t), false) SChild SAfter.
      * pse d false s (Some (SaveSt t), false) SAfter SSaveP.
    + assert (FIc : In (SaveAll (d_child d)) (final_items g cy)) by (apply fi_coarse; [inact d Hd Ha|intros; discriminate|exact cC]).
      pose proof (child_nocyc_save d s cC) as Hca.
      apply fp2 with (x := ProcSt (d_id d) false s).
      * pse d false s (Some (SaveAll (d_child d)), false) SChild SAfter.
      * pse d false s (Some (SaveAll (d_child d)), false) SAfter SSaveP.
  - assert (Cp : clean g cy (ProcAll (d_id d) false)) by (apply proc_clean; assumption).
    assert (Ip : incyc cy (ProcAll (d_id d) false) = false) by (apply proc_not_cyc; assumption).
    apply fp2 with (x := fin_act (ProcAll (d_id d) false) 0).
    + gdep d CSaves AfterSave t 0%N. split; [assumption|congruence]. rewrite Ip. apply andb_false_r.
    + gdep d AfterSave PSaves 0%N s. split; [assumption|congruence]. rewrite Ip. reflexivity.
Qed.

Ltac sumne Hl := intros E; apply link_sum in Hl; rewrite E in Hl; exact Hl.

(* -------- N3: DELETE of the referencing row s before the DELETE of the referenced row t *)
Lemma cov_o2m_deldel d s t :
  In d (g_deps g) -> d_active d = true -> d_kind d = 0 -> d_post d = false ->
  d_parent d = map_of g t -> d_child d = map_of g s -> link_in g (d_id d) t s = true ->
  role_of g t = 2 -> role_of g s = 2 ->
  fpath (home_del g cy s) (home_del g cy t).
Proof.
  intros Hd Ha Hk Hp HP HC Hl Rt Rs. rewrite <- (fin_del t), <- (fin_del s), <- HP, <- HC.
  pose proof (pair_child d Hd) as PC.
  destruct (incyc cy (DelAll (d_parent d))) eqn:cP.
  - assert (cP' : incyc cy (parent_rec d true) = true) by exact cP.
    assert (Hsum : sum_of g (d_id d) t <> []) by sumne Hl.
    assert (Hst : In t (states_of g (d_parent d) true)) by (unfold states_of; rewrite HP; apply in_dels_of, Rt).
    assert (FIt : In (DelSt t) (final_items g cy)) by (apply DelSt_FI; [assumption|rewrite <- HP; exact cP]).
    simpl fin_act. rewrite cP. apply fp1.
    destruct (incyc cy (SaveAll (d_child d))) eqn:cC; rewrite PC.
    + assert (FIs : In (DelSt s) (final_items g cy)) by (apply DelSt_FI; [assumption|rewrite <- HC; exact PC]).
      pose proof (child_cyc d t (Some s) cC (link_sum _ _ _ _ Hl)) as Hca. rewrite (child_action_del s Rs) in Hca.
      pse d true t (Some (DelSt s), true) SChild SDelP.
    + assert (FIc : In (DelAll (d_child d)) (final_items g cy)) by (apply fi_coarse; [inact d Hd Ha|intros; discriminate|exact PC]).
      pose proof (child_nocyc_del d t cC) as Hca.
      pse d true t (Some (DelAll (d_child d)), true) SChild SDelP.
  - apply fp1. gdep d CDels PDels s t; try (split; [assumption|congruence]). rewrite cP. apply andb_false_r.
Qed.

Lemma cov_m2o_deldel d s t :
  In d (g_deps g) -> d_active d = true -> d_kind d = 1 -> d_post d = false ->
  d_parent d = map_of g s -> d_child d = map_of g t -> link_in g (d_id d) s t = true ->
  role_of g t = 2 -> role_of g s = 2 ->
  fpath (home_del g cy s) (home_del g cy t).
Proof.
  intros Hd Ha Hk Hp HP HC Hl Rt Rs. rewrite <- (fin_del t), <- (fin_del s), <- HP, <- HC.
  pose proof (pair_child d Hd) as PC.
  destruct (incyc cy (DelAll (d_parent d))) eqn:cP.
  - assert (cP' : incyc cy (parent_rec d true) = true) by exact cP.
    assert (Hsum : sum_of g (d_id d) s <> []) by sumne Hl.
    assert (Hst : In s (states_of g (d_parent d) true)) by (unfold states_of; rewrite HP; apply in_dels_of, Rs).
    assert (FIs : In (DelSt s) (final_items g cy)) by (apply DelSt_FI; [assumption|rewrite <- HP; exact cP]).
    simpl fin_act. rewrite cP. apply fp1.
    destruct (incyc cy (SaveAll (d_child d))) eqn:cC; rewrite PC.
    + assert (FIt : In (DelSt t) (final_items g cy)) by (apply DelSt_FI; [assumption|rewrite <- HC; exact PC]).
      pose proof (child_cyc d s (Some t) cC (link_sum _ _ _ _ Hl)) as Hca. rewrite (child_action_del t Rt) in Hca.
      pse d true s (Some (DelSt t), true) SDelP SChild.
    + assert (FIc : In (DelAll (d_child d)) (final_items g cy)) by (apply fi_coarse; [inact d Hd Ha|intros; discriminate|exact PC]).
      pose proof (child_nocyc_del d s cC) as Hca.
      pse d true s (Some (DelAll (d_child d)), true) SDelP SChild.
  - apply fp1. gdep d PDels CDels s t; try (split; [assumption|congruence]). rewrite cP. reflexivity.
Qed.

(* -------- N3: UPDATE of the referencing row s (which survives) before the DELETE of the referenced row t *)
Lemma cov_o2m_savedel d s t :
  In d (g_deps g) -> d_active d = true -> d_kind d = 0 -> d_post d = false ->
  d_parent d = map_of g t -> d_child d = map_of g s -> link_in g (d_id d) t s = true ->
  role_of g t = 2 -> role_of g s = 1 ->
  fpath (home_save g cy s) (home_del g cy t).
Proof.
  intros Hd Ha Hk Hp HP HC Hl Rt Rs. rewrite <- (fin_del t), <- (fin_save s), <- HP, <- HC.
  destruct (incyc cy (DelAll (d_parent d))) eqn:cP.
  - assert (cP' : incyc cy (parent_rec d true) = true) by exact cP.
    assert (Hsum : sum_of g (d_id d) t <> []) by sumne Hl.
    assert (Hst : In t (states_of g (d_parent d) true)) by (unfold states_of; rewrite HP; apply in_dels_of, Rt).
    assert (FIt : In (DelSt t) (final_items g cy)) by (apply DelSt_FI; [assumption|rewrite <- HP; exact cP]).
    simpl fin_act. rewrite cP. apply fp1.
    destruct (incyc cy (SaveAll (d_child d))) eqn:cC.
    + assert (FIs : In (SaveSt s) (final_items g cy)) by (apply SaveSt_FI; [assumption|rewrite <- HC; exact cC]).
      pose proof (child_cyc d t (Some s) cC (link_sum _ _ _ _ Hl)) as Hca. rewrite (child_action_save s Rs) in Hca.
      pse d true t (Some (SaveSt s), false) SChild SDelP.
    + assert (FIc : In (SaveAll (d_child d)) (final_items g cy)) by (apply fi_coarse; [inact d Hd Ha|intros; discriminate|exact cC]).
      pose proof (child_nocyc_save d t cC) as Hca.
      pse d true t (Some (SaveAll (d_child d)), false) SChild SDelP.
  - apply fp1. gdep d CSaves PDels s t; try (split; [assumption|congruence]). rewrite cP. apply andb_false_r.
Qed.

(* many-to-one side (the per-state edge (save_parent, child_action) was added by the repair a8ba61d) *)
Lemma cov_m2o_savedel d s t :
  In d (g_deps g) -> d_active d = true -> d_kind d = 1 -> d_post d = false ->
  d_parent d = map_of g s -> d_child d = map_of g t -> link_in g (d_id d) s t = true ->
  role_of g t = 2 -> role_of g s = 1 ->
  fpath (home_save g cy s) (home_del g cy t).
Proof.
  intros Hd Ha Hk Hp HP HC Hl Rt Rs. rewrite <- (fin_del t), <- (fin_save s), <- HP, <- HC.
  pose proof (pair_child d Hd) as PC.
  destruct (incyc cy (SaveAll (d_parent d))) eqn:cP.
  - assert (cP' : incyc cy (parent_rec d false) = true) by exact cP.
    assert (Hsum : sum_of g (d_id d) s <> []) by sumne Hl.
    assert (Hst : In s (states_of g (d_parent d) false)) by (unfold states_of; rewrite HP; apply in_saves_of, Rs).
    assert (FIs : In (SaveSt s) (final_items g cy)) by (apply SaveSt_FI; [assumption|rewrite <- HP; exact cP]).
    simpl fin_act. rewrite cP. apply fp1.
    destruct (incyc cy (SaveAll (d_child d))) eqn:cC; rewrite PC.
    + assert (FIt : In (DelSt t) (final_items g cy)) by (apply DelSt_FI; [assumption|rewrite <- HC; exact PC]).
      pose proof (child_cyc d s (Some t) cC (link_sum _ _ _ _ Hl)) as Hca. rewrite (child_action_del t Rt) in Hca.
      pse d false s (Some (DelSt t), true) SSaveP SChild.
    + assert (FIc : In (DelAll (d_child d)) (final_items g cy)) by (apply fi_coarse; [inact d Hd Ha|intros; discriminate|exact PC]).
      pose proof (child_nocyc_del d s cC) as Hca.
      pse d false s (Some (DelAll (d_child d)), true) SSaveP SChild.
  - apply fp1. gdep d PSaves CDels s t; try (split; [assumption|congruence]).
    simpl. rewrite cP. reflexivity.
Qed.

(* -------- post_update: INSERTs before the UPDATE by _post_update *)
Lemma cov_o2m_post d s t x :
  In d (g_deps g) -> d_active d = true -> d_kind d = 0 -> d_post d = true ->
  d_parent d = map_of g t -> d_child d = map_of g s -> link_in g (d_id d) t s = true ->
  role_of g t = 1 -> role_of g s = 1 -> (x = t \/ x = s) ->
  fpath (home_save g cy x) (PostAll (map_of g s) false).
Proof.
  intros Hd Ha Hk Hp HP HC Hl Rt Rs Hx. rewrite <- (fin_save x), <- HC.
  assert (FIpo : In (PostAll (d_child d) false) (final_items g cy)).
  { apply fi_coarse; [|intros; discriminate|apply shape_PostAll, Hshape].
    apply (actions0_dep g d _ Hd Ha). unfold dep_actions0, post_acts. rewrite Hp, Hk. simpl. tauto. }
  destruct (incyc cy (SaveAll (d_parent d))) eqn:cP.
  - assert (cP' : incyc cy (parent_rec d false) = true) by exact cP.
    assert (Hsum : sum_of g (d_id d) t <> []) by sumne Hl.
    assert (Hst : In t (states_of g (d_parent d) false)) by (unfold states_of; rewrite HP; apply in_saves_of, Rt).
    assert (FIt : In (SaveSt t) (final_items g cy)) by (apply SaveSt_FI; [assumption|rewrite <- HP; exact cP]).
    assert (FIp : In (ProcSt (d_id d) false t) (final_items g cy)) by (apply fi_procst; assumption).
    apply fp2 with (x := ProcSt (d_id d) false t).
    + destruct Hx as [->| ->].
      * rewrite <- HP. simpl fin_act. rewrite cP.
        destruct (incyc cy (SaveAll (d_child d))) eqn:cC.
        -- pose proof (child_cyc d t (Some s) cC (link_sum _ _ _ _ Hl)) as Hca. rewrite (child_action_save s Rs) in Hca.
           pse d false t (Some (SaveSt s), false) SSaveP SAfter.
        -- pose proof (child_nocyc_save d t cC) as Hca.
           pse d false t (Some (SaveAll (d_child d)), false) SSaveP SAfter.
      * rewrite <- HC. simpl fin_act.
        destruct (incyc cy (SaveAll (d_child d))) eqn:cC.
        -- assert (FIs : In (SaveSt s) (final_items g cy)) by (apply SaveSt_FI; [assumption|rewrite <- HC; exact cC]).
           pose proof (child_cyc d t (Some s) cC (link_sum _ _ _ _ Hl)) as Hca. rewrite (child_action_save s Rs) in Hca.
           pse d false t (Some (SaveSt s), false) SChild SAfter.
        -- assert (FIc : In (SaveAll (d_child d)) (final_items g cy)) by (apply fi_coarse; [inact d Hd Ha|intros; discriminate|exact cC]).
           pose proof (child_nocyc_save d t cC) as Hca.
           pse d false t (Some (SaveAll (d_child d)), false) SChild SAfter.
    + destruct (incyc cy (SaveAll (d_child d))) eqn:cC.
      * pose proof (child_cyc d t (Some s) cC (link_sum _ _ _ _ Hl)) as Hca. rewrite (child_action_save s Rs) in Hca.
        pse d false t (Some (SaveSt s), false) SAfter SCPost.
      * pose proof (child_nocyc_save d t cC) as Hca.
        pse d false t (Some (SaveAll (d_child d)), false) SAfter SCPost.
  - assert (Cp : clean g cy (ProcAll (d_id d) false)) by (apply proc_clean; assumption).
    assert (Ip : incyc cy (ProcAll (d_id d) false) = false) by (apply proc_not_cyc; assumption).
    apply fp2 with (x := fin_act (ProcAll (d_id d) false) 0).
    + destruct Hx as [->| ->].
      * rewrite <- HP. gdep d PSaves AfterSave t 0%N. split; [assumption|congruence]. rewrite Ip. apply andb_false_r.
      * rewrite <- HC. gdep d CSaves AfterSave s 0%N. split; [assumption|congruence]. rewrite Ip. apply andb_false_r.
    + change (PostAll (d_child d) false) with (fin_act (role_act d CPost) 0).
      gdep d AfterSave CPost 0%N 0%N. apply shape_PostAll, Hshape. rewrite Ip. reflexivity.
Qed.

Lemma cov_m2o_post_rel d s t :
  In d (g_deps g) -> d_active d = true -> d_kind d = 1 -> d_post d = true ->
  d_parent d = map_of g s -> d_child d = map_of g t -> link_in g (d_id d) s t = true ->
  role_of g s = 1 -> role_of g t = 1 ->
  fpath (home_save g cy t) (PostAll (map_of g s) false).
Proof.
  intros Hd Ha Hk Hp HP HC Hl Rs Rt. rewrite <- (fin_save t), <- HP, <- HC.
  assert (FIpo : In (PostAll (d_parent d) false) (final_items g cy)).
  { apply fi_coarse; [|intros; discriminate|apply shape_PostAll, Hshape].
    apply (actions0_dep g d _ Hd Ha). unfold dep_actions0, post_acts. rewrite Hp, Hk. simpl. tauto. }
  destruct (incyc cy (SaveAll (d_parent d))) eqn:cP.
  - assert (cP' : incyc cy (parent_rec d false) = true) by exact cP.
    assert (Hsum : sum_of g (d_id d) s <> []) by sumne Hl.
    assert (Hst : In s (states_of g (d_parent d) false)) by (unfold states_of; rewrite HP; apply in_saves_of, Rs).
    assert (FIp : In (ProcSt (d_id d) false s) (final_items g cy)) by (apply fi_procst; assumption).
    apply fp2 with (x := ProcSt (d_id d) false s); simpl fin_act;
    destruct (incyc cy (SaveAll (d_child d))) eqn:cC.
    + assert (FIt : In (SaveSt t) (final_items g cy)) by (apply SaveSt_FI; [assumption|rewrite <- HC; exact cC]).
      pose proof (child_cyc d s (Some t) cC (link_sum _ _ _ _ Hl)) as Hca. rewrite (child_action_save t Rt) in Hca.
      pse d false s (Some (SaveSt t), false) SChild SAfter.
    + assert (FIc : In (SaveAll (d_child d)) (final_items g cy)) by (apply fi_coarse; [inact d Hd Ha|intros; discriminate|exact cC]).
      pose proof (child_nocyc_save d s cC) as Hca.
      pse d false s (Some (SaveAll (d_child d)), false) SChild SAfter.
    + pose proof (child_cyc d s (Some t) cC (link_sum _ _ _ _ Hl)) as Hca. rewrite (child_action_save t Rt) in Hca.
      pse d false s (Some (SaveSt t), false) SAfter SPPost.
    + pose proof (child_nocyc_save d s cC) as Hca.
      pse d false s (Some (SaveAll (d_child d)), false) SAfter SPPost.
  - assert (Cp : clean g cy (ProcAll (d_id d) false)) by (apply proc_clean; assumption).
    assert (Ip : incyc cy (ProcAll (d_id d) false) = false) by (apply proc_not_cyc; assumption).
    apply fp2 with (x := fin_act (ProcAll (d_id d) false) 0).
    + gdep d CSaves AfterSave t 0%N. split; [assumption|congruence]. rewrite Ip. apply andb_false_r.
    + change (PostAll (d_parent d) false) with (fin_act (role_act d PPost) 0).
      gdep d AfterSave PPost 0%N 0%N. apply shape_PostAll, Hshape. rewrite Ip. reflexivity.
Qed.

Lemma cov_m2o_post_owner d s t :
  In d (g_deps g) -> d_active d = true -> d_kind d = 1 -> d_post d = true ->
  d_parent d = map_of g s -> d_child d = map_of g t -> link_in g (d_id d) s t = true ->
  role_of g s = 1 -> role_of g t <> 2 ->
  fpath (home_save g cy s) (PostAll (map_of g s) false).
Proof.
  intros Hd Ha Hk Hp HP HC Hl Rs Rt. rewrite <- (fin_save s), <- HP.
  assert (FIpo : In (PostAll (d_parent d) false) (final_items g cy)).
  { apply fi_coarse; [|intros; discriminate|apply shape_PostAll, Hshape].
    apply (actions0_dep g d _ Hd Ha). unfold dep_actions0, post_acts. rewrite Hp, Hk. simpl. tauto. }
  destruct (incyc cy (SaveAll (d_parent d))) eqn:cP.
  - assert (cP' : incyc cy (parent_rec d false) = true) by exact cP.
    assert (Hsum : sum_of g (d_id d) s <> []) by sumne Hl.
    assert (Hst : In s (states_of g (d_parent d) false)) by (unfold states_of; rewrite HP; apply in_saves_of, Rs).
    assert (FIs : In (SaveSt s) (final_items g cy)) by (apply SaveSt_FI; [assumption|rewrite <- HP; exact cP]).
    assert (FIp : In (ProcSt (d_id d) false s) (final_items g cy)) by (apply fi_procst; assumption).
    assert (Hex : exists oa, In (oa, false) (child_actions g cy d s)).
    { destruct (incyc cy (SaveAll (d_child d))) eqn:cC.
      - pose proof (child_cyc d s (Some t) cC (link_sum _ _ _ _ Hl)) as Hca. unfold child_action in Hca.
        destruct (N.eqb (role_of g t) 1); [eexists; exact Hca|].
        destruct (N.eqb (role_of g t) 2) eqn:E2; [apply N.eqb_eq in E2; contradiction|]. eexists; exact Hca.
      - eexists. apply (child_nocyc_save d s cC). }
    destruct Hex as [oa Hca]. simpl fin_act. rewrite cP.
    apply fp2 with (x := ProcSt (d_id d) false s).
    + pse d false s (oa, false) SSaveP SAfter.
    + pse d false s (oa, false) SAfter SPPost.
  - assert (Cp : clean g cy (ProcAll (d_id d) false)) by (apply proc_clean; assumption).
    assert (Ip : incyc cy (ProcAll (d_id d) false) = false) by (apply proc_not_cyc; assumption).
    apply fp2 with (x := fin_act (ProcAll (d_id d) false) 0).
    + gdep d PSaves AfterSave s 0%N. split; [assumption|congruence]. rewrite Ip. apply andb_false_r.
    + change (PostAll (d_parent d) false) with (fin_act (role_act d PPost) 0).
      gdep d AfterSave PPost 0%N 0%N. apply shape_PostAll, Hshape. rewrite Ip. reflexivity.
Qed.

(* -------- post_update: the pre-update (fk := NULL) before the DELETEs *)
Lemma cov_pre_del d r1 r2 x :
  In d (g_deps g) -> d_active d = true -> d_post d = true ->
  (d_kind d = 0 /\ r1 = CPre /\ (r2 = PDels \/ r2 = CDels)) \/ (d_kind d = 1 /\ r1 = PPre /\ (r2 = PDels \/ r2 = CDels)) ->
  act_state_ok (role_act d r2) x ->
  fpath (role_act d r1) (fin_act (role_act d r2) x).
Proof.
  intros Hd Ha Hp Hc Hx. apply fp1.
  destruct Hc as [[Hk [-> [-> | ->]]]|[Hk [-> [-> | ->]]]];
  match goal with |- FlushOrderSort.edge_ok _ _ _ ?a _ => change a with (fin_act a 0) end;
  [gdep d CPre PDels 0%N x|gdep d CPre CDels 0%N x|gdep d PPre PDels 0%N x|gdep d PPre CDels 0%N x];
  try (apply shape_PostAll, Hshape); rewrite (shape_PostAll cy _ _ Hshape); reflexivity.
Qed.

(* -------- many-to-many: secondary rows *)
Lemma proc_home_state d b o : In d (g_deps g) -> d_active d = true -> incyc cy (parent_rec d b) = true ->
  proc_home g cy (d_id d) b o = ProcSt (d_id d) b o.
Proof. intros Hd Ha Hc. unfold proc_home. rewrite (proc_disabled d b Hd Ha Hc). reflexivity. Qed.
Lemma proc_home_all d b o : In d (g_deps g) -> incyc cy (parent_rec d b) = false ->
  proc_home g cy (d_id d) b o = ProcAll (d_id d) b.
Proof. intros Hd Hc. unfold proc_home. pose proof (proc_clean d b Hd Hc) as X. unfold clean in X. rewrite X. reflexivity. Qed.

(* INSERT of the owner / of the related row before the INSERT of the secondary row *)
Lemma cov_m2m_ins d o r x :
  In d (g_deps g) -> d_active d = true -> d_kind d = 2 ->
  d_parent d = map_of g o -> d_child d = map_of g r -> link_in g (d_id d) o r = true ->
  role_of g o = 1 -> (x = o \/ (x = r /\ role_of g r = 1)) ->
  fpath (home_save g cy x) (proc_home g cy (d_id d) false o).
Proof.
  intros Hd Ha Hk HP HC Hl Ro Hx. rewrite <- (fin_save x).
  destruct (incyc cy (SaveAll (d_parent d))) eqn:cP.
  - assert (cP' : incyc cy (parent_rec d false) = true) by exact cP.
    rewrite (proc_home_state d false o Hd Ha cP').
    assert (Hsum : sum_of g (d_id d) o <> []) by sumne Hl.
    assert (Hst : In o (states_of g (d_parent d) false)) by (unfold states_of; rewrite HP; apply in_saves_of, Ro).
    assert (FIo : In (SaveSt o) (final_items g cy)) by (apply SaveSt_FI; [assumption|rewrite <- HP; exact cP]).
    assert (FIp : In (ProcSt (d_id d) false o) (final_items g cy)) by (apply fi_procst; assumption).
    apply fp1. destruct Hx as [->|[-> Rr]].
    + rewrite <- HP. simpl fin_act. rewrite cP.
      destruct (incyc cy (SaveAll (d_child d))) eqn:cC.
      * pose proof (child_cyc d o (Some r) cC (link_sum _ _ _ _ Hl)) as Hca.
        destruct (child_action g (Some r)) as [oa cd]. destruct cd; [pse d false o (oa, true) SSaveP SAfter|pse d false o (oa, false) SSaveP SAfter].
      * pose proof (child_nocyc_save d o cC) as Hca.
        pse d false o (Some (SaveAll (d_child d)), false) SSaveP SAfter.
    + rewrite <- HC. simpl fin_act.
      destruct (incyc cy (SaveAll (d_child d))) eqn:cC.
      * assert (FIr : In (SaveSt r) (final_items g cy)) by (apply SaveSt_FI; [assumption|rewrite <- HC; exact cC]).
        pose proof (child_cyc d o (Some r) cC (link_sum _ _ _ _ Hl)) as Hca. rewrite (child_action_save r Rr) in Hca.
        pse d false o (Some (SaveSt r), false) SChild SAfter.
      * assert (FIc : In (SaveAll (d_child d)) (final_items g cy)) by (apply fi_coarse; [inact d Hd Ha|intros; discriminate|exact cC]).
        pose proof (child_nocyc_save d o cC) as Hca.
        pse d false o (Some (SaveAll (d_child d)), false) SChild SAfter.
  - assert (cP' : incyc cy (parent_rec d false) = false) by exact cP.
    rewrite (proc_home_all d false o Hd cP').
    assert (Cp : clean g cy (ProcAll (d_id d) false)) by (apply proc_clean; assumption).
    assert (Ip : incyc cy (ProcAll (d_id d) false) = false) by (apply proc_not_cyc; assumption).
    apply fp1. change (ProcAll (d_id d) false) with (fin_act (role_act d AfterSave) 0).
    destruct Hx as [->|[-> Rr]].
    + rewrite <- HP. gdep d PSaves AfterSave o 0%N. split; [assumption|congruence]. rewrite Ip. apply andb_false_r.
    + rewrite <- HC. gdep d CSaves AfterSave r 0%N. split; [assumption|congruence]. rewrite Ip. apply andb_false_r.
Qed.

(* the secondary row removed by process_saves of a surviving owner, before the DELETE of the related row *)
Lemma cov_m2m_save_delrel d o r :
  In d (g_deps g) -> d_active d = true -> d_kind d = 2 ->
  d_parent d = map_of g o -> d_child d = map_of g r -> link_in g (d_id d) o r = true ->
  role_of g o = 1 -> role_of g r = 2 ->
  fpath (proc_home g cy (d_id d) false o) (home_del g cy r).
Proof.
  intros Hd Ha Hk HP HC Hl Ro Rr. rewrite <- (fin_del r), <- HC. pose proof (pair_child d Hd) as PC.
  destruct (incyc cy (SaveAll (d_parent d))) eqn:cP.
  - assert (cP' : incyc cy (parent_rec d false) = true) by exact cP.
    rewrite (proc_home_state d false o Hd Ha cP').
    assert (Hsum : sum_of g (d_id d) o <> []) by sumne Hl.
    assert (Hst : In o (states_of g (d_parent d) false)) by (unfold states_of; rewrite HP; apply in_saves_of, Ro).
    assert (FIp : In (ProcSt (d_id d) false o) (final_items g cy)) by (apply fi_procst; assumption).
    apply fp1. simpl fin_act. destruct (incyc cy (SaveAll (d_child d))) eqn:cC; rewrite PC.
    + assert (FIr : In (DelSt r) (final_items g cy)) by (apply DelSt_FI; [assumption|rewrite <- HC; exact PC]).
      pose proof (child_cyc d o (Some r) cC (link_sum _ _ _ _ Hl)) as Hca. rewrite (child_action_del r Rr) in Hca.
      pse d false o (Some (DelSt r), true) SAfter SChild.
    + assert (FIc : In (DelAll (d_child d)) (final_items g cy)) by (apply fi_coarse; [inact d Hd Ha|intros; discriminate|exact PC]).
      pose proof (child_nocyc_del d o cC) as Hca.
      pse d false o (Some (DelAll (d_child d)), true) SAfter SChild.
  - assert (cP' : incyc cy (parent_rec d false) = false) by exact cP.
    rewrite (proc_home_all d false o Hd cP').
    assert (Cp : clean g cy (ProcAll (d_id d) false)) by (apply proc_clean; assumption).
    assert (Ip : incyc cy (ProcAll (d_id d) false) = false) by (apply proc_not_cyc; assumption).
    apply fp1. change (ProcAll (d_id d) false) with (fin_act (role_act d AfterSave) 0).
    gdep d AfterSave CDels 0%N r. split; [assumption|congruence]. rewrite Ip. reflexivity.
Qed.

(* the secondary rows of a deleted owner, before the DELETE of the owner / of the related row *)
Lemma cov_m2m_del d o r x :
  In d (g_deps g) -> d_active d = true -> d_kind d = 2 ->
  d_parent d = map_of g o -> d_child d = map_of g r -> link_in g (d_id d) o r = true ->
  role_of g o = 2 -> (x = o \/ (x = r /\ role_of g r = 2)) ->
  fpath (proc_home g cy (d_id d) true o) (home_del g cy x).
Proof.
  intros Hd Ha Hk HP HC Hl Ro Hx. rewrite <- (fin_del x). pose proof (pair_child d Hd) as PC.
  destruct (incyc cy (DelAll (d_parent d))) eqn:cP.
  - assert (cP' : incyc cy (parent_rec d true) = true) by exact cP.
    rewrite (proc_home_state d true o Hd Ha cP').
    assert (Hsum : sum_of g (d_id d) o <> []) by sumne Hl.
    assert (Hst : In o (states_of g (d_parent d) true)) by (unfold states_of; rewrite HP; apply in_dels_of, Ro).
    assert (FIo : In (DelSt o) (final_items g cy)) by (apply DelSt_FI; [assumption|rewrite <- HP; exact cP]).
    assert (FIp : In (ProcSt (d_id d) true o) (final_items g cy)) by (apply fi_procst; assumption).
    apply fp1. destruct Hx as [->|[-> Rr]].
    + rewrite <- HP. simpl fin_act. rewrite cP.
      destruct (incyc cy (SaveAll (d_child d))) eqn:cC.
      * pose proof (child_cyc d o (Some r) cC (link_sum _ _ _ _ Hl)) as Hca.
        destruct (child_action g (Some r)) as [oa cd]. destruct cd; [pse d true o (oa, true) SBefore SDelP|pse d true o (oa, false) SBefore SDelP].
      * pose proof (child_nocyc_save d o cC) as Hca.
        pse d true o (Some (SaveAll (d_child d)), false) SBefore SDelP.
    + rewrite <- HC. simpl fin_act.
      destruct (incyc cy (SaveAll (d_child d))) eqn:cC; rewrite PC.
      * assert (FIr : In (DelSt r) (final_items g cy)) by (apply DelSt_FI; [assumption|rewrite <- HC; exact PC]).
        pose proof (child_cyc d o (Some r) cC (link_sum _ _ _ _ Hl)) as Hca. rewrite (child_action_del r Rr) in Hca.
        pse d true o (Some (DelSt r), true) SBefore SChild.
      * assert (FIc : In (DelAll (d_child d)) (final_items g cy)) by (apply fi_coarse; [inact d Hd Ha|intros; discriminate|exact PC]).
        pose proof (child_nocyc_del d o cC) as Hca.
        pse d true o (Some (DelAll (d_child d)), true) SBefore SChild.
  - assert (cP' : incyc cy (parent_rec d true) = false) by exact cP.
    rewrite (proc_home_all d true o Hd cP').
    assert (Cp : clean g cy (ProcAll (d_id d) true)) by (apply proc_clean; assumption).
    assert (Ip : incyc cy (ProcAll (d_id d) true) = false) by (apply proc_not_cyc; assumption).
    apply fp1. change (ProcAll (d_id d) true) with (fin_act (role_act d BeforeDel) 0).
    destruct Hx as [->|[-> Rr]].
    + rewrite <- HP. gdep d BeforeDel PDels 0%N o. split; [assumption|congruence]. rewrite Ip. reflexivity.
    + rewrite <- HC. gdep d BeforeDel CDels 0%N r. split; [assumption|congruence]. rewrite Ip. reflexivity.
Qed.
End Needs.
