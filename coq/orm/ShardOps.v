(* C53 - every session operation preserves the invariant; characterisation of query and get *)
From Coq Require Import List ZArith NArith Bool Lia Permutation.
Import ListNotations.
From SAV.orm Require Import Shard ShardDb ShardInv ShardFlush ShardLoad.
Open Scope Z_scope.

Definition wf_db (d : dbs) : Prop := forall s, NoDup (pks (d s)).

(* the invariant of reachable states: session/database coherence, and the visible database is
   exactly the replay of the emitted statements on the initial data *)
Definition Good (d0 : dbs) (st : sess) : Prop :=
  Inv (insts st) (db st) /\ apply_writes (wlog st) d0 = Ok (db st).

Definition logs (st st' : sess) : Prop :=
  exists delta, wlog st' = wlog st ++ delta /\ apply_writes delta (db st) = Ok (db st').

Lemma good_logs : forall d0 st st', Good d0 st -> Inv (insts st') (db st') -> logs st st' -> Good d0 st'.
Proof.
  intros d0 st st' [_ Hl] HI [delta [Hw Ha]]. split; auto.
  rewrite Hw. now rewrite (apply_writes_app _ _ _ _ Hl).
Qed.

Lemma nth_split : forall {A} (l : list A) o x, nth_error l o = Some x ->
  exists pre post, l = pre ++ x :: post /\ length pre = o.
Proof. intros. apply nth_error_split. auto. Qed.

Section Ops.
  Variable sc : row -> N.
  Variable ic : Z -> list N.
  Variable ec : qry -> list N.

  Lemma flush_logs : forall st st', flush sc st = Ok st' -> logs st st'.
  Proof. intros st st' H. destruct (flush_log _ _ _ H) as [delta [? [? _]]]. exists delta. auto. Qed.

  (* ---- query ---- *)
  Lemma do_query_spec : forall st q tgt st' os,
    Inv (insts st) (db st) -> do_query sc ec st q tgt = Ok (st', os) ->
    shards_for ec q tgt <> [] /\
    exists st1, flush sc st = Ok st1 /\ db st' = db st1 /\ committed st' = committed st1 /\
      wlog st' = wlog st1 /\ rlog st' = rlog st1 ++ shards_for ec q tgt /\
      Inv (insts st') (db st') /\ Forall clean (insts st') /\
      (exists x, insts st' = insts st1 ++ x) /\
      map (view (insts st')) os = map Some (expected q (shards_for ec q tgt) (db st')).
  Proof.
    intros st q tgt st' os HI H. unfold do_query in H.
    destruct (shards_for ec q tgt) as [|s ss] eqn:Es; [discriminate|].
    destruct (flush sc st) as [st1|] eqn:Ef; [|discriminate].
    destruct (exec_shards q (s :: ss) (db st1) (insts st1)) as [l os'] eqn:Ex.
    injection H as <- <-. split; [discriminate|]. exists st1. simpl.
    destruct (exec_shards_spec _ _ _ _ _ _ (flush_inv _ _ _ Ef HI) (flush_clean _ _ _ Ef HI) Ex)
      as [HI' [Hc' [Hx Hv]]].
    repeat (split; [solve [auto]|]). auto.
  Qed.

  (* ---- get ---- *)
  Lemma first_hit_some : forall l k ts o, first_hit l k ts = Some o -> exists t, In t ts /\ lookup l k t = Some o.
  Proof.
    induction ts as [|t ts IH]; simpl; intros o H; [discriminate|].
    destruct (lookup l k t) as [o'|] eqn:E.
    - inversion H; subst. eauto.
    - destruct (IH _ H) as [t' [? ?]]. eauto.
  Qed.

  Lemma do_get_cases : forall st k tok st' res, do_get sc ic ec st k tok = Ok (st', res) ->
    (st' = st /\ exists o t, res = Some o /\ lookup (insts st) k t = Some o /\
                            match tok with Some t' => t = t' | None => In t (ic k) end) \/
    (exists os, do_query sc ec st (QPk k) tok = Ok (st', os) /\
                (res = None /\ dedup os = [] \/ exists o, res = Some o /\ dedup os = [o])).
  Proof.
    intros st k tok st' res H. unfold do_get in H.
    destruct (match tok with Some t => lookup (insts st) k t | None => first_hit (insts st) k (ic k) end)
      as [o|] eqn:Eh.
    - injection H as <- <-. left. split; auto. destruct tok as [t|].
      + exists o, t. auto.
      + destruct (first_hit_some _ _ _ _ Eh) as [t [? ?]]. exists o, t. auto.
    - right. destruct (do_query sc ec st (QPk k) tok) as [[st2 os]|] eqn:Eq; [|discriminate].
      exists os. destruct (dedup os) as [|o [|o2 r]] eqn:Ed; try discriminate.
      + injection H as <- <-. auto.
      + injection H as <- <-. split; auto. right. eauto.
  Qed.

  (* ---- every operation preserves the invariant and extends the log consistently ---- *)
  Lemma key_of_same_pk : forall c c' o o' lf tk, r_pk c' = r_pk c ->
    key_of (mkInst c' o' lf tk) = key_of (mkInst c o lf tk).
  Proof. intros. unfold key_of. simpl. now rewrite H. Qed.

  Lemma logs_refl : forall st st', wlog st' = wlog st -> db st' = db st -> logs st st'.
  Proof. intros st st' Hw Hd. exists []. rewrite app_nil_r, Hd. auto. Qed.

  Lemma logs_trans : forall a b c, logs a b -> logs b c -> logs a c.
  Proof.
    intros a b c [d1 [H1 A1]] [d2 [H2 A2]]. exists (d1 ++ d2). split.
    - rewrite H2, H1. now rewrite app_assoc.
    - now rewrite (apply_writes_app _ _ _ _ A1).
  Qed.

  Lemma do_set_good : forall st o g v st', Inv (insts st) (db st) -> do_set st o g v = Ok st' ->
    Inv (insts st') (db st') /\ logs st st'.
  Proof.
    intros st o g v st' HI H. unfold do_set in H.
    destruct (nth_error (insts st) o) as [i0|] eqn:En; [|discriminate].
    assert (exists l', st' = mkSess l' (db st) (committed st) (wlog st) (rlog st) /\
                       l' = upd_nth o (fun i => mkInst (mkRow (r_pk (i_cur i)) g v) (i_old i) (i_life i) (i_tok i)) (insts st) /\
                       i_life i0 <> Gone) as [l' [-> [Hl' Hg]]].
    { destruct (i_life i0); try discriminate; injection H as <-; eexists; repeat split; discriminate. }
    simpl. split; [|apply logs_refl; auto].
    destruct (nth_split _ _ _ En) as [pre [post [Hs Hlen]]]. rewrite Hs in *. subst o.
    rewrite upd_nth_split in Hl'. subst l'.
    eapply inv_replace; [exact HI | destruct i0; apply key_of_same_pk; reflexivity |].
    simpl. intros Hp. destruct (inv_row _ _ HI i0) as [t [? [? ?]]]; [apply in_mid; auto | auto |]. eauto.
  Qed.

  Lemma delete_one_good : forall st o st', Inv (insts st) (db st) -> delete_one st o = Ok st' ->
    Inv (insts st') (db st') /\ logs st st'.
  Proof.
    intros st o st' HI H. unfold delete_one in H.
    destruct (nth_error (insts st) o) as [i0|] eqn:En; [|discriminate].
    destruct (i_life i0) eqn:El; try discriminate. destruct (i_tok i0) as [t|] eqn:Et; [|discriminate].
    injection H as <-. simpl.
    destruct (nth_split _ _ _ En) as [pre [post [Hs Hlen]]]. subst o.
    rewrite Hs in *. rewrite upd_nth_split. split.
    - apply inv_gone; auto.
    - exists [WDel t (r_pk (i_cur i0))]. simpl. auto.
  Qed.

  Lemma delete_all_good : forall os st st', Inv (insts st) (db st) -> delete_all st os = Ok st' ->
    Inv (insts st') (db st') /\ logs st st'.
  Proof.
    induction os as [|o os IH]; simpl; intros st st' HI H.
    - injection H as <-. split; auto. now apply logs_refl.
    - destruct (delete_one st o) as [s1|] eqn:E; [|discriminate].
      destruct (delete_one_good _ _ _ HI E) as [HI1 HL1]. destruct (IH _ _ HI1 H) as [HI2 HL2].
      split; auto. eapply logs_trans; eauto.
  Qed.

  Lemma do_delete_good : forall st os st', Inv (insts st) (db st) -> do_delete sc st os = Ok st' ->
    Inv (insts st') (db st') /\ logs st st'.
  Proof.
    intros st os st' HI H. unfold do_delete in H.
    destruct (forallb (valid_del st) os); [|discriminate].
    destruct (flush sc st) as [st1|] eqn:Ef; [|discriminate].
    destruct (delete_all_good _ _ _ (flush_inv _ _ _ Ef HI) H) as [HI2 HL2].
    split; auto. eapply logs_trans; [apply (flush_logs _ _ Ef) | exact HL2].
  Qed.

  Lemma do_refresh_good : forall st o st', Inv (insts st) (db st) -> do_refresh sc st o = Ok st' ->
    Inv (insts st') (db st') /\ logs st st'.
  Proof.
    intros st o st' HI H. unfold do_refresh in H.
    destruct (nth_error (insts st) o) as [i0|] eqn:En; [|discriminate].
    destruct (i_life i0) eqn:El; try discriminate. destruct (i_tok i0) as [t|] eqn:Et; [|discriminate].
    set (l0 := upd_nth o (fun i => mkInst (i_old i) (i_old i) (i_life i) (i_tok i)) (insts st)) in *.
    destruct (flush sc (mkSess l0 (db st) (committed st) (wlog st) (rlog st))) as [st1|] eqn:Ef; [|discriminate].
    destruct (find_pk (r_pk (i_cur i0)) (db st1 t)) as [r|] eqn:Er; [|discriminate].
    injection H as <-. simpl.
    destruct (nth_split _ _ _ En) as [pre [post [Hs Hlen]]]. subst o.
    destruct (inv_row _ _ HI i0) as [t0 [Ht0 [Hin0 Hpk0]]]; [rewrite Hs; apply in_mid; auto | auto |].
    assert (HI0 : Inv l0 (db st)).
    { subst l0. rewrite Hs in *. rewrite upd_nth_split. eapply inv_replace; [exact HI | |].
      - destruct i0; simpl in *. apply key_of_same_pk. auto.
      - simpl. intros _. eauto. }
    assert (En0 : nth_error l0 (length pre) = Some (mkInst (i_old i0) (i_old i0) (i_life i0) (i_tok i0))).
    { subst l0. rewrite Hs. rewrite upd_nth_split. rewrite nth_error_app2 by lia. now rewrite Nat.sub_diag. }
    pose proof (flush_inv _ _ _ Ef HI0) as HI1. simpl in HI1.
    destruct (Forall2_nth _ _ _ _ _ (flush_frel _ _ _ Ef) En0) as [i1 [En1 Hr]].
    unfold frel in Hr. simpl in Hr. rewrite El in Hr. destruct Hr as [Hl1 [Ht1 Hc1]].
    destruct (nth_split _ _ _ En1) as [pre1 [post1 [Hs1 Hlen1]]].
    apply find_pk_some in Er. destruct Er as [Hrin Hrpk]. split.
    - rewrite Hs1 in *. rewrite <- Hlen1. rewrite upd_nth_split.
      eapply inv_replace; [exact HI1 | |].
      + destruct i1; simpl in *. apply key_of_same_pk. congruence.
      + simpl. intros _. exists t. repeat split; auto. congruence.
    - destruct (flush_logs _ _ Ef) as [delta [Hw Ha]]. simpl in *. exists delta. auto.
  Qed.

  Lemma do_query_good : forall st q tgt st' os, Inv (insts st) (db st) -> do_query sc ec st q tgt = Ok (st', os) ->
    Inv (insts st') (db st') /\ logs st st'.
  Proof.
    intros st q tgt st' os HI H. destruct (do_query_spec _ _ _ _ _ HI H) as [_ [st1 [Ef [Hd [_ [Hw [_ [HI' _]]]]]]]].
    split; auto. destruct (flush_logs _ _ Ef) as [delta [Hw1 Ha]]. exists delta. rewrite Hw, Hd. auto.
  Qed.

  Lemma do_get_good : forall st k t st' ro, Inv (insts st) (db st) -> do_get sc ic ec st k t = Ok (st', ro) ->
    Inv (insts st') (db st') /\ logs st st'.
  Proof.
    intros st k t st' ro HI E. destruct (do_get_cases _ _ _ _ _ E) as [[-> _]|[os [Eq _]]].
    - split; auto. now apply logs_refl.
    - eapply do_query_good; eauto.
  Qed.

  Lemma do_merge_good : forall st r t st' ro, Inv (insts st) (db st) -> do_merge sc ic ec st r t = Ok (st', ro) ->
    Inv (insts st') (db st') /\ logs st st'.
  Proof.
    intros st r t st' ro HI H. unfold do_merge in H.
    destruct (flush sc st) as [st1|] eqn:Ef; [|discriminate].
    pose proof (flush_inv _ _ _ Ef HI) as HI1. pose proof (flush_logs _ _ Ef) as HL1.
    destruct (do_get sc ic ec st1 (r_pk r) (Some t)) as [[st2 [o|]]|] eqn:Eg; [| |discriminate].
    - destruct (do_get_good _ _ _ _ _ HI1 Eg) as [HI2 HL2].
      destruct (do_set st2 o (r_grp r) (r_val r)) as [st3|] eqn:Es; [|discriminate]. injection H as <- <-.
      destruct (do_set_good _ _ _ _ _ HI2 Es) as [HI3 HL3]. split; auto.
      eapply logs_trans; [exact HL1|]. eapply logs_trans; eauto.
    - destruct (do_get_good _ _ _ _ _ HI1 Eg) as [HI2 HL2]. injection H as <- <-. simpl. split.
      + now apply inv_add.
      + eapply logs_trans; [exact HL1|]. destruct HL2 as [delta [? ?]]. exists delta. auto.
  Qed.

  Lemma step_good : forall d0 st o st' r, Good d0 st -> step sc ic ec st o = Ok (st', r) -> Good d0 st'.
  Proof.
    intros d0 st o st' r HG H. pose proof (proj1 HG) as HI.
    assert (Inv (insts st') (db st') /\ logs st st') as [HI' HL]; [|eapply good_logs; eauto].
    destruct o; simpl in H.
    - injection H as <- <-. simpl. split; [now apply inv_add | now apply logs_refl].
    - destruct (do_set st o g v) as [s|] eqn:E; [|discriminate]. injection H as <- <-. eapply do_set_good; eauto.
    - destruct (flush sc st) as [s|] eqn:E; [|discriminate]. injection H as <- <-.
      split; [eapply flush_inv; eauto | eapply flush_logs; eauto].
    - unfold do_commit in H. destruct (flush sc st) as [s|] eqn:E; [|discriminate]. injection H as <- <-. simpl.
      split; [eapply flush_inv; eauto|]. destruct (flush_logs _ _ E) as [delta [? ?]]. exists delta. auto.
    - destruct (do_delete sc st os) as [s|] eqn:E; [|discriminate]. injection H as <- <-. eapply do_delete_good; eauto.
    - destruct (do_query sc ec st q tgt) as [[s os]|] eqn:E; [|discriminate]. injection H as <- <-.
      eapply do_query_good; eauto.
    - destruct (do_get sc ic ec st k t) as [[s ro]|] eqn:E; [|discriminate]. injection H as <- <-.
      eapply do_get_good; eauto.
    - destruct (do_refresh sc st o) as [s|] eqn:E; [|discriminate]. injection H as <- <-. eapply do_refresh_good; eauto.
    - destruct (do_merge sc ic ec st r0 t) as [[s ro]|] eqn:E; [|discriminate]. injection H as <- <-.
      eapply do_merge_good; eauto.
  Qed.

  Lemma run_good : forall d0 ops st st', Good d0 st -> run sc ic ec st ops = Ok st' -> Good d0 st'.
  Proof.
    intros d0. induction ops as [|o ops IH]; simpl; intros st st' HG H.
    - now injection H as <-.
    - destruct (step sc ic ec st o) as [[s r]|] eqn:E; [|discriminate]. eapply IH; [|exact H]. eapply step_good; eauto.
  Qed.

  Lemma init_good : forall d0, wf_db d0 -> Good d0 (init d0).
  Proof.
    intros d0 Hw. split; [|reflexivity]. constructor; simpl; auto; [intros i []|constructor].
  Qed.

  Definition reachable (d0 : dbs) (st : sess) : Prop := exists ops, run sc ic ec (init d0) ops = Ok st.

  Lemma reachable_good : forall d0 st, wf_db d0 -> reachable d0 st -> Good d0 st.
  Proof. intros d0 st Hw [ops H]. eapply run_good; [apply init_good; auto | exact H]. Qed.
End Ops.
