(* C38 - proofs about the instrumented dict (orm/CollDict.v) *)
From Coq Require Import List ZArith Bool Lia ZifyBool Permutation Arith.
Import ListNotations.
From SAV.base Require Import PySlice.
From SAV.orm Require Import CollBase CollDict CollProofs.
Open Scope Z_scope.

Ltac inv H := inversion H; subst; clear H.

(* ---------- the builtin dict on association lists ---------- *)
Lemma d_get_None : forall k d, d_get k d = None <-> ~ In k (map fst d).
Proof.
  induction d as [|[k' v'] r IH]; cbn [d_get map fst In]; [tauto|].
  destruct (Z.eqb_spec k k'); [split; [discriminate|intro H; exfalso; apply H; auto]|].
  rewrite IH. intuition.
Qed.

Lemma d_set_keys : forall k v d,
  map fst (d_set k v d) = if d_has k d then map fst d else map fst d ++ [k].
Proof.
  intros. unfold d_has. induction d as [|[k' v'] r IH]; cbn [d_set d_get map fst app]; [reflexivity|].
  destruct (Z.eqb_spec k k'); cbn [map fst]; [subst; reflexivity|].
  rewrite IH. destruct (d_get k r); reflexivity.
Qed.

Lemma d_set_wf : forall k v d, d_wf d -> d_wf (d_set k v d).
Proof.
  intros k v d H. unfold d_wf. rewrite d_set_keys. unfold d_has.
  destruct (d_get k d) eqn:E; [assumption|].
  apply (Permutation_NoDup (l := k :: map fst d)); [apply Permutation_cons_append|].
  constructor; [apply d_get_None; assumption|assumption].
Qed.

Lemma d_del_wf : forall k d, d_wf d -> d_wf (d_del k d).
Proof.
  intros k d. unfold d_wf, d_del. induction d as [|[k' v'] r IH]; cbn [filter map fst]; intro H; [constructor|].
  inv H. destruct (k =? k'); cbn [negb map fst]; [apply IH; assumption|].
  constructor; [|apply IH; assumption].
  intro Hin. apply H2. apply in_map_iff in Hin. destruct Hin as [[a b] [E Hin]].
  apply filter_In in Hin. apply in_map_iff. exists (a, b). tauto.
Qed.

Lemma d_del_absent : forall k d, ~ In k (map fst d) -> d_del k d = d.
Proof.
  intros k d. unfold d_del. induction d as [|[k' v'] r IH]; cbn [filter map fst In]; intro H; [reflexivity|].
  destruct (Z.eqb_spec k k'); [exfalso; apply H; auto|]. cbn [negb]. rewrite IH; tauto.
Qed.

Definition old_count (z : item) (o : option item) : Z :=
  match o with Some old => if z =? old then 1 else 0 | None => 0 end.

Lemma count_d_set : forall z k v d,
  countZ z (d_values (d_set k v d)) =
  countZ z (d_values d) + (if z =? v then 1 else 0) - old_count z (d_get k d).
Proof.
  intros. unfold d_values. induction d as [|[k' v'] r IH]; cbn [d_set d_get map snd old_count].
  - rewrite countZ_cons, countZ_nil. lia.
  - destruct (Z.eqb_spec k k'); cbn [map snd old_count]; rewrite !countZ_cons; [lia|].
    rewrite IH. lia.
Qed.

Lemma count_d_del : forall z k d, d_wf d ->
  countZ z (d_values (d_del k d)) = countZ z (d_values d) - old_count z (d_get k d).
Proof.
  intros z k d. unfold d_values, d_wf. induction d as [|[k' v'] r IH]; intro H; cbn [d_get map fst snd].
  - cbn. lia.
  - inv H. destruct (Z.eqb_spec k k').
    + subst. unfold d_del. cbn [filter fst]. rewrite Z.eqb_refl. cbn [negb].
      fold (d_del k' r). rewrite d_del_absent by assumption.
      cbn [old_count]. rewrite countZ_cons. lia.
    + unfold d_del. cbn [filter fst]. replace (k =? k') with false by lia. cbn [negb map snd].
      fold (d_del k r). rewrite !countZ_cons, IH by assumption. lia.
Qed.

Lemma d_set_same : forall k v d, d_get k d = Some v -> d_set k v d = d.
Proof.
  induction d as [|[k' v'] r IH]; cbn [d_get d_set]; intro H; [discriminate|].
  destruct (Z.eqb_spec k k'); [inv H; reflexivity|]. rewrite IH; auto.
Qed.

Lemma d_last_get : forall d k v, d_wf d -> d_last d = Some (k, v) -> d_get k d = Some v.
Proof.
  intros d k v. unfold d_last, d_wf.
  destruct (rev d) as [|kv t] eqn:E; [discriminate|]. intros W H. inv H.
  assert (Ed : d = rev t ++ [(k, v)]).
  { rewrite <- (rev_involutive d), E. reflexivity. }
  subst d. clear E. rewrite map_app in W. cbn [map fst] in W.
  induction (rev t) as [|[k' v'] r IH]; cbn [app d_get].
  - rewrite Z.eqb_refl. reflexivity.
  - cbn [app map fst] in W. inv W. destruct (Z.eqb_spec k k').
    + subst. exfalso. apply H1. rewrite in_app_iff. right. left. reflexivity.
    + apply IH. assumption.
Qed.

Lemma d_has_get : forall k d, d_has k d = match d_get k d with Some _ => true | None => false end.
Proof. reflexivity. Qed.

Local Notation acc := (accounted d_values d_wf).
Local Notation dbal := (bal d_values).

(* ====================================================================================== *)
(* 1. event accounting                                                                      *)
(* ====================================================================================== *)
Lemma acc_dsetitem : forall k v, acc (sa_dsetitem k v).
Proof.
  intros k v [d g] r s' I H. unfold sa_dsetitem, bind, get, put in H. cbn [fst snd] in H, I.
  split.
  - destruct (d_get k d); unfold fire, ret in H; cbn [fst snd] in H; inv H; apply d_set_wf; assumption.
  - intro z. pose proof (count_d_set z k v d) as C.
    destruct (d_get k d); unfold fire, ret in H; cbn [fst snd] in H; inv H; unfold bal; cbn [fst snd];
      rewrite ?net_app; cbn [net ev_delta old_count] in *; liaif.
Qed.

Lemma acc_ddelitem : forall k, acc (sa_ddelitem k).
Proof.
  intros k [d g] r s' I H. unfold sa_ddelitem, bind, get, lift in H. cbn [fst snd] in H, I.
  unfold d_has in H. pose proof (count_d_del) as C.
  destruct (d_get k d) as [old|] eqn:E; unfold fire, ret in H; cbn [fst snd] in H; rewrite ?E in H; inv H.
  - split; [apply d_del_wf; assumption|]. intro z. specialize (C z k d I). rewrite E in C.
    unfold bal; cbn [fst snd]. rewrite net_app. cbn [net ev_delta old_count] in *. liaif.
  - auto.
Qed.

Lemma acc_dclear : acc sa_dclear.
Proof.
  intros [d g] r s' I H. unfold sa_dclear, bind, get, put in H. cbn [fst snd] in H.
  rewrite (for_each_fire_map _ _ ERem) in H. cbn [fst snd] in H. inv H. split; [constructor|].
  intro z. unfold bal. cbn [fst snd]. rewrite net_app, net_map_rem. cbn. lia.
Qed.

Lemma acc_dpop : forall k dflt, acc (sa_dpop k dflt).
Proof.
  intros k dflt [d g] r s' I H. unfold sa_dpop, bind, get, lift in H. cbn [fst snd] in H, I.
  unfold d_has in H. pose proof (count_d_del) as C.
  destruct (d_get k d) as [old|] eqn:E.
  - unfold fire, ret in H; cbn [fst snd] in H; inv H.
    split; [apply d_del_wf; assumption|]. intro z. specialize (C z k d I). rewrite E in C.
    unfold bal; cbn [fst snd]. rewrite net_app. cbn [net ev_delta old_count] in *. liaif.
  - destruct dflt; unfold ret in H; cbn [fst snd] in H; rewrite ?E in H; cbn [fst snd] in H; inv H; auto.
Qed.

Lemma acc_dpopitem : acc sa_dpopitem.
Proof.
  intros [d g] r s' I H. unfold sa_dpopitem, bind, lift, fire, ret in H. cbn [fst snd] in H, I.
  destruct (d_last d) as [[k v]|] eqn:E; cbn [fst snd] in H; inv H; [|auto].
  pose proof (d_last_get d k v I E) as G.
  split; [apply d_del_wf; assumption|]. intro z. pose proof (count_d_del z k d I) as C. rewrite G in C.
  unfold bal; cbn [fst snd]. rewrite net_app. cbn [net ev_delta old_count] in *. liaif.
Qed.

Lemma acc_fire_same : forall x, acc (fire (ESame x)).
Proof.
  intros x [d g] r s' I H. unfold fire in H. inv H. split; [assumption|]. intro z.
  unfold bal. cbn [fst snd]. rewrite net_app. cbn. lia.
Qed.

Lemma acc_dsetdefault : forall k v, acc (sa_dsetdefault k v).
Proof.
  intros k v. unfold sa_dsetdefault. apply acc_bind; [apply acc_get|]. intro d.
  destruct (d_get k d).
  - apply acc_bind; [|intros; apply acc_ret]. destruct (_ =? _); [apply acc_fire_same|apply acc_ret].
  - apply acc_bind; [apply acc_dsetitem|intros; apply acc_ret].
Qed.

Lemma acc_dupdate1 : forall kv, acc (sa_dupdate1 kv).
Proof.
  intros kv. unfold sa_dupdate1. apply acc_bind; [apply acc_get|]. intro d.
  destruct (d_get (fst kv) d); [destruct (_ =? _)|]; try apply acc_fire_same; apply acc_dsetitem.
Qed.

Lemma acc_dupdate : forall u kw, acc (sa_dupdate u kw).
Proof.
  intros. unfold sa_dupdate. apply acc_bind; [|intros _]; apply acc_for_each, acc_dupdate1.
Qed.

Lemma acc_dict_op : forall op, acc (sa_dict_op op).
Proof.
  intros op. destruct op; cbn [sa_dict_op];
    try (apply acc_bind; [|intros; apply acc_ret]).
  - apply acc_dsetitem.
  - apply acc_ddelitem.
  - apply acc_dclear.
  - apply acc_dpop.
  - apply acc_dpopitem.
  - apply acc_dsetdefault.
  - apply acc_dupdate.
  - apply acc_dupdate.
Qed.

(* no exception: every dict operation is accounted and keeps the keys unique *)
Theorem dict_op_accounted : forall op d g r d' g',
  d_wf d -> sa_dict_op op (d, g) = (r, (d', g')) ->
  d_wf d' /\ forall x, countZ x (d_values d') - countZ x (d_values d) = net x g' - net x g.
Proof.
  intros op d g r d' g' W H.
  destruct (acc_dict_op op (d, g) _ _ W H) as [W' B]. split; [exact W'|].
  intro x. specialize (B x). unfold bal in B. cbn [fst snd] in B. lia.
Qed.

(* ====================================================================================== *)
(* 2. result / exception / contents = the builtin dict (no exception: always equal)         *)
(* ====================================================================================== *)
Lemma run_dsetitem : forall k v d g, exists g', sa_dsetitem k v (d, g) = (Ok tt, (d_set k v d, g')).
Proof.
  intros. unfold sa_dsetitem, bind, get, put. cbn [fst snd].
  destruct (d_get k d); unfold fire, ret; cbn [fst snd]; eexists; reflexivity.
Qed.

Lemma run_dupdate1 : forall kv d g,
  exists g', sa_dupdate1 kv (d, g) = (Ok tt, (d_set (fst kv) (snd kv) d, g')).
Proof.
  intros [k v] d g. unfold sa_dupdate1, bind at 1, get at 1. cbn [fst snd].
  destruct (d_get k d) as [v'|] eqn:E; [|apply run_dsetitem].
  destruct (Z.eqb_spec v' v); [|apply run_dsetitem].
  subst. rewrite d_set_same by assumption. unfold fire. cbn [fst snd]. eexists; reflexivity.
Qed.

Lemma dupdate_loop : forall kvs d g,
  exists g', for_each kvs sa_dupdate1 (d, g) = (Ok tt, (d_update d kvs, g')).
Proof.
  induction kvs as [|kv kvs IH]; intros; cbn [for_each]; [eexists; reflexivity|].
  destruct (run_dupdate1 kv d g) as [g1 E]. unfold bind. rewrite E. apply IH.
Qed.

Lemma run_dsetdefault : forall k v d g,
  exists g', sa_dsetdefault k v (d, g) =
    (Ok (match d_get k d with Some v' => v' | None => v end),
     (match d_get k d with Some _ => d | None => d_set k v d end, g')).
Proof.
  intros. unfold sa_dsetdefault. unfold bind at 1. unfold get at 1. cbn [fst snd].
  destruct (d_get k d) as [v'|] eqn:E.
  - destruct (v' =? v); unfold bind, fire, ret; cbn [fst snd]; eexists; reflexivity.
  - destruct (run_dsetitem k v d g) as [g' E']. unfold bind. rewrite E'. eexists; reflexivity.
Qed.

Definition dagrees (r : res retv * st pydict) (p : res retv * pydict) : Prop :=
  fst r = fst p /\ fst (snd r) = snd p.

Theorem dict_op_eq_python : forall op d g, dagrees (sa_dict_op op (d, g)) (py_dict_op d op).
Proof.
  intros op d g. unfold dagrees. destruct op; cbn [sa_dict_op py_dict_op].
  - destruct (run_dsetitem k v d g) as [g' E]. unfold bind. rewrite E. cbn. auto.
  - unfold sa_ddelitem, bind, get, lift, d_has. cbn [fst snd].
    destruct (d_get k d) eqn:E; unfold fire, ret; cbn [fst snd]; rewrite E; cbn; auto.
  - unfold sa_dclear, bind, get, put. cbn [fst snd].
    rewrite (for_each_fire_map _ _ ERem). cbn. auto.
  - unfold sa_dpop, bind, get, lift, d_has. cbn [fst snd].
    destruct (d_get k d) eqn:E; [|destruct dflt]; unfold fire, ret; cbn; auto.
  - unfold sa_dpopitem, bind, lift, fire, ret. cbn [fst snd].
    destruct (d_last d) as [[k v]|]; cbn; auto.
  - destruct (run_dsetdefault k v d g) as [g' E]. unfold bind. rewrite E.
    destruct (d_get k d); cbn; auto.
  - unfold sa_dupdate.
    destruct (dupdate_loop (upd_pairs u) d g) as [g1 E1].
    destruct (dupdate_loop kw (d_update d (upd_pairs u)) g1) as [g2 E2].
    unfold bind. rewrite E1, E2. cbn. auto.
  - unfold sa_dupdate. cbn [upd_pairs for_each].
    destruct (dupdate_loop m d g) as [g1 E1]. unfold bind. rewrite E1. cbn. auto.
Qed.

(* ====================================================================================== *)
(* 3. histories                                                                             *)
(* ====================================================================================== *)
Theorem dict_history_eq_python : forall ops d g,
  fst (sa_dict_run ops (d, g)) = fst (py_dict_run ops d) /\
  fst (snd (sa_dict_run ops (d, g))) = snd (py_dict_run ops d).
Proof.
  induction ops as [|op r IH]; intros d g; cbn [sa_dict_run py_dict_run]; [auto|].
  destruct (dict_op_eq_python op d g) as [A1 A2].
  destruct (sa_dict_op op (d, g)) as [x [d1 g1]]. cbn [fst snd] in A1, A2.
  destruct (py_dict_op d op) as [y d2]. cbn [fst snd] in *. subst.
  destruct (IH d2 g1) as [B1 B2].
  destruct (sa_dict_run r (d2, g1)) as [xs s'']. destruct (py_dict_run r d2) as [ys d''].
  cbn [fst snd] in *. subst. auto.
Qed.

Theorem dict_history_accounted : forall ops d g, d_wf d ->
  let '(_, (d', g')) := sa_dict_run ops (d, g) in
  d_wf d' /\ forall x, countZ x (d_values d') - countZ x (d_values d) = net x g' - net x g.
Proof.
  induction ops as [|op r IH]; intros d g W; cbn [sa_dict_run]; [split; [assumption|intro; lia]|].
  destruct (sa_dict_op op (d, g)) as [rv [d1 g1]] eqn:E.
  destruct (dict_op_accounted op d g rv d1 g1 W E) as [W1 A].
  specialize (IH d1 g1 W1). destruct (sa_dict_run r (d1, g1)) as [xs [d2 g2]].
  destruct IH as [W2 B]. split; [assumption|]. intro x. specialize (A x). specialize (B x). lia.
Qed.
