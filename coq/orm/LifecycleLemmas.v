(* C35 - generic lemmas: well-formed logs, passes over the object list *)
From Coq Require Import List ZArith Bool Arith Lia.
Import ListNotations.
From SAV.orm Require Import Lifecycle LifecycleSpec.

Lemma lc_eqb_eq : forall a b, lc_eqb a b = true -> a = b.
Proof. destruct a, b; simpl; intros; congruence. Qed.
Lemma lc_eqb_refl : forall a, lc_eqb a a = true.
Proof. destruct a; reflexivity. Qed.

Lemma wf_app : forall l1 l2, wf l1 -> wf l2 -> wf (l1 ++ l2).
Proof. induction 1; simpl; intros; auto; constructor; auto. Qed.

Lemma wfo_tag : forall i l, wfo l -> wf (tag i l).
Proof. induction 1; simpl.
  - constructor.
  - apply (wf_fire i f t e); auto.
  - apply (wf_silent i f t); auto. Qed.

Lemma wfob_sound : forall l, wfob l = true -> wfo l.
Proof.
  intro l. remember (length l) as n. revert l Heqn.
  induction n as [n IH] using lt_wf_ind. intros l Hn H.
  destruct l as [|[f t|e a] r]; simpl in H; [constructor| |discriminate].
  destruct r as [|[f' t'|e t'] r'].
  - apply andb_prop in H as [H1 _]. apply wfo_silent; [auto|constructor].
  - apply andb_prop in H as [H1 H2]. apply wfo_silent; auto.
    apply (IH (length (OChg f' t' :: r'))); subst; simpl; auto.
  - apply orb_prop in H as [H|H].
    + apply andb_prop in H as [H H3]. apply andb_prop in H as [H1 H2].
      apply lc_eqb_eq in H2. subst t'. apply wfo_fire; auto.
      apply (IH (length r')); subst; simpl; auto.
    + apply andb_prop in H as [H1 H2]. apply wfo_silent; auto.
      apply (IH (length (OEv e t' :: r'))); subst; simpl; auto.
Qed.

Lemma wfb_complete : forall l, wf l -> wfb l = true.
Proof.
  induction 1; simpl; auto.
  - unfold Chg, Ev. simpl. rewrite Nat.eqb_refl, H, lc_eqb_refl, IHwf. reflexivity.
  - unfold Chg. simpl. rewrite H, IHwf. destruct l as [|[j [f' t'|e t']] r]; auto.
    simpl. apply orb_true_r.
Qed.

Lemma wf_chg_documented : forall l, wf l -> forall i f t, In (Chg i f t) l -> exists e, documented f t e = true.
Proof.
  induction 1; simpl; intros j f' t' HIn; [tauto| |].
  - destruct HIn as [E|[E|HIn]].
    + inversion E; subst; eauto.
    + discriminate E.
    + eauto.
  - destruct HIn as [E|HIn]; [inversion E; subst; eauto|eauto].
Qed.

(* ---- passes ------------------------------------------------------------------------------------- *)
Lemma mapi_log_length : forall f l n, length (fst (mapi_log f n l)) = length l.
Proof. induction l; simpl; intros; auto. destruct (f n a). specialize (IHl (S n)).
  destruct (mapi_log f (S n) l). simpl in *. auto. Qed.

Lemma mapi_log_nth : forall f l n k, nth_error (fst (mapi_log f n l)) k =
  option_map (fun o => fst (f (n + k)%nat o)) (nth_error l k).
Proof. induction l; simpl; intros n k. { destruct k; reflexivity. }
  destruct (f n a) eqn:E. specialize (IHl (S n)). destruct (mapi_log f (S n) l). simpl in *.
  destruct k; simpl. { rewrite Nat.add_0_r, E. reflexivity. }
  rewrite IHl. replace (n + S k)%nat with (S (n + k)) by lia. reflexivity. Qed.

Lemma mapi_log_wf : forall f l n,
  (forall k o, nth_error l k = Some o -> wfo (snd (f (n + k)%nat o))) -> wf (snd (mapi_log f n l)).
Proof. induction l; simpl; intros n H. { constructor. }
  destruct (f n a) eqn:E. specialize (IHl (S n)). destruct (mapi_log f (S n) l). simpl in *.
  apply wf_app.
  - apply wfo_tag. specialize (H 0%nat a eq_refl). rewrite Nat.add_0_r, E in H. exact H.
  - apply IHl. intros k o' Hk. specialize (H (S k) o' Hk). replace (n + S k)%nat with (S (n + k)) in H by lia. exact H.
Qed.

Lemma app_all_objs : forall f st, objs (app_all f st) = fst (mapi_log f 0 (objs st)).
Proof. intros. unfold app_all. destruct (mapi_log f 0 (objs st)). reflexivity. Qed.
Lemma app_all_slog : forall f st, slog (app_all f st) = slog st ++ snd (mapi_log f 0 (objs st)).
Proof. intros. unfold app_all. destruct (mapi_log f 0 (objs st)). reflexivity. Qed.
Lemma app_all_tx : forall f st, tx (app_all f st) = tx st.
Proof. intros. unfold app_all. destruct (mapi_log f 0 (objs st)). reflexivity. Qed.
Lemma app_all_eoc : forall f st, eoc (app_all f st) = eoc st.
Proof. intros. unfold app_all. destruct (mapi_log f 0 (objs st)). reflexivity. Qed.
Lemma app_all_length : forall f st, length (objs (app_all f st)) = length (objs st).
Proof. intros. rewrite app_all_objs. apply mapi_log_length. Qed.

Lemma app_all_nth : forall f st k, nth_error (objs (app_all f st)) k =
  option_map (fun o => fst (f k o)) (nth_error (objs st) k).
Proof. intros. rewrite app_all_objs, mapi_log_nth. reflexivity. Qed.

(* the workhorse: one pass maps an index-aware predicate to another and keeps the log well formed *)
Lemma pass_spec : forall (p q : nat -> obj -> bool) f st,
  SP p st ->
  (forall k o, p k o = true -> q k (fst (f k o)) = true /\ wfob (snd (f k o)) = true) ->
  SP q (app_all f st) /\ (wf (slog st) -> wf (slog (app_all f st))).
Proof.
  intros p q f st HP Hf. split.
  - intros k o Hk. rewrite app_all_nth in Hk. destruct (nth_error (objs st) k) eqn:E; [|discriminate].
    inversion Hk; subst. apply Hf. eapply HP; eauto.
  - intro Hw. rewrite app_all_slog. apply wf_app; auto. apply mapi_log_wf. intros k o Hk.
    apply wfob_sound. apply Hf. eapply HP; eauto.
Qed.

Lemma SP_weaken : forall (p q : nat -> obj -> bool) st, SP p st -> (forall k o, p k o = true -> q k o = true) -> SP q st.
Proof. intros p q st H Hpq k o Hk. apply Hpq. eapply H; eauto. Qed.

Lemma get_nth : forall st i o, nth_error (objs st) i = Some o -> get st i = o.
Proof. intros. unfold get. apply nth_error_nth. exact H. Qed.

(* what is known about [get st i] is known about the object at index [i] *)
Lemma SP_get : forall (p : nat -> obj -> bool) (c : obj -> bool) st i,
  SP p st -> c (get st i) = true -> SP (fun k o => p k o && (if Nat.eqb k i then c o else true)) st.
Proof. intros p c st i HP Hc k o Hk. rewrite (HP k o Hk). simpl.
  destruct (Nat.eqb_spec k i); auto. subst. rewrite <- (get_nth _ _ _ Hk). exact Hc. Qed.

Lemma SP_elim : forall (p : nat -> obj -> bool) st i, SP p st -> (i < length (objs st))%nat -> p i (get st i) = true.
Proof. intros p st i HP Hi. destruct (nth_error (objs st) i) eqn:E.
  - rewrite (get_nth _ _ _ E). eapply HP; eauto.
  - apply nth_error_None in E. lia. Qed.

Lemma SP_set_tx : forall p t st, SP p (set_tx t st) <-> SP p st.
Proof. intros. unfold SP. simpl. tauto. Qed.
