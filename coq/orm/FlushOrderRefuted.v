(* C31 - the two defects: graphs outside [managed] for which every hypothesis of the main theorem but
   [managed] holds and the flush fails on a database with immediate foreign key checks *)
From Coq Require Import List NArith Bool Lia Permutation Arith Sorted.
Import ListNotations.
From SAV.util Require Import Topo Cycles TopoRun.
From SAV.orm Require Import FlushOrder FlushOrderSpec FlushOrderBase FlushOrderSort FlushOrderCover FlushOrderMain.
Local Open Scope N_scope.

Definition mkdep i k p c po a co := {| d_id := i; d_kind := k; d_parent := p; d_child := c; d_post := po; d_active := a; d_col := co; d_rev := false |}.
Definition mkst i m k r := {| s_id := i; s_map := m; s_key := k; s_role := r |}.

(* 1. two mappers that depend on each other through many-to-one relationships (A.b, B.a), rows a1 -> b1;
      a1.b = None; delete(b1).  [g_m2o]: the old target b1 was loaded (it is in get_all_pending): repaired by
      a8ba61d, the UPDATE of a1 now precedes the DELETE of b1 (positive example below).
      [g_m2o_unloaded]: a1.b was expired when it was reset, the unit of work does not know the old target:
      the DELETE of b1 is in the first layer, the UPDATE of a1 in the second. *)
Definition g_m2o_unloaded : graph := {|
  g_deps := [mkdep 0 1 0 1 false true 0; mkdep 1 1 1 0 false true 1];
  g_sts := [mkst 0 0 true 1; mkst 1 1 true 2];
  g_links := [(0, 0, None); (1, 1, None)];
  g_ref0 := [(0, 0, 1)]; g_ref1 := [];
  g_sec0 := []; g_sec1 := []; g_notnull := [] |}.
Definition g_m2o : graph := {|
  g_deps := [mkdep 0 1 0 1 false true 0; mkdep 1 1 1 0 false true 1];
  g_sts := [mkst 0 0 true 1; mkst 1 1 true 2];
  g_links := [(0, 0, None); (0, 0, Some 1); (1, 1, None)];
  g_ref0 := [(0, 0, 1)]; g_ref1 := [];
  g_sec0 := []; g_sec1 := []; g_notnull := [] |}.
Definition tr_m2o : list ev := [EDel 1; ESave 0].

(* 2. one-to-many P.cs with post_update (column 0 of C), a second one-to-many X.cs (column 1 of C);
      rows c -> p, c -> x; delete(p); x.cs.remove(c).  DeleteAll(P) and SaveUpdateAll(C) share a layer, the
      post_update UPDATE of c comes two layers later. *)
Definition g_post : graph := {|
  g_deps := [mkdep 0 0 0 1 true true 0; mkdep 1 0 2 1 false true 1];
  g_sts := [mkst 0 0 true 2; mkst 1 1 true 1; mkst 2 2 true 1];
  g_links := [(0, 0, Some 1); (1, 2, Some 1)];
  g_ref0 := [(1, 0, 0); (1, 1, 2)]; g_ref1 := [];
  g_sec0 := []; g_sec1 := []; g_notnull := [] |}.
Definition tr_post : list ev := [ESave 2; ESave 1; EDel 0; EPost 1].

Definition refuted (g : graph) (tr : list ev) : Prop :=
  exists cy layers,
    wf g = true /\ consistent g = true /\ cycles std_tables g = Some cy /\ cyc_ok g cy = true /\
    managed g cy = false /\
    plan std_tables g = Layers layers /\ linearizes layers g cy tr /\
    exec (g_notnull g) (db0 g) (map (stmt_of g) tr) = None /\
    exists tr', Permutation tr' tr /\ exec (g_notnull g) (db0 g) (map (stmt_of g) tr') <> None.

Lemma perm_small (l l' : list ev) : NoDup l -> NoDup l' -> (forall x, In x l <-> In x l') -> Permutation l l'.
Proof. apply NoDup_Permutation. Qed.

Ltac nodup_ev := repeat constructor; simpl; intuition discriminate.

Theorem m2o_unset_delete_unloaded_refuted : refuted g_m2o_unloaded tr_m2o.
Proof.
  eexists. eexists. split; [vm_compute; reflexivity|]. split; [vm_compute; reflexivity|]. split; [vm_compute; reflexivity|].
  split; [vm_compute; reflexivity|]. split; [vm_compute; reflexivity|]. split; [vm_compute; reflexivity|]. split; [|split].
  - split.
    + apply perm_small; [nodup_ev|nodup_ev|]. intros x. vm_compute. tauto.
    + exists (fun e => match e with ESave _ => 1%nat | _ => 0%nat end). split.
      * intros e [<-|[<-|[]]]; eexists; (split; [left; reflexivity|vm_compute; reflexivity]).
      * repeat constructor.
  - vm_compute. reflexivity.
  - exists [ESave 0; EDel 1]. split; [apply perm_swap|vm_compute; discriminate].
Qed.

Theorem post_update_o2m_delete_parent_refuted : refuted g_post tr_post.
Proof.
  eexists. eexists. split; [vm_compute; reflexivity|]. split; [vm_compute; reflexivity|]. split; [vm_compute; reflexivity|].
  split; [vm_compute; reflexivity|]. split; [vm_compute; reflexivity|]. split; [vm_compute; reflexivity|]. split; [|split].
  - split.
    + apply perm_small; [nodup_ev|nodup_ev|]. intros x. vm_compute. tauto.
    + exists (fun e => match e with ESave 2 => 0%nat | ESave _ => 2%nat | EDel _ => 2%nat | EPost _ => 4%nat | _ => 0%nat end). split.
      * intros e [<-|[<-|[<-|[<-|[]]]]]; eexists; (split; [left; reflexivity|vm_compute; reflexivity]).
      * repeat constructor.
  - vm_compute. reflexivity.
  - exists [ESave 2; ESave 1; EPost 1; EDel 0]. split; [|vm_compute; discriminate].
    apply perm_skip, perm_skip, perm_swap.
Qed.

(* the repaired case: every hypothesis INCLUDING [managed] holds, and the only order the layers allow is the
   right one *)
Example m2o_unset_delete_repaired : exists cy layers,
  wf g_m2o = true /\ consistent g_m2o = true /\ cycles std_tables g_m2o = Some cy /\ managed g_m2o cy = true /\
  plan std_tables g_m2o = Layers layers /\ linearizes layers g_m2o cy [ESave 0; EDel 1] /\
  exec (g_notnull g_m2o) (db0 g_m2o) (map (stmt_of g_m2o) [ESave 0; EDel 1]) <> None /\
  In (code (SaveSt 0), code (DelSt 1)) (cedges (final_edges std_tables g_m2o cy)).
Proof.
  eexists. eexists. split; [vm_compute; reflexivity|]. split; [vm_compute; reflexivity|]. split; [vm_compute; reflexivity|].
  split; [vm_compute; reflexivity|]. split; [vm_compute; reflexivity|]. split; [|split].
  - split.
    + apply perm_small; [nodup_ev|nodup_ev|]. intros x. vm_compute. tauto.
    + exists (fun e => match e with ESave _ => 1%nat | _ => 2%nat end). split.
      * intros e [<-|[<-|[]]]; eexists; (split; [left; reflexivity|vm_compute; reflexivity]).
      * repeat constructor.
  - vm_compute. discriminate.
  - vm_compute. tauto.
Qed.
