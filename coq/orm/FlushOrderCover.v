(* C31 - theorem B (edges_cover_fk), part 1: structural lemmas about the final dependency set *)
From Coq Require Import List NArith Bool Lia Permutation Arith.
Import ListNotations.
From SAV.util Require Import Topo Cycles TopoRun TopoProofs.
From SAV.orm Require Import FlushOrder FlushOrderSpec FlushOrderBase FlushOrderSort.
Local Open Scope N_scope.

(* ---------------------------------------------------------------- states *)
Lemma st_of_some g s x : st_of g s = Some x -> In x (g_sts g) /\ s_id x = s.
Proof. unfold st_of. intros H. apply find_some in H. destruct H as [H1 H2]. apply N.eqb_eq in H2. auto. Qed.

Lemma role_of_st g s : role_of g s = match st_of g s with Some x => s_role x | None => 0 end.
Proof. reflexivity. Qed.

Lemma role_nonzero g s : role_of g s <> 0 -> exists x, st_of g s = Some x /\ In x (g_sts g) /\ s_id x = s /\
  s_role x = role_of g s /\ s_map x = map_of g s /\ s_key x = key_of g s.
Proof. unfold role_of, map_of, key_of, st_of. destruct (find _ (g_sts g)) as [x|] eqn:E; [|intros H; exfalso; apply H; reflexivity].
  intros _. exists x. apply find_some in E. destruct E as [E1 E2]. apply N.eqb_eq in E2. auto 10. Qed.

Lemma in_saves_of g s : role_of g s = 1 -> In s (saves_of g (map_of g s)).
Proof. intros H. destruct (role_nonzero g s) as [x [_ [H1 [H2 [H3 [H4 _]]]]]]; [rewrite H; discriminate|].
  unfold saves_of. apply in_map_iff. exists x. split; [exact H2|]. apply filter_In. split; [exact H1|].
  rewrite H4, H3, H, N.eqb_refl. reflexivity. Qed.
Lemma in_dels_of g s : role_of g s = 2 -> In s (dels_of g (map_of g s)).
Proof. intros H. destruct (role_nonzero g s) as [x [_ [H1 [H2 [H3 [H4 _]]]]]]; [rewrite H; discriminate|].
  unfold dels_of. apply in_map_iff. exists x. split; [exact H2|]. apply filter_In. split; [exact H1|].
  rewrite H4, H3, H, N.eqb_refl. reflexivity. Qed.

Lemma reg_mapper g s : role_of g s <> 0 -> In (map_of g s) (reg_mappers g).
Proof. intros H. destruct (role_nonzero g s H) as [x [_ [H1 [H2 [H3 [H4 _]]]]]].
  unfold reg_mappers. apply In_dedup. apply in_map_iff. exists x. split; [exact H4|]. apply filter_In. split; [exact H1|].
  unfold in_uow. rewrite H3. apply negb_true_iff. apply N.eqb_neq. exact H. Qed.

Lemma SaveAll_in_actions0 g s : role_of g s <> 0 -> In (SaveAll (map_of g s)) (actions0 g).
Proof. intros H. unfold actions0. apply in_or_app. left. apply in_flat_map. exists (map_of g s).
  split; [apply reg_mapper, H|left; reflexivity]. Qed.
Lemma DelAll_in_actions0 g s : role_of g s <> 0 -> In (DelAll (map_of g s)) (actions0 g).
Proof. intros H. unfold actions0. apply in_or_app. left. apply in_flat_map. exists (map_of g s).
  split; [apply reg_mapper, H|right; left; reflexivity]. Qed.
Lemma save_del_edge0 T g s : role_of g s <> 0 -> In (SaveAll (map_of g s), DelAll (map_of g s)) (edges0 T g).
Proof. intros H. unfold edges0. apply in_or_app. left. apply in_map_iff. exists (map_of g s). split; [reflexivity|apply reg_mapper, H]. Qed.

(* ---------------------------------------------------------------- links *)
Lemma link_sum g d o r : link_in g d o r = true -> In (Some r) (sum_of g d o).
Proof. unfold link_in, sum_of. rewrite existsb_exists. intros [[[d' o'] r'] [H1 H2]]. simpl in H2.
  apply andb_true_iff in H2. destruct H2 as [H2 H3]. apply andb_true_iff in H2. destruct H2 as [H2 H4].
  apply N.eqb_eq in H2, H4. subst. destruct r' as [r'|]; simpl in H3; [|discriminate]. apply N.eqb_eq in H3. subst.
  apply in_map_iff. exists (d, o, Some r). split; [reflexivity|]. apply filter_In. split; [exact H1|]. simpl.
  rewrite !N.eqb_refl. reflexivity. Qed.

(* ---------------------------------------------------------------- dependency processors *)
Section Deps.
Variables (g : graph) (cy : list N).
Hypothesis Hnd : NoDup (map d_id (g_deps g)).

Lemma dep_by_id d d' : In d (g_deps g) -> In d' (g_deps g) -> d_id d = d_id d' -> d = d'.
Proof. revert Hnd. generalize (g_deps g). induction l as [|a l IH]; simpl; intros Hn H1 H2 He; [contradiction|].
  inversion Hn; subst. destruct H1 as [->|H1], H2 as [->|H2]; try reflexivity.
  - exfalso. apply H3. rewrite He. apply in_map, H2.
  - exfalso. apply H3. rewrite <- He. apply in_map, H1.
  - apply IH; assumption. Qed.

Lemma in_deps_of d : In d (g_deps g) -> d_active d = true -> In d (deps_of g (d_parent d)).
Proof. intros H1 H2. unfold deps_of. apply filter_In. split; [unfold active; apply filter_In; split; assumption|apply N.eqb_refl]. Qed.
Lemma deps_of_in d m : In d (deps_of g m) -> In d (g_deps g) /\ d_active d = true /\ d_parent d = m.
Proof. unfold deps_of, active. intros H. apply filter_In in H. destruct H as [H1 H2]. apply filter_In in H1.
  apply N.eqb_eq in H2. tauto. Qed.

Definition parent_rec (d : dep) (isdel : bool) : action := if isdel then DelAll (d_parent d) else SaveAll (d_parent d).

(* the aggregate processor stays enabled iff its parent record is not part of the cycles *)
Lemma proc_clean d b : In d (g_deps g) -> incyc cy (parent_rec d b) = false -> clean g cy (ProcAll (d_id d) b).
Proof. intros Hd Hc. unfold clean. destruct (amemb _ _) eqn:E; [|reflexivity]. exfalso.
  apply amemb_true in E. destruct E as [a [H1 H2]]. apply code_ProcAll in H2. subst a.
  unfold disabled in H1. apply in_flat_map in H1. destruct H1 as [c [Hc1 Hc2]].
  unfold cyc_actions in Hc1. apply filter_In in Hc1. destruct Hc1 as [_ Hc1].
  destruct c; simpl in Hc2; try contradiction; apply in_map_iff in Hc2; destruct Hc2 as [d' [He Hd']];
    inversion He; subst; apply deps_of_in in Hd'; destruct Hd' as [Hd1 [_ Hd2]];
    assert (d' = d) by (apply dep_by_id; assumption); subst d'; unfold parent_rec in Hc; rewrite Hd2 in Hc; congruence. Qed.

Lemma proc_disabled d b : In d (g_deps g) -> d_active d = true -> incyc cy (parent_rec d b) = true ->
  amemb (ProcAll (d_id d) b) (disabled g cy) = true.
Proof. intros Hd Ha Hc. apply amemb_In. unfold disabled. apply in_flat_map. exists (parent_rec d b). split.
  - unfold cyc_actions. apply filter_In. split; [|exact Hc]. apply (actions0_dep g d _ Hd Ha).
    unfold dep_actions0, parent_rec. destruct b; simpl; tauto.
  - unfold parent_rec. destruct b; simpl; apply in_map_iff; exists d; (split; [reflexivity|apply in_deps_of; assumption]). Qed.
End Deps.

(* ---------------------------------------------------------------- edges of the final dependency set *)
Section Edges.
Variables (g : graph) (cy : list N).
Notation T := std_tables.
Hypothesis Hnd : NoDup (map d_id (g_deps g)).
Hypothesis Hshape : cyc_shape cy = true.
Hypothesis Hfollow : procs_follow g cy = true.

Lemma proc_not_cyc d b : In d (g_deps g) -> incyc cy (parent_rec d b) = false -> incyc cy (ProcAll (d_id d) b) = false.
Proof. intros Hd Hc. unfold procs_follow in Hfollow. rewrite forallb_forall in Hfollow. specialize (Hfollow _ Hd).
  apply andb_true_iff in Hfollow. destruct Hfollow as [H1 H2]. unfold parent_rec in Hc.
  destruct b; [rewrite Hc in H2|rewrite Hc in H1]; rewrite orb_false_r in *; apply negb_true_iff; assumption. Qed.

Lemma clean_other a : (forall d b, a <> ProcAll d b) -> clean g cy a.
Proof. apply not_disabled. Qed.

Lemma convert_in_expand a x : In x (convert g a) -> In x (expand_acts g cy a).
Proof. destruct a; simpl; try contradiction; intros H; apply in_or_app; left; exact H. Qed.

Lemma convert_shape a x : In x (convert g a) -> (exists s, x = SaveSt s) \/ (exists s, x = DelSt s).
Proof. destruct a; simpl; try contradiction; intros H; apply in_map_iff in H; destruct H as [s [<- _]]; eauto. Qed.

Lemma convert_fine a x : In x (convert g a) -> clean g cy x /\ incyc cy x = false.
Proof. intros H. destruct (convert_shape _ _ H) as [[s ->]|[s ->]]; split;
  try (apply clean_other; intros; discriminate); [apply shape_SaveSt|apply shape_DelSt]; exact Hshape. Qed.

Lemma eok_keep a b : In (a, b) (edges0 T g) -> In a (actions0 g) -> In b (actions0 g) ->
  clean g cy a -> clean g cy b -> incyc cy a = false -> incyc cy b = false -> edge_ok T g cy a b.
Proof. intros He Ha Hb Ca Cb Ia Ib. split; [|split].
  - eapply FE_intro; [apply all_edges_0, He|apply rw_keep; assumption].
  - apply FI_0; assumption.
  - apply FI_0; assumption. Qed.

Lemma eok_left A b x : In (A, b) (edges0 T g) -> In A (actions0 g) -> In b (actions0 g) ->
  clean g cy A -> clean g cy b -> incyc cy A = true -> incyc cy b = false -> In x (convert g A) -> edge_ok T g cy x b.
Proof. intros He Ha Hb Ca Cb Ia Ib Hx. destruct (convert_fine _ _ Hx) as [Cx Ix]. split; [|split].
  - eapply FE_intro; [apply all_edges_0, He|apply rw_left; assumption].
  - eapply FI_x; [exact Ha|exact Ia|apply convert_in_expand, Hx|exact Cx|exact Ix].
  - apply FI_0; assumption. Qed.

Lemma eok_right a B x : In (a, B) (edges0 T g) -> In a (actions0 g) -> In B (actions0 g) ->
  clean g cy a -> clean g cy B -> incyc cy a = false -> incyc cy B = true -> In x (convert g B) -> edge_ok T g cy a x.
Proof. intros He Ha Hb Ca Cb Ia Ib Hx. destruct (convert_fine _ _ Hx) as [Cx Ix]. split; [|split].
  - eapply FE_intro; [apply all_edges_0, He|apply rw_right; assumption].
  - apply FI_0; assumption.
  - eapply FI_x; [exact Hb|exact Ib|apply convert_in_expand, Hx|exact Cx|exact Ix]. Qed.

(* ---- per-state dependencies *)
Definition states_of (m : N) (isdel : bool) : list N := if isdel then dels_of g m else saves_of g m.

Lemma parent_rec_in d b : In d (g_deps g) -> d_active d = true -> In (parent_rec d b) (actions0 g).
Proof. intros Hd Ha. apply (actions0_dep g d _ Hd Ha). unfold dep_actions0, parent_rec. destruct b; simpl; tauto. Qed.

Lemma state_edge d isdel s ca x y :
  In d (g_deps g) -> d_active d = true -> incyc cy (parent_rec d isdel) = true ->
  In s (states_of (d_parent d) isdel) -> sum_of g (d_id d) s <> [] ->
  In ca (child_actions g cy d s) ->
  In (x, y) (state_edges T (d_kind d) (d_post d) isdel (snd ca)) ->
  In (srole_act d isdel s (fst ca) x, srole_act d isdel s (fst ca) y) (all_edges T g cy).
Proof. intros Hd Ha Hc Hs Hsum Hca Hxy.
  apply (all_edges_x T g cy (parent_rec d isdel)); [apply parent_rec_in; assumption|exact Hc|].
  assert (X : In (srole_act d isdel s (fst ca) x, srole_act d isdel s (fst ca) y) (state_dep_edges T g cy d isdel s)).
  { unfold state_dep_edges. destruct (sum_of g (d_id d) s) eqn:E; [contradiction|]. apply in_flat_map. exists ca. split; [exact Hca|].
    apply in_map_iff. exists (x, y). split; [reflexivity|exact Hxy]. }
  unfold parent_rec, states_of in *. destruct isdel; simpl; apply in_or_app; right; apply in_flat_map; exists d;
    (split; [apply in_deps_of; assumption|]); apply in_flat_map; exists s; (split; [exact Hs|exact X]). Qed.

Lemma state_act d isdel s a :
  In d (g_deps g) -> d_active d = true -> incyc cy (parent_rec d isdel) = true ->
  In s (states_of (d_parent d) isdel) -> sum_of g (d_id d) s <> [] ->
  (a = ProcSt (d_id d) isdel s \/ exists ca, In ca (child_actions g cy d s) /\ fst ca = Some a) ->
  In a (flat_map (expand_acts g cy) (cyc_actions g cy)).
Proof. intros Hd Ha Hc Hs Hsum Hx. apply in_flat_map. exists (parent_rec d isdel). split.
  { unfold cyc_actions. apply filter_In. split; [apply parent_rec_in; assumption|exact Hc]. }
  assert (X : In a (state_dep_acts g cy d isdel s)).
  { unfold state_dep_acts. destruct (sum_of g (d_id d) s) eqn:E; [contradiction|]. destruct Hx as [->|[ca [H1 H2]]]; [left; reflexivity|].
    right. apply in_flat_map. exists ca. split; [exact H1|]. rewrite H2. left. reflexivity. }
  unfold parent_rec, states_of in *. destruct isdel; simpl; apply in_or_app; right; apply in_flat_map; exists d;
    (split; [apply in_deps_of; assumption|]); apply in_flat_map; exists s; (split; [exact Hs|exact X]). Qed.

Lemma FI_any a : In a (actions0 g) \/ In a (flat_map (expand_acts g cy) (cyc_actions g cy)) ->
  clean g cy a -> incyc cy a = false -> In a (final_items g cy).
Proof. intros H C I. unfold final_items. apply filter_In. split; [apply in_or_app; exact H|]. unfold clean in C. rewrite C, I. reflexivity. Qed.

Lemma eok_state a b : In (Some a, Some b) (all_edges T g cy) ->
  In a (final_items g cy) -> In b (final_items g cy) ->
  clean g cy a -> clean g cy b -> incyc cy a = false -> incyc cy b = false -> edge_ok T g cy a b.
Proof. intros He Ha Hb Ca Cb Ia Ib. split; [|split; assumption].
  eapply FE_intro; [exact He|apply rw_keep; assumption]. Qed.

(* the two shapes of the child side *)
Lemma child_cyc d s c : incyc cy (SaveAll (d_child d)) = true -> In c (sum_of g (d_id d) s) ->
  In (child_action g c) (child_actions g cy d s).
Proof. intros H Hc. unfold child_actions. rewrite H. apply in_map, Hc. Qed.
Lemma child_nocyc_save d s : incyc cy (SaveAll (d_child d)) = false ->
  In (Some (SaveAll (d_child d)), false) (child_actions g cy d s).
Proof. intros H. unfold child_actions. rewrite H. left. reflexivity. Qed.
Lemma child_nocyc_del d s : incyc cy (SaveAll (d_child d)) = false ->
  In (Some (DelAll (d_child d)), true) (child_actions g cy d s).
Proof. intros H. unfold child_actions. rewrite H. right. left. reflexivity. Qed.

(* per-state records are final items *)
Lemma SaveSt_FI s : role_of g s = 1 -> incyc cy (SaveAll (map_of g s)) = true -> In (SaveSt s) (final_items g cy).
Proof. intros Hr Hc. eapply FI_x; [apply SaveAll_in_actions0; rewrite Hr; discriminate|exact Hc| | |].
  - simpl. apply in_or_app. left. apply in_map, in_saves_of, Hr.
  - apply clean_other; intros; discriminate.
  - apply shape_SaveSt, Hshape. Qed.
Lemma DelSt_FI s : role_of g s = 2 -> incyc cy (DelAll (map_of g s)) = true -> In (DelSt s) (final_items g cy).
Proof. intros Hr Hc. eapply FI_x; [apply DelAll_in_actions0; rewrite Hr; discriminate|exact Hc| | |].
  - simpl. apply in_or_app. left. apply in_map, in_dels_of, Hr.
  - apply clean_other; intros; discriminate.
  - apply shape_DelSt, Hshape. Qed.
End Edges.
