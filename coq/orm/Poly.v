(* C42 - polymorphic queries return each row as its most specific class.
   Executable model (definitions only; proofs are in PolyTree.v / PolyStore.v / PolyProofs.v).

   What is transcribed (lib/sqlalchemy/orm):
   - mapper.py  Mapper.polymorphic_map (last mapper registered for an identity wins), iterate_to_root / isa /
                self_and_descendants, _mappers_from_spec ("*" | list of classes, closed upwards inside the
                queried subtree), _selectable_from_mappers (LEFT OUTER JOIN of every joined-table mapper of the
                with_polymorphic set on its inherit condition), the persist_selectable of a mapper (INNER JOIN
                of the tables on the path root..class), _single_table_criteria_component (discriminator IN
                identities of self_and_descendants, only for a single-table inheriting mapper),
                _should_selectin_load / _iterate_to_target_viawpoly (without mapper-level with_polymorphic the
                walk yields the class and its parent only)
   - loading.py _instance_processor (columns of the sub-mapper found in the row are populated, the others are
                expired; registration of the per-subclass IN loaders; the _PostLoad object of the path exists
                only once a loader has been registered, and a sub-mapper processor created before that never
                adds its states), _decorate_polymorphic_switch (NULL / unknown / non-sub-mapper discriminator),
                _load_subclass_via_in (loads the columns local to the entity for every state that isa it),
                _load_scalar_attributes (deferred load of an expired column by primary key)
   - context.py _adjust_for_extra_criteria (the single-table criterion of the queried mapper; for a
                with_polymorphic entity the hierarchy root is the base of the with_polymorphic)

   Storage: every class has one own attribute, named by the class index; the column of a class lives in the
   table of its nearest joined-table ancestor-or-self ([owner]); the root table carries the discriminator. *)
From Coq Require Import List ZArith Bool Arith.
Import ListNotations.

(* ---------- class hierarchy: classes are indices into the list; the parent of a class has a smaller index ---------- *)
Record cdef := { cparent : option nat; cident : Z; cjoined : bool }.
Definition hier := list cdef.

Definition parent (h : hier) (i : nat) : option nat :=
  match nth_error h i with Some c => cparent c | None => None end.
Definition joined (h : hier) (i : nat) : bool :=
  match nth_error h i with Some c => cjoined c | None => true end.
Definition ident (h : hier) (i : nat) : option Z :=
  match nth_error h i with Some c => Some (cident c) | None => None end.

Definition memn (x : nat) (l : list nat) : bool := existsb (Nat.eqb x) l.

(* Mapper.iterate_to_root: the class, its parent, ... ([n] is fuel; [S i] suffices because parents are smaller) *)
Fixpoint path_up (h : hier) (n i : nat) : list nat :=
  match n with
  | 0 => []
  | S n' => i :: match parent h i with Some p => path_up h n' p | None => [] end
  end.
Definition up (h : hier) (i : nat) : list nat := path_up h (S i) i.
Definition path (h : hier) (i : nat) : list nat := rev (up h i).      (* root first *)

(* Mapper.isa *)
Definition isa (h : hier) (m c : nat) : bool := memn c (up h m).
(* Mapper.self_and_descendants (as a set; the order is not observable in results) *)
Definition desc (h : hier) (c : nat) : list nat := filter (fun m => isa h m c) (seq 0 (length h)).

(* the table holding the column of class [i]: nearest ancestor-or-self with its own table *)
Fixpoint owner_f (h : hier) (n i : nat) : nat :=
  match n with
  | 0 => i
  | S n' => if joined h i then i else match parent h i with Some p => owner_f h n' p | None => i end
  end.
Definition owner (h : hier) (i : nat) : nat := owner_f h (S i) i.

(* Mapper.polymorphic_map[d]: a later mapper with the same identity replaces an earlier one *)
Definition ident_is (h : hier) (d : Z) (i : nat) : bool :=
  match ident h i with Some x => Z.eqb x d | None => false end.
Definition pmap (h : hier) (d : Z) : option nat := find (ident_is h d) (rev (seq 0 (length h))).

Fixpoint nodupZ (l : list Z) : bool :=
  match l with [] => true | x :: r => negb (existsb (Z.eqb x) r) && nodupZ r end.
Definition parents_ok (h : hier) : bool :=
  forallb (fun i => match parent h i with Some p => Nat.ltb p i | None => Nat.eqb i 0 end) (seq 0 (length h)).
(* well-formed hierarchy: class 0 is the root and has a table, parents come first, identities are distinct *)
Definition wf_hierb (h : hier) : bool :=
  negb (Nat.eqb (length h) 0) && joined h 0 && parents_ok h && nodupZ (map cident h).

(* ---------- database: one table per joined-table class ---------- *)
Record row := { rpk : Z; rdisc : option Z; rvals : list (nat * option Z) }.
Definition db := list (nat * list row).

Definition tbl (d : db) (t : nat) : list row :=
  match find (fun p => Nat.eqb (fst p) t) d with Some p => snd p | None => [] end.
Definition find_row (rows : list row) (pk : Z) : option row := find (fun r => Z.eqb (rpk r) pk) rows.
Definition assoc_v (l : list (nat * option Z)) (a : nat) : option Z :=
  match find (fun p => Nat.eqb (fst p) a) l with Some p => snd p | None => None end.
Definition has_row (d : db) (t : nat) (pk : Z) : bool :=
  match find_row (tbl d t) pk with Some _ => true | None => false end.
(* SELECT a FROM t WHERE id = pk *)
Definition db_get (d : db) (t : nat) (pk : Z) (a : nat) : option Z :=
  match find_row (tbl d t) pk with Some r => assoc_v (rvals r) a | None => None end.

(* ---------- the query: class + polymorphic loading options ---------- *)
Inductive wpspec := WpNone | WpStar | WpList (l : list nat).
Record popt := { o_wp : wpspec; o_sel : list nat }.

(* Mapper._mappers_from_spec *)
Definition wp_mappers (h : hier) (C : nat) (s : wpspec) : list nat :=
  match s with
  | WpNone => []
  | WpStar => desc h C
  | WpList l => filter (fun m => existsb (fun x => isa h x m) l) (desc h C)
  end.

(* tables in the FROM clause: INNER JOIN along root..C, LEFT OUTER JOIN for the joined-table mappers of W *)
Definition inner_tabs (h : hier) (C : nat) : list nat := map (owner h) (path h C).
Definition in_from (h : hier) (C : nat) (W : list nat) (t : nat) : bool :=
  memn t (inner_tabs h C) || (memn t W && joined h t).

(* the columns of table [t] are non-NULL in the joined row for [pk]: t is in the FROM clause, has a row with
   this key, and so does the table its ON clause refers to (t.id = parent_table.id), up to the root table *)
Fixpoint present (h : hier) (d : db) (inF : nat -> bool) (pk : Z) (n t : nat) : bool :=
  match n with
  | 0 => false
  | S n' => inF t && has_row d t pk &&
            match parent h t with Some p => present h d inF pk n' (owner h p) | None => true end
  end.
Definition present_t (h : hier) (d : db) (C : nat) (W : list nat) (pk : Z) (t : nat) : bool :=
  present h d (in_from h C W) pk (S t) t.

(* attribute columns in the SELECT list: those of C (with inherited ones) and of every mapper of W *)
Definition selected (h : hier) (C : nat) (W : list nat) (a : nat) : bool :=
  isa h C a || existsb (fun m => isa h m a) W.

(* single-table criterion  discriminator IN (identities of the subtree); NULL IN (...) is not true *)
Definition crit_ok (h : hier) (C : nat) (disc : option Z) : bool :=
  if negb (joined h C) && match parent h C with Some _ => true | None => false end
  then match disc with Some dv => existsb (ident_is h dv) (desc h C) | None => false end
  else true.

Fixpoint insert_row (r : row) (l : list row) : list row :=
  match l with [] => [r] | x :: l' => if Z.leb (rpk r) (rpk x) then r :: l else x :: insert_row r l' end.
Definition sort_rows (l : list row) : list row := fold_right insert_row [] l.   (* ORDER BY id *)

(* the rows of the SQL result, identified by their root-table row *)
Definition row_ok (h : hier) (d : db) (C : nat) (W : list nat) (r : row) : bool :=
  forallb (present_t h d C W (rpk r)) (inner_tabs h C) && crit_ok h C (rdisc r).
Definition select_rows (h : hier) (d : db) (C : nat) (W : list nat) : list row :=
  filter (row_ok h d C W) (sort_rows (tbl d 0)).

(* ---------- row -> instance ---------- *)
Inductive err := EInvalidRequest | EAssertion.
Inductive res (A : Type) := Ok (a : A) | Raise (e : err).
Arguments Ok {A} a.  Arguments Raise {A} e.

(* loading._decorate_polymorphic_switch.polymorphic_instance *)
Definition classify1 (h : hier) (C : nat) (r : row) : res nat :=
  match rdisc r with
  | None => Raise EInvalidRequest                       (* discriminator column is NULL *)
  | Some dv =>
    match pmap h dv with
    | None => Raise EAssertion                          (* No such polymorphic_identity *)
    | Some K => if Nat.eqb K C then Ok K
                else if isa h K C then Ok K
                else Raise EInvalidRequest              (* not a sub-mapper of the requested mapper *)
    end
  end.
Fixpoint classify (h : hier) (C : nat) (rows : list row) : res (list (row * nat)) :=
  match rows with
  | [] => Ok []
  | r :: rest =>
    match classify1 h C r with
    | Raise e => Raise e
    | Ok K => match classify h C rest with Raise e => Raise e | Ok l => Ok ((r, K) :: l) end
    end
  end.

(* ---------- selectin_polymorphic: which IN loaders get registered, which states they see ---------- *)
(* Mapper._should_selectin_load with option entities [sel] *)
Definition via (h : hier) (sel : list nat) (K : nat) : option nat :=
  if memn K sel then Some K
  else match parent h K with Some p => if memn p sel then Some p else None | None => None end.
(* _load_supers: from the entity up to, excluding, the polymorphic_from mapper *)
Fixpoint supers (h : hier) (n m C : nat) : list nat :=
  match n with
  | 0 => []
  | S n' => if Nat.eqb m C then [] else m :: match parent h m with Some p => supers h n' p C | None => [] end
  end.
Definition add_all (xs l : list nat) : list nat :=
  fold_left (fun acc x => if memn x acc then acc else acc ++ [x]) xs l.
Definition assoc_b (l : list (nat * bool)) (k : nat) : option bool :=
  match find (fun p => Nat.eqb (fst p) k) l with Some p => Some (snd p) | None => None end.
Definition is_nil (l : list nat) : bool := match l with [] => true | _ => false end.

(* state: sub-mapper processors created so far (with: did a _PostLoad exist for the path when it was created),
   loaders registered so far.  Returns whether the state of this row is added to the _PostLoad. *)
Definition plan_state := (list (nat * bool) * list nat)%type.
Definition plan_step (h : hier) (C : nat) (sel : list nat) (st : plan_state) (K : nat) : plan_state * bool :=
  let '(procs, loaders) := st in
  if Nat.eqb K C then (st, false)
  else match assoc_b procs K with
       | Some f => (st, f)
       | None =>
         let loaders' := match via h sel K with
                         | Some v => add_all (supers h (S v) v C) loaders
                         | None => loaders
                         end in
         let f := negb (is_nil loaders') in
         ((procs ++ [(K, f)], loaders'), f)
       end.
Fixpoint plan (h : hier) (C : nat) (sel : list nat) (st : plan_state) (ks : list nat) : list bool * list nat :=
  match ks with
  | [] => ([], snd st)
  | K :: rest =>
    let '(st', f) := plan_step h C sel st K in
    let '(fs, ld) := plan h C sel st' rest in (f :: fs, ld)
  end.

(* ---------- the loaded objects ---------- *)
Record obj := { o_pk : Z; o_cls : nat; o_loaded : list nat; o_vals : list (nat * option Z) }.

(* value found in the main row for a selected column / loaded later by primary key (IN load or deferred load) *)
Definition attr_value (h : hier) (d : db) (C : nat) (W : list nat) (pk : Z) (a : nat) : option Z :=
  if selected h C W a
  then (if present_t h d C W pk (owner h a) then db_get d (owner h a) pk a else None)
  else db_get d (owner h a) pk a.

Definition mk_obj (h : hier) (d : db) (C : nat) (W loaders : list nat) (rk : row * nat) (added : bool) : obj :=
  let '(r, K) := rk in
  {| o_pk := rpk r; o_cls := K;
     o_loaded := filter (fun a => selected h C W a || (added && memn a loaders)) (path h K);
     o_vals := map (fun a => (a, attr_value h d C W (rpk r) a)) (path h K) |}.

Fixpoint zip_objs (h : hier) (d : db) (C : nat) (W loaders : list nat) (rks : list (row * nat)) (fs : list bool)
  : list obj :=
  match rks, fs with
  | rk :: rks', f :: fs' => mk_obj h d C W loaders rk f :: zip_objs h d C W loaders rks' fs'
  | rk :: rks', [] => mk_obj h d C W loaders rk false :: zip_objs h d C W loaders rks' []
  | [], _ => []
  end.

(* session.scalars(select(ent).options(selectin_polymorphic(C, sel)).order_by(ent.id)).all(), followed by
   reading every attribute of every object *)
Definition exec (h : hier) (d : db) (C : nat) (o : popt) : res (list obj) :=
  let W := wp_mappers h C (o_wp o) in
  match classify h C (select_rows h d C W) with
  | Raise e => Raise e
  | Ok rks =>
    let '(fs, loaders) := plan h C (o_sel o) ([], []) (map snd rks) in
    Ok (zip_objs h d C W loaders rks fs)
  end.

(* ---------- spec side: a data set is a list of objects; [store] writes them to the tables ---------- *)
Record sobj := { s_pk : Z; s_cls : nat; s_val : nat -> option Z }.

Definition mkrow (h : hier) (t : nat) (o : sobj) : row :=
  {| rpk := s_pk o;
     rdisc := if Nat.eqb t 0 then ident h (s_cls o) else None;
     rvals := map (fun a => (a, s_val o a)) (filter (fun a => Nat.eqb (owner h a) t) (path h (s_cls o))) |}.
Definition store (h : hier) (objs : list sobj) : db :=
  map (fun t => (t, map (mkrow h t) (filter (fun o => isa h (s_cls o) t) objs)))
      (filter (joined h) (seq 0 (length h))).
