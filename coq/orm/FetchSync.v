(* C43 - synchronize_session='fetch': which session objects are synchronised.  Definitions only.

   CODE SIDE (lib/sqlalchemy/orm/bulk_persistence.py):
     create_for_statement: the UPDATE / DELETE gets RETURNING *table.primary_key          -> [returning_row]
     _BulkUDCompileState._interpret_returning_rows (result._tuple_getter(cols))            -> [interpret_returning_rows]
     _do_pre_synchronize_fetch without RETURNING: SELECT *mapper.primary_key WHERE crit    -> [preselect_rows]
     _do_post_synchronize_fetch: mapper.identity_key_from_primary_key(row) looked up in
       session.identity_map, then _apply_update_set_values_to_objects / _remove_newly_deleted
                                                                                           -> [fetch_update_obj], [fetch_delete_obj]
   SPEC SIDE: [identity_of] (mapper.primary_key order), [selected], [update_row] of Evaluator.v. *)
From Coq Require Import List ZArith NArith Bool.
Import ListNotations.
From SAV.sql Require Import Val3 InList.
From SAV.orm Require Import Evaluator.

Record mapping := {
  tpk : list nat;        (* mapper.local_table.primary_key: the table's PRIMARY KEY constraint order *)
  mpk : list nat;        (* mapper.primary_key: the order of the identity key *)
  sub_table : bool       (* mapper.local_table is not mapper.base_mapper.local_table (joined inheritance) *)
}.

(* one row of the RETURNING result: the requested columns, addressable by column *)
Definition returning_row (m : mapping) (r : row) : list (nat * sv) := map (fun c => (c, r c)) m.(tpk).

Definition rr_lookup (c : nat) (rr : list (nat * sv)) : option sv :=
  match find (fun cv => Nat.eqb (fst cv) c) rr with Some cv => Some (snd cv) | None => None end.
Fixpoint opt_all {A} (l : list (option A)) : option (list A) :=
  match l with
  | [] => Some []
  | Some a :: r => option_map (cons a) (opt_all r)
  | None :: _ => None
  end.
(* result._tuple_getter(cols) applied to a row; None = KeyError *)
Definition tuple_getter (cols : list nat) (rr : list (nat * sv)) : option (list sv) :=
  opt_all (map (fun c => rr_lookup c rr) cols).

(* _interpret_returning_rows: "rows that indicate PK cols in mapper.primary_key position" *)
Definition interpret_returning_rows (m : mapping) (rows : list (list (nat * sv))) : list (list sv) :=
  let cols := if m.(sub_table) then m.(tpk) else m.(mpk) in
  match opt_all (map (tuple_getter cols) rows) with
  | Some keys => keys
  | None => []                     (* except KeyError: return [] *)
  end.

(* the identity key of the object loaded from a row: mapper.primary_key order *)
Definition identity_of (m : mapping) (r : row) : list sv := map r m.(mpk).

(* the primary keys 'fetch' learns from the database *)
Definition fetch_keys (m : mapping) (use_returning : bool) (crit : ex) (db : list row) : list (list sv) :=
  let hit := filter (selected crit) db in
  if use_returning then interpret_returning_rows m (map (returning_row m) hit)
  else map (identity_of m) hit.    (* SELECT mapper.primary_key .. WHERE crit, before the statement *)

Fixpoint svl_eqb (a b : list sv) : bool :=
  match a, b with
  | [], [] => true
  | x :: a', y :: b' => sv_eqb x y && svl_eqb a' b'
  | _, _ => false
  end.
(* identity_key in session.identity_map, for the object loaded from row r *)
Definition in_keys (m : mapping) (keys : list (list sv)) (r : row) : bool :=
  existsb (svl_eqb (identity_of m r)) keys.

Definition fetch_update_obj (sc : schema) (m : mapping) (keys : list (list sv)) (sets : list (nat * ex)) (r : row) : ores :=
  if in_keys m keys r then apply_sets sc sets (obj_of r) else OOk (obj_of r).
Definition fetch_delete_obj (m : mapping) (keys : list (list sv)) (r : row) : dres :=
  if in_keys m keys r then DRemoved else DKeep (obj_of r).
