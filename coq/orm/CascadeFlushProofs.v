(* C39 - what a flush deletes: marked objects, orphans of delete-orphan relationships and what their delete
   cascades reach - for every order in which the unit of work runs its dependency processors. *)
From Coq Require Import List Bool Arith Lia.
From SAV.orm Require Import Cascade CascadeIterProofs CascadeOpsProofs.
Import ListNotations.

(* ---------- register ---------- *)
Lemma reg_register : forall s u x b c y,
  reg (register s u (x, b, c)) y =
  if Nat.eqb y x && in_session s x then
    match reg u x with None => Some b | Some old => if b || c then Some b else Some old end
  else reg u y.
Proof.
  intros s u x b c y. unfold register. destruct (in_session s x) eqn:I; cbn [negb].
  - destruct (reg u x) eqn:R.
    + destruct (b || c) eqn:BC; cbn [reg]; unfold upd; destruct (Nat.eqb y x) eqn:E; cbn [andb]; auto.
      apply Nat.eqb_eq in E. subst. exact R.
    + cbn [reg]. unfold upd. destruct (Nat.eqb y x); reflexivity.
  - rewrite andb_false_r. reflexivity.
Qed.

Lemma register_in_session : forall s u rq y,
  (forall z, reg u z <> None -> in_session s z = true) ->
  reg (register s u rq) y <> None -> in_session s y = true.
Proof.
  intros s u [[x b] c] y H. rewrite reg_register. destruct (Nat.eqb y x && in_session s x) eqn:E.
  - intros _. apply andb_true_iff in E. destruct E as [E1 E2]. apply Nat.eqb_eq in E1. subst. exact E2.
  - apply H.
Qed.

(* ---------- invariants of the presort loop, for every processor order ---------- *)
Section Presort.
Variable cfg : config.
Variable s : state.
Variable P : uow -> Prop.
Hypothesis P_done : forall u d, P u -> P (mkUow (reg u) (order u) d).
Hypothesis P_reg : forall u pr b o rq, P u -> In rq (reqs cfg s pr b o) -> P (register s u rq).

Lemma fold_register_inv : forall rqs u,
  (forall rq, In rq rqs -> exists pr b o, In rq (reqs cfg s pr b o)) -> P u -> P (fold_left (register s) rqs u).
Proof.
  induction rqs as [|rq rqs IH]; intros u H Hu; cbn [fold_left]; auto.
  apply IH; [intros r Hr; apply H; right; exact Hr|].
  destruct (H rq (or_introl eq_refl)) as [pr [b [o Hin]]]. eapply P_reg; eauto.
Qed.

Lemma batch_inv : forall ub pr, P (fst ub) -> P (fst (batch cfg s ub pr)).
Proof.
  intros [u ch] pr Hu. cbn [fst] in Hu. unfold batch. cbn [fst].
  apply fold_register_inv; [|apply P_done; exact Hu].
  intros rq Hrq. apply in_app_iff in Hrq. destruct Hrq as [Hrq|Hrq]; apply in_flat_map in Hrq;
    destruct Hrq as [o [_ Ho]]; eauto.
Qed.

Lemma procs_inv : forall procs ub, P (fst ub) -> P (fst (fold_left (batch cfg s) procs ub)).
Proof.
  induction procs as [|pr procs IH]; intros ub H; cbn [fold_left]; auto. apply IH, batch_inv, H.
Qed.

Lemma presort_inv : forall procs fuel u u', P u -> presort cfg s procs fuel u = Some u' -> P u'.
Proof.
  intros procs. induction fuel as [|f IH]; intros u u' Hu H; cbn [presort] in H; [discriminate|].
  pose proof (procs_inv procs (u, false) Hu) as Hp.
  destruct (fold_left (batch cfg s) procs (u, false)) as [u1 ch]. cbn [fst] in Hp.
  destruct ch; [eapply IH; eauto|]. inversion H. subst. exact Hp.
Qed.
End Presort.

(* ---------- the shape of the requests ---------- *)
(* a delete is cancelled only for a child that was added to the collection of a parent that is being saved *)
Lemma reqs_cancel_shape : forall cfg s pr b o x isdel,
  In (x, isdel, true) (reqs cfg s pr b o) ->
  exists ri, pr = F ri /\ b = false /\ isdel = false /\ In x (h_added (hist_coll s o ri)).
Proof.
  intros cfg s pr b o x isdel H. destruct pr as [ri|ri]; unfold reqs in H.
  - destruct b.
    + apply in_app_iff in H. destruct H as [H|H].
      * apply in_map_iff in H. destruct H as [c [E _]]. inversion E.
      * destruct (c_dl (fwd (getrel cfg ri))); [destruct H|]. apply in_map_iff in H. destruct H as [c [E _]]. inversion E.
    + apply in_app_iff in H. destruct H as [H|H].
      * apply in_map_iff in H. destruct H as [c [E Hc]]. inversion E. subst. exists ri. auto.
      * apply in_flat_map in H. destruct H as [c [_ H]].
        destruct (negb (c_do (fwd (getrel cfg ri)))); [destruct H as [E|[]]; inversion E|].
        destruct (hp_false s c ri); [|destruct H]. unfold with_delete_cascade in H.
        destruct H as [E|H]; [inversion E|]. apply in_map_iff in H. destruct H as [g [E _]]. inversion E.
  - destruct b.
    + destruct (c_dl (bk (getrel cfg ri))); [|destruct H]. apply in_flat_map in H. destruct H as [y [_ H]].
      destruct y as [y|]; [|destruct H]. unfold with_delete_cascade in H.
      destruct H as [E|H]; [inversion E|]. apply in_map_iff in H. destruct H as [g [E _]]. inversion E.
    + destruct H as [E|[]]. inversion E.
Qed.

(* roots of flush-time deletions: orphans of delete-orphan collections and targets of many-to-one delete cascades *)
Definition orphan_of (cfg : config) (s : state) (x : nat) : Prop :=
  exists ri p, c_do (fwd (getrel cfg ri)) = true /\ In x (h_del (hist_coll s p ri)) /\ hp_false s x ri = true.
Definition m2o_target (cfg : config) (s : state) (y : nat) : Prop :=
  exists ri c, c_dl (bk (getrel cfg ri)) = true /\
               In (Some y) (fst (fst (hist_scalar s c ri)) ++ snd (fst (hist_scalar s c ri))).
Definition del_root (cfg : config) (s : state) (y : nat) : Prop := orphan_of cfg s y \/ m2o_target cfg s y.
Definition cascaded_delete (cfg : config) (s : state) (x : nat) : Prop :=
  exists y, del_root cfg s y /\ (x = y \/ creach cfg s TDL no_halt y x).

Lemma with_delete_cascade_shape : forall cfg s y x b c,
  In (x, b, c) (with_delete_cascade cfg s y) -> b = true /\ c = false /\ (x = y \/ creach cfg s TDL no_halt y x).
Proof.
  intros cfg s y x b c H. unfold with_delete_cascade in H. destruct H as [E|H].
  - inversion E. auto.
  - apply in_map_iff in H. destruct H as [g [E Hg]]. inversion E. subst.
    split; [reflexivity|]. split; [reflexivity|]. right. apply cascade_iter_reach. exact Hg.
Qed.

Lemma reqs_delete_shape : forall cfg s pr b o x c,
  In (x, true, c) (reqs cfg s pr b o) -> cascaded_delete cfg s x.
Proof.
  intros cfg s pr b o x c H. destruct pr as [ri|ri]; unfold reqs in H.
  - destruct b.
    + apply in_app_iff in H. destruct H as [H|H].
      * apply in_map_iff in H. destruct H as [y [E Hy]]. inversion E. subst.
        apply filter_In in Hy. destruct Hy as [Hy1 Hy2].
        exists x. split; [|left; reflexivity]. left. exists ri, o. auto.
      * destruct (c_dl (fwd (getrel cfg ri))); [destruct H|]. apply in_map_iff in H. destruct H as [y [E _]]. inversion E.
    + apply in_app_iff in H. destruct H as [H|H].
      * apply in_map_iff in H. destruct H as [y [E _]]. inversion E.
      * apply in_flat_map in H. destruct H as [y [Hy H]].
        destruct (c_do (fwd (getrel cfg ri))) eqn:D; cbn [negb] in H; [|destruct H as [E|[]]; inversion E].
        destruct (hp_false s y ri) eqn:Hp; [|destruct H].
        apply with_delete_cascade_shape in H. destruct H as [_ [_ H]].
        exists y. split; [|exact H]. left. exists ri, o. auto.
  - destruct b.
    + destruct (c_dl (bk (getrel cfg ri))) eqn:D; [|destruct H]. apply in_flat_map in H. destruct H as [y [Hy H]].
      destruct y as [y|]; [|destruct H]. apply with_delete_cascade_shape in H. destruct H as [_ [_ H]].
      exists y. split; [|exact H]. right. exists ri, o. auto.
    + destruct H as [E|[]]. inversion E.
Qed.

(* ---------- the top-level loop of Session._flush ---------- *)
Lemma objs_nodup : forall cfg, NoDup (objs cfg).
Proof. intros. apply seq_NoDup. Qed.
Lemma top_proc_nodup : forall cfg s, NoDup (top_proc cfg s).
Proof. intros. apply NoDup_filter, objs_nodup. Qed.

Lemma fold_top_expunge : forall cfg s l a x,
  st (fold_left (fun a o => if top_expunge cfg s o then expunge1 a o else a) l a) x =
  if mem x l && top_expunge cfg s x then expunged (st a x) else st a x.
Proof.
  intros cfg s. induction l as [|c l IH]; intros a x; cbn [fold_left]; [reflexivity|].
  rewrite IH. unfold mem. cbn [existsb]. destruct (top_expunge cfg s c) eqn:T.
  - rewrite st_expunge1. destruct (Nat.eqb x c) eqn:E; cbn [orb].
    + apply Nat.eqb_eq in E. subst. rewrite T, andb_true_r.
      destruct (existsb (Nat.eqb c) l); [apply expunged_idem|reflexivity].
    + reflexivity.
  - destruct (Nat.eqb x c) eqn:E; cbn [orb]; [|reflexivity].
    apply Nat.eqb_eq in E. subst. rewrite T, !andb_false_r. reflexivity.
Qed.

Lemma fold_top_register : forall cfg s s1 l u x, NoDup l -> (forall o, In o l -> reg u o = None) ->
  reg (fold_left (top_register cfg s s1) l u) x =
  if mem x l && negb (top_expunge cfg s x) && in_session s1 x
  then Some (is_orphan cfg s x && has_key s x) else reg u x.
Proof.
  intros cfg s s1. induction l as [|c l IH]; intros u x Hnd Hnone; cbn [fold_left]; [reflexivity|].
  inversion Hnd as [|? ? Hc Hnd']; subst.
  assert (Hnone' : forall o, In o l -> reg (top_register cfg s s1 u c) o = None).
  { intros o Ho. unfold top_register. destruct (top_expunge cfg s c); [apply Hnone; right; exact Ho|].
    rewrite reg_register. destruct (Nat.eqb o c) eqn:E; [apply Nat.eqb_eq in E; subst; contradiction|].
    apply Hnone. right. exact Ho. }
  rewrite (IH _ x Hnd' Hnone'). unfold mem. cbn [existsb].
  destruct (Nat.eqb x c) eqn:E; cbn [orb andb].
  - apply Nat.eqb_eq in E. subst.
    assert (existsb (Nat.eqb c) l = false) as ->.
    { apply mem_false_notIn. exact Hc. }
    cbn [andb]. unfold top_register. destruct (top_expunge cfg s c); cbn [negb andb]; [reflexivity|].
    rewrite reg_register, Nat.eqb_refl. cbn [andb]. rewrite (Hnone c (or_introl eq_refl)).
    destruct (in_session s1 c); reflexivity.
  - destruct (existsb (Nat.eqb x) l && negb (top_expunge cfg s x) && in_session s1 x); [reflexivity|].
    unfold top_register. destruct (top_expunge cfg s c); [reflexivity|]. rewrite reg_register, E. reflexivity.
Qed.

Lemma fold_top_marked : forall s1 l u x, NoDup l ->
  reg (fold_left (top_marked s1) l u) x =
  if mem x l && marked s1 x && in_session s1 x
  then match reg u x with None => Some true | Some b => Some b end else reg u x.
Proof.
  intros s1. induction l as [|c l IH]; intros u x Hnd; cbn [fold_left]; [reflexivity|].
  inversion Hnd as [|? ? Hc Hnd']; subst. rewrite (IH _ x Hnd'). unfold mem. cbn [existsb].
  assert (Hother : forall y, y <> c -> reg (top_marked s1 u c) y = reg u y).
  { intros y Hy. unfold top_marked. destruct (marked s1 c && in_session s1 c); [|reflexivity].
    destruct (reg u c); [reflexivity|]. rewrite reg_register.
    destruct (Nat.eqb y c) eqn:E; [apply Nat.eqb_eq in E; contradiction|reflexivity]. }
  destruct (Nat.eqb x c) eqn:E; cbn [orb andb].
  - apply Nat.eqb_eq in E. subst.
    assert (existsb (Nat.eqb c) l = false) as -> by (apply mem_false_notIn; exact Hc). cbn [andb].
    unfold top_marked. destruct (marked s1 c && in_session s1 c) eqn:M; [|reflexivity].
    destruct (reg u c) eqn:R; [rewrite R; reflexivity|].
    rewrite reg_register, Nat.eqb_refl, R. apply andb_true_iff in M. destruct M as [_ M]. rewrite M. reflexivity.
  - apply Nat.eqb_neq in E. rewrite (Hother x E). reflexivity.
Qed.

(* closed form of the registrations made by the top-level loops *)
Lemma flush_top_reg : forall cfg s x,
  let s1 := fst (flush_top cfg s) in let u0 := snd (flush_top cfg s) in
  reg u0 x =
  let r1 := if mem x (top_proc cfg s) && negb (top_expunge cfg s x) && in_session s1 x
            then Some (is_orphan cfg s x && has_key s x) else None in
  if mem x (objs cfg) && marked s1 x && in_session s1 x
  then match r1 with None => Some true | Some b => Some b end else r1.
Proof.
  intros cfg s x. unfold flush_top. cbn [fst snd]. cbv zeta.
  rewrite fold_top_marked by apply objs_nodup.
  rewrite fold_top_register; [reflexivity|apply top_proc_nodup|reflexivity].
Qed.

Lemma flush_top_st : forall cfg s x,
  st (fst (flush_top cfg s)) x =
  if mem x (top_proc cfg s) && top_expunge cfg s x then expunged (st s x) else st s x.
Proof. intros. unfold flush_top. cbn [fst]. apply fold_top_expunge. Qed.

Lemma flush_top_attrs : forall cfg s,
  let s1 := fst (flush_top cfg s) in
  (forall a b, coll s1 a b = coll s a b) /\ (forall a b, ccomm s1 a b = ccomm s a b) /\
  (forall a b, par s1 a b = par s a b) /\ (forall a b, pcomm s1 a b = pcomm s a b) /\
  (forall a b, hp s1 a b = hp s a b) /\ poison s1 = poison s.
Proof.
  intros cfg s. unfold flush_top. cbn [fst]. cbv zeta.
  generalize (top_proc cfg s). intros l. revert s.
  assert (G : forall (f : nat -> bool) l a,
            let r := fold_left (fun a o => if f o then expunge1 a o else a) l a in
            (forall x y, coll r x y = coll a x y) /\ (forall x y, ccomm r x y = ccomm a x y) /\
            (forall x y, par r x y = par a x y) /\ (forall x y, pcomm r x y = pcomm a x y) /\
            (forall x y, hp r x y = hp a x y) /\ poison r = poison a).
  { intros f. induction l0 as [|c l0 IH]; intros a; cbn [fold_left]; [repeat split; reflexivity|].
    specialize (IH (if f c then expunge1 a c else a)). cbv zeta in IH. destruct IH as [I1 [I2 [I3 [I4 [I5 I6]]]]].
    assert (E : forall b : state, (forall x y, coll (expunge1 b c) x y = coll b x y) /\
                 (forall x y, ccomm (expunge1 b c) x y = ccomm b x y) /\ (forall x y, par (expunge1 b c) x y = par b x y) /\
                 (forall x y, pcomm (expunge1 b c) x y = pcomm b x y) /\ (forall x y, hp (expunge1 b c) x y = hp b x y) /\
                 poison (expunge1 b c) = poison b).
    { intros b. unfold expunge1. destruct (st b c); repeat split; reflexivity. }
    destruct (f c); [destruct (E a) as [E1 [E2 [E3 [E4 [E5 E6]]]]]|]; repeat split; intros;
      rewrite ?I1, ?I2, ?I3, ?I4, ?I5, ?I6; auto. }
  intros s. apply (G (top_expunge cfg s) l s).
Qed.

(* ---------- bookkeeping of the unit of work ---------- *)
Definition uow_wf (s : state) (u : uow) : Prop :=
  NoDup (order u) /\ (forall x, In x (order u) <-> reg u x <> None) /\ (forall x, reg u x <> None -> in_session s x = true).

Lemma uow_wf0 : forall s, uow_wf s uow0.
Proof.
  intros s. split; [constructor|]. split.
  - intros x. split; [intros []|]. intros H. exfalso. apply H. reflexivity.
  - intros x H. exfalso. apply H. reflexivity.
Qed.

Lemma uow_wf_register : forall s u rq, uow_wf s u -> uow_wf s (register s u rq).
Proof.
  intros s u [[x b] c] [W1 [W2 W3]].
  split; [|split].
  - unfold register. destruct (in_session s x); cbn [negb]; [|exact W1].
    destruct (reg u x) eqn:R.
    + destruct (b || c); exact W1.
    + cbn [order]. apply NoDup_app_snoc; [exact W1|]. intros H. apply W2 in H. contradiction.
  - intros y. rewrite reg_register. unfold register. destruct (in_session s x) eqn:I; cbn [negb].
    + destruct (reg u x) eqn:R.
      * destruct (Nat.eqb y x) eqn:E; cbn [andb].
        { apply Nat.eqb_eq in E. subst. destruct (b || c); cbn [order]; rewrite W2, R;
            split; intros _; discriminate. }
        { destruct (b || c); cbn [order]; apply W2. }
      * cbn [order]. rewrite in_app_iff, W2. destruct (Nat.eqb y x) eqn:E; cbn [andb].
        { apply Nat.eqb_eq in E. subst. split; [discriminate|]. intros _. right. left. reflexivity. }
        { apply Nat.eqb_neq in E. split; [intros [H|[H|[]]]; [exact H|congruence]|tauto]. }
    + rewrite andb_false_r. apply W2.
  - intros y. apply register_in_session. exact W3.
Qed.

Lemma uow_wf_done : forall s u d, uow_wf s u -> uow_wf s (mkUow (reg u) (order u) d).
Proof. intros s u d W. exact W. Qed.

Lemma uow_wf_top : forall cfg s, uow_wf (fst (flush_top cfg s)) (snd (flush_top cfg s)).
Proof.
  intros cfg s. unfold flush_top. cbn [fst snd]. cbv zeta.
  set (s1 := fold_left (fun a o => if top_expunge cfg s o then expunge1 a o else a) (top_proc cfg s) s).
  assert (A : forall l u, uow_wf s1 u -> uow_wf s1 (fold_left (top_register cfg s s1) l u)).
  { induction l as [|c l IH]; intros u W; cbn [fold_left]; auto. apply IH. unfold top_register.
    destruct (top_expunge cfg s c); [exact W|apply uow_wf_register; exact W]. }
  assert (B : forall l u, uow_wf s1 u -> uow_wf s1 (fold_left (top_marked s1) l u)).
  { induction l as [|c l IH]; intros u W; cbn [fold_left]; auto. apply IH. unfold top_marked.
    destruct (marked s1 c && in_session s1 c); [|exact W].
    destruct (reg u c); [exact W|apply uow_wf_register; exact W]. }
  apply B, A, uow_wf0.
Qed.

Lemma uow_wf_presort : forall cfg s procs fuel u u',
  uow_wf s u -> presort cfg s procs fuel u = Some u' -> uow_wf s u'.
Proof.
  intros cfg s procs fuel u u'. apply (presort_inv cfg s (uow_wf s)).
  - intros; apply uow_wf_done; assumption.
  - intros; apply uow_wf_register; assumption.
Qed.

(* ---------- synchronisation and finalisation do not move objects between states ---------- *)
Definition same_core (a b : state) : Prop :=
  st a = st b /\ rowp a = rowp b /\ marked a = marked b /\ poison a = poison b /\ rowfk a = rowfk b.

Lemma same_core_refl : forall a, same_core a a.
Proof. intros. repeat split. Qed.
Lemma same_core_trans : forall a b c, same_core a b -> same_core b c -> same_core a c.
Proof. intros a b c [A1 [A2 [A3 [A4 A5]]]] [B1 [B2 [B3 [B4 B5]]]]. repeat split; congruence. Qed.
Lemma fold_same_core : forall A (f : state -> A -> state) l a,
  (forall a x, same_core (f a x) a) -> same_core (fold_left f l a) a.
Proof.
  intros A f. induction l as [|x l IH]; intros a H; cbn [fold_left]; [apply same_core_refl|].
  eapply same_core_trans; [apply IH; exact H|apply H].
Qed.
Lemma same_core_set_fk : forall s c ri v, same_core (set_fk s c ri v) s.
Proof. intros. repeat split. Qed.
Lemma same_core_sfud : forall u s c ri v, same_core (set_fk_unless_deleted u s c ri v) s.
Proof. intros. unfold set_fk_unless_deleted. destruct (is_del u c); [apply same_core_refl|apply same_core_set_fk]. Qed.

Lemma same_core_sync_rel : forall cfg u s ir, same_core (sync_rel cfg u s ir) s.
Proof.
  intros cfg u s [ri r]. unfold sync_rel.
  set (added := flat_map _ (order u)).
  match goal with |- same_core (if _ then fold_left ?g _ ?s1 else ?s1') _ =>
    assert (H1 : same_core s1 s) end.
  { apply fold_same_core. intros a p. destruct (negb (Nat.eqb (cls cfg p) (rp r))); [apply same_core_refl|].
    destruct (negb (is_del u p)).
    - eapply same_core_trans; [apply fold_same_core|apply fold_same_core].
      + intros b c. destruct (negb (c_do (fwd r)) && hp_false b c ri); [apply same_core_sfud|apply same_core_refl].
      + intros b c. apply same_core_sfud.
    - destruct (c_dl (fwd r)).
      + apply fold_same_core. intros b c. destruct (hp_false b c ri); [apply same_core_sfud|apply same_core_refl].
      + eapply same_core_trans; [apply fold_same_core|apply fold_same_core].
        * intros b c. destruct (mem c added); [apply same_core_refl|apply same_core_sfud].
        * intros b c. destruct (hp_false b c ri); [apply same_core_sfud|apply same_core_refl]. }
  destruct (hasback r); [|exact H1].
  eapply same_core_trans; [|exact H1]. apply fold_same_core. intros a c.
  destruct (negb (Nat.eqb (cls cfg c) (rc r)) || is_del u c); [apply same_core_refl|].
  destruct (fst (fst (hist_scalar a c ri))) as [|x l]; [destruct (snd (hist_scalar a c ri)); [apply same_core_refl|apply same_core_set_fk]|].
  apply fold_same_core. intros b y. destruct y as [y|]; [|apply same_core_set_fk].
  destruct (in_session b y); [apply same_core_set_fk|apply same_core_refl].
Qed.

Lemma finalize1_spec : forall cfg u s o,
  let s' := finalize1 cfg u s o in
  (forall x, st s' x = if Nat.eqb x o then (if is_del u o then Deleted else Persistent) else st s x) /\
  (forall x, rowp s' x = if Nat.eqb x o then negb (is_del u o) else rowp s x) /\
  poison s' = poison s.
Proof.
  intros cfg u s o. unfold finalize1. destruct (is_del u o).
  - cbn [st rowp poison set_marked set_st set_row]. unfold upd. repeat split; intros x; destruct (Nat.eqb x o); reflexivity.
  - set (s1 := set_modf (set_st (set_row s o true (fk s o)) o Persistent) o false).
    assert (G : forall l a, let r := fold_left (fun s ir => let '(ri, r) := ir in
                 let sa := if Nat.eqb (rp r) (cls cfg o) then set_ccomm s o ri None else s in
                 if Nat.eqb (rc r) (cls cfg o) && hasback r then set_pcomm sa o ri PCnone else sa) l a in
               st r = st a /\ rowp r = rowp a /\ poison r = poison a).
    { induction l as [|[ri r] l IH]; intros a; cbn [fold_left]; [repeat split|].
      cbv zeta. destruct (IH (let sa := if Nat.eqb (rp r) (cls cfg o) then set_ccomm a o ri None else a in
                              if Nat.eqb (rc r) (cls cfg o) && hasback r then set_pcomm sa o ri PCnone else sa)) as [I1 [I2 I3]].
      cbv zeta in I1, I2, I3. rewrite I1, I2, I3.
      destruct (Nat.eqb (rp r) (cls cfg o)), (Nat.eqb (rc r) (cls cfg o) && hasback r); repeat split. }
    destruct (G (indexed 0 (rels cfg)) s1) as [G1 [G2 G3]]. cbv zeta in G1, G2, G3.
    cbv zeta. rewrite G1, G2, G3. unfold s1. cbn [st rowp poison set_modf set_st set_row]. unfold upd.
    repeat split; intros x; destruct (Nat.eqb x o); reflexivity.
Qed.

Lemma fold_finalize : forall cfg u l s,
  let s' := fold_left (finalize1 cfg u) l s in
  (forall x, st s' x = if mem x l then (if is_del u x then Deleted else Persistent) else st s x) /\
  (forall x, rowp s' x = if mem x l then negb (is_del u x) else rowp s x) /\
  poison s' = poison s.
Proof.
  intros cfg u. induction l as [|c l IH]; intros s; cbn [fold_left]; [repeat split|].
  destruct (finalize1_spec cfg u s c) as [F1 [F2 F3]]. cbv zeta in F1, F2, F3.
  specialize (IH (finalize1 cfg u s c)). cbv zeta in IH. destruct IH as [I1 [I2 I3]].
  cbv zeta. split; [|split].
  - intros x. rewrite I1, F1. unfold mem. cbn [existsb]. destruct (Nat.eqb x c) eqn:E; cbn [orb]; [|reflexivity].
    apply Nat.eqb_eq in E. subst. destruct (existsb (Nat.eqb c) l); reflexivity.
  - intros x. rewrite I2, F2. unfold mem. cbn [existsb]. destruct (Nat.eqb x c) eqn:E; cbn [orb]; [|reflexivity].
    apply Nat.eqb_eq in E. subst. destruct (existsb (Nat.eqb c) l); reflexivity.
  - rewrite I3. exact F3.
Qed.

Lemma flush_top_rowp : forall cfg s, rowp (fst (flush_top cfg s)) = rowp s.
Proof.
  intros cfg s. unfold flush_top. cbn [fst].
  assert (G : forall (f : nat -> bool) l a, rowp (fold_left (fun a o => if f o then expunge1 a o else a) l a) = rowp a).
  { intros f. induction l as [|c l IH]; intros a; cbn [fold_left]; [reflexivity|]. rewrite IH.
    destruct (f c); [|reflexivity]. unfold expunge1. destruct (st a c); reflexivity. }
  apply G.
Qed.

(* ---------- the outcome of a flush in terms of the final registrations ---------- *)
(* [flush_regs cfg procs s u]: the presort loop ended with registrations [u] *)
Definition flush_regs (cfg : config) (procs : list prop) (s : state) (u : uow) : Prop :=
  order (snd (flush_top cfg s)) <> [] /\
  presort cfg (fst (flush_top cfg s)) procs (presort_fuel cfg) (snd (flush_top cfg s)) = Some u.

Theorem flush_outcome : forall cfg procs s u,
  flush_regs cfg procs s u ->
  existsb (fun o => is_del u o && negb (has_key (fst (flush_top cfg s)) o)) (order u) = false ->
  let s' := fst (flush_with cfg procs s) in
  snd (flush_with cfg procs s) = 0 /\ poison s' = poison s /\
  (forall x, st s' x = match reg u x with
                       | Some true => Deleted | Some false => Persistent | None => st (fst (flush_top cfg s)) x end) /\
  (forall x, rowp s' x = match reg u x with Some b => negb b | None => rowp s x end).
Proof.
  intros cfg procs s u [Hne Hp] Hnp. unfold flush_with.
  destruct (flush_top cfg s) as [s1 u0] eqn:FT. cbn [fst snd] in *.
  destruct (order u0) eqn:O; [contradiction|]. rewrite Hp, Hnp. cbn [fst snd].
  pose proof (uow_wf_top cfg s) as W0. rewrite FT in W0. cbn [fst snd] in W0.
  pose proof (uow_wf_presort cfg s1 procs _ _ _ W0 Hp) as [W1 [W2 W3]].
  set (s2 := fold_left (sync_rel cfg u) (indexed 0 (rels cfg)) s1).
  assert (SC : same_core s2 s1) by (apply fold_same_core; intros; apply same_core_sync_rel).
  destruct SC as [S1 [S2 [S3 [S4 S5]]]].
  destruct (fold_finalize cfg u (order u) s2) as [F1 [F2 F3]]. cbv zeta in F1, F2, F3.
  pose proof (flush_top_attrs cfg s) as TA. rewrite FT in TA. cbn [fst] in TA. destruct TA as [_ [_ [_ [_ [_ TP]]]]].
  assert (Hrow1 : rowp s1 = rowp s).
  { pose proof (flush_top_rowp cfg s) as X. rewrite FT in X. exact X. }
  split; [reflexivity|]. split; [rewrite F3, S4; exact TP|]. split.
  - intros x. rewrite F1, S1. destruct (reg u x) as [b|] eqn:R.
    + assert (In x (order u)) by (apply W2; rewrite R; discriminate). apply mem_In in H. rewrite H.
      unfold is_del. rewrite R. destruct b; reflexivity.
    + assert (~ In x (order u)) by (rewrite W2, R; auto). apply mem_false_notIn in H. rewrite H. reflexivity.
  - intros x. rewrite F2, S2, Hrow1. destruct (reg u x) as [b|] eqn:R.
    + assert (In x (order u)) by (apply W2; rewrite R; discriminate). apply mem_In in H. rewrite H.
      unfold is_del. rewrite R. destruct b; reflexivity.
    + assert (~ In x (order u)) by (rewrite W2, R; auto). apply mem_false_notIn in H. rewrite H. reflexivity.
Qed.
