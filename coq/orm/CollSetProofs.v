(* C38 - proofs about the instrumented set (orm/CollSet.v) *)
From Coq Require Import List ZArith Bool Lia ZifyBool Permutation Arith.
Import ListNotations.
From SAV.base Require Import PySlice.
From SAV.orm Require Import CollBase CollSet CollProofs.
Open Scope Z_scope.

Ltac inv H := inversion H; subst; clear H.

(* ---------- the builtin set on duplicate-free lists ---------- *)
Lemma set_add_In : forall x y s, In y (set_add x s) <-> y = x \/ In y s.
Proof.
  intros. unfold set_add. destruct (mem x s) eqn:E.
  - apply mem_In in E. split; [auto|]. intros [->|H]; auto.
  - rewrite in_app_iff. cbn [In]. intuition.
Qed.

Lemma NoDup_snoc : forall (x : Z) s, NoDup s -> ~ In x s -> NoDup (s ++ [x]).
Proof.
  intros x s H Hn. apply (Permutation_NoDup (l := x :: s)).
  - apply Permutation_cons_append.
  - constructor; assumption.
Qed.

Lemma set_add_NoDup : forall x s, NoDup s -> NoDup (set_add x s).
Proof.
  intros. unfold set_add. destruct (mem x s) eqn:E; [assumption|].
  apply NoDup_snoc; [assumption|]. intro Hin. apply mem_In in Hin. congruence.
Qed.

Lemma set_discard_In : forall x y s, In y (set_discard x s) <-> In y s /\ y <> x.
Proof.
  intros. unfold set_discard. rewrite filter_In. split; intros [H1 H2]; split; auto; lia.
Qed.

Lemma set_discard_NoDup : forall x s, NoDup s -> NoDup (set_discard x s).
Proof. intros. apply NoDup_filter. assumption. Qed.

Lemma set_discard_absent : forall x s, mem x s = false -> set_discard x s = s.
Proof.
  intros x s H. unfold set_discard. induction s as [|y s IH]; [reflexivity|].
  cbn [mem existsb] in H. apply orb_false_elim in H. destruct H as [H1 H2].
  cbn [filter]. rewrite H1. cbn [negb]. rewrite (IH H2). reflexivity.
Qed.

Lemma countZ_discard : forall z x s,
  countZ z (set_discard x s) = if z =? x then 0 else countZ z s.
Proof.
  intros. unfold set_discard. induction s as [|y s IH]; cbn [filter].
  - rewrite countZ_nil. destruct (z =? x); reflexivity.
  - destruct (x =? y) eqn:E; cbn [negb]; rewrite ?countZ_cons, IH; liaif.
Qed.

Lemma NoDup_countZ_1 : forall x s, NoDup s -> In x s -> countZ x s = 1.
Proof.
  intros x s H Hin. unfold countZ.
  rewrite (proj1 (NoDup_count_occ' Z.eq_dec s) H x Hin). reflexivity.
Qed.

Lemma set_diff_cons : forall s x xs, set_diff (set_discard x s) xs = set_diff s (x :: xs).
Proof.
  intros. unfold set_diff, set_discard. induction s as [|y s IH]; [reflexivity|].
  cbn [filter mem existsb]. destruct (x =? y) eqn:E; cbn [negb].
  - rewrite IH. replace (y =? x) with true by lia. reflexivity.
  - cbn [filter]. rewrite IH. replace (y =? x) with false by lia. reflexivity.
Qed.

Lemma set_diff_nil : forall s, set_diff s [] = s.
Proof.
  intro. unfold set_diff. induction s as [|a s IH]; [reflexivity|].
  cbn [filter mem existsb negb]. fold (set_diff s []). f_equal. exact IH.
Qed.

Lemma set_diff_In : forall s o y, In y (set_diff s o) <-> In y s /\ ~ In y o.
Proof.
  intros. unfold set_diff. rewrite filter_In. rewrite <- (mem_In y o).
  destruct (mem y o); cbn [negb]; intuition congruence.
Qed.

Lemma set_inter_In : forall s o y, In y (set_inter s o) <-> In y s /\ In y o.
Proof. intros. unfold set_inter. rewrite filter_In, mem_In. reflexivity. Qed.

Lemma set_union_cons : forall s x xs, set_union s (x :: xs) = set_union (set_add x s) xs.
Proof. reflexivity. Qed.

Lemma set_union_In : forall o s y, In y (set_union s o) <-> In y s \/ In y o.
Proof.
  induction o as [|x o IH]; intros; [cbn; intuition|].
  rewrite set_union_cons, IH, set_add_In. cbn [In]. intuition.
Qed.

Lemma set_union_NoDup : forall o s, NoDup s -> NoDup (set_union s o).
Proof.
  induction o as [|x o IH]; intros; [assumption|]. rewrite set_union_cons.
  apply IH, set_add_NoDup. assumption.
Qed.

Lemma set_union_members : forall o s, (forall x, In x o -> In x s) -> set_union s o = s.
Proof.
  induction o as [|x o IH]; intros s H; [reflexivity|]. rewrite set_union_cons.
  assert (E : set_add x s = s).
  { unfold set_add. replace (mem x s) with true; [reflexivity|].
    symmetry. apply mem_In. apply H. left. reflexivity. }
  rewrite E. apply IH. intros; apply H; right; assumption.
Qed.

Lemma dedup_In : forall o y, In y (dedup o) <-> In y o.
Proof. intros. unfold dedup. fold (set_union [] o). rewrite set_union_In. cbn. intuition. Qed.

Lemma dedup_NoDup : forall o, NoDup (dedup o).
Proof. intros. unfold dedup. fold (set_union [] o). apply set_union_NoDup. constructor. Qed.

Lemma NoDup_app_disjoint : forall (a b : list Z), NoDup a -> NoDup b ->
  (forall y, In y a -> ~ In y b) -> NoDup (a ++ b).
Proof.
  induction a as [|x a IH]; intros b Na Nb D; [assumption|]. cbn [app]. inv Na. constructor.
  - rewrite in_app_iff. intros [H|H]; [contradiction|]. apply (D x); [left; reflexivity|assumption].
  - apply IH; auto. intros y Hy. apply D. right. assumption.
Qed.

Lemma set_symdiff_NoDup : forall s o, NoDup s -> NoDup (set_symdiff s o).
Proof.
  intros s o H. unfold set_symdiff. apply NoDup_app_disjoint.
  - apply NoDup_filter. assumption.
  - apply NoDup_filter, dedup_NoDup.
  - intros y H1 H2. apply set_diff_In in H1. apply set_diff_In in H2. tauto.
Qed.

Lemma set_symdiff_In : forall s o y,
  In y (set_symdiff s o) <-> (In y s /\ ~ In y o) \/ (In y o /\ ~ In y s).
Proof.
  intros. unfold set_symdiff. rewrite in_app_iff, !set_diff_In, dedup_In. reflexivity.
Qed.

Section Ord.
Variable ord : list item -> list item.
Hypothesis ord_perm : forall l, Permutation (ord l) l.

Lemma ord_In : forall l x, In x (ord l) <-> In x l.
Proof. intros. split; apply Permutation_in; [apply ord_perm|symmetry; apply ord_perm]. Qed.
Lemma ord_In1 : forall l x, In x (ord l) -> In x l.
Proof. intros l x. apply ord_In. Qed.
Lemma ord_In2 : forall l x, In x l -> In x (ord l).
Proof. intros l x. apply ord_In. Qed.
Lemma ord_NoDup : forall l, NoDup l -> NoDup (ord l).
Proof. intros. eapply Permutation_NoDup; [symmetry; apply ord_perm|assumption]. Qed.
Lemma ord_nil : ord [] = [].
Proof. apply Permutation_nil. symmetry. apply ord_perm. Qed.

Local Notation acc := (accounted (fun s : list item => s) (@NoDup Z)).
Local Notation sbal := (bal (fun s : list item => s)).

(* ====================================================================================== *)
(* 1. event accounting (no exception: every operation of the instrumented set is accounted) *)
(* ====================================================================================== *)
Lemma acc_sadd : forall x, acc (sa_sadd x).
Proof.
  intros x [s g] r s' I H. unfold sa_sadd, bind, get, b_set, lift in H. cbn [fst snd] in H, I.
  destruct (mem x s) eqn:E; unfold fire in H; cbn [fst snd] in H; inv H; unfold set_add; rewrite E.
  - cbn [fst]. split; [assumption|]. intro z. unfold bal. cbn [fst snd].
    rewrite net_app. cbn [net ev_delta]. lia.
  - cbn [fst]. split.
    + apply NoDup_snoc; [assumption|]. intro Hin. apply mem_In in Hin. congruence.
    + intro z. unfold bal. cbn [fst snd]. rewrite net_app, countZ_app, countZ_cons, countZ_nil.
      cbn [net ev_delta]. liaif.
Qed.

Lemma bal_discard : forall x s g z, NoDup s -> mem x s = true ->
  sbal z (set_discard x s, g ++ [ERem x]) = sbal z (s, g).
Proof.
  intros x s g z I E. unfold bal. cbn [fst snd]. rewrite net_app, countZ_discard.
  cbn [net ev_delta]. apply mem_In in E. pose proof (NoDup_countZ_1 x s I E). liaif.
Qed.

Lemma acc_sdiscard : forall x, acc (sa_sdiscard x).
Proof.
  intros x [s g] r s' I H. unfold sa_sdiscard, bind, get, b_set, lift in H. cbn [fst snd] in H, I.
  destruct (mem x s) eqn:E; unfold fire, ret in H; cbn [fst snd] in H; inv H; cbn [fst].
  - split; [apply set_discard_NoDup; assumption|]. intro z. apply bal_discard; assumption.
  - rewrite set_discard_absent by assumption. auto.
Qed.

Lemma acc_sremove : forall x, acc (sa_sremove x).
Proof.
  intros x [s g] r s' I H. unfold sa_sremove, bind, get, lift in H. cbn [fst snd] in H, I.
  destruct (mem x s) eqn:E; unfold fire, ret in H; cbn [fst snd] in H; rewrite E in H; inv H; cbn [fst].
  - split; [apply set_discard_NoDup; assumption|]. intro z. apply bal_discard; assumption.
  - auto.
Qed.

Lemma acc_spop : acc (sa_spop ord).
Proof.
  intros [s g] r s' I H. unfold sa_spop, bind, lift, fire, ret in H. cbn [fst snd] in H, I.
  destruct (ord s) as [|x t] eqn:E; inv H; cbn [fst]; [auto|].
  assert (Hin : In x s) by (apply ord_In1; rewrite E; left; reflexivity).
  split; [apply set_discard_NoDup; assumption|]. intro z. apply bal_discard; [assumption|].
  apply mem_In. assumption.
Qed.

Lemma acc_iter_self : forall body n xs, (forall x, acc (body x)) -> acc (iter_self n xs body).
Proof.
  intros body n xs Hb. induction xs as [|x xs IH]; cbn [iter_self].
  - apply acc_bind; [apply acc_get|]. intro s. destruct (negb _); [apply acc_raise|apply acc_ret].
  - apply acc_bind; [apply acc_get|]. intro s. destruct (negb _); [apply acc_raise|].
    apply acc_bind; [apply Hb|]. intros _. exact IH.
Qed.

Lemma acc_sa_iter : forall a body, (forall x, acc (body x)) -> acc (sa_iter ord a body).
Proof.
  intros a body Hb. unfold sa_iter. apply acc_bind; [apply acc_get|]. intro s.
  destruct a; try apply acc_for_each; try apply acc_raise; try assumption.
  apply acc_iter_self. assumption.
Qed.

Lemma acc_swant : forall f a, acc (sa_swant ord f a).
Proof.
  intros f a. unfold sa_swant. apply acc_bind; [apply acc_get|]. intro s.
  destruct (arg_items ord s a); [|apply acc_raise].
  apply acc_bind; [apply acc_for_each, acc_sremove|]. intros _. apply acc_for_each, acc_sadd.
Qed.

Lemma acc_inplace : forall a m, acc m -> acc (sa_inplace a m).
Proof.
  intros a m H. unfold sa_inplace. destruct (is_setlike a); [|apply acc_ret].
  apply acc_bind; [assumption|]. intros _. apply acc_ret.
Qed.

Lemma acc_set_op : forall op, acc (sa_set_op ord op).
Proof.
  destruct op; cbn [sa_set_op];
    try (apply acc_inplace);
    try (apply acc_bind; [|intros; apply acc_ret]);
    try apply acc_sadd; try apply acc_sdiscard; try apply acc_sremove; try apply acc_spop;
    try (apply acc_sa_iter; first [apply acc_sadd|apply acc_sdiscard]);
    try apply acc_swant.
  unfold sa_sclear. apply acc_bind; [apply acc_get|]. intro s. apply acc_for_each, acc_sremove.
Qed.

Theorem set_op_accounted : forall op s g r s' g',
  NoDup s -> sa_set_op ord op (s, g) = (r, (s', g')) ->
  NoDup s' /\ forall x, countZ x s' - countZ x s = net x g' - net x g.
Proof.
  intros op s g r s' g' I H. destruct (acc_set_op op (s, g) _ _ I H) as [I' B].
  split; [exact I'|]. intro x. specialize (B x). unfold bal in B. cbn [fst snd] in B. lia.
Qed.

(* ====================================================================================== *)
(* 2. result / exception / contents = the builtin set                                       *)
(* ====================================================================================== *)
Lemma run_sadd : forall x s g, exists g', sa_sadd x (s, g) = (Ok tt, (set_add x s, g')).
Proof.
  intros. unfold sa_sadd, bind, get, b_set, lift. cbn [fst snd].
  destruct (mem x s); unfold fire; cbn [fst snd]; eexists; reflexivity.
Qed.

Lemma run_sdiscard : forall x s g, exists g', sa_sdiscard x (s, g) = (Ok tt, (set_discard x s, g')).
Proof.
  intros. unfold sa_sdiscard, bind, get, b_set, lift. cbn [fst snd].
  destruct (mem x s); unfold fire, ret; cbn [fst snd]; eexists; reflexivity.
Qed.

Lemma run_sremove : forall x s g, mem x s = true ->
  exists g', sa_sremove x (s, g) = (Ok tt, (set_discard x s, g')).
Proof.
  intros x s g E. unfold sa_sremove, bind, get, lift. cbn [fst snd]. rewrite E.
  unfold fire. cbn [fst snd]. rewrite E. eexists; reflexivity.
Qed.

Lemma sadd_loop : forall xs s g,
  exists g', for_each xs sa_sadd (s, g) = (Ok tt, (set_union s xs, g')).
Proof.
  induction xs as [|x xs IH]; intros; cbn [for_each]; [eexists; reflexivity|].
  destruct (run_sadd x s g) as [g1 E]. unfold bind. rewrite E. rewrite set_union_cons. apply IH.
Qed.

Lemma sdiscard_loop : forall xs s g,
  exists g', for_each xs sa_sdiscard (s, g) = (Ok tt, (set_diff s xs, g')).
Proof.
  induction xs as [|x xs IH]; intros; cbn [for_each].
  - rewrite set_diff_nil. eexists; reflexivity.
  - destruct (run_sdiscard x s g) as [g1 E]. unfold bind. rewrite E. rewrite <- set_diff_cons. apply IH.
Qed.

Lemma sremove_loop : forall xs s g, NoDup xs -> (forall x, In x xs -> In x s) ->
  exists g', for_each xs sa_sremove (s, g) = (Ok tt, (set_diff s xs, g')).
Proof.
  induction xs as [|x xs IH]; intros s g N Hin; cbn [for_each].
  - rewrite set_diff_nil. eexists; reflexivity.
  - inv N. destruct (run_sremove x s g) as [g1 E]; [apply mem_In, Hin; left; reflexivity|].
    unfold bind. rewrite E. rewrite <- set_diff_cons. apply IH; [assumption|].
    intros y Hy. apply set_discard_In. split; [apply Hin; right; assumption|].
    intro. subst. contradiction.
Qed.

(* iterating the collection itself while re-adding its own members: the size never changes *)
Lemma iter_self_add : forall xs s g, (forall x, In x xs -> In x s) ->
  exists g', iter_self (length s) xs sa_sadd (s, g) = (Ok tt, (s, g')).
Proof.
  induction xs as [|x xs IH]; intros s g Hin; cbn [iter_self]; unfold bind at 1, get at 1; cbn [fst snd];
    rewrite Nat.eqb_refl; cbn [negb].
  - eexists; reflexivity.
  - destruct (run_sadd x s g) as [g1 E]. unfold bind. rewrite E.
    assert (Es : set_add x s = s).
    { unfold set_add. replace (mem x s) with true; [reflexivity|]. symmetry. apply mem_In, Hin. left; reflexivity. }
    rewrite Es. apply IH. intros; apply Hin; right; assumption.
Qed.

(* the builtin's contents after a bulk operation *)
Definition bulk_res (s : list item) (a : sarg) (f : list item -> list item -> list item) :
  res unit * list item :=
  match arg_items ord s a with
  | None => (Raise TypeError, s)
  | Some o => (Ok tt, f s o)
  end.

Lemma supdate_eq : forall a s g,
  exists g', sa_supdate ord a (s, g) = (fst (bulk_res s a set_union), (snd (bulk_res s a set_union), g')).
Proof.
  intros a s g. unfold sa_supdate, sa_iter, bulk_res, bind at 1, get at 1. cbn [fst snd].
  destruct a as [v|v| |]; cbn [arg_items fst snd].
  - apply sadd_loop.
  - apply sadd_loop.
  - destruct (iter_self_add (ord s) s g) as [g' E]; [intros; apply ord_In1; assumption|].
    exists g'. rewrite E. rewrite set_union_members; [reflexivity|]. intros; apply ord_In1; assumption.
  - eexists; reflexivity.
Qed.

Lemma sdiffupdate_eq : forall a s g, (a = ASelf -> s = []) ->
  exists g', sa_sdiffupdate ord a (s, g) = (fst (bulk_res s a set_diff), (snd (bulk_res s a set_diff), g')).
Proof.
  intros a s g Hg. unfold sa_sdiffupdate, sa_iter, bulk_res, bind at 1, get at 1. cbn [fst snd].
  destruct a as [v|v| |]; cbn [arg_items fst snd].
  - apply sdiscard_loop.
  - apply sdiscard_loop.
  - rewrite (Hg eq_refl). rewrite ord_nil. cbn. eexists; reflexivity.
  - eexists; reflexivity.
Qed.

(* intersection_update / symmetric_difference_update: the remove / add loops reach [want] *)
Lemma swant_eq : forall f a s g, NoDup s ->
  (forall o, NoDup (f s o)) ->
  exists s1 g', sa_swant ord f a (s, g) = (fst (bulk_res s a f), (s1, g')) /\
                Permutation s1 (snd (bulk_res s a f)).
Proof.
  intros f a s g N Nf. unfold sa_swant, bulk_res, bind at 1, get at 1. cbn [fst snd].
  destruct (arg_items ord s a) as [o|]; cbn [fst snd]; [|do 2 eexists; split; [reflexivity|reflexivity]].
  set (want := f s o). set (rm := set_diff s want). set (ad := set_diff want s).
  destruct (sremove_loop (ord rm) s g) as [g1 E1].
  { apply ord_NoDup, NoDup_filter. assumption. }
  { intros x Hx. apply ord_In1 in Hx. apply set_diff_In in Hx. tauto. }
  destruct (sadd_loop (ord ad) (set_diff s (ord rm)) g1) as [g2 E2].
  unfold bind. rewrite E1, E2. do 2 eexists. split; [reflexivity|].
  apply NoDup_Permutation.
  - apply set_union_NoDup, NoDup_filter. assumption.
  - apply Nf.
  - intro y. rewrite set_union_In, set_diff_In, !ord_In. unfold rm, ad. rewrite !set_diff_In.
    fold want. destruct (in_dec Z.eq_dec y s); destruct (in_dec Z.eq_dec y want); tauto.
Qed.

Lemma set_inter_NoDup : forall s o, NoDup s -> NoDup (set_inter s o).
Proof. intros. apply NoDup_filter. assumption. Qed.

Definition sagrees (r : res retv * st (list item)) (p : res retv * list item) : Prop :=
  fst r = fst p /\ Permutation (fst (snd r)) (snd p).

Lemma bulk_finish : forall (m : SM unit) a f rv s g s1 g',
  m (s, g) = (fst (bulk_res s a f), (s1, g')) -> Permutation s1 (snd (bulk_res s a f)) ->
  sagrees ((m ;;; ret rv) (s, g))
          (match arg_items ord s a with None => (Raise TypeError, s) | Some o => (Ok rv, f s o) end).
Proof.
  intros m a f rv s g s1 g' E P. unfold sagrees, bind. rewrite E. unfold bulk_res in *.
  destruct (arg_items ord s a); cbn [fst snd] in *; auto.
Qed.

Theorem set_op_eq_python : forall op s g, NoDup s -> set_eq_guard s op = true ->
  sagrees (sa_set_op ord op (s, g)) (py_set_op ord s op).
Proof.
  intros op s g N Hg.
  assert (Hself : forall a, (op = SDiffUpdate a \/ op = SIsub a) -> a = ASelf -> s = []).
  { intros a [->| ->] ->; cbn [set_eq_guard] in Hg; apply Nat.eqb_eq in Hg;
      destruct s; [reflexivity|discriminate|reflexivity|discriminate]. }
  destruct op; cbn [sa_set_op py_set_op]; unfold sa_inplace;
    try match goal with
        | |- context [if is_setlike ?a then _ else _] =>
            destruct (is_setlike a) eqn:Es; [|unfold sagrees, ret; cbn; auto]
        end.
  - destruct (run_sadd x s g) as [g' E]. unfold sagrees, bind. rewrite E. cbn. auto.
  - destruct (run_sdiscard x s g) as [g' E]. unfold sagrees, bind. rewrite E. cbn. auto.
  - unfold sagrees, sa_sremove, bind, get, lift. cbn [fst snd].
    destruct (mem x s) eqn:E; unfold fire, ret; cbn [fst snd]; rewrite E; cbn; auto.
  - unfold sagrees, sa_spop, bind, lift, fire, ret. cbn [fst snd].
    destruct (ord s); cbn; auto.
  - assert (Ec : exists g', sa_sclear ord (s, g) = (Ok tt, ([], g'))).
    { unfold sa_sclear, bind, get. cbn [fst snd].
      destruct (sremove_loop (ord s) s g) as [g' E]; [apply ord_NoDup; assumption|apply ord_In1|].
      exists g'. rewrite E. do 2 f_equal. unfold set_diff.
      assert (F : forall l, (forall y, In y l -> In y (ord s)) -> filter (fun y => negb (mem y (ord s))) l = []).
      { induction l as [|y l IH]; intro Hl; [reflexivity|]. cbn [filter].
        replace (mem y (ord s)) with true; [cbn [negb]; apply IH; intros; apply Hl; right; assumption|].
        symmetry. apply mem_In, Hl. left; reflexivity. }
      apply F. intros y Hy. apply ord_In2. assumption. }
    destruct Ec as [g' E]. unfold sagrees, bind. rewrite E. cbn. auto.
  - destruct (supdate_eq a s g) as [g' E]. eapply bulk_finish; [exact E|reflexivity].
  - destruct (sdiffupdate_eq a s g (Hself a (or_introl eq_refl))) as [g' E].
    eapply bulk_finish; [exact E|reflexivity].
  - destruct (swant_eq set_inter a s g N (fun o => set_inter_NoDup s o N)) as [s1 [g' [E P]]].
    eapply bulk_finish; eassumption.
  - destruct (swant_eq set_symdiff a s g N (fun o => set_symdiff_NoDup s o N)) as [s1 [g' [E P]]].
    eapply bulk_finish; eassumption.
  - destruct (supdate_eq a s g) as [g' E]. eapply bulk_finish; [exact E|reflexivity].
  - destruct (sdiffupdate_eq a s g (Hself a (or_intror eq_refl))) as [g' E].
    eapply bulk_finish; [exact E|reflexivity].
  - destruct (swant_eq set_inter a s g N (fun o => set_inter_NoDup s o N)) as [s1 [g' [E P]]].
    eapply bulk_finish; eassumption.
  - destruct (swant_eq set_symdiff a s g N (fun o => set_symdiff_NoDup s o N)) as [s1 [g' [E P]]].
    eapply bulk_finish; eassumption.
Qed.

(* ====================================================================================== *)
(* 3. histories.  Which member set.pop() takes is the builtin's choice, so a history of the
      instrumented set is compared with the builtin step by step, from the state reached.   *)
(* ====================================================================================== *)
Fixpoint sa_set_trace (ops : list sop) (s : st (list item)) :
  list (list item * sop * res retv * list item) :=
  match ops with
  | [] => []
  | op :: r => match sa_set_op ord op s with
               | (x, s') => (fst s, op, x, fst s') :: sa_set_trace r s'
               end
  end.

Definition set_step_ok (t : list item * sop * res retv * list item) : Prop :=
  let '(s0, op, x, s1) := t in
  NoDup s0 /\ NoDup s1 /\
  (set_eq_guard s0 op = true ->
   x = fst (py_set_op ord s0 op) /\ Permutation s1 (snd (py_set_op ord s0 op))).

Theorem set_history_eq_python : forall ops s g, NoDup s ->
  Forall set_step_ok (sa_set_trace ops (s, g)).
Proof.
  induction ops as [|op r IH]; intros s g N; cbn [sa_set_trace]; [constructor|].
  destruct (sa_set_op ord op (s, g)) as [x [s1 g1]] eqn:E.
  destruct (set_op_accounted op s g x s1 g1 N E) as [N1 _].
  constructor; [|apply IH; assumption].
  cbn [set_step_ok fst]. repeat split; try assumption;
    destruct (set_op_eq_python op s g N H) as [A B]; rewrite E in A, B; assumption.
Qed.

Theorem set_history_accounted : forall ops s g, NoDup s ->
  let '(_, (s', g')) := sa_set_run ord ops (s, g) in
  NoDup s' /\ forall x, countZ x s' - countZ x s = net x g' - net x g.
Proof.
  induction ops as [|op r IH]; intros s g N; cbn [sa_set_run]; [split; [assumption|intro; lia]|].
  destruct (sa_set_op ord op (s, g)) as [rv [s1 g1]] eqn:E.
  destruct (set_op_accounted op s g rv s1 g1 N E) as [N1 A].
  specialize (IH s1 g1 N1). destruct (sa_set_run ord r (s1, g1)) as [xs [s2 g2]].
  destruct IH as [N2 B]. split; [assumption|]. intro x. specialize (A x). specialize (B x). lia.
Qed.

End Ord.
