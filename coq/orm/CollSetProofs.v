(* C38 - proofs about the instrumented set (orm/CollSet.v) *)
From Coq Require Import List ZArith Bool Lia ZifyBool Permutation Arith.
Import ListNotations.
From SAV.base Require Import PySlice.
From SAV.orm Require Import CollBase CollSet CollProofs.
Open Scope Z_scope.

Ltac inv H := inversion H; subst; clear H.

(* ---------- the builtin set on duplicate-free lists ---------- *)
Lemma set_add_In : forall x y s, In y (set_add x s) <-> y = x \/ In y s.
Proof.
  intros. unfold set_add. destruct (mem x s) eqn:E.
  - apply mem_In in E. split; [auto|]. intros [->|H]; auto.
  - rewrite in_app_iff. cbn [In]. intuition.
Qed.

Lemma NoDup_snoc : forall (x : Z) s, NoDup s -> ~ In x s -> NoDup (s ++ [x]).
Proof.
  intros x s H Hn. apply (Permutation_NoDup (l := x :: s)).
  - apply Permutation_cons_append.
  - constructor; assumption.
Qed.

Lemma set_add_NoDup : forall x s, NoDup s -> NoDup (set_add x s).
Proof.
  intros. unfold set_add. destruct (mem x s) eqn:E; [assumption|].
  apply NoDup_snoc; [assumption|]. intro Hin. apply mem_In in Hin. congruence.
Qed.

Lemma set_discard_In : forall x y s, In y (set_discard x s) <-> In y s /\ y <> x.
Proof.
  intros. unfold set_discard. rewrite filter_In. split; intros [H1 H2]; split; auto; lia.
Qed.

Lemma set_discard_NoDup : forall x s, NoDup s -> NoDup (set_discard x s).
Proof. intros. apply NoDup_filter. assumption. Qed.

Lemma set_discard_absent : forall x s, mem x s = false -> set_discard x s = s.
Proof.
  intros x s H. unfold set_discard. induction s as [|y s IH]; [reflexivity|].
  cbn [mem existsb] in H. apply orb_false_elim in H. destruct H as [H1 H2].
  cbn [filter]. rewrite H1. cbn [negb]. rewrite (IH H2). reflexivity.
Qed.

Lemma countZ_discard : forall z x s,
  countZ z (set_discard x s) = if z =? x then 0 else countZ z s.
Proof.
  intros. unfold set_discard. induction s as [|y s IH]; cbn [filter].
  - rewrite countZ_nil. destruct (z =? x); reflexivity.
  - destruct (x =? y) eqn:E; cbn [negb]; rewrite ?countZ_cons, IH; liaif.
Qed.

Lemma NoDup_countZ_1 : forall x s, NoDup s -> In x s -> countZ x s = 1.
Proof.
  intros x s H Hin. unfold countZ.
  rewrite (proj1 (NoDup_count_occ' Z.eq_dec s) H x Hin). reflexivity.
Qed.

Lemma set_diff_cons : forall s x xs, set_diff (set_discard x s) xs = set_diff s (x :: xs).
Proof.
  intros. unfold set_diff, set_discard. induction s as [|y s IH]; [reflexivity|].
  cbn [filter mem existsb]. destruct (x =? y) eqn:E; cbn [negb].
  - rewrite IH. replace (y =? x) with true by lia. reflexivity.
  - cbn [filter]. rewrite IH. replace (y =? x) with false by lia. reflexivity.
Qed.

Lemma set_diff_nil : forall s, set_diff s [] = s.
Proof.
  intro. unfold set_diff. induction s as [|a s IH]; [reflexivity|].
  cbn [filter mem existsb negb]. fold (set_diff s []). f_equal. exact IH.
Qed.

Lemma set_diff_In : forall s o y, In y (set_diff s o) <-> In y s /\ ~ In y o.
Proof.
  intros. unfold set_diff. rewrite filter_In. rewrite <- (mem_In y o).
  destruct (mem y o); cbn [negb]; intuition congruence.
Qed.

Lemma set_inter_In : forall s o y, In y (set_inter s o) <-> In y s /\ In y o.
Proof. intros. unfold set_inter. rewrite filter_In, mem_In. reflexivity. Qed.

Lemma set_union_cons : forall s x xs, set_union s (x :: xs) = set_union (set_add x s) xs.
Proof. reflexivity. Qed.

Lemma set_union_In : forall o s y, In y (set_union s o) <-> In y s \/ In y o.
Proof.
  induction o as [|x o IH]; intros; [cbn; intuition|].
  rewrite set_union_cons, IH, set_add_In. cbn [In]. intuition.
Qed.

Lemma set_union_NoDup : forall o s, NoDup s -> NoDup (set_union s o).
Proof.
  induction o as [|x o IH]; intros; [assumption|]. rewrite set_union_cons.
  apply IH, set_add_NoDup. assumption.
Qed.

Lemma set_union_members : forall o s, (forall x, In x o -> In x s) -> set_union s o = s.
Proof.
  induction o as [|x o IH]; intros s H; [reflexivity|]. rewrite set_union_cons.
  assert (E : set_add x s = s).
  { unfold set_add. replace (mem x s) with true; [reflexivity|].
    symmetry. apply mem_In. apply H. left. reflexivity. }
  rewrite E. apply IH. intros; apply H; right; assumption.
Qed.

Lemma dedup_In : forall o y, In y (dedup o) <-> In y o.
Proof. intros. unfold dedup. fold (set_union [] o). rewrite set_union_In. cbn. intuition. Qed.

Lemma dedup_NoDup : forall o, NoDup (dedup o).
Proof. intros. unfold dedup. fold (set_union [] o). apply set_union_NoDup. constructor. Qed.

Lemma NoDup_app_disjoint : forall (a b : list Z), NoDup a -> NoDup b ->
  (forall y, In y a -> ~ In y b) -> NoDup (a ++ b).
Proof.
  induction a as [|x a IH]; intros b Na Nb D; [assumption|]. cbn [app]. inv Na. constructor.
  - rewrite in_app_iff. intros [H|H]; [contradiction|]. apply (D x); [left; reflexivity|assumption].
  - apply IH; auto. intros y Hy. apply D. right. assumption.
Qed.

Lemma set_symdiff_NoDup : forall s o, NoDup s -> NoDup (set_symdiff s o).
Proof.
  intros s o H. unfold set_symdiff. apply NoDup_app_disjoint.
  - apply NoDup_filter. assumption.
  - apply NoDup_filter, dedup_NoDup.
  - intros y H1 H2. apply set_diff_In in H1. apply set_diff_In in H2. tauto.
Qed.

Lemma set_symdiff_In : forall s o y,
  In y (set_symdiff s o) <-> (In y s /\ ~ In y o) \/ (In y o /\ ~ In y s).
Proof.
  intros. unfold set_symdiff. rewrite in_app_iff, !set_diff_In, dedup_In. reflexivity.
Qed.

Section Ord.
Variable ord : list item -> list item.
Hypothesis ord_perm : forall l, Permutation (ord l) l.

Lemma ord_In : forall l x, In x (ord l) <-> In x l.
Proof. intros. split; apply Permutation_in; [apply ord_perm|symmetry; apply ord_perm]. Qed.
Lemma ord_NoDup : forall l, NoDup l -> NoDup (ord l).
Proof. intros. eapply Permutation_NoDup; [symmetry; apply ord_perm|assumption]. Qed.
Lemma ord_nil : ord [] = [].
Proof. apply Permutation_nil. symmetry. apply ord_perm. Qed.

Local Notation acc := (accounted (fun s : list item => s) (@NoDup Z)).
Local Notation sbal := (bal (fun s : list item => s)).

(* ====================================================================================== *)
(* 1. event accounting (no exception: every operation of the instrumented set is accounted) *)
(* ====================================================================================== *)
Lemma acc_sadd : forall x, acc (sa_sadd x).
Proof.
  intros x [s g] r s' I H. unfold sa_sadd, bind, get, b_set, lift in H. cbn [fst snd] in H, I.
  destruct (mem x s) eqn:E; unfold fire in H; cbn [fst snd] in H; inv H; unfold set_add; rewrite E.
  - cbn [fst]. split; [assumption|]. intro z. unfold bal. cbn [fst snd].
    rewrite net_app. cbn [net ev_delta]. lia.
  - cbn [fst]. split.
    + apply NoDup_snoc; [assumption|]. intro Hin. apply mem_In in Hin. congruence.
    + intro z. unfold bal. cbn [fst snd]. rewrite net_app, countZ_app, countZ_cons, countZ_nil.
      cbn [net ev_delta]. liaif.
Qed.

Lemma bal_discard : forall x s g z, NoDup s -> mem x s = true ->
  sbal z (set_discard x s, g ++ [ERem x]) = sbal z (s, g).
Proof.
  intros x s g z I E. unfold bal. cbn [fst snd]. rewrite net_app, countZ_discard.
  cbn [net ev_delta]. apply mem_In in E. pose proof (NoDup_countZ_1 x s I E). liaif.
Qed.

Lemma acc_sdiscard : forall x, acc (sa_sdiscard x).
Proof.
  intros x [s g] r s' I H. unfold sa_sdiscard, bind, get, b_set, lift in H. cbn [fst snd] in H, I.
  destruct (mem x s) eqn:E; unfold fire, ret in H; cbn [fst snd] in H; inv H; cbn [fst].
  - split; [apply set_discard_NoDup; assumption|]. intro z. apply bal_discard; assumption.
  - rewrite set_discard_absent by assumption. auto.
Qed.

Lemma acc_sremove : forall x, acc (sa_sremove x).
Proof.
  intros x [s g] r s' I H. unfold sa_sremove, bind, get, lift in H. cbn [fst snd] in H, I.
  destruct (mem x s) eqn:E; unfold fire, ret in H; cbn [fst snd] in H; rewrite E in H; inv H; cbn [fst].
  - split; [apply set_discard_NoDup; assumption|]. intro z. apply bal_discard; assumption.
  - auto.
Qed.

Lemma acc_spop : acc (sa_spop ord).
Proof.
  intros [s g] r s' I H. unfold sa_spop, bind, lift, fire, ret in H. cbn [fst snd] in H, I.
  destruct (ord s) as [|x t] eqn:E; inv H; cbn [fst]; [auto|].
  assert (Hin : In x s) by (apply ord_In; rewrite E; left; reflexivity).
  split; [apply set_discard_NoDup; assumption|]. intro z. apply bal_discard; [assumption|].
  apply mem_In. assumption.
Qed.

Lemma acc_iter_self : forall body n xs, (forall x, acc (body x)) -> acc (iter_self n xs body).
Proof.
  intros body n xs Hb. induction xs as [|x xs IH]; cbn [iter_self].
  - apply acc_bind; [apply acc_get|]. intro s. destruct (negb _); [apply acc_raise|apply acc_ret].
  - apply acc_bind; [apply acc_get|]. intro s. destruct (negb _); [apply acc_raise|].
    apply acc_bind; [apply Hb|]. intros _. exact IH.
Qed.

Lemma acc_sa_iter : forall a body, (forall x, acc (body x)) -> acc (sa_iter ord a body).
Proof.
  intros a body Hb. unfold sa_iter. apply acc_bind; [apply acc_get|]. intro s.
  destruct a; try apply acc_for_each; try apply acc_raise; try assumption.
  apply acc_iter_self. assumption.
Qed.

Lemma acc_swant : forall f a, acc (sa_swant ord f a).
Proof.
  intros f a. unfold sa_swant. apply acc_bind; [apply acc_get|]. intro s.
  destruct (arg_items ord s a); [|apply acc_raise].
  apply acc_bind; [apply acc_for_each, acc_sremove|]. intros _. apply acc_for_each, acc_sadd.
Qed.

Lemma acc_inplace : forall a m, acc m -> acc (sa_inplace a m).
Proof.
  intros a m H. unfold sa_inplace. destruct (is_setlike a); [|apply acc_ret].
  apply acc_bind; [assumption|]. intros _. apply acc_ret.
Qed.

Lemma acc_set_op : forall op, acc (sa_set_op ord op).
Proof.
  destruct op; cbn [sa_set_op];
    try (apply acc_inplace);
    try (apply acc_bind; [|intros; apply acc_ret]);
    try apply acc_sadd; try apply acc_sdiscard; try apply acc_sremove; try apply acc_spop;
    try (apply acc_sa_iter; first [apply acc_sadd|apply acc_sdiscard]);
    try apply acc_swant.
  unfold sa_sclear. apply acc_bind; [apply acc_get|]. intro s. apply acc_for_each, acc_sremove.
Qed.

Theorem set_op_accounted : forall op s g r s' g',
  NoDup s -> sa_set_op ord op (s, g) = (r, (s', g')) ->
  NoDup s' /\ forall x, countZ x s' - countZ x s = net x g' - net x g.
Proof.
  intros op s g r s' g' I H. destruct (acc_set_op op (s, g) _ _ I H) as [I' B].
  split; [exact I'|]. intro x. specialize (B x). unfold bal in B. cbn [fst snd] in B. lia.
Qed.
