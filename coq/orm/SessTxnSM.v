(* C33 - the SessionTransaction state machine: how the stack of (frame id, state) evolves under every
   function of the model, for ALL states (no guard). *)
From Coq Require Import List ZArith Bool Arith Lia.
Import ListNotations.
From SAV.orm Require Import SessTxn SessTxnBase.
Open Scope nat_scope.

Definition stk (st : sess) : list (nat * tstate) := map (fun f => (fid f, fstate f)) (stack st).

(* functions that leave the (id, state) list and the id counter alone, and never raise
   IllegalStateChangeError *)
Definition keepsf (g : sess -> sess) : Prop := forall st, stk (g st) = stk st /\ nfid (g st) = nfid st.
Definition keeps (F : M) : Prop :=
  forall st r st', F st = (r, st') -> stk st' = stk st /\ nfid st' = nfid st /\ r <> Err E_ILLEGAL.

Lemma keeps_ret : keeps ret.
Proof. intros st r st' H. inversion H; subst. repeat split; auto; try discriminate. Qed.
Lemma keeps_unmodelled : keeps unmodelled.
Proof. intros st r st' H. inversion H; subst. repeat split; auto; try discriminate. Qed.
Lemma keeps_raise : forall c, c <> E_ILLEGAL -> keeps (raise c).
Proof. intros c Hc st r st' H. inversion H; subst. repeat split; auto. congruence. Qed.
Lemma keeps_lift : forall g, keepsf g -> keeps (lift g).
Proof. intros g Hg st r st' H. inversion H; subst. destruct (Hg st). repeat split; auto; try discriminate. Qed.
Lemma keeps_bind : forall a b, keeps a -> keeps b -> keeps (a ;; b).
Proof.
  intros a b Ha Hb st r st' H. apply bind_inv in H. destruct H as [[st1 [H1 H2]]|[H1 _]].
  - destruct (Ha _ _ _ H1) as [E1 [E2 _]]. destruct (Hb _ _ _ H2) as [E3 [E4 E5]].
    repeat split; congruence.
  - apply (Ha _ _ _ H1).
Qed.
Lemma keeps_withst : forall k, (forall s, keeps (k s)) -> keeps (withst k).
Proof. intros k Hk st r st' H. apply (Hk st st r st' H). Qed.
Lemma keeps_foldM : forall {A} (f : A -> M) l, (forall x, keeps (f x)) -> keeps (foldM f l).
Proof.
  intros A f l Hf. induction l; cbn [foldM].
  - apply keeps_ret.
  - apply keeps_bind; auto.
Qed.
Lemma keepsf_fold : forall {A} (g : sess -> A -> sess) l, (forall x, keepsf (fun s => g s x)) -> keepsf (fun s => fold_left g l s).
Proof.
  intros A g l Hg. induction l; intros st; cbn.
  - auto.
  - destruct (IHl (g st a)) as [E1 E2]. destruct (Hg a st) as [E3 E4]. split; congruence.
Qed.
Lemma keepsf_comp : forall g h, keepsf g -> keepsf h -> keepsf (fun s => h (g s)).
Proof. intros g h Hg Hh st. destruct (Hg st), (Hh (g st)). split; congruence. Qed.
Lemma keepsf_id : keepsf (fun s => s).
Proof. intros st; auto. Qed.
Lemma keepsf_if : forall (c : sess -> bool) g h, keepsf g -> keepsf h -> keepsf (fun s => if c s then g s else h s).
Proof. intros c g h Hg Hh st. destruct (c st); auto. Qed.

(* field updates *)
Lemma keepsf_set_objs : forall x, keepsf (fun s => set_objs s (x s)).
Proof. intros x st. split; reflexivity. Qed.
Lemma keepsf_mod_obj : forall o g, keepsf (fun s => mod_obj s o g).
Proof. intros o g st. split; reflexivity. Qed.
Lemma keepsf_set_obj : forall o ob, keepsf (fun s => set_obj s o (ob s)).
Proof. intros o ob st. split; reflexivity. Qed.
Lemma keepsf_set_snew : forall x, keepsf (fun s => set_snew s (x s)).
Proof. intros x st. split; reflexivity. Qed.
Lemma keepsf_set_sdel : forall x, keepsf (fun s => set_sdel s (x s)).
Proof. intros x st. split; reflexivity. Qed.
Lemma keepsf_set_db : forall c w sv, keepsf (fun s => set_db s (c s) (w s) (sv s)).
Proof. intros c w sv st. split; reflexivity. Qed.
Lemma keepsf_set_handles : forall x, keepsf (fun s => set_handles s (x s)).
Proof. intros x st. split; reflexivity. Qed.

Lemma stk_upd_head : forall st g, (forall f, fid (g f) = fid f /\ fstate (g f) = fstate f) ->
  stk (upd_head st g) = stk st /\ nfid (upd_head st g) = nfid st.
Proof.
  intros st g Hg. unfold upd_head, stk. destruct (stack st) as [|f r] eqn:E.
  - rewrite E. auto.
  - cbn. destruct (Hg f) as [E1 E2]. rewrite E1, E2. auto.
Qed.
Lemma keepsf_upd_head : forall (g : sess -> frame -> frame),
  (forall s f, fid (g s f) = fid f /\ fstate (g s f) = fstate f) -> keepsf (fun s => upd_head s (g s)).
Proof. intros g Hg st. apply stk_upd_head. apply Hg. Qed.

Ltac kf :=
  repeat first
    [ apply keepsf_id | apply keepsf_mod_obj | apply keepsf_set_obj | apply keepsf_set_snew | apply keepsf_set_sdel
    | apply keepsf_set_db | apply keepsf_set_handles | apply keepsf_set_objs
    | (apply keepsf_upd_head; intros; split; reflexivity) ].

Lemma keepsf_safe_discard : forall o, keepsf (safe_discard o).
Proof. intros o. unfold safe_discard. kf. Qed.
Lemma keepsf_im_replace : forall o, keepsf (im_replace o).
Proof.
  intros o st. unfold im_replace. destruct (im_other st o); split; reflexivity.
Qed.
Lemma keepsf_expire : forall o, keepsf (expire o).
Proof. intros o. unfold expire. kf. Qed.
Lemma keepsf_detach : forall b o, keepsf (detach b o).
Proof. intros b o. unfold detach. kf. Qed.
Lemma keepsf_map_objs : forall g, keepsf (fun s => map_objs s (g s)).
Proof. intros g st. split; reflexivity. Qed.
Lemma keepsf_expunge_states : forall l b, keepsf (expunge_states l b).
Proof.
  intros l b st. unfold expunge_states.
  match goal with |- stk (upd_head ?s ?g) = _ /\ _ => destruct (stk_upd_head s g) as [E1 E2]; [intros; split; reflexivity|] end.
  rewrite E1, E2. split; reflexivity.
Qed.
Lemma keepsf_restore_ks_one : forall te ks o, keepsf (restore_ks_one te ks o).
Proof.
  intros te ks o st. unfold restore_ks_one. destruct (ks_find o ks) as [[old nw]|]; [|auto].
  destruct (mem o te).
  - split; reflexivity.
  - destruct (keepsf_im_replace o (mod_obj (safe_discard o st) o (fun ob => o_key ob (Some old)))) as [E1 E2].
    rewrite E1, E2. split; reflexivity.
Qed.
Lemma keepsf_remove_newly_deleted : forall o, keepsf (remove_newly_deleted o).
Proof.
  intros o st. unfold remove_newly_deleted.
  destruct (stk_upd_head st (fun f => f_del f (addm o (fdel f)))) as [E1 E2]; [intros; split; reflexivity|].
  cbn. rewrite <- E1, <- E2. split; reflexivity.
Qed.
Lemma keepsf_commit_one : forall o, keepsf (commit_one o).
Proof.
  intros o st. unfold commit_one.
  destruct (mem o _);
    match goal with |- stk (upd_head ?s ?g) = _ /\ _ => destruct (stk_upd_head s g) as [E1 E2]; [intros; split; reflexivity|];
      rewrite E1, E2; split; reflexivity end.
Qed.
Lemma keepsf_remove_snapshot : keepsf remove_snapshot.
Proof.
  intros st. unfold remove_snapshot. destruct (stack st) as [|f rest] eqn:E; [auto|].
  destruct (negb (fnested f) && eoc st).
  - unfold stk. cbn. rewrite E. cbn. auto.
  - destruct (fnested f); [|auto]. destruct rest as [|p rest']; [auto|].
    unfold stk. cbn. rewrite E. cbn. auto.
Qed.

(* monadic functions *)
Lemma keeps_im_add : forall o, keeps (im_add o).
Proof.
  intros o st r st' H. unfold im_add in H. destruct (okey (objs st o)).
  - destruct (im_other st o); inversion H; subst; repeat split; auto; discriminate.
  - inversion H; subst; repeat split; auto; discriminate.
Qed.

Lemma provision_fs_stk : forall fs wk sv r fs' sv',
  provision_fs fs wk sv = (r, fs', sv') ->
  map (fun f => (fid f, fstate f)) fs' = map (fun f => (fid f, fstate f)) fs /\ r <> Some E_ILLEGAL.
Proof.
  induction fs as [|f rest IH]; intros wk sv r fs' sv' H; cbn in H.
  - inversion H; subst. split; auto. discriminate.
  - unfold check_prereq in H. destruct (prereq_ok M_conn_for_bind (fstate f)).
    + destruct (fconn f).
      * inversion H; subst. split; auto. discriminate.
      * destruct (provision_fs rest wk sv) as [[r1 rest1] sv1] eqn:E.
        destruct (IH _ _ _ _ _ E) as [E1 E2].
        destruct r1; inversion H; subst; cbn; rewrite E1; split; auto; try discriminate.
    + inversion H; subst. split; auto.
      unfold prereq_error. destruct (fstate f); try destruct (frbexc f); discriminate.
Qed.
Lemma keeps_provision : keeps provision.
Proof.
  intros st r st' H. unfold provision in H.
  destruct (provision_fs (stack st) (work st) (saves st)) as [[r1 fs] sv] eqn:E.
  destruct (provision_fs_stk _ _ _ _ _ _ E) as [E1 E2].
  destruct r1; inversion H; subst; unfold stk; cbn; repeat split; auto; congruence.
Qed.
Lemma keeps_db_rollback_to : forall n, keeps (db_rollback_to n).
Proof.
  intros n st r st' H. unfold db_rollback_to in H.
  destruct (drop_to n (saves st)) as [[|[m snap] l]|]; inversion H; subst; repeat split; auto; discriminate.
Qed.
Lemma keeps_db_release : forall n, keeps (db_release n).
Proof.
  intros n st r st' H. unfold db_release in H.
  destruct (drop_to n (saves st)) as [[|e l]|]; inversion H; subst; repeat split; auto; discriminate.
Qed.
Lemma keeps_update_impl_revert : forall o, keeps (update_impl_revert o).
Proof.
  intros o st r st' H. unfold update_impl_revert in H. destruct (okey (objs st o)).
  - destruct (odelf (objs st o) && negb (oatt (objs st o))); [inversion H; subst; repeat split; auto; discriminate|].
    destruct (negb (oatt (objs st o))); inversion H; subst; try (repeat split; auto; discriminate).
    match goal with |- stk (im_replace o ?s) = _ /\ _ => destruct (keepsf_im_replace o s) as [E1 E2]; rewrite E1, E2 end.
    repeat split; auto; try discriminate.
  - inversion H; subst; repeat split; auto; discriminate.
Qed.
Lemma keeps_restore_snapshot : forall d, keeps (restore_snapshot d).
Proof.
  intros d st r st' H. unfold restore_snapshot in H. destruct (stack st) as [|f rest] eqn:E.
  - inversion H; subst; repeat split; auto; discriminate.
  - set (te := filter (fun o => mem o (fnew f) || mem o (snew st)) (all_objs st)) in *.
    set (st1 := expunge_states te true st) in *.
    set (st2 := fold_left (fun s o => restore_ks_one te (fks f) o s) (all_objs st1) st1) in *.
    assert (K1 : stk st1 = stk st /\ nfid st1 = nfid st) by apply keepsf_expunge_states.
    assert (K2 : stk st2 = stk st1 /\ nfid st2 = nfid st1).
    { apply (keepsf_fold (fun s o => restore_ks_one te (fks f) o s)). intros x. apply keepsf_restore_ks_one. }
    match type of H with (match ?X with _ => _ end) = _ => destruct X as [r3 st3] eqn:E3 end.
    assert (K3 : stk st3 = stk st2 /\ nfid st3 = nfid st2 /\ r3 <> Err E_ILLEGAL).
    { eapply (keeps_foldM update_impl_revert); [apply keeps_update_impl_revert|exact E3]. }
    destruct K1 as [A1 B1], K2 as [A2 B2], K3 as [A3 [B3 C3]].
    destruct r3.
    + destruct (negb (isnil (sdel st3))).
      * inversion H; subst. repeat split; try congruence.
      * inversion H; subst.
        match goal with |- stk (map_objs ?s ?g) = _ /\ _ => change (stk (map_objs s g)) with (stk s); change (nfid (map_objs s g)) with (nfid s) end.
        repeat split; try congruence; try discriminate.
    + inversion H; subst. repeat split; congruence.
    + inversion H; subst. repeat split; congruence.
Qed.
Lemma keeps_load_row : forall o, keeps (load_row o).
Proof.
  intros o st r st' H. unfold load_row in H. destruct (okey (objs st o)).
  - destruct (work st z); inversion H; subst; repeat split; auto; discriminate.
  - inversion H; subst; repeat split; auto; discriminate.
Qed.
Lemma keeps_load_in_flush : forall o, keeps (load_in_flush o).
Proof.
  intros o st r st' H. unfold load_in_flush in H. destruct (negb _).
  - inversion H; subst; repeat split; auto; discriminate.
  - eapply keeps_load_row; eauto.
Qed.
Lemma keeps_organize_pending : forall d o, keeps (organize_pending d o).
Proof.
  intros d o st r st' H. unfold organize_pending in H.
  destruct (odid (objs st o)); [|inversion H; subst; repeat split; auto; discriminate].
  destruct (im_lookup st z) as [ex|]; [|inversion H; subst; repeat split; auto; discriminate].
  destruct (oexp (objs st ex)).
  - destruct (load_in_flush ex st) as [r1 st1] eqn:E. destruct (keeps_load_in_flush _ _ _ _ E) as [A [B C]].
    destruct r1.
    + destruct (mem ex d); inversion H; subst; repeat split; auto; discriminate.
    + destruct (Z.eqb c E_OBJDEL) eqn:Ec.
      * inversion H; subst. destruct (keepsf_remove_newly_deleted ex st1) as [A1 B1].
        repeat split; try congruence; try discriminate.
      * inversion H; subst. repeat split; auto.
    + inversion H; subst. repeat split; auto.
  - destruct (mem ex d); inversion H; subst; repeat split; auto; discriminate.
Qed.
Lemma keeps_do_update : forall o, keeps (do_update o).
Proof.
  intros o st r st' H. unfold do_update in H.
  destruct (negb _); [inversion H; subst; repeat split; auto; discriminate|].
  match type of H with (match ?X with _ => _ end) = _ => destruct X as [r1 st1] eqn:E1 end.
  assert (K1 : stk st1 = stk st /\ nfid st1 = nfid st /\ r1 <> Err E_ILLEGAL).
  { destruct (needs_pk_load (objs st o)); [eapply keeps_load_in_flush; eauto|].
    inversion E1; subst. repeat split; auto; try discriminate. }
  destruct K1 as [A [B C]].
  destruct r1; [|inversion H; subst; repeat split; auto|inversion H; subst; repeat split; auto].
  destruct (where_pk (objs st1 o)); [|inversion H; subst; repeat split; auto; discriminate].
  destruct (work st1 z); [|inversion H; subst; repeat split; auto; discriminate].
  destruct (_ && _); [inversion H; subst; repeat split; auto; discriminate|].
  destruct (_ && _); inversion H; subst; repeat split; auto; discriminate.
Qed.
Lemma keeps_do_insert : forall o, keeps (do_insert o).
Proof.
  intros o st r st' H. unfold do_insert in H.
  destruct (odid (objs st o)); [|inversion H; subst; repeat split; auto; discriminate].
  destruct (odv (objs st o)); [|inversion H; subst; repeat split; auto; discriminate].
  destruct (work st z); inversion H; subst; repeat split; auto; discriminate.
Qed.
Lemma keeps_do_delete : forall o, keeps (do_delete o).
Proof.
  intros o st r st' H. unfold do_delete in H.
  match type of H with (match ?X with _ => _ end) = _ => destruct X as [r1 st1] eqn:E1 end.
  assert (K1 : stk st1 = stk st /\ nfid st1 = nfid st /\ r1 <> Err E_ILLEGAL).
  { destruct (needs_pk_load (objs st o)); [eapply keeps_load_in_flush; eauto|].
    inversion E1; subst. repeat split; auto; try discriminate. }
  destruct K1 as [A [B C]].
  destruct r1; [|inversion H; subst; repeat split; auto|inversion H; subst; repeat split; auto].
  destruct (where_pk (objs st1 o)); inversion H; subst; repeat split; auto; discriminate.
Qed.
Lemma keeps_do_stmt : forall s, keeps (do_stmt s).
Proof. intros [o|o|o]; cbn; [apply keeps_do_update|apply keeps_do_insert|apply keeps_do_delete]. Qed.
Lemma keeps_register_one : forall o, keeps (register_one o).
Proof.
  intros o st r st' H. unfold register_one in H.
  destruct (odid (objs st o)); [|inversion H; subst; repeat split; auto; discriminate].
  destruct (okey (objs st o)).
  - destruct (Z.eqb z0 z).
    + inversion H; subst. destruct (keepsf_im_replace o st). repeat split; auto; try discriminate.
    + inversion H; subst.
      match goal with |- stk (im_replace o ?s) = _ /\ _ => destruct (keepsf_im_replace o s) as [E1 E2]; rewrite E1, E2 end.
      match goal with |- stk (mod_obj ?s ?o ?g) = _ /\ _ => change (stk (mod_obj s o g)) with (stk s); change (nfid (mod_obj s o g)) with (nfid s) end.
      match goal with |- stk (upd_head ?s ?g) = _ /\ _ => destruct (stk_upd_head s g) as [E3 E4]; [intros; split; reflexivity|] end.
      rewrite E3, E4. repeat split; auto; try discriminate.
  - inversion H; subst.
    match goal with |- stk (im_replace o ?s) = _ /\ _ => destruct (keepsf_im_replace o s) as [E1 E2]; rewrite E1, E2 end.
    repeat split; auto; try discriminate.
Qed.
Lemma keeps_finalize : forall n d e, keeps (finalize n d e).
Proof.
  intros n d e. unfold finalize. apply keeps_bind.
  - apply keeps_lift. apply (keepsf_fold (fun s o => remove_newly_deleted o s)). intros x. apply keepsf_remove_newly_deleted.
  - apply keeps_withst. intros s. destruct (negb _); [apply keeps_unmodelled|].
    apply keeps_bind; [apply keeps_foldM; apply keeps_register_one|].
    apply keeps_bind; apply keeps_lift.
    + apply (keepsf_fold (fun s o => commit_one o s)). intros x. apply keepsf_commit_one.
    + intros st. split; reflexivity.
Qed.
Lemma keeps_fail_at : forall c r, c <> E_ILLEGAL -> keeps (fail_at c r).
Proof.
  intros c r Hc st x st' H. unfold fail_at in H.
  destruct (head_nested st && existsb (needs_load st) r); inversion H; subst; repeat split; auto; congruence.
Qed.
Lemma keeps_exec_f : forall c l k, c <> E_ILLEGAL -> keeps (exec_f k c l).
Proof.
  intros c l. induction l as [|s r IH]; intros k Hc st x st' H.
  - inversion H; subst. repeat split; auto; discriminate.
  - cbn [exec_f] in H. destruct (do_stmt s st) as [[|c'|] s1] eqn:E1;
      destruct (keeps_do_stmt s _ _ _ E1) as [A1 [A2 A3]].
    + assert (X : forall k', exec_f k' c r s1 = (x, st') -> stk st' = stk st /\ nfid st' = nfid st /\ x <> Err E_ILLEGAL).
      { intros k' H'. destruct (IH k' Hc _ _ _ H') as [B1 [B2 B3]]. repeat split; congruence. }
      destruct (emits s st); [|apply (X k H)].
      destruct k as [[|k']|]; [|apply (X _ H)|apply (X _ H)].
      destruct (keeps_fail_at c r Hc _ _ _ H) as [B1 [B2 B3]]. repeat split; congruence.
    + destruct (emits s st && Z.eqb c' E_STALE && match k with Some O => true | _ => false end).
      * destruct (keeps_fail_at c r Hc _ _ _ H) as [B1 [B2 B3]]. repeat split; congruence.
      * assert (Hc' : c' <> E_ILLEGAL) by congruence.
        destruct (keeps_fail_at c' r Hc' _ _ _ H) as [B1 [B2 B3]]. repeat split; congruence.
    + inversion H; subst. repeat split; auto; discriminate.
Qed.
Lemma keeps_flush_exec : forall n d e, keeps (flush_exec n d e).
Proof.
  intros n d e. unfold flush_exec.
  apply keeps_bind; [apply keeps_provision|].
  apply keeps_bind; [apply keeps_foldM; apply keeps_organize_pending|].
  apply keeps_bind; [apply keeps_withst; intros s; apply keeps_exec_f; discriminate|].
  apply keeps_finalize.
Qed.
Lemma keeps_head_db_rollback : keeps head_db_rollback.
Proof.
  intros st r st' H. unfold head_db_rollback in H. destruct (stack st); [inversion H; subst; repeat split; auto; discriminate|].
  destruct (fconn f); [|inversion H; subst; repeat split; auto; discriminate].
  destruct (fnested f); [eapply keeps_db_rollback_to; eauto|].
  inversion H; subst; repeat split; auto; discriminate.
Qed.
Lemma keeps_head_db_commit : keeps head_db_commit.
Proof.
  intros st r st' H. unfold head_db_commit in H. destruct (stack st); [inversion H; subst; repeat split; auto; discriminate|].
  destruct (fconn f); [|inversion H; subst; repeat split; auto; discriminate].
  destruct (fnested f); [eapply keeps_db_release; eauto|].
  inversion H; subst; repeat split; auto; discriminate.
Qed.

(* ------------------------------------------------------------------ the stack-changing functions *)
Definition K := list (nat * tstate).
Definition deact (k : K) : K := match k with (n, s) :: r => (n, DEACTIVE) :: r | [] => [] end.
Definition head_active (k : K) : Prop := match k with (n, ACTIVE) :: _ => True | _ => False end.
Fixpoint all_active (k : K) : Prop := match k with [] => True | (n, s) :: r => s = ACTIVE /\ all_active r end.
Fixpoint decr (b : nat) (k : K) : Prop := match k with [] => True | (n, _) :: r => n < b /\ decr n r end.
(* between operations: ids strictly decrease from the innermost frame outwards and are below the
   counter; every frame is ACTIVE except possibly the innermost one, which may be DEACTIVE *)
Definition Kwf (nf : nat) (k : K) : Prop :=
  decr nf k /\ match k with [] => True | (n, s) :: r => (s = ACTIVE \/ s = DEACTIVE) /\ all_active r end.

Definition abK (nf : nat) (k : K) : K * nat := match k with [] => ([(nf, ACTIVE)], S nf) | _ => (k, nf) end.

Lemma stk_autobegin : forall st, (stk (autobegin st), nfid (autobegin st)) = abK (nfid st) (stk st).
Proof. intros st. unfold autobegin, stk, abK. destruct (stack st) eqn:E; cbn; rewrite ?E; reflexivity. Qed.

Lemma Kwf_abK : forall nf k, Kwf nf k -> Kwf (snd (abK nf k)) (fst (abK nf k)).
Proof.
  intros nf k H. destruct k as [|[n s] r]; cbn; [|exact H].
  split; cbn; auto.
Qed.

Lemma decr_weaken : forall k b b', decr b k -> b <= b' -> decr b' k.
Proof. destruct k as [|[n s] r]; cbn; intros; auto. destruct H; split; auto; lia. Qed.
Lemma Kwf_tail : forall nf n s r, Kwf nf ((n, s) :: r) -> Kwf nf r.
Proof.
  intros nf n s r [[H1 H2] [H3 H4]]. split.
  - eapply decr_weaken; eauto. lia.
  - destruct r as [|[n' s'] r']; auto. destruct H4 as [H4 H5]. split; auto.
Qed.
Lemma Kwf_suffix : forall pre nf suf, Kwf nf (pre ++ suf) -> Kwf nf suf.
Proof.
  induction pre as [|[n s] pre IH]; intros nf suf H; cbn in *; auto.
  apply IH. eapply Kwf_tail; eauto.
Qed.
Lemma Kwf_deact : forall nf k, Kwf nf k -> Kwf nf (deact k).
Proof. intros nf [|[n s] r] [H1 H2]; cbn in *; split; auto. destruct H2; split; auto. Qed.
Lemma Kwf_push : forall nf k, Kwf nf k -> head_active k \/ k = [] -> Kwf (S nf) ((nf, ACTIVE) :: k).
Proof.
  intros nf k [H1 H2] Hh. split.
  - cbn. split; [lia|]. eapply decr_weaken; eauto.
  - split; auto. destruct k as [|[n s] r]; cbn; auto.
    destruct Hh as [Hh|Hh]; [|discriminate]. cbn in Hh. destruct s; try contradiction. destruct H2. split; auto.
Qed.

(* outcome of the functions that at most autobegin and at most deactivate the innermost frame *)
Definition out1 (nf : nat) (k : K) (r : res) (nf' : nat) (k' : K) : Prop :=
  (k' = k /\ nf' = nf) \/
  (k' = fst (abK nf k) /\ nf' = snd (abK nf k)) \/
  (r <> Ok /\ head_active (fst (abK nf k)) /\ k' = deact (fst (abK nf k)) /\ nf' = snd (abK nf k)).

Lemma prereq_begin_active : forall f, check_prereq f M_begin = None -> fstate f = ACTIVE.
Proof. intros f H. unfold check_prereq in H. destruct (fstate f); cbn in H; try discriminate; reflexivity. Qed.
Lemma prereq_prepare_active : forall f, check_prereq f M_prepare = None -> fstate f = ACTIVE.
Proof. intros f H. unfold check_prereq in H. destruct (fstate f); cbn in H; try discriminate; reflexivity. Qed.
Lemma prereq_error_not_illegal : forall f, prereq_error f <> E_ILLEGAL.
Proof. intros f. unfold prereq_error. destruct (fstate f); try destruct (frbexc f); discriminate. Qed.
Lemma check_prereq_not_illegal : forall f m c, check_prereq f m = Some c -> c <> E_ILLEGAL.
Proof.
  intros f m c H. unfold check_prereq in H. destruct (prereq_ok m (fstate f)); [discriminate|].
  inversion H. apply prereq_error_not_illegal.
Qed.

Lemma stk_set_head_state : forall s st,
  stk (set_head_state s st) = match stk st with (n, _) :: r => (n, s) :: r | [] => [] end
  /\ nfid (set_head_state s st) = nfid st.
Proof.
  intros s st. unfold set_head_state, upd_head, stk. destruct (stack st) as [|f r] eqn:E.
  - rewrite E. auto.
  - cbn. auto.
Qed.

Lemma flush_fail_spec : forall st r st', flush_fail st = (r, st') -> r <> Unmodelled ->
  stk st' = deact (stk st) /\ nfid st' = nfid st /\ r <> Err E_ILLEGAL.
Proof.
  intros st r st' H Hr. unfold flush_fail in H.
  apply bind_inv in H. destruct H as [[s1 [H1 H]]|[H1 Hn]].
  2:{ unfold head_db_rollback in H1. destruct (stack st) eqn:E; [inversion H1; subst; congruence|].
      destruct (fconn f); [|inversion H1; subst; congruence].
      destruct (fnested f); [|inversion H1; subst; congruence].
      unfold db_rollback_to in H1. destruct (drop_to _ _) as [[|[m sn] l0]|]; inversion H1; subst; congruence. }
  destruct (keeps_head_db_rollback _ _ _ H1) as [A1 [B1 _]].
  apply bind_inv in H. destruct H as [[s2 [H2 H]]|[H2 Hn]]; [|inversion H2; subst; congruence].
  inversion H2; subst s2. clear H2.
  destruct (stk_set_head_state DEACTIVE s1) as [A2 B2].
  assert (D : stk (set_head_state DEACTIVE s1) = deact (stk st)).
  { rewrite A2, A1. unfold deact. destruct (stk st) as [|[n s] l]; reflexivity. }
  apply bind_inv in H. destruct H as [[s3 [H3 H]]|[H3 Hn]].
  2:{ rewrite withst_eq in H3. destruct (keeps_restore_snapshot _ _ _ _ H3) as [A3 [B3 C3]].
      repeat split; congruence. }
  rewrite withst_eq in H3. destruct (keeps_restore_snapshot _ _ _ _ H3) as [A3 [B3 _]].
  apply bind_inv in H. destruct H as [[s4 [H4 H]]|[H4 Hn]].
  2:{ rewrite withst_eq in H4. destruct (is_clean s3).
      - inversion H4; subst. congruence.
      - destruct (keeps_restore_snapshot _ _ _ _ H4) as [A4 [B4 C4]]. repeat split; congruence. }
  assert (K4 : stk s4 = stk s3 /\ nfid s4 = nfid s3).
  { rewrite withst_eq in H4. destruct (is_clean s3).
    - inversion H4; subst; auto.
    - destruct (keeps_restore_snapshot _ _ _ _ H4) as [A4 [B4 _]]. auto. }
  destruct K4 as [A4 B4]. inversion H; subst.
  destruct (stk_upd_head s4 (fun f => f_rbexc f true)) as [A5 B5]; [intros; split; reflexivity|].
  repeat split; try congruence.
Qed.

Lemma flush_with_spec : forall body, (forall n d e, keeps (body n d e)) ->
  forall st r st', flush_with body st = (r, st') -> r <> Unmodelled ->
  out1 (nfid st) (stk st) r (nfid st') (stk st') /\ r <> Err E_ILLEGAL.
Proof.
  intros body Hb st r st' H Hr. unfold flush_with in H.
  destruct (is_clean st).
  { inversion H; subst. split; [left; auto|discriminate]. }
  pose proof (stk_autobegin st) as Hab.
  destruct (stack (autobegin st)) as [|f rest] eqn:E; [inversion H; subst; congruence|].
  destruct (check_prereq f M_begin) eqn:Ec.
  { inversion H; subst. split.
    - right; left. rewrite <- Hab. auto.
    - intros X. inversion X. eapply check_prereq_not_illegal; eauto. }
  apply prereq_begin_active in Ec.
  match type of H with (match ?X with _ => _ end) = _ => destruct X as [r2 st2] eqn:E2 end.
  destruct (Hb _ _ _ _ _ _ E2) as [A2 [B2 C2]].
  destruct r2.
  - inversion H; subst. split; [|discriminate]. right; left. rewrite <- Hab. cbn. split; congruence.
  - destruct (flush_fail st2) as [r3 st3] eqn:E3.
    assert (Hr3 : r3 <> Unmodelled). { destruct r3; inversion H; subst; congruence. }
    destruct (flush_fail_spec _ _ _ E3 Hr3) as [A3 [B3 C3]].
    assert (Ha : head_active (stk (autobegin st))). { unfold stk. rewrite E. cbn. rewrite Ec. exact I. }
    destruct r3; inversion H; subst; [| |congruence].
    + split; [|exact C2]. right; right. rewrite <- Hab. cbn [fst snd].
      repeat split; try congruence.
    + split; [|exact C3]. right; right. rewrite <- Hab. cbn [fst snd]. repeat split; try congruence.
  - inversion H; subst. congruence.
Qed.
Lemma flush_spec : forall st r st', flush st = (r, st') -> r <> Unmodelled ->
  out1 (nfid st) (stk st) r (nfid st') (stk st') /\ r <> Err E_ILLEGAL.
Proof. apply flush_with_spec. apply keeps_flush_exec. Qed.

(* on a non-empty stack *)
Definition out2 (k : K) (r : res) (k' : K) : Prop := k' = k \/ (r <> Ok /\ head_active k /\ k' = deact k).

Lemma out1_nonempty : forall nf k r nf' k', k <> [] -> out1 nf k r nf' k' -> out2 k r k' /\ nf' = nf.
Proof.
  intros nf k r nf' k' Hk H. destruct k as [|e k0]; [congruence|]. cbn in H.
  destruct H as [[A B]|[[A B]|[A [B [C D]]]]]; subst; split; auto; [left|left|right]; auto.
Qed.

Lemma flush_loop_spec : forall n st r st', flush_loop n st = (r, st') -> r <> Unmodelled -> stk st <> [] ->
  out2 (stk st) r (stk st') /\ nfid st' = nfid st /\ r <> Err E_ILLEGAL /\ (r = Ok -> stk st' = stk st).
Proof.
  induction n as [|n IH]; intros st r st' H Hr Hk; cbn [flush_loop] in H.
  - inversion H; subst. repeat split; try discriminate. left; auto.
  - destruct (is_clean st).
    + inversion H; subst. repeat split; try discriminate; auto. left; auto.
    + apply bind_inv in H. destruct H as [[s1 [H1 H2]]|[H1 Hn]].
      * destruct (flush_spec _ _ _ H1) as [A _]; [discriminate|].
        apply out1_nonempty in A; auto. destruct A as [[A|[A _]] B]; [|congruence].
        destruct (IH _ _ _ H2 Hr) as [C [D [E F]]]; [congruence|].
        rewrite A in C. repeat split; try congruence. intros X. rewrite F; auto.
      * destruct (flush_spec _ _ _ H1 Hr) as [A A'].
        apply out1_nonempty in A; auto. destruct A as [A B]. repeat split; auto. congruence.
Qed.

Lemma check_moves_ok : forall st, check_moves M_prepare PREPARED st = (Ok, st) /\
  check_moves M_commit CLOSED st = (Ok, st) /\ check_moves M_rollback CLOSED st = (Ok, st).
Proof. intros st. repeat split; reflexivity. Qed.

Lemma close_head_spec : forall st r st', close_head st = (r, st') -> r <> Unmodelled ->
  r = Ok /\ stk st' = tl (stk st) /\ nfid st' = nfid st /\ stk st <> [].
Proof.
  intros st r st' H Hr. unfold close_head in H. destruct (stack st) as [|f rest] eqn:E; [inversion H; subst; congruence|].
  assert (Hs : stk (set_stack st rest) = tl (stk st)). { unfold stk. rewrite E. reflexivity. }
  assert (Hne : stk st <> []). { unfold stk. rewrite E. discriminate. }
  destruct (fconn f && live_state (fstate f)).
  - destruct (fnested f).
    + unfold db_rollback_to in H. destruct (drop_to _ _) as [[|[m sn] l0]|]; inversion H; subst; try congruence.
      repeat split; auto.
    + inversion H; subst. repeat split; auto.
  - inversion H; subst. repeat split; auto.
Qed.

Lemma prepare_head_spec : forall st r st', prepare_head st = (r, st') -> r <> Unmodelled ->
  forall n rest, stk st = (n, ACTIVE) :: rest ->
  nfid st' = nfid st /\ r <> Err E_ILLEGAL /\
  ((r = Ok /\ stk st' = (n, PREPARED) :: rest) \/ (r <> Ok /\ out2 (stk st) r (stk st'))).
Proof.
  intros st r st' H Hr n rest Hk. unfold prepare_head in H.
  destruct (stack st) as [|f fr] eqn:E; [inversion H; subst; congruence|].
  assert (Hf : fstate f = ACTIVE). { unfold stk in Hk. rewrite E in Hk. cbn in Hk. congruence. }
  rewrite Hf in H. change (tstate_eqb ACTIVE PREPARED) with false in H. cbv iota in H.
  assert (Hc : check_prereq f M_prepare = None) by (unfold check_prereq; rewrite Hf; reflexivity).
  rewrite Hc in H.
  apply bind_inv in H. destruct H as [[s1 [H1 H2]]|[H1 Hn]].
  - destruct (flush_loop_spec _ _ _ _ H1) as [A [B [C D]]]; [discriminate|rewrite Hk; discriminate|].
    specialize (D eq_refl).
    apply bind_inv in H2. destruct H2 as [[s2 [H2 H3]]|[H2 Hn]]; [|inversion H2; subst; congruence].
    inversion H2; subst s2. destruct (check_moves_ok (set_head_state PREPARED s1)) as [X _].
    rewrite X in H3. inversion H3; subst.
    destruct (stk_set_head_state PREPARED s1) as [P Q]. rewrite D, Hk in P.
    repeat split; try congruence. left. auto.
  - destruct (flush_loop_spec _ _ _ _ H1 Hr) as [A [B [C D]]]; [rewrite Hk; discriminate|].
    repeat split; auto.
Qed.

Definition sufD (k : K) (r : res) (k' : K) : Prop :=
  exists pre suf, k = pre ++ suf /\ (k' = suf \/ (r <> Ok /\ head_active suf /\ k' = deact suf)).
Lemma sufD_refl : forall k r, sufD k r k.
Proof. intros. exists [], k. split; auto. Qed.
Lemma sufD_out2 : forall k r k', out2 k r k' -> sufD k r k'.
Proof. intros k r k' H. exists [], k. split; auto. Qed.
Lemma sufD_trans : forall k k1 k2 r, sufD k Ok k1 -> sufD k1 r k2 -> sufD k r k2.
Proof.
  intros k k1 k2 r [p1 [s1 [E1 H1]]] [p2 [s2 [E2 H2]]].
  destruct H1 as [H1|[H1 _]]; [|congruence]. subst.
  exists (p1 ++ p2), s2. split; [rewrite app_assoc; reflexivity|auto].
Qed.
Lemma sufD_tl : forall k r, sufD k r (tl k).
Proof. intros [|e k] r; [apply sufD_refl|]. exists [e], k. split; auto. Qed.

Lemma Kwf_sufD : forall nf k r k', Kwf nf k -> sufD k r k' -> Kwf nf k'.
Proof.
  intros nf k r k' H [pre [suf [E Hs]]]. subst. apply Kwf_suffix in H.
  destruct Hs as [Hs|[_ [_ Hs]]]; subst; auto. apply Kwf_deact; auto.
Qed.

(* SessionTransaction.commit of the innermost frame *)
Lemma commit_head_spec : forall st r st', commit_head st = (r, st') -> r <> Unmodelled -> Kwf (nfid st) (stk st) ->
  nfid st' = nfid st /\ r <> Err E_ILLEGAL /\
  ((r = Ok /\ stk st' = tl (stk st) /\ stk st <> []) \/ (r <> Ok /\ out2 (stk st) r (stk st'))).
Proof.
  intros st r st' H Hr Hw. unfold commit_head in H.
  destruct (stack st) as [|f fr] eqn:E; [inversion H; subst; congruence|].
  destruct (check_prereq f M_commit) eqn:Ec.
  { inversion H; subst. repeat split; auto.
    - intros X; inversion X. eapply check_prereq_not_illegal; eauto.
    - right. split; [discriminate|left; auto]. }
  assert (Hf : fstate f = ACTIVE).
  { destruct Hw as [_ Hw]. unfold stk in Hw. rewrite E in Hw. cbn in Hw. destruct Hw as [[Hw|Hw] _]; auto.
    unfold check_prereq in Ec. rewrite Hw in Ec. cbn in Ec. discriminate. }
  assert (Hk : stk st = (fid f, ACTIVE) :: map (fun f => (fid f, fstate f)) fr).
  { unfold stk. rewrite E. cbn. rewrite Hf. reflexivity. }
  apply bind_inv in H. destruct H as [[s1 [H1 H]]|[H1 Hn]].
  2:{ destruct (prepare_head_spec _ _ _ H1 Hr _ _ Hk) as [A [B [[C _]|[C D]]]]; [congruence|].
      repeat split; auto. }
  destruct (prepare_head_spec _ _ _ H1) with (n := fid f) (rest := map (fun f => (fid f, fstate f)) fr) as [A [B [[_ C]|[C _]]]];
    [discriminate|exact Hk| |congruence].
  apply bind_inv in H. destruct H as [[s2 [H2 H]]|[H2 Hn]].
  2:{ destruct (keeps_head_db_commit _ _ _ H2) as [_ [_ X]].
      unfold head_db_commit in H2. destruct (stack s1) eqn:E1; [inversion H2; subst; congruence|].
      destruct (fconn f0); [|inversion H2; subst; congruence].
      destruct (fnested f0); [|inversion H2; subst; congruence].
      unfold db_release in H2. destruct (drop_to _ _) as [[|e l0]|]; inversion H2; subst; congruence. }
  destruct (keeps_head_db_commit _ _ _ H2) as [A2 [B2 _]].
  apply bind_inv in H. destruct H as [[s3 [H3 H]]|[H3 Hn]]; [|inversion H3; subst; congruence].
  inversion H3; subst s3. clear H3.
  apply bind_inv in H. destruct H as [[s4 [H4 H]]|[H4 Hn]]; [|inversion H4; subst; congruence].
  inversion H4; subst s4. clear H4.
  destruct (stk_set_head_state COMMITTED s2) as [A3 B3].
  destruct (keepsf_remove_snapshot (set_head_state COMMITTED s2)) as [A4 B4].
  apply bind_inv in H. destruct H as [[s5 [H5 H]]|[H5 Hn]].
  2:{ destruct (close_head_spec _ _ _ H5 Hr) as [X _]. congruence. }
  destruct (close_head_spec _ _ _ H5) as [_ [A5 [B5 _]]]; [discriminate|].
  destruct (check_moves_ok s5) as [_ [X _]]. rewrite X in H. inversion H; subst.
  repeat split; try congruence; try discriminate.
  left. repeat split; auto; [|rewrite Hk; discriminate].
  rewrite A5, A4, A3, A2, C, Hk. reflexivity.
Qed.

Lemma commit_head_sufD : forall st r st', commit_head st = (r, st') -> r <> Unmodelled -> Kwf (nfid st) (stk st) ->
  nfid st' = nfid st /\ r <> Err E_ILLEGAL /\ sufD (stk st) r (stk st') /\ (r = Ok -> stk st' = tl (stk st) /\ stk st <> []).
Proof.
  intros st r st' H Hr Hw. destruct (commit_head_spec _ _ _ H Hr Hw) as [A [B [[C [D E]]|[C D]]]].
  - repeat split; auto. rewrite D. apply sufD_tl.
  - repeat split; auto; try congruence. apply sufD_out2; auto.
Qed.

Lemma commit_upto_spec : forall fuel n st r st', commit_upto fuel n st = (r, st') -> r <> Unmodelled -> Kwf (nfid st) (stk st) ->
  nfid st' = nfid st /\ r <> Err E_ILLEGAL /\ sufD (stk st) r (stk st').
Proof.
  induction fuel as [|fuel IH]; intros n st r st' H Hr Hw; cbn [commit_upto] in H.
  - inversion H; subst; congruence.
  - destruct (head_is n st).
    + destruct (commit_head_sufD _ _ _ H Hr Hw) as [A [B [C _]]]. auto.
    + apply bind_inv in H. destruct H as [[s1 [H1 H2]]|[H1 Hn]].
      * destruct (commit_head_sufD _ _ _ H1) as [A [B [C D]]]; [discriminate|auto|].
        assert (Hw1 : Kwf (nfid s1) (stk s1)). { rewrite A. eapply Kwf_sufD; eauto. }
        destruct (IH _ _ _ _ H2 Hr Hw1) as [A2 [B2 C2]].
        repeat split; try congruence. eapply sufD_trans; eauto.
      * destruct (commit_head_sufD _ _ _ H1 Hr Hw) as [A [B [C _]]]. auto.
Qed.
Lemma commit_all_spec : forall fuel st r st', commit_all fuel st = (r, st') -> r <> Unmodelled -> Kwf (nfid st) (stk st) ->
  nfid st' = nfid st /\ r <> Err E_ILLEGAL /\ sufD (stk st) r (stk st').
Proof.
  induction fuel as [|fuel IH]; intros st r st' H Hr Hw; cbn [commit_all] in H.
  - inversion H; subst; congruence.
  - destruct (stack st) eqn:E.
    + inversion H; subst. repeat split; try discriminate. apply sufD_refl.
    + apply bind_inv in H. destruct H as [[s1 [H1 H2]]|[H1 Hn]].
      * destruct (commit_head_sufD _ _ _ H1) as [A [B [C D]]]; [discriminate|auto|].
        assert (Hw1 : Kwf (nfid s1) (stk s1)). { rewrite A. eapply Kwf_sufD; eauto. }
        destruct (IH _ _ _ H2 Hr Hw1) as [A2 [B2 C2]].
        repeat split; try congruence. eapply sufD_trans; eauto.
      * destruct (commit_head_sufD _ _ _ H1 Hr Hw) as [A [B [C _]]]. auto.
Qed.

Lemma close_above_spec : forall fuel n st r st', close_above fuel n st = (r, st') -> r <> Unmodelled ->
  r = Ok /\ nfid st' = nfid st /\ sufD (stk st) Ok (stk st').
Proof.
  induction fuel as [|fuel IH]; intros n st r st' H Hr; cbn [close_above] in H.
  - inversion H; subst; congruence.
  - destruct (head_is n st).
    + inversion H; subst. repeat split; auto. apply sufD_refl.
    + apply bind_inv in H. destruct H as [[s1 [H1 H2]]|[H1 Hn]].
      * destruct (close_head_spec _ _ _ H1) as [_ [A [B _]]]; [discriminate|].
        destruct (IH _ _ _ _ H2 Hr) as [C [D E]]. repeat split; try congruence.
        eapply sufD_trans; [|exact E]. rewrite A. apply sufD_tl.
      * destruct (close_head_spec _ _ _ H1 Hr) as [X _]. congruence.
Qed.
Lemma close_all_spec : forall fuel st r st', close_all fuel st = (r, st') -> r <> Unmodelled ->
  r = Ok /\ nfid st' = nfid st /\ stk st' = [].
Proof.
  induction fuel as [|fuel IH]; intros st r st' H Hr; cbn [close_all] in H.
  - inversion H; subst; congruence.
  - destruct (stack st) eqn:E.
    + inversion H; subst. repeat split; auto. unfold stk. rewrite E. reflexivity.
    + apply bind_inv in H. destruct H as [[s1 [H1 H2]]|[H1 Hn]].
      * destruct (close_head_spec _ _ _ H1) as [_ [A [B _]]]; [discriminate|].
        destruct (IH _ _ _ H2 Hr) as [C [D F]]. repeat split; try congruence.
      * destruct (close_head_spec _ _ _ H1 Hr) as [X _]. congruence.
Qed.

(* SessionTransaction.rollback of the innermost frame: the frame leaves the stack; an error can only
   leave it DEACTIVE *)
Lemma rollback_head_spec : forall st r st', rollback_head st = (r, st') -> r <> Unmodelled -> Kwf (nfid st) (stk st) ->
  nfid st' = nfid st /\ r <> Err E_ILLEGAL /\ sufD (stk st) r (stk st').
Proof.
  intros st r st' H Hr Hw. unfold rollback_head in H.
  destruct (stack st) as [|f fr] eqn:E; [inversion H; subst; congruence|].
  assert (Hk : stk st = (fid f, fstate f) :: map (fun f => (fid f, fstate f)) fr). { unfold stk. rewrite E. reflexivity. }
  assert (Hst : fstate f = ACTIVE \/ fstate f = DEACTIVE). { destruct Hw as [_ Hw]. rewrite Hk in Hw. tauto. }
  apply bind_inv in H.
  (* phase 1: the database rollback and the first restore *)
  assert (P1 : forall s1 r1, (if live_state (fstate f)
                 then head_db_rollback ;; lift (set_head_state DEACTIVE) ;; restore_snapshot (fnested f) else ret) st = (r1, s1) ->
               r1 <> Unmodelled -> nfid s1 = nfid st /\ r1 <> Err E_ILLEGAL /\ (r1 <> Ok -> out2 (stk st) r1 (stk s1)) /\
               (r1 = Ok -> stk s1 = deact (stk st))).
  { intros s1 r1 H1 Hr1. destruct Hst as [Hst|Hst]; rewrite Hst in H1; cbn [live_state] in H1.
    - apply bind_inv in H1. destruct H1 as [[s2 [H2 H1]]|[H2 Hn]].
      + destruct (keeps_head_db_rollback _ _ _ H2) as [A2 [B2 _]].
        apply bind_inv in H1. destruct H1 as [[s3 [H3 H1]]|[H3 Hn]]; [|inversion H3; subst; congruence].
        inversion H3; subst s3.
        destruct (stk_set_head_state DEACTIVE s2) as [A3 B3].
        destruct (keeps_restore_snapshot _ _ _ _ H1) as [A4 [B4 C4]].
        assert (D : stk s1 = deact (stk st)). { rewrite A4, A3, A2, Hk. reflexivity. }
        repeat split; try congruence.
        intros Hno. right. repeat split; auto. rewrite Hk, Hst. exact I.
      + destruct (keeps_head_db_rollback _ _ _ H2) as [A2 [B2 C2]].
        repeat split; try congruence. intros _. left; auto.
    - inversion H1; subst. repeat split; try discriminate; try congruence. intros _. rewrite Hk, Hst. reflexivity. }
  destruct H as [[s1 [H1 H]]|[H1 Hn]].
  2:{ destruct (P1 _ _ H1 Hr) as [A [B [C _]]]. repeat split; auto. apply sufD_out2; auto. }
  destruct (P1 _ _ H1) as [A [_ [_ D]]]; [discriminate|]. specialize (D eq_refl).
  apply bind_inv in H. destruct H as [[s2 [H2 H]]|[H2 Hn]].
  2:{ rewrite withst_eq in H2. destruct (is_clean s1); [inversion H2; subst; congruence|].
      destruct (keeps_restore_snapshot _ _ _ _ H2) as [A2 [B2 C2]]. repeat split; try congruence.
      rewrite A2, D. destruct Hst as [Hst|Hst].
      - exists [], (stk st). split; auto. right. repeat split; auto. rewrite Hk, Hst; exact I.
      - rewrite Hk, Hst. cbn. apply sufD_refl. }
  assert (K2 : stk s2 = stk s1 /\ nfid s2 = nfid s1).
  { rewrite withst_eq in H2. destruct (is_clean s1); [inversion H2; subst; auto|].
    destruct (keeps_restore_snapshot _ _ _ _ H2) as [A2 [B2 _]]. auto. }
  destruct K2 as [A2 B2].
  apply bind_inv in H. destruct H as [[s3 [H3 H]]|[H3 Hn]].
  2:{ destruct (close_head_spec _ _ _ H3 Hr) as [X _]. congruence. }
  destruct (close_head_spec _ _ _ H3) as [_ [A3 [B3 _]]]; [discriminate|].
  destruct (check_moves_ok s3) as [_ [_ X]]. rewrite X in H. inversion H; subst.
  repeat split; try congruence; try discriminate.
  rewrite A3, A2, D, Hk. cbn. exists [(fid f, fstate f)], (map (fun f => (fid f, fstate f)) fr). split; auto.
Qed.

Lemma rollback_all_spec : forall fuel st r st', rollback_all fuel st = (r, st') -> r <> Unmodelled -> Kwf (nfid st) (stk st) ->
  nfid st' = nfid st /\ r <> Err E_ILLEGAL /\ sufD (stk st) r (stk st').
Proof.
  induction fuel as [|fuel IH]; intros st r st' H Hr Hw; cbn [rollback_all] in H.
  - inversion H; subst; congruence.
  - destruct (stack st) eqn:E.
    + inversion H; subst. repeat split; try discriminate. apply sufD_refl.
    + destruct (check_prereq f M_rollback) eqn:Ec.
      { inversion H; subst. repeat split; auto; [|apply sufD_refl].
        intros X; inversion X. eapply check_prereq_not_illegal; eauto. }
      apply bind_inv in H. destruct H as [[s1 [H1 H2]]|[H1 Hn]].
      * destruct (rollback_head_spec _ _ _ H1) as [A [B C]]; [discriminate|auto|].
        assert (Hw1 : Kwf (nfid s1) (stk s1)). { rewrite A. eapply Kwf_sufD; eauto. }
        destruct (IH _ _ _ H2 Hr Hw1) as [A2 [B2 C2]].
        repeat split; try congruence. eapply sufD_trans; eauto.
      * apply (rollback_head_spec _ _ _ H1 Hr Hw).
Qed.

(* ------------------------------------------------------------------ operations *)
Definition oprel (nf : nat) (k : K) (r : res) (nf' : nat) (k' : K) : Prop :=
  exists k0 nf0, ((k0, nf0) = (k, nf) \/ (k0, nf0) = abK nf k) /\
    ((sufD k0 r k' /\ nf' = nf0) \/ (head_active k0 /\ k' = (nf0, ACTIVE) :: k0 /\ nf' = S nf0)).

Lemma out1_oprel : forall nf k r nf' k', out1 nf k r nf' k' -> oprel nf k r nf' k'.
Proof.
  intros nf k r nf' k' [[A B]|[[A B]|[A [B [C D]]]]].
  - exists k, nf. split; auto. left. subst. split; auto. apply sufD_refl.
  - exists (fst (abK nf k)), (snd (abK nf k)). split; [right; destruct (abK nf k); reflexivity|].
    left. subst. split; auto. apply sufD_refl.
  - exists (fst (abK nf k)), (snd (abK nf k)). split; [right; destruct (abK nf k); reflexivity|].
    left. subst. split; auto. exists [], (fst (abK nf k)). split; auto.
Qed.

Lemma oprel_Kwf : forall nf k r nf' k', Kwf nf k -> oprel nf k r nf' k' -> Kwf nf' k'.
Proof.
  intros nf k r nf' k' Hw [k0 [nf0 [H0 H]]].
  assert (Hw0 : Kwf nf0 k0).
  { destruct H0 as [H0|H0]; inversion H0; subst; auto.
    pose proof (Kwf_abK nf k Hw) as X. rewrite <- H0 in X. exact X. }
  destruct H as [[H1 H2]|[H1 [H2 H3]]]; subst.
  - eapply Kwf_sufD; eauto.
  - apply Kwf_push; auto.
Qed.

Lemma connection_spec : forall st r st', connection st = (r, st') ->
  (stk st', nfid st') = abK (nfid st) (stk st) /\ r <> Err E_ILLEGAL.
Proof.
  intros st r st' H. unfold connection in H. rewrite bind_ok with (st1 := autobegin st) in H by reflexivity.
  destruct (keeps_provision _ _ _ H) as [A [B C]]. rewrite A, B. split; auto. apply stk_autobegin.
Qed.

Lemma out1_after_ab : forall nf k r k' nf', out1 (snd (abK nf k)) (fst (abK nf k)) r nf' k' -> out1 nf k r nf' k'.
Proof.
  intros nf k r k' nf' H. destruct k as [|e k0]; [|exact H]. cbn in *.
  destruct H as [[A B]|[[A B]|[A [B [C D]]]]]; subst; [right; left|right; left|right; right]; auto.
Qed.

Lemma abK_idem : forall nf k, abK (snd (abK nf k)) (fst (abK nf k)) = abK nf k.
Proof. intros nf [|e k]; reflexivity. Qed.

Lemma out1_then_ab : forall nf k nf1 k1 r st2,
  out1 nf k Ok nf1 k1 -> (stk st2, nfid st2) = abK nf1 k1 -> out1 nf k r (nfid st2) (stk st2).
Proof.
  intros nf k nf1 k1 r st2 A B.
  assert (B1 : stk st2 = fst (abK nf1 k1)) by (rewrite <- B; reflexivity).
  assert (B2 : nfid st2 = snd (abK nf1 k1)) by (rewrite <- B; reflexivity).
  destruct A as [[A1 A2]|[[A1 A2]|[A1 _]]]; [| |congruence]; subst; right; left.
  - auto.
  - rewrite abK_idem in B1, B2. auto.
Qed.

Lemma load_expired_spec : forall o st r st', load_expired o st = (r, st') -> r <> Unmodelled ->
  out1 (nfid st) (stk st) r (nfid st') (stk st') /\ r <> Err E_ILLEGAL.
Proof.
  intros o st r st' H Hr. unfold load_expired in H. destruct (negb _).
  { inversion H; subst. split; [left; auto|discriminate]. }
  apply bind_inv in H. destruct H as [[s1 [H1 H]]|[H1 Hn]]; [|apply (flush_spec _ _ _ H1 Hr)].
  destruct (flush_spec _ _ _ H1) as [A _]; [discriminate|].
  apply bind_inv in H. destruct H as [[s2 [H2 H]]|[H2 Hn]].
  - destruct (connection_spec _ _ _ H2) as [B _].
    assert (KL : keeps (load_row_attached o)).
    { intros sa ra sa' Ha. unfold load_row_attached in Ha. destruct (oatt (objs sa o)); [apply (keeps_load_row _ _ _ _ Ha)|].
      inversion Ha; subst. repeat split; auto; discriminate. }
    destruct (KL _ _ _ H) as [C [D E]]. split; auto.
    rewrite C, D. eapply out1_then_ab; eauto.
  - destruct (connection_spec _ _ _ H2) as [B C]. split; auto.
    eapply out1_then_ab; eauto.
Qed.

Lemma modified_event_spec : forall o st,
  (stk (modified_event o st), nfid (modified_event o st)) = (stk st, nfid st) \/
  (stk (modified_event o st), nfid (modified_event o st)) = abK (nfid st) (stk st).
Proof.
  intros o st. unfold modified_event. destruct (omod (objs st o)); [left; auto|].
  destruct (_ && _); [|left; reflexivity]. right.
  rewrite stk_autobegin. reflexivity.
Qed.

Lemma out1_of_pair : forall nf k r st',
  ((stk st', nfid st') = (k, nf) \/ (stk st', nfid st') = abK nf k) -> out1 nf k r (nfid st') (stk st').
Proof.
  intros nf k r st' [H|H].
  - inversion H as [[A B]]. left; auto.
  - right; left. rewrite <- H. auto.
Qed.

Lemma save_or_update_spec : forall o st r st', save_or_update o st = (r, st') ->
  out1 (nfid st) (stk st) r (nfid st') (stk st') /\ r <> Err E_ILLEGAL.
Proof.
  intros o st r st' H. unfold save_or_update in H. destruct (okey (objs st o)).
  - unfold update_impl in H. destruct (odelf _); [inversion H; subst; split; [left; auto|discriminate]|].
    destruct (negb _); [inversion H; subst; split; [left; auto|discriminate]|].
    destruct (keeps_im_add _ _ _ _ H) as [A [B C]]. split; auto.
    apply out1_of_pair. right. rewrite A, B. apply stk_autobegin.
  - inversion H; subst. split; [|discriminate]. apply out1_of_pair. right.
    destruct (mem o (snew (autobegin st))); apply stk_autobegin.
Qed.

Lemma t_commit_spec : forall n st r st', t_commit n st = (r, st') -> r <> Unmodelled -> Kwf (nfid st) (stk st) ->
  nfid st' = nfid st /\ r <> Err E_ILLEGAL /\ sufD (stk st) r (stk st').
Proof.
  intros n st r st' H Hr Hw. unfold t_commit in H.
  destruct (find_frame n st); [|inversion H; subst; repeat split; try discriminate; apply sufD_refl].
  destruct (check_prereq f M_commit) eqn:E1.
  { inversion H; subst. repeat split; [|apply sufD_refl]. intros X; inversion X. eapply check_prereq_not_illegal; eauto. }
  destruct (tstate_eqb _ _); [eapply commit_upto_spec; eauto|].
  destruct (check_prereq f M_prepare) eqn:E2.
  { inversion H; subst. repeat split; [|apply sufD_refl]. intros X; inversion X. eapply check_prereq_not_illegal; eauto. }
  eapply commit_upto_spec; eauto.
Qed.
Lemma t_rollback_spec : forall n st r st', t_rollback n st = (r, st') -> r <> Unmodelled -> Kwf (nfid st) (stk st) ->
  nfid st' = nfid st /\ r <> Err E_ILLEGAL /\ sufD (stk st) r (stk st').
Proof.
  intros n st r st' H Hr Hw. unfold t_rollback in H.
  destruct (find_frame n st); [|inversion H; subst; repeat split; try discriminate; apply sufD_refl].
  destruct (check_prereq f M_rollback) eqn:E1.
  { inversion H; subst. repeat split; [|apply sufD_refl]. intros X; inversion X. eapply check_prereq_not_illegal; eauto. }
  apply bind_inv in H. destruct H as [[s1 [H1 H2]]|[H1 Hn]].
  - destruct (close_above_spec _ _ _ _ _ H1) as [_ [A B]]; [discriminate|].
    assert (Hw1 : Kwf (nfid s1) (stk s1)). { rewrite A. eapply Kwf_sufD; eauto. }
    destruct (rollback_head_spec _ _ _ H2 Hr Hw1) as [C [D E]].
    repeat split; try congruence. eapply sufD_trans; eauto.
  - destruct (close_above_spec _ _ _ _ _ H1 Hr) as [X _]. congruence.
Qed.

Lemma stk_fold_mod : forall {A} (l : list A) (g : sess -> A -> sess) st,
  (forall s x, stack (g s x) = stack s /\ nfid (g s x) = nfid s) ->
  stack (fold_left g l st) = stack st /\ nfid (fold_left g l st) = nfid st.
Proof.
  intros A l g. induction l; intros st Hg; cbn; auto.
  destruct (IHl (g st a) Hg) as [E1 E2]. destruct (Hg st a) as [E3 E4]. split; congruence.
Qed.

Theorem do_op_oprel : forall p st r st', do_op p st = (r, st') -> r <> Unmodelled -> Kwf (nfid st) (stk st) ->
  oprel (nfid st) (stk st) r (nfid st') (stk st') /\ r <> Err E_ILLEGAL.
Proof.
  intros p st r st' H Hr Hw. destruct p; cbn [do_op] in H.
  - (* new *) destruct (save_or_update_spec _ _ _ _ H) as [A B]. split; auto. apply out1_oprel. exact A.
  - destruct (Nat.ltb o (nobj st)); [|inversion H; subst; congruence].
    destruct (save_or_update_spec _ _ _ _ H) as [A B]. split; auto. apply out1_oprel. exact A.
  - destruct (negb _); inversion H; subst; [congruence|]. split; [|discriminate].
    apply out1_oprel. apply out1_of_pair.
    match goal with |- context [modified_event ?o ?s] => destruct (modified_event_spec o s) as [X|X]; rewrite X end; auto.
  - destruct (negb _); [inversion H; subst; congruence|].
    apply bind_inv in H. destruct H as [[s1 [H1 H2]]|[H1 Hn]].
    + assert (A : out1 (nfid st) (stk st) Ok (nfid s1) (stk s1)).
      { destruct (needs_pk_load _); [apply (load_expired_spec _ _ _ _ H1); discriminate|].
        inversion H1; subst. left; auto. }
      inversion H2; subst. split; [|discriminate]. apply out1_oprel.
      match goal with |- context [modified_event ?o ?s] => destruct (modified_event_spec o s) as [X|X] end.
      * inversion X as [[X1 X2]]. rewrite X1, X2.
        destruct A as [[A1 A2]|[[A1 A2]|[A1 _]]]; [left|right; left|congruence]; auto.
      * eapply out1_then_ab; [exact A|]. exact X.
    + destruct (needs_pk_load _); [|inversion H1; subst; congruence].
      destruct (load_expired_spec _ _ _ _ H1 Hr) as [A B]. split; auto. apply out1_oprel; auto.
  - (* delete *)
    destruct (negb _); [inversion H; subst; congruence|].
    destruct (okey _); [|inversion H; subst; split; [apply out1_oprel; left; auto|discriminate]].
    destruct (negb _); [inversion H; subst; congruence|].
    destruct (mem o (sdel (autobegin st))).
    + inversion H; subst. split; [|discriminate]. apply out1_oprel. apply out1_of_pair. right. apply stk_autobegin.
    + assert (K1 : keeps (im_add o ;; lift (fun s => set_sdel s (sdel s ++ [o])))).
      { apply keeps_bind; [apply keeps_im_add|apply keeps_lift; intros s; split; reflexivity]. }
      destruct (K1 _ _ _ H) as [A [B C]]. split; auto. apply out1_oprel. apply out1_of_pair. right.
      rewrite A, B. apply stk_autobegin.
  - (* flush *) destruct (flush_spec _ _ _ H Hr) as [A B]. split; auto. apply out1_oprel; auto.
  - (* begin_nested *)
    set (st0 := set_handles st (handles st ++ [None])) in *.
    pose proof (stk_autobegin st0) as Hab. change (stk st0) with (stk st) in Hab. change (nfid st0) with (nfid st) in Hab.
    destruct (stack (autobegin st0)) as [|f fr] eqn:E; [inversion H; subst; congruence|].
    destruct (check_prereq f M_begin) eqn:Ec.
    { inversion H; subst. split; [|intros X; inversion X; eapply check_prereq_not_illegal; eauto].
      apply out1_oprel. apply out1_of_pair. right. exact Hab. }
    apply prereq_begin_active in Ec.
    assert (Ha : head_active (stk (autobegin st0))). { unfold stk. rewrite E. cbn. rewrite Ec. exact I. }
    apply bind_inv in H. destruct H as [[s1 [H1 H2]]|[H1 Hn]].
    + destruct (flush_spec _ _ _ H1) as [A _]; [discriminate|].
      apply out1_nonempty in A; [|unfold stk; rewrite E; discriminate].
      destruct A as [[A|[A _]] B]; [|congruence].
      inversion H2; subst. split; [|discriminate].
      exists (stk (autobegin st0)), (nfid (autobegin st0)). split; [right; exact Hab|].
      right. split; auto. unfold stk at 1. cbn. fold (stk s1). rewrite A, B. auto.
    + destruct (flush_spec _ _ _ H1 Hr) as [A B]. split; auto.
      apply out1_nonempty in A; [|unfold stk; rewrite E; discriminate]. destruct A as [A A'].
      exists (stk (autobegin st0)), (nfid (autobegin st0)). split; [right; exact Hab|].
      left. split; auto. apply sufD_out2; auto.
  - (* Session.commit *)
    pose proof (stk_autobegin st) as Hab.
    assert (Hw1 : Kwf (nfid (autobegin st)) (stk (autobegin st))).
    { pose proof (Kwf_abK _ _ Hw) as X. rewrite <- Hab in X. exact X. }
    destruct (commit_all_spec _ _ _ _ H Hr Hw1) as [A [B C]]. split; auto.
    exists (stk (autobegin st)), (nfid (autobegin st)). split; [right; exact Hab|]. left. auto.
  - (* Session.rollback *)
    destruct (rollback_all_spec _ _ _ _ H Hr Hw) as [A [B C]]. split; auto.
    exists (stk st), (nfid st). split; auto.
  - destruct (nth_error (handles st) h) as [[n|]|]; [| |inversion H; subst; congruence].
    + destruct (t_commit_spec _ _ _ _ H Hr Hw) as [A [B C]]. split; auto. exists (stk st), (nfid st). split; auto.
    + inversion H; subst. split; [apply out1_oprel; left; auto|discriminate].
  - destruct (nth_error (handles st) h) as [[n|]|]; [| |inversion H; subst; congruence].
    + destruct (t_rollback_spec _ _ _ _ H Hr Hw) as [A [B C]]. split; auto. exists (stk st), (nfid st). split; auto.
    + inversion H; subst. split; [apply out1_oprel; left; auto|discriminate].
  - (* close *)
    match type of H with close_all _ ?s = _ => assert (Hs : stk s = stk st /\ nfid s = nfid st) by (split; reflexivity) end.
    destruct Hs as [Hs1 Hs2].
    destruct (close_all_spec _ _ _ _ H Hr) as [A [B C]]. subst r. split; [|discriminate].
    exists (stk st), (nfid st). split; auto. left. split; [|congruence].
    rewrite C. exists (stk st), []. split; [rewrite app_nil_r; reflexivity|auto].
  - (* load *)
    destruct (negb _); [inversion H; subst; congruence|].
    destruct (odv _); [inversion H; subst; split; [apply out1_oprel; left; auto|discriminate]|].
    destruct (load_expired_spec _ _ _ _ H Hr) as [A B]. split; auto. apply out1_oprel; auto.
Qed.

(* ------------------------------------------------------------------ all histories *)
Inductive Reach (e : bool) : sess -> Prop :=
  | reach_init : Reach e (sess0 e)
  | reach_step : forall st p r st', Reach e st -> do_op p st = (r, st') -> r <> Unmodelled -> Reach e st'.

Lemma reach_Kwf : forall e st, Reach e st -> Kwf (nfid st) (stk st).
Proof.
  intros e st H. induction H.
  - split; cbn; auto.
  - destruct (do_op_oprel _ _ _ _ H0 H1 IHReach) as [A _]. eapply oprel_Kwf; eauto.
Qed.

(* the state of frame [n]: a frame that is not on the stack (any more) is CLOSED *)
Definition kst (k : K) (n : nat) : tstate :=
  match find (fun e => Nat.eqb (fst e) n) k with Some e => snd e | None => CLOSED end.
Definition frame_state (st : sess) (n : nat) : tstate := kst (stk st) n.

Definition allowed (s s' : tstate) : Prop :=
  s = s' \/ (s = ACTIVE /\ (s' = DEACTIVE \/ s' = CLOSED)) \/ (s = DEACTIVE /\ s' = CLOSED).

Lemma decr_lt : forall k b e, decr b k -> In e k -> fst e < b.
Proof.
  induction k as [|[n s] r IH]; intros b e H Hin; cbn in *; [contradiction|].
  destruct H as [H1 H2]. destruct Hin as [Hin|Hin]; [subst; auto|].
  specialize (IH _ _ H2 Hin). lia.
Qed.
Lemma kst_notin : forall k n, (forall e, In e k -> fst e <> n) -> kst k n = CLOSED.
Proof.
  intros k n H. unfold kst. destruct (find _ k) eqn:E; auto.
  apply find_some in E. destruct E as [E1 E2]. apply Nat.eqb_eq in E2. exfalso. eapply H; eauto.
Qed.
Lemma kst_cons : forall n0 s r n, kst ((n0, s) :: r) n = if Nat.eqb n0 n then s else kst r n.
Proof. intros. unfold kst. cbn. destruct (Nat.eqb n0 n); reflexivity. Qed.
Lemma kst_in_states : forall k n, kst k n <> CLOSED -> exists s, In (n, s) k /\ kst k n = s.
Proof.
  intros k n H. unfold kst in *. destruct (find _ k) as [[n0 s]|] eqn:E; [|congruence].
  apply find_some in E. destruct E as [E1 E2]. apply Nat.eqb_eq in E2. cbn in *. subst. eauto.
Qed.

Lemma Kwf_states : forall nf k n, Kwf nf k -> kst k n = ACTIVE \/ kst k n = DEACTIVE \/ kst k n = CLOSED.
Proof.
  intros nf k n [_ H]. destruct k as [|[n0 s] r]; [right; right; reflexivity|].
  rewrite kst_cons. destruct H as [H1 H2]. destruct (Nat.eqb n0 n); [tauto|].
  clear H1. induction r as [|[n1 s1] r IH]; [right; right; reflexivity|].
  rewrite kst_cons. destruct H2 as [H2 H3]. destruct (Nat.eqb n1 n); auto.
Qed.

(* frames of a suffix keep their state; frames of the dropped prefix become CLOSED *)
Lemma allowed_suffix : forall pre nf suf n, Kwf nf (pre ++ suf) -> allowed (kst (pre ++ suf) n) (kst suf n).
Proof.
  induction pre as [|[n0 s] pre IH]; intros nf suf n H; cbn [app].
  - left; reflexivity.
  - rewrite kst_cons. destruct (Nat.eqb_spec n0 n).
    + subst. assert (X : kst suf n = CLOSED).
      { apply kst_notin. intros e He Hc. destruct H as [[H1 H2] _].
        assert (In e (pre ++ suf)) by (apply in_or_app; auto).
        pose proof (decr_lt _ _ _ H2 H). lia. }
      rewrite X. destruct H as [_ [[H|H] _]]; subst; right; [left|right]; auto.
    + eapply IH. eapply Kwf_tail; eauto.
Qed.
Lemma allowed_deact : forall nf k n, Kwf nf k -> head_active k -> allowed (kst k n) (kst (deact k) n).
Proof.
  intros nf [|[n0 s] r] n H Ha; cbn in *; [left; auto|]. destruct s; try contradiction.
  rewrite !kst_cons. destruct (Nat.eqb n0 n); [right; left; auto|left; auto].
Qed.
Lemma allowed_trans : forall a b c, allowed a b -> allowed b c -> allowed a c.
Proof.
  unfold allowed. intros a b c H1 H2.
  destruct H1 as [H1|[[H1 [H1'|H1']]|[H1 H1']]], H2 as [H2|[[H2 [H2'|H2']]|[H2 H2']]]; subst; try discriminate; auto;
    try (right; left; split; auto; fail); try (right; right; split; auto; fail).
Qed.

Lemma allowed_sufD : forall nf k r k' n, Kwf nf k -> sufD k r k' -> allowed (kst k n) (kst k' n).
Proof.
  intros nf k r k' n Hw [pre [suf [E H]]]. subst k.
  destruct H as [H|[_ [Ha H]]]; subst k'.
  - eapply allowed_suffix; eauto.
  - eapply allowed_trans; [eapply allowed_suffix; eauto|].
    eapply allowed_deact; eauto. eapply Kwf_suffix; eauto.
Qed.

Lemma kst_abK : forall nf k n, n < nf -> kst (fst (abK nf k)) n = kst k n.
Proof.
  intros nf [|e k] n H; cbn; auto. rewrite kst_cons. destruct (Nat.eqb_spec nf n); [lia|reflexivity].
Qed.

Lemma oprel_allowed : forall nf k r nf' k' n, Kwf nf k -> oprel nf k r nf' k' -> n < nf ->
  allowed (kst k n) (kst k' n).
Proof.
  intros nf k r nf' k' n Hw [k0 [nf0 [H0 H]]] Hn.
  assert (Hw0 : Kwf nf0 k0 /\ kst k0 n = kst k n /\ nf <= nf0).
  { destruct H0 as [H0|H0]; inversion H0; subst; auto.
    pose proof (Kwf_abK nf k Hw) as X. rewrite <- H0 in X. cbn in X. split; auto.
    assert (Y : k0 = fst (abK nf k)) by (rewrite <- H0; reflexivity).
    assert (Z : nf0 = snd (abK nf k)) by (rewrite <- H0; reflexivity).
    split; [subst; apply kst_abK; auto|]. subst. destruct k; cbn; lia. }
  destruct Hw0 as [Hw0 [E Hle]]. rewrite <- E.
  destruct H as [[H1 H2]|[H1 [H2 H3]]]; subst.
  - eapply allowed_sufD; eauto.
  - rewrite kst_cons. destruct (Nat.eqb_spec nf0 n); [lia|left; reflexivity].
Qed.

(* frames created by the operation are ACTIVE, or already CLOSED again *)
Lemma oprel_new : forall nf k r nf' k' n, Kwf nf k -> oprel nf k r nf' k' -> nf <= n ->
  kst k' n = ACTIVE \/ kst k' n = DEACTIVE \/ kst k' n = CLOSED.
Proof.
  intros nf k r nf' k' n Hw H Hn. eapply Kwf_states. eapply oprel_Kwf; eauto.
Qed.

Theorem sm_transitions : forall e st p r st', Reach e st -> do_op p st = (r, st') -> r <> Unmodelled ->
  r <> Err E_ILLEGAL /\
  Kwf (nfid st') (stk st') /\
  (forall n, n < nfid st -> allowed (frame_state st n) (frame_state st' n)).
Proof.
  intros e st p r st' HR H Hr. pose proof (reach_Kwf _ _ HR) as Hw.
  destruct (do_op_oprel _ _ _ _ H Hr Hw) as [A B]. split; auto. split.
  - eapply oprel_Kwf; eauto.
  - intros n Hn. eapply oprel_allowed; eauto.
Qed.

(* a call on a transaction whose state is not a declared prerequisite state of the method raises the
   documented error and changes nothing *)
Lemma frame_state_find : forall st n,
  frame_state st n = match find_frame n st with Some f => fstate f | None => CLOSED end.
Proof.
  intros st n. unfold frame_state, kst, stk, find_frame. induction (stack st) as [|f r IH]; cbn; auto.
  destruct (Nat.eqb (fid f) n); auto.
Qed.
Lemma prereq_error_codes : forall f, prereq_error f = E_INV \/ prereq_error f = E_PENDING \/ prereq_error f = E_CLOSED.
Proof. intros f. unfold prereq_error. destruct (fstate f); try destruct (frbexc f); auto. Qed.

Theorem sm_illegal_commit : forall st h n, nth_error (handles st) h = Some (Some n) ->
  prereq_ok M_commit (frame_state st n) = false ->
  exists c, do_op (OTCommit h) st = (Err c, st) /\ (c = E_INV \/ c = E_PENDING \/ c = E_CLOSED).
Proof.
  intros st h n Hh Hp. cbn [do_op]. rewrite Hh. unfold t_commit. rewrite frame_state_find in Hp.
  destruct (find_frame n st) as [f|].
  - unfold check_prereq. rewrite Hp. eexists; split; [reflexivity|apply prereq_error_codes].
  - eexists; split; [reflexivity|auto].
Qed.
Theorem sm_illegal_rollback : forall st h n, nth_error (handles st) h = Some (Some n) ->
  prereq_ok M_rollback (frame_state st n) = false ->
  exists c, do_op (OTRollback h) st = (Err c, st) /\ (c = E_INV \/ c = E_PENDING \/ c = E_CLOSED).
Proof.
  intros st h n Hh Hp. cbn [do_op]. rewrite Hh. unfold t_rollback. rewrite frame_state_find in Hp.
  destruct (find_frame n st) as [f|].
  - unfold check_prereq. rewrite Hp. eexists; split; [reflexivity|apply prereq_error_codes].
  - eexists; split; [reflexivity|auto].
Qed.
(* flushing (hence begin_nested, refreshing, committing) needs an ACTIVE innermost transaction *)
Theorem sm_illegal_flush : forall st f rest, stack st = f :: rest -> prereq_ok M_begin (fstate f) = false ->
  is_clean st = false ->
  exists c, do_op OFlush st = (Err c, st) /\ (c = E_INV \/ c = E_PENDING \/ c = E_CLOSED).
Proof.
  intros st f rest Hs Hp Hc. cbn [do_op]. unfold flush, flush_with. rewrite Hc.
  assert (Ha : autobegin st = st). { unfold autobegin. rewrite Hs. reflexivity. }
  rewrite Ha, Hs. unfold check_prereq. rewrite Hp.
  eexists; split; [reflexivity|apply prereq_error_codes].
Qed.
(* which states those are, read off the declared table *)
Lemma sm_commit_prereq : forall s, prereq_ok M_commit s = true <-> (s = ACTIVE \/ s = PREPARED).
Proof. intros s; destruct s; cbn; split; intros H; try discriminate; auto; destruct H; discriminate. Qed.
Lemma sm_rollback_prereq : forall s, prereq_ok M_rollback s = true <-> (s = ACTIVE \/ s = DEACTIVE \/ s = PREPARED).
Proof. intros s; destruct s; cbn; split; intros H; try discriminate; auto; destruct H as [H|[H|H]]; discriminate. Qed.
Lemma sm_begin_prereq : forall s, prereq_ok M_begin s = true <-> s = ACTIVE.
Proof. intros s; destruct s; cbn; split; intros H; try discriminate; auto. Qed.
