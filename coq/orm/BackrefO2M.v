(* C37 - proofs, part 2: one-to-many / many-to-one.  Every guarded primitive preserves the
   agreement invariant. *)
From Coq Require Import List NArith Bool Lia Arith.
Import ListNotations.
From SAV.orm Require Import Backref BackrefSpec BackrefBase.
Open Scope N_scope.

Ltac ev := cbn [exec kind_of other tok_append tok_bulk tok_remove tok_replace tok_eqb tok_is side_eqb
                top_eqb fst snd andb orb bind].

Ltac simp_cells :=
  repeat first
  [ rewrite coll_set_same
  | rewrite cells_set_same
  | rewrite coll_set_other_obj by congruence
  | rewrite coll_set_other_side by discriminate
  | rewrite cells_set_other_obj by congruence
  | rewrite cells_set_other_side by discriminate
  | rewrite persistent_set ].

Lemma real_obj_ov : forall c, c <> 0 -> real_obj (OV c) = Some c.
Proof. intros [|c] H; [congruence|reflexivity]. Qed.

(* sb of a state whose SA side was written *)
Lemma sb_set_A : forall s o c o', sb (set_cell s SA o c) o' = sb s o'.
Proof. reflexivity. Qed.
Lemma sb_set_B_same : forall s o c, sb (set_cell s SB o c) o = c.
Proof. intros. cbn. apply upd_eq. Qed.
Lemma sb_set_B_other : forall s o c o', o' <> o -> sb (set_cell s SB o c) o' = sb s o'.
Proof. intros. cbn. apply upd_neq. assumption. Qed.

(* the state after detaching child c from the collection of parent p0 *)
Definition detach (s : st) (p0 c : N) : st :=
  if memb c (coll_of s SA p0) then set_cell s SA p0 (CList (remove1 c (coll_of s SA p0))) else s.

Lemma detach_coll : forall s p0 c p', NoDup (coll_of s SA p0) ->
  forall x, In x (coll_of (detach s p0 c) SA p') <->
            In x (coll_of s SA p') /\ ~ (p' = p0 /\ x = c).
Proof.
  intros s p0 c p' N x. unfold detach. destruct (memb c (coll_of s SA p0)) eqn:M.
  - destruct (N.eq_dec p' p0) as [->|NE].
    + simp_cells. rewrite remove1_In by exact N. intuition congruence.
    + simp_cells. intuition congruence.
  - apply memb_false in M. split; [intros I; split; [exact I|]|tauto].
    intros [-> ->]. contradiction.
Qed.
Lemma detach_sb : forall s p0 c, sb (detach s p0 c) = sb s.
Proof. intros. unfold detach. destruct (memb c (coll_of s SA p0)); reflexivity. Qed.
Lemma detach_nodup : forall s p0 c, nodup_side s SA -> nodup_side (detach s p0 c) SA.
Proof.
  intros s p0 c N p'. unfold detach. destruct (memb c (coll_of s SA p0)); [|apply N].
  destruct (N.eq_dec p' p0) as [->|NE]; simp_cells; [apply remove1_NoDup|]; apply N.
Qed.
Lemma detach_persistent : forall s p0 c, persistent (detach s p0 c) = persistent s.
Proof. intros. unfold detach. destruct (memb c (coll_of s SA p0)); simp_cells; reflexivity. Qed.

(* ---- closed forms of the backref chains under O2M ---- *)
(* the child side (scalar) receives "append parent p" from a collection event on p *)
Definition old_parent (s : st) (c : N) : option N := real_obj (scalar_old s SB c).

Definition attach_child (s : st) (p c : N) : st :=
  let s1 := if oldv_is (scalar_old s SB c) p then s
            else match old_parent s c with Some p0 => detach s p0 c | None => s end in
  set_cell s1 SB c (CVal p).

Lemma fire_append_o2m : forall n s p c init, c <> 0 ->
  init = (SA, TAppend) \/ init = (SA, TBulk) ->
  exec O2M (S (S (S (S (S (S (S (S (S n))))))))) (KAppendEvent SA p c init) s = Ok (attach_child s p c).
Proof.
  intros n s p c init C I. pose proof (real_obj_ov c C) as RC. apply N.eqb_neq in C.
  destruct I as [-> | ->]; ev; rewrite C; ev; unfold attach_child, old_parent, detach;
    destruct (oldv_is (scalar_old s SB c) p); try reflexivity;
    destruct (real_obj (scalar_old s SB c)) as [p0|]; ev; try (destruct (p =? 0); reflexivity);
    rewrite RC; ev; destruct (memb c (coll_of s SA p0)); ev; destruct (p =? 0); reflexivity.
Qed.

Lemma scalar_old_val : forall s c v, sb s c = CVal v -> scalar_old s SB c = OV v.
Proof. intros s c v H. unfold scalar_old. cbn. rewrite H. reflexivity. Qed.

(* where the collections and parents stand after [attach_child] *)
Lemma attach_child_sb : forall s p c c', sb (attach_child s p c) c' = if c' =? c then CVal p else sb s c'.
Proof.
  intros s p c c'. unfold attach_child. destruct (c' =? c) eqn:E.
  - apply N.eqb_eq in E. subst. apply sb_set_B_same.
  - apply N.eqb_neq in E. rewrite sb_set_B_other by exact E.
    destruct (oldv_is (scalar_old s SB c) p); [reflexivity|].
    destruct (old_parent s c); [rewrite detach_sb|]; reflexivity.
Qed.

Lemma attach_child_coll : forall s p c, inv_o2m s -> c <> 0 ->
  forall p' x, In x (coll_of (attach_child s p c) SA p') <->
               In x (coll_of s SA p') /\ (x = c -> p' = p).
Proof.
  intros s p c I C p' x. unfold attach_child. rewrite coll_set_other_side by discriminate.
  destruct (oldv_is (scalar_old s SB c) p) eqn:O.
  - (* c.p is already p *)
    split; [intros H; split; [exact H|]|tauto]. intros ->.
    apply (o2m_agree s I) in H. destruct H as [_ H].
    unfold scalar_old in O. cbn in O. rewrite H in O. cbn in O. apply N.eqb_eq in O. congruence.
  - unfold old_parent. destruct (real_obj (scalar_old s SB c)) as [p0|] eqn:R.
    + rewrite detach_coll by apply (o2m_nodup s I).
      assert (SB0 : sb s c = CVal p0 /\ p0 <> 0).
      { unfold scalar_old in R. cbn in R. destruct (sb s c) as [| |v|]; try discriminate R.
        destruct v; [discriminate|]. injection R as <-. split; [reflexivity|discriminate]. }
      destruct SB0 as [SB0 P0].
      split.
      * intros [H NE]. split; [exact H|]. intros ->. exfalso.
        apply (o2m_agree s I) in H. destruct H as [_ H]. rewrite SB0 in H. injection H as ->. tauto.
      * intros [H K]. split; [exact H|]. intros [-> ->]. specialize (K eq_refl). subst.
        rewrite (scalar_old_val s c p SB0) in O. cbn in O. rewrite N.eqb_refl in O. discriminate.
    + split; [intros H; split; [exact H|]|tauto]. intros ->. exfalso.
      apply (o2m_agree s I) in H. destruct H as [P H]. rewrite (scalar_old_val s c p' H) in R.
      destruct p'; [congruence|discriminate].
Qed.

Lemma attach_child_nodup : forall s p c, nodup_side s SA -> nodup_side (attach_child s p c) SA.
Proof.
  intros s p c N p'. unfold attach_child. rewrite coll_set_other_side by discriminate.
  destruct (oldv_is (scalar_old s SB c) p); [apply N|].
  destruct (old_parent s c); [apply detach_nodup; exact N|apply N].
Qed.

(* after the backref has set c.p = p, putting c into p's collection restores the invariant *)
Lemma attach_then_add : forall s p c l', inv_o2m s -> p <> 0 -> c <> 0 ->
  NoDup l' -> (forall x, In x l' <-> x = c \/ (In x (coll_of s SA p) /\ x <> c)) ->
  inv_o2m (set_cell (attach_child s p c) SA p (CList l')).
Proof.
  intros s p c l' I P C ND L. constructor.
  - intros p' x. rewrite sb_set_A, attach_child_sb.
    destruct (N.eq_dec p' p) as [->|NE].
    + simp_cells. rewrite L. destruct (x =? c) eqn:E.
      * apply N.eqb_eq in E. subst. intuition.
      * apply N.eqb_neq in E. rewrite <- (o2m_agree s I p x). intuition.
    + simp_cells. rewrite (attach_child_coll s p c I C). destruct (x =? c) eqn:E.
      * apply N.eqb_eq in E. subst. split; [intros [_ K]; exfalso; apply NE; apply K; reflexivity|].
        intros [_ K]. injection K as K. congruence.
      * apply N.eqb_neq in E. rewrite (o2m_agree s I p' x). intuition.
  - intros p'. destruct (N.eq_dec p' p) as [->|NE]; simp_cells; [exact ND|].
    apply attach_child_nodup. apply (o2m_nodup s I).
  - intros p'. destruct (N.eq_dec p' p) as [->|NE]; simp_cells.
    + rewrite L. intros [E|[H _]]; [congruence|]. apply (o2m_nonzero s I p H).
    + intros H. apply (attach_child_coll s p c I C) in H. destruct H as [H _]. apply (o2m_nonzero s I p' H).
  - intros c'. cbn [cells]. rewrite sb_set_A, attach_child_sb. destruct (c' =? c); [discriminate|].
    apply (o2m_loaded s I).
Qed.

Lemma attach_child_coll_same : forall s p c, coll_of (attach_child s p c) SA p = coll_of s SA p.
Proof.
  intros s p c. unfold attach_child. rewrite coll_set_other_side by discriminate.
  destruct (oldv_is (scalar_old s SB c) p) eqn:O; [reflexivity|].
  unfold old_parent. destruct (scalar_old s SB c) as [| |v] eqn:Q; cbn [real_obj]; try reflexivity.
  destruct v as [|v']; [reflexivity|]. cbn in O. unfold detach.
  destruct (memb c (coll_of s SA (N.pos v'))); [|reflexivity].
  apply coll_set_other_obj. intros ->. rewrite N.eqb_refl in O. discriminate.
Qed.

(* ---- removal: the child loses its parent when it was this parent ---- *)
Definition unparent (s : st) (p c : N) : st :=
  match sb s c with
  | CVal v => if v =? p then set_cell s SB c (CVal 0) else s
  | _ => s
  end.
Definition unparent_bulk (s : st) (p c : N) : st :=
  match sb s c with
  | CVal v => if v =? p then set_cell (detach s p c) SB c (CVal 0) else s
  | _ => s
  end.

Lemma fire_remove_o2m : forall n s p c, c <> 0 -> p <> 0 ->
  has_dupes (coll_of s SA p) c = false -> sb s c <> CUnl ->
  exec O2M (S (S (S (S (S n))))) (KRemoveEvent SA p (OV c) (SA, TRemove)) s = Ok (unparent s p c).
Proof.
  intros n s p c C P D L. rewrite (real_obj_ov c C) || (ev; rewrite (real_obj_ov c C)).
  ev. rewrite D. ev. unfold unparent, scalar_old. cbn [cells].
  destruct (sb s c) as [| |v|l] eqn:Q; try reflexivity; [congruence|].
  cbn [oldv_is]. rewrite N.eqb_sym. destruct (v =? p) eqn:E; cbn [negb]; [|reflexivity].
  apply N.eqb_eq in E. subst v. ev. cbn [oldv_is]. apply N.eqb_neq in P. rewrite N.eqb_sym, P.
  rewrite (real_obj_ov p) by (apply N.eqb_neq; exact P). ev. reflexivity.
Qed.

Lemma fire_remove_bulk_o2m : forall n s p c, c <> 0 -> p <> 0 ->
  has_dupes (coll_of s SA p) c = false -> sb s c <> CUnl ->
  exec O2M (S (S (S (S (S (S (S (S (S n))))))))) (KRemoveEvent SA p (OV c) (SA, TBulk)) s
  = Ok (unparent_bulk s p c).
Proof.
  intros n s p c C P D L. ev. rewrite (real_obj_ov c C).
  ev. rewrite D. ev. unfold unparent_bulk, scalar_old. cbn [cells].
  destruct (sb s c) as [| |v|l] eqn:Q; try reflexivity; [congruence|].
  cbn [oldv_is]. rewrite N.eqb_sym. destruct (v =? p) eqn:E; cbn [negb]; [|reflexivity].
  apply N.eqb_eq in E. subst v. ev. cbn [oldv_is]. pose proof P as P'. apply N.eqb_neq in P. rewrite N.eqb_sym, P.
  rewrite (real_obj_ov p P'). ev. rewrite (real_obj_ov c C). ev. unfold detach.
  destruct (memb c (coll_of s SA p)); ev; reflexivity.
Qed.

(* one-step unfoldings *)
Lemma exec_coll_append : forall r n sd o v init s,
  exec r (S n) (KCollAppend sd o v init) s =
  bind (exec r n (KFireAppend sd o v init) s)
       (fun s1 => Ok (set_cell s1 sd o (CList (coll_of s1 sd o ++ [v])))).
Proof. reflexivity. Qed.
Lemma exec_coll_remove : forall r n sd o v init s,
  exec r (S n) (KCollRemove sd o v init) s =
  if memb v (coll_of s sd o)
  then bind (exec r n (KFireRemove sd o v init) s)
            (fun s1 => if memb v (coll_of s1 sd o)
                       then Ok (set_cell s1 sd o (CList (remove1 v (coll_of s1 sd o))))
                       else Err ValueError s1)
  else Err ValueError s.
Proof. reflexivity. Qed.
Lemma exec_fire_append : forall r n sd o v init s,
  exec r (S n) (KFireAppend sd o v init) s =
  exec r n (KAppendEvent sd o v (match init with Some t => t | None => tok_append r sd end)) s.
Proof. reflexivity. Qed.
Lemma exec_fire_remove : forall r n sd o v init s,
  exec r (S n) (KFireRemove sd o v init) s =
  exec r n (KRemoveEvent sd o (OV v) (match init with Some t => t | None => tok_remove sd end)) s.
Proof. reflexivity. Qed.

(* ---------- the guarded primitives on the collection side ---------- *)
Lemma o2m_append : forall s p c, inv_o2m s -> p <> 0 -> c <> 0 -> ~ In c (coll_of s SA p) ->
  exists s', step_prim O2M (PAppend SA p c) s = Ok s' /\ inv_o2m s'.
Proof.
  intros s p c I P C NI. unfold step_prim, run_call, FUEL.
  rewrite exec_coll_append, exec_fire_append. cbn [tok_append kind_of].
  rewrite (fire_append_o2m 1 s p c (SA, TAppend) C (or_introl eq_refl)). cbn [bind].
  eexists. split; [reflexivity|]. rewrite attach_child_coll_same.
  apply attach_then_add; auto.
  - apply NoDup_snoc; [apply (o2m_nodup s I)|exact NI].
  - intros x. rewrite in_app_iff. cbn. split.
    + intros [H|[->|[]]]; [right; split; [exact H|intros ->; contradiction]|left; reflexivity].
    + intros [->|[H _]]; auto.
Qed.

Lemma o2m_insert : forall s p i c, inv_o2m s -> p <> 0 -> c <> 0 -> ~ In c (coll_of s SA p) ->
  exists s', step_prim O2M (PInsert SA p i c) s = Ok s' /\ inv_o2m s'.
Proof.
  intros s p i c I P C NI. unfold step_prim, run_call, FUEL.
  rewrite exec_fire_append. cbn [tok_append kind_of].
  rewrite (fire_append_o2m 2 s p c (SA, TAppend) C (or_introl eq_refl)). cbn [bind].
  eexists. split; [reflexivity|]. rewrite attach_child_coll_same.
  apply attach_then_add; auto.
  - apply insert_at_NoDup; [apply (o2m_nodup s I)|exact NI].
  - intros x. rewrite insert_at_In. split.
    + intros [->|H]; [left; reflexivity|right; split; [exact H|intros ->; contradiction]].
    + intros [->|[H _]]; auto.
Qed.

(* after the child lost its parent, taking it out of the collection restores the invariant *)
Lemma unparent_then_remove : forall s p c l', inv_o2m s -> p <> 0 -> c <> 0 -> In c (coll_of s SA p) ->
  NoDup l' -> (forall x, In x l' <-> In x (coll_of s SA p) /\ x <> c) ->
  inv_o2m (set_cell (unparent s p c) SA p (CList l')).
Proof.
  intros s p c l' I P C IN ND L.
  assert (SBC : sb s c = CVal p) by (apply (o2m_agree s I p c); exact IN).
  assert (U : forall c', sb (unparent s p c) c' = if c' =? c then CVal 0 else sb s c').
  { intros c'. unfold unparent. rewrite SBC, N.eqb_refl. destruct (c' =? c) eqn:E.
    - apply N.eqb_eq in E. subst. apply sb_set_B_same.
    - apply N.eqb_neq in E. apply sb_set_B_other. exact E. }
  assert (UC : forall p', coll_of (unparent s p c) SA p' = coll_of s SA p').
  { intros p'. unfold unparent. rewrite SBC, N.eqb_refl. apply coll_set_other_side. discriminate. }
  constructor.
  - intros p' x. rewrite sb_set_A, U. destruct (N.eq_dec p' p) as [->|NE]; simp_cells.
    + rewrite L, (o2m_agree s I p x). destruct (x =? c) eqn:E.
      * apply N.eqb_eq in E. subst. split; [tauto|]. intros [_ K]. injection K as K. congruence.
      * apply N.eqb_neq in E. tauto.
    + rewrite UC, (o2m_agree s I p' x). destruct (x =? c) eqn:E; [|tauto].
      apply N.eqb_eq in E. subst. rewrite SBC. split; [intros [_ K]; injection K as K; congruence|].
      intros [K1 K]. injection K as K. congruence.
  - intros p'. destruct (N.eq_dec p' p) as [->|NE]; simp_cells; [exact ND|]. rewrite UC. apply (o2m_nodup s I).
  - intros p'. destruct (N.eq_dec p' p) as [->|NE]; simp_cells.
    + rewrite L. intros [H _]. apply (o2m_nonzero s I p H).
    + rewrite UC. apply (o2m_nonzero s I).
  - intros c'. cbn [cells]. rewrite sb_set_A, U. destruct (c' =? c); [discriminate|]. apply (o2m_loaded s I).
Qed.

Lemma unparent_noop : forall s p c, inv_o2m s -> ~ In c (coll_of s SA p) -> p <> 0 -> unparent s p c = s.
Proof.
  intros s p c I NI P. unfold unparent. destruct (sb s c) as [| |v|] eqn:Q; try reflexivity.
  destruct (v =? p) eqn:E; [|reflexivity]. apply N.eqb_eq in E. subst. exfalso. apply NI.
  apply (o2m_agree s I). auto.
Qed.

Lemma o2m_remove : forall s p c, inv_o2m s -> p <> 0 -> c <> 0 ->
  exists s', (step_prim O2M (PRemove SA p c) s = Ok s' \/ step_prim O2M (PRemove SA p c) s = Err ValueError s')
             /\ inv_o2m s'.
Proof.
  intros s p c I P C. unfold step_prim, run_call, FUEL.
  rewrite exec_coll_remove. destruct (memb c (coll_of s SA p)) eqn:M0; [|exists s; auto].
  rewrite exec_fire_remove. unfold tok_remove.
  rewrite (fire_remove_o2m 5 s p c C P); [|apply has_dupes_NoDup; apply (o2m_nodup s I)|apply (o2m_loaded s I)].
  cbn [bind].
  assert (UC : coll_of (unparent s p c) SA p = coll_of s SA p).
  { unfold unparent. destruct (sb s c) as [| |v|]; try reflexivity.
    destruct (v =? p); [apply coll_set_other_side; discriminate|reflexivity]. }
  rewrite UC, M0. eexists. split; [left; reflexivity|].
  apply memb_In in M0. apply unparent_then_remove; auto.
  - apply remove1_NoDup. apply (o2m_nodup s I).
  - intros x. apply remove1_In. apply (o2m_nodup s I).
Qed.

(* invariants only look at the cells *)
Definition same_cells (s1 s2 : st) : Prop :=
  (forall o, sa s1 o = sa s2 o) /\ (forall o, sb s1 o = sb s2 o).
Lemma inv_o2m_ext : forall s1 s2, same_cells s1 s2 -> inv_o2m s1 -> inv_o2m s2.
Proof.
  intros s1 s2 [A B] I.
  assert (C : forall p, coll_of s2 SA p = coll_of s1 SA p) by (intros; unfold coll_of; cbn; rewrite A; reflexivity).
  constructor.
  - intros p c. rewrite C, <- B. apply (o2m_agree s1 I).
  - intros p. rewrite C. apply (o2m_nodup s1 I).
  - intros p. rewrite C. apply (o2m_nonzero s1 I).
  - intros c. cbn [cells]. rewrite <- B. apply (o2m_loaded s1 I).
Qed.

Lemma unparent_commute : forall s p c l',
  same_cells (set_cell (unparent s p c) SA p (CList l')) (unparent (set_cell s SA p (CList l')) p c).
Proof.
  intros s p c l'. unfold unparent. rewrite sb_set_A.
  destruct (sb s c) as [| |v|]; try (split; reflexivity).
  destruct (v =? p); split; intros o; reflexivity.
Qed.

Lemma o2m_delitem : forall s p i, inv_o2m s -> p <> 0 ->
  exists s', (step_prim O2M (PDelItem SA p i) s = Ok s' \/ step_prim O2M (PDelItem SA p i) s = Err IndexError s')
             /\ inv_o2m s'.
Proof.
  intros s p i I P. unfold step_prim.
  destruct (nth_error (coll_of s SA p) i) as [v|] eqn:E; [|exists s; auto].
  assert (IN : In v (coll_of s SA p)) by (eapply nth_error_In; eauto).
  assert (V : v <> 0) by (intros ->; apply (o2m_nonzero s I p IN)).
  unfold run_call, FUEL. rewrite exec_fire_remove. unfold tok_remove.
  rewrite (fire_remove_o2m 6 s p v V P); [|apply has_dupes_NoDup; apply (o2m_nodup s I)|apply (o2m_loaded s I)].
  cbn [bind]. eexists. split; [left; reflexivity|].
  assert (UC : coll_of (unparent s p v) SA p = coll_of s SA p).
  { unfold unparent. destruct (sb s v) as [| |w|]; try reflexivity.
    destruct (w =? p); [apply coll_set_other_side; discriminate|reflexivity]. }
  rewrite UC, (remove_at_remove1 i _ v (o2m_nodup s I p) E).
  apply unparent_then_remove; auto.
  - apply remove1_NoDup. apply (o2m_nodup s I).
  - intros x. apply remove1_In. apply (o2m_nodup s I).
Qed.

Lemma o2m_pop : forall s p i, inv_o2m s -> p <> 0 ->
  exists s', (step_prim O2M (PPop SA p i) s = Ok s' \/ step_prim O2M (PPop SA p i) s = Err IndexError s')
             /\ inv_o2m s'.
Proof.
  intros s p i I P. unfold step_prim.
  destruct (nth_error (coll_of s SA p) i) as [v|] eqn:E; [|exists s; auto].
  assert (IN : In v (coll_of s SA p)) by (eapply nth_error_In; eauto).
  assert (V : v <> 0) by (intros ->; apply (o2m_nonzero s I p IN)).
  pose proof (remove1_NoDup v _ (o2m_nodup s I p)) as ND.
  rewrite (remove_at_remove1 i _ v (o2m_nodup s I p) E).
  unfold run_call, FUEL. rewrite exec_fire_remove. unfold tok_remove.
  rewrite (fire_remove_o2m 6 _ p v V P).
  - eexists. split; [left; reflexivity|].
    eapply inv_o2m_ext; [apply unparent_commute|].
    apply unparent_then_remove; auto. intros x. apply remove1_In. apply (o2m_nodup s I).
  - apply has_dupes_NoDup. rewrite coll_set_same. exact ND.
  - rewrite sb_set_A. apply (o2m_loaded s I).
Qed.

(* ---------- the scalar side ---------- *)
Definition set_parent (s : st) (c v : N) : st :=
  if oldv_is (scalar_old s SB c) v then set_cell s SB c (CVal v) else
  let s1 := match old_parent s c with Some p0 => detach s p0 c | None => s end in
  let s2 := if v =? 0 then s1 else set_cell s1 SA v (CList (coll_of s1 SA v ++ [c])) in
  set_cell s2 SB c (CVal v).

Lemma set_parent_closed : forall s c v, c <> 0 ->
  step_prim O2M (PSet SB c v) s = Ok (set_parent s c v).
Proof.
  intros s c v C. pose proof (real_obj_ov c C) as RC. assert (C0 : (c =? 0) = false) by (apply N.eqb_neq; exact C).
  unfold step_prim, run_call, FUEL, set_parent, old_parent, detach. ev.
  destruct (oldv_is (scalar_old s SB c) v); [reflexivity|].
  destruct (real_obj (scalar_old s SB c)) as [p0|]; ev.
  - rewrite RC. ev. destruct (memb c (coll_of s SA p0)); ev; destruct (v =? 0); ev; try reflexivity;
      rewrite C0; ev; reflexivity.
  - destruct (v =? 0); ev; try reflexivity. rewrite C0. ev. reflexivity.
Qed.

Lemma attach_none_inv : forall s c, inv_o2m s -> c <> 0 -> inv_o2m (attach_child s 0 c).
Proof.
  intros s c I C. constructor.
  - intros p' x. rewrite attach_child_sb, (attach_child_coll s 0 c I C). destruct (x =? c) eqn:E.
    + apply N.eqb_eq in E. subst. split.
      * intros [H K]. specialize (K eq_refl). subst. apply (o2m_agree s I) in H. tauto.
      * intros [P K]. injection K as K. congruence.
    + apply N.eqb_neq in E. rewrite (o2m_agree s I p' x). tauto.
  - apply attach_child_nodup. apply (o2m_nodup s I).
  - intros p' H. apply (attach_child_coll s 0 c I C) in H. destruct H as [H _]. apply (o2m_nonzero s I p' H).
  - intros c'. cbn [cells]. rewrite attach_child_sb. destruct (c' =? c); [discriminate|]. apply (o2m_loaded s I).
Qed.

Lemma o2m_set_parent : forall s c v, inv_o2m s -> c <> 0 ->
  exists s', step_prim O2M (PSet SB c v) s = Ok s' /\ inv_o2m s'.
Proof.
  intros s c v I C. rewrite (set_parent_closed s c v C). eexists. split; [reflexivity|].
  unfold set_parent. destruct (oldv_is (scalar_old s SB c) v) eqn:O.
  - (* same value *)
    eapply inv_o2m_ext; [|exact I]. split; [reflexivity|]. intros o. cbn. unfold upd.
    destruct (o =? c) eqn:E; [|reflexivity]. apply N.eqb_eq in E. subst.
    unfold scalar_old in O. cbn in O. destruct (sb s c) as [| |w|]; try discriminate O.
    cbn in O. apply N.eqb_eq in O. congruence.
  - destruct (v =? 0) eqn:V.
    + apply N.eqb_eq in V. subst v. pose proof (attach_none_inv s c I C) as A.
      unfold attach_child in A. rewrite O in A. exact A.
    + apply N.eqb_neq in V.
      set (s1 := match old_parent s c with Some p0 => detach s p0 c | None => s end).
      assert (AC : attach_child s v c = set_cell s1 SB c (CVal v)) by (unfold attach_child; rewrite O; reflexivity).
      assert (NI : ~ In c (coll_of s SA v)).
      { intros H. apply (o2m_agree s I) in H. destruct H as [_ H].
        rewrite (scalar_old_val s c v H) in O. cbn in O. rewrite N.eqb_refl in O. discriminate. }
      pose proof (attach_then_add s v c (coll_of s SA v ++ [c]) I V C) as T.
      eapply inv_o2m_ext; [|apply T].
      * rewrite AC. rewrite <- (attach_child_coll_same s v c), AC.
        rewrite coll_set_other_side by discriminate. split; intros o; reflexivity.
      * apply NoDup_snoc; [apply (o2m_nodup s I)|exact NI].
      * intros x. rewrite in_app_iff. cbn. split.
        -- intros [H|[->|[]]]; [right; split; [exact H|intros ->; contradiction]|left; reflexivity].
        -- intros [->|[H _]]; auto.
Qed.

Definition del_parent (s : st) (c : N) : st :=
  set_cell (match old_parent s c with Some p0 => detach s p0 c | None => s end) SB c CAbsent.

Lemma o2m_del_parent : forall s c, inv_o2m s -> c <> 0 ->
  exists s', (step_prim O2M (PDel SB c) s = Ok s' \/ step_prim O2M (PDel SB c) s = Err AttributeError s')
             /\ inv_o2m s'.
Proof.
  intros s c I C. pose proof (real_obj_ov c C) as RC.
  assert (E : exists e : bool, step_prim O2M (PDel SB c) s = (if e then Err AttributeError (del_parent s c) else Ok (del_parent s c))).
  { unfold step_prim, run_call, FUEL, del_parent, old_parent, detach. ev.
    destruct (real_obj (scalar_old s SB c)) as [p0|] eqn:R; ev.
    - rewrite RC. ev. exists false.
      assert (Q : exists v, sb s c = CVal v).
      { unfold scalar_old in R. cbn in R. destruct (sb s c); try discriminate R. eauto. }
      destruct Q as [v Q]. destruct (memb c (coll_of s SA p0)); ev; cbn [cells]; simp_cells;
        unfold set_cell at 1; cbn [sb]; rewrite Q; reflexivity.
    - unfold scalar_old. cbn [cells]. destruct (sb s c) eqn:Q; try (exists false; reflexivity).
      destruct (persistent s); [exists false|exists true]; reflexivity. }
  destruct E as [e E]. exists (del_parent s c). split; [destruct e; rewrite E; auto|].
  (* the invariant *)
  assert (SBd : forall c', sb (del_parent s c) c' = if c' =? c then CAbsent else sb s c').
  { intros c'. unfold del_parent. destruct (c' =? c) eqn:Q.
    - apply N.eqb_eq in Q. subst. apply sb_set_B_same.
    - apply N.eqb_neq in Q. rewrite sb_set_B_other by exact Q.
      destruct (old_parent s c); [rewrite detach_sb|]; reflexivity. }
  assert (CD : forall p' x, In x (coll_of (del_parent s c) SA p') <-> In x (coll_of s SA p') /\ x <> c).
  { intros p' x. unfold del_parent. rewrite coll_set_other_side by discriminate.
    unfold old_parent. destruct (real_obj (scalar_old s SB c)) as [p0|] eqn:R.
    - rewrite detach_coll by apply (o2m_nodup s I).
      assert (SB0 : sb s c = CVal p0 /\ p0 <> 0).
      { unfold scalar_old in R. cbn in R. destruct (sb s c) as [| |v|]; try discriminate R.
        destruct v; [discriminate|]. injection R as <-. split; [reflexivity|discriminate]. }
      destruct SB0 as [SB0 P0]. split.
      + intros [H NE]. split; [exact H|]. intros ->. apply NE. split; [|reflexivity].
        apply (o2m_agree s I) in H. destruct H as [_ H]. congruence.
      + intros [H NE]. split; [exact H|]. intros [_ K]. contradiction.
    - split; [intros H; split; [exact H|]|tauto]. intros ->.
      apply (o2m_agree s I) in H. destruct H as [P H]. rewrite (scalar_old_val s c p' H) in R.
      destruct p'; [congruence|discriminate]. }
  constructor.
  - intros p' x. rewrite SBd, CD, (o2m_agree s I p' x). destruct (x =? c) eqn:Q.
    + apply N.eqb_eq in Q. subst. split; [tauto|]. intros [_ K]. discriminate.
    + apply N.eqb_neq in Q. tauto.
  - intros p'. unfold del_parent. rewrite coll_set_other_side by discriminate.
    destruct (old_parent s c); [apply detach_nodup|]; apply (o2m_nodup s I).
  - intros p' H. apply CD in H. destruct H as [H _]. apply (o2m_nonzero s I p' H).
  - intros c'. cbn [cells]. rewrite SBd. destruct (c' =? c); [discriminate|]. apply (o2m_loaded s I).
Qed.
