(* C48 - model of the Session's object-lifetime bookkeeping (definitions only).

   Transcribes, for one mapped class T(id primary key, val):
     orm/state.py     InstanceState.obj (weak), _strong_obj, _modified_event, _commit_all_states, _expire, _cleanup
     orm/identity.py  _WeakInstanceDict._dict / _modified, _manage_incoming_state, _manage_removed_state,
                      _add_unpresent, replace, safe_discard, _fast_discard
     orm/session.py   _new / _deleted (strong), _save_impl, _after_attach, _delete_impl, _flush,
                      _register_persistent, _remove_newly_deleted, expire / expire_all, commit (_remove_snapshot),
                      get (identity-map hit, refresh of an expired hit, autoflush + load of a miss)

   Heap.  Every mapped object is a record; the sets the Session keeps (_new, _deleted, identity_map._dict,
   identity_map._modified) are membership flags on the member.  Strong reference edges into an object:
     application variables (slots, local)            session._new / session._deleted values
     InstanceState._strong_obj  (the state itself is held by _dict and _modified and by the object)
     an unmapped attribute of another live object (link)
   InstanceState.obj and the transaction snapshot dictionaries are weak: no edge.
   A collector may free any object that is not reachable from the roots ([collect l]); CPython frees an
   object as soon as its reference count is zero ([rc_collect], after every operation) and the objects
   on unreachable cycles at gc.collect() ([Gc]). *)
From Coq Require Import List ZArith NArith Bool Arith.
Import ListNotations.

Record obj := mkObj {
  alive : bool;          (* not yet freed *)
  pk : N;                (* value of the primary-key attribute *)
  haskey : bool;         (* state.key is set *)
  sess : bool;           (* state.session_id is set *)
  in_new : bool;         (* state in session._new *)
  in_del : bool;         (* state in session._deleted *)
  in_map : bool;         (* identity_map._dict[key] is state  (= state._instance_dict is set) *)
  in_mod : bool;         (* state in identity_map._modified *)
  modified : bool;       (* state.modified *)
  strong : bool;         (* state._strong_obj is the object *)
  expired : bool;        (* state.expired *)
  pend : option Z;       (* 'val' in committed_state: the current (unflushed) value of val *)
  pendw : option Z;      (* 'w' in committed_state: the current (unflushed) value of the second column w *)
  in_val : bool;         (* 'val' in state.dict (loaded or set, not expired) *)
  delflag : bool;        (* state._deleted *)
  link : option nat      (* unmapped attribute obj.buddy *)
}.

Definition dead0 : obj := mkObj false 0 false false false false false false false false false None None false false None.

Definition set_alive (x : bool) (o : obj) : obj := mkObj x (pk o) (haskey o) (sess o) (in_new o) (in_del o) (in_map o) (in_mod o) (modified o) (strong o) (expired o) (pend o) (pendw o) (in_val o) (delflag o) (link o).
Definition set_haskey (x : bool) (o : obj) : obj := mkObj (alive o) (pk o) x (sess o) (in_new o) (in_del o) (in_map o) (in_mod o) (modified o) (strong o) (expired o) (pend o) (pendw o) (in_val o) (delflag o) (link o).
Definition set_sess (x : bool) (o : obj) : obj := mkObj (alive o) (pk o) (haskey o) x (in_new o) (in_del o) (in_map o) (in_mod o) (modified o) (strong o) (expired o) (pend o) (pendw o) (in_val o) (delflag o) (link o).
Definition set_in_new (x : bool) (o : obj) : obj := mkObj (alive o) (pk o) (haskey o) (sess o) x (in_del o) (in_map o) (in_mod o) (modified o) (strong o) (expired o) (pend o) (pendw o) (in_val o) (delflag o) (link o).
Definition set_in_del (x : bool) (o : obj) : obj := mkObj (alive o) (pk o) (haskey o) (sess o) (in_new o) x (in_map o) (in_mod o) (modified o) (strong o) (expired o) (pend o) (pendw o) (in_val o) (delflag o) (link o).
Definition set_in_map (x : bool) (o : obj) : obj := mkObj (alive o) (pk o) (haskey o) (sess o) (in_new o) (in_del o) x (in_mod o) (modified o) (strong o) (expired o) (pend o) (pendw o) (in_val o) (delflag o) (link o).
Definition set_in_mod (x : bool) (o : obj) : obj := mkObj (alive o) (pk o) (haskey o) (sess o) (in_new o) (in_del o) (in_map o) x (modified o) (strong o) (expired o) (pend o) (pendw o) (in_val o) (delflag o) (link o).
Definition set_modified (x : bool) (o : obj) : obj := mkObj (alive o) (pk o) (haskey o) (sess o) (in_new o) (in_del o) (in_map o) (in_mod o) x (strong o) (expired o) (pend o) (pendw o) (in_val o) (delflag o) (link o).
Definition set_strong (x : bool) (o : obj) : obj := mkObj (alive o) (pk o) (haskey o) (sess o) (in_new o) (in_del o) (in_map o) (in_mod o) (modified o) x (expired o) (pend o) (pendw o) (in_val o) (delflag o) (link o).
Definition set_expired (x : bool) (o : obj) : obj := mkObj (alive o) (pk o) (haskey o) (sess o) (in_new o) (in_del o) (in_map o) (in_mod o) (modified o) (strong o) x (pend o) (pendw o) (in_val o) (delflag o) (link o).
Definition set_pend (x : option Z) (o : obj) : obj := mkObj (alive o) (pk o) (haskey o) (sess o) (in_new o) (in_del o) (in_map o) (in_mod o) (modified o) (strong o) (expired o) x (pendw o) (in_val o) (delflag o) (link o).
Definition set_pendw (x : option Z) (o : obj) : obj := mkObj (alive o) (pk o) (haskey o) (sess o) (in_new o) (in_del o) (in_map o) (in_mod o) (modified o) (strong o) (expired o) (pend o) x (in_val o) (delflag o) (link o).
Definition set_in_val (x : bool) (o : obj) : obj := mkObj (alive o) (pk o) (haskey o) (sess o) (in_new o) (in_del o) (in_map o) (in_mod o) (modified o) (strong o) (expired o) (pend o) (pendw o) x (delflag o) (link o).
Definition set_delflag (x : bool) (o : obj) : obj := mkObj (alive o) (pk o) (haskey o) (sess o) (in_new o) (in_del o) (in_map o) (in_mod o) (modified o) (strong o) (expired o) (pend o) (pendw o) (in_val o) x (link o).
Definition set_link (x : option nat) (o : obj) : obj := mkObj (alive o) (pk o) (haskey o) (sess o) (in_new o) (in_del o) (in_map o) (in_mod o) (modified o) (strong o) (expired o) (pend o) (pendw o) (in_val o) (delflag o) x.

(* ---------------------------------------------------------------- database: one table t(id, val) *)
Definition row := (Z * Z)%type.      (* (val, w) *)
Definition dbt := list (N * row).
Definition db_get (k : N) (d : dbt) : option row :=
  match find (fun p : N * row => N.eqb (fst p) k) d with Some p => Some (snd p) | None => None end.
Definition db_has (k : N) (d : dbt) : bool := match db_get k d with Some _ => true | None => false end.
Definition db_del (k : N) (d : dbt) : dbt := filter (fun p : N * row => negb (N.eqb (fst p) k)) d.
Definition db_set (k : N) (v : row) (d : dbt) : dbt := (k, v) :: db_del k d.

(* ---------------------------------------------------------------- session + heap *)
Record st := mkSt {
  heap : nat -> obj;
  nobj : nat;                     (* objects 0 .. nobj-1 have been created *)
  slots : list (option nat);      (* application variables *)
  local : option nat;             (* a local variable of the running operation *)
  db : dbt;                       (* rows as seen by the session's connection *)
  next_pk : N;
  next_val : Z;
  failed : bool                   (* a flush raised (IntegrityError / StaleDataError) *)
}.

Definition set_heap (h : nat -> obj) (s : st) : st := mkSt h (nobj s) (slots s) (local s) (db s) (next_pk s) (next_val s) (failed s).
Definition set_slots (l : list (option nat)) (s : st) : st := mkSt (heap s) (nobj s) l (local s) (db s) (next_pk s) (next_val s) (failed s).
Definition set_local (x : option nat) (s : st) : st := mkSt (heap s) (nobj s) (slots s) x (db s) (next_pk s) (next_val s) (failed s).
Definition upd (o : nat) (f : obj -> obj) (s : st) : st :=
  set_heap (fun x => let ob := heap s x in if Nat.eqb x o then f ob else ob) s.
Definition hmap (f : obj -> obj) (s : st) : st := set_heap (fun x => f (heap s x)) s.
Definition oids (s : st) : list nat := seq 0 (nobj s).

Fixpoint set_nth {A} (i : nat) (v : A) (l : list A) : list A :=
  match l, i with
  | [], _ => []
  | _ :: r, O => v :: r
  | x :: r, S i' => x :: set_nth i' v r
  end.
Definition slot_get (s : st) (i : nat) : option nat := nth i (slots s) None.
Definition slot_set (i : nat) (v : option nat) (s : st) : st := set_slots (set_nth i v (slots s)) s.

Definition is_ref (o : nat) (x : option nat) : bool := match x with Some p => Nat.eqb p o | None => false end.
Definition memb (o : nat) (l : list nat) : bool := existsb (Nat.eqb o) l.

(* identity_map._dict lookup by primary key *)
Definition lookup (k : N) (s : st) : option nat :=
  find (fun o => let ob := heap s o in in_map ob && N.eqb (pk ob) k) (oids s).

(* ---------------------------------------------------------------- reachability and collection *)
Definition app_ref (s : st) (o : nat) : bool := existsb (is_ref o) (slots s) || is_ref o (local s).
Definition rooted (s : st) (o : nat) : bool :=
  let ob := heap s o in
  alive ob && (app_ref s o || in_new ob || in_del ob || (strong ob && (in_map ob || in_mod ob))).
Definition succ_of (s : st) (o : nat) : list nat :=
  match link (heap s o) with Some t => if alive (heap s t) then [t] else [] | None => [] end.
Definition add_new (R X : list nat) : list nat := fold_left (fun acc x => if memb x acc then acc else acc ++ [x]) X R.
Fixpoint closure (s : st) (n : nat) (R : list nat) : list nat :=
  match n with O => R | S n' => closure s n' (add_new R (flat_map (succ_of s) R)) end.
Definition reach (s : st) : list nat := closure s (nobj s) (filter (rooted s) (oids s)).

(* weakref callback InstanceState._cleanup: identity_map._fast_discard, session_id = _strong_obj = None;
   the object's own references disappear with it.  identity_map._modified is NOT touched. *)
Definition free_obj (ob : obj) : obj :=
  set_link None (set_strong false (set_sess false (set_in_map false (set_alive false ob)))).

(* a collector run: of the objects in [l], those that are alive and unreachable are freed *)
Definition collect (l : list nat) (s : st) : st :=
  let R := reach s in
  set_heap (fun o => let ob := heap s o in
                     if memb o l && alive ob && negb (memb o R) then free_obj ob else ob) s.

(* CPython reference counts *)
Definition b2n (b : bool) : nat := if b then 1 else 0.
Definition refcount (s : st) (o : nat) : nat :=
  let ob := heap s o in
  length (filter (is_ref o) (slots s)) + b2n (is_ref o (local s)) + b2n (in_new ob) + b2n (in_del ob)
  + b2n (strong ob)
  + length (filter (fun p => let q := heap s p in alive q && is_ref o (link q)) (oids s)).
Definition rc_zero (s : st) : list nat :=
  filter (fun o => alive (heap s o) && Nat.eqb (refcount s o) 0) (oids s).
Fixpoint rc_iter (n : nat) (s : st) : st :=
  match n with
  | O => s
  | S n' => match rc_zero s with [] => s | l => rc_iter n' (collect l s) end
  end.
Definition rc_collect (s : st) : st := rc_iter (S (nobj s)) s.

(* ---------------------------------------------------------------- orm/state.py *)
(* InstanceState._modified_event for attribute val (w = false) or w (w = true), new value v; also reached
   through attributes.flag_modified (is_userland: the strong reference is established all the same) *)
Definition modev_cond (ob : obj) : bool := (sess ob && negb (strong ob)) || negb (modified ob).
Definition modified_event (w : bool) (v : Z) (ob : obj) : obj :=
  let ob1 := if w then set_pendw (Some v) ob else set_in_val true (set_pend (Some v) ob) in
  if modev_cond ob then
    let ob2 := set_modified true ob1 in
    let ob3 := if in_map ob then set_in_mod true ob2 else ob2 in
    if sess ob then set_strong true ob3 else ob3
  else ob1.

(* InstanceState._commit_all_states, instance_dict = session.identity_map *)
Definition commit_all (ob : obj) : obj :=
  let ob1 := set_pendw None (set_pend None ob) in
  let ob2 := if modified ob then set_in_mod false ob1 else ob1 in
  set_strong false (set_expired false (set_modified false ob2)).

(* InstanceState._expire, modified_set = identity_map._modified *)
Definition expire_obj (ob : obj) : obj :=
  let ob1 := set_in_val false (set_expired true ob) in
  let ob2 := if modified ob then set_modified false (set_pendw None (set_pend None (set_in_mod false ob1))) else ob1 in
  set_strong false ob2.

(* InstanceState._expire_attributes(dict_, [key]): the value and the pending history of that attribute go;
   modified, _strong_obj and the membership in identity_map._modified stay *)
Definition expire_attr (w : bool) (ob : obj) : obj :=
  if w then set_pendw None ob else set_in_val false (set_pend None ob).

(* ---------------------------------------------------------------- orm/session.py: flush *)
Inductive dbact := ANone | AIns (k : N) (r : row) | AUpd (k : N) (v w : option Z) | ADel (k : N).

Definition NULL : Z := (-1)%Z.
(* the statement the unit of work emits for one state *)
Definition act_of (ob : obj) : dbact :=
  if in_del ob then ADel (pk ob)
  else if in_new ob then AIns (pk ob) (match pend ob with Some v => v | None => NULL end,
                                       match pendw ob with Some v => v | None => NULL end)
  else if in_mod ob && in_map ob then
    match pend ob, pendw ob with None, None => ANone | v, w => AUpd (pk ob) v w end
  else ANone.
Definition merge (v w : option Z) (old : row) : row :=
  (match v with Some x => x | None => fst old end, match w with Some x => x | None => snd old end).
Definition apply_act (a : dbact) (df : dbt * bool) : dbt * bool :=
  let (d, f) := df in
  match a with
  | ANone => (d, f)
  | AIns k r => if db_has k d then (d, true) else (db_set k r d, f)       (* IntegrityError *)
  | AUpd k v w => match db_get k d with
                  | Some old => (db_set k (merge v w old) d, f)
                  | None => (d, true)                                      (* StaleDataError *)
                  end
  | ADel k => (db_del k d, f)                                             (* 0 rows matched: warning only *)
  end.
Definition flush_db (s : st) : dbt * bool :=
  fold_left (fun df a => apply_act a df) (map (fun o => act_of (heap s o)) (oids s)) (db s, false).

(* UOWTransaction.finalize_flush_changes for one state *)
Definition flush_obj (ob : obj) : obj :=
  if in_del ob then
    (* _remove_newly_deleted: identity_map.safe_discard (+ _manage_removed_state), _deleted.pop, _deleted = True *)
    let ob1 := if in_map ob then set_in_map false (if modified ob then set_in_mod false ob else ob) else ob in
    (* the DELETE's primary-key lookup refreshes an expired object: val is in state.dict again *)
    set_in_val (in_val ob || expired ob) (set_delflag true (set_in_del false ob1))
  else if in_new ob || (in_mod ob && in_map ob) then
    (* _register_persistent: key, identity_map.replace (+ _manage_incoming_state), _commit_all_states, _new.pop *)
    (* an expired object is refreshed by the UPDATE's primary-key lookup: val is in state.dict again *)
    let ob1 := set_in_val (in_val ob || expired ob) (set_haskey true ob) in
    let ob2 := if in_map ob1 then ob1 else set_in_map true (if modified ob1 then set_in_mod true ob1 else ob1) in
    set_in_new false (commit_all ob2)
  else if in_mod ob then commit_all ob      (* "history events accumulated on previously clean instances" *)
  else ob.

Definition has_work (s : st) : bool :=
  existsb (fun o => let ob := heap s o in in_new ob || in_del ob || in_mod ob) (oids s).

Definition flush (s : st) : st :=
  if has_work s then
    let (d, f) := flush_db s in
    mkSt (fun o => flush_obj (heap s o)) (nobj s) (slots s) (local s) d (next_pk s) (next_val s) (failed s || f)
  else s.

(* SessionTransaction._remove_snapshot (expire_on_commit): expire every state of the identity map, detach
   the states deleted in the transaction *)
Definition commit_obj (ob : obj) : obj :=
  let ob1 := if in_map ob then expire_obj ob else ob in
  if delflag ob1 && sess ob1 then set_strong false (set_sess false ob1) else ob1.

Definition persistent (ob : obj) : bool := haskey ob && sess ob && negb (delflag ob).

(* ---------------------------------------------------------------- operations *)
Inductive op :=
| Load (i : nat) (k : N)   (* slot i = session.get(T, k) *)
| New (i : nat)            (* slot i = T(id = fresh, val = fresh); session.add(slot i) *)
| SetV (i : nat)           (* slot i . val = fresh value *)
| SetW (i : nat)           (* slot i . w = fresh value *)
| Mut (i : nat)            (* in-place change of val: state.dict['val'] = fresh; flag_modified(slot i, 'val') *)
| ExpireAttr (i : nat) (w : bool)   (* session.expire(slot i, ['val' | 'w']) if persistent *)
| Drop (i : nat)           (* slot i = None *)
| Gc                       (* gc.collect() *)
| Flush
| Commit
| Expire (i : nat)         (* session.expire(slot i) if persistent *)
| ExpireAll
| Delete (i : nat)         (* session.delete(slot i) if persistent *)
| Link (i j : nat).        (* slot i . buddy = slot j   (unmapped attribute) *)

Definition attach_cond (ob : obj) : bool := modified ob && negb (strong ob).
Definition new_obj (s : st) : obj :=
  (* constructor sets id and val (no session: modified only), then _save_impl + _after_attach *)
  let ob1 := modified_event false (next_val s) (mkObj true (next_pk s) false false false false false false false false false None None false false None) in
  let ob2 := set_sess true (set_in_new true ob1) in
  if attach_cond ob2 then set_strong true ob2 else ob2.
Definition loaded_obj (k : N) : obj :=
  (* loading._instance: _add_unpresent, session_id, _commit_all *)
  mkObj true k true true false false true false false false false None None true false None.
Definition alloc (ob : obj) (s : st) : st :=
  mkSt (fun x => if Nat.eqb x (nobj s) then ob else heap s x) (S (nobj s)) (slots s) (local s) (db s)
       (next_pk s) (next_val s) (failed s).
Definition bump_pk (s : st) : st := mkSt (heap s) (nobj s) (slots s) (local s) (db s) (N.succ (next_pk s)) (next_val s) (failed s).
Definition bump_val (s : st) : st := mkSt (heap s) (nobj s) (slots s) (local s) (db s) (next_pk s) (Z.succ (next_val s)) (failed s).

Definition load (i : nat) (k : N) (s : st) : st :=
  match lookup k s with
  | Some o =>
      if expired (heap s o) then
        (* refresh of an expired hit: autoflush, then SELECT; the row is gone if the flush deleted it
           (ObjectDeletedError -> None).  If the flush deleted the instance but the row survives (row switch: a
           pending object with the SAME primary key) get_from_identity returns identity_map.get(key); primary
           keys of new objects are fresh here, so that branch is outside this model *)
        let s1 := set_local None (rc_collect (flush (set_local (Some o) s))) in
        if in_map (heap s1 o) then slot_set i (Some o) (upd o (fun ob => set_in_val true (set_expired false ob)) s1)
        else slot_set i None s1
      else slot_set i (Some o) s
  | None =>
      (* miss: autoflush, SELECT, the row is matched against the identity map again *)
      let s1 := rc_collect (flush s) in
      match lookup k s1 with
      | Some o => slot_set i (Some o) s1
      | None => if db_has k (db s1) then slot_set i (Some (nobj s1)) (alloc (loaded_obj k) s1)
                else slot_set i None s1
      end
  end.

Definition step (o : op) (s : st) : st * Z :=
  match o with
  | Load i k => let s' := load i k s in (s', match slot_get s' i with Some _ => 0 | None => 1 end)%Z
  | New i => (slot_set i (Some (nobj s)) (bump_val (bump_pk (alloc (new_obj s) s))), 0%Z)
  | SetV i =>
      match slot_get s i with
      | None => (s, 1%Z)
      | Some o => (bump_val (upd o (modified_event false (next_val s)) s), 0%Z)
      end
  | SetW i =>
      match slot_get s i with
      | None => (s, 1%Z)
      | Some o => (bump_val (upd o (modified_event true (next_val s)) s), 0%Z)
      end
  | Mut i =>
      match slot_get s i with
      | None => (s, 1%Z)
      | Some o => if in_val (heap s o) then (bump_val (upd o (modified_event false (next_val s)) s), 0%Z) else (s, 2%Z)
      end
  | ExpireAttr i w =>
      match slot_get s i with
      | None => (s, 1%Z)
      | Some o => if persistent (heap s o) then (upd o (expire_attr w) s, 0%Z) else (s, 2%Z)
      end
  | Drop i => (slot_set i None s, 0%Z)
  | Gc => (collect (oids s) s, 0%Z)
  | Flush => (flush s, 0%Z)
  | Commit => (hmap commit_obj (flush s), 0%Z)
  | Expire i =>
      match slot_get s i with
      | None => (s, 1%Z)
      | Some o => if persistent (heap s o) then (upd o expire_obj s, 0%Z) else (s, 2%Z)
      end
  | ExpireAll => (hmap (fun ob => if in_map ob then expire_obj ob else ob) s, 0%Z)
  | Delete i =>
      match slot_get s i with
      | None => (s, 1%Z)
      | Some o => if persistent (heap s o) then (upd o (set_in_del true) s, 0%Z) else (s, 2%Z)
      end
  | Link i j =>
      match slot_get s i with
      | None => (s, 1%Z)
      | Some o => (upd o (set_link (slot_get s j)) s, 0%Z)
      end
  end.

(* evaluation aid: the heap as a table (extensionally the same heap) *)
Definition compact (s : st) : st :=
  let l := map (heap s) (oids s) in set_heap (fun o => nth o l dead0) s.

(* one operation as CPython runs it: the operation, then everything whose reference count dropped to
   zero is freed *)
Definition step_cpy (o : op) (s : st) : st * Z :=
  let (s1, rc) := step o s in (compact (rc_collect s1), rc).

Definition init (rows : dbt) (nslots : nat) (npk : N) : st :=
  mkSt (fun _ => dead0) 0 (repeat None nslots) None rows npk 100%Z false.
Definition max_pk (rows : dbt) : N := fold_right (fun (p : N * row) m => N.max (fst p) m) 0%N rows.
(* a fresh Session on a table with the given rows; new primary keys start above the existing ones *)
Definition start (rows : dbt) (nslots : nat) : st := init rows nslots (N.succ (max_pk rows)).
